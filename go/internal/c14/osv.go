package c14

import (
	"archive/zip"
	"bytes"
	"context"
	"encoding/json"
	"fmt"
	"io"
	"net/url"
	"strconv"
	"strings"
	"time"

	"github.com/quay/claircore"
	"github.com/quay/claircore/updater/osv"
	"github.com/quay/claircore/verifharness/internal/hx"
)

// ---- ground truth ----

// sv is a version string together with what semver.NewVersion makes of it.
type sv struct {
	S             string
	OK            bool
	Maj, Min, Pat int
	Pre           bool
}

func (v sv) tok() string {
	if !v.OK {
		return "x"
	}
	p := 0
	if v.Pre {
		p = 1
	}
	return fmt.Sprintf("%d.%d.%d.%d", v.Maj, v.Min, v.Pat, p)
}

type osvEvent struct{ Introduced, Fixed, LastAffected, Limit sv }
type osvRange struct {
	Type   string
	Events []osvEvent
	// how the events were drawn
	Intervals []osvInterval // nil when the event list is not of the alternating shape
}
type osvInterval struct {
	Intro sv
	Close string // "", "fixed", "last_affected"
	End   sv
	Star  bool // a `limit: "*"` event follows the closing event
}
type osvAffected struct {
	Ecosystem, Name, PURL string
	Versions              []string
	Ranges                []osvRange
}
type osvSeverity struct {
	Type, Score string
	Rating      int
}
type osvAdvisory struct {
	ID, Summary string
	Published   time.Time // zero = no "published" member
	Withdrawn   string // "", "past", "future"
	Severities  []osvSeverity
	DB          string // raw database_specific ("" = absent)
	DBSev       *string
	Refs        []string
	Affected    []osvAffected
}

var osvEcosystems = []string{"Go", "Maven", "npm", "PyPI", "RubyGems", "crates.io", "Packagist", "NuGet", "Hex", "go", ""}

func osvKnown(e string) bool {
	switch e {
	case "Go", "Maven", "npm", "PyPI", "RubyGems":
		return true
	}
	return false
}
func osvEncoded(e string) bool { return e == "Maven" || e == "PyPI" || e == "RubyGems" }

// version draws a version >= lo (component-wise growth keeps intervals ordered).
func (g *gen) semver(lo [3]int) (sv, [3]int) {
	n := lo
	switch g.r.Intn(3) {
	case 0:
		n[0] += 1 + g.r.Intn(2)
		n[1], n[2] = g.r.Intn(5), g.r.Intn(5)
	case 1:
		n[1] += 1 + g.r.Intn(4)
		n[2] = g.r.Intn(9)
	default:
		n[2] += 1 + g.r.Intn(6)
	}
	v := sv{OK: true, Maj: n[0], Min: n[1], Pat: n[2]}
	s := fmt.Sprintf("%d.%d.%d", n[0], n[1], n[2])
	switch g.r.Intn(10) {
	case 0:
		s = "v" + s
	case 1:
		if n[2] == 0 {
			s = fmt.Sprintf("%d.%d", n[0], n[1])
		}
	case 2:
		s += "-" + g.r.Pick("rc.1", "beta", "alpha.2", "0")
		v.Pre = true
	case 3:
		s += "+" + g.r.Pick("build.5", "incompatible")
	}
	v.S = s
	return v, n
}

var badVersions = []string{"not-a-version", "1.2.3.4", "1.x", "latest", "1.0.0-", " 1.0.0", "1,0", "é"}

func (g *gen) osvRange(eco string) osvRange {
	r := osvRange{}
	switch x := g.r.Intn(20); {
	case x < 9:
		r.Type = "SEMVER"
	case x < 17:
		r.Type = "ECOSYSTEM"
	case x < 19:
		r.Type = "GIT"
	default:
		r.Type = g.r.Pick("", "OTHER")
	}
	if r.Type == "ECOSYSTEM" && (eco == "Go" || eco == "npm") && !g.r.Chance(1, 20) {
		r.Type = "SEMVER" // Go and npm advisories use SEMVER ranges; an ECOSYSTEM range there makes Insert fail
	}
	if (r.Type == "" || r.Type == "OTHER") && !g.r.Chance(1, 8) {
		r.Type = "SEMVER"
	}
	cur := [3]int{0, 0, 0}
	n := 1 + g.r.Intn(3)
	if g.r.Chance(1, 12) {
		n = 0
	}
	wellShaped := true
	for i := 0; i < n; i++ {
		iv := osvInterval{}
		if i == 0 && g.r.Chance(2, 3) {
			iv.Intro = sv{S: "0", OK: true}
		} else {
			iv.Intro, cur = g.semver(cur)
		}
		closed := i < n-1 || g.r.Chance(3, 4)
		if closed {
			iv.Close = "fixed"
			if g.r.Chance(1, 5) {
				iv.Close = "last_affected"
			}
			iv.End, cur = g.semver(cur)
		}
		iv.Star = closed && g.r.Chance(1, 14)
		r.Intervals = append(r.Intervals, iv)
		r.Events = append(r.Events, osvEvent{Introduced: iv.Intro})
		switch iv.Close {
		case "fixed":
			r.Events = append(r.Events, osvEvent{Fixed: iv.End})
		case "last_affected":
			r.Events = append(r.Events, osvEvent{LastAffected: iv.End})
		}
		if iv.Star {
			r.Events = append(r.Events, osvEvent{Limit: sv{S: "*"}})
		}
	}
	// occasionally break the shape: these event lists are compared with the model only
	if g.r.Chance(1, 16) {
		wellShaped = false
		for k, m := 0, 1+g.r.Intn(2); k < m; k++ {
			var e osvEvent
			v, _ := g.semver(cur)
			if g.r.Chance(1, 3) {
				v = sv{S: g.r.Pick(badVersions...)}
			}
			switch g.r.Intn(7) {
			case 0:
				e.Introduced = v
			case 1:
				e.Fixed = v
			case 2:
				e.LastAffected = v
			case 3:
				e.Limit = sv{S: g.r.Pick("*", "2.0.0", "deadbeef")}
			case 4:
				w, _ := g.semver(cur)
				e.Introduced, e.Fixed = v, w // both in one event object
			case 5:
				// empty event object
			default:
				e.Introduced = sv{S: "0", OK: true}
			}
			pos := g.r.Intn(len(r.Events) + 1)
			r.Events = append(r.Events[:pos], append([]osvEvent{e}, r.Events[pos:]...)...)
		}
	}
	if !wellShaped {
		r.Intervals = nil
	}
	return r
}

var cvssPool = []osvSeverity{
	{Type: "CVSS_V3", Score: "CVSS:3.1/AV:N/AC:L/PR:N/UI:N/S:U/C:H/I:H/A:H"},
	{Type: "CVSS_V3", Score: "CVSS:3.1/AV:N/AC:L/PR:N/UI:N/S:U/C:H/I:N/A:N"},
	{Type: "CVSS_V3", Score: "CVSS:3.0/AV:L/AC:H/PR:H/UI:R/S:U/C:L/I:N/A:N"},
	{Type: "CVSS_V3", Score: "CVSS:3.1/AV:N/AC:L/PR:N/UI:N/S:U/C:N/I:N/A:N"},
	{Type: "CVSS_V3", Score: "CVSS:3.1/AV:N/AC:H/PR:L/UI:R/S:C/C:L/I:L/A:N"},
	{Type: "CVSS_V3", Score: "CVSS:3.1/AV:N"},
	{Type: "CVSS_V3", Score: "garbage"},
	{Type: "CVSS_V3", Score: ""},
	{Type: "CVSS_V2", Score: "AV:N/AC:L/Au:N/C:P/I:P/A:P"},
	{Type: "CVSS_V2", Score: "AV:L/AC:H/Au:N/C:C/I:C/A:C"},
	{Type: "CVSS_V2", Score: "AV:L/AC:H/Au:M/C:N/I:N/A:P"},
	{Type: "CVSS_V2", Score: "AV:X"},
	{Type: "CVSS_V4", Score: "CVSS:4.0/AV:N/AC:L/AT:N/PR:N/UI:N/VC:H/VI:H/VA:H/SC:N/SI:N/SA:N"},
	{Type: "", Score: "whatever"},
}

func cvssRating(s osvSeverity) int {
	var sev claircore.Severity
	var err error
	switch s.Type {
	case "CVSS_V3":
		sev, err = osv.FromCVSS3ForVerif(context.Background(), s.Score)
	case "CVSS_V2":
		sev, err = osv.FromCVSS2ForVerif(s.Score)
	}
	if err != nil {
		return 0
	}
	return int(sev)
}

func (g *gen) osvAdvisory(updEco string) osvAdvisory {
	a := osvAdvisory{ID: g.r.Pick("GHSA-", "PYSEC-2023-", "GO-2022-", "RUSTSEC-2021-") + g.word(4, 6), Summary: g.text(5), Published: g.date()}
	switch g.r.Intn(8) {
	case 0:
		a.Withdrawn = "past"
	case 1:
		a.Withdrawn = "future"
	}
	for i, n := 0, g.r.Intn(3); i < n && g.r.Chance(2, 3); i++ {
		s := cvssPool[g.r.Intn(len(cvssPool))]
		s.Rating = cvssRating(s)
		a.Severities = append(a.Severities, s)
	}
	switch g.r.Intn(9) {
	case 0, 1, 2:
		s := g.r.Pick("LOW", "MODERATE", "HIGH", "CRITICAL", "low", "Medium", "unknown", "negligible", "", "SEVERE", "Hıgh", "moderate ")
		a.DBSev = &s
		b, _ := json.Marshal(map[string]any{"severity": s, "cwe_ids": []string{"CWE-79"}})
		a.DB = string(b)
	case 3:
		a.DB = `{"severity":null}`
	case 4:
		a.DB = g.r.Pick(`{"severity":5}`, `{"severity":["HIGH"]}`, `{"cwe_ids":[]}`, `[]`, `"HIGH"`, `{}`)
	}
	for i, n := 0, g.r.Intn(3); i < n; i++ {
		a.Refs = append(a.Refs, g.r.Pick(genURL(g), genURL(g), ""))
	}
	naf := 1 + g.r.Intn(3)
	if g.r.Chance(1, 10) {
		naf = 0
	}
	for i := 0; i < naf; i++ {
		af := osvAffected{Ecosystem: updEco, Name: g.pkg()}
		if g.r.Chance(1, 4) {
			af.Ecosystem = g.r.Pick(osvEcosystems...)
		}
		if g.r.Chance(1, 2) {
			af.PURL = "pkg:" + strings.ToLower(af.Ecosystem) + "/" + af.Name
		}
		if g.r.Chance(1, 4) {
			af.Versions = []string{"1.0.0", "1.0.1"}
		}
		nr := 1 + g.r.Intn(2)
		if g.r.Chance(1, 10) {
			nr = 0
		}
		for j := 0; j < nr; j++ {
			af.Ranges = append(af.Ranges, g.osvRange(af.Ecosystem))
		}
		a.Affected = append(a.Affected, af)
	}
	return a
}

// ---- rendering: OSV JSON, zip of zips ----

func renderEvent(e osvEvent) map[string]string {
	m := map[string]string{}
	if e.Introduced.S != "" {
		m["introduced"] = e.Introduced.S
	}
	if e.Fixed.S != "" {
		m["fixed"] = e.Fixed.S
	}
	if e.LastAffected.S != "" {
		m["last_affected"] = e.LastAffected.S
	}
	if e.Limit.S != "" {
		m["limit"] = e.Limit.S
	}
	return m
}

func renderAdvisory(a osvAdvisory) []byte {
	doc := map[string]any{"schema_version": "1.3.1", "id": a.ID, "modified": "2023-05-01T10:00:00Z", "details": "details"}
	if !a.Published.IsZero() {
		doc["published"] = a.Published.Format(time.RFC3339)
	}
	if a.Summary != "" {
		doc["summary"] = a.Summary
	}
	switch a.Withdrawn {
	case "past":
		doc["withdrawn"] = "2001-02-03T04:05:06Z"
	case "future":
		doc["withdrawn"] = "2999-01-01T00:00:00Z"
	}
	if a.Severities != nil {
		var ss []map[string]string
		for _, s := range a.Severities {
			ss = append(ss, map[string]string{"type": s.Type, "score": s.Score})
		}
		doc["severity"] = ss
	}
	if a.DB != "" {
		doc["database_specific"] = json.RawMessage(a.DB)
	}
	if a.Refs != nil {
		var rs []map[string]string
		for _, u := range a.Refs {
			rs = append(rs, map[string]string{"type": "WEB", "url": u})
		}
		doc["references"] = rs
	}
	var afs []map[string]any
	for _, af := range a.Affected {
		pk := map[string]string{"ecosystem": af.Ecosystem, "name": af.Name}
		if af.PURL != "" {
			pk["purl"] = af.PURL
		}
		m := map[string]any{"package": pk}
		if af.Versions != nil {
			m["versions"] = af.Versions
		}
		var rs []map[string]any
		for _, r := range af.Ranges {
			evs := []map[string]string{}
			for _, e := range r.Events {
				evs = append(evs, renderEvent(e))
			}
			rm := map[string]any{"type": r.Type, "events": evs}
			if r.Type == "GIT" {
				rm["repo"] = "https://example.com/repo.git"
			}
			rs = append(rs, rm)
		}
		if rs != nil {
			m["ranges"] = rs
		}
		afs = append(afs, m)
	}
	if afs != nil {
		doc["affected"] = afs
	}
	b, _ := json.Marshal(doc)
	return b
}

// renderDump: the outer zip (as Fetch writes it) holding <ecosystem>.zip holding one JSON file per advisory.
func renderDump(eco string, advs []osvAdvisory) []byte {
	var inner bytes.Buffer
	zw := zip.NewWriter(&inner)
	for i, a := range advs {
		w, _ := zw.Create(fmt.Sprintf("%s-%d.json", a.ID, i))
		w.Write(renderAdvisory(a))
	}
	zw.Close()
	var outer bytes.Buffer
	ow := zip.NewWriter(&outer)
	w, _ := ow.CreateHeader(&zip.FileHeader{Name: eco + ".zip", Method: zip.Store})
	w.Write(inner.Bytes())
	ow.Close()
	return outer.Bytes()
}

// sizedReader gives Parse an io.ReaderAt with a Size method (no spooling to disk).
type sizedReader struct{ *bytes.Reader }

func (sizedReader) Close() error { return nil }

// ---- op line ----

func (l *line) osvAdvisory(a osvAdvisory) *line {
	w := 0
	if a.Withdrawn == "past" {
		w = 1
	}
	l.str(a.ID).str(a.Summary).str(issuedTok(a.Published)).n(w).n(len(a.Severities))
	for _, s := range a.Severities {
		l.str(s.Type).str(s.Score).n(s.Rating)
	}
	if a.DBSev == nil {
		l.n(0)
	} else {
		l.n(1).str(*a.DBSev)
	}
	l.strs(a.Refs).n(len(a.Affected))
	for _, af := range a.Affected {
		hv := 0
		if len(af.Versions) != 0 {
			hv = 1
		}
		l.str(af.Ecosystem).str(af.Name).str(af.PURL).n(hv).n(len(af.Ranges))
		for _, r := range af.Ranges {
			l.str(r.Type).n(len(r.Events))
			for _, e := range r.Events {
				l.str(e.Introduced.S).str(e.Fixed.S).str(e.LastAffected.S).str(e.Limit.S).tok(e.Introduced.tok()).tok(e.Fixed.tok()).tok(e.LastAffected.tok())
			}
		}
	}
	return l
}

// ---- the statement, read off the ground truth ----

func semverVer(v sv) string {
	if v.S == "0" {
		return fmt.Sprintf("%s:0.0.0.0", hs("semver"))
	}
	return fmt.Sprintf("%s:0.%d.%d.%d", hs("semver"), v.Maj, v.Min, v.Pat)
}

const semverInf = "73656d766572:65535.0.0.0"

// osvWants lists what a well-shaped advisory states (wants); what Insert is
// known to return instead where a range has the shape of a listed finding
// (known, classes); and whether the advisory is inside the oracle's domain.
func osvWants(repoName string, a osvAdvisory, sevStr string, nsev claircore.Severity) (wants, known []want, classes map[string]bool, inDomain bool) {
	classes = map[string]bool{}
	gitOnly := len(a.Affected) != 0
	for _, af := range a.Affected {
		for _, r := range af.Ranges {
			if r.Type != "GIT" {
				gitOnly = false
			}
		}
	}
	if a.Withdrawn == "past" || len(a.Affected) == 0 || gitOnly {
		return nil, nil, classes, true
	}
	for _, af := range a.Affected {
		pkg := af.PURL
		kind := ""
		if osvKnown(af.Ecosystem) {
			pkg, kind = af.Name, "binary"
		}
		for _, r := range af.Ranges {
			if r.Type == "GIT" {
				continue
			}
			if r.Intervals == nil && len(r.Events) > 0 {
				return nil, nil, classes, false // not of the alternating shape: model comparison only
			}
			if r.Type != "SEMVER" && r.Type != "ECOSYSTEM" {
				if len(r.Events) > 0 {
					return nil, nil, classes, false
				}
				continue
			}
			if r.Type == "ECOSYSTEM" && (af.Ecosystem == "Go" || af.Ecosystem == "npm") && len(r.Events) > 0 {
				return nil, nil, classes, false // Insert refuses these (error for the whole dump)
			}
			mk := func(fixed, rng string) want {
				return want{ID: a.ID, Pkg: pkg, Fixed: fixed, Dist: "", eco: af.Ecosystem, Sev: nsev,
					Extra: fmt.Sprintf("kind=%s range=%s repo=%s sevstr=%q issued=%s desc=%q links=%q", kind, rng, repoName, sevStr, issuedTok(a.Published), a.Summary, strings.Join(a.Refs, " "))}
			}
			switch {
			case r.Type == "SEMVER":
				for _, iv := range r.Intervals {
					lo := semverVer(iv.Intro)
					up, fixed := semverInf, ""
					kup := up
					switch iv.Close {
					case "fixed":
						up, fixed = semverVer(iv.End), iv.End.S
						kup = up
					case "last_affected":
						e := iv.End
						if !e.Pre {
							e.Pat++
						}
						up = semverVer(e)
						kup = up
						if len(af.Versions) != 0 {
							classes["osv-last-affected-with-versions"] = true
							kup = semverInf // the event is not interpreted: no upper bound
						}
					}
					if iv.Star {
						classes["osv-limit-overrides-fixed"] = true
						// Upper.Kind = semver; Upper.V[0] = 65535 on top of whatever the closing event stored
						if kup != semverInf {
							kup = strings.Replace(kup, ":0.", ":65535.", 1)
						}
					}
					wants = append(wants, mk(fixed, lo+"~"+up))
					known = append(known, mk(fixed, lo+"~"+kup))
				}
			case osvEncoded(af.Ecosystem):
				for _, iv := range r.Intervals {
					q := url.Values{}
					if iv.Intro.S != "0" {
						q.Add("introduced", iv.Intro.S)
					}
					switch iv.Close {
					case "fixed":
						q.Add("fixed", iv.End.S)
					case "last_affected":
						q.Add("lastAffected", iv.End.S)
					}
					wants = append(wants, mk(q.Encode(), "nil"))
					known = append(known, mk(q.Encode(), "nil"))
				}
			default:
				// no encoder for the ecosystem: the fixed version of each interval is what can be carried
				last := ""
				for _, iv := range r.Intervals {
					fixed := ""
					if iv.Close == "fixed" {
						fixed = iv.End.S
						last = fixed
					}
					wants = append(wants, mk(fixed, "-:0.0.0.0~-:65535.0.0.0"))
				}
				if len(r.Intervals) > 1 {
					classes["osv-ecosystem-intervals-merged"] = true
					known = append(known, mk(last, "-:0.0.0.0~-:65535.0.0.0")) // one cell for the whole range, the last fixed version in it
				} else {
					known = append(known, wants[len(wants)-len(r.Intervals):]...)
				}
			}
		}
	}
	return wants, known, classes, true
}

func osvExtra(v *claircore.Vulnerability) string {
	kind := "?"
	if v.Package != nil {
		kind = v.Package.Kind
	}
	rn := ""
	if v.Repo != nil {
		rn = v.Repo.Name
	}
	hint := "?"
	if v.Package != nil {
		hint = v.Package.RepositoryHint
	}
	return fmt.Sprintf("kind=%s range=%s repo=%s sevstr=%q issued=%s desc=%q links=%q hint=%s", kind, rangeStr(v.Range), rn, v.Severity, issuedTok(v.Issued), v.Description, v.Links, hint)
}

// osvHints completes the expectations of one dump with the repository hint:
// the package records are shared by name within a dump, and a record carries
// the ecosystem of the affected entry it was created for (the first one).
func osvHints(ws []want) []want {
	first := map[string]string{}
	out := make([]want, len(ws))
	for i, w := range ws {
		if _, ok := first[w.Pkg]; !ok {
			first[w.Pkg] = w.eco
		}
		w.Extra += " hint=" + first[w.Pkg]
		out[i] = w
	}
	return out
}

func runOsv(r *hx.Run, g *gen, cfg hx.Config) {
	osvWitnesses(r)
	ecos := []string{"PyPI", "Go", "npm", "Maven", "RubyGems", "crates.io", "Packagist", "NuGet"}
	for it, n := 0, cfg.N(6000, 40000); it < n && !r.Stop(); it++ {
		eco := ecos[it%len(ecos)]
		repoName := strings.ToLower(eco)
		p := osv.ParserForC14(repoName)
		var advs []osvAdvisory
		for i, m := 0, 1+g.r.Intn(3); i < m; i++ {
			advs = append(advs, g.osvAdvisory(eco))
		}
		osvScenario(r, p, repoName, advs, true)
	}
}

type osvParser interface {
	Parse(context.Context, io.ReadCloser) ([]*claircore.Vulnerability, error)
	Name() string
}

// osvScenario renders the advisories, parses them with the real Parse, records
// the protocol line and (when check) evaluates the statement. It returns the
// parsed vulnerabilities.
func osvScenario(r *hx.Run, p osvParser, repoName string, advs []osvAdvisory, check bool) ([]*claircore.Vulnerability, string) {
	feed := renderDump(repoName, advs)
	l := (&line{}).tok("osv").str(p.Name()).str(repoName).n(len(advs))
	var wants, known []want
	classes := map[string]bool{}
	inDomain := true
	for _, a := range advs {
		l.osvAdvisory(a)
		// the documented severity selection: last CVSS v3/v2 vector, else database_specific.severity
		sevStr, nsev := "", claircore.Unknown
		for _, s := range a.Severities {
			if s.Type == "CVSS_V3" || s.Type == "CVSS_V2" {
				sevStr, nsev = s.Score, claircore.Severity(s.Rating)
			}
		}
		if sevStr == "" && a.DBSev != nil {
			sevStr, nsev = *a.DBSev, osv.SeverityFromDBStringForC14(*a.DBSev)
		}
		ws, ks, cs, ok := osvWants(repoName, a, sevStr, nsev)
		wants = append(wants, ws...)
		known = append(known, ks...)
		for c := range cs {
			classes[c] = true
		}
		inDomain = inDomain && ok
	}
	r.Op("reset", "ok", false)
	vs, err, obs := parseWithTimeout(func(ctx context.Context) ([]*claircore.Vulnerability, error) {
		return p.Parse(ctx, sizedReader{bytes.NewReader(feed)})
	})
	out := obs
	if obs == "" {
		out = canonAll(vs, err, false)
	}
	r.Op(l.String(), out, len(wants) > 0)
	if !check {
		return vs, out
	}
	wit := func() string {
		var parts []string
		for _, a := range advs {
			parts = append(parts, string(renderAdvisory(a)))
		}
		return "advisories=[" + strings.Join(parts, ",") + "]"
	}
	if obs != "" {
		r.Fail("", fmt.Sprintf("osv Parse: %s; %s", obs, clip([]byte(wit()))))
		return vs, out
	}
	if !inDomain {
		r.Count("osv:scenario:model-only")
		return vs, out
	}
	r.Count("osv:scenario:checked:" + bucket(len(wants)))
	if err != nil {
		r.Fail("", fmt.Sprintf("osv Parse of well-formed advisories: %v; %s", err, clip([]byte(wit()))))
		return vs, out
	}
	wants, known = osvHints(wants), osvHints(known)
	if d := checkExact(wants, vs, osvExtra); d != "" {
		// Classified only if the result is exactly what the listed findings predict for the
		// ranges of their shapes (and the stated content everywhere else).
		cls := ""
		if len(classes) > 0 && checkExact(known, vs, osvExtra) == "" {
			var cs []string
			for c := range classes {
				cs = append(cs, c)
			}
			sortStrings(cs)
			cls = cs[0]
			r.Count("osv:finding:" + cls)
		}
		r.Fail(cls, fmt.Sprintf("osv: %s; %s", d, clip([]byte(wit()))))
	}
	for _, v := range vs {
		if v.Dist != nil {
			r.Fail("", "osv: vulnerability "+v.Name+" carries a distribution")
		}
		if v.Range != nil {
			for i := 4; i < 10; i++ {
				if v.Range.Lower.V[i] != 0 || v.Range.Upper.V[i] != 0 {
					r.Fail("", "osv: range of "+v.Name+" uses version slots beyond patch")
				}
			}
		}
	}
	for _, a := range advs {
		for _, af := range a.Affected {
			for _, rg := range af.Ranges {
				r.Count("osv:range:" + strconv.Quote(rg.Type) + ":" + modeName(af.Ecosystem, rg.Type))
			}
		}
	}
	return vs, out
}

func modeName(eco, typ string) string {
	switch {
	case typ == "SEMVER":
		return "semver"
	case typ == "GIT":
		return "git"
	case typ != "ECOSYSTEM":
		return "plain"
	case osvEncoded(eco):
		return "encoded"
	case eco == "Go" || eco == "npm":
		return "refused"
	}
	return "other"
}

// osvWitnesses replays the fixed witnesses of the listed findings.
func osvWitnesses(r *hx.Run) {
	v := func(s string, a, b, c int) sv { return sv{S: s, OK: true, Maj: a, Min: b, Pat: c} }
	zero := sv{S: "0", OK: true}
	summarize := func(vs []*claircore.Vulnerability) string {
		var parts []string
		for _, x := range vs {
			parts = append(parts, fmt.Sprintf("[fixed=%q range=%s]", x.FixedInVersion, rangeStr(x.Range)))
		}
		return strings.Join(parts, " ")
	}
	// 1. SEMVER: introduced 0, fixed 1.2.3, limit *  -> the upper bound becomes +inf
	{
		a := osvAdvisory{ID: "GHSA-limit", Affected: []osvAffected{{Ecosystem: "Go", Name: "example.com/m", Ranges: []osvRange{{Type: "SEMVER",
			Events: []osvEvent{{Introduced: zero}, {Fixed: v("1.2.3", 1, 2, 3)}, {Limit: sv{S: "*"}}}}}}}}
		vs, _ := osvScenario(r, osv.ParserForC14("go"), "go", []osvAdvisory{a}, false)
		got := summarize(vs)
		switch got {
		case `[fixed="1.2.3" range=` + semverVer(zero) + "~" + semverVer(v("1.2.3", 1, 2, 3)) + `]`:
		case `[fixed="1.2.3" range=` + semverVer(zero) + "~" + hs("semver") + `:65535.1.2.3]`:
			r.KnownSeen("osv-limit-overrides-fixed", `SEMVER events introduced 0, fixed 1.2.3, limit "*" (no limit) state [0, 1.2.3); Insert returns `+got)
		default:
			r.Fail("", "osv limit witness: returned "+got)
		}
	}
	// 2. SEMVER: last_affected with an explicit versions list -> no upper bound at all
	{
		a := osvAdvisory{ID: "GHSA-lastaffected", Affected: []osvAffected{{Ecosystem: "npm", Name: "left-pad", Versions: []string{"1.0.0", "1.1.0"}, Ranges: []osvRange{{Type: "SEMVER",
			Events: []osvEvent{{Introduced: v("1.0.0", 1, 0, 0)}, {LastAffected: v("1.1.0", 1, 1, 0)}}}}}}}
		vs, _ := osvScenario(r, osv.ParserForC14("npm"), "npm", []osvAdvisory{a}, false)
		got := summarize(vs)
		switch got {
		case `[fixed="" range=` + semverVer(v("", 1, 0, 0)) + "~" + semverVer(v("", 1, 1, 1)) + `]`:
		case `[fixed="" range=` + semverVer(v("", 1, 0, 0)) + "~" + semverInf + `]`:
			r.KnownSeen("osv-last-affected-with-versions", `SEMVER events introduced 1.0.0, last_affected 1.1.0 with a versions list state [1.0.0, 1.1.1); Insert returns `+got)
		default:
			r.Fail("", "osv last_affected witness: returned "+got)
		}
	}
	// 2b. regression (fixed c4dd53d8): one advisory for a package -> the package record carries the ecosystem as repository hint
	{
		a := osvAdvisory{ID: "PYSEC-hint", Affected: []osvAffected{{Ecosystem: "PyPI", Name: "requests", Ranges: []osvRange{{Type: "ECOSYSTEM",
			Events: []osvEvent{{Introduced: zero}, {Fixed: v("2.31.0", 2, 31, 0)}}}}}}}
		vs, _ := osvScenario(r, osv.ParserForC14("pypi"), "pypi", []osvAdvisory{a}, false)
		if len(vs) != 1 || vs[0].Package == nil || vs[0].Package.RepositoryHint != "PyPI" {
			hint := "?"
			if len(vs) == 1 && vs[0].Package != nil {
				hint = vs[0].Package.RepositoryHint
			}
			r.Fail("", fmt.Sprintf("osv: a dump with one PyPI advisory for requests returns %d vulnerabilities with Package.RepositoryHint %q (want 1 with \"PyPI\")", len(vs), hint))
		}
	}
	// 3. ECOSYSTEM range of an ecosystem without encoder, two intervals -> one vulnerability with the last fixed version
	{
		a := osvAdvisory{ID: "GHSA-intervals", Affected: []osvAffected{{Ecosystem: "Packagist", Name: "vendor/pkg", PURL: "pkg:composer/vendor/pkg", Ranges: []osvRange{{Type: "ECOSYSTEM",
			Events: []osvEvent{{Introduced: zero}, {Fixed: v("1.5.0", 1, 5, 0)}, {Introduced: v("2.0.0", 2, 0, 0)}, {Fixed: v("2.5.0", 2, 5, 0)}}}}}}}
		vs, _ := osvScenario(r, osv.ParserForC14("packagist"), "packagist", []osvAdvisory{a}, false)
		got := summarize(vs)
		switch got {
		case `[fixed="1.5.0" range=-:0.0.0.0~-:65535.0.0.0] [fixed="2.5.0" range=-:0.0.0.0~-:65535.0.0.0]`:
		case `[fixed="2.5.0" range=-:0.0.0.0~-:65535.0.0.0]`:
			r.KnownSeen("osv-ecosystem-intervals-merged", `Packagist ECOSYSTEM events introduced 0, fixed 1.5.0, introduced 2.0.0, fixed 2.5.0 state two intervals; Insert returns one vulnerability: `+got)
		default:
			r.Fail("", "osv intervals witness: returned "+got)
		}
	}
}
