// Package c14 is the harness of property C14 (feed parsers translate
// advisories faithfully, with documented severities).
//
// For every format a ground truth (advisories x packages x releases ...) is
// generated, *rendered* into the wire format and parsed by the real
// Parse/DeltaParse.  The ground truth is written as the operation line (the
// Lean model answers it), the canonical rendering of the returned
// vulnerabilities is the implementation's answer, and the property statement is
// checked directly on the returned vulnerabilities against the ground truth.
package c14

import (
	"context"
	"fmt"
	"sort"
	"strconv"
	"strings"
	"time"

	"github.com/quay/claircore"
	"github.com/quay/claircore/toolkit/types/cpe"
	"github.com/quay/claircore/verifharness/internal/hx"
	"github.com/quay/zlog"
	"github.com/rs/zerolog"
)

// ---- canonical rendering of a returned vulnerability (Model/FeedCommon.lean Vuln.render) ----

func hs(s string) string { return hx.Hex([]byte(s)) }

// distKey renders every field of a distribution the parsers can set:
// DID|VersionID|VersionCodeName|Name|Version|PrettyName|Arch|CPE.
func distKey(d *claircore.Distribution) string {
	if d == nil {
		return ""
	}
	return strings.Join([]string{d.DID, d.VersionID, d.VersionCodeName, d.Name, d.Version, d.PrettyName, d.Arch, d.CPE.BindFS()}, "|")
}

// mkDistKey is the harness's own statement of a release's distribution (the
// expectation the real parsers' distributions are compared with).
func mkDistKey(did, versionID, codeName, name, version, pretty, cpeURI string) string {
	w := cpe.WFN{}
	if cpeURI != "" {
		w = cpe.MustUnbind(cpeURI)
	}
	return strings.Join([]string{did, versionID, codeName, name, version, pretty, "", w.BindFS()}, "|")
}

// issuedTok is the canonical form of a time: unix seconds, "" for the zero time.
func issuedTok(t time.Time) string {
	if t.IsZero() {
		return ""
	}
	return strconv.FormatInt(t.Unix(), 10)
}

// unmodelled lists fields no parser of this property sets; a non-empty result
// is appended to the canonical record (the model never produces it).
func unmodelled(v *claircore.Vulnerability) string {
	var x []string
	if v.ID != "" {
		x = append(x, "ID="+v.ID)
	}
	if p := v.Package; p != nil {
		if p.ID != "" || p.Version != "" || p.Source != nil || p.PackageDB != "" || p.Filepath != "" || p.NormalizedVersion.Kind != "" || p.CPE.BindFS() != (cpe.WFN{}).BindFS() {
			x = append(x, fmt.Sprintf("Package{ID=%q Version=%q Source=%v PackageDB=%q Filepath=%q NormalizedVersion=%q CPE=%q}", p.ID, p.Version, p.Source != nil, p.PackageDB, p.Filepath, p.NormalizedVersion.Kind, p.CPE.BindFS()))
		}
	}
	if d := v.Dist; d != nil && d.ID != "" {
		x = append(x, "Dist.ID="+d.ID)
	}
	if r := v.Repo; r != nil && r.ID != "" {
		x = append(x, "Repo.ID="+r.ID)
	}
	if r := v.Range; r != nil {
		for i := 4; i < len(r.Lower.V); i++ {
			if r.Lower.V[i] != 0 || r.Upper.V[i] != 0 {
				x = append(x, "Range uses version slots beyond the fourth")
				break
			}
		}
	}
	return strings.Join(x, ";")
}

func repoKey(r *claircore.Repository) string {
	if r == nil {
		return ""
	}
	return r.Name + "|" + r.Key + "|" + r.URI
}

func verStr(v *claircore.Version) string {
	return fmt.Sprintf("%s:%d.%d.%d.%d", hs(v.Kind), v.V[0], v.V[1], v.V[2], v.V[3])
}

func rangeStr(r *claircore.Range) string {
	if r == nil {
		return "nil"
	}
	return verStr(&r.Lower) + "~" + verStr(&r.Upper)
}

func canon(v *claircore.Vulnerability) string {
	f := []string{hs(v.Updater), hs(v.Name), hs(v.Description), hs(v.Links), hs(v.Severity), strconv.Itoa(int(v.NormalizedSeverity))}
	if v.Package == nil {
		f = append(f, "nopkg", "-", "-", "-", "-")
	} else {
		f = append(f, "p", hs(v.Package.Name), hs(v.Package.Kind), hs(v.Package.Module), hs(v.Package.Arch))
	}
	hint := ""
	if v.Package != nil {
		hint = v.Package.RepositoryHint
	}
	f = append(f, strconv.Itoa(int(v.ArchOperation)), hs(v.FixedInVersion), hs(distKey(v.Dist)), hs(repoKey(v.Repo)), rangeStr(v.Range), hs(issuedTok(v.Issued)), hs(hint))
	if u := unmodelled(v); u != "" {
		f = append(f, "unmodelled:"+hs(u))
	}
	return strings.Join(f, ",")
}

// canonAll renders a Parse result: "ok <n> <rec>..." (records sorted when the
// order comes out of a Go map) or "err".
func canonAll(vs []*claircore.Vulnerability, err error, sorted bool) string {
	if err != nil {
		return "err"
	}
	rs := make([]string, len(vs))
	for i, v := range vs {
		if v == nil {
			rs[i] = "nilvuln"
			continue
		}
		rs[i] = canon(v)
	}
	if sorted {
		sort.Strings(rs)
	}
	return strings.Join(append([]string{"ok " + strconv.Itoa(len(rs))}, rs...), " ")
}

// ---- op-line builder ----

type line struct{ b strings.Builder }

func (l *line) tok(s string) *line {
	if l.b.Len() > 0 {
		l.b.WriteByte(' ')
	}
	l.b.WriteString(s)
	return l
}
func (l *line) str(s string) *line { return l.tok(hs(s)) }
func (l *line) n(i int) *line      { return l.tok(strconv.Itoa(i)) }
func (l *line) String() string     { return l.b.String() }

// ---- the direct statement oracle: expected multiset vs. returned multiset ----

// want is one vulnerability the feed states: the fields the property names.
type want struct {
	ID, Pkg, Fixed, Dist string
	Extra                string // format-specific (module, arch, range, repo)
	Sev                  claircore.Severity
	eco                  string // OSV: the affected entry's ecosystem (not part of the key; see osvHints)
}

func (w want) key() string {
	return fmt.Sprintf("id=%q pkg=%q fixed=%q release=%q %s sev=%s", w.ID, w.Pkg, w.Fixed, w.Dist, w.Extra, w.Sev)
}

// checkExact compares the returned vulnerabilities with the stated ones as
// multisets of (identifier, package, fixed version, release, extra, severity).
// It returns the first discrepancy ("" if none).
func checkExact(wants []want, got []*claircore.Vulnerability, extra func(*claircore.Vulnerability) string) string {
	exp := map[string]int{}
	for _, w := range wants {
		exp[w.key()]++
	}
	act := map[string]int{}
	for _, v := range got {
		if v == nil {
			return "nil vulnerability returned"
		}
		if v.NormalizedSeverity > claircore.Critical {
			return fmt.Sprintf("severity %d is not one of the six defined values (%s)", v.NormalizedSeverity, v.Name)
		}
		pk := ""
		if v.Package != nil {
			pk = v.Package.Name
		}
		w := want{ID: v.Name, Pkg: pk, Fixed: v.FixedInVersion, Dist: distKey(v.Dist), Sev: v.NormalizedSeverity}
		if extra != nil {
			w.Extra = extra(v)
		}
		act[w.key()]++
	}
	keys := make([]string, 0, len(exp)+len(act))
	for k := range exp {
		keys = append(keys, k)
	}
	for k := range act {
		if _, ok := exp[k]; !ok {
			keys = append(keys, k)
		}
	}
	sort.Strings(keys)
	for _, k := range keys {
		if exp[k] != act[k] {
			msg := fmt.Sprintf("stated %d time(s), returned %d time(s): %s", exp[k], act[k], k)
			// name the counterpart that differs, if one shares identifier and package
			pre := k
			if i := strings.Index(k, " fixed="); i > 0 {
				pre = k[:i]
			}
			other := exp
			what := "stated instead"
			if exp[k] > act[k] {
				other, what = act, "returned instead"
			}
			for _, k2 := range keys {
				if k2 != k && strings.HasPrefix(k2, pre) && exp[k2] != act[k2] && other[k2] > 0 {
					msg += fmt.Sprintf(" (%s: %s)", what, k2)
					break
				}
			}
			return msg
		}
	}
	return ""
}

// ---- generators ----

type gen struct{ r *hx.Rand }

var cveYears = []string{"2014", "2019", "2021", "2023", "2024"}

func (g *gen) cve() string {
	return "CVE-" + g.r.Pick(cveYears...) + "-" + strconv.Itoa(1000+g.r.Intn(40))
}

var pkgPool = []string{"openssl", "curl", "zlib", "busybox", "glibc", "libxml2", "bash", "nginx", "python3", "kernel", "httpd-devel", "libssl1.1", "expat", "sqlite", "tar"}

func (g *gen) pkg() string {
	p := g.r.Pick(pkgPool...)
	if g.r.Chance(1, 4) {
		p += "-" + g.r.Pick("libs", "dev", "doc", "common", "utils")
	}
	return p
}

const safeAlpha = "abcdefghijklmnopqrstuvwxyzABCDEFGHIJKLMNOPQRSTUVWXYZ0123456789"

// word is a short alphanumeric token.
func (g *gen) word(min, max int) string {
	n := min + g.r.Intn(max-min+1)
	b := make([]byte, n)
	for i := range b {
		b[i] = safeAlpha[g.r.Intn(len(safeAlpha))]
	}
	return string(b)
}

var oddPieces = []string{"<", ">", "&", "\"", "'", "é", "漢字", "𝔘", " ", "  ", "/", "\\", "%", "+", "=", "?", "#", ";", ":", "|", ",", "*", "~", "ſ", "K", "İ"}

// text is free text: words with occasional markup-significant and non-ASCII
// pieces; never starts or ends with a space, no control characters.
func (g *gen) text(maxWords int) string {
	n := g.r.Intn(maxWords + 1)
	var b strings.Builder
	for i := 0; i < n; i++ {
		if i > 0 {
			b.WriteByte(' ')
		}
		b.WriteString(g.word(1, 8))
		if g.r.Chance(1, 5) {
			p := g.r.Pick(oddPieces...)
			if strings.TrimSpace(p) != "" {
				b.WriteString(p)
			}
		}
	}
	return b.String()
}

func (g *gen) debVersion() string {
	v := strconv.Itoa(g.r.Intn(4)) + "." + strconv.Itoa(g.r.Intn(20))
	if g.r.Chance(1, 2) {
		v += "." + strconv.Itoa(g.r.Intn(10))
	}
	if g.r.Chance(1, 5) {
		v = strconv.Itoa(1+g.r.Intn(3)) + ":" + v
	}
	switch g.r.Intn(4) {
	case 0:
		v += "-r" + strconv.Itoa(g.r.Intn(9))
	case 1:
		v += "-" + strconv.Itoa(1+g.r.Intn(5)) + g.r.Pick("", "+deb11u1", "ubuntu0.1", "~bpo10+1")
	case 2:
		v += "-" + strconv.Itoa(g.r.Intn(30)) + ".el" + strconv.Itoa(6+g.r.Intn(4))
	}
	return v
}

// date draws an issue date (second precision, UTC); zero one time in six.
func (g *gen) date() time.Time {
	if g.r.Chance(1, 6) {
		return time.Time{}
	}
	return time.Date(2009+g.r.Intn(16), time.Month(1+g.r.Intn(12)), 1+g.r.Intn(28), g.r.Intn(24), g.r.Intn(60), g.r.Intn(60), 0, time.UTC)
}

func genURL(g *gen) string {
	return "https://" + g.r.Pick("example.com", "security.example.org", "bugs.example.net") + "/" + g.word(3, 10)
}

// distinct returns n distinct strings drawn from f (fewer if f keeps repeating).
func distinct(n int, f func() string) []string {
	seen := map[string]bool{}
	var out []string
	for tries := 0; len(out) < n && tries < 8*n+8; tries++ {
		s := f()
		if !seen[s] {
			seen[s] = true
			out = append(out, s)
		}
	}
	return out
}

// parseWithTimeout runs a real Parse under recover and a deadline.
func parseWithTimeout(f func(ctx context.Context) ([]*claircore.Vulnerability, error)) (vs []*claircore.Vulnerability, err error, obs string) {
	type res struct {
		vs  []*claircore.Vulnerability
		err error
		obs string
	}
	ch := make(chan res, 1)
	ctx, cancel := context.WithTimeout(context.Background(), 20*time.Second)
	defer cancel()
	go func() {
		var out res
		out.obs = hx.Guard(func() string {
			out.vs, out.err = f(ctx)
			return ""
		})
		ch <- out
	}()
	select {
	case out := <-ch:
		return out.vs, out.err, out.obs
	case <-time.After(25 * time.Second):
		return nil, nil, "hang"
	}
}

// Run is the harness entry point for C14.
func Run(cfg hx.Config) error {
	r, err := hx.NewRun(cfg)
	if err != nil {
		return err
	}
	r.Rule = "severity: every documented string of every source, case variants, unknown and non-ASCII strings through the real normalize functions; CVSS vectors through fromCVSS2/3 with the score of toolkit/types/cvss as parameter. Feeds: a generated ground truth (advisories x packages x releases/ranges, per format) is rendered into the wire format (secdb JSON, Debian tracker JSON, updateinfo XML, OVAL XML, OSV zip of zips) and parsed by the real Parse; a case is non-trivial when the feed states at least one vulnerability (distinct by ground truth)"
	nop := zerolog.Nop()
	zlog.Set(&nop)
	rnd := hx.NewRand(cfg.Seed)
	g := &gen{r: rnd}
	r.Op("reset", "ok", false)
	runSeverity(r, g, cfg)
	runSecdb(r, g, cfg)
	runDebian(r, g, cfg)
	runAws(r, g, cfg)
	runOval(r, g, cfg)
	runOsv(r, g, cfg)
	runVex(r, g, cfg)
	return r.Close()
}

func sortStrings(xs []string) { sort.Strings(xs) }
