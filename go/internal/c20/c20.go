// Package c20 drives the two process-local lock sources through scripted and
// free-running schedules, linearises what happened through the verifhook
// points (called while the implementation's own mutex is held) and emits the
// trace in the line protocol of the Lean lock machine.
package c20

import (
	"context"
	"fmt"
	"runtime"
	"sync"
	"time"

	"github.com/quay/claircore/internal/verifhook"
	"github.com/quay/claircore/libvuln/updates"
	"github.com/quay/claircore/updater"
	"github.com/quay/claircore/verifharness/internal/hx"
)

type locker interface {
	Lock(context.Context, string) (context.Context, context.CancelFunc)
	TryLock(context.Context, string) (context.Context, context.CancelFunc)
}

type grant struct {
	gid      int
	key      int
	parent   int
	ctx      context.Context
	cancel   context.CancelFunc
	released bool
}

type thread struct {
	tid    int
	key    int
	parent int
	parked bool
}

// tracer turns hook events into protocol lines. All of its state is guarded
// by mu; the hook runs under the lock source's mutex, so line order is the
// real order of the critical sections.
type tracer struct {
	mu       sync.Mutex
	run      *hx.Run
	byGo     map[int64]*thread // goroutine -> thread currently inside Lock
	tryArgs  map[int64][2]int  // goroutine -> (key,parent) of a TryLock in progress
	relArg   map[int64]int     // goroutine -> gid being released
	relFired map[int64]bool
	lastAcq  map[int64]int // goroutine -> gid acquired by the call in progress
	issued   int
	holders  map[int]int // key -> live grants according to acquire/release events
	released map[int]bool
	events   chan string
}

func newTracer(r *hx.Run) *tracer {
	return &tracer{run: r, byGo: map[int64]*thread{}, tryArgs: map[int64][2]int{}, relArg: map[int64]int{},
		relFired: map[int64]bool{}, released: map[int]bool{}, lastAcq: map[int64]int{}, holders: map[int]int{}, events: make(chan string, 1<<16)}
}

func keyName(k int) string { return fmt.Sprintf("k%d", k) }

func (t *tracer) hook(site, key string) {
	g := hx.GoID()
	t.mu.Lock()
	defer t.mu.Unlock()
	switch site {
	case "lock.park":
		th := t.byGo[g]
		if th == nil {
			return
		}
		if th.parked {
			t.run.Op(fmt.Sprintf("retest %d", th.tid), "parked", true)
		} else {
			th.parked = true
			t.run.Op(fmt.Sprintf("lock %d %d %d", th.tid, th.key, th.parent), "parked", true)
		}
		t.events <- "park"
	case "lock.acquire":
		th := t.byGo[g]
		if th == nil {
			return
		}
		gid := t.issued
		t.issued++
		t.lastAcq[g] = gid
		t.acquired(th.key)
		if th.parked {
			t.run.Op(fmt.Sprintf("retest %d", th.tid), fmt.Sprintf("acq %d", gid), true)
		} else {
			t.run.Op(fmt.Sprintf("lock %d %d %d", th.tid, th.key, th.parent), fmt.Sprintf("acq %d", gid), true)
		}
		th.parked = false
		t.events <- "acq"
	case "lock.try.acquire":
		a, ok := t.tryArgs[g]
		if !ok {
			return
		}
		gid := t.issued
		t.issued++
		t.lastAcq[g] = gid
		t.acquired(a[0])
		t.run.Op(fmt.Sprintf("try %d %d", a[0], a[1]), fmt.Sprintf("acq %d", gid), true)
	case "lock.try.busy":
		a, ok := t.tryArgs[g]
		if !ok {
			return
		}
		t.lastAcq[g] = -1
		if t.holders[a[0]] == 0 {
			t.run.Fail("", fmt.Sprintf("trylock-busy-on-free-key key=%d", a[0]))
		}
		t.run.Op(fmt.Sprintf("try %d %d", a[0], a[1]), "busy", true)
	case "lock.release":
		gid, ok := t.relArg[g]
		if !ok {
			return
		}
		t.relFired[g] = true
		var k int
		fmt.Sscanf(key, "k%d", &k)
		if t.released[gid] {
			// the statement: releasing is safe to repeat
			t.run.Fail("", fmt.Sprintf("repeated-release-unlocked-key-again gid=%d key=%d holders-now=%d", gid, k, t.holders[k]))
		} else {
			t.holders[k]--
		}
		t.released[gid] = true
		t.run.Op(fmt.Sprintf("release %d", gid), "released", true)
	}
}

// acquired is the direct statement check: a grant while another is live on
// the same key is a mutual-exclusion failure of the implementation.
func (t *tracer) acquired(k int) {
	t.holders[k]++
	if t.holders[k] > 1 {
		t.run.Fail("", fmt.Sprintf("two-holders key=%d", k))
	}
}

type world struct {
	name    string
	l       locker
	tr      *tracer
	parents []context.Context
	pcancel []context.CancelFunc
	pdead   []bool
	grants  []*grant
	wg      sync.WaitGroup
	gmu     sync.Mutex
}

func newWorld(name string, r *hx.Run, nparents int) *world {
	w := &world{name: name, tr: newTracer(r)}
	switch name {
	case "updates":
		w.l = updates.NewLocalLockSource()
	default:
		w.l = updater.NewLocalLockerForVerif()
	}
	for i := 0; i < nparents; i++ {
		c, f := context.WithCancel(context.Background())
		w.parents = append(w.parents, c)
		w.pcancel = append(w.pcancel, f)
		w.pdead = append(w.pdead, false)
	}
	verifhook.Install(w.tr.hook)
	return w
}

func (w *world) addGrant(gid, key int, c context.Context, f context.CancelFunc) {
	w.gmu.Lock()
	for len(w.grants) <= gid {
		w.grants = append(w.grants, nil)
	}
	w.grants[gid] = &grant{gid: gid, key: key, ctx: c, cancel: f}
	w.gmu.Unlock()
}

func (w *world) try(k, p int) {
	g := hx.GoID()
	w.tr.mu.Lock()
	w.tr.tryArgs[g] = [2]int{k, p}
	w.tr.mu.Unlock()
	c, f := w.l.TryLock(w.parents[p], keyName(k))
	w.tr.mu.Lock()
	gid := w.tr.lastAcq[g]
	delete(w.tr.tryArgs, g)
	w.tr.mu.Unlock()
	if gid < 0 {
		if c.Err() == nil {
			w.tr.run.Fail("", fmt.Sprintf("trylock-busy-returned-live-context key=%d", k))
		}
		return
	}
	if c.Err() != nil && !w.pdead[p] {
		w.tr.run.Fail("", fmt.Sprintf("trylock-acquired-dead-context key=%d", k))
	}
	if c.Err() == nil && w.pdead[p] {
		w.tr.run.Fail("", fmt.Sprintf("holder-context-live-although-parent-cancelled key=%d parent=%d", k, p))
	}
	w.addGrant(gid, k, c, f)
}

// lock starts a goroutine performing a blocking Lock as thread tid.
func (w *world) lock(tid, k, p int, after func(gid int)) {
	w.wg.Add(1)
	started := make(chan struct{})
	go func() {
		defer w.wg.Done()
		g := hx.GoID()
		w.tr.mu.Lock()
		w.tr.byGo[g] = &thread{tid: tid, key: k, parent: p}
		w.tr.mu.Unlock()
		close(started)
		c, f := w.l.Lock(w.parents[p], keyName(k))
		w.tr.mu.Lock()
		gid := w.tr.lastAcq[g]
		delete(w.tr.byGo, g)
		w.tr.mu.Unlock()
		w.addGrant(gid, k, c, f)
		if after != nil {
			after(gid)
		}
	}()
	<-started
}

func (w *world) release(gid int) {
	w.gmu.Lock()
	gr := w.grants[gid]
	w.gmu.Unlock()
	g := hx.GoID()
	w.tr.mu.Lock()
	w.tr.relArg[g] = gid
	w.tr.relFired[g] = false
	w.tr.mu.Unlock()
	gr.cancel()
	w.tr.mu.Lock()
	fired := w.tr.relFired[g]
	delete(w.tr.relArg, g)
	if !fired {
		w.tr.run.Op(fmt.Sprintf("release %d", gid), "noop", true)
	}
	w.tr.mu.Unlock()
	if gr.ctx.Err() == nil {
		w.tr.run.Fail("", fmt.Sprintf("release-left-context-live gid=%d", gid))
	}
}

func (w *world) ctxQuery(gid int) {
	w.gmu.Lock()
	gr := w.grants[gid]
	w.gmu.Unlock()
	out := "dead"
	if gr.ctx.Err() == nil {
		out = "live"
	}
	w.tr.mu.Lock()
	w.tr.run.Op(fmt.Sprintf("ctx %d", gid), out, true)
	w.tr.mu.Unlock()
}

// await waits for n hook events from goroutines inside Lock.
func (w *world) await(n int, what string) bool {
	// Not a timing assumption: an awaited event is missing only when every
	// other goroutine is blocked and the event queue is empty; the deadline
	// only bounds a livelock.
	deadline := time.Now().Add(60 * time.Second)
	for i := 0; i < n; i++ {
		for got := false; !got; {
			select {
			case <-w.tr.events:
				got = true
			default:
				if !othersBusy() {
					select {
					case <-w.tr.events:
						got = true
					default:
						w.tr.run.Fail("", "no-progress "+what)
						return false
					}
				} else if time.Now().After(deadline) {
					w.tr.run.Fail("", "no-progress "+what+" (goroutines still running)")
					return false
				} else {
					runtime.Gosched()
				}
			}
		}
	}
	return true
}

// scripted runs one deterministic scenario: the main goroutine issues one
// operation at a time and waits until every goroutine the operation could
// have woken has re-tested (each re-test is a hook event).
func scripted(r *hx.Run, rnd *hx.Rand, impl string, nops int) {
	nkeys := 1 + rnd.Intn(3)
	nparents := 2
	w := newWorld(impl, r, nparents)
	defer verifhook.Install(nil)
	r.Op("reset", "ok", false)
	type waiter struct{ tid, key int }
	var parked []waiter
	nextTid := 0
	live := map[int]int{} // key -> gid of live grant, harness's view from events
	var all []int         // all gids ever granted
	ok := true
	sync := func() {
		// recompute `live` from the grants table
		w.gmu.Lock()
		for i, g := range w.grants {
			if g != nil && !contains(all, i) {
				all = append(all, i)
				live[g.key] = i
			}
		}
		w.gmu.Unlock()
	}
	for i := 0; i < nops && ok; i++ {
		switch c := rnd.Intn(100); {
		case c < 25:
			k, p := rnd.Intn(nkeys), rnd.Intn(nparents)
			w.try(k, p)
			sync()
			r.Count("op:try")
		case c < 50 && len(parked) < 12:
			k, p := rnd.Intn(nkeys), rnd.Intn(nparents)
			tid := nextTid
			nextTid++
			_, held := live[k]
			w.lock(tid, k, p, nil)
			ok = w.await(1, "lock")
			if held {
				parked = append(parked, waiter{tid, k})
				r.Count("op:lock-parked")
			} else {
				time.Sleep(0)
				waitGrant(w, &all, live)
				r.Count("op:lock-free")
			}
		case c < 85 && len(all) > 0:
			// release: mostly live grants, sometimes an already released one
			var gid int
			if rnd.Chance(3, 10) || len(live) == 0 {
				gid = all[rnd.Intn(len(all))]
			} else {
				ks := keysOf(live)
				gid = live[ks[rnd.Intn(len(ks))]]
			}
			w.gmu.Lock()
			gr := w.grants[gid]
			first := !gr.released
			gr.released = true
			w.gmu.Unlock()
			w.release(gid)
			if first {
				r.Count("op:release")
				if cur, okk := live[gr.key]; okk && cur == gid {
					delete(live, gr.key)
				}
				// Broadcast: every parked goroutine re-tests once.
				n := len(parked)
				ok = w.await(n, "release-wakeup")
				if ok && n > 0 {
					// whoever acquired is no longer parked
					waitGrant(w, &all, live)
					var still []waiter
					for _, pw := range parked {
						if !threadDone(w, pw.tid) {
							still = append(still, pw)
						}
					}
					// handover: if some waiter wanted gr.key, one of them must hold it now
					wanted := false
					for _, pw := range parked {
						if pw.key == gr.key {
							wanted = true
						}
					}
					if _, got := live[gr.key]; wanted && !got {
						r.Fail("", fmt.Sprintf("no-handover key=%d", gr.key))
					}
					parked = still
				}
			} else {
				r.Count("op:release-again")
			}
		case c < 92 && len(all) > 0:
			w.ctxQuery(all[rnd.Intn(len(all))])
			r.Count("op:ctx")
		case c < 95:
			p := rnd.Intn(nparents)
			w.pcancel[p]()
			w.pdead[p] = true
			r.Op(fmt.Sprintf("cancel %d", p), "ok", true)
			r.Count("op:cancel-parent")
		}
	}
	// drain: release everything until no goroutine is left inside Lock
	for rounds := 0; ok && rounds < 1000; rounds++ {
		if len(live) == 0 {
			break
		}
		ks := keysOf(live)
		gid := live[ks[0]]
		w.gmu.Lock()
		gr := w.grants[gid]
		gr.released = true
		w.gmu.Unlock()
		w.release(gid)
		delete(live, gr.key)
		n := len(parked)
		ok = w.await(n, "drain")
		if ok && n > 0 {
			waitGrant(w, &all, live)
			var still []waiter
			for _, pw := range parked {
				if !threadDone(w, pw.tid) {
					still = append(still, pw)
				}
			}
			parked = still
		}
	}
	if ok {
		if len(parked) != 0 {
			r.Fail("", fmt.Sprintf("waiters-left-after-all-released n=%d", len(parked)))
		} else {
			done := make(chan struct{})
			go func() { w.wg.Wait(); close(done) }()
			select {
			case <-done:
			case <-time.After(5 * time.Second):
				r.Fail("", "goroutines-stuck-after-drain")
			}
		}
	}
}

var doneMu sync.Mutex
var doneSet = map[*world]map[int]bool{}

func threadDone(w *world, tid int) bool {
	w.tr.mu.Lock()
	defer w.tr.mu.Unlock()
	for _, th := range w.tr.byGo {
		if th.tid == tid {
			return false
		}
	}
	return true
}

// waitGrant waits until every goroutine that acquired (according to the hook
// log) has also returned from Lock and registered its grant.
func waitGrant(w *world, all *[]int, live map[int]int) {
	deadline := time.Now().Add(10 * time.Second)
	for {
		w.tr.mu.Lock()
		issued := w.tr.issued
		w.tr.mu.Unlock()
		w.gmu.Lock()
		have := 0
		for _, g := range w.grants {
			if g != nil {
				have++
			}
		}
		w.gmu.Unlock()
		if have >= issued || time.Now().After(deadline) {
			break
		}
		runtime.Gosched()
	}
	// the goroutine removes itself from byGo before addGrant; wait for that too
	w.gmu.Lock()
	for i, g := range w.grants {
		if g != nil && !contains(*all, i) {
			*all = append(*all, i)
			live[g.key] = i
		}
	}
	w.gmu.Unlock()
}

func contains(xs []int, x int) bool {
	for _, y := range xs {
		if y == x {
			return true
		}
	}
	return false
}

func keysOf(m map[int]int) []int {
	var ks []int
	for k := range m {
		ks = append(ks, k)
	}
	// deterministic order
	for i := 1; i < len(ks); i++ {
		for j := i; j > 0 && ks[j] < ks[j-1]; j-- {
			ks[j], ks[j-1] = ks[j-1], ks[j]
		}
	}
	return ks
}

// freeRun lets real goroutines race: each does Lock/TryLock, holds briefly
// inside a critical section guarded by an overlap detector, releases (some
// twice). The hook log is the trace the model must accept.
func freeRun(r *hx.Run, rnd *hx.Rand, impl string, nthreads, iters int) {
	nkeys := 1 + rnd.Intn(3)
	w := newWorld(impl, r, 1)
	defer verifhook.Install(nil)
	r.Op("reset", "ok", false)
	inside := make([]int32, nkeys)
	var imu sync.Mutex
	var wg sync.WaitGroup
	seeds := make([]*hx.Rand, nthreads)
	for i := range seeds {
		seeds[i] = rnd.Fork()
	}
	tidCounter := 0
	var tmu sync.Mutex
	newTid := func() int { tmu.Lock(); defer tmu.Unlock(); tidCounter++; return tidCounter }
	for t := 0; t < nthreads; t++ {
		wg.Add(1)
		go func(rr *hx.Rand) {
			defer wg.Done()
			g := hx.GoID()
			for i := 0; i < iters; i++ {
				k := rr.Intn(nkeys)
				var c context.Context
				var f context.CancelFunc
				gid := -1
				if rr.Chance(1, 2) {
					w.tr.mu.Lock()
					w.tr.tryArgs[g] = [2]int{k, 0}
					w.tr.mu.Unlock()
					c, f = w.l.TryLock(w.parents[0], keyName(k))
					w.tr.mu.Lock()
					gid = w.tr.lastAcq[g]
					delete(w.tr.tryArgs, g)
					w.tr.mu.Unlock()
					if gid < 0 {
						if c.Err() == nil {
							r.Fail("", "trylock-busy-returned-live-context")
						}
						if rr.Chance(1, 4) {
							f() // calling the cancel of a failed TryLock must be harmless
						}
						runtime.Gosched()
						continue
					}
				} else {
					w.tr.mu.Lock()
					w.tr.byGo[g] = &thread{tid: newTid(), key: k, parent: 0}
					w.tr.mu.Unlock()
					c, f = w.l.Lock(w.parents[0], keyName(k))
					w.tr.mu.Lock()
					gid = w.tr.lastAcq[g]
					delete(w.tr.byGo, g)
					w.tr.mu.Unlock()
				}
				if c.Err() != nil {
					r.Fail("", "acquired-with-dead-context")
				}
				imu.Lock()
				inside[k]++
				if inside[k] > 1 {
					r.Fail("", fmt.Sprintf("critical-section-overlap key=%d", k))
				}
				imu.Unlock()
				if rr.Chance(1, 3) {
					runtime.Gosched()
				}
				imu.Lock()
				inside[k]--
				imu.Unlock()
				rel := func() {
					w.tr.mu.Lock()
					w.tr.relArg[g] = gid
					w.tr.relFired[g] = false
					w.tr.mu.Unlock()
					f()
					w.tr.mu.Lock()
					if !w.tr.relFired[g] {
						w.tr.run.Op(fmt.Sprintf("release %d", gid), "noop", true)
					}
					delete(w.tr.relArg, g)
					w.tr.mu.Unlock()
				}
				rel()
				if c.Err() == nil {
					r.Fail("", "release-left-context-live")
				}
				if rr.Chance(1, 3) {
					// double release, possibly after someone else took the key
					if rr.Chance(1, 2) {
						runtime.Gosched()
					}
					rel()
				}
			}
		}(seeds[t])
	}
	done := make(chan struct{})
	go func() { wg.Wait(); close(done) }()
	select {
	case <-done:
	case <-time.After(60 * time.Second):
		r.Fail("", "free-run-no-progress (lost wake-up or deadlock)")
	}
	// drain channel of events
	for {
		select {
		case <-w.tr.events:
			continue
		default:
		}
		break
	}
}

// Run is the harness entry point for C20.
func Run(cfg hx.Config) error {
	r, err := hx.NewRun(cfg)
	if err != nil {
		return err
	}
	r.Rule = "lock level: scripted schedules (one op at a time, every woken goroutine's re-test awaited) and free-running goroutines over both lock implementations; caller level: scripted schedules of the real Libindex.Index / Manager.Run / Updater.Run through a tap around the real lock source with gated critical sections (a step ends when every other goroutine is blocked), free-running Index calls, requests abandoned before / while / after waiting and just before the lock request, goroutines held inside the lock source's critical sections; one protocol line per critical section observed through the hook while the implementation's mutex is held, one per caller event; every line counts as non-trivial when its (op,outcome) text is distinct"
	rnd := hx.NewRand(cfg.Seed)
	before := runtime.NumGoroutine()
	// the witness of the repaired defect first
	for _, impl := range []string{"updates", "updater"} {
		replayDoubleRelease(r, impl)
	}
	nscen := cfg.N(150, 4000)
	for i := 0; i < nscen && !r.Stop(); i++ {
		impl := "updates"
		if i%2 == 1 {
			impl = "updater"
		}
		scripted(r, rnd, impl, 20+rnd.Intn(60))
	}
	nfree := cfg.N(40, 1500)
	for i := 0; i < nfree && !r.Stop(); i++ {
		impl := "updates"
		if i%2 == 1 {
			impl = "updater"
		}
		procs := 1 + rnd.Intn(16)
		old := runtime.GOMAXPROCS(procs)
		freeRun(r, rnd, impl, 2+rnd.Intn(30), 10+rnd.Intn(40))
		runtime.GOMAXPROCS(old)
		r.Count(fmt.Sprintf("free:gomaxprocs=%d", procs))
	}
	replayAbandonedWaiter(r)
	// which lock source libindex.New / libvuln.New / updater.New end up with
	r.Op("reset", "ok", false)
	selection(r)
	// the callers of the lock sources: Libindex.Index, Manager.Run, Updater.Run
	ncall := cfg.N(60, 1500)
	modes := []string{"index", "manager", "updater"}
	for i := 0; i < ncall*len(modes) && !r.Stop(); i++ {
		procs := 1 + rnd.Intn(8)
		old := runtime.GOMAXPROCS(procs)
		callerScenario(r, rnd, modes[i%len(modes)], 25+rnd.Intn(50))
		runtime.GOMAXPROCS(old)
	}
	r.Notes["caller_scenarios_per_mode"] = ncall
	nfreeIdx := cfg.N(20, 600)
	for i := 0; i < nfreeIdx && !r.Stop(); i++ {
		procs := 1 + rnd.Intn(16)
		old := runtime.GOMAXPROCS(procs)
		callerFreeRun(r, rnd, 2+rnd.Intn(14), 5+rnd.Intn(25))
		runtime.GOMAXPROCS(old)
	}
	r.Notes["index_free_runs"] = nfreeIdx
	time.Sleep(50 * time.Millisecond)
	if after := runtime.NumGoroutine(); after > before+2 {
		r.Fail("", fmt.Sprintf("goroutines-leaked before=%d after=%d", before, after))
	}
	r.Notes["scripted_scenarios"] = nscen
	r.Notes["free_runs"] = nfree
	r.Notes["implementations"] = []string{"libvuln/updates.localLockSource", "updater.localLocker"}
	r.Notes["callers"] = []string{"libindex.Libindex.Index", "libvuln/updates.Manager.Run (updater goroutines, GC)", "updater.Updater.Run/fetchOne"}
	return r.Close()
}

// replayDoubleRelease is the minimal history of the defect repaired by the
// sync.Once fix: A acquires, releases; B acquires; A releases again; C tries.
func replayDoubleRelease(r *hx.Run, impl string) {
	w := newWorld(impl, r, 1)
	defer verifhook.Install(nil)
	r.Op("reset", "ok", false)
	w.try(1, 0)
	w.release(0)
	w.try(1, 0)
	w.release(0)
	w.try(1, 0)
	w.release(1)
}
