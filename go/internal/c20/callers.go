package c20

// The callers of the process-local lock sources, driven for real:
//
//	Libindex.Index                (blocking Lock; body = controller.Index)
//	updates.Manager.Run           (TryLock per updater goroutine, TryLock for GC)
//	updater.Updater.Run/fetchOne  (TryLock per updater)
//
// The code under test is handed a tap around the real lock source. The tap
// sees every lock call begin, and the call of the release function; the hook
// points inside the lock source (under its mutex) give the real order of the
// critical sections; stub bodies (fetch arena, updater Fetch, store GC) park
// every critical section at a gate the schedule opens. One protocol line per
// event, answered by the caller machine of Model/LockCallers.lean.
//
// A schedule step is finished when nothing moves any more: every goroutine
// other than the scheduler is blocked (read off runtime.Stack, never a sleep).

import (
	"archive/zip"
	"bytes"
	"context"
	"crypto/sha256"
	"errors"
	"fmt"
	"io"
	"net/http"
	"runtime"
	"sort"
	"strings"
	"sync"
	"time"

	"github.com/google/uuid"
	"github.com/quay/zlog"
	"github.com/rs/zerolog"

	"github.com/quay/claircore"
	"github.com/quay/claircore/datastore"
	"github.com/quay/claircore/indexer"
	"github.com/quay/claircore/internal/verifhook"
	"github.com/quay/claircore/libindex"
	"github.com/quay/claircore/libvuln/driver"
	"github.com/quay/claircore/libvuln/updates"
	"github.com/quay/claircore/updater"
	udriver "github.com/quay/claircore/updater/driver/v1"
	"github.com/quay/claircore/verifharness/internal/hx"
	"github.com/quay/claircore/verifharness/internal/memstore"
)

func init() {
	nop := zerolog.Nop()
	zlog.Set(&nop)
}

const gcKey = 9 // the key number of "garbage-collection"

type parentKey struct{}

type parent struct {
	ctx    context.Context
	cancel context.CancelFunc
	dead   bool
}

type caller struct {
	cid, key, parent int
	kind             string // index | try
	gid              int    // grant handed to the call, -1: none
	inLock           bool   // the goroutine is inside Lock / TryLock
	parked           bool
	acquired, busy   bool
	lctx             context.Context
	bodyEntered      bool
	bodyCtx          context.Context
	inGate           bool
	gate             chan int
	res              int // what the body was told to return
	checkEmitted     bool
	doneCalls        int
	relFired         bool
	returned         bool
	retClass         string
	retEmitted       bool
	run              *crun
}

// crun is one Manager.Run / Updater.Run call.
type crun struct {
	id       int
	returned bool
	flushed  bool
	panicked bool
}

type rawThread struct {
	tid, key, parent int
	parked           bool
}

type cworld struct {
	r      *hx.Run
	mode   string // index | manager | updater
	free   bool   // free-running: bodies are not gated, caller lines are written by the callers themselves
	inner  locker
	closer interface{ Close(context.Context) error }
	ok     bool

	mu        sync.Mutex
	issued    int
	holders   map[int]int
	released  map[int]bool
	gkey      map[int]int
	inside    map[int]int
	inCall    map[int64]*caller
	lastCall  map[int64]*caller
	relOf     map[int64]*caller
	rawLockG  map[int64]*rawThread
	rawTryG   map[int64][2]int
	rawRelG   map[int64]int
	rawFired  map[int64]bool
	rawAcq    map[int64]int
	callers   []*caller
	threads   map[int]*rawThread // raw threads still inside Lock
	parents   []*parent
	runs      []*crun
	rawGrants map[int]*grant
	wg        sync.WaitGroup

	// index mode
	lib       *libindex.Libindex
	store     *memstore.Store
	manifests map[int]*claircore.Manifest
	keyNames  map[int]string
	keyNos    map[string]int
	indexOps  int

	// a goroutine other than the scheduler can be held inside a critical
	// section of the lock source (at a hook point, under the source's mutex)
	mainG     int64
	stallSite string
	stalled   chan struct{}
	stallHit  bool

	// abandon a request between its start and its lock request: Manager.Run at
	// its first launch (keyed by the goroutine running Run), Updater.Run at the
	// fetchOne of its only updater (keyed by the updater's name)
	launchPlan map[int64]int
	fetchPlan  map[string]int
	// the manifest an Index call on this goroutine was asked to index
	wantKey map[int64]string
}

func newCWorld(r *hx.Run, mode string) *cworld {
	w := &cworld{r: r, mode: mode, ok: true, mainG: hx.GoID(),
		holders: map[int]int{}, released: map[int]bool{}, gkey: map[int]int{}, inside: map[int]int{},
		inCall: map[int64]*caller{}, lastCall: map[int64]*caller{}, relOf: map[int64]*caller{},
		rawLockG: map[int64]*rawThread{}, rawTryG: map[int64][2]int{}, rawRelG: map[int64]int{}, rawFired: map[int64]bool{}, rawAcq: map[int64]int{},
		threads: map[int]*rawThread{}, rawGrants: map[int]*grant{}, manifests: map[int]*claircore.Manifest{},
		keyNames: map[int]string{}, keyNos: map[string]int{}, launchPlan: map[int64]int{}, fetchPlan: map[string]int{}, wantKey: map[int64]string{}}
	switch mode {
	case "updater":
		w.inner = updater.NewLocalLockerForVerif()
	default:
		l := updates.NewLocalLockSource()
		w.inner, w.closer = l, l
	}
	verifhook.Install(w.hook)
	if mode == "index" {
		w.store = memstore.New()
		w.store.Hook = w.storeHook
		opts := &libindex.Options{Store: w.store, Locker: &tap{w: w}, FetchArena: &stubArena{w: w}, Ecosystems: []*indexer.Ecosystem{}}
		var err error
		out := hx.Guard(func() string { w.lib, err = libindex.New(context.Background(), opts, http.DefaultClient); return "" })
		if out != "" || err != nil || w.lib == nil {
			r.Fail("", fmt.Sprintf("libindex.New with a process-local lock source failed: %v %s", err, out))
			w.ok = false
		}
	}
	return w
}

func (w *cworld) teardown() { verifhook.Install(nil) }

func (w *cworld) keyName(k int) string {
	w.mu.Lock()
	defer w.mu.Unlock()
	return w.keyNameLocked(k)
}

func (w *cworld) keyNameLocked(k int) string {
	if n, ok := w.keyNames[k]; ok {
		return n
	}
	var n string
	switch {
	case w.mode == "index":
		n = fmt.Sprintf("sha256:%x", sha256.Sum256([]byte(fmt.Sprintf("c20-manifest-%d", k))))
	case k == gcKey:
		n = "garbage-collection"
	default:
		n = fmt.Sprintf("k%d", k)
	}
	w.keyNames[k], w.keyNos[n] = n, k
	return n
}

func (w *cworld) keyNo(name string) int {
	if k, ok := w.keyNos[name]; ok {
		return k
	}
	// a key nobody announced: give it a number of its own
	k := 100 + len(w.keyNos)
	w.keyNames[k], w.keyNos[name] = name, k
	return k
}

func (w *cworld) newParent(dead bool) int {
	idx := len(w.parents)
	c, f := context.WithCancel(context.WithValue(context.Background(), parentKey{}, idx))
	p := &parent{ctx: c, cancel: f}
	w.parents = append(w.parents, p)
	if dead {
		w.cancelParent(idx)
	}
	return idx
}

func (w *cworld) cancelParent(p int) {
	w.parents[p].cancel()
	w.mu.Lock()
	w.parents[p].dead = true
	w.r.Op(fmt.Sprintf("cancel %d", p), "ok", true)
	// the holder's context follows its parent
	for _, g := range w.rawGrants {
		if g.parent == p && g.ctx.Err() == nil {
			w.r.Fail("", fmt.Sprintf("holder-context-live-although-parent-cancelled gid=%d key=%d parent=%d", g.gid, g.key, p))
		}
	}
	for _, c := range w.callers {
		if c.parent == p && c.lctx != nil && c.lctx.Err() == nil {
			w.r.Fail("", fmt.Sprintf("holder-context-live-although-parent-cancelled cid=%d key=%d parent=%d", c.cid, c.key, p))
		}
	}
	w.mu.Unlock()
}

func parentOf(ctx context.Context) int {
	if v, ok := ctx.Value(parentKey{}).(int); ok {
		return v
	}
	return 999
}

// ---- the hook: real order of the critical sections ---------------------------

func (w *cworld) acquiredKey(k int) {
	w.holders[k]++
	if w.holders[k] > 1 {
		w.r.Fail("", fmt.Sprintf("two-holders key=%d", k))
	}
}

// abandon cancels parent p from inside the code under test. mu not held.
func (w *cworld) abandon(p int) {
	w.mu.Lock()
	defer w.mu.Unlock()
	if w.parents[p].dead {
		return
	}
	w.parents[p].cancel()
	w.parents[p].dead = true
	w.r.Op(fmt.Sprintf("cancel %d", p), "ok", true)
	w.r.Count("caller:" + w.mode + ":abandoned-just-before-the-lock-request")
}

func (w *cworld) hook(site, key string) {
	switch site {
	case "manager.launch":
		g := hx.GoID()
		w.mu.Lock()
		p, ok := w.launchPlan[g]
		delete(w.launchPlan, g)
		w.mu.Unlock()
		if ok {
			w.abandon(p)
		}
		return
	case "updater.fetchone":
		w.mu.Lock()
		p, ok := w.fetchPlan[key]
		delete(w.fetchPlan, key)
		w.mu.Unlock()
		if ok {
			w.abandon(p)
		}
		return
	}
	if !strings.HasPrefix(site, "lock.") {
		return
	}
	g := hx.GoID()
	w.mu.Lock()
	w.hookLocked(g, site, key)
	var wait chan struct{}
	if w.stallSite == site && g != w.mainG && !w.stallHit {
		w.stallHit = true
		wait = w.stalled
		w.r.Count("stall:" + w.mode + ":" + site)
	}
	w.mu.Unlock()
	if wait != nil {
		<-wait // still inside the lock source's critical section
	}
}

func (w *cworld) hookLocked(g int64, site, key string) {
	k := w.keyNo(key)
	if c := w.relOf[g]; c != nil && site == "lock.release" {
		c.relFired = true
		switch {
		case c.gid < 0:
			w.r.Fail("", fmt.Sprintf("done-of-a-call-that-holds-nothing-released-a-key cid=%d key=%d holders-before=%d", c.cid, k, w.holders[k]))
			w.holders[k]--
		case w.released[c.gid]:
			w.r.Fail("", fmt.Sprintf("repeated-release-unlocked-key-again gid=%d key=%d holders-now=%d", c.gid, k, w.holders[k]))
		default:
			if k != c.key {
				w.r.Fail("", fmt.Sprintf("release-of-another-key cid=%d own=%d released=%d", c.cid, c.key, k))
			}
			w.holders[k]--
			w.released[c.gid] = true
		}
		w.r.Op(fmt.Sprintf("done %d", c.cid), "released", true)
		return
	}
	if c := w.inCall[g]; c != nil && c.inLock {
		line := fmt.Sprintf("cacq %d", c.cid)
		if c.parked {
			line = fmt.Sprintf("cretest %d", c.cid)
		}
		switch site {
		case "lock.park":
			c.parked = true
			w.r.Op(line, "parked", true)
			w.r.Count("caller:" + w.mode + ":park")
		case "lock.acquire", "lock.try.acquire":
			gid := w.issued
			w.issued++
			w.gkey[gid] = k
			w.acquiredKey(k)
			if k != c.key {
				w.r.Fail("", fmt.Sprintf("granted-another-key cid=%d asked=%d got=%d", c.cid, c.key, k))
			}
			if c.parked {
				w.r.Count("caller:" + w.mode + ":acquire-after-park")
			} else {
				w.r.Count("caller:" + w.mode + ":acquire-at-once")
			}
			c.gid, c.acquired, c.parked = gid, true, false
			w.r.Op(line, fmt.Sprintf("acq %d", gid), true)
		case "lock.try.busy":
			c.busy = true
			if w.holders[k] == 0 {
				w.r.Fail("", fmt.Sprintf("trylock-busy-on-free-key key=%d", k))
			}
			w.r.Op(line, "busy", true)
			w.r.Count("caller:" + w.mode + ":busy")
		}
		return
	}
	// lock operations of the harness itself
	switch site {
	case "lock.park":
		th := w.rawLockG[g]
		if th == nil {
			return
		}
		if th.parked {
			w.r.Op(fmt.Sprintf("retest %d", th.tid), "parked", true)
		} else {
			th.parked = true
			w.r.Op(fmt.Sprintf("lock %d %d %d", th.tid, th.key, th.parent), "parked", true)
		}
	case "lock.acquire":
		th := w.rawLockG[g]
		if th == nil {
			return
		}
		gid := w.issued
		w.issued++
		w.gkey[gid] = k
		w.rawAcq[g] = gid
		w.acquiredKey(k)
		if th.parked {
			w.r.Op(fmt.Sprintf("retest %d", th.tid), fmt.Sprintf("acq %d", gid), true)
		} else {
			w.r.Op(fmt.Sprintf("lock %d %d %d", th.tid, th.key, th.parent), fmt.Sprintf("acq %d", gid), true)
		}
		th.parked = false
	case "lock.try.acquire":
		a, ok := w.rawTryG[g]
		if !ok {
			return
		}
		gid := w.issued
		w.issued++
		w.gkey[gid] = k
		w.rawAcq[g] = gid
		w.acquiredKey(k)
		w.r.Op(fmt.Sprintf("try %d %d", a[0], a[1]), fmt.Sprintf("acq %d", gid), true)
	case "lock.try.busy":
		a, ok := w.rawTryG[g]
		if !ok {
			return
		}
		w.rawAcq[g] = -1
		if w.holders[k] == 0 {
			w.r.Fail("", fmt.Sprintf("trylock-busy-on-free-key key=%d", k))
		}
		w.r.Op(fmt.Sprintf("try %d %d", a[0], a[1]), "busy", true)
	case "lock.release":
		gid, ok := w.rawRelG[g]
		if !ok {
			return
		}
		w.rawFired[g] = true
		if w.released[gid] {
			w.r.Fail("", fmt.Sprintf("repeated-release-unlocked-key-again gid=%d key=%d holders-now=%d", gid, k, w.holders[k]))
		} else {
			w.holders[k]--
		}
		w.released[gid] = true
		w.r.Op(fmt.Sprintf("release %d", gid), "released", true)
	}
}

// ---- the tap around the lock source -------------------------------------------

type tap struct {
	w   *cworld
	run *crun
}

func (t *tap) Lock(ctx context.Context, key string) (context.Context, context.CancelFunc) {
	return t.w.lockCall(t.run, "index", ctx, key, t.w.inner.Lock)
}

func (t *tap) TryLock(ctx context.Context, key string) (context.Context, context.CancelFunc) {
	return t.w.lockCall(t.run, "try", ctx, key, t.w.inner.TryLock)
}

func (t *tap) Close(ctx context.Context) error {
	if t.w.closer != nil {
		return t.w.closer.Close(ctx)
	}
	return nil
}

func (w *cworld) lockCall(run *crun, kind string, ctx context.Context, key string,
	call func(context.Context, string) (context.Context, context.CancelFunc)) (context.Context, context.CancelFunc) {
	g := hx.GoID()
	w.mu.Lock()
	c := &caller{cid: len(w.callers), kind: kind, key: w.keyNo(key), parent: parentOf(ctx), gid: -1, gate: make(chan int, 1), run: run, inLock: true}
	w.callers = append(w.callers, c)
	w.r.Op(fmt.Sprintf("begin %s %d %d", kind, c.key, c.parent), fmt.Sprintf("cid %d", c.cid), true)
	w.inCall[g], w.lastCall[g] = c, c
	if want, ok := w.wantKey[g]; ok && want != key {
		w.r.Fail("", fmt.Sprintf("index-of-manifest-%s-locked-another-key-%q", want, key))
	}
	pdead := c.parent < len(w.parents) && w.parents[c.parent].dead
	if pdead {
		w.r.Count("caller:" + w.mode + ":parent-dead-before-lock")
	}
	w.mu.Unlock()
	lc, f := call(ctx, key)
	w.mu.Lock()
	c.inLock, c.lctx = false, lc
	switch {
	case c.busy && lc.Err() == nil:
		w.r.Fail("", fmt.Sprintf("trylock-busy-returned-live-context key=%d", c.key))
	case c.acquired && lc.Err() != nil && ctx.Err() == nil:
		w.r.Fail("", fmt.Sprintf("acquired-with-dead-context key=%d", c.key))
	case !c.acquired && !c.busy:
		w.r.Fail("", fmt.Sprintf("lock-call-returned-without-deciding cid=%d key=%d", c.cid, c.key))
	case c.acquired && ctx.Err() != nil && lc.Err() == nil:
		w.r.Fail("", fmt.Sprintf("holder-context-live-although-parent-cancelled cid=%d key=%d", c.cid, c.key))
	}
	if c.acquired && ctx.Err() != nil && !pdead {
		w.r.Count("caller:" + w.mode + ":parent-cancelled-while-parked")
	}
	w.mu.Unlock()
	return lc, func() { w.doneCall(c, f) }
}

func (w *cworld) doneCall(c *caller, f context.CancelFunc) {
	g := hx.GoID()
	w.mu.Lock()
	c.doneCalls++
	if c.acquired && !c.bodyEntered && !c.checkEmitted {
		c.checkEmitted = true
		w.r.Op(fmt.Sprintf("check %d", c.cid), "skip", true)
		w.r.Count("caller:" + w.mode + ":skip")
	}
	w.relOf[g] = c
	c.relFired = false
	w.mu.Unlock()
	f()
	w.mu.Lock()
	delete(w.relOf, g)
	if !c.relFired {
		w.r.Op(fmt.Sprintf("done %d", c.cid), "noop", true)
	}
	if c.lctx != nil && c.lctx.Err() == nil {
		w.r.Fail("", fmt.Sprintf("release-left-context-live cid=%d", c.cid))
	}
	if w.inCall[g] == c {
		delete(w.inCall, g)
	}
	w.mu.Unlock()
}

// enterBody is the critical section of every caller: it parks at the gate.
func (w *cworld) enterBody(ctx context.Context, what, want string) int {
	g := hx.GoID()
	w.mu.Lock()
	c := w.inCall[g]
	if c == nil || c.gid < 0 || c.doneCalls > 0 {
		w.r.Fail("", "critical-section-entered-without-the-lock "+what)
		w.mu.Unlock()
		return 0
	}
	if want != "" && w.keyNameLocked(c.key) != want {
		w.r.Fail("", fmt.Sprintf("critical-section-of-%s-ran-under-the-key-%q", what, w.keyNameLocked(c.key)))
	}
	c.bodyEntered, c.bodyCtx = true, ctx
	w.inside[c.key]++
	if w.inside[c.key] > 1 {
		w.r.Fail("", fmt.Sprintf("critical-section-overlap key=%d", c.key))
	}
	if w.free {
		c.checkEmitted = true
		w.r.Op(fmt.Sprintf("check %d", c.cid), "body", true)
		w.mu.Unlock()
		runtime.Gosched()
		w.mu.Lock()
		w.inside[c.key]--
		w.r.Op(fmt.Sprintf("leave %d 0", c.cid), "ok", true)
		w.mu.Unlock()
		return 0
	}
	c.inGate = true
	w.mu.Unlock()
	r := <-c.gate
	w.mu.Lock()
	c.inGate = false
	w.inside[c.key]--
	w.mu.Unlock()
	return r
}

// ---- stubs under Libindex.Index ------------------------------------------------

type stubArena struct{ w *cworld }

func (a *stubArena) Realizer(ctx context.Context) indexer.Realizer {
	if a.w.enterBody(ctx, "controller.Index", "") == 3 {
		panic("scripted panic inside the critical section")
	}
	return stubRealizer{}
}
func (a *stubArena) Close(context.Context) error { return nil }

type stubRealizer struct{}

func (stubRealizer) Realize(context.Context, []*claircore.Layer) error { return nil }
func (stubRealizer) Close() error                                    { return nil }

var errScripted = errors.New("scripted failure")

// storeHook makes the first store call of an Index whose body was told to fail, fail.
func (w *cworld) storeHook(ctx context.Context, c memstore.Call) memstore.Verdict {
	if c.Method != "ManifestScanned" {
		return memstore.Verdict{}
	}
	g := hx.GoID()
	w.mu.Lock()
	defer w.mu.Unlock()
	if cl := w.inCall[g]; cl != nil && cl.res == 1 {
		cl.res = 0
		return memstore.Verdict{Err: errScripted}
	}
	return memstore.Verdict{}
}

func (w *cworld) manifest(k int) *claircore.Manifest {
	if m, ok := w.manifests[k]; ok {
		return m
	}
	m := &claircore.Manifest{Hash: claircore.MustParseDigest(w.keyName(k))}
	w.manifests[k] = m
	return m
}

func classOf(err error) string {
	switch {
	case err == nil:
		return "nil"
	case errors.Is(err, context.Canceled):
		return "can"
	default:
		return "err"
	}
}

func (w *cworld) startIndex(k, p int) {
	m := w.manifest(k)
	ctx := w.parents[p].ctx
	w.indexOps++
	w.wg.Add(1)
	go func() {
		defer w.wg.Done()
		g := hx.GoID()
		var err error
		w.mu.Lock()
		w.wantKey[g] = m.Hash.String()
		w.mu.Unlock()
		out := hx.Guard(func() string { _, err = w.lib.Index(ctx, m); return "" })
		w.mu.Lock()
		delete(w.wantKey, g)
		c := w.lastCall[g]
		delete(w.lastCall, g)
		delete(w.inCall, g)
		if c != nil {
			c.returned, c.retClass = true, classOf(err)
			if out != "" {
				c.retClass = "panic"
			}
			if w.free {
				w.emitRet(c)
			}
		}
		w.mu.Unlock()
	}()
}

// ---- stubs under Manager.Run ----------------------------------------------------

type mUpdater struct {
	w    *cworld
	name string
}

func (u *mUpdater) Name() string { return u.name }
func (u *mUpdater) Fetch(ctx context.Context, _ driver.Fingerprint) (io.ReadCloser, driver.Fingerprint, error) {
	if u.w == nil {
		return nil, "", driver.Unchanged
	}
	switch u.w.enterBody(ctx, "updater "+u.name, u.name) {
	case 0:
		return nil, "", driver.Unchanged
	case 2:
		return nil, "", context.Canceled
	}
	return nil, "", errScripted
}
func (u *mUpdater) Parse(context.Context, io.ReadCloser) ([]*claircore.Vulnerability, error) {
	return nil, nil
}

type mStore struct{ w *cworld }

func (s *mStore) UpdateEnrichments(context.Context, string, driver.Fingerprint, []driver.EnrichmentRecord) (uuid.UUID, error) {
	return uuid.Nil, nil
}
func (s *mStore) UpdateEnrichmentsIter(context.Context, string, driver.Fingerprint, datastore.EnrichmentIter) (uuid.UUID, error) {
	return uuid.Nil, nil
}
func (s *mStore) UpdateVulnerabilities(context.Context, string, driver.Fingerprint, []*claircore.Vulnerability) (uuid.UUID, error) {
	return uuid.Nil, nil
}
func (s *mStore) UpdateVulnerabilitiesIter(context.Context, string, driver.Fingerprint, datastore.VulnerabilityIter) (uuid.UUID, error) {
	return uuid.Nil, nil
}
func (s *mStore) DeltaUpdateVulnerabilities(context.Context, string, driver.Fingerprint, []*claircore.Vulnerability, []string) (uuid.UUID, error) {
	return uuid.Nil, nil
}
func (s *mStore) GetUpdateOperations(context.Context, driver.UpdateKind, ...string) (map[string][]driver.UpdateOperation, error) {
	return map[string][]driver.UpdateOperation{}, nil
}
func (s *mStore) GetLatestUpdateRefs(context.Context, driver.UpdateKind) (map[string][]driver.UpdateOperation, error) {
	return nil, nil
}
func (s *mStore) GetLatestUpdateRef(context.Context, driver.UpdateKind) (uuid.UUID, error) {
	return uuid.Nil, nil
}
func (s *mStore) DeleteUpdateOperations(context.Context, ...uuid.UUID) (int64, error) { return 0, nil }
func (s *mStore) GetUpdateDiff(context.Context, uuid.UUID, uuid.UUID) (*driver.UpdateDiff, error) {
	return nil, nil
}
func (s *mStore) GC(ctx context.Context, _ int) (int64, error) {
	if s.w == nil {
		return 0, nil
	}
	if s.w.enterBody(ctx, "store.GC", "garbage-collection") == 1 {
		return 0, errScripted
	}
	return 0, nil
}
func (s *mStore) Initialized(context.Context) (bool, error) { return true, nil }
func (s *mStore) RecordUpdaterStatus(context.Context, string, time.Time, driver.Fingerprint, error) error {
	return nil
}
func (s *mStore) RecordUpdaterSetStatus(context.Context, string, time.Time) error { return nil }
func (s *mStore) Get(context.Context, []*claircore.IndexRecord, datastore.GetOpts) (map[string][]*claircore.Vulnerability, error) {
	return nil, nil
}
func (s *mStore) GetEnrichment(context.Context, string, []string) ([]driver.EnrichmentRecord, error) {
	return nil, nil
}

func (w *cworld) newRun() *crun {
	w.mu.Lock()
	defer w.mu.Unlock()
	rn := &crun{id: len(w.runs)}
	w.runs = append(w.runs, rn)
	return rn
}

func (w *cworld) startMrun(p int, keys []int, retention int, abandonAtLaunch bool) {
	rn := w.newRun()
	var ups []driver.Updater
	for _, k := range keys {
		ups = append(ups, &mUpdater{w: w, name: w.keyName(k)})
	}
	w.keyName(gcKey)
	opts := []updates.ManagerOption{updates.WithEnabled([]string{}), updates.WithOutOfTree(ups), updates.WithBatchSize(len(keys) + 1)}
	if retention != 0 {
		opts = append(opts, updates.WithGC(retention))
	}
	mgr, err := updates.NewManager(context.Background(), &mStore{w: w}, &tap{w: w, run: rn}, http.DefaultClient, opts...)
	if err != nil {
		w.r.Fail("", "NewManager: "+err.Error())
		w.ok = false
		return
	}
	ctx := w.parents[p].ctx
	w.wg.Add(1)
	go func() {
		defer w.wg.Done()
		if abandonAtLaunch {
			w.mu.Lock()
			w.launchPlan[hx.GoID()] = p
			w.mu.Unlock()
		}
		out := hx.Guard(func() string { mgr.Run(ctx); return "" })
		w.mu.Lock()
		rn.returned, rn.panicked = true, out != ""
		w.mu.Unlock()
	}()
}

// ---- stubs under updater.Updater.Run -------------------------------------------

type uUpdater struct {
	w    *cworld
	name string
}

func (u *uUpdater) Name() string { return u.name }
func (u *uUpdater) Fetch(ctx context.Context, _ *zip.Writer, _ udriver.Fingerprint, _ *http.Client) (udriver.Fingerprint, error) {
	if u.w == nil {
		return "", udriver.ErrUnchanged
	}
	switch u.w.enterBody(ctx, "updater "+u.name, u.name) {
	case 0:
		return "", udriver.ErrUnchanged
	case 2:
		return "", context.Canceled
	}
	return "", errScripted
}

type uFactory struct {
	w    *cworld
	keys []int
}

func (f *uFactory) Name() string { return "c20" }
func (f *uFactory) Create(context.Context, udriver.ConfigUnmarshaler) ([]udriver.Updater, error) {
	var us []udriver.Updater
	for _, k := range f.keys {
		name := fmt.Sprintf("k%d", k)
		if f.w != nil {
			name = f.w.keyName(k)
		}
		us = append(us, &uUpdater{w: f.w, name: name})
	}
	return us, nil
}

type uStore struct{}

func (uStore) UpdateEnrichments(context.Context, uuid.UUID, string, udriver.Fingerprint, []udriver.EnrichmentRecord) error {
	return nil
}
func (uStore) UpdateVulnerabilities(context.Context, uuid.UUID, string, udriver.Fingerprint, *udriver.ParsedVulnerabilities) error {
	return nil
}
func (uStore) GetLatestUpdateOperations(context.Context) ([]udriver.UpdateOperation, error) {
	return nil, nil
}

func (w *cworld) startUrun(p int, keys []int, abandonAtFetch bool) {
	rn := w.newRun()
	u, err := updater.New(context.Background(), &updater.Options{Store: uStore{}, Client: http.DefaultClient,
		Locker: &tap{w: w, run: rn}, Factories: []udriver.UpdaterFactory{&uFactory{w: w, keys: keys}}})
	if err != nil {
		w.r.Fail("", "updater.New: "+err.Error())
		w.ok = false
		return
	}
	ctx := w.parents[p].ctx
	if abandonAtFetch {
		w.mu.Lock()
		w.fetchPlan[w.keyNameLocked(keys[0])] = p
		w.mu.Unlock()
	}
	w.wg.Add(1)
	go func() {
		defer w.wg.Done()
		out := hx.Guard(func() string { u.Run(ctx, false); return "" })
		u.Close()
		w.mu.Lock()
		rn.returned, rn.panicked = true, out != ""
		w.mu.Unlock()
	}()
}

// ---- lock operations of the harness itself ----------------------------------------

func (w *cworld) rawTry(k, p int) {
	g := hx.GoID()
	name := w.keyName(k)
	w.mu.Lock()
	w.rawTryG[g] = [2]int{k, p}
	w.mu.Unlock()
	c, f := w.inner.TryLock(w.parents[p].ctx, name)
	w.mu.Lock()
	gid := w.rawAcq[g]
	delete(w.rawTryG, g)
	pdead := w.parents[p].dead
	w.mu.Unlock()
	if gid < 0 {
		if c.Err() == nil {
			w.r.Fail("", fmt.Sprintf("trylock-busy-returned-live-context key=%d", k))
		}
		f() // the cancel of a refused TryLock must be harmless
		return
	}
	if c.Err() != nil && !pdead {
		w.r.Fail("", fmt.Sprintf("trylock-acquired-dead-context key=%d", k))
	}
	if c.Err() == nil && pdead {
		w.r.Fail("", fmt.Sprintf("holder-context-live-although-parent-cancelled key=%d parent=%d", k, p))
	}
	w.mu.Lock()
	w.rawGrants[gid] = &grant{gid: gid, key: k, parent: p, ctx: c, cancel: f}
	w.mu.Unlock()
}

func (w *cworld) rawLock(tid, k, p int) {
	name := w.keyName(k)
	started := make(chan struct{})
	w.wg.Add(1)
	go func() {
		defer w.wg.Done()
		g := hx.GoID()
		th := &rawThread{tid: tid, key: k, parent: p}
		w.mu.Lock()
		w.rawLockG[g] = th
		w.threads[tid] = th
		w.mu.Unlock()
		close(started)
		c, f := w.inner.Lock(w.parents[p].ctx, name)
		w.mu.Lock()
		gid := w.rawAcq[g]
		delete(w.rawLockG, g)
		delete(w.threads, tid)
		w.rawGrants[gid] = &grant{gid: gid, key: k, parent: p, ctx: c, cancel: f}
		w.mu.Unlock()
	}()
	<-started
}

func (w *cworld) rawRelease(gid int) {
	w.mu.Lock()
	gr := w.rawGrants[gid]
	g := hx.GoID()
	w.rawRelG[g] = gid
	w.rawFired[g] = false
	w.mu.Unlock()
	gr.cancel()
	w.mu.Lock()
	if !w.rawFired[g] {
		w.r.Op(fmt.Sprintf("release %d", gid), "noop", true)
	}
	delete(w.rawRelG, g)
	gr.released = true
	w.mu.Unlock()
	if gr.ctx.Err() == nil {
		w.r.Fail("", fmt.Sprintf("release-left-context-live gid=%d", gid))
	}
}

func (w *cworld) rawCtx(gid int) {
	w.mu.Lock()
	defer w.mu.Unlock()
	out := "dead"
	if w.rawGrants[gid].ctx.Err() == nil {
		out = "live"
	}
	w.r.Op(fmt.Sprintf("ctx %d", gid), out, true)
}

func (w *cworld) closeOp() {
	if w.closer == nil {
		return
	}
	err := w.closer.Close(context.Background())
	out := "ok"
	if err != nil {
		out = "err"
	}
	w.r.Op("close", out, true)
}

// ---- quiescence -------------------------------------------------------------------

// othersBusy reports whether some goroutine other than the caller can still
// make a step on its own: it is not blocked on a channel, a select, a lock, a
// condition variable or a wait group.
func othersBusy() bool {
	buf := make([]byte, 1<<16)
	for {
		n := runtime.Stack(buf, true)
		if n < len(buf) {
			buf = buf[:n]
			break
		}
		buf = make([]byte, 2*len(buf))
	}
	for i, g := range bytes.Split(buf, []byte("\n\n")) {
		if i == 0 {
			continue // the caller
		}
		a, b := bytes.IndexByte(g, '['), bytes.IndexByte(g, ']')
		if a < 0 || b < a {
			return true
		}
		st := string(g[a+1 : b])
		blocked := false
		for _, p := range []string{"chan receive", "chan send", "select", "sync.", "IO wait", "finalizer wait"} {
			if strings.HasPrefix(st, p) {
				blocked = true
			}
		}
		if strings.HasPrefix(st, "semacquire") {
			if nl := bytes.IndexByte(g, '\n'); nl >= 0 {
				top := g[nl+1:]
				blocked = bytes.HasPrefix(top, []byte("sync.runtime_Semacquire")) || bytes.HasPrefix(top, []byte("internal/poll.runtime_Semacquire"))
			}
		}
		if !blocked {
			return true
		}
	}
	return false
}

// quiesce waits until nothing moves. It is not a timing assumption: the loop
// ends exactly when every other goroutine is blocked; the deadline only turns
// a livelock of the code under test into an observation.
func (w *cworld) quiesce() bool {
	deadline := time.Now().Add(20 * time.Second)
	for i := 0; ; i++ {
		if !othersBusy() {
			return true
		}
		if time.Now().After(deadline) {
			w.r.Fail("", "no-quiescence: some goroutine keeps running")
			return false
		}
		runtime.Gosched()
		if i > 50 {
			time.Sleep(20 * time.Microsecond)
		}
	}
}

// emitRet writes the return of a call and checks the bracket directly. mu held.
func (w *cworld) emitRet(c *caller) {
	if c.retEmitted {
		return
	}
	c.retEmitted = true
	if c.acquired && !c.bodyEntered && !c.checkEmitted {
		c.checkEmitted = true
		w.r.Op(fmt.Sprintf("check %d", c.cid), "skip", true)
	}
	out := "ret -"
	if c.kind == "index" && c.retClass != "panic" {
		out = "ret " + c.retClass
	}
	w.r.Op(fmt.Sprintf("ret %d", c.cid), out, true)
	// (a refused TryLock owes nothing: not calling its cancel function is harmless)
	if c.acquired && !w.released[c.gid] {
		w.r.Fail("", fmt.Sprintf("call-returned-still-holding-its-key cid=%d kind=%s key=%d gid=%d release-calls=%d", c.cid, c.kind, c.key, c.gid, c.doneCalls))
	}
	if c.bodyCtx != nil {
		o := "dead"
		if c.bodyCtx.Err() == nil {
			o = "live"
			w.r.Fail("", fmt.Sprintf("critical-section-context-live-after-release cid=%d", c.cid))
		}
		w.r.Op(fmt.Sprintf("bctx %d", c.cid), o, true)
	}
}

// flush writes what the schedule step made visible, in call order, and runs
// the direct checks of the statement on the quiescent state.
func (w *cworld) flush() {
	w.mu.Lock()
	defer w.mu.Unlock()
	for _, rn := range w.runs {
		if rn.returned && !rn.flushed {
			rn.flushed = true
			if rn.panicked {
				w.r.Fail("", fmt.Sprintf("run-panicked run=%d", rn.id))
			}
			for _, c := range w.callers {
				if c.run == rn {
					c.returned = true
				}
			}
		}
	}
	for _, c := range w.callers {
		if c.bodyEntered && !c.checkEmitted {
			c.checkEmitted = true
			w.r.Op(fmt.Sprintf("check %d", c.cid), "body", true)
			w.r.Count("caller:" + w.mode + ":body")
		}
		if c.returned {
			w.emitRet(c)
		}
	}
	if w.mode == "index" && len(w.callers) != w.indexOps {
		w.r.Fail("", fmt.Sprintf("index-calls=%d lock-requests=%d: an Index call did not request the manifest lock exactly once", w.indexOps, len(w.callers)))
		w.indexOps = len(w.callers)
	}
	// no lost wake-up, directly: nobody is parked on a key that nobody holds
	for _, c := range w.callers {
		if c.inLock && c.parked && w.holders[c.key] == 0 {
			w.r.Fail("", fmt.Sprintf("waiter-stranded-on-a-free-key cid=%d key=%d", c.cid, c.key))
			w.ok = false
		}
	}
	for _, th := range w.threads {
		if th.parked && w.holders[th.key] == 0 {
			w.r.Fail("", fmt.Sprintf("waiter-stranded-on-a-free-key raw-thread=%d key=%d", th.tid, th.key))
			w.ok = false
		}
	}
}

// ---- the schedule --------------------------------------------------------------------

func (w *cworld) inBody() []*caller {
	var out []*caller
	for _, c := range w.callers {
		if c.inGate && c.checkEmitted {
			out = append(out, c)
		}
	}
	return out
}

func (w *cworld) liveRaw() []int {
	var out []int
	for gid, g := range w.rawGrants {
		if !g.released {
			out = append(out, gid)
		}
	}
	sort.Ints(out)
	return out
}

func (w *cworld) allRaw() []int {
	var out []int
	for gid := range w.rawGrants {
		out = append(out, gid)
	}
	sort.Ints(out)
	return out
}

func (w *cworld) liveParents(pred func(p int) bool) []int {
	var out []int
	for i, p := range w.parents {
		if !p.dead && (pred == nil || pred(i)) {
			out = append(out, i)
		}
	}
	return out
}

func (w *cworld) leave(c *caller, rnd *hx.Rand) {
	w.mu.Lock()
	r := 0
	if rnd.Chance(3, 10) {
		r = 1
	}
	if w.mode == "index" && rnd.Chance(1, 12) {
		r = 3 // the critical section panics: the deferred release is the only way out
		w.r.Count("caller:index:body-panics")
	} else if c.parent < len(w.parents) && w.parents[c.parent].dead {
		r = 2
		w.r.Count("caller:" + w.mode + ":parent-cancelled-in-body")
	}
	c.res = r
	w.r.Op(fmt.Sprintf("leave %d %d", c.cid, r), "ok", true)
	w.mu.Unlock()
	c.gate <- r
}

func (w *cworld) pickParent(rnd *hx.Rand) int {
	switch c := rnd.Intn(100); {
	case c < 15:
		// the request is abandoned before it asks for the lock
		return w.newParent(true)
	case c < 45:
		if lp := w.liveParents(nil); len(lp) > 0 {
			return lp[rnd.Intn(len(lp))]
		}
	}
	return w.newParent(false)
}

func (w *cworld) active() int {
	w.mu.Lock()
	defer w.mu.Unlock()
	n := 0
	for _, c := range w.callers {
		if !c.returned {
			n++
		}
	}
	return n
}

func (w *cworld) runsActive() int {
	w.mu.Lock()
	defer w.mu.Unlock()
	n := 0
	for _, rn := range w.runs {
		if !rn.returned {
			n++
		}
	}
	return n
}

func subset(rnd *hx.Rand, nkeys int) []int {
	var ks []int
	for k := 0; k < nkeys; k++ {
		if rnd.Chance(2, 3) {
			ks = append(ks, k)
		}
	}
	if len(ks) == 0 {
		ks = []int{rnd.Intn(nkeys)}
	}
	return ks
}

func (w *cworld) randomOp(rnd *hx.Rand, nkeys int, nextTid *int) {
	w.mu.Lock()
	body := w.inBody()
	live := w.liveRaw()
	all := w.allRaw()
	nthreads := len(w.threads)
	w.mu.Unlock()
	if rnd.Chance(1, 20) && w.active() < 8 {
		w.stallOp(rnd, nkeys, body, nextTid)
		return
	}
	switch c := rnd.Intn(100); {
	case c < 28 && w.active() < 10:
		p := w.pickParent(rnd)
		switch w.mode {
		case "index":
			w.startIndex(rnd.Intn(nkeys), p)
			w.r.Count("op:index")
		case "manager":
			ret := 0
			if rnd.Chance(1, 2) {
				ret = 2
			}
			// now and then the request is abandoned right after Run has taken
			// its semaphore slot for the first updater (a parent nobody else uses)
			if !w.parents[p].dead && rnd.Chance(1, 6) {
				w.startMrun(w.newParent(false), subset(rnd, nkeys), ret, true)
			} else {
				w.startMrun(p, subset(rnd, nkeys), ret, false)
			}
			w.r.Count("op:manager-run")
		default:
			// … or, with nothing else going on, right before the only updater asks for its lock
			if w.active() == 0 && w.runsActive() == 0 && rnd.Chance(1, 3) {
				w.startUrun(w.newParent(false), []int{rnd.Intn(nkeys)}, true)
			} else {
				w.startUrun(p, subset(rnd, nkeys), false)
			}
			w.r.Count("op:updater-run")
		}
	case c < 55 && len(body) > 0:
		w.leave(body[rnd.Intn(len(body))], rnd)
		w.r.Count("op:leave")
	case c < 65:
		// cancel a parent, preferably one somebody is parked or working under
		w.mu.Lock()
		busyP := map[int]bool{}
		for _, cl := range w.callers {
			if !cl.returned && (cl.parked || cl.inGate) {
				busyP[cl.parent] = true
			}
		}
		w.mu.Unlock()
		lp := w.liveParents(func(p int) bool { return busyP[p] })
		if len(lp) == 0 || rnd.Chance(1, 4) {
			lp = w.liveParents(nil)
		}
		if len(lp) > 0 {
			w.cancelParent(lp[rnd.Intn(len(lp))])
			w.r.Count("op:cancel-parent")
		}
	case c < 73:
		k := rnd.Intn(nkeys)
		if w.mode == "manager" && rnd.Chance(1, 4) {
			k = gcKey
		}
		w.rawTry(k, w.pickParent(rnd))
		w.r.Count("op:raw-try")
	case c < 79 && nthreads < 4:
		*nextTid++
		w.rawLock(*nextTid, rnd.Intn(nkeys), w.pickParent(rnd))
		w.r.Count("op:raw-lock")
	case c < 91 && len(all) > 0:
		if len(live) > 0 && !rnd.Chance(1, 5) {
			w.rawRelease(live[rnd.Intn(len(live))])
			w.r.Count("op:raw-release")
		} else {
			w.rawRelease(all[rnd.Intn(len(all))])
			w.r.Count("op:raw-release-again")
		}
	case c < 95 && len(all) > 0:
		w.rawCtx(all[rnd.Intn(len(all))])
	case c < 97:
		w.closeOp()
		w.r.Count("op:close")
	default:
		// is the context of a running critical section still live?
		if len(body) > 0 {
			cl := body[rnd.Intn(len(body))]
			w.mu.Lock()
			o := "dead"
			if cl.bodyCtx.Err() == nil {
				o = "live"
			}
			w.r.Op(fmt.Sprintf("bctx %d", cl.cid), o, true)
			w.mu.Unlock()
		}
	}
}

func (w *cworld) startCall(rnd *hx.Rand, nkeys int, k int) {
	p := w.pickParent(rnd)
	switch w.mode {
	case "index":
		if k < 0 {
			k = rnd.Intn(nkeys)
		}
		w.startIndex(k, p)
	case "manager":
		w.startMrun(p, subset(rnd, nkeys), 2*rnd.Intn(2), false)
	default:
		w.startUrun(p, subset(rnd, nkeys), false)
	}
}

// stallOp holds one goroutine inside a critical section of the lock source
// (at the hook point, under the source's own mutex), piles further lock
// requests up behind it, and lets go.
func (w *cworld) stallOp(rnd *hx.Rand, nkeys int, body []*caller, nextTid *int) {
	site := "lock.release"
	if len(body) == 0 || rnd.Chance(1, 2) {
		site = "lock.acquire"
		if w.mode != "index" {
			site = "lock.try.acquire"
		}
	}
	w.mu.Lock()
	w.stallSite, w.stalled, w.stallHit = site, make(chan struct{}), false
	w.mu.Unlock()
	key := -1
	if site == "lock.release" {
		c := body[rnd.Intn(len(body))]
		key = c.key
		w.leave(c, rnd)
	} else {
		w.startCall(rnd, nkeys, -1)
	}
	if !w.quiesce() {
		w.ok = false
	}
	w.mu.Lock()
	hit := w.stallHit
	w.mu.Unlock()
	if hit && w.ok {
		// everything started now queues on the lock source's mutex
		for n := 1 + rnd.Intn(3); n > 0; n-- {
			if rnd.Chance(1, 3) {
				*nextTid++
				k := rnd.Intn(nkeys)
				if key >= 0 && key < nkeys && rnd.Chance(1, 2) {
					k = key
				}
				w.rawLock(*nextTid, k, w.pickParent(rnd))
			} else {
				k := -1
				if key >= 0 && key < nkeys && rnd.Chance(1, 2) {
					k = key
				}
				w.startCall(rnd, nkeys, k)
			}
		}
		if !w.quiesce() {
			w.ok = false
		}
	}
	w.mu.Lock()
	w.stallSite = ""
	close(w.stalled)
	w.mu.Unlock()
}

// drain lets every call finish and every outsider release, then requires that
// every key can be taken: nothing may be left held.
func (w *cworld) drain(rnd *hx.Rand, nkeys int) {
	for round := 0; w.ok && round < 500; round++ {
		w.mu.Lock()
		body := w.inBody()
		live := w.liveRaw()
		w.mu.Unlock()
		if len(body) == 0 && len(live) == 0 {
			break
		}
		for _, c := range body {
			w.leave(c, rnd)
		}
		for _, g := range live {
			w.rawRelease(g)
		}
		if !w.quiesce() {
			w.ok = false
			return
		}
		w.flush()
	}
	if !w.ok {
		return
	}
	w.mu.Lock()
	var left []string
	for _, c := range w.callers {
		if !c.returned {
			left = append(left, fmt.Sprintf("cid=%d key=%d parked=%v", c.cid, c.key, c.parked))
		}
	}
	for _, th := range w.threads {
		left = append(left, fmt.Sprintf("raw-thread=%d key=%d", th.tid, th.key))
	}
	w.mu.Unlock()
	if len(left) > 0 {
		w.r.Fail("", "calls-left-after-every-holder-released "+strings.Join(left, " "))
		return
	}
	// every key must be free now
	p := w.newParent(false)
	ks := []int{}
	w.mu.Lock()
	for k := range w.keyNames {
		ks = append(ks, k)
	}
	w.mu.Unlock()
	sort.Ints(ks)
	for _, k := range ks {
		w.mu.Lock()
		before := len(w.allRaw())
		w.mu.Unlock()
		w.rawTry(k, p)
		w.mu.Lock()
		after := w.allRaw()
		w.mu.Unlock()
		if len(after) == before {
			w.r.Fail("", fmt.Sprintf("key-held-after-every-call-returned key=%d name=%s", k, w.keyName(k)))
			continue
		}
		w.rawRelease(after[len(after)-1])
	}
	done := make(chan struct{})
	go func() { w.wg.Wait(); close(done) }()
	select {
	case <-done:
	case <-time.After(10 * time.Second):
		w.r.Fail("", "goroutines-stuck-after-drain")
	}
}

// indexSync is one Libindex.Index call on the calling goroutine.
func (w *cworld) indexSync(k, p int) {
	g := hx.GoID()
	var err error
	m, ctx := w.manifests[k], w.parents[p].ctx
	w.mu.Lock()
	w.wantKey[g] = m.Hash.String()
	w.mu.Unlock()
	out := hx.Guard(func() string { _, err = w.lib.Index(ctx, m); return "" })
	w.mu.Lock()
	delete(w.wantKey, g)
	c := w.lastCall[g]
	delete(w.lastCall, g)
	delete(w.inCall, g)
	if c != nil {
		c.returned, c.retClass = true, classOf(err)
		if out != "" {
			c.retClass = "panic"
		}
		if w.free {
			w.emitRet(c)
		}
	} else {
		w.r.Fail("", "index-call-did-not-request-the-manifest-lock")
	}
	w.mu.Unlock()
}

// callerFreeRun lets real goroutines race through Libindex.Index: a live and
// an already abandoned request context, critical sections that only yield.
// The caller lines are written by the callers themselves, in program order;
// the lock lines under the lock source's mutex, in real order.
func callerFreeRun(r *hx.Run, rnd *hx.Rand, nthreads, iters int) {
	w := newCWorld(r, "index")
	defer w.teardown()
	r.Op("reset", "ok", false)
	if !w.ok {
		return
	}
	w.free = true
	nkeys := 1 + rnd.Intn(3)
	for k := 0; k < nkeys; k++ {
		w.manifest(k)
	}
	w.newParent(false)
	w.newParent(true)
	var wg sync.WaitGroup
	for t := 0; t < nthreads; t++ {
		rr := rnd.Fork()
		wg.Add(1)
		go func() {
			defer wg.Done()
			for i := 0; i < iters; i++ {
				p := 0
				if rr.Chance(1, 5) {
					p = 1
				}
				w.indexSync(rr.Intn(nkeys), p)
			}
		}()
	}
	done := make(chan struct{})
	go func() { wg.Wait(); close(done) }()
	select {
	case <-done:
	case <-time.After(60 * time.Second):
		r.Fail("", "index-free-run-no-progress (lost wake-up, leaked key or deadlock)")
		return
	}
	w.drain(rnd, nkeys)
}

// replayAbandonedWaiter is the history behind seeded change C20-c3, on the
// real Libindex.Index: a request queues behind another one for the same
// manifest, is abandoned while it waits, the first one finishes; afterwards a
// third request must get through.
func replayAbandonedWaiter(r *hx.Run) {
	w := newCWorld(r, "index")
	defer w.teardown()
	r.Op("reset", "ok", false)
	if !w.ok {
		return
	}
	rnd := hx.NewRand(1)
	step := func() bool {
		if !w.quiesce() {
			return false
		}
		w.flush()
		return w.ok
	}
	p0, p1, p2 := w.newParent(false), w.newParent(false), w.newParent(false)
	w.startIndex(0, p0)
	if !step() {
		return
	}
	w.startIndex(0, p1)
	if !step() {
		return
	}
	w.cancelParent(p1)
	w.mu.Lock()
	body := w.inBody()
	w.mu.Unlock()
	if len(body) != 1 {
		r.Fail("", "replay: the first Index call is not inside its critical section")
		return
	}
	w.leave(body[0], rnd)
	if !step() {
		return
	}
	w.startIndex(0, p2)
	if !step() {
		return
	}
	w.mu.Lock()
	body = w.inBody()
	w.mu.Unlock()
	if len(body) != 1 {
		r.Fail("", "third-index-call-not-admitted-after-an-abandoned-waiter (the manifest key is still held)")
	}
	w.drain(rnd, 1)
}

func callerScenario(r *hx.Run, rnd *hx.Rand, mode string, nops int) {
	w := newCWorld(r, mode)
	defer w.teardown()
	r.Op("reset", "ok", false)
	if !w.ok {
		return
	}
	nkeys := 1 + rnd.Intn(3)
	tid := 0
	for i := 0; i < nops && w.ok && !r.Stop(); i++ {
		w.randomOp(rnd, nkeys, &tid)
		if !w.quiesce() {
			w.ok = false
			break
		}
		w.flush()
	}
	w.drain(rnd, nkeys)
}
