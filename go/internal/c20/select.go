package c20

// Which lock source an entry point ends up with (libindex.New, libvuln.New,
// updater.New), observed on the real constructors: a counting lock source is
// passed in (or nothing), one unit of locked work is run, and the hook points
// inside the process-local lock sources tell whether one of those was used.

import (
	"context"
	"fmt"
	"net/http"
	"sync"
	"sync/atomic"

	"github.com/quay/claircore"
	"github.com/quay/claircore/indexer"
	"github.com/quay/claircore/internal/verifhook"
	"github.com/quay/claircore/libindex"
	"github.com/quay/claircore/libvuln"
	"github.com/quay/claircore/libvuln/driver"
	"github.com/quay/claircore/libvuln/updates"
	"github.com/quay/claircore/updater"
	udriver "github.com/quay/claircore/updater/driver/v1"
	"github.com/quay/claircore/verifharness/internal/hx"
	"github.com/quay/claircore/verifharness/internal/memstore"
)

// countingLocks is "the caller's own lock source": it counts the calls it
// receives and hands them to a process-local source of its own.
type countingLocks struct {
	inner  locker
	calls  atomic.Int64
	closed atomic.Int64
}

func (c *countingLocks) Lock(ctx context.Context, k string) (context.Context, context.CancelFunc) {
	c.calls.Add(1)
	return c.inner.Lock(ctx, k)
}
func (c *countingLocks) TryLock(ctx context.Context, k string) (context.Context, context.CancelFunc) {
	c.calls.Add(1)
	return c.inner.TryLock(ctx, k)
}
func (c *countingLocks) Close(context.Context) error { c.closed.Add(1); return nil }

type plainArena struct{}

func (plainArena) Realizer(context.Context) indexer.Realizer { return stubRealizer{} }
func (plainArena) Close(context.Context) error               { return nil }

// localEvents counts what happens inside the process-local lock sources.
type localEvents struct {
	mu                 sync.Mutex
	acquired, released int
}

func (e *localEvents) hook(site, _ string) {
	e.mu.Lock()
	switch site {
	case "lock.acquire", "lock.try.acquire":
		e.acquired++
	case "lock.release":
		e.released++
	}
	e.mu.Unlock()
}

func (e *localEvents) get() (int, int) {
	e.mu.Lock()
	defer e.mu.Unlock()
	return e.acquired, e.released
}

// selection writes the six `select` lines.
func selection(r *hx.Run) {
	ctx := context.Background()
	verdict := func(entry string, given *countingLocks, ev *localEvents, built, panicked bool) string {
		acq, rel := ev.get()
		if acq != rel {
			r.Fail("", fmt.Sprintf("selection: %s left a key held (acquired=%d released=%d)", entry, acq, rel))
		}
		if panicked {
			r.Fail("", fmt.Sprintf("selection: %s went on without any lock source: nil dereference when the lock was needed (Locker given: %v)", entry, given != nil))
		}
		if built && !panicked && given != nil && given.calls.Load() == 0 {
			r.Fail("", fmt.Sprintf("selection: %s was given a lock source and did not use it (process-local acquisitions instead: %d)", entry, acq))
		}
		if built && !panicked && given == nil && acq == 0 {
			r.Fail("", fmt.Sprintf("selection: %s without a Locker ran its locked work with no lock taken anywhere", entry))
		}
		switch {
		case panicked:
			return "nil-deref"
		case !built:
			return "rejected"
		case given != nil && given.calls.Load() > 0:
			return "given"
		case given == nil && acq > 0:
			return "local"
		}
		return "no-lock-taken"
	}
	for _, withLocker := range []bool{false, true} {
		arg := "nil"
		var given *countingLocks
		if withLocker {
			arg = "given"
		}
		mk := func(l locker) *countingLocks {
			if !withLocker {
				return nil
			}
			return &countingLocks{inner: l}
		}

		// libindex.New + one Index
		{
			ev := &localEvents{}
			verifhook.Install(ev.hook)
			given = mk(updates.NewLocalLockSource())
			opts := &libindex.Options{Store: memstore.New(), FetchArena: plainArena{}, Ecosystems: []*indexer.Ecosystem{}}
			if given != nil {
				opts.Locker = given
			}
			var lib *libindex.Libindex
			var err error
			out := hx.Guard(func() string {
				lib, err = libindex.New(ctx, opts, http.DefaultClient)
				if err != nil || lib == nil {
					return ""
				}
				m := &claircore.Manifest{Hash: claircore.MustParseDigest("sha256:" + "e3b0c44298fc1c149afbf4c8996fb92427ae41e4649b934ca495991b7852b855")}
				lib.Index(ctx, m)
				lib.Close(ctx)
				return ""
			})
			verifhook.Install(nil)
			if given != nil && lib != nil && given.closed.Load() != 1 {
				r.Fail("", fmt.Sprintf("selection: Libindex.Close closed the given lock source %d times", given.closed.Load()))
			}
			r.Op("select libindex "+arg, verdict("libindex", given, ev, err == nil && lib != nil, out != ""), true)
		}
		// libvuln.New + one FetchUpdates
		{
			ev := &localEvents{}
			verifhook.Install(ev.hook)
			given = mk(updates.NewLocalLockSource())
			opts := &libvuln.Options{Store: &mStore{}, Client: http.DefaultClient, MatcherNames: []string{}, UpdaterSets: []string{},
				Updaters: []driver.Updater{&mUpdater{name: "k0"}, &mUpdater{name: "k1"}}, DisableBackgroundUpdates: true, UpdateRetention: 2}
			if given != nil {
				opts.Locker = given
			}
			var lv *libvuln.Libvuln
			var err error
			out := hx.Guard(func() string {
				lv, err = libvuln.New(ctx, opts)
				if err != nil || lv == nil {
					return ""
				}
				// Close first: with no lock source at all this is where it shows
				// without taking the process down
				lv.Close(ctx)
				lv.FetchUpdates(ctx)
				return ""
			})
			verifhook.Install(nil)
			r.Op("select libvuln "+arg, verdict("libvuln", given, ev, err == nil && lv != nil, out != ""), true)
		}
		// updater.New + one Run
		{
			ev := &localEvents{}
			verifhook.Install(ev.hook)
			given = mk(updater.NewLocalLockerForVerif())
			opts := &updater.Options{Store: uStore{}, Client: http.DefaultClient, Factories: []udriver.UpdaterFactory{&uFactory{keys: []int{0, 1}}}}
			if given != nil {
				opts.Locker = given
			}
			var u *updater.Updater
			var err error
			out := hx.Guard(func() string {
				u, err = updater.New(ctx, opts)
				if err != nil || u == nil {
					return ""
				}
				defer u.Close()
				if u.LockerForVerif() == nil {
					// Run would dereference it in a worker goroutine, which nothing can recover
					panic("updater.New left the Updater without a lock source")
				}
				u.Run(ctx, false)
				return ""
			})
			verifhook.Install(nil)
			r.Op("select updater "+arg, verdict("updater", given, ev, err == nil && u != nil, out != ""), true)
		}
	}
}
