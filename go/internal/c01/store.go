package c01

// store.go: a minimal private in-memory indexer.Store for the end-to-end
// oracle. It keeps what the postgres store keeps, with the identities of the
// real schema (datastore/postgres/migrations/indexer/01-init.sql):
//
//	package      unique (name, version, kind, module, arch)
//	dist         unique (name, did, version, version_code_name, version_id, arch, cpe, pretty_name)
//	repo         unique (name, key, uri)
//	package_scanartifact  primary key (layer, package, source, scanner, package_db, repository_hint)
//
// PackageDB, RepositoryHint and Filepath live on the scan artifact, not on the
// package, exactly as in PackagesByLayer's join. The SQL engine itself is
// modelled, not verified.

import (
	"context"
	"fmt"
	"sort"
	"strconv"
	"sync"

	"github.com/quay/claircore"
	"github.com/quay/claircore/indexer"
)

type scannerKey struct{ name, version, kind string }

func skey(s indexer.VersionedScanner) scannerKey { return scannerKey{s.Name(), s.Version(), s.Kind()} }

type pkgKey struct{ name, version, kind, module, arch string }

type pkgArtifact struct {
	pkg, src int
	db, hint string
	fp       string
}

type layerScan struct {
	layer string
	scnr  scannerKey
}

type memStore struct {
	mu sync.Mutex

	pkgIDs  map[pkgKey]int
	pkgs    []claircore.Package // by id-1
	distIDs map[string]int
	dists   []claircore.Distribution
	repoIDs map[[3]string]int
	repos   []claircore.Repository

	pkgArts  map[layerScan][]pkgArtifact
	distArts map[layerScan][]int
	repoArts map[layerScan][]int
	fileArts map[layerScan][]claircore.File

	scanned      map[layerScan]bool
	manifests    map[string][]string
	manifestDone map[string]map[scannerKey]bool
	reports      map[string]*claircore.IndexReport
	indexed      map[string][]*claircore.IndexRecord

	// reads of the scan artifacts while an Index call runs (the store reads of controller.coalesce):
	// logged in order; the read number faultAt (0-based, -1 = none) fails
	recording bool
	faultAt   int
	readLog   []storeRead
}

// storeRead is one PackagesByLayer / DistributionsByLayer / RepositoriesByLayer / FilesByLayer call.
type storeRead struct {
	Method   string
	Layer    string
	NonEmpty bool
}

var errInjected = fmt.Errorf("injected store read fault")

// read logs one artifact read and decides whether it fails. Call with s.mu held.
func (s *memStore) read(method, layer string, n int) error {
	if !s.recording {
		return nil
	}
	k := len(s.readLog)
	s.readLog = append(s.readLog, storeRead{method, layer, n > 0})
	if k == s.faultAt {
		return errInjected
	}
	return nil
}

var _ indexer.Store = (*memStore)(nil)

func newMemStore() *memStore {
	return &memStore{
		pkgIDs: map[pkgKey]int{}, distIDs: map[string]int{}, repoIDs: map[[3]string]int{},
		pkgArts: map[layerScan][]pkgArtifact{}, distArts: map[layerScan][]int{}, repoArts: map[layerScan][]int{}, fileArts: map[layerScan][]claircore.File{},
		scanned: map[layerScan]bool{}, manifests: map[string][]string{}, manifestDone: map[string]map[scannerKey]bool{},
		reports: map[string]*claircore.IndexReport{}, indexed: map[string][]*claircore.IndexRecord{},
		faultAt: -1,
	}
}

func (s *memStore) Close(context.Context) error { return nil }

// ---- Setter ----

func (s *memStore) PersistManifest(ctx context.Context, m claircore.Manifest) error {
	s.mu.Lock()
	defer s.mu.Unlock()
	var ls []string
	for _, l := range m.Layers {
		ls = append(ls, l.Hash.String())
	}
	s.manifests[m.Hash.String()] = ls
	return nil
}

func (s *memStore) DeleteManifests(ctx context.Context, ds ...claircore.Digest) ([]claircore.Digest, error) {
	s.mu.Lock()
	defer s.mu.Unlock()
	var out []claircore.Digest
	for _, d := range ds {
		if _, ok := s.manifests[d.String()]; ok {
			delete(s.manifests, d.String())
			delete(s.manifestDone, d.String())
			delete(s.reports, d.String())
			out = append(out, d)
		}
	}
	return out, nil
}

func (s *memStore) SetLayerScanned(ctx context.Context, hash claircore.Digest, scnr indexer.VersionedScanner) error {
	s.mu.Lock()
	defer s.mu.Unlock()
	s.scanned[layerScan{hash.String(), skey(scnr)}] = true
	return nil
}

func (s *memStore) RegisterScanners(ctx context.Context, scnrs indexer.VersionedScanners) error {
	return nil
}

func (s *memStore) SetIndexReport(ctx context.Context, ir *claircore.IndexReport) error {
	s.mu.Lock()
	defer s.mu.Unlock()
	s.reports[ir.Hash.String()] = ir
	return nil
}

func (s *memStore) SetIndexFinished(ctx context.Context, ir *claircore.IndexReport, scnrs indexer.VersionedScanners) error {
	s.mu.Lock()
	defer s.mu.Unlock()
	h := ir.Hash.String()
	if s.manifestDone[h] == nil {
		s.manifestDone[h] = map[scannerKey]bool{}
	}
	for _, sc := range scnrs {
		s.manifestDone[h][skey(sc)] = true
	}
	s.reports[h] = ir
	return nil
}

// ---- Querier ----

func (s *memStore) ManifestScanned(ctx context.Context, hash claircore.Digest, scnrs indexer.VersionedScanners) (bool, error) {
	s.mu.Lock()
	defer s.mu.Unlock()
	done := s.manifestDone[hash.String()]
	if done == nil {
		return false, nil
	}
	for _, sc := range scnrs {
		if !done[skey(sc)] {
			return false, nil
		}
	}
	return true, nil
}

func (s *memStore) LayerScanned(ctx context.Context, hash claircore.Digest, scnr indexer.VersionedScanner) (bool, error) {
	s.mu.Lock()
	defer s.mu.Unlock()
	return s.scanned[layerScan{hash.String(), skey(scnr)}], nil
}

func (s *memStore) PackagesByLayer(ctx context.Context, hash claircore.Digest, scnrs indexer.VersionedScanners) ([]*claircore.Package, error) {
	s.mu.Lock()
	defer s.mu.Unlock()
	out := []*claircore.Package{}
	for _, sc := range scnrs {
		for _, a := range s.pkgArts[layerScan{hash.String(), skey(sc)}] {
			p := s.pkgs[a.pkg-1]
			src := s.pkgs[a.src-1]
			p.ID = strconv.Itoa(a.pkg)
			src.ID = strconv.Itoa(a.src)
			p.Source = &src
			p.PackageDB = a.db
			p.RepositoryHint = a.hint
			p.Filepath = a.fp
			out = append(out, &p)
		}
	}
	if err := s.read("PackagesByLayer", hash.String(), len(out)); err != nil {
		return nil, err
	}
	return out, nil
}

func (s *memStore) DistributionsByLayer(ctx context.Context, hash claircore.Digest, scnrs indexer.VersionedScanners) ([]*claircore.Distribution, error) {
	s.mu.Lock()
	defer s.mu.Unlock()
	out := []*claircore.Distribution{}
	for _, sc := range scnrs {
		for _, id := range s.distArts[layerScan{hash.String(), skey(sc)}] {
			d := s.dists[id-1]
			d.ID = strconv.Itoa(id)
			out = append(out, &d)
		}
	}
	if err := s.read("DistributionsByLayer", hash.String(), len(out)); err != nil {
		return nil, err
	}
	return out, nil
}

func (s *memStore) RepositoriesByLayer(ctx context.Context, hash claircore.Digest, scnrs indexer.VersionedScanners) ([]*claircore.Repository, error) {
	s.mu.Lock()
	defer s.mu.Unlock()
	out := []*claircore.Repository{}
	for _, sc := range scnrs {
		for _, id := range s.repoArts[layerScan{hash.String(), skey(sc)}] {
			r := s.repos[id-1]
			r.ID = strconv.Itoa(id)
			out = append(out, &r)
		}
	}
	if err := s.read("RepositoriesByLayer", hash.String(), len(out)); err != nil {
		return nil, err
	}
	return out, nil
}

func (s *memStore) FilesByLayer(ctx context.Context, hash claircore.Digest, scnrs indexer.VersionedScanners) ([]claircore.File, error) {
	s.mu.Lock()
	defer s.mu.Unlock()
	out := []claircore.File{}
	for _, sc := range scnrs {
		out = append(out, s.fileArts[layerScan{hash.String(), skey(sc)}]...)
	}
	if err := s.read("FilesByLayer", hash.String(), len(out)); err != nil {
		return nil, err
	}
	return out, nil
}

func (s *memStore) IndexReport(ctx context.Context, hash claircore.Digest) (*claircore.IndexReport, bool, error) {
	s.mu.Lock()
	defer s.mu.Unlock()
	ir, ok := s.reports[hash.String()]
	return ir, ok, nil
}

func (s *memStore) AffectedManifests(ctx context.Context, v claircore.Vulnerability, f claircore.CheckVulnernableFunc) ([]claircore.Digest, error) {
	return nil, fmt.Errorf("not implemented")
}

// ---- Indexer ----

func (s *memStore) pkgID(p *claircore.Package) int {
	k := pkgKey{p.Name, p.Version, p.Kind, p.Module, p.Arch}
	if id, ok := s.pkgIDs[k]; ok {
		return id
	}
	c := claircore.Package{Name: p.Name, Version: p.Version, Kind: p.Kind, Module: p.Module, Arch: p.Arch, NormalizedVersion: p.NormalizedVersion}
	s.pkgs = append(s.pkgs, c)
	s.pkgIDs[k] = len(s.pkgs)
	return len(s.pkgs)
}

func (s *memStore) IndexPackages(ctx context.Context, pkgs []*claircore.Package, layer *claircore.Layer, scnr indexer.VersionedScanner) error {
	s.mu.Lock()
	defer s.mu.Unlock()
	ls := layerScan{layer.Hash.String(), skey(scnr)}
	for _, p := range pkgs {
		src := p.Source
		if src == nil {
			src = &claircore.Package{}
		}
		sid := s.pkgID(src)
		pid := s.pkgID(p)
		if p.Name == "" {
			continue
		}
		dup := false
		for _, a := range s.pkgArts[ls] {
			if a.pkg == pid && a.src == sid && a.db == p.PackageDB && a.hint == p.RepositoryHint {
				dup = true // ON CONFLICT DO NOTHING on the primary key
			}
		}
		if !dup {
			s.pkgArts[ls] = append(s.pkgArts[ls], pkgArtifact{pkg: pid, src: sid, db: p.PackageDB, hint: p.RepositoryHint, fp: p.Filepath})
		}
	}
	return nil
}

func (s *memStore) IndexDistributions(ctx context.Context, dists []*claircore.Distribution, layer *claircore.Layer, scnr indexer.VersionedScanner) error {
	s.mu.Lock()
	defer s.mu.Unlock()
	ls := layerScan{layer.Hash.String(), skey(scnr)}
	for _, d := range dists {
		k := fmt.Sprintf("%q %q %q %q %q %q %q %q", d.Name, d.DID, d.Version, d.VersionCodeName, d.VersionID, d.Arch, d.CPE.String(), d.PrettyName)
		id, ok := s.distIDs[k]
		if !ok {
			c := *d
			c.ID = ""
			s.dists = append(s.dists, c)
			id = len(s.dists)
			s.distIDs[k] = id
		}
		dup := false
		for _, x := range s.distArts[ls] {
			if x == id {
				dup = true
			}
		}
		if !dup {
			s.distArts[ls] = append(s.distArts[ls], id)
		}
	}
	return nil
}

func (s *memStore) IndexRepositories(ctx context.Context, repos []*claircore.Repository, layer *claircore.Layer, scnr indexer.VersionedScanner) error {
	s.mu.Lock()
	defer s.mu.Unlock()
	ls := layerScan{layer.Hash.String(), skey(scnr)}
	// the rhel repository scanner hands over its CPEs in map order; ids and row order must be a
	// function of the seed
	repos = append([]*claircore.Repository(nil), repos...)
	sort.Slice(repos, func(i, j int) bool {
		a, b := repos[i], repos[j]
		return a.Name+"\x00"+a.Key+"\x00"+a.URI < b.Name+"\x00"+b.Key+"\x00"+b.URI
	})
	for _, r := range repos {
		k := [3]string{r.Name, r.Key, r.URI}
		id, ok := s.repoIDs[k]
		if !ok {
			c := *r
			c.ID = ""
			s.repos = append(s.repos, c)
			id = len(s.repos)
			s.repoIDs[k] = id
		}
		dup := false
		for _, x := range s.repoArts[ls] {
			if x == id {
				dup = true
			}
		}
		if !dup {
			s.repoArts[ls] = append(s.repoArts[ls], id)
		}
	}
	return nil
}

func (s *memStore) IndexFiles(ctx context.Context, files []claircore.File, layer *claircore.Layer, scnr indexer.VersionedScanner) error {
	s.mu.Lock()
	defer s.mu.Unlock()
	ls := layerScan{layer.Hash.String(), skey(scnr)}
	for _, f := range files {
		dup := false
		for _, x := range s.fileArts[ls] {
			if x == f {
				dup = true
			}
		}
		if !dup {
			s.fileArts[ls] = append(s.fileArts[ls], f)
		}
	}
	return nil
}

func (s *memStore) IndexManifest(ctx context.Context, ir *claircore.IndexReport) error {
	s.mu.Lock()
	defer s.mu.Unlock()
	s.indexed[ir.Hash.String()] = ir.IndexRecords()
	return nil
}
