package c01

// rpmdb.go: a writer of rpm header blobs and of rpm's "ndb" database container
// (Packages.db), so that image histories with rpm databases can be generated
// and read back by the REAL rpm scanner. (The same writer as go/internal/c02's,
// which is checked against the scanner there.)

import (
	"bytes"
	"encoding/binary"
	"hash/adler32"
	"sort"
)

// rpm's own numbers (lib/rpmtag.h, lib/header.h); claircore/rpm/internal/rpm cannot be imported
// from here, and the writer is meant to be independent of it anyway.
type rpmTag int32
type rpmKind uint32

const (
	tagHeaderImmutable   rpmTag = 63
	tagSigPGP            rpmTag = 259
	tagName              rpmTag = 1000
	tagVersion           rpmTag = 1001
	tagRelease           rpmTag = 1002
	tagEpoch             rpmTag = 1003
	tagSummary           rpmTag = 1004
	tagSize              rpmTag = 1009
	tagLicense           rpmTag = 1014
	tagArch              rpmTag = 1022
	tagSourceRPM         rpmTag = 1044
	tagDirindexes        rpmTag = 1116
	tagBasenames         rpmTag = 1117
	tagDirnames          rpmTag = 1118
	tagPayloadDigest     rpmTag = 5092
	tagPayloadDigestAlgo rpmTag = 5093
	tagModularityLabel   rpmTag = 5096

	typeInt16       rpmKind = 3
	typeInt32       rpmKind = 4
	typeInt64       rpmKind = 5
	typeString      rpmKind = 6
	typeBin         rpmKind = 7
	typeStringArray rpmKind = 8
	typeI18nString  rpmKind = 9
)

// ---- the harness's own writer of rpm header blobs and database containers ----

type rpmEntry struct {
	tag  rpmTag
	typ  rpmKind
	data []byte
	ct   uint32
}

func rpmString(tag rpmTag, s string) rpmEntry {
	return rpmEntry{tag: tag, typ: typeString, data: append([]byte(s), 0), ct: 1}
}

func rpmStrings(tag rpmTag, typ rpmKind, ss []string) rpmEntry {
	var b []byte
	for _, s := range ss {
		b = append(append(b, s...), 0)
	}
	return rpmEntry{tag: tag, typ: typ, data: b, ct: uint32(len(ss))}
}

func rpmInt32s(tag rpmTag, xs []int32) rpmEntry {
	b := make([]byte, 4*len(xs))
	for i, x := range xs {
		binary.BigEndian.PutUint32(b[4*i:], uint32(x))
	}
	return rpmEntry{tag: tag, typ: typeInt32, data: b, ct: uint32(len(xs))}
}

func rpmBin(tag rpmTag, b []byte) rpmEntry {
	return rpmEntry{tag: tag, typ: typeBin, data: b, ct: uint32(len(b))}
}

func rpmAlign(t rpmKind) int {
	switch t {
	case typeInt16:
		return 2
	case typeInt32:
		return 4
	case typeInt64:
		return 8
	}
	return 1
}

// rpmHeaderBlob renders the entries as a header blob with an immutable region, the way rpm
// stores headers in its database: index count, data size, index (region tag first, then the
// entries by tag), data store, region trailer at the end of the data.
func rpmHeaderBlob(ents []rpmEntry) []byte {
	sort.SliceStable(ents, func(i, j int) bool { return ents[i].tag < ents[j].tag })
	var data []byte
	type idx struct {
		tag, typ, off, ct uint32
	}
	var index []idx
	for _, e := range ents {
		for len(data)%rpmAlign(e.typ) != 0 {
			data = append(data, 0)
		}
		index = append(index, idx{uint32(e.tag), uint32(e.typ), uint32(len(data)), e.ct})
		data = append(data, e.data...)
	}
	il := uint32(len(index) + 1)
	trailerOff := uint32(len(data))
	tr := make([]byte, 16)
	binary.BigEndian.PutUint32(tr[0:], uint32(tagHeaderImmutable))
	binary.BigEndian.PutUint32(tr[4:], uint32(typeBin))
	binary.BigEndian.PutUint32(tr[8:], uint32(-int32(il*16)))
	binary.BigEndian.PutUint32(tr[12:], 16)
	data = append(data, tr...)
	var out bytes.Buffer
	w32 := func(x uint32) { binary.Write(&out, binary.BigEndian, x) }
	w32(il)
	w32(uint32(len(data)))
	w32(uint32(tagHeaderImmutable))
	w32(uint32(typeBin))
	w32(trailerOff)
	w32(16)
	for _, e := range index {
		w32(e.tag)
		w32(e.typ)
		w32(e.off)
		w32(e.ct)
	}
	out.Write(data)
	return out.Bytes()
}

// rpmNdb builds a Packages.db (rpm's "ndb" format) holding the blobs: slots,
// package indexes and blobs all in order, no holes.
func rpmNdb(blobs [][]byte) []byte {
	n := len(blobs)
	npages := (n + 2 + 255) / 256
	if npages == 0 {
		npages = 1
	}
	le := binary.LittleEndian
	file := make([]byte, npages*4096)
	copy(file[0:], "RpmP")
	le.PutUint32(file[4:], 0)
	le.PutUint32(file[8:], 1)
	le.PutUint32(file[12:], uint32(npages))
	le.PutUint32(file[16:], uint32(n+1))
	for i := 2; i < npages*256; i++ {
		copy(file[i*16:], "Slot") // a free slot: magic, everything else zero
	}
	for i, b := range blobs {
		blobLen := 16 + len(b) + 12
		blocks := (blobLen + 15) / 16
		off := len(file)
		blob := make([]byte, blocks*16)
		copy(blob[0:], "BlbS")
		le.PutUint32(blob[4:], uint32(i+1))
		le.PutUint32(blob[8:], 1)
		le.PutUint32(blob[12:], uint32(len(b)))
		copy(blob[16:], b)
		sum := adler32.Checksum(blob[:len(blob)-12])
		le.PutUint32(blob[len(blob)-12:], sum)
		le.PutUint32(blob[len(blob)-8:], uint32(len(b)))
		copy(blob[len(blob)-4:], "BlbE")
		file = append(file, blob...)
		s := (2 + i) * 16
		le.PutUint32(file[s+4:], uint32(i+1))
		le.PutUint32(file[s+8:], uint32(off/16))
		le.PutUint32(file[s+12:], uint32(blocks))
	}
	return file
}

// rpmDBBytes renders an rpm database holding the packages (sorted by name).
func rpmDBBytes(pkgs []osPkg) []byte {
	ps := append([]osPkg(nil), pkgs...)
	sort.Slice(ps, func(i, j int) bool { return ps[i].Name < ps[j].Name })
	var blobs [][]byte
	for _, p := range ps {
		v, rel := p.Version, "1"
		if i := lastIndexByte(v, '-'); i >= 0 {
			v, rel = p.Version[:i], p.Version[i+1:]
		}
		ents := []rpmEntry{
			rpmString(tagName, p.Name), rpmString(tagVersion, v), rpmString(tagRelease, rel),
			rpmStrings(tagSummary, typeI18nString, []string{"summary of " + p.Name}),
			rpmString(tagLicense, "MIT"),
			rpmInt32s(tagSize, []int32{12345}),
			rpmString(tagArch, p.Arch),
		}
		src := p.Source
		if src == "" {
			src = p.Name
		}
		ents = append(ents, rpmString(tagSourceRPM, src+"-"+v+"-"+rel+".src.rpm"))
		blobs = append(blobs, rpmHeaderBlob(ents))
	}
	return rpmNdb(blobs)
}

func lastIndexByte(s string, c byte) int {
	for i := len(s) - 1; i >= 0; i-- {
		if s[i] == c {
			return i
		}
	}
	return -1
}

var _ = bytes.MinRead
