package c01

// corpus.go: protocol lines kept in corpus/C01/*.ops (witnesses and past
// disagreements) are run first on every check.

import (
	"bufio"
	"os"
	"path/filepath"
	"sort"
	"strings"

	"github.com/quay/claircore/verifharness/internal/hx"
)

func decArts(s string) ([]mLayer, bool) {
	if s == "-" {
		return nil, true
	}
	var out []mLayer
	items := func(x string) []string {
		if x == "" {
			return nil
		}
		return strings.Split(x, ",")
	}
	for _, ls := range strings.Split(s, "|") {
		f := strings.Split(ls, ";")
		if len(f) != 5 {
			return nil, false
		}
		l := mLayer{Hash: f[0], Dists: items(f[2])}
		for _, x := range items(f[1]) {
			p := strings.Split(x, "~")
			if len(p) != 8 {
				return nil, false
			}
			l.Pkgs = append(l.Pkgs, mPkg{p[0], p[1], p[2], p[3], p[4], p[5], p[6], p[7]})
		}
		for _, x := range items(f[3]) {
			p := strings.Split(x, "~")
			if len(p) != 4 {
				return nil, false
			}
			l.Repos = append(l.Repos, mRepo{p[0], p[1], p[2], p[3]})
		}
		for _, x := range items(f[4]) {
			p := strings.Split(x, "~")
			if len(p) != 2 {
				return nil, false
			}
			l.Files = append(l.Files, mFile{p[0], p[1]})
		}
		out = append(out, l)
	}
	return out, true
}

func runCorpus(r *hx.Run, dir string) {
	files, _ := filepath.Glob(filepath.Join(dir, "*.ops"))
	sort.Strings(files)
	for _, fn := range files {
		f, err := os.Open(fn)
		if err != nil {
			continue
		}
		sc := bufio.NewScanner(f)
		sc.Buffer(make([]byte, 1<<20), 1<<26)
		for sc.Scan() {
			line := strings.TrimSpace(sc.Text())
			if line == "" || strings.HasPrefix(line, "#") {
				continue
			}
			w := strings.Fields(line)
			switch {
			case w[0] == "co" && len(w) == 3:
				if a, ok := decArts(w[2]); ok {
					opCoalesce(r, w[1], a)
					r.Count("corpus:co")
				}
			case w[0] == "idx" && len(w) >= 2:
				var layers []string
				if w[1] != "-" {
					layers = strings.Split(w[1], ",")
				}
				var ecos []eco
				ok := true
				for _, e := range w[2:] {
					k, a, found := strings.Cut(e, "=")
					arts, good := decArts(a)
					if !found || !good {
						ok = false
						break
					}
					ecos = append(ecos, eco{k, arts})
				}
				if ok {
					opIndex(r, layers, ecos)
					r.Count("corpus:idx")
				}
			case w[0] == "del" && len(w) == 3:
				fp, e1 := hx.Unhex(w[1])
				wh, e2 := hx.Unhex(w[2])
				if e1 == nil && e2 == nil {
					opDel(r, string(fp), string(wh))
					r.Count("corpus:del")
				}
			}
		}
		f.Close()
	}
}
