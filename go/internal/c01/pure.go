// Package c01 is the harness of property C01 (index report = contents of the
// final image).
//
// pure.go: the "pure layer" — generated []*indexer.LayerArtifacts are fed to
// the real coalescers, controller.MergeSR, whiteout.Resolver and
// IndexReport.IndexRecords; the canonical reports are the protocol answers the
// Lean model (Model/Coalesce.lean) has to reproduce, and the statements of
// theorems report_wellformed / linux_newest_db_wins / rhel_last_layer_wins are
// checked directly on the real outputs.
package c01

import (
	"context"
	"crypto/sha256"
	"fmt"
	"path"
	"sort"
	"strings"

	"github.com/quay/claircore"
	"github.com/quay/claircore/gobin"
	"github.com/quay/claircore/indexer"
	"github.com/quay/claircore/indexer/controller"
	"github.com/quay/claircore/java"
	"github.com/quay/claircore/linux"
	"github.com/quay/claircore/nodejs"
	"github.com/quay/claircore/python"
	"github.com/quay/claircore/rhel"
	"github.com/quay/claircore/ruby"
	"github.com/quay/claircore/verifharness/internal/hx"
	"github.com/quay/claircore/whiteout"
)

// ---- the harness's own artifact values (what goes on the protocol line) ----

type mPkg struct{ ID, Name, Version, Kind, Arch, Src, DB, FP string }
type mRepo struct{ ID, Name, Key, URI string }
type mFile struct{ Path, Kind string }
type mLayer struct {
	Hash  string
	Pkgs  []mPkg
	Dists []string
	Repos []mRepo
	Files []mFile
}

func encArts(ls []mLayer) string {
	if len(ls) == 0 {
		return "-"
	}
	var out []string
	for _, l := range ls {
		var ps, rs, fs []string
		for _, p := range l.Pkgs {
			ps = append(ps, strings.Join([]string{p.ID, p.Name, p.Version, p.Kind, p.Arch, p.Src, p.DB, p.FP}, "~"))
		}
		for _, r := range l.Repos {
			rs = append(rs, strings.Join([]string{r.ID, r.Name, r.Key, r.URI}, "~"))
		}
		for _, f := range l.Files {
			fs = append(fs, f.Path+"~"+f.Kind)
		}
		out = append(out, strings.Join([]string{l.Hash, strings.Join(ps, ","), strings.Join(l.Dists, ","), strings.Join(rs, ","), strings.Join(fs, ",")}, ";"))
	}
	return strings.Join(out, "|")
}

// digests: a short layer name stands for sha256(name); the reverse table
// turns digests in reports back into names.
var digestNames = map[string]string{}

func digestOf(name string) claircore.Digest {
	sum := sha256.Sum256([]byte(name))
	d, err := claircore.NewDigest("sha256", sum[:])
	if err != nil {
		panic(err)
	}
	digestNames[d.String()] = name
	return d
}

func nameOf(d string) string {
	if n, ok := digestNames[d]; ok {
		return n
	}
	return d
}

func toReal(ls []mLayer) []*indexer.LayerArtifacts {
	out := make([]*indexer.LayerArtifacts, 0, len(ls))
	for _, l := range ls {
		la := &indexer.LayerArtifacts{Hash: digestOf(l.Hash)}
		for _, p := range l.Pkgs {
			la.Pkgs = append(la.Pkgs, &claircore.Package{ID: p.ID, Name: p.Name, Version: p.Version, Kind: p.Kind, Arch: p.Arch,
				Source: &claircore.Package{Name: p.Src}, PackageDB: p.DB, Filepath: p.FP})
		}
		for _, d := range l.Dists {
			la.Dist = append(la.Dist, &claircore.Distribution{ID: d, DID: "did-" + d})
		}
		for _, r := range l.Repos {
			la.Repos = append(la.Repos, &claircore.Repository{ID: r.ID, Name: r.Name, Key: r.Key, URI: r.URI})
		}
		for _, f := range l.Files {
			la.Files = append(la.Files, claircore.File{Path: f.Path, Kind: claircore.FileKind(f.Kind)})
		}
		out = append(out, la)
	}
	return out
}

// ---- canonical rendering of a real report (same text as Driver/C01.lean) ----

func srcName(p *claircore.Package) string {
	if p.Source == nil {
		return ""
	}
	return p.Source.Name
}

func renderEnv(e *claircore.Environment) string {
	return e.PackageDB + "~" + nameOf(e.IntroducedIn.String()) + "~" + e.DistributionID + "~" + strings.Join(e.RepositoryIDs, "+")
}

func renderReport(ir *claircore.IndexReport, withDB, sortEnvs bool) string {
	var pk, ds, rs, fs []string
	for id, p := range ir.Packages {
		var es []string
		for _, e := range ir.Environments[id] {
			es = append(es, renderEnv(e))
		}
		if sortEnvs {
			sort.Strings(es)
		}
		db := "*"
		if withDB {
			db = p.PackageDB
		}
		pk = append(pk, id+"="+strings.Join([]string{p.ID, p.Name, p.Version, p.Kind, p.Arch, srcName(p), db, p.Filepath}, "~")+"|"+strings.Join(es, ";"))
	}
	for id, d := range ir.Distributions {
		ds = append(ds, id+"="+d.ID)
	}
	for id, r := range ir.Repositories {
		rs = append(rs, id+"="+strings.Join([]string{r.ID, r.Name, r.Key, r.URI}, "~"))
	}
	for h, f := range ir.Files {
		fs = append(fs, nameOf(h)+"~"+f.Path+"~"+string(f.Kind))
	}
	sort.Strings(pk)
	sort.Strings(ds)
	sort.Strings(rs)
	sort.Strings(fs)
	return fmt.Sprintf("P[%s] E%d D[%s] R[%s] F[%s]", strings.Join(pk, ","), len(ir.Environments), strings.Join(ds, ","), strings.Join(rs, ","), strings.Join(fs, ","))
}

func renderRecords(ir *claircore.IndexReport) string {
	var rs []string
	for _, r := range ir.IndexRecords() {
		d, rp := "nil", "nil"
		if r.Distribution != nil {
			d = r.Distribution.ID
		}
		if r.Repository != nil {
			rp = r.Repository.ID
		}
		rs = append(rs, r.Package.ID+"/"+d+"/"+rp)
	}
	sort.Strings(rs)
	return "rec[" + strings.Join(rs, ",") + "]"
}

// ---- the real coalescers ----

var bg = context.Background()

func ecoCoalescer(e *indexer.Ecosystem) indexer.Coalescer {
	c, err := e.Coalescer(bg)
	if err != nil {
		panic(err)
	}
	return c
}

// realCoalesce runs the real coalescer(s) of a kind on fresh copies of the
// artifacts. For "lang" the four textually identical coalescers must agree.
func realCoalesce(r *hx.Run, kind string, arts []mLayer) (ir *claircore.IndexReport, out string) {
	run := func(c indexer.Coalescer) (*claircore.IndexReport, string) {
		var rep *claircore.IndexReport
		o := hx.Guard(func() string {
			x, err := c.Coalesce(bg, toReal(arts))
			if err != nil {
				return "err"
			}
			rep = x
			return "ok"
		})
		return rep, o
	}
	switch kind {
	case "linux":
		return run(linux.NewCoalescer())
	case "rhel":
		return run(&rhel.Coalescer{})
	case "gobin":
		return run(ecoCoalescer(gobin.NewEcosystem(bg)))
	case "wh":
		return run(ecoCoalescer(whiteout.NewEcosystem(bg)))
	case "lang":
		pc, _ := python.NewCoalescer(bg)
		ir, out = run(pc)
		want := out
		if ir != nil {
			want = renderReport(ir, true, false)
		}
		for name, e := range map[string]*indexer.Ecosystem{"java": java.NewEcosystem(bg), "ruby": ruby.NewEcosystem(bg), "nodejs": nodejs.NewEcosystem(bg)} {
			ir2, o2 := run(ecoCoalescer(e))
			got := o2
			if ir2 != nil {
				got = renderReport(ir2, true, false)
			}
			if got != want {
				r.Fail("", fmt.Sprintf("%s coalescer disagrees with python coalescer on arts=%s: %s vs %s", name, encArts(arts), got, want))
			}
		}
		return ir, out
	}
	panic("unknown kind " + kind)
}

func opCoalesce(r *hx.Run, kind string, arts []mLayer) *claircore.IndexReport {
	ir, out := realCoalesce(r, kind, arts)
	if ir != nil {
		out = renderReport(ir, kind != "linux", kind == "linux")
	}
	if out == "panic" {
		r.Fail("", "coalescer "+kind+" panics on arts="+encArts(arts))
	}
	r.Op("co "+kind+" "+encArts(arts), out, len(arts) > 1)
	r.Count("co:" + kind)
	if ir != nil {
		checkWellformed(r, kind, arts, ir)
		switch kind {
		case "linux":
			checkNewestDB(r, arts, ir)
			checkLinuxExact(r, arts, ir)
		case "rhel":
			checkRhelLast(r, arts, ir)
			checkRhelExact(r, arts, ir)
		case "lang", "gobin":
			checkFileExact(r, kind, arts, ir)
		case "wh":
			checkWhExact(r, arts, ir)
		}
		countBranches(r, kind, arts, ir)
	}
	return ir
}

// countBranches records which branches of the coalescers a generated case reached.
func countBranches(r *hx.Run, kind string, arts []mLayer, ir *claircore.IndexReport) {
	switch kind {
	case "linux":
		dbLayers := map[string]map[int]bool{}
		for i, l := range arts {
			for _, p := range l.Pkgs {
				if dbLayers[p.DB] == nil {
					dbLayers[p.DB] = map[int]bool{}
				}
				dbLayers[p.DB][i] = true
			}
		}
		multi := false
		for _, ls := range dbLayers {
			if len(ls) > 1 {
				multi = true
			}
		}
		if multi {
			r.Count("branch:linux:database-in-several-layers")
		}
		if len(dbLayers) > 1 {
			r.Count("branch:linux:several-databases")
		}
		// how the distribution of an environment was found
		idx := map[string]int{}
		for i, l := range arts {
			if _, ok := idx[l.Hash]; !ok {
				idx[l.Hash] = i
			}
		}
		for _, es := range ir.Environments {
			if len(es) > 1 {
				r.Count("branch:linux:package-in-two-databases")
			}
			for _, e := range es {
				i, ok := idx[nameOf(e.IntroducedIn.String())]
				if !ok {
					continue
				}
				switch {
				case e.DistributionID == "":
					r.Count("branch:linux:dist:none")
				case len(arts[i].Dists) > 0 && arts[i].Dists[0] == e.DistributionID:
					r.Count("branch:linux:dist:own-layer")
				default:
					back := false
					for j := i - 1; j >= 0; j-- {
						if len(arts[j].Dists) > 0 {
							back = arts[j].Dists[0] == e.DistributionID
							break
						}
					}
					if back {
						r.Count("branch:linux:dist:earlier-layer")
					} else {
						r.Count("branch:linux:dist:later-layer")
					}
				}
			}
		}
	case "rhel":
		all := map[string]bool{}
		for _, l := range arts {
			for _, p := range l.Pkgs {
				all[p.ID] = true
			}
		}
		if len(all) > len(ir.Packages) {
			r.Count("branch:rhel:package-dropped")
		}
		first, last := -1, -1
		for i, l := range arts {
			for _, rp := range l.Repos {
				if rp.Key == "rhel-cpe-repository" {
					if first < 0 {
						first = i
					}
					last = i
				}
			}
		}
		switch {
		case first < 0:
			r.Count("branch:rhel:no-redhat-repos")
		default:
			if first > 0 {
				r.Count("branch:rhel:repos-shared-backward")
			}
			if last < len(arts)-1 {
				r.Count("branch:rhel:repos-shared-forward")
			}
		}
		for _, es := range ir.Environments {
			for _, e := range es {
				if len(e.RepositoryIDs) > 0 {
					r.Count("branch:rhel:env-with-repos")
				}
				if e.DistributionID != "" {
					r.Count("branch:rhel:env-with-dist")
				}
			}
		}
	case "lang", "gobin":
		seen := map[string]int{}
		for _, l := range arts {
			for _, p := range l.Pkgs {
				seen[p.ID]++
			}
		}
		for id, n := range seen {
			if _, ok := ir.Packages[id]; ok && n > 1 {
				r.Count("branch:" + kind + ":package-in-several-layers")
			} else if !ok {
				r.Count("branch:" + kind + ":package-skipped(no repository / not go:)")
			}
		}
	case "wh":
		for _, l := range arts {
			if len(l.Files) > 1 {
				r.Count("branch:wh:several-files-in-a-layer")
			}
		}
	}
}

type eco struct {
	Kind string
	Arts []mLayer
}

// opIndex is the controller's coalesce step on given per-ecosystem artifacts:
// every coalescer, MergeSR into a report initialised as controller.New does,
// the whiteout resolver, IndexRecords.
func opIndex(r *hx.Run, layers []string, ecos []eco) (string, []*claircore.IndexReport) {
	parts := make([]string, 0, len(ecos))
	for _, e := range ecos {
		parts = append(parts, e.Kind+"="+encArts(e.Arts))
	}
	ls := "-"
	if len(layers) > 0 {
		ls = strings.Join(layers, ",")
	}
	op := strings.TrimSpace("idx " + ls + " " + strings.Join(parts, " "))
	var final *claircore.IndexReport
	var reports []*claircore.IndexReport
	out := hx.Guard(func() string {
		for _, e := range ecos {
			ir, o := realCoalesce(r, e.Kind, e.Arts)
			if ir == nil {
				_ = o
				return "fail"
			}
			reports = append(reports, ir)
		}
		src := &claircore.IndexReport{
			Packages:      map[string]*claircore.Package{},
			Environments:  map[string][]*claircore.Environment{},
			Distributions: map[string]*claircore.Distribution{},
			Repositories:  map[string]*claircore.Repository{},
			Files:         map[string]claircore.File{},
		}
		merged := controller.MergeSR(src, reports)
		var cl []*claircore.Layer
		for _, l := range layers {
			cl = append(cl, &claircore.Layer{Hash: digestOf(l)})
		}
		final = (&whiteout.Resolver{}).Resolve(bg, merged, cl)
		return renderReport(final, false, true) + " " + renderRecords(final)
	})
	if out == "panic" {
		out = "fail"
		r.Count("idx:resolver-or-coalescer-panic")
	}
	r.Op(op, out, len(ecos) > 1)
	r.Count("idx")
	if final != nil {
		checkMerged(r, layers, ecos, final, op)
		total := map[string]bool{}
		for _, e := range ecos {
			for _, l := range e.Arts {
				if e.Kind == "wh" {
					continue
				}
				for _, p := range l.Pkgs {
					total[p.ID] = true
				}
			}
		}
		for _, es := range final.Environments {
			if len(es) > 1 {
				r.Count("branch:idx:package-with-several-environments")
				break
			}
		}
		if len(final.Files) > 0 {
			r.Count("branch:idx:whiteouts-present")
		}
		if len(layers) != 0 {
			seen := map[string]bool{}
			for _, l := range layers {
				if seen[l] {
					r.Count("branch:idx:duplicate-digest")
					break
				}
				seen[l] = true
			}
		}
		countResolver(r, layers, final, reports)
		checkRecords(r, final, op)
	}
	return out, reports
}

// countResolver: which branches of Resolve / layerSorter.isChildOf a case reached.
func countResolver(r *hx.Run, layers []string, final *claircore.IndexReport, reports []*claircore.IndexReport) {
	idx := map[string]int{}
	for i, l := range layers {
		idx[l] = i
	}
	merged := map[string][]*claircore.Environment{}
	pk := map[string]*claircore.Package{}
	files := map[string]claircore.File{}
	for _, rep := range reports {
		for id, es := range rep.Environments {
			merged[id] = append(merged[id], es...)
		}
		for id, p := range rep.Packages {
			pk[id] = p
		}
		for h, f := range rep.Files {
			files[nameOf(h)] = f
		}
	}
	// the statement of the resolver on this input: a package goes exactly when a file of kind whiteout, stored
	// under a layer after the newest layer of its environments, covers its Filepath
	for id, es := range merged {
		p := pk[id]
		if p == nil || len(es) == 0 {
			continue
		}
		newest := 0
		for _, e := range es {
			if i := idx[nameOf(e.IntroducedIn.String())]; i > newest {
				newest = i
			}
		}
		gone := false
		for h, f := range files {
			if f.Kind == claircore.FileKindWhiteout && idx[h] > newest && whiteout.FileIsDeletedForVerif(p.Filepath, f.Path) {
				gone = true
			}
		}
		if _, kept := final.Packages[id]; kept == gone {
			r.Fail("", fmt.Sprintf("resolver: package %s (file %q, newest environment layer %d) kept=%v, but a later whiteout covering it exists=%v; layers=%v files=%v", id, p.Filepath, newest, kept, gone, layers, files))
		}
	}
	for id, es := range merged {
		if len(es) > 1 {
			same := true
			for _, e := range es {
				if e.IntroducedIn.String() != es[0].IntroducedIn.String() {
					same = false
				}
			}
			if !same {
				r.Count("branch:resolver:package-layer-chosen-among-several")
			}
		}
		for _, e := range es {
			if _, ok := idx[nameOf(e.IntroducedIn.String())]; !ok {
				r.Count("branch:resolver:package-layer-not-in-manifest(index 0)")
			}
		}
		if _, kept := final.Packages[id]; !kept {
			r.Count("branch:resolver:package-deleted")
		}
	}
	for h, f := range files {
		if _, ok := idx[h]; !ok {
			r.Count("branch:resolver:whiteout-layer-not-in-manifest(index 0)")
		}
		if f.Kind != claircore.FileKindWhiteout {
			r.Count("branch:resolver:file-of-another-kind")
		}
		for id, es := range merged {
			if len(es) == 0 || pk[id] == nil {
				continue
			}
			hit := whiteout.FileIsDeletedForVerif(pk[id].Filepath, f.Path)
			after := false
			for _, e := range es {
				if idx[h] > idx[nameOf(e.IntroducedIn.String())] {
					after = true
				}
			}
			switch {
			case hit && !after:
				r.Count("branch:resolver:covering-whiteout-not-after-the-package")
			case hit && after:
				r.Count("branch:resolver:covering-whiteout-after-some-environment")
			}
		}
	}
}

// checkRecords: theorems index_records_resolve / index_records_complete on the real IndexRecords — exactly
// one record per (package, environment, repository id), one without repository for an environment that names
// none, each with the report's own Distribution / Repository objects.
func checkRecords(r *hx.Run, ir *claircore.IndexReport, op string) {
	want := map[string]int{}
	for id, p := range ir.Packages {
		for _, e := range ir.Environments[p.ID] {
			d := "nil"
			if x, ok := ir.Distributions[e.DistributionID]; ok {
				d = x.ID
			}
			if len(e.RepositoryIDs) == 0 {
				want[id+"/"+d+"/nil"]++
			}
			for _, rid := range e.RepositoryIDs {
				rp := "nil"
				if x, ok := ir.Repositories[rid]; ok {
					rp = x.ID
				}
				want[id+"/"+d+"/"+rp]++
			}
		}
	}
	got := map[string]int{}
	for _, rec := range ir.IndexRecords() {
		d, rp := "nil", "nil"
		if rec.Distribution != nil {
			d = rec.Distribution.ID
			if ir.Distributions[d] != rec.Distribution {
				r.Fail("", "IndexRecords: a record's distribution is not the report's object; op="+op)
			}
		}
		if rec.Repository != nil {
			rp = rec.Repository.ID
		}
		if rec.Package == nil || ir.Packages[rec.Package.ID] != rec.Package {
			r.Fail("", "IndexRecords: a record's package is not a package of the report; op="+op)
			continue
		}
		got[rec.Package.ID+"/"+d+"/"+rp]++
	}
	if fmt.Sprint(want) != fmt.Sprint(got) {
		r.Fail("", fmt.Sprintf("IndexRecords: records (package/distribution/repository) %v, the environments of the report call for %v; op=%s", got, want, op))
	}
}

// compatibleReports: no two reports store different values under one key (hypothesis `Compatible` of
// mergesr_order_independent_partial; PackageDB of the Package object aside, which the linux coalescer
// itself picks in map order).
func compatibleReports(reps []*claircore.IndexReport) bool {
	pk, ds, rs, fs := map[string]string{}, map[string]string{}, map[string]string{}, map[string]string{}
	ok := true
	put := func(m map[string]string, k, v string) {
		if old, seen := m[k]; seen && old != v {
			ok = false
		}
		m[k] = v
	}
	for _, rep := range reps {
		for id, p := range rep.Packages {
			put(pk, id, strings.Join([]string{p.ID, p.Name, p.Version, p.Kind, p.Arch, srcName(p), p.Filepath}, "~"))
		}
		for id, d := range rep.Distributions {
			put(ds, id, d.ID+"~"+d.DID)
		}
		for id, x := range rep.Repositories {
			put(rs, id, strings.Join([]string{x.ID, x.Name, x.Key, x.URI}, "~"))
		}
		for h, f := range rep.Files {
			put(fs, h, f.Path+"~"+string(f.Kind))
		}
	}
	return ok
}

// ---- direct checks of the theorem statements on the real outputs ----

func hasLayer(arts []mLayer, hash string, pred func(mPkg) bool) bool {
	for _, l := range arts {
		if l.Hash != hash {
			continue
		}
		for _, p := range l.Pkgs {
			if pred(p) {
				return true
			}
		}
	}
	return false
}

// checkWellformed: statement of theorem report_wellformed for one coalescer.
func checkWellformed(r *hx.Run, kind string, arts []mLayer, ir *claircore.IndexReport) {
	w := func(msg string) { r.Fail("", fmt.Sprintf("wellformed(%s): %s; arts=%s", kind, msg, encArts(arts))) }
	if len(ir.Environments) != len(ir.Packages) {
		w(fmt.Sprintf("%d environment keys for %d packages", len(ir.Environments), len(ir.Packages)))
	}
	for id, p := range ir.Packages {
		if p.ID != id {
			w("package stored under key " + id + " has ID " + p.ID)
		}
		es := ir.Environments[id]
		if len(es) == 0 {
			w("package " + id + " has no environment")
		}
		for _, e := range es {
			intro := nameOf(e.IntroducedIn.String())
			ok := hasLayer(arts, intro, func(q mPkg) bool {
				if q.DB != e.PackageDB {
					return false
				}
				if kind == "linux" {
					// the searcher identifies packages by (name, database, version)
					return q.Name == p.Name && q.Version == p.Version
				}
				return q.ID == id
			})
			if !ok {
				w(fmt.Sprintf("package %s: environment db=%s says introduced in %s, which does not hold it", id, e.PackageDB, intro))
			}
			if e.DistributionID != "" {
				if _, ok := ir.Distributions[e.DistributionID]; !ok {
					w("distribution id " + e.DistributionID + " does not resolve")
				}
			}
			for _, rid := range e.RepositoryIDs {
				if rid == "" && kind == "gobin" {
					// gobin writes []string{""} when the layer has no go repository; see design/C01.md
					// fine when some layer with that digest holds the package and has no go repository
					goRepo := true
					for _, l := range arts {
						if l.Hash != intro {
							continue
						}
						has, holds := false, false
						for _, rp := range l.Repos {
							if rp.Name == "go" && rp.URI == "https://pkg.go.dev/" {
								has = true
							}
						}
						for _, q := range l.Pkgs {
							if q.ID == id && q.DB == e.PackageDB {
								holds = true
							}
						}
						if holds && !has {
							goRepo = false
						}
					}
					if !goRepo {
						r.Count("wellformed:gobin-empty-repo-id")
						continue
					}
				}
				if _, ok := ir.Repositories[rid]; !ok {
					w("repository id " + rid + " does not resolve")
				}
			}
		}
	}
}

// checkNewestDB: statement of theorem linux_newest_db_wins.
func checkNewestDB(r *hx.Run, arts []mLayer, ir *claircore.IndexReport) {
	last := map[string]int{}
	for i, l := range arts {
		for _, p := range l.Pkgs {
			last[p.DB] = i
		}
	}
	want := map[string]int{} // "db\x00id" -> count
	for db, i := range last {
		for _, p := range arts[i].Pkgs {
			if p.DB == db {
				want[db+"\x00"+p.ID]++
			}
		}
	}
	got := map[string]int{}
	for id, es := range ir.Environments {
		for _, e := range es {
			got[e.PackageDB+"\x00"+id]++
		}
	}
	if fmt.Sprint(want) != fmt.Sprint(got) {
		r.Fail("", fmt.Sprintf("newest-db-wins: linux coalescer reports (db,id) %q, the newest database layers hold %q; arts=%s", fmt.Sprint(got), fmt.Sprint(want), encArts(arts)))
	}
}

// checkRhelLast: statement of theorem rhel_last_layer_wins.
func checkRhelLast(r *hx.Run, arts []mLayer, ir *claircore.IndexReport) {
	want := map[string]bool{}
	wantDB := map[string]bool{}
	for i := len(arts) - 1; i >= 0; i-- {
		if len(arts[i].Pkgs) > 0 {
			for _, p := range arts[i].Pkgs {
				want[p.ID] = true
				wantDB[p.ID+"\x00"+p.DB] = true
			}
			break
		}
	}
	for id, es := range ir.Environments {
		for _, e := range es {
			if want[id] && !wantDB[id+"\x00"+e.PackageDB] {
				r.Fail("", fmt.Sprintf("rhel-last-layer: package %s reported in database %s, where the last package-bearing layer does not hold it; arts=%s", id, e.PackageDB, encArts(arts)))
			}
		}
	}
	for id := range want {
		if _, ok := ir.Packages[id]; !ok {
			r.Fail("", "rhel-last-layer: package "+id+" of the last package-bearing layer is not reported; arts="+encArts(arts))
		}
	}
	for id, es := range ir.Environments {
		if !want[id] {
			r.Fail("", "rhel-last-layer: package "+id+" reported but absent from the last package-bearing layer; arts="+encArts(arts))
		}
		if len(es) != 1 {
			r.Fail("", fmt.Sprintf("rhel-last-layer: package %s has %d environments; arts=%s", id, len(es), encArts(arts)))
		}
	}
}

// checkLinuxExact: statement of theorem linux_dist_choice on the real linux coalescer — an environment names
// the first layer holding the package's (name, database, version) and the distribution of that layer, else of
// the nearest earlier layer with one, else of the nearest later one.
func checkLinuxExact(r *hx.Run, arts []mLayer, ir *claircore.IndexReport) {
	for id, es := range ir.Environments {
		p := ir.Packages[id]
		if p == nil {
			continue
		}
		for _, e := range es {
			first := -1
			for i, l := range arts {
				for _, q := range l.Pkgs {
					if q.Name == p.Name && q.Version == p.Version && q.DB == e.PackageDB {
						first = i
					}
				}
				if first >= 0 {
					break
				}
			}
			if first < 0 {
				continue // reported by checkWellformed
			}
			if arts[first].Hash != nameOf(e.IntroducedIn.String()) {
				r.Fail("", fmt.Sprintf("linux: package %s (db %s) introduced in %s, but the first layer holding its (name, database, version) is %s; arts=%s", id, e.PackageDB, nameOf(e.IntroducedIn.String()), arts[first].Hash, encArts(arts)))
			}
			want := ""
			switch {
			case len(arts[first].Dists) > 0:
				want = arts[first].Dists[0]
			default:
				for j := first - 1; j >= 0 && want == ""; j-- {
					if len(arts[j].Dists) > 0 {
						want = arts[j].Dists[0]
					}
				}
				for j := first + 1; j < len(arts) && want == ""; j++ {
					if len(arts[j].Dists) > 0 {
						want = arts[j].Dists[0]
					}
				}
			}
			if e.DistributionID != want {
				r.Fail("", fmt.Sprintf("linux: package %s (db %s, introduced in layer %d) tagged with distribution %q; its layer's, else the nearest earlier, else the nearest later distribution is %q; arts=%s", id, e.PackageDB, first, e.DistributionID, want, encArts(arts)))
			}
		}
	}
}

// checkRhelExact: theorems rhel_one_environment_per_id, rhel_env_exact, rhel_env_has_redhat_repository on the
// real rhel coalescer.
func checkRhelExact(r *hx.Run, arts []mLayer, ir *claircore.IndexReport) {
	isRH := func(x mRepo) bool { return x.Key == "rhel-cpe-repository" }
	anyRH := false
	own := map[string]bool{}
	rhIDs := map[string]bool{}
	for _, l := range arts {
		for _, x := range l.Repos {
			own[x.ID] = true
			if isRH(x) {
				anyRH = true
				rhIDs[x.ID] = true
			}
		}
	}
	var first string // the first distribution of any layer
	for _, l := range arts {
		if len(l.Dists) > 0 {
			first = l.Dists[0]
			break
		}
	}
	for id, es := range ir.Environments {
		if len(es) != 1 {
			continue // reported by checkRhelLast
		}
		e := es[0]
		li, cur := -1, first
		for i, l := range arts {
			if len(l.Dists) > 0 {
				cur = l.Dists[0]
			}
			for _, q := range l.Pkgs {
				if q.ID == id && q.DB == e.PackageDB {
					li = i
				}
			}
			if li >= 0 {
				break
			}
		}
		if li < 0 {
			continue // checkWellformed
		}
		if arts[li].Hash != nameOf(e.IntroducedIn.String()) {
			r.Fail("", fmt.Sprintf("rhel: package %s (db %s) introduced in %s, the first layer holding it there is %s; arts=%s", id, e.PackageDB, nameOf(e.IntroducedIn.String()), arts[li].Hash, encArts(arts)))
		}
		if e.DistributionID != cur {
			r.Fail("", fmt.Sprintf("rhel: package %s tagged with distribution %q, the distribution current at its layer %d is %q; arts=%s", id, e.DistributionID, li, cur, encArts(arts)))
		}
		// repositories: the layer's own, then (if it has no Red Hat repository of its own) shared Red Hat ones
		n := len(arts[li].Repos)
		if len(e.RepositoryIDs) < n {
			r.Fail("", fmt.Sprintf("rhel: package %s lost repositories of its layer: %v; arts=%s", id, e.RepositoryIDs, encArts(arts)))
			continue
		}
		for k, x := range arts[li].Repos {
			if e.RepositoryIDs[k] != x.ID {
				r.Fail("", fmt.Sprintf("rhel: package %s: repository ids %v do not start with its layer's; arts=%s", id, e.RepositoryIDs, encArts(arts)))
				break
			}
		}
		hasRH := false
		for k, rid := range e.RepositoryIDs {
			if rhIDs[rid] {
				hasRH = true
			}
			if k >= n && !rhIDs[rid] {
				r.Fail("", fmt.Sprintf("rhel: package %s: shared repository %s is not a Red Hat repository of any layer; arts=%s", id, rid, encArts(arts)))
			}
		}
		if anyRH && !hasRH {
			r.Fail("", fmt.Sprintf("rhel: some layer carries a Red Hat repository, but package %s has none: %v; arts=%s", id, e.RepositoryIDs, encArts(arts)))
		}
		if !anyRH && len(e.RepositoryIDs) != n {
			r.Fail("", fmt.Sprintf("rhel: no Red Hat repository anywhere, but package %s got repositories added: %v; arts=%s", id, e.RepositoryIDs, encArts(arts)))
		}
	}
}

// checkFileExact: the language / gobin coalescers report an id with the package and environment of the LAST
// layer (with a repository / with a go: database) holding it.
func checkFileExact(r *hx.Run, kind string, arts []mLayer, ir *claircore.IndexReport) {
	want := map[string][3]string{} // id -> layer hash, db, repo ids
	for _, l := range arts {
		rs := ""
		ok := true
		if kind == "lang" {
			if len(l.Repos) == 0 {
				ok = false
			}
			var ids []string
			for _, x := range l.Repos {
				ids = append(ids, x.ID)
			}
			rs = strings.Join(ids, "+")
		} else {
			for _, x := range l.Repos {
				if x.Name == "go" && x.URI == "https://pkg.go.dev/" {
					rs = x.ID
					break
				}
			}
		}
		if !ok {
			continue
		}
		for _, p := range l.Pkgs {
			if kind == "gobin" && !strings.HasPrefix(p.DB, "go:") {
				continue
			}
			want[p.ID] = [3]string{l.Hash, p.DB, rs}
		}
	}
	if len(want) != len(ir.Packages) {
		r.Fail("", fmt.Sprintf("%s coalescer: reports %d ids, the layers hold %d; arts=%s", kind, len(ir.Packages), len(want), encArts(arts)))
	}
	for id, w := range want {
		es := ir.Environments[id]
		if len(es) != 1 {
			r.Fail("", fmt.Sprintf("%s coalescer: id %s has %d environments; arts=%s", kind, id, len(es), encArts(arts)))
			continue
		}
		got := [3]string{nameOf(es[0].IntroducedIn.String()), es[0].PackageDB, strings.Join(es[0].RepositoryIDs, "+")}
		if got != w {
			r.Fail("", fmt.Sprintf("%s coalescer: id %s reported as (layer, db, repositories) %v, the last layer holding it says %v; arts=%s", kind, id, got, w, encArts(arts)))
		}
	}
}

// checkWhExact: theorem whiteout_coalescer_keeps_last_file_per_digest.
func checkWhExact(r *hx.Run, arts []mLayer, ir *claircore.IndexReport) {
	want := map[string]mFile{}
	for _, l := range arts {
		for _, f := range l.Files {
			want[l.Hash] = f
		}
	}
	if len(want) != len(ir.Files) {
		r.Fail("", fmt.Sprintf("whiteout coalescer: %d digests with files, %d reported; arts=%s", len(want), len(ir.Files), encArts(arts)))
	}
	for h, f := range ir.Files {
		w, ok := want[nameOf(h)]
		if !ok || w.Path != f.Path || w.Kind != string(f.Kind) {
			r.Fail("", fmt.Sprintf("whiteout coalescer: under digest %s the report holds %v, the last file of the layers with that digest is %v; arts=%s", nameOf(h), f, w, encArts(arts)))
		}
	}
	if len(ir.Packages)+len(ir.Environments) != 0 {
		r.Fail("", "whiteout coalescer: reports packages; arts="+encArts(arts))
	}
}

// checkMerged: report_wellformed for MergeSR + Resolve.
func checkMerged(r *hx.Run, layers []string, ecos []eco, ir *claircore.IndexReport, op string) {
	w := func(msg string) { r.Fail("", "wellformed(merged): "+msg+"; op="+op) }
	if len(ir.Environments) != len(ir.Packages) {
		w(fmt.Sprintf("%d environment keys for %d packages", len(ir.Environments), len(ir.Packages)))
	}
	for id, p := range ir.Packages {
		es := ir.Environments[id]
		if len(es) == 0 {
			w("package " + id + " has no environment")
		}
		for _, e := range es {
			intro := nameOf(e.IntroducedIn.String())
			ok := false
			for _, ec := range ecos {
				if hasLayer(ec.Arts, intro, func(q mPkg) bool {
					return q.DB == e.PackageDB && (q.ID == id || (ec.Kind == "linux" && q.Name == p.Name && q.Version == p.Version))
				}) {
					ok = true
				}
			}
			if !ok {
				w(fmt.Sprintf("package %s: environment db=%s introduced in %s: no ecosystem's artifacts of that layer hold it", id, e.PackageDB, intro))
			}
			if e.DistributionID != "" {
				if _, ok := ir.Distributions[e.DistributionID]; !ok {
					w("distribution id " + e.DistributionID + " does not resolve")
				}
			}
			for _, rid := range e.RepositoryIDs {
				if _, ok := ir.Repositories[rid]; !ok && rid != "" {
					w("repository id " + rid + " does not resolve")
				}
			}
		}
	}
}

// ---- fileIsDeleted and the path functions ----

func opDel(r *hx.Run, fp, wh string) {
	out := hx.Guard(func() string { return fmt.Sprint(whiteout.FileIsDeletedForVerif(fp, wh)) })
	if out == "panic" {
		r.Fail("", fmt.Sprintf("fileIsDeleted panics on fp=%q whiteout=%q", fp, wh))
	}
	r.Op("del "+hx.Hex([]byte(fp))+" "+hx.Hex([]byte(wh)), out, out == "true")
	r.Count("del:" + out)
	// the statement itself: on clean relative paths fileIsDeleted is the OCI cover relation
	// (`.wh.x` hides x and everything below it, `.wh..wh..opq` hides everything below its
	// directory); a marker at the root of the layer is the one documented exception
	cleanRel := func(p string) bool {
		return p != "" && p != "." && path.Clean(p) == p && !strings.HasPrefix(p, "/") && !strings.HasPrefix(p, "..")
	}
	if cleanRel(fp) && cleanRel(wh) && isWhiteoutPath(wh) && wh != opqName && path.Base(wh) != whPrefix {
		want := fmt.Sprint(covers(wh, fp))
		r.Count("del:oci-spec-checked")
		if out != want {
			r.Fail("", fmt.Sprintf("fileIsDeleted(%q, %q) = %s, but by the OCI whiteout rules the answer is %s", fp, wh, out, want))
		}
	}
}

// ---- generators ----

type pureGen struct {
	rnd *hx.Rand
}

var (
	dbPool   = []string{"var/lib/dpkg/status", "lib/apk/db/installed", "bc", "c", "go:usr/bin/app", "python:usr/lib/python3/site-packages", "go:opt/tool"}
	namePool = []string{"a", "ab", "bash", "libc6", "musl", "zlib", "requests", "left-pad", "rails", "guava"}
	verPool  = []string{"d", "1.0", "1.1", "2.0-1", "0.9"}
	fpPool   = []string{"", "usr/lib/python3/site-packages/requests-1.0.dist-info/METADATA", "usr/lib/node_modules/left-pad/package.json", "opt/app/lib/guava.jar", "a/b/c", "a/b", "a", "usr/bin/app"}
	whPool   = []string{"a/.wh.b", "a/b/.wh..wh..opq", ".wh.a", "usr/lib/.wh.python3", "usr/lib/python3/site-packages/.wh.requests-1.0.dist-info", "opt/.wh..wh..opq", "usr/lib/node_modules/left-pad/.wh.package.json", "a/b/.wh.c", ".wh..wh..opq", "opt/app/lib/.wh.guava.jar", "usr/bin/.wh.app", "x/.wh.y"}
	repoPool = []mRepo{
		{"r1", "cpe:/o:redhat:enterprise_linux:8::baseos", "rhel-cpe-repository", ""},
		{"r2", "cpe:/a:redhat:enterprise_linux:8::appstream", "rhel-cpe-repository", ""},
		{"r3", "go", "", "https://pkg.go.dev/"},
		{"r4", "go", "", "https://example.com/"},
		{"r5", "pypi", "", "https://pypi.org/simple"},
		{"r6", "go", "", "https://pkg.go.dev/"},
	}
)

// identity i <-> (id, name, version, kind, arch, src): what the store's unique key guarantees.
func (g *pureGen) pkg(kind string) mPkg {
	i := g.rnd.Intn(14)
	p := mPkg{ID: fmt.Sprint(i + 1), Name: namePool[i%len(namePool)], Version: verPool[(i/2)%len(verPool)], Kind: "binary", Arch: []string{"", "amd64", "noarch"}[i%3], Src: []string{"", "srcpkg"}[i%2]}
	p.DB = dbPool[g.rnd.Intn(len(dbPool))]
	switch kind {
	case "linux":
		// which *Package object ends up under an id depends on Go's map order in the
		// linux coalescer when the id occurs in two databases: keep Filepath a function of the id
		p.FP = fpPool[i%len(fpPool)]
		if g.rnd.Chance(1, 2) {
			p.DB = dbPool[g.rnd.Intn(4)]
		}
	default:
		p.FP = fpPool[g.rnd.Intn(len(fpPool))]
	}
	return p
}

func (g *pureGen) arts(kind string, hashes []string) []mLayer {
	var out []mLayer
	var prevPkgs []mPkg
	for _, h := range hashes {
		l := mLayer{Hash: h}
		// packages: mostly an evolution of the previous package-bearing layer (install / upgrade / remove),
		// sometimes nothing, sometimes unrelated
		switch c := g.rnd.Intn(10); {
		case c < 3:
			// no packages in this layer
		case c < 8 && len(prevPkgs) > 0:
			for _, p := range prevPkgs {
				switch g.rnd.Intn(6) {
				case 0: // removed
				case 1: // upgraded: another identity in the same database
					q := g.pkg(kind)
					q.DB = p.DB
					l.Pkgs = append(l.Pkgs, q)
				default:
					l.Pkgs = append(l.Pkgs, p)
				}
			}
			for k := g.rnd.Intn(3); k > 0; k-- {
				l.Pkgs = append(l.Pkgs, g.pkg(kind))
			}
		default:
			for k := 1 + g.rnd.Intn(4); k > 0; k-- {
				l.Pkgs = append(l.Pkgs, g.pkg(kind))
			}
		}
		if len(l.Pkgs) > 0 {
			prevPkgs = l.Pkgs
		}
		if g.rnd.Chance(1, 3) {
			for k := 1 + g.rnd.Intn(2); k > 0; k-- {
				l.Dists = append(l.Dists, fmt.Sprintf("d%d", 1+g.rnd.Intn(3)))
			}
		}
		switch kind {
		case "rhel":
			if g.rnd.Chance(2, 5) {
				for k := 1 + g.rnd.Intn(3); k > 0; k-- {
					l.Repos = append(l.Repos, repoPool[g.rnd.Intn(len(repoPool))])
				}
			}
		case "gobin":
			if g.rnd.Chance(3, 4) {
				for k := 1 + g.rnd.Intn(3); k > 0; k-- {
					l.Repos = append(l.Repos, repoPool[g.rnd.Intn(len(repoPool))])
				}
			}
		default:
			if g.rnd.Chance(3, 5) {
				for k := 1 + g.rnd.Intn(2); k > 0; k-- {
					l.Repos = append(l.Repos, repoPool[g.rnd.Intn(len(repoPool))])
				}
			}
		}
		if kind == "wh" || g.rnd.Chance(1, 8) {
			for k := g.rnd.Intn(3); k > 0; k-- {
				f := mFile{Path: whPool[g.rnd.Intn(len(whPool))], Kind: "whiteout"}
				if g.rnd.Chance(1, 10) {
					f.Kind = "other"
				}
				l.Files = append(l.Files, f)
			}
		}
		out = append(out, l)
	}
	return out
}

func (g *pureGen) hashes() []string {
	n := g.rnd.Intn(9)
	if g.rnd.Chance(1, 10) {
		n = 9 + g.rnd.Intn(4)
	}
	hs := make([]string, n)
	for i := range hs {
		hs[i] = fmt.Sprintf("L%d", i)
		// duplicate layers: the same digest twice in one manifest
		if i > 0 && g.rnd.Chance(1, 12) {
			hs[i] = hs[g.rnd.Intn(i)]
		}
	}
	return hs
}

var kinds = []string{"linux", "rhel", "lang", "gobin", "wh"}

func runPure(r *hx.Run, cfg hx.Config, rnd *hx.Rand) {
	g := &pureGen{rnd: rnd}

	// fixed scenarios first
	collide := []mLayer{
		{Hash: "L0", Pkgs: []mPkg{{ID: "1", Name: "a", Version: "d", DB: "bc"}}},
		{Hash: "L1", Pkgs: []mPkg{{ID: "2", Name: "ab", Version: "d", DB: "c"}}},
	}
	opCoalesce(r, "linux", collide) // the key collision repaired by the fix in linux/packagesearcher.go
	for _, k := range kinds {
		opCoalesce(r, k, nil)
	}

	// single coalescers
	for i := 0; i < cfg.N(2500, 150000) && !r.Stop(); i++ {
		k := kinds[i%len(kinds)]
		hs := g.hashes()
		a := g.arts(k, hs)
		// duplicate digests carry the same artifacts in the controller; keep both shapes
		if rnd.Chance(1, 2) {
			seen := map[string]mLayer{}
			for j := range a {
				if l, ok := seen[a[j].Hash]; ok {
					a[j] = l
				} else {
					seen[a[j].Hash] = a[j]
				}
			}
		}
		opCoalesce(r, k, a)
		r.Count(fmt.Sprintf("layers:%d", len(hs)))
	}

	// the whole coalesce step
	for i := 0; i < cfg.N(1200, 60000) && !r.Stop(); i++ {
		hs := g.hashes()
		var ecos []eco
		for _, k := range kinds {
			if rnd.Chance(1, 4) {
				continue
			}
			ecos = append(ecos, eco{k, g.arts(k, hs)})
			if k == "lang" && rnd.Chance(1, 3) {
				ecos = append(ecos, eco{k, g.arts(k, hs)})
			}
		}
		// usually a whiteout ecosystem is present (libindex always appends it)
		layers := hs
		if rnd.Chance(1, 15) && len(hs) > 0 {
			// the resolver given a different layer list than the artifacts (missing hash -> index 0)
			layers = hs[:rnd.Intn(len(hs))]
		}
		out, reps := opIndex(r, layers, ecos)
		// MergeSR receives the reports in goroutine completion order: any other order of the ecosystems
		if len(ecos) > 1 && rnd.Chance(1, 2) {
			perm := append([]eco(nil), ecos...)
			for k := len(perm) - 1; k > 0; k-- {
				j := rnd.Intn(k + 1)
				perm[k], perm[j] = perm[j], perm[k]
			}
			out2, _ := opIndex(r, layers, perm)
			r.Count("idx:permuted")
			switch {
			case out == out2:
			case compatibleReports(reps):
				r.Fail("", fmt.Sprintf("MergeSR order: compatible coalescer reports, but the finished report depends on their order: %s vs %s; layers=%v ecosystems=%v", out, out2, layers, func() []string {
					var xs []string
					for _, e := range ecos {
						xs = append(xs, e.Kind+"="+encArts(e.Arts))
					}
					return xs
				}()))
			default:
				r.Count("idx:permuted:report-differs(reports not Compatible)")
			}
		}
	}

	// fileIsDeleted and the path functions
	paths := []string{"", ".", "/", "a", "a/", "a/b", "a/b/c", "a//b", "/a/b", "./a", "a/./b", "a/../b", "../a", "a/..", "..", "a/b/../../..", "/..", "//", "a/b/", "usr/lib/python3", "usr/lib/python3/site-packages/x.dist-info/METADATA"}
	whs := []string{"", ".wh.", ".wh.a", "a/.wh.b", "a/b/.wh..wh..opq", ".wh..wh..opq", "/.wh..wh..opq", "a/.wh..wh..opq", "a/.wh.b/", "a/.wh./", ".wh..wh..opqx", "a/b", "a/.wh.b/c", "./.wh.a", "a/../.wh.b", "usr/lib/.wh.python3", "usr/.wh.lib", "a/.wh...", "a/.wh..", "a//.wh.b", "/.wh.a", ".wh.a/b"}
	for _, p := range paths {
		for _, w := range whs {
			opDel(r, p, w)
		}
	}
	alpha := []string{"a", "b", "/", ".", "..", ".wh.", ".wh..wh..opq", "c/", "//", "ab"}
	randPath := func() string {
		var sb strings.Builder
		for k := rnd.Intn(7); k > 0; k-- {
			sb.WriteString(alpha[rnd.Intn(len(alpha))])
			if rnd.Chance(2, 3) {
				sb.WriteString("/")
			}
		}
		return sb.String()
	}
	// clean relative paths (what tarfs hands to the scanners): names that are string prefixes of
	// each other, whiteouts aimed at the path, its ancestors, its siblings, opaque markers
	comps := []string{"a", "ab", "b", "bc", "c", "lib", "lib64", "x.y", "node_modules", "ms", "ms-utils"}
	cleanPath := func(n int) []string {
		ps := make([]string, n)
		for i := range ps {
			ps[i] = comps[rnd.Intn(len(comps))]
		}
		return ps
	}
	for i := 0; i < cfg.N(3000, 100000); i++ {
		fpc := cleanPath(1 + rnd.Intn(4))
		fp := strings.Join(fpc, "/")
		var wh string
		k := rnd.Intn(len(fpc))
		pre := strings.Join(fpc[:k], "/")
		if pre != "" {
			pre += "/"
		}
		switch rnd.Intn(5) {
		case 0:
			wh = pre + ".wh." + fpc[k]
		case 1: // a sibling whose name is related by string prefix
			wh = pre + ".wh." + comps[rnd.Intn(len(comps))]
		case 2:
			if pre == "" {
				wh = fpc[0] + "/" + opqName
			} else {
				wh = pre + opqName
			}
		case 3:
			wh = strings.Join(cleanPath(1+rnd.Intn(3)), "/") + "/.wh." + comps[rnd.Intn(len(comps))]
		default:
			wh = strings.Join(cleanPath(1+rnd.Intn(3)), "/") + "/" + opqName
		}
		opDel(r, fp, wh)
	}
	for i := 0; i < cfg.N(3000, 100000); i++ {
		fp, wh := randPath(), randPath()
		if rnd.Chance(1, 3) {
			// whiteout aimed at the path or one of its parents
			parts := strings.Split(fp, "/")
			k := rnd.Intn(len(parts))
			pre := strings.Join(parts[:k], "/")
			if pre != "" {
				pre += "/"
			}
			if rnd.Chance(1, 4) {
				wh = pre + ".wh..wh..opq"
			} else {
				wh = pre + ".wh." + parts[k]
			}
		}
		opDel(r, fp, wh)
	}
}
