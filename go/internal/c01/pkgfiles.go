package c01

// pkgfiles.go: the on-disk forms the real scanners read.

import (
	"archive/zip"
	"bytes"
	"fmt"
	"sort"
	"strings"
)

type osPkg struct{ Name, Version, Arch, Source string }

// dpkgStatus renders var/lib/dpkg/status.
func dpkgStatus(pkgs []osPkg) []byte {
	var sb strings.Builder
	ps := append([]osPkg(nil), pkgs...)
	sort.Slice(ps, func(i, j int) bool { return ps[i].Name < ps[j].Name })
	for _, p := range ps {
		fmt.Fprintf(&sb, "Package: %s\nStatus: install ok installed\nPriority: optional\nSection: libs\nArchitecture: %s\n", p.Name, p.Arch)
		if p.Source != "" {
			fmt.Fprintf(&sb, "Source: %s\n", p.Source)
		}
		fmt.Fprintf(&sb, "Version: %s\nDescription: generated\n a package\n\n", p.Version)
	}
	return []byte(sb.String())
}

// apkInstalled renders lib/apk/db/installed.
func apkInstalled(pkgs []osPkg) []byte {
	var sb strings.Builder
	ps := append([]osPkg(nil), pkgs...)
	sort.Slice(ps, func(i, j int) bool { return ps[i].Name < ps[j].Name })
	for _, p := range ps {
		fmt.Fprintf(&sb, "C:Q1abcdefghijklmnopqrstuvwxyz0=\nP:%s\nV:%s\nA:%s\nS:1234\nI:5678\nT:generated\n", p.Name, p.Version, p.Arch)
		if p.Source != "" {
			fmt.Fprintf(&sb, "o:%s\n", p.Source)
		}
		sb.WriteString("\n")
	}
	return []byte(sb.String())
}

func debianOSRelease(ver, code string) []byte {
	return []byte(fmt.Sprintf("PRETTY_NAME=\"Debian GNU/Linux %s (%s)\"\nNAME=\"Debian GNU/Linux\"\nVERSION_ID=\"%s\"\nVERSION=\"%s (%s)\"\nVERSION_CODENAME=%s\nID=debian\n", ver, code, ver, ver, code, code))
}

func alpineOSRelease(ver string) []byte {
	return []byte(fmt.Sprintf("NAME=\"Alpine Linux\"\nID=alpine\nVERSION_ID=%s\nPRETTY_NAME=\"Alpine Linux v%s\"\n", ver, ver[:strings.LastIndex(ver, ".")]))
}

func pyMetadata(name, ver string) []byte {
	return []byte(fmt.Sprintf("Metadata-Version: 2.1\nName: %s\nVersion: %s\nSummary: generated\n\nbody\n", name, ver))
}

func packageJSON(name, ver string) []byte {
	return []byte(fmt.Sprintf("{\n  \"name\": %q,\n  \"version\": %q,\n  \"license\": \"MIT\"\n}\n", name, ver))
}

func gemspec(name, ver string) []byte {
	return []byte(fmt.Sprintf("# -*- encoding: utf-8 -*-\nGem::Specification.new do |s|\n  s.name = %q.freeze\n  s.version = %q\n  s.summary = \"generated\".freeze\nend\n", name, ver))
}

func jarBytes(group, name, ver string) []byte {
	var buf bytes.Buffer
	zw := zip.NewWriter(&buf)
	w, _ := zw.Create("META-INF/MANIFEST.MF")
	fmt.Fprintf(w, "Manifest-Version: 1.0\r\nCreated-By: generated\r\n\r\n")
	w, _ = zw.Create("META-INF/maven/" + group + "/" + name + "/pom.properties")
	fmt.Fprintf(w, "#Generated\ngroupId=%s\nartifactId=%s\nversion=%s\n", group, name, ver)
	zw.Close()
	return buf.Bytes()
}
