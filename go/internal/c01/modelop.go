package c01

// modelop.go: the `e2e` protocol line — the abstraction of a real history
// (layer entries with content ids, and the scanners as the table of what the
// REAL scanners read out of each file) is handed to the Lean model, which
// answers with Tame?, indexModel and scanImage; the implementation's answer is
// what the real controller reported, what the real scanners found on the
// flattened image, and this file's own evaluation of the predicate Tame
// (a transcription of `tameB`, Model/LayerFS.lean).

import (
	"fmt"
	"path"
	"sort"
	"strings"

	"github.com/quay/claircore"
	"github.com/quay/claircore/verifharness/internal/hx"
)

func identityStr(p *claircore.Package) string {
	src := ""
	if p.Source != nil {
		src = p.Source.Name + "!" + p.Source.Version
	}
	return strings.Join([]string{p.Name, p.Version, p.Kind, p.Arch, src}, "!")
}

type absEntry struct {
	Path string
	Dir  bool
	CID  string
}

type absLayer struct {
	Hash    string
	Entries []absEntry
}

type absPkg struct{ ID, DB, FP string }

type absScan struct {
	dbs   []string
	os    map[string][]string     // content id -> package ids
	files map[[2]string][2]string // (path, content id) -> (id, db)
}

func (l absLayer) find(q string) *absEntry {
	for i := range l.Entries {
		if l.Entries[i].Path == q {
			return &l.Entries[i]
		}
	}
	return nil
}

func (l absLayer) fileOf(q string) (string, bool) {
	e := l.find(q)
	if e == nil || e.Dir || isWhiteoutPath(q) {
		return "", false
	}
	return e.CID, true
}

func (l absLayer) whiteoutsOf() (all, files []string) {
	for _, e := range l.Entries {
		if isWhiteoutPath(e.Path) {
			all = append(all, e.Path)
			if !e.Dir {
				files = append(files, e.Path)
			}
		}
	}
	return
}

func (l absLayer) hides(q string) bool {
	_, wf := l.whiteoutsOf()
	for _, w := range wf {
		if covers(w, q) {
			return true
		}
	}
	for _, e := range l.Entries {
		if e.Dir {
			if e.Path == q {
				return true
			}
		} else if !isWhiteoutPath(e.Path) && under(q, e.Path) {
			return true
		}
		if !(isWhiteoutPath(e.Path) && !e.Dir) && under(e.Path, q) {
			return true
		}
	}
	return false
}

func (s absScan) langPkgs(l absLayer) []absPkg {
	var out []absPkg
	for _, e := range l.Entries {
		if e.Dir || isWhiteoutPath(e.Path) {
			continue
		}
		if v, ok := s.files[[2]string{e.Path, e.CID}]; ok {
			out = append(out, absPkg{ID: v[0], DB: v[1], FP: e.Path})
		}
	}
	return out
}

// tameGo is `tameB` of Model/LayerFS.lean, clause by clause.
func tameGo(s absScan, layers []absLayer) bool { return tameClause(s, layers) == "" }

// tameClause names the first clause of Tame that fails ("" = Tame holds).
func tameClause(s absScan, layers []absLayer) string {
	count := map[string]int{}
	for _, l := range layers {
		count[l.Hash]++
	}
	for _, l := range layers { // hashes: a layer with a whiteout or a language package occurs once
		all, _ := l.whiteoutsOf()
		if (len(all) > 0 || len(s.langPkgs(l)) > 0) && count[l.Hash] != 1 {
			return "hashes"
		}
	}
	for _, l := range layers { // paths
		ps := map[string]bool{}
		for _, e := range l.Entries {
			if ps[e.Path] {
				return "paths"
			}
			ps[e.Path] = true
		}
	}
	for _, l := range layers { // oneWhiteout, noRootOpaque
		all, files := l.whiteoutsOf()
		if len(all) > 1 || len(all) != len(files) {
			return "oneWhiteout"
		}
		for _, w := range all {
			if path.Base(w) == opqName && path.Dir(w) == "." {
				return "noRootOpaque"
			}
		}
	}
	var allLang []absPkg
	for _, l := range layers {
		allLang = append(allLang, s.langPkgs(l)...)
	}
	for _, l := range layers { // hidesSpec
		_, wf := l.whiteoutsOf()
		for _, p := range allLang {
			byWh := false
			for _, w := range wf {
				if covers(w, p.FP) {
					byWh = true
				}
			}
			if l.hides(p.FP) != byWh {
				return "hidesSpec"
			}
		}
	}
	for _, d := range s.dbs { // osDb, disjoint
		for _, l := range layers {
			if l.hides(d) {
				return "osDb"
			}
			if c, ok := l.fileOf(d); ok {
				if len(s.os[c]) == 0 {
					return "osDb"
				}
				for _, id := range s.os[c] {
					for _, p := range allLang {
						if p.ID == id {
							return "disjoint"
						}
					}
				}
			}
		}
	}
	for i := range layers { // noOverwrite
		for j := i + 1; j < len(layers); j++ {
			for _, e := range layers[i].Entries {
				c, ok := layers[i].fileOf(e.Path)
				if !ok {
					continue
				}
				v, ok := s.files[[2]string{e.Path, c}]
				if !ok {
					continue
				}
				if c2, ok := layers[j].fileOf(e.Path); ok {
					v2, ok := s.files[[2]string{e.Path, c2}]
					if (!ok || v2[0] != v[0]) && !layers[j].hides(e.Path) {
						return "noOverwrite"
					}
				}
			}
		}
	}
	for _, p := range allLang { // onePath
		for _, q := range allLang {
			if p.ID == q.ID && p.FP != q.FP {
				return "onePath"
			}
		}
	}
	return ""
}

func sortDedup(xs []string) []string {
	sort.Strings(xs)
	var out []string
	for i, x := range xs {
		if i == 0 || x != xs[i-1] {
			out = append(out, x)
		}
	}
	return out
}

// opE2EModel emits the `e2e` line for one scenario.
// It reports whether the history is inside the hypothesis Tame of
// index_eq_flatten_partial (false when the abstraction does not apply).
func opE2EModel(r *hx.Run, sc *scenario, idx, fl indexResult, digests []string, flat layerFS) bool {
	cids := map[string]string{}
	cid := func(b []byte) string {
		k := string(b)
		if _, ok := cids[k]; !ok {
			cids[k] = fmt.Sprintf("c%d", len(cids)+1)
		}
		return cids[k]
	}
	abstract := func(l layerFS, hash string) absLayer {
		al := absLayer{Hash: hash}
		for _, p := range l.sortedPaths() {
			e := l[p]
			if e.Dir {
				al.Entries = append(al.Entries, absEntry{Path: p, Dir: true})
			} else {
				al.Entries = append(al.Entries, absEntry{Path: p, CID: cid(e.Data)})
			}
		}
		return al
	}
	short := map[string]string{}
	var layers []absLayer
	for i, d := range digests {
		if _, ok := short[d]; !ok {
			short[d] = fmt.Sprintf("L%d", i)
		}
		layers = append(layers, abstract(sc.layers[i], short[d]))
	}
	flatAbs := abstract(flat, "flat")
	flatDigest := digestOfBytes(flat.tarBytes())

	// the scanners, as the table of what the real scanners read
	s := absScan{dbs: []string{dpkgDB, apkDB}, os: map[string][]string{}, files: map[[2]string][2]string{}}
	consistent := true
	record := func(l absLayer, pkgs []*claircore.Package) {
		osIDs := map[string][]string{}
		got := map[string]bool{}
		for _, p := range pkgs {
			if p.Filepath == "" {
				osIDs[p.PackageDB] = append(osIDs[p.PackageDB], identityStr(p))
				continue
			}
			c, ok := l.fileOf(p.Filepath)
			if !ok {
				consistent = false
				continue
			}
			k := [2]string{p.Filepath, c}
			v := [2]string{identityStr(p), p.PackageDB}
			if old, ok := s.files[k]; ok && old != v {
				consistent = false
			}
			s.files[k] = v
			got[p.Filepath] = true
		}
		for _, d := range s.dbs {
			if c, ok := l.fileOf(d); ok {
				ids := sortDedup(osIDs[d])
				if old, ok := s.os[c]; ok && strings.Join(old, "+") != strings.Join(ids, "+") {
					consistent = false
				}
				s.os[c] = ids
			} else if len(osIDs[d]) > 0 {
				consistent = false
			}
		}
		_ = got
	}
	arts := layerArtifacts(idx, digests)
	for i := range layers {
		record(layers[i], arts[i])
	}
	flatPkgs := layerArtifacts(fl, []string{flatDigest})[0]
	record(flatAbs, flatPkgs)
	// a scanner whose answer depends on more than (path, content) is outside the model:
	// every file the table knows must have been reported wherever it occurs
	check := func(l absLayer, pkgs []*claircore.Package) {
		have := map[string]bool{}
		for _, p := range pkgs {
			have[p.Filepath] = true
		}
		for _, e := range l.Entries {
			if e.Dir || isWhiteoutPath(e.Path) {
				continue
			}
			if _, ok := s.files[[2]string{e.Path, e.CID}]; ok && !have[e.Path] {
				consistent = false
			}
		}
	}
	for i := range layers {
		check(layers[i], arts[i])
	}
	check(flatAbs, flatPkgs)
	if !consistent {
		r.Count("e2e:model-line-skipped:scanner-depends-on-layer-context")
		return false
	}

	// the line
	var tab []string
	var oc []string
	for c := range s.os {
		oc = append(oc, c)
	}
	sort.Strings(oc)
	for _, c := range oc {
		tab = append(tab, "O~"+c+"~"+strings.Join(s.os[c], "+"))
	}
	var fk [][2]string
	for k := range s.files {
		fk = append(fk, k)
	}
	sort.Slice(fk, func(i, j int) bool { return fk[i][0]+"\x00"+fk[i][1] < fk[j][0]+"\x00"+fk[j][1] })
	for _, k := range fk {
		v := s.files[k]
		tab = append(tab, "F~"+k[0]+"~"+k[1]+"~"+v[0]+"~"+v[1])
	}
	table := "-"
	if len(tab) > 0 {
		table = strings.Join(tab, ",")
	}
	var ls []string
	for _, l := range layers {
		var es []string
		for _, e := range l.Entries {
			if e.Dir {
				es = append(es, e.Path+":d")
			} else {
				es = append(es, e.Path+":"+e.CID)
			}
		}
		enc := "-"
		if len(es) > 0 {
			enc = strings.Join(es, ",")
		}
		ls = append(ls, l.Hash+";"+enc)
	}
	op := "e2e " + strings.Join(s.dbs, ",") + " " + table + " " + strings.Join(ls, "|")
	if strings.ContainsAny(table+strings.Join(ls, ""), " \t") {
		r.Count("e2e:model-line-skipped:blank-in-field")
		return false
	}

	// the implementation's answer
	var ip, mp []string
	for id, p := range idx.Report.Packages {
		for _, e := range idx.Report.Environments[id] {
			ip = append(ip, identityStr(p)+"@"+e.PackageDB)
		}
	}
	for _, p := range flatPkgs {
		mp = append(mp, identityStr(p)+"@"+p.PackageDB)
	}
	tame := tameGo(s, layers)
	ans := fmt.Sprintf("tame=%v idx=%s img=%s", tame, strings.Join(sortDedup(ip), ","), strings.Join(sortDedup(mp), ","))
	r.Op(op, ans, len(layers) > 1)
	r.Count(fmt.Sprintf("e2e:model-line:tame=%v", tame))
	if sc.Tame && !tame {
		r.Count("e2e:generator-tame-but-not-Tame:" + tameClause(s, layers))
	}
	return tame
}
