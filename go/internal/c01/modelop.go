package c01

// modelop.go: the `e2e` protocol line — the abstraction of a real history
// (layer entries with content ids, and the scanners as the table of what the
// REAL scanners read out of each file) is handed to the Lean model, which
// answers with Tame?, indexModel, scanImage and imageDist; the implementation's
// answer is what the real controller reported, what the real scanners found on
// the flattened image, and this file's own evaluation of the predicate Tame
// (a transcription of `tameB`, Model/LayerFS.lean).

import (
	"context"
	"fmt"
	"path"
	"sort"
	"strings"

	"github.com/quay/claircore"
	"github.com/quay/claircore/indexer"
	"github.com/quay/claircore/verifharness/internal/hx"
)

func identityStr(p *claircore.Package) string {
	src := ""
	if p.Source != nil {
		src = p.Source.Name + "!" + p.Source.Version
	}
	return strings.Join([]string{p.Name, p.Version, p.Kind, p.Arch, src}, "!")
}

type absEntry struct {
	Path string
	Dir  bool
	CID  string
}

type absLayer struct {
	Hash    string
	Entries []absEntry
}

type absPkg struct{ ID, DB, FP string }

// osEco is one OS package database ecosystem of the abstraction.
type osEco struct {
	Rhel     bool   // coalesced by rhel.Coalescer
	DB       string // path of the database file (= the abstract package database name)
	DistFile string // the file the ecosystem's distribution scanner reads
	EcoIdx   int    // index into ecosystems()
}

// the OS ecosystems of ecosystems(): database file, PackageDB string the real scanner reports,
// distribution file
const (
	rpmDBFile = "var/lib/rpm/Packages.db"
	rpmDBName = "ndb:var/lib/rpm"
)

var osEcos = []osEco{
	{false, dpkgDB, "etc/os-release", 0},
	{false, apkDB, "etc/os-release", 1},
	{true, rpmDBFile, "etc/redhat-release", 2},
	{false, rpmDBFile, "etc/os-release", 3},
}

// absDB maps the PackageDB string of a real package to the abstraction's database name.
func absDB(db string) string {
	if db == rpmDBName {
		return rpmDBFile
	}
	return db
}

// fileEcoIdx: the file ecosystems of ecosystems(), in order.
var fileEcoIdx = []int{4, 5, 6, 7, 8}

type absScan struct {
	os    map[string][]string           // content id -> package ids (OS databases)
	files map[[3]string][][2]string     // (eco, path, content id) -> (id, db)…
	dists map[[3]string]string          // (rh, db, content id) -> distribution
}

func (l absLayer) find(q string) *absEntry {
	for i := range l.Entries {
		if l.Entries[i].Path == q {
			return &l.Entries[i]
		}
	}
	return nil
}

func (l absLayer) fileOf(q string) (string, bool) {
	e := l.find(q)
	if e == nil || e.Dir || isWhiteoutPath(q) {
		return "", false
	}
	return e.CID, true
}

func (l absLayer) whiteoutsOf() (all, files []string) {
	for _, e := range l.Entries {
		if isWhiteoutPath(e.Path) {
			all = append(all, e.Path)
			if !e.Dir {
				files = append(files, e.Path)
			}
		}
	}
	return
}

func (l absLayer) hides(q string) bool {
	_, wf := l.whiteoutsOf()
	for _, w := range wf {
		if covers(w, q) {
			return true
		}
	}
	for _, e := range l.Entries {
		if e.Dir {
			if e.Path == q {
				return true
			}
		} else if !isWhiteoutPath(e.Path) && under(q, e.Path) {
			return true
		}
		if !(isWhiteoutPath(e.Path) && !e.Dir) && under(e.Path, q) {
			return true
		}
	}
	return false
}

func (l absLayer) sameEntries(o absLayer) bool {
	if len(l.Entries) != len(o.Entries) {
		return false
	}
	for i := range l.Entries {
		if l.Entries[i] != o.Entries[i] {
			return false
		}
	}
	return true
}

func (s absScan) filePkgs(eco string, l absLayer) []absPkg {
	var out []absPkg
	for _, e := range l.Entries {
		if e.Dir || isWhiteoutPath(e.Path) {
			continue
		}
		for _, v := range s.files[[3]string{eco, e.Path, e.CID}] {
			out = append(out, absPkg{ID: v[0], DB: v[1], FP: e.Path})
		}
	}
	return out
}

func fileEcoNames() []string {
	var out []string
	for _, i := range fileEcoIdx {
		out = append(out, ecoNames[i])
	}
	return out
}

// tameGo is `tameB` of Model/LayerFS.lean, clause by clause.
func tameGo(s absScan, layers []absLayer) bool { return tameClause(s, layers) == "" }

// tameClause names the first clause of Tame that fails ("" = Tame holds).
func tameClause(s absScan, layers []absLayer) string {
	ecos := fileEcoNames()
	for _, l := range layers { // digests: layers with one digest have the same entries
		for _, l2 := range layers {
			if l.Hash == l2.Hash && !l.sameEntries(l2) {
				return "digests"
			}
		}
	}
	for _, l := range layers { // paths
		ps := map[string]bool{}
		for _, e := range l.Entries {
			if ps[e.Path] {
				return "paths"
			}
			ps[e.Path] = true
		}
	}
	for _, l := range layers { // oneWhiteout, noRootOpaque
		all, files := l.whiteoutsOf()
		if len(all) > 1 || len(all) != len(files) {
			return "oneWhiteout"
		}
		for _, w := range all {
			if path.Base(w) == opqName && path.Dir(w) == "." {
				return "noRootOpaque"
			}
		}
	}
	perEco := map[string][][]absPkg{} // eco -> per layer packages
	var allFile []absPkg
	for _, eco := range ecos {
		for _, l := range layers {
			ps := s.filePkgs(eco, l)
			perEco[eco] = append(perEco[eco], ps)
			allFile = append(allFile, ps...)
		}
	}
	for _, l := range layers { // hidesSpec
		_, wf := l.whiteoutsOf()
		for _, p := range allFile {
			byWh := false
			for _, w := range wf {
				if covers(w, p.FP) {
					byWh = true
				}
			}
			if l.hides(p.FP) != byWh {
				return "hidesSpec"
			}
		}
	}
	seenDB := map[string]bool{}
	for _, oe := range osEcos { // osDb, disjoint
		if seenDB[oe.DB] {
			continue
		}
		seenDB[oe.DB] = true
		for _, l := range layers {
			if l.hides(oe.DB) {
				return "osDb"
			}
			if c, ok := l.fileOf(oe.DB); ok {
				if len(s.os[c]) == 0 {
					return "osDb"
				}
				for _, id := range s.os[c] {
					for _, p := range allFile {
						if p.ID == id {
							return "disjoint"
						}
					}
				}
			}
		}
	}
	for _, eco := range ecos { // noOverwrite
		for i := range layers {
			for j := i + 1; j < len(layers); j++ {
				for _, e := range layers[i].Entries {
					c, ok := layers[i].fileOf(e.Path)
					if !ok {
						continue
					}
					old := s.files[[3]string{eco, e.Path, c}]
					if len(old) == 0 {
						continue
					}
					if c2, ok := layers[j].fileOf(e.Path); ok && !layers[j].hides(e.Path) {
						now := map[string]bool{}
						for _, v := range s.files[[3]string{eco, e.Path, c2}] {
							now[v[0]] = true
						}
						for _, v := range old {
							if !now[v[0]] {
								return "noOverwrite"
							}
						}
					}
				}
			}
		}
	}
	for _, eco := range ecos { // onePath
		var all []absPkg
		for _, ps := range perEco[eco] {
			all = append(all, ps...)
		}
		for _, p := range all {
			for _, q := range all {
				if p.ID == q.ID && (p.FP != q.FP || p.DB != q.DB) {
					return "onePath"
				}
			}
		}
	}
	for i, e1 := range ecos { // ecosApart
		for _, e2 := range ecos[i+1:] {
			for _, ps := range perEco[e1] {
				for _, p := range ps {
					for _, qs := range perEco[e2] {
						for _, q := range qs {
							if p.ID == q.ID {
								return "ecosApart"
							}
						}
					}
				}
			}
		}
	}
	for _, eco := range ecos { // goDb
		if !strings.HasPrefix(eco, "*") {
			continue
		}
		for _, ps := range perEco[eco] {
			for _, p := range ps {
				if !strings.HasPrefix(p.DB, "go:") {
					return "goDb"
				}
			}
		}
	}
	return ""
}

// sharedAcrossEcos: some package id is found by two ecosystems (clauses ecosApart / disjoint of Tame).
func sharedAcrossEcos(s absScan, layers []absLayer) bool {
	owner := map[string]string{}
	clash := false
	note := func(id, eco string) {
		if o, ok := owner[id]; ok && o != eco {
			clash = true
		}
		owner[id] = eco
	}
	for _, l := range layers {
		for _, eco := range fileEcoNames() {
			for _, p := range s.filePkgs(eco, l) {
				note(p.ID, eco)
			}
		}
		for _, oe := range osEcos {
			if c, ok := l.fileOf(oe.DB); ok {
				for _, id := range s.os[c] {
					note(id, "os:"+oe.DB)
				}
			}
		}
	}
	return clash
}

func sortDedup(xs []string) []string {
	sort.Strings(xs)
	var out []string
	for i, x := range xs {
		if i == 0 || x != xs[i-1] {
			out = append(out, x)
		}
	}
	return out
}

// distName is the abstraction's name of a distribution (store ids differ between the two stores).
func distName(d *claircore.Distribution) string {
	if d == nil {
		return "-"
	}
	n := d.DID + "-" + d.VersionID
	if d.DID == "" {
		n = d.Name + "-" + d.Version
	}
	return strings.NewReplacer(" ", "_", ",", "_", "~", "_", "=", "_", "|", "_", ";", "_", ":", "_", "#", "_", "@", "_").Replace(n)
}

// per-ecosystem artifacts of one layer, read back from the store
func ecoLayerPkgs(res indexResult, ei int, digest string) []*claircore.Package {
	ctx := context.Background()
	ps, _ := ecosystems(ctx)[ei].PackageScanners(ctx)
	var vs indexer.VersionedScanners
	vs.PStoVS(ps)
	out, _ := res.Store.PackagesByLayer(ctx, claircore.MustParseDigest(digest), vs)
	return out
}

func ecoLayerDists(res indexResult, ei int, digest string) []*claircore.Distribution {
	ctx := context.Background()
	ds, _ := ecosystems(ctx)[ei].DistributionScanners(ctx)
	var vs indexer.VersionedScanners
	vs.DStoVS(ds)
	out, _ := res.Store.DistributionsByLayer(ctx, claircore.MustParseDigest(digest), vs)
	return out
}

// e2eModel is what opE2EModel found out about one scenario.
type e2eModel struct {
	Tame       bool // the abstraction applies and is inside the hypothesis Tame
	DistStable bool // every OS ecosystem's distribution scanner finds at most one distribution, in all layers and on the image
}

// opE2EModel emits the `e2e` line for one scenario.
func opE2EModel(r *hx.Run, sc *scenario, idx, fl indexResult, digests []string, flat layerFS) e2eModel {
	cids := map[string]string{}
	cid := func(b []byte) string {
		k := string(b)
		if _, ok := cids[k]; !ok {
			cids[k] = fmt.Sprintf("c%d", len(cids)+1)
		}
		return cids[k]
	}
	abstract := func(l layerFS, hash string) absLayer {
		al := absLayer{Hash: hash}
		for _, p := range l.sortedPaths() {
			e := l[p]
			if e.Dir {
				al.Entries = append(al.Entries, absEntry{Path: p, Dir: true})
			} else {
				al.Entries = append(al.Entries, absEntry{Path: p, CID: cid(e.Data)})
			}
		}
		return al
	}
	short := map[string]string{}
	var layers []absLayer
	for i, d := range digests {
		if _, ok := short[d]; !ok {
			short[d] = fmt.Sprintf("L%d", i)
		}
		layers = append(layers, abstract(sc.layers[i], short[d]))
	}
	flatAbs := abstract(flat, "flat")
	flatDigest := digestOfBytes(flat.tarBytes())

	// the scanners, as the table of what the real scanners read
	s := absScan{os: map[string][]string{}, files: map[[3]string][][2]string{}, dists: map[[3]string]string{}}
	consistent := true
	distStable := true
	distSeen := map[int]map[string]bool{}
	record := func(l absLayer, res indexResult, digest string) {
		// OS databases: every ecosystem reading the file must read the same packages
		for _, oe := range osEcos {
			pkgs := ecoLayerPkgs(res, oe.EcoIdx, digest)
			var ids []string
			for _, p := range pkgs {
				if p.Filepath != "" || absDB(p.PackageDB) != oe.DB {
					continue
				}
				ids = append(ids, identityStr(p))
			}
			ids = sortDedup(ids)
			if c, ok := l.fileOf(oe.DB); ok {
				if old, ok := s.os[c]; ok && strings.Join(old, "+") != strings.Join(ids, "+") {
					consistent = false
				}
				s.os[c] = ids
			} else if len(ids) > 0 {
				consistent = false
			}
			// distributions
			ds := ecoLayerDists(res, oe.EcoIdx, digest)
			if len(ds) > 1 {
				consistent = false
			}
			if distSeen[oe.EcoIdx] == nil {
				distSeen[oe.EcoIdx] = map[string]bool{}
			}
			for _, d := range ds {
				distSeen[oe.EcoIdx][distName(d)] = true
			}
			if _, ok := l.fileOf(oe.DistFile); ok && len(ds) == 0 {
				distSeen[oe.EcoIdx]["-"] = true
			}
			rh := "0"
			if oe.Rhel {
				rh = "1"
			}
			if c, ok := l.fileOf(oe.DistFile); ok {
				k := [3]string{rh, oe.DB, c}
				v := "-"
				if len(ds) == 1 {
					v = distName(ds[0])
				}
				if old, ok := s.dists[k]; ok && old != v {
					consistent = false
				}
				s.dists[k] = v
			} else if len(ds) > 0 {
				consistent = false // the scanner read another file
			}
		}
		// file ecosystems
		for _, ei := range fileEcoIdx {
			eco := ecoNames[ei]
			pkgs := ecoLayerPkgs(res, ei, digest)
			byFile := map[string][][2]string{}
			for _, p := range pkgs {
				if _, ok := l.fileOf(p.Filepath); !ok {
					consistent = false
					continue
				}
				byFile[p.Filepath] = append(byFile[p.Filepath], [2]string{identityStr(p), p.PackageDB})
			}
			for fp, vs := range byFile {
				c, _ := l.fileOf(fp)
				sort.Slice(vs, func(i, j int) bool { return vs[i][0]+"\x00"+vs[i][1] < vs[j][0]+"\x00"+vs[j][1] })
				k := [3]string{eco, fp, c}
				if old, ok := s.files[k]; ok && fmt.Sprint(old) != fmt.Sprint(vs) {
					consistent = false
				}
				s.files[k] = vs
			}
		}
	}
	for i := range layers {
		record(layers[i], idx, digests[i])
	}
	for ei, name := range ecoNames[:len(ecoNames)-1] {
		for i := range layers {
			if len(ecoLayerPkgs(idx, ei, digests[i])) > 0 {
				r.Count("e2e:ecosystem-with-packages:" + name)
				break
			}
		}
	}
	record(flatAbs, fl, flatDigest)
	for _, m := range distSeen {
		if len(m) > 1 {
			distStable = false
		}
	}
	for _, oe := range osEcos {
		for _, l := range layers {
			if l.hides(oe.DistFile) {
				distStable = false
			}
		}
	}
	// a scanner whose answer depends on more than (path, content) is outside the model:
	// every file the table knows must have been reported wherever it occurs
	check := func(l absLayer, res indexResult, digest string) {
		for _, ei := range fileEcoIdx {
			have := map[string]bool{}
			for _, p := range ecoLayerPkgs(res, ei, digest) {
				have[p.Filepath] = true
			}
			for _, e := range l.Entries {
				if e.Dir || isWhiteoutPath(e.Path) {
					continue
				}
				if _, ok := s.files[[3]string{ecoNames[ei], e.Path, e.CID}]; ok && !have[e.Path] {
					consistent = false
				}
			}
		}
	}
	for i := range layers {
		check(layers[i], idx, digests[i])
	}
	check(flatAbs, fl, flatDigest)
	if !consistent {
		r.Count("e2e:model-line-skipped:scanner-depends-on-layer-context")
		return e2eModel{DistStable: distStable}
	}

	// the line
	var tab []string
	var oc []string
	for c := range s.os {
		oc = append(oc, c)
	}
	sort.Strings(oc)
	for _, c := range oc {
		tab = append(tab, "O~"+c+"~"+strings.Join(s.os[c], "+"))
	}
	var fk [][3]string
	for k := range s.files {
		fk = append(fk, k)
	}
	sort.Slice(fk, func(i, j int) bool { return strings.Join(fk[i][:], "\x00") < strings.Join(fk[j][:], "\x00") })
	for _, k := range fk {
		for _, v := range s.files[k] {
			tab = append(tab, "F~"+k[0]+"~"+k[1]+"~"+k[2]+"~"+v[0]+"~"+v[1])
		}
	}
	var dk [][3]string
	for k := range s.dists {
		dk = append(dk, k)
	}
	sort.Slice(dk, func(i, j int) bool { return strings.Join(dk[i][:], "\x00") < strings.Join(dk[j][:], "\x00") })
	for _, k := range dk {
		if s.dists[k] != "-" {
			tab = append(tab, "D~"+k[0]+"~"+k[1]+"~"+k[2]+"~"+s.dists[k])
		}
	}
	table := "-"
	if len(tab) > 0 {
		table = strings.Join(tab, ",")
	}
	var ls []string
	for _, l := range layers {
		var es []string
		for _, e := range l.Entries {
			if e.Dir {
				es = append(es, e.Path+":d")
			} else {
				es = append(es, e.Path+":"+e.CID)
			}
		}
		enc := "-"
		if len(es) > 0 {
			enc = strings.Join(es, ",")
		}
		ls = append(ls, l.Hash+";"+enc)
	}
	var osdbs, rheldbs []string
	for _, oe := range osEcos {
		if oe.Rhel {
			rheldbs = append(rheldbs, oe.DB+"@"+oe.DistFile)
		} else {
			osdbs = append(osdbs, oe.DB+"@"+oe.DistFile)
		}
	}
	op := "e2e " + strings.Join(osdbs, ",") + " " + strings.Join(rheldbs, ",") + " " + strings.Join(fileEcoNames(), ",") + " " + table + " " + strings.Join(ls, "|")
	if strings.ContainsAny(table+strings.Join(ls, ""), " \t") {
		r.Count("e2e:model-line-skipped:blank-in-field")
		return e2eModel{DistStable: distStable}
	}

	// the implementation's answer
	var ip, mp, dp []string
	for id, p := range idx.Report.Packages {
		for _, e := range idx.Report.Environments[id] {
			ip = append(ip, identityStr(p)+"@"+absDB(e.PackageDB)+"#"+distName(idx.Report.Distributions[e.DistributionID]))
		}
	}
	for _, ei := range append([]int{0, 1, 2, 3}, fileEcoIdx...) {
		for _, p := range ecoLayerPkgs(fl, ei, flatDigest) {
			mp = append(mp, identityStr(p)+"@"+absDB(p.PackageDB))
		}
	}
	for _, rh := range []bool{false, true} {
		for _, oe := range osEcos {
			if oe.Rhel != rh {
				continue
			}
			ds := ecoLayerDists(fl, oe.EcoIdx, flatDigest)
			var d *claircore.Distribution
			if len(ds) > 0 {
				d = ds[0]
			}
			b := "0"
			if rh {
				b = "1"
			}
			dp = append(dp, b+":"+oe.DB+"="+distName(d))
		}
	}
	tame := tameGo(s, layers)
	if sharedAcrossEcos(s, layers) {
		// a package id shared by two ecosystems: the finished report depends on which coalescer
		// goroutine finished last (finding lang-shared-id-across-ecosystems)
		r.Count("e2e:model-line-skipped:report-depends-on-goroutine-order")
		return e2eModel{DistStable: distStable}
	}
	ans := fmt.Sprintf("tame=%v idx=%s img=%s dist=%s", tame, strings.Join(sortDedup(ip), ","), strings.Join(sortDedup(mp), ","), strings.Join(dp, ","))
	r.Op(op, ans, len(layers) > 1)
	r.Count(fmt.Sprintf("e2e:model-line:tame=%v", tame))
	if !tame {
		r.Count("e2e:not-Tame:" + tameClause(s, layers))
	}
	if sc.Tame && !tame {
		r.Count("e2e:generator-tame-but-not-Tame:" + tameClause(s, layers))
	}
	return e2eModel{Tame: tame, DistStable: distStable}
}
