package c01

// index.go: runs the REAL indexer (controller state machine, LayerScanner, the
// real package/distribution/repository/file scanners, coalescers, MergeSR,
// whiteout resolver) over layers held in memory: a private store (store.go)
// and a FetchArena whose Realizer initialises each claircore.Layer from the
// generated tar bytes.

import (
	"bytes"
	"context"
	"encoding/json"
	"fmt"
	"os"
	"sort"
	"strings"
	"sync"
	"time"

	"github.com/quay/claircore"
	"github.com/quay/claircore/alpine"
	"github.com/quay/claircore/dpkg"
	"github.com/quay/claircore/gobin"
	"github.com/quay/claircore/indexer"
	"github.com/quay/claircore/indexer/controller"
	"github.com/quay/claircore/java"
	"github.com/quay/claircore/nodejs"
	"github.com/quay/claircore/python"
	"github.com/quay/claircore/rhel"
	"github.com/quay/claircore/rpm"
	"github.com/quay/claircore/ruby"
	"github.com/quay/claircore/whiteout"
)

type memArena struct {
	tars map[string][]byte // digest -> tar
}

type memRealizer struct {
	a      *memArena
	opened []*claircore.Layer
}

func (a *memArena) Realizer(context.Context) indexer.Realizer { return &memRealizer{a: a} }
func (a *memArena) Close(context.Context) error               { return nil }

func (r *memRealizer) Realize(ctx context.Context, ls []*claircore.Layer) error {
	for _, l := range ls {
		if l.Fetched() {
			continue
		}
		b, ok := r.a.tars[l.Hash.String()]
		if !ok {
			return fmt.Errorf("no such layer %s", l.Hash)
		}
		desc := claircore.LayerDescription{Digest: l.Hash.String(), URI: "mem:///" + l.Hash.String(), MediaType: "application/vnd.oci.image.layer.v1.tar"}
		if err := l.Init(ctx, &desc, bytes.NewReader(b)); err != nil {
			return err
		}
		r.opened = append(r.opened, l)
	}
	return nil
}

func (r *memRealizer) Close() error {
	for _, l := range r.opened {
		l.Close()
	}
	r.opened = nil
	return nil
}

// newEcosystems: libindex's default list without rhcc (its scanner wants a
// name-to-repository mapping from the network), in libindex's order.
func newEcosystems(ctx context.Context) []*indexer.Ecosystem {
	return []*indexer.Ecosystem{
		dpkg.NewEcosystem(ctx),
		alpine.NewEcosystem(ctx),
		rhel.NewEcosystem(ctx),
		rpm.NewEcosystem(ctx),
		python.NewEcosystem(ctx),
		java.NewEcosystem(ctx),
		gobin.NewEcosystem(ctx),
		ruby.NewEcosystem(ctx),
		nodejs.NewEcosystem(ctx),
		whiteout.NewEcosystem(ctx), // libindex always appends it
	}
}

// ecosystems: ONE long-lived set of Ecosystem values, as a deployment has (libindex.New builds
// them once and indexes every manifest through them). Every manifest of a run goes through these;
// realIndexWith{Fresh: true} builds a new set for the history-independence comparison.
var deployment struct {
	once sync.Once
	ecos []*indexer.Ecosystem
}

func ecosystems(ctx context.Context) []*indexer.Ecosystem {
	deployment.once.Do(func() { deployment.ecos = newEcosystems(ctx) })
	return deployment.ecos
}

// ecoKinds: which coalescer model each ecosystem of ecosystems() runs under,
// and the name the e2e line gives the file ecosystems.
var ecoKinds = []string{"linux", "linux", "rhel", "linux", "lang", "lang", "gobin", "lang", "lang", "wh"}
var ecoNames = []string{"dpkg", "apk", "rhel", "rpm", "python", "java", "*gobin", "ruby", "nodejs", "whiteout"}

// the repository-to-CPE mapping the rhel repository scanner is configured with
// (a local file: no network). One CPE per content set.
var contentSets = map[string]string{
	"rhel-8-for-x86_64-baseos-rpms":    "cpe:/o:redhat:enterprise_linux:8::baseos",
	"rhel-8-for-x86_64-appstream-rpms": "cpe:/a:redhat:enterprise_linux:8::appstream",
	"rhocp-4.14-for-rhel-8-x86_64-rpms": "cpe:/a:redhat:openshift:4.14::el8",
}

var mappingFile struct {
	once sync.Once
	path string
	err  error
}

func repo2cpeFile() (string, error) {
	mappingFile.once.Do(func() {
		data := map[string]any{}
		for cs, cpe := range contentSets {
			data[cs] = map[string]any{"cpes": []string{cpe}}
		}
		b, _ := json.Marshal(map[string]any{"data": data})
		f, err := os.CreateTemp("", "c01-repo2cpe-*.json")
		if err != nil {
			mappingFile.err = err
			return
		}
		f.Write(b)
		f.Close()
		mappingFile.path = f.Name()
	})
	return mappingFile.path, mappingFile.err
}

func removeMappingFile() {
	if mappingFile.path != "" {
		os.Remove(mappingFile.path)
	}
}

// indexResult is what the oracle looks at.
type indexResult struct {
	Report *claircore.IndexReport
	Store  *memStore
	Err    error
}

// indexOpt: how one Index call is set up.
type indexOpt struct {
	Fresh   bool // a new set of Ecosystem values instead of the long-lived one
	FaultAt int  // the store read (PackagesByLayer, … in call order) that fails; -1 = none
}

// realIndex runs controller.Index over the given layers (tars) through the long-lived ecosystems.
func realIndex(tars [][]byte) indexResult { return realIndexWith(tars, indexOpt{FaultAt: -1}) }

func realIndexWith(tars [][]byte, o indexOpt) indexResult {
	ctx, cancel := context.WithTimeout(context.Background(), 60*time.Second)
	defer cancel()
	arena := &memArena{tars: map[string][]byte{}}
	m := &claircore.Manifest{}
	var all bytes.Buffer
	for _, t := range tars {
		d := digestOfBytes(t)
		arena.tars[d] = t
		all.WriteString(d)
		m.Layers = append(m.Layers, &claircore.Layer{Hash: claircore.MustParseDigest(d), URI: "mem:///" + d})
	}
	m.Hash = claircore.MustParseDigest(digestOfBytes(all.Bytes()))
	st := newMemStore()
	ecos := ecosystems(ctx)
	if o.Fresh {
		ecos = newEcosystems(ctx)
	}
	ps, ds, rs, fs, err := indexer.EcosystemsToScanners(ctx, ecos)
	if err != nil {
		return indexResult{Err: err}
	}
	opts := &indexer.Options{
		Store:      st,
		FetchArena: arena,
		Ecosystems: ecos,
		Vscnrs:     indexer.MergeVS(ps, ds, rs, fs),
		Resolvers:  []indexer.Resolver{&whiteout.Resolver{}},
	}
	mf, err := repo2cpeFile()
	if err != nil {
		return indexResult{Err: err}
	}
	opts.ScannerConfig.Repo = map[string]func(any) error{
		"rhel-repository-scanner": func(v any) error {
			if c, ok := v.(*rhel.RepositoryScannerConfig); ok {
				c.DisableAPI = true
				c.Repo2CPEMappingFile = mf
			}
			return nil
		},
	}
	// one scan at a time: the store hands out ids in arrival order, and the protocol lines
	// (which carry the ids) must be a function of the seed
	opts.LayerScanner, err = indexer.NewLayerScanner(ctx, 1, opts)
	if err != nil {
		return indexResult{Err: err}
	}
	st.mu.Lock()
	st.recording, st.faultAt = true, o.FaultAt
	st.mu.Unlock()
	ir, err := controller.New(opts).Index(ctx, m)
	st.mu.Lock()
	st.recording, st.faultAt = false, -1
	st.mu.Unlock()
	return indexResult{Report: ir, Store: st, Err: err}
}

// pkgTuple is the projection the property names: name, version, kind, arch,
// source, package database.
func pkgTuple(p *claircore.Package, db string) string {
	src := ""
	if p.Source != nil && p.Source.Name != "" {
		src = p.Source.Name + "@" + p.Source.Version
	}
	return strings.Join([]string{p.Name, p.Version, p.Kind, p.Arch, src, db}, "|")
}

// tuples of a finished report: one per (package, environment database).
func reportTuples(ir *claircore.IndexReport) []string {
	set := map[string]bool{}
	for id, p := range ir.Packages {
		for _, e := range ir.Environments[id] {
			set[pkgTuple(p, e.PackageDB)] = true
		}
	}
	out := make([]string, 0, len(set))
	for t := range set {
		out = append(out, t)
	}
	sort.Strings(out)
	return out
}
