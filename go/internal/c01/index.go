package c01

// index.go: runs the REAL indexer (controller state machine, LayerScanner, the
// real package/distribution/repository/file scanners, coalescers, MergeSR,
// whiteout resolver) over layers held in memory: a private store (store.go)
// and a FetchArena whose Realizer initialises each claircore.Layer from the
// generated tar bytes.

import (
	"bytes"
	"context"
	"fmt"
	"sort"
	"strings"
	"time"

	"github.com/quay/claircore"
	"github.com/quay/claircore/alpine"
	"github.com/quay/claircore/dpkg"
	"github.com/quay/claircore/indexer"
	"github.com/quay/claircore/indexer/controller"
	"github.com/quay/claircore/java"
	"github.com/quay/claircore/nodejs"
	"github.com/quay/claircore/python"
	"github.com/quay/claircore/ruby"
	"github.com/quay/claircore/whiteout"
)

type memArena struct {
	tars map[string][]byte // digest -> tar
}

type memRealizer struct {
	a      *memArena
	opened []*claircore.Layer
}

func (a *memArena) Realizer(context.Context) indexer.Realizer { return &memRealizer{a: a} }
func (a *memArena) Close(context.Context) error               { return nil }

func (r *memRealizer) Realize(ctx context.Context, ls []*claircore.Layer) error {
	for _, l := range ls {
		if l.Fetched() {
			continue
		}
		b, ok := r.a.tars[l.Hash.String()]
		if !ok {
			return fmt.Errorf("no such layer %s", l.Hash)
		}
		desc := claircore.LayerDescription{Digest: l.Hash.String(), URI: "mem:///" + l.Hash.String(), MediaType: "application/vnd.oci.image.layer.v1.tar"}
		if err := l.Init(ctx, &desc, bytes.NewReader(b)); err != nil {
			return err
		}
		r.opened = append(r.opened, l)
	}
	return nil
}

func (r *memRealizer) Close() error {
	for _, l := range r.opened {
		l.Close()
	}
	r.opened = nil
	return nil
}

func ecosystems(ctx context.Context) []*indexer.Ecosystem {
	return []*indexer.Ecosystem{
		dpkg.NewEcosystem(ctx),
		alpine.NewEcosystem(ctx),
		python.NewEcosystem(ctx),
		java.NewEcosystem(ctx),
		ruby.NewEcosystem(ctx),
		nodejs.NewEcosystem(ctx),
		whiteout.NewEcosystem(ctx), // libindex always appends it
	}
}

// indexResult is what the oracle looks at.
type indexResult struct {
	Report *claircore.IndexReport
	Store  *memStore
	Err    error
}

// realIndex runs controller.Index over the given layers (tars).
func realIndex(tars [][]byte) indexResult {
	ctx, cancel := context.WithTimeout(context.Background(), 60*time.Second)
	defer cancel()
	arena := &memArena{tars: map[string][]byte{}}
	m := &claircore.Manifest{}
	var all bytes.Buffer
	for _, t := range tars {
		d := digestOfBytes(t)
		arena.tars[d] = t
		all.WriteString(d)
		m.Layers = append(m.Layers, &claircore.Layer{Hash: claircore.MustParseDigest(d), URI: "mem:///" + d})
	}
	m.Hash = claircore.MustParseDigest(digestOfBytes(all.Bytes()))
	st := newMemStore()
	ecos := ecosystems(ctx)
	ps, ds, rs, fs, err := indexer.EcosystemsToScanners(ctx, ecos)
	if err != nil {
		return indexResult{Err: err}
	}
	opts := &indexer.Options{
		Store:      st,
		FetchArena: arena,
		Ecosystems: ecos,
		Vscnrs:     indexer.MergeVS(ps, ds, rs, fs),
		Resolvers:  []indexer.Resolver{&whiteout.Resolver{}},
	}
	// one scan at a time: the store hands out ids in arrival order, and the protocol lines
	// (which carry the ids) must be a function of the seed
	opts.LayerScanner, err = indexer.NewLayerScanner(ctx, 1, opts)
	if err != nil {
		return indexResult{Err: err}
	}
	ir, err := controller.New(opts).Index(ctx, m)
	return indexResult{Report: ir, Store: st, Err: err}
}

// pkgTuple is the projection the property names: name, version, kind, arch,
// source, package database.
func pkgTuple(p *claircore.Package, db string) string {
	src := ""
	if p.Source != nil && p.Source.Name != "" {
		src = p.Source.Name + "@" + p.Source.Version
	}
	return strings.Join([]string{p.Name, p.Version, p.Kind, p.Arch, src, db}, "|")
}

// tuples of a finished report: one per (package, environment database).
func reportTuples(ir *claircore.IndexReport) []string {
	set := map[string]bool{}
	for id, p := range ir.Packages {
		for _, e := range ir.Environments[id] {
			set[pkgTuple(p, e.PackageDB)] = true
		}
	}
	out := make([]string, 0, len(set))
	for t := range set {
		out = append(out, t)
	}
	sort.Strings(out)
	return out
}
