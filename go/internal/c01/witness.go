package c01

// witness.go: the concrete witnesses of the recorded findings (findings/C01.txt),
// replayed on the real indexer on every run.

func mkScenario(ops []string, build func(b *builder)) *scenario {
	sc := &scenario{Tame: false, b: newBuilder(), langByContent: map[string]langFile{}, features: map[string]bool{}, Ops: ops}
	build(sc.b)
	sc.layers = sc.b.layers
	return sc
}

func witnessScenarios() map[string]*scenario {
	py := "usr/local/lib/python3.11/site-packages"
	return map[string]*scenario{
		// DESIGN section 5 row 8
		"whiteout-one-per-layer": mkScenario(
			[]string{"layer 0: pip install requests 2.31.0; npm install left-pad 1.3.0", "layer 1: pip uninstall requests; npm uninstall left-pad (two whiteouts in one layer)"},
			func(b *builder) {
				b.put(py+"/requests-2.31.0.dist-info/METADATA", pyMetadata("requests", "2.31.0"))
				b.put("usr/local/lib/node_modules/left-pad/package.json", packageJSON("left-pad", "1.3.0"))
				b.commit()
				b.rm(py + "/requests-2.31.0.dist-info")
				b.rm("usr/local/lib/node_modules/left-pad")
				b.commit()
			}),
		// DESIGN section 5 row 9
		"lang-overwrite-in-place": mkScenario(
			[]string{"layer 0: app/node_modules/left-pad/package.json = left-pad 1.0.0", "layer 1: the same file overwritten with left-pad 1.0.1"},
			func(b *builder) {
				b.put("app/node_modules/left-pad/package.json", packageJSON("left-pad", "1.0.0"))
				b.commit()
				b.put("app/node_modules/left-pad/package.json", packageJSON("left-pad", "1.0.1"))
				b.commit()
			}),
		"lang-same-package-two-paths": mkScenario(
			[]string{"layer 0: flask 1.0.0 installed in usr/local/lib/python3.11/site-packages and in opt/venv/lib/python3.11/site-packages"},
			func(b *builder) {
				b.put(py+"/flask-1.0.0.dist-info/METADATA", pyMetadata("flask", "1.0.0"))
				b.put("opt/venv/lib/python3.11/site-packages/flask-1.0.0.dist-info/METADATA", pyMetadata("flask", "1.0.0"))
				b.commit()
			}),
		"os-db-removed": mkScenario(
			[]string{"layer 0: alpine with musl 1.2.4-r2, busybox 1.36.1-r5", "layer 1: rm -rf lib/apk"},
			func(b *builder) {
				b.put("etc/os-release", alpineOSRelease("3.18.4"))
				b.put(apkDB, apkInstalled([]osPkg{{"musl", "1.2.4-r2", "x86_64", "musl"}, {"busybox", "1.36.1-r5", "x86_64", "busybox"}}))
				b.commit()
				b.rm("lib/apk")
				b.commit()
			}),
		"os-db-emptied": mkScenario(
			[]string{"layer 0: alpine with musl 1.2.4-r2", "layer 1: lib/apk/db/installed rewritten with no entries"},
			func(b *builder) {
				b.put("etc/os-release", alpineOSRelease("3.18.4"))
				b.put(apkDB, apkInstalled([]osPkg{{"musl", "1.2.4-r2", "x86_64", "musl"}}))
				b.commit()
				b.put(apkDB, apkInstalled(nil))
				b.commit()
			}),
		"gobin-shared-package": mkScenario(
			[]string{"layer 0: two Go executables built with go1.22.1, both depending on golang.org/x/text v0.14.0: usr/bin/app and usr/bin/tool"},
			func(b *builder) {
				b.put("usr/bin/app", goElf(goBuild("app", "1.0.0", true)))
				b.put("usr/bin/tool", goElf(goBuild("tool", "1.0.0", true)))
				b.commit()
			}),
		"gobin-overwrite-in-place": mkScenario(
			[]string{"layer 0: usr/bin/app = example.com/app v1.0.0", "layer 1: usr/bin/app rebuilt from example.com/app v1.0.1 (file overwritten)"},
			func(b *builder) {
				b.put("usr/bin/app", goElf(goBuild("app", "1.0.0", false)))
				b.commit()
				b.put("usr/bin/app", goElf(goBuild("app", "1.0.1", false)))
				b.commit()
			}),
		"lang-shared-id-across-ecosystems": mkScenario(
			[]string{"layer 0: pip install ms 2.0.0; npm install ms 2.0.0", "layer 1: pip uninstall ms"},
			func(b *builder) {
				b.put(py+"/ms-2.0.0.dist-info/METADATA", pyMetadata("ms", "2.0.0"))
				b.put("usr/local/lib/node_modules/ms/package.json", packageJSON("ms", "2.0.0"))
				b.commit()
				b.rm(py + "/ms-2.0.0.dist-info")
				b.commit()
			}),
		"python-distro-dir-context": mkScenario(
			[]string{"layer 0: debian with bash 5.2-1 (var/lib/dpkg/status)", "layer 1: requests 2.31.0 installed into usr/lib/python3/dist-packages, dpkg database untouched"},
			func(b *builder) {
				b.put("etc/os-release", debianOSRelease("12", "bookworm"))
				b.put(dpkgDB, dpkgStatus([]osPkg{{"bash", "5.2-1", "amd64", ""}}))
				b.mkdir("var/lib/dpkg/info")
				b.commit()
				b.put("usr/lib/python3/dist-packages/requests-2.31.0.dist-info/METADATA", pyMetadata("requests", "2.31.0"))
				b.commit()
			}),
	}
}
