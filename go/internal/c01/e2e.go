package c01

// e2e.go: the statement of C01 checked directly on the implementation.
//
//	packages(Index(layers)) = packages(Index([flatten(layers)]))
//
// with the real controller and the real scanners on both sides. Layer
// histories are generated from install / upgrade / remove operations on dpkg
// and apk databases and on python, nodejs, ruby and java package files
// (rpm and gobin need binary databases / Go executables and are left out).
//
// `tame` histories stay inside the hypothesis of index_eq_flatten_partial;
// any difference there is an unclassified failure. `wild` histories add the
// shapes the theorem excludes; a difference is classified only when it is
// exactly of the shape of a recorded finding.

import (
	"bytes"
	"context"
	"encoding/json"
	"fmt"
	"path"
	"sort"
	"strings"

	"github.com/quay/claircore"
	"github.com/quay/claircore/indexer"
	"github.com/quay/claircore/verifharness/internal/hx"
)

const (
	dpkgDB = "var/lib/dpkg/status"
	apkDB  = "lib/apk/db/installed"
)

// osDBFile: PackageDB string of an OS package -> the database file in the image.
var osDBFile = map[string]string{dpkgDB: dpkgDB, apkDB: apkDB, rpmDBName: rpmDBFile}

var (
	dpkgNames = []string{"bash", "libc6", "zlib1g", "openssl", "curl", "libssl3"}
	apkNames  = []string{"musl", "busybox", "zlib", "libcrypto3", "apk-tools"}
	rpmNames  = []string{"bash", "glibc", "openssl-libs", "libgcc", "tzdata", "dnf"}
	langNames = map[string][]string{
		"python": {"requests", "urllib3", "flask", "jinja2"},
		"nodejs": {"left-pad", "lodash", "express", "ms", "ms-utils"},
		"ruby":   {"rake", "rails", "rack"},
		"java":   {"guava", "jackson-core", "log4j-core"},
		"gobin":  {"app", "tool", "server"},
	}
	langDirs = map[string][]string{
		"python": {"usr/local/lib/python3.11/site-packages", "opt/venv/lib/python3.11/site-packages", "srv/.venv/lib/python3.11/site-packages"},
		"nodejs": {"usr/local/lib/node_modules", "app/node_modules", "app/node_modules/express/node_modules"},
		"ruby":   {"usr/local/bundle/specifications", "var/lib/gems/3.1.0/specifications"},
		"java":   {"opt/app/lib", "usr/share/java"},
		"gobin":  {"usr/bin", "usr/local/bin", "opt/svc/bin"},
	}
	verPoolE2E = []string{"1.0.0", "1.0.1", "1.2.0", "2.0.0", "2.1.3"}
	langEcos   = []string{"python", "nodejs", "ruby", "java", "gobin", "gobin"}
)

// goBuild is the executable `name` at version `ver`. Every (name, version) has its own toolchain
// version, main module version and dependency version, so that no package identity is shared
// between two builds; shared = built with the common toolchain go1.22.1 and the common dependency
// golang.org/x/text v0.14.0 (what real images look like).
func goBuild(name, ver string, shared bool) goBinary {
	ni, vi := 0, 0
	for i, n := range langNames["gobin"] {
		if n == name {
			ni = i
		}
	}
	for i, v := range verPoolE2E {
		if v == ver {
			vi = i
		}
	}
	b := goBinary{
		GoVersion: fmt.Sprintf("go1.%d.%d", 19+ni, vi),
		MainPath:  "example.com/" + name,
		MainVer:   "v" + ver,
		Deps:      []goDep{{"example.com/" + name + "/dep", "v" + ver}},
	}
	if shared {
		b.GoVersion = "go1.22.1"
		b.Deps = append(b.Deps, goDep{"golang.org/x/text", "v0.14.0"})
	}
	return b
}

// langFile is one language package file of the history.
type langFile struct {
	Eco, Name, Version string
	Path               string // the file the scanner reports as Filepath
	Root               string // what to remove to uninstall it
}

func langPath(eco, dir, name, ver string, inPlace bool) (file, root string) {
	switch eco {
	case "python":
		root = dir + "/" + name + "-" + ver + ".dist-info"
		return root + "/METADATA", root
	case "nodejs":
		root = dir + "/" + name
		return root + "/package.json", root
	case "ruby":
		file = dir + "/" + name + "-" + ver + ".gemspec"
		return file, file
	case "gobin":
		file = dir + "/" + name
		return file, file
	default: // java
		if inPlace {
			file = dir + "/" + name + ".jar"
		} else {
			file = dir + "/" + name + "-" + ver + ".jar"
		}
		return file, file
	}
}

func langContent(eco, name, ver string) []byte {
	switch eco {
	case "gobin":
		return goElf(goBuild(name, strings.TrimSuffix(ver, "+shared"), strings.HasSuffix(ver, "+shared")))
	case "python":
		return pyMetadata(name, ver)
	case "nodejs":
		return packageJSON(name, ver)
	case "ruby":
		return gemspec(name, ver)
	default:
		return jarBytes("org.example", name, ver)
	}
}

// scenario is a generated image history.
type scenario struct {
	Tame   bool
	Ops    []string // human readable history (the replay)
	b      *builder
	layers []layerFS // b.layers plus duplicates
	// what the generator knows about file contents
	langByContent map[string]langFile // string(content)+"\x00"+path -> package
	features      map[string]bool
}

type e2eGen struct {
	rnd *hx.Rand
	sc  *scenario
	// current state
	dpkg, apk, rpm map[string]osPkg
	lang           []langFile
	nManifests     int
}

// canCreateOS: a tame history has one distribution family.
func (g *e2eGen) canCreateOS() bool {
	return !g.sc.Tame || (g.dpkg == nil && g.apk == nil && g.rpm == nil)
}

func (g *e2eGen) writeRpm() {
	var ps []osPkg
	for _, p := range g.rpm {
		ps = append(ps, p)
	}
	g.sc.b.put(rpmDBFile, rpmDBBytes(ps))
}

func contentManifest(idx int, sets []string) []byte {
	q := make([]string, len(sets))
	for i, s := range sets {
		q[i] = fmt.Sprintf("%q", s)
	}
	return []byte(fmt.Sprintf(`{"metadata":{"icm_version":1,"icm_spec":"x","image_layer_index":%d},"content_sets":[%s],"image_contents":[]}`, idx, strings.Join(q, ",")))
}

func (g *e2eGen) writeManifest() {
	all := []string{"rhel-8-for-x86_64-baseos-rpms", "rhel-8-for-x86_64-appstream-rpms", "rhocp-4.14-for-rhel-8-x86_64-rpms"}
	var sets []string
	for _, cs := range all {
		if g.rnd.Chance(1, 2) {
			sets = append(sets, cs)
		}
	}
	if len(sets) == 0 {
		sets = all[:1]
	}
	g.nManifests++
	g.sc.b.put(fmt.Sprintf("root/buildinfo/content_manifests/img%d-8.9-%d.json", g.nManifests, g.nManifests), contentManifest(len(g.sc.b.layers), sets))
	g.op("rhel: content manifest %v", sets)
}

func (g *e2eGen) op(format string, a ...any) { g.sc.Ops = append(g.sc.Ops, fmt.Sprintf(format, a...)) }

func (g *e2eGen) whiteoutsInCur() int { return len(g.sc.b.cur.whiteouts()) }

func (g *e2eGen) canRemove() bool { return !g.sc.Tame || g.whiteoutsInCur() == 0 }

func (g *e2eGen) writeDpkg() {
	var ps []osPkg
	for _, p := range g.dpkg {
		ps = append(ps, p)
	}
	g.sc.b.put(dpkgDB, dpkgStatus(ps))
	g.sc.b.mkdir("var/lib/dpkg/info")
}

func (g *e2eGen) writeApk() {
	var ps []osPkg
	for _, p := range g.apk {
		ps = append(ps, p)
	}
	g.sc.b.put(apkDB, apkInstalled(ps))
}

func (g *e2eGen) osPkg(names []string, arch string) osPkg {
	n := names[g.rnd.Intn(len(names))]
	p := osPkg{Name: n, Version: verPoolE2E[g.rnd.Intn(len(verPoolE2E))] + "-" + fmt.Sprint(1+g.rnd.Intn(3)), Arch: arch}
	// the source package is a function of the binary package (as it is for real packages)
	if len(n)%3 == 0 {
		p.Source = n + "-src"
	}
	return p
}

func sortedKeys(m map[string]osPkg) []string {
	ks := make([]string, 0, len(m))
	for k := range m {
		ks = append(ks, k)
	}
	sort.Strings(ks)
	return ks
}

func (g *e2eGen) putLang(f langFile) {
	data := langContent(f.Eco, f.Name, f.Version)
	g.sc.b.put(f.Path, data)
	g.sc.langByContent[string(data)+"\x00"+f.Path] = f
	// drop any tracked package at the same path (overwritten)
	var keep []langFile
	for _, x := range g.lang {
		if x.Path != f.Path {
			keep = append(keep, x)
		}
	}
	g.lang = append(keep, f)
}

func (g *e2eGen) dropLangUnder(root string) {
	var keep []langFile
	for _, x := range g.lang {
		if x.Path != root && !under(x.Path, root) {
			keep = append(keep, x)
		}
	}
	g.lang = keep
}

// step performs one build operation in the current layer.
func (g *e2eGen) step() {
	b := g.sc.b
	switch c := g.rnd.Intn(24) - 4; {
	case c < -2: // rpm database of a RHEL image: create / install / upgrade
		if g.rpm == nil {
			if !g.canCreateOS() {
				return
			}
			g.rpm = map[string]osPkg{}
			b.put("etc/redhat-release", []byte("Red Hat Enterprise Linux release 8.9 (Ootpa)\n"))
			for k := 2 + g.rnd.Intn(3); k > 0; k-- {
				p := g.osPkg(rpmNames, "x86_64")
				g.rpm[p.Name] = p
			}
			g.op("rpm: create database with %d packages", len(g.rpm))
			g.writeManifest()
		} else {
			p := g.osPkg(rpmNames, "x86_64")
			g.rpm[p.Name] = p
			g.op("rpm: install/upgrade %s %s", p.Name, p.Version)
			if g.rnd.Chance(1, 3) {
				g.writeManifest()
			}
		}
		g.writeRpm()
	case c < -1: // rpm erase
		if len(g.rpm) > 1 {
			ks := sortedKeys(g.rpm)
			k := ks[g.rnd.Intn(len(ks))]
			delete(g.rpm, k)
			g.op("rpm: erase %s", k)
			g.writeRpm()
		}
	case c < 0: // a layer of a RHEL-based image that only carries a content manifest
		if g.rpm != nil {
			g.writeManifest()
		}
	case c < 2: // install / refresh a dpkg database
		if g.dpkg == nil {
			if !g.canCreateOS() {
				return
			}
			g.dpkg = map[string]osPkg{}
			b.put("etc/os-release", debianOSRelease("12", "bookworm"))
			for k := 2 + g.rnd.Intn(3); k > 0; k-- {
				p := g.osPkg(dpkgNames, "amd64")
				g.dpkg[p.Name] = p
			}
			g.op("dpkg: create database with %d packages", len(g.dpkg))
		} else {
			p := g.osPkg(dpkgNames, "amd64")
			g.dpkg[p.Name] = p
			g.op("dpkg: install/upgrade %s %s", p.Name, p.Version)
		}
		g.writeDpkg()
	case c < 3: // dpkg remove
		if len(g.dpkg) > 1 {
			ks := sortedKeys(g.dpkg)
			k := ks[g.rnd.Intn(len(ks))]
			delete(g.dpkg, k)
			g.op("dpkg: remove %s", k)
			g.writeDpkg()
		}
	case c < 5: // apk
		if g.apk == nil {
			if !g.canCreateOS() {
				return
			}
			g.apk = map[string]osPkg{}
			if g.dpkg == nil {
				b.put("etc/os-release", alpineOSRelease("3.18.4"))
			}
			for k := 2 + g.rnd.Intn(3); k > 0; k-- {
				p := g.osPkg(apkNames, "x86_64")
				g.apk[p.Name] = p
			}
			g.op("apk: create database with %d packages", len(g.apk))
		} else {
			p := g.osPkg(apkNames, "x86_64")
			g.apk[p.Name] = p
			g.op("apk: add/upgrade %s %s", p.Name, p.Version)
		}
		g.writeApk()
	case c < 6: // apk del
		if len(g.apk) > 1 {
			ks := sortedKeys(g.apk)
			k := ks[g.rnd.Intn(len(ks))]
			delete(g.apk, k)
			g.op("apk: del %s", k)
			g.writeApk()
		}
	case c < 11: // language package install
		eco := langEcos[g.rnd.Intn(len(langEcos))]
		name := langNames[eco][g.rnd.Intn(len(langNames[eco]))]
		ver := verPoolE2E[g.rnd.Intn(len(verPoolE2E))]
		dir := langDirs[eco][g.rnd.Intn(len(langDirs[eco]))]
		inPlace := !g.sc.Tame && g.rnd.Chance(2, 3)
		if eco == "gobin" && !g.sc.Tame && g.rnd.Chance(1, 2) {
			// built with the common toolchain and a common dependency: package identities shared between executables
			ver += "+shared"
			g.sc.features["gobin-shared-toolchain"] = true
		}
		file, root := langPath(eco, dir, name, ver, inPlace)
		// the same name already installed in this directory?
		var old *langFile
		for i := range g.lang {
			x := g.lang[i]
			if x.Eco == eco && x.Name == name && path.Dir(x.Root) == path.Dir(root) {
				old = &x
			}
		}
		// tame: the same (name, version) is never at two paths, in the whole history
		if g.sc.Tame {
			key := eco + "/" + name + "/" + ver
			if prev, ok := g.sc.features["id:"+key]; ok && prev {
				if g.sc.features["idpath:"+key+"@"+file] == false {
					return
				}
			}
		}
		switch {
		case old != nil && old.Version == ver:
			return
		case old != nil && old.Path == file:
			// upgrade in place: the file is overwritten (package.json, unversioned jar name)
			if g.sc.Tame {
				if !g.canRemove() {
					return
				}
				b.rm(old.Root)
				g.dropLangUnder(old.Root)
				g.op("%s: remove %s %s at %s, then install %s", eco, old.Name, old.Version, old.Root, ver)
			} else {
				g.sc.features["overwrite-in-place"] = true
				g.op("%s: upgrade %s %s -> %s in place at %s", eco, name, old.Version, ver, file)
			}
		case old != nil:
			if !g.canRemove() {
				return
			}
			b.rm(old.Root)
			g.dropLangUnder(old.Root)
			g.op("%s: upgrade %s %s -> %s (old %s removed)", eco, name, old.Version, ver, old.Root)
		default:
			g.op("%s: install %s %s at %s", eco, name, ver, file)
		}
		key := eco + "/" + name + "/" + ver
		g.sc.features["id:"+key] = true
		g.sc.features["idpath:"+key+"@"+file] = true
		g.putLang(langFile{Eco: eco, Name: name, Version: ver, Path: file, Root: root})
	case c < 13: // language package removal
		if len(g.lang) > 0 && g.canRemove() {
			x := g.lang[g.rnd.Intn(len(g.lang))]
			b.rm(x.Root)
			g.dropLangUnder(x.Root)
			g.op("%s: remove %s %s (%s)", x.Eco, x.Name, x.Version, x.Root)
		}
	case c < 14: // remove a whole directory tree
		if len(g.lang) > 0 && g.canRemove() {
			x := g.lang[g.rnd.Intn(len(g.lang))]
			dir := path.Dir(x.Root)
			if g.rnd.Chance(1, 2) && path.Dir(dir) != "." {
				dir = path.Dir(dir)
			}
			if top, _, _ := strings.Cut(dir, "/"); g.rnd.Chance(1, 5) && top != "var" && top != "lib" && top != "etc" {
				dir = top // a whiteout at the root of the layer
			}
			b.rm(dir)
			g.dropLangUnder(dir)
			g.op("rm -rf %s", dir)
		}
	case c < 15: // directory removed and re-created in one step: opaque marker
		if len(g.lang) > 0 && g.canRemove() {
			x := g.lang[g.rnd.Intn(len(g.lang))]
			dir := path.Dir(x.Root)
			b.opaque(dir)
			g.dropLangUnder(dir)
			g.op("rm -rf %s && mkdir %s (opaque)", dir, dir)
		}
	case c < 17: // unrelated files (some with names that look a little like whiteouts but are not)
		p := fmt.Sprintf("srv/data/file%d.txt", g.rnd.Intn(4))
		if g.rnd.Chance(1, 8) && g.dpkg == nil && g.apk == nil && g.rpm == nil && !b.exists("etc/os-release") {
			// an image that ships a release file but no package database (FROM scratch + COPY)
			b.put("etc/os-release", debianOSRelease("12", "bookworm"))
			g.op("write etc/os-release (debian 12), no package database")
			return
		}
		if g.rnd.Chance(1, 3) {
			p = []string{"zz/notes.wh.txt", "zz/x.wh..wh..opq.bak", "zz/wh.keep", "zz/a.wh.b/readme", "zz/_.wh.", "zz/.whx"}[g.rnd.Intn(6)]
		}
		if b.exists(p) && g.rnd.Chance(1, 2) && g.canRemove() {
			b.rm(p)
			g.op("rm %s", p)
		} else {
			b.put(p, []byte(fmt.Sprintf("content %d\n", g.rnd.Intn(1000))))
			g.op("write %s", p)
		}
	case c < 20:
		g.wildStep()
	}
}

// wildStep: the shapes index_eq_flatten_partial excludes.
func (g *e2eGen) wildStep() {
	if g.sc.Tame {
		return
	}
	b := g.sc.b
	switch g.rnd.Intn(6) {
	case 5: // a python and a nodejs package with one name and version: one package id in the store
		name, ver := "ms", verPoolE2E[g.rnd.Intn(len(verPoolE2E))]
		for _, x := range g.lang {
			if x.Eco == "nodejs" || x.Eco == "python" {
				name, ver = x.Name, x.Version
			}
		}
		for _, eco := range []string{"python", "nodejs"} {
			file, root := langPath(eco, langDirs[eco][0], name, ver, false)
			if !b.exists(file) {
				g.putLang(langFile{Eco: eco, Name: name, Version: ver, Path: file, Root: root})
				g.op("%s: install %s %s at %s", eco, name, ver, file)
			}
		}
		g.sc.features["shared-id-across-ecosystems"] = true
	case 0: // the package database directory is deleted (image slimming)
		if g.apk != nil && g.rnd.Chance(1, 2) {
			b.rm("lib/apk")
			g.apk = nil
			g.sc.features["os-db-removed"] = true
			g.op("rm -rf lib/apk")
		} else if g.dpkg != nil {
			b.rm("var/lib/dpkg")
			g.dpkg = nil
			g.sc.features["os-db-removed"] = true
			g.op("rm -rf var/lib/dpkg")
		}
	case 1: // every package removed: the database is still there but lists nothing
		if len(g.apk) > 0 {
			g.apk = map[string]osPkg{}
			g.writeApk()
			g.sc.features["os-db-emptied"] = true
			g.op("apk: del everything")
		}
	case 2: // the same package (name, version) at a second path
		if len(g.lang) > 0 {
			x := g.lang[g.rnd.Intn(len(g.lang))]
			for _, dir := range langDirs[x.Eco] {
				file, root := langPath(x.Eco, dir, x.Name, x.Version, false)
				if !b.exists(file) {
					g.putLang(langFile{Eco: x.Eco, Name: x.Name, Version: x.Version, Path: file, Root: root})
					g.sc.features["same-package-two-paths"] = true
					g.op("%s: install %s %s a second time at %s", x.Eco, x.Name, x.Version, file)
					break
				}
			}
		}
	case 3: // pip into the distribution's directory, in a layer that does not touch the dpkg database
		if g.dpkg != nil {
			if _, touched := b.cur[dpkgDB]; !touched {
				name := langNames["python"][g.rnd.Intn(4)]
				ver := verPoolE2E[g.rnd.Intn(len(verPoolE2E))]
				file, root := langPath("python", "usr/lib/python3/dist-packages", name, ver, false)
				g.putLang(langFile{Eco: "python", Name: name, Version: ver, Path: file, Root: root})
				g.sc.features["python-distro-dir"] = true
				g.op("python: install %s %s into usr/lib/python3/dist-packages", name, ver)
			}
		}
	case 4: // two removals in one layer (when possible the second next to the first)
		var firstDir string
		for k := 0; k < 2 && len(g.lang) > 0; k++ {
			x := g.lang[g.rnd.Intn(len(g.lang))]
			if k == 0 {
				firstDir = path.Dir(x.Root)
			} else {
				for _, y := range g.lang {
					if path.Dir(y.Root) == firstDir {
						x = y
					}
				}
			}
			b.rm(x.Root)
			g.dropLangUnder(x.Root)
			g.op("%s: remove %s %s (%s)", x.Eco, x.Name, x.Version, x.Root)
		}
	}
}

func genScenario(rnd *hx.Rand, tame bool, maxLayers int) *scenario {
	sc := &scenario{Tame: tame, b: newBuilder(), langByContent: map[string]langFile{}, features: map[string]bool{}}
	g := &e2eGen{rnd: rnd, sc: sc}
	n := 1 + rnd.Intn(maxLayers)
	for i := 0; i < n; i++ {
		g.op("--- layer %d", i)
		switch {
		case rnd.Chance(1, 10): // empty layer
		default:
			for k := 1 + rnd.Intn(3); k > 0; k-- {
				g.step()
			}
		}
		sc.b.commit()
	}
	sc.layers = append([]layerFS(nil), sc.b.layers...)
	// duplicate layers: an earlier layer applied again
	if rnd.Chance(1, 6) && len(sc.layers) > 1 {
		k := rnd.Intn(len(sc.layers))
		at := k + 1 + rnd.Intn(len(sc.layers)-k)
		dup := sc.layers[k]
		// tame, half of the time: a duplicated layer carries no whiteouts and re-creates no package file
		// (Tame allows any duplicate that overwrites no package file of the layers in between)
		ok := true
		if tame && rnd.Chance(1, 2) {
			if len(dup.whiteouts()) > 0 {
				ok = false
			}
			for p := range dup.files() {
				if _, isLang := sc.langByContent[string(dup[p].Data)+"\x00"+p]; isLang {
					ok = false
				}
				if p == dpkgDB || p == apkDB || p == rpmDBFile {
					ok = false
				}
			}
		}
		if ok {
			rest := append([]layerFS{dup}, sc.layers[at:]...)
			sc.layers = append(sc.layers[:at:at], rest...)
			sc.Ops = append(sc.Ops, fmt.Sprintf("--- layer %d applied again at position %d", k, at))
			sc.features["duplicate-layer"] = true
		}
	}
	return sc
}

// ---- the oracle ----

type artifactView struct {
	layer int
	pkg   *claircore.Package
}

// layerArtifacts reads back, per manifest layer, what the real package scanners stored.
func layerArtifacts(res indexResult, digests []string) [][]*claircore.Package {
	ctx := context.Background()
	ps, _, _, _, _ := indexer.EcosystemsToScanners(ctx, ecosystems(ctx))
	var vs indexer.VersionedScanners
	vs.PStoVS(ps)
	out := make([][]*claircore.Package, len(digests))
	for i, d := range digests {
		out[i], _ = res.Store.PackagesByLayer(ctx, claircore.MustParseDigest(d), vs)
	}
	return out
}

func identityOf(t string) string {
	f := strings.Split(t, "|")
	return strings.Join(f[:5], "|")
}

func dbOf(t string) string {
	f := strings.Split(t, "|")
	return f[5]
}

func diffTuples(a, b []string) (onlyA, onlyB []string) {
	sa, sb := map[string]bool{}, map[string]bool{}
	for _, x := range a {
		sa[x] = true
	}
	for _, x := range b {
		sb[x] = true
	}
	for _, x := range a {
		if !sb[x] {
			onlyA = append(onlyA, x)
		}
	}
	for _, x := range b {
		if !sa[x] {
			onlyB = append(onlyB, x)
		}
	}
	return
}

// covers: the whiteout entry w (a path in a layer) hides path p of lower layers.
func covers(w, p string) bool {
	dir, base := path.Dir(w), path.Base(w)
	if base == opqName {
		return dir == "." || under(p, dir)
	}
	t := path.Join(dir, base[len(whPrefix):])
	return p == t || under(p, t)
}

// runScenario evaluates the property on one history. It returns the classes
// of the differences ("" = unclassified) and a witness.
func runScenario(r *hx.Run, sc *scenario) (out *scenarioRun) {
	flat := flatten(sc.layers)
	var tars [][]byte
	var digests []string
	for _, l := range sc.layers {
		t := l.tarBytes()
		tars = append(tars, t)
		digests = append(digests, digestOfBytes(t))
	}
	witness := func(msg string) string {
		j, _ := json.Marshal(sc.Ops)
		return msg + " history=" + string(j)
	}
	var idx, fl indexResult
	o := hx.Guard(func() string {
		idx = realIndex(tars)
		fl = realIndex([][]byte{flat.tarBytes()})
		return "ok"
	})
	if o == "panic" {
		r.Fail("", witness("indexing panics"))
		return
	}
	if idx.Err != nil || fl.Err != nil || !idx.Report.Success || !fl.Report.Success {
		r.Fail("", witness(fmt.Sprintf("indexing failed: layered err=%v flat err=%v", idx.Err, fl.Err)))
		return
	}
	// left: the finished report of the layered image; right: what the same scanners find on the
	// single flattened file system (the scan artifacts of the one-layer image, before any coalescing)
	flatDigest := digestOfBytes(flat.tarBytes())
	flatPkgs := layerArtifacts(fl, []string{flatDigest})[0]
	wantSet := map[string]bool{}
	for _, p := range flatPkgs {
		wantSet[pkgTuple(p, p.PackageDB)] = true
	}
	var want []string
	for t := range wantSet {
		want = append(want, t)
	}
	sort.Strings(want)
	got := reportTuples(idx.Report)
	extra, missing := diffTuples(got, want)
	nontrivial := len(sc.layers) > 1 && len(want) > 0
	r.Case("e2e "+strings.Join(digests, ","), nontrivial)
	r.Count(fmt.Sprintf("e2e:layers:%d", len(sc.layers)))
	r.Count(fmt.Sprintf("e2e:final-packages:%d", bucket(len(want))))
	for f := range sc.features {
		if !strings.HasPrefix(f, "id") {
			r.Count("e2e:feature:" + f)
		}
	}
	if n := maxWhiteouts(sc.layers); n > 0 {
		r.Count(fmt.Sprintf("e2e:max-whiteouts-per-layer:%d", bucket(n)))
	}
	checkE2EWellformed(r, sc, idx, digests, witness)
	checkWhiteoutScan(r, sc, idx, digests, witness)
	sensitive := opIndexFromStore(r, idx, digests)
	out = &scenarioRun{tars: tars, canon: canonReport(idx.Report), sensitive: sensitive, ops: sc.Ops}
	checkDeployment(r, tars, idx, out, witness)
	opFlat(r, sc.layers, flat)
	// inside the hypothesis Tame of index_eq_flatten_partial (evaluated on the abstraction of this
	// history) nothing is excused
	em := opE2EModel(r, sc, idx, fl, digests, flat)
	strict := em.Tame
	checkDists(r, sc, idx, fl, em, witness)
	if len(extra) == 0 && len(missing) == 0 {
		if strict {
			r.Count("e2e:Tame:equal")
		} else {
			r.Count("e2e:not-Tame:equal")
		}
		return
	}
	arts := layerArtifacts(idx, digests)
	finalFiles := flat.files()
	classes := map[string]string{}
	unexplained := []string{}
	// package identities that scanners of two different file ecosystems found (one package id in the store)
	schemes := map[string]map[string]bool{}
	noteScheme := func(p *claircore.Package) {
		if p.Filepath == "" {
			return
		}
		sch, _, _ := strings.Cut(p.PackageDB, ":")
		id := identityOf(pkgTuple(p, p.PackageDB))
		if schemes[id] == nil {
			schemes[id] = map[string]bool{}
		}
		schemes[id][sch] = true
	}
	for i := range arts {
		for _, p := range arts[i] {
			noteScheme(p)
		}
	}
	for _, p := range flatPkgs {
		noteScheme(p)
	}
	crossEco := func(t string) bool { return len(schemes[identityOf(t)]) > 1 }
	for _, t := range extra {
		cls := ""
		db := dbOf(t)
		switch {
		case crossEco(t):
			cls = "lang-shared-id-across-ecosystems"
		case osDBFile[db] != "":
			// the database is gone from the final image, or lists nothing any more
			stillListed := false
			for _, w := range want {
				if dbOf(w) == db {
					stillListed = true
				}
			}
			if _, ok := finalFiles[osDBFile[db]]; !ok {
				cls = "os-db-removed"
			} else if !stillListed {
				cls = "os-db-emptied"
			}
		default:
			// the newest layer whose artifacts hold the tuple, and the file it came from
			li, fp := -1, ""
			for i := range arts {
				for _, p := range arts[i] {
					if pkgTuple(p, p.PackageDB) == t {
						li, fp = i, p.Filepath
					}
				}
			}
			if li < 0 {
				break
			}
			if _, ok := finalFiles[fp]; ok {
				other := false
				for _, q := range flatPkgs {
					if q.Filepath == fp {
						other = true
					}
				}
				switch {
				case other && strings.HasPrefix(db, "go:"):
					// the executable was rebuilt in place: the old build's packages stay reported
					cls = "gobin-overwrite-in-place"
				case other:
					// the file is still there but holds another package now
					cls = "lang-overwrite-in-place"
				case strings.HasPrefix(fp, "usr/lib/python3/dist-packages/"):
					// the file is still there, but on the whole image the python scanner skips the
					// distribution's directory: which package databases it sees differs from the layer's
					if pyCtx(flat) != pyCtx(sc.layers[li]) {
						cls = "python-distro-dir-context"
					}
				}
				break
			}
			// deleted by a whiteout of a later layer that carries more than one whiteout
			for j := li + 1; j < len(sc.layers); j++ {
				ws := sc.layers[j].whiteouts()
				for _, w := range ws {
					if covers(w, fp) && len(ws) > 1 {
						cls = "whiteout-one-per-layer"
					}
				}
			}
		}
		if cls == "" {
			unexplained = append(unexplained, "reported but not in the final image: "+t)
		} else if _, ok := classes[cls]; !ok {
			classes[cls] = t
		}
	}
	for _, t := range missing {
		// the same package identity is (or was) installed at two paths: one environment per id survives
		n := 0
		for _, w := range want {
			if identityOf(w) == identityOf(t) {
				n++
			}
		}
		twoPaths := n > 1
		for i := range arts {
			for _, p := range arts[i] {
				if identityOf(pkgTuple(p, p.PackageDB)) == identityOf(t) && p.PackageDB != dbOf(t) {
					twoPaths = true
				}
			}
		}
		// the python scanner skipped the distribution's directory in the layer that wrote the file,
		// because that layer also carries the dpkg database; the final image has no dpkg database
		distroCtx := false
		for _, q := range flatPkgs {
			if pkgTuple(q, q.PackageDB) != t || !strings.HasPrefix(q.Filepath, "usr/lib/python3/") {
				continue
			}
			for j := len(sc.layers) - 1; j >= 0; j-- {
				if e, ok := sc.layers[j][q.Filepath]; ok && !e.Dir {
					if pyCtx(sc.layers[j]) != pyCtx(flat) {
						distroCtx = true
					}
					break
				}
			}
		}
		if crossEco(t) {
			if _, ok := classes["lang-shared-id-across-ecosystems"]; !ok {
				classes["lang-shared-id-across-ecosystems"] = t
			}
		} else if distroCtx {
			if _, ok := classes["python-distro-dir-context"]; !ok {
				classes["python-distro-dir-context"] = t
			}
		} else if twoPaths && strings.HasPrefix(dbOf(t), "go:") {
			if _, ok := classes["gobin-shared-package"]; !ok {
				classes["gobin-shared-package"] = t
			}
		} else if twoPaths && osDBFile[dbOf(t)] == "" {
			if _, ok := classes["lang-same-package-two-paths"]; !ok {
				classes["lang-same-package-two-paths"] = t
			}
		} else {
			unexplained = append(unexplained, "in the final image but not reported: "+t)
		}
	}
	if strict {
		// nothing is excused inside the hypothesis of the theorem
		for c, t := range classes {
			unexplained = append(unexplained, "history inside the hypothesis Tame shows "+c+": "+t)
		}
		classes = map[string]string{}
	}
	for c, t := range classes {
		r.Fail(c, witness("index != flatten: "+t))
		r.Count("e2e:finding:" + c)
	}
	if len(unexplained) > 0 {
		r.Fail("", witness("index != flatten: "+strings.Join(unexplained, "; ")))
	}
	return out
}

// checkDists: the distribution side of the statement. When every OS ecosystem's distribution
// scanner sees one and the same distribution wherever its file exists (and the file is never
// hidden), each reported package is tagged with exactly the distributions it is tagged with when
// the flattened image is indexed (theorem index_dist_eq_flatten_partial).
func checkDists(r *hx.Run, sc *scenario, idx, fl indexResult, em e2eModel, witness func(string) string) {
	if !em.DistStable {
		r.Count("e2e:dist:changes-between-layers(not compared)")
		return
	}
	view := func(ir *claircore.IndexReport) map[string]string {
		m := map[string]map[string]bool{}
		for id, p := range ir.Packages {
			for _, e := range ir.Environments[id] {
				if osDBFile[e.PackageDB] == "" {
					continue
				}
				t := pkgTuple(p, e.PackageDB)
				if m[t] == nil {
					m[t] = map[string]bool{}
				}
				m[t][distName(ir.Distributions[e.DistributionID])] = true
			}
		}
		out := map[string]string{}
		for t, ds := range m {
			var xs []string
			for d := range ds {
				xs = append(xs, d)
			}
			sort.Strings(xs)
			out[t] = strings.Join(xs, "+")
		}
		return out
	}
	// the distributions themselves
	names := func(ir *claircore.IndexReport) string {
		var xs []string
		for _, d := range ir.Distributions {
			xs = append(xs, distName(d))
		}
		return strings.Join(sortDedup(xs), ",")
	}
	if x, y := names(idx.Report), names(fl.Report); x != y {
		r.Fail("", witness(fmt.Sprintf("distributions of the report: layered index has {%s}, index of the flattened image has {%s}", x, y)))
		return
	} else if x != "" {
		r.Count("e2e:dist:report-distributions-compared")
	}
	a, b := view(idx.Report), view(fl.Report)
	n := 0
	for t, da := range a {
		db, ok := b[t]
		if !ok {
			continue
		}
		n++
		if da != db {
			r.Fail("", witness(fmt.Sprintf("distribution of %s: layered index says %s, index of the flattened image says %s", t, da, db)))
			return
		}
	}
	if n > 0 {
		r.Count("e2e:dist:compared")
	}
}

// pyCtx: what decides whether the python scanner skips usr/lib*/python[23]* in a file system —
// an rpm database (pattern usr/lib*/python[23].*) takes precedence over a dpkg database
// (pattern usr/lib*/python[23]).
func pyCtx(l layerFS) string {
	if e, ok := l[rpmDBFile]; ok && !e.Dir {
		return "rpm"
	}
	if e, ok := l[dpkgDB]; ok && !e.Dir {
		return "dpkg"
	}
	return ""
}

// scenarioRun is what later checks need of one indexed scenario.
type scenarioRun struct {
	tars      [][]byte
	canon     string // canonical text of the finished report
	sensitive bool   // the report depends on the coalescers' completion order (finding lang-shared-id-across-ecosystems)
	ops       []string
}

// canonReport renders a report with the full layer digests (the short layer names of the protocol lines
// belong to one scenario; two scenarios may share a layer).
func canonReport(ir *claircore.IndexReport) string {
	saved := digestNames
	digestNames = map[string]string{}
	defer func() { digestNames = saved }()
	return renderReport(ir, false, true) + " " + renderRecords(ir)
}

// checkDeployment: the manifest was indexed through the long-lived Ecosystem values every manifest of this
// run goes through (as a deployment does).
//
// (1) history independence: a fresh set of Ecosystem values gives the same finished report — a coalescer or
// scanner that keeps state between manifests shows up here (and in the flattened-image oracle) from the
// second manifest on;
// (2) store read faults: with one PackagesByLayer / DistributionsByLayer / RepositoriesByLayer / FilesByLayer
// call of the coalesce state failing, Index either fails or finishes with the same report; a success with
// another report (a tolerated fault: e.g. the whiteouts of one layer silently missing) is the violation.
func checkDeployment(r *hx.Run, tars [][]byte, idx indexResult, run *scenarioRun, witness func(string) string) {
	if run.sensitive {
		r.Count("e2e:deployment:skipped(report depends on goroutine order)")
		return
	}
	var fresh indexResult
	if o := hx.Guard(func() string { fresh = realIndexWith(tars, indexOpt{Fresh: true, FaultAt: -1}); return "ok" }); o == "panic" || fresh.Err != nil || fresh.Report == nil {
		r.Fail("", witness(fmt.Sprintf("indexing with fresh Ecosystem values fails: %v", fresh.Err)))
		return
	}
	r.Count("e2e:deployment:compared-with-fresh-ecosystems")
	if c := canonReport(fresh.Report); c != run.canon {
		r.Fail("", witness(fmt.Sprintf("history dependence: manifest number %d indexed through the long-lived Ecosystem values gives %s; fresh Ecosystem values give %s;", manifestsIndexed, run.canon, c)))
		return
	}
	manifestsIndexed++
	reads := idx.Store.readLog
	if len(reads) == 0 {
		return
	}
	h := 0
	for _, t := range tars {
		h = h*31 + len(t)
	}
	if h < 0 {
		h = -h
	}
	pick := map[int]bool{h % len(reads): true}
	var nonEmpty, files []int
	for i, rd := range reads {
		if rd.NonEmpty {
			nonEmpty = append(nonEmpty, i)
			if rd.Method == "FilesByLayer" {
				files = append(files, i)
			}
		}
	}
	if len(nonEmpty) > 0 {
		pick[nonEmpty[h%len(nonEmpty)]] = true
	}
	if len(files) > 0 {
		pick[files[h%len(files)]] = true
	}
	var ks []int
	for k := range pick {
		ks = append(ks, k)
	}
	sort.Ints(ks)
	for _, k := range ks {
		var res indexResult
		o := hx.Guard(func() string { res = realIndexWith(tars, indexOpt{FaultAt: k}); return "ok" })
		rd := reads[k]
		what := fmt.Sprintf("store read %d of the coalesce state (%s for layer %s, non-empty=%v) fails", k, rd.Method, rd.Layer, rd.NonEmpty)
		switch {
		case o == "panic":
			r.Fail("", witness(what+": Index panics"))
		case res.Err != nil || res.Report == nil || !res.Report.Success:
			r.Count("e2e:fault:" + rd.Method + ":index-fails")
		case canonReport(res.Report) == run.canon:
			r.Count("e2e:fault:" + rd.Method + ":same-report")
		default:
			r.Fail("", witness(what+fmt.Sprintf(", yet Index succeeds with another report: %s instead of %s;", canonReport(res.Report), run.canon)))
		}
	}
}

// manifestsIndexed counts the manifests that went through the long-lived ecosystems.
var manifestsIndexed int

// checkConcurrent: two manifests indexed at the same time through the long-lived Ecosystem values give the
// reports they give one after the other.
func checkConcurrent(r *hx.Run, a, b *scenarioRun) {
	if a == nil || b == nil || a.sensitive || b.sensitive {
		return
	}
	var ra, rb indexResult
	var pa, pb any
	done := make(chan struct{}, 2)
	go func() {
		defer func() { pa = recover(); done <- struct{}{} }()
		ra = realIndex(a.tars)
	}()
	go func() {
		defer func() { pb = recover(); done <- struct{}{} }()
		rb = realIndex(b.tars)
	}()
	<-done
	<-done
	r.Count("e2e:deployment:two-manifests-concurrently")
	for _, x := range []struct {
		run *scenarioRun
		res indexResult
		p   any
	}{{a, ra, pa}, {b, rb, pb}} {
		j, _ := json.Marshal(x.run.ops)
		switch {
		case x.p != nil || x.res.Err != nil || x.res.Report == nil:
			r.Fail("", fmt.Sprintf("two manifests indexed concurrently through one set of Ecosystem values: Index fails (%v %v) history=%s", x.p, x.res.Err, j))
		case canonReport(x.res.Report) != x.run.canon:
			r.Fail("", fmt.Sprintf("two manifests indexed concurrently through one set of Ecosystem values: report %s, alone it is %s; history=%s", canonReport(x.res.Report), x.run.canon, j))
		}
	}
}

func bucket(n int) int {
	switch {
	case n <= 2:
		return n
	case n <= 5:
		return 5
	case n <= 10:
		return 10
	}
	return 20
}

func maxWhiteouts(ls []layerFS) int {
	m := 0
	for _, l := range ls {
		if n := len(l.whiteouts()); n > m {
			m = n
		}
	}
	return m
}

// checkWhiteoutScan: whiteout/scanner.go on every layer — the files it stored are exactly the layer's
// entries whose base name starts with ".wh." (model: `whiteoutsOf`), all of kind whiteout.
func checkWhiteoutScan(r *hx.Run, sc *scenario, idx indexResult, digests []string, witness func(string) string) {
	ctx := context.Background()
	ecos := ecosystems(ctx)
	fscn, _ := ecos[len(ecos)-1].FileScanners(ctx)
	var vs indexer.VersionedScanners
	vs.FStoVS(fscn)
	for i, d := range digests {
		fi, _ := idx.Store.FilesByLayer(ctx, claircore.MustParseDigest(d), vs)
		var got []string
		for _, f := range fi {
			got = append(got, f.Path)
			if f.Kind != claircore.FileKindWhiteout {
				r.Fail("", witness(fmt.Sprintf("whiteout scanner: layer %d: file %s has kind %q", i, f.Path, f.Kind)))
			}
		}
		sort.Strings(got)
		want := sc.layers[i].whiteouts()
		if strings.Join(got, "\n") != strings.Join(want, "\n") {
			r.Fail("", witness(fmt.Sprintf("whiteout scanner: layer %d holds the whiteout entries %q, the scanner stored %q", i, want, got)))
		}
		if len(want) > 0 {
			r.Count("e2e:whiteout-scan:layer-with-whiteouts")
		}
	}
}

// checkE2EWellformed: second sentence of the property on the finished report
// of the real controller.
func checkE2EWellformed(r *hx.Run, sc *scenario, idx indexResult, digests []string, witness func(string) string) {
	ir := idx.Report
	arts := layerArtifacts(idx, digests)
	for id, p := range ir.Packages {
		es := ir.Environments[id]
		if len(es) == 0 {
			r.Fail("", witness("package "+p.Name+" has no environment"))
		}
		for _, e := range es {
			found := false
			for i, d := range digests {
				if d != e.IntroducedIn.String() {
					continue
				}
				for _, q := range arts[i] {
					if q.Name == p.Name && q.Version == p.Version && q.PackageDB == e.PackageDB {
						found = true
					}
				}
			}
			if !found {
				r.Fail("", witness(fmt.Sprintf("package %s %s: introduced_in %s is not a manifest layer holding it in %s", p.Name, p.Version, e.IntroducedIn, e.PackageDB)))
			}
			if e.DistributionID != "" {
				if _, ok := ir.Distributions[e.DistributionID]; !ok {
					r.Fail("", witness("distribution id does not resolve: "+e.DistributionID))
				}
			}
			for _, rid := range e.RepositoryIDs {
				if _, ok := ir.Repositories[rid]; !ok {
					r.Fail("", witness("repository id does not resolve: "+rid))
				}
			}
		}
	}
	for id := range ir.Environments {
		if _, ok := ir.Packages[id]; !ok {
			r.Fail("", witness("environments for unreported package id "+id))
		}
	}
}

// opIndexFromStore: the artifacts the real scanners produced, packed per
// ecosystem as controller.coalesce packs them, as an `idx` protocol line; the
// answer is the report the real controller finished with.
func opIndexFromStore(r *hx.Run, idx indexResult, digests []string) (sensitive bool) {
	ctx := context.Background()
	short := map[string]string{}
	var layers []string
	for i, d := range digests {
		if _, ok := short[d]; !ok {
			short[d] = fmt.Sprintf("L%d", i)
		}
		layers = append(layers, short[d])
		digestNames[d] = short[d]
	}
	kindOf := ecoKinds
	var parts []string
	var allArts [][]mLayer
	for ei, e := range ecosystems(ctx) {
		ps, _ := e.PackageScanners(ctx)
		ds, _ := e.DistributionScanners(ctx)
		rs, _ := e.RepositoryScanners(ctx)
		var fscn []indexer.FileScanner
		if e.FileScanners != nil {
			fscn, _ = e.FileScanners(ctx)
		}
		var arts []mLayer
		for _, d := range digests {
			h := claircore.MustParseDigest(d)
			l := mLayer{Hash: short[d]}
			var vs indexer.VersionedScanners
			vs.PStoVS(ps)
			pk, _ := idx.Store.PackagesByLayer(ctx, h, vs)
			for _, p := range pk {
				l.Pkgs = append(l.Pkgs, mPkg{ID: p.ID, Name: p.Name, Version: p.Version, Kind: p.Kind, Arch: p.Arch, Src: srcName(p), DB: p.PackageDB, FP: p.Filepath})
			}
			rp, _ := idx.Store.RepositoriesByLayer(ctx, h, vs)
			vs.DStoVS(ds)
			di, _ := idx.Store.DistributionsByLayer(ctx, h, vs)
			for _, x := range di {
				l.Dists = append(l.Dists, x.ID)
			}
			vs.RStoVS(rs)
			rp2, _ := idx.Store.RepositoriesByLayer(ctx, h, vs)
			for _, x := range append(rp, rp2...) {
				l.Repos = append(l.Repos, mRepo{ID: x.ID, Name: x.Name, Key: x.Key, URI: x.URI})
			}
			vs.FStoVS(fscn)
			fi, _ := idx.Store.FilesByLayer(ctx, h, vs)
			for _, x := range fi {
				l.Files = append(l.Files, mFile{Path: x.Path, Kind: string(x.Kind)})
			}
			arts = append(arts, l)
		}
		parts = append(parts, kindOf[ei]+"="+encArts(arts))
		allArts = append(allArts, arts)
	}
	if orderSensitive(allArts) {
		// one package id with different Package values in two ecosystems: the finished report depends on
		// which coalescer goroutine finished last (finding lang-shared-id-across-ecosystems); the pure
		// layer compares MergeSR in every order instead
		r.Count("idx:from-real-scanners:skipped(report depends on goroutine order)")
		return true
	}
	op := "idx " + strings.Join(layers, ",") + " " + strings.Join(parts, " ")
	if strings.ContainsAny(strings.Join(parts, ""), " \t") {
		return false
	}
	r.Op(op, renderReport(idx.Report, false, true)+" "+renderRecords(idx.Report), len(digests) > 1)
	r.Count("idx:from-real-scanners")
	return false
}

// orderSensitive: some package id occurs in the artifacts of two ecosystems with different
// Package values (what MergeSR's `source.Packages[k] = v` makes order dependent).
func orderSensitive(ecos [][]mLayer) bool {
	seen := map[string]map[int]string{} // id -> ecosystem -> rendering
	for ei, arts := range ecos {
		for _, l := range arts {
			for _, p := range l.Pkgs {
				v := strings.Join([]string{p.Name, p.Version, p.Kind, p.Arch, p.Src, p.FP}, "~")
				if seen[p.ID] == nil {
					seen[p.ID] = map[int]string{}
				}
				if old, ok := seen[p.ID][ei]; ok && old != v {
					v = old + "|" + v
				}
				seen[p.ID][ei] = v
			}
		}
	}
	for _, m := range seen {
		var first string
		n := 0
		for _, v := range m {
			if n > 0 && v != first {
				return true
			}
			first = v
			n++
		}
	}
	return false
}

// opFlat: Go's flatten against Model/LayerFS.lean's flatten.
func opFlat(r *hx.Run, layers []layerFS, flat layerFS) {
	ids := map[string]int{}
	cid := func(b []byte) string {
		k := string(b)
		if _, ok := ids[k]; !ok {
			ids[k] = len(ids) + 1
		}
		return fmt.Sprintf("c%d", ids[k])
	}
	enc := func(l layerFS, filesOnly bool) string {
		var es []string
		for _, p := range l.sortedPaths() {
			e := l[p]
			if e.Dir {
				if !filesOnly {
					es = append(es, p+":d")
				}
			} else {
				es = append(es, p+":"+cid(e.Data))
			}
		}
		if len(es) == 0 {
			return "-"
		}
		return strings.Join(es, ",")
	}
	var ls []string
	for _, l := range layers {
		ls = append(ls, enc(l, false))
	}
	var buf bytes.Buffer
	buf.WriteString("flat ")
	buf.WriteString(strings.Join(ls, "|"))
	r.Op(buf.String(), enc(flat, true), len(layers) > 1)
	r.Count("flat")
}

func runE2E(r *hx.Run, cfg hx.Config, rnd *hx.Rand) {
	ws := witnessScenarios()
	var names []string
	for k := range ws {
		names = append(names, k)
	}
	sort.Strings(names)
	for _, k := range names {
		runScenario(r, ws[k])
	}
	n := cfg.N(500, 20000)
	var prev *scenarioRun
	for i := 0; i < n && !r.Stop(); i++ {
		tame := i%3 != 2
		sc := genScenario(rnd.Fork(), tame, 8)
		cur := runScenario(r, sc)
		if i%5 == 4 && !r.Stop() {
			checkConcurrent(r, prev, cur)
		}
		prev = cur
	}
}
