package c01

// goelf.go: a small ELF64 executable with a .go.buildinfo section in the
// inline-strings format — what debug/buildinfo (and so the REAL gobin
// scanner) reads out of a Go binary: toolchain version, main module,
// dependencies. (Same layout as go/internal/c06's generator.)

import (
	"encoding/binary"
	"fmt"
	"strings"
)

type goDep struct{ Path, Version string }

// goBinary describes one Go executable of a generated history.
type goBinary struct {
	GoVersion string // e.g. "go1.21.3"
	MainPath  string // main module path
	MainVer   string // "(devel)" or a version
	Deps      []goDep
}

func goElf(b goBinary) []byte {
	le := binary.LittleEndian
	var mod strings.Builder
	fmt.Fprintf(&mod, "path\t%s/cmd/x\n", b.MainPath)
	fmt.Fprintf(&mod, "mod\t%s\t%s\t\n", b.MainPath, b.MainVer)
	for _, d := range b.Deps {
		fmt.Fprintf(&mod, "dep\t%s\t%s\th1:abcdefghijklmnopqrstuvwxyzABCDEFGHIJKLMNOPQR=\n", d.Path, d.Version)
	}
	mod.WriteString("build\t-compiler=gc\nbuild\tCGO_ENABLED=0\n")
	sent := "0123456789abcdef"
	modinfo := sent + mod.String() + sent
	var bi []byte
	bi = append(bi, "\xff Go buildinf:"...)
	bi = append(bi, 8, 2)
	bi = append(bi, make([]byte, 16)...)
	bi = binary.AppendUvarint(bi, uint64(len(b.GoVersion)))
	bi = append(bi, b.GoVersion...)
	bi = binary.AppendUvarint(bi, uint64(len(modinfo)))
	bi = append(bi, modinfo...)
	for len(bi)%16 != 0 {
		bi = append(bi, 0)
	}
	const (
		vbase  = 0x400000
		biOff  = 128
		ehSize = 64
		phSize = 56
		shSize = 64
	)
	shstr := []byte("\x00.go.buildinfo\x00.shstrtab\x00")
	strOff := biOff + len(bi)
	shOff := (strOff + len(shstr) + 15) &^ 15
	out := make([]byte, shOff+3*shSize)
	copy(out, "\x7fELF\x02\x01\x01")
	le.PutUint16(out[0x10:], 2) // ET_EXEC
	le.PutUint16(out[0x12:], 0x3e)
	le.PutUint32(out[0x14:], 1)
	le.PutUint64(out[0x18:], vbase+biOff)
	le.PutUint64(out[0x20:], ehSize)
	le.PutUint64(out[0x28:], uint64(shOff))
	le.PutUint16(out[0x34:], ehSize)
	le.PutUint16(out[0x36:], phSize)
	le.PutUint16(out[0x38:], 1)
	le.PutUint16(out[0x3a:], shSize)
	le.PutUint16(out[0x3c:], 3)
	le.PutUint16(out[0x3e:], 2)
	ph := out[ehSize:]
	le.PutUint32(ph[0:], 1) // PT_LOAD
	le.PutUint32(ph[4:], 6) // RW
	le.PutUint64(ph[8:], 0)
	le.PutUint64(ph[16:], vbase)
	le.PutUint64(ph[24:], vbase)
	le.PutUint64(ph[32:], uint64(strOff))
	le.PutUint64(ph[40:], uint64(strOff))
	le.PutUint64(ph[48:], 0x1000)
	copy(out[biOff:], bi)
	copy(out[strOff:], shstr)
	sh := out[shOff+shSize:]
	le.PutUint32(sh[0:], 1) // name
	le.PutUint32(sh[4:], 1) // PROGBITS
	le.PutUint64(sh[8:], 3) // WRITE|ALLOC
	le.PutUint64(sh[16:], vbase+biOff)
	le.PutUint64(sh[24:], biOff)
	le.PutUint64(sh[32:], uint64(len(bi)))
	le.PutUint64(sh[48:], 16)
	sh = out[shOff+2*shSize:]
	le.PutUint32(sh[0:], 15)
	le.PutUint32(sh[4:], 3) // STRTAB
	le.PutUint64(sh[24:], uint64(strOff))
	le.PutUint64(sh[32:], uint64(len(shstr)))
	le.PutUint64(sh[48:], 1)
	return out
}
