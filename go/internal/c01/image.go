package c01

// image.go: layered file systems for the end-to-end oracle — a builder that
// records per-layer changes (files, whiteouts, opaque markers) the way a
// container build does, tar materialisation, and `flatten`, the executable
// statement of the OCI layer semantics (the same definition as
// Model/LayerFS.lean; the two are compared on every generated stack).

import (
	"archive/tar"
	"bytes"
	"crypto/sha256"
	"fmt"
	"path"
	"sort"
	"strings"
)

const (
	whPrefix = ".wh."
	opqName  = ".wh..wh..opq"
)

// fsEntry is a regular file (Dir false) or a directory.
type fsEntry struct {
	Dir  bool
	Data []byte
}

// layerFS is the content of one layer (or of a flattened image): clean
// relative paths without a leading slash. Whiteouts are empty regular files
// named .wh.<name> / .wh..wh..opq.
type layerFS map[string]fsEntry

func isWhiteoutPath(p string) bool { return strings.HasPrefix(path.Base(p), whPrefix) }

func under(p, dir string) bool { return strings.HasPrefix(p, dir+"/") }

// addParents makes every ancestor directory an explicit entry.
func (l layerFS) addParents() {
	for p := range l {
		for d := path.Dir(p); d != "." && d != "/"; d = path.Dir(d) {
			if _, ok := l[d]; !ok {
				l[d] = fsEntry{Dir: true}
			}
		}
	}
}

func (l layerFS) sortedPaths() []string {
	ps := make([]string, 0, len(l))
	for p := range l {
		ps = append(ps, p)
	}
	sort.Strings(ps)
	return ps
}

func (l layerFS) whiteouts() []string {
	var out []string
	for _, p := range l.sortedPaths() {
		if isWhiteoutPath(p) {
			out = append(out, p)
		}
	}
	return out
}

// tarBytes writes the layer as an uncompressed tar (parents before children).
func (l layerFS) tarBytes() []byte {
	var buf bytes.Buffer
	tw := tar.NewWriter(&buf)
	for _, p := range l.sortedPaths() {
		e := l[p]
		if e.Dir {
			tw.WriteHeader(&tar.Header{Typeflag: tar.TypeDir, Name: p + "/", Mode: 0o755})
			continue
		}
		tw.WriteHeader(&tar.Header{Typeflag: tar.TypeReg, Name: p, Mode: 0o644, Size: int64(len(e.Data))})
		tw.Write(e.Data)
	}
	tw.Close()
	return buf.Bytes()
}

func digestOfBytes(b []byte) string { return fmt.Sprintf("sha256:%x", sha256.Sum256(b)) }

// flatten applies the layers in order with OCI whiteout semantics:
// a layer's whiteouts act on what the lower layers left (never on the layer's
// own entries); `.wh.x` removes x and everything below it, `.wh..wh..opq`
// removes everything below its directory; then the layer's own entries are
// added (a later file replaces an earlier one, a file replaces a directory
// tree and vice versa). Whiteout entries themselves are not part of the image.
func flatten(layers []layerFS) layerFS {
	img := layerFS{}
	for _, l := range layers {
		for _, p := range l.sortedPaths() {
			if !isWhiteoutPath(p) || l[p].Dir {
				continue
			}
			dir := path.Dir(p)
			base := path.Base(p)
			if base == opqName {
				for q := range img {
					if dir == "." || under(q, dir) {
						delete(img, q)
					}
				}
				continue
			}
			target := path.Join(dir, base[len(whPrefix):])
			for q := range img {
				if q == target || under(q, target) {
					delete(img, q)
				}
			}
		}
		for _, p := range l.sortedPaths() {
			e := l[p]
			if isWhiteoutPath(p) && !e.Dir {
				continue
			}
			if !e.Dir {
				// a file replaces a directory tree
				for q := range img {
					if under(q, p) {
						delete(img, q)
					}
				}
			}
			// a path below a lower file: the file is replaced by a directory
			for d := path.Dir(p); d != "." && d != "/"; d = path.Dir(d) {
				if old, ok := img[d]; ok && !old.Dir {
					img[d] = fsEntry{Dir: true}
				}
			}
			if e.Dir {
				if old, ok := img[p]; ok && old.Dir {
					continue
				}
			}
			img[p] = e
		}
	}
	img.addParents()
	return img
}

// builder records an image history: `img` is the current image, `cur` the
// layer under construction.
type builder struct {
	img    layerFS
	cur    layerFS
	layers []layerFS
}

func newBuilder() *builder { return &builder{img: layerFS{}, cur: layerFS{}} }

// put writes a file in the current layer.
func (b *builder) put(p string, data []byte) {
	b.cur[p] = fsEntry{Data: data}
	b.img[p] = fsEntry{Data: data}
}

// mkdir records a directory entry in the current layer.
func (b *builder) mkdir(p string) {
	if _, ok := b.cur[p]; !ok {
		b.cur[p] = fsEntry{Dir: true}
	}
	if _, ok := b.img[p]; !ok {
		b.img[p] = fsEntry{Dir: true}
	}
}

func (b *builder) exists(p string) bool { _, ok := b.img[p]; return ok }

// lowerHas reports whether the layers below the current one left p (or something under it).
func (b *builder) lowerHas(p string) bool {
	low := flatten(b.layers)
	if _, ok := low[p]; ok {
		return true
	}
	for q := range low {
		if under(q, p) {
			return true
		}
	}
	return false
}

// rm deletes a file or a directory tree: its entries in the current layer are
// dropped and, if lower layers have it, a whiteout is written.
func (b *builder) rm(p string) {
	for q := range b.img {
		if q == p || under(q, p) {
			delete(b.img, q)
		}
	}
	for q := range b.cur {
		if q == p || under(q, p) {
			delete(b.cur, q)
		}
	}
	if b.lowerHas(p) {
		b.cur[path.Join(path.Dir(p), whPrefix+path.Base(p))] = fsEntry{}
	}
}

// opaque empties a directory the way an overlay does when the directory is
// removed and re-created in one build step.
func (b *builder) opaque(dir string) {
	for q := range b.img {
		if under(q, dir) {
			delete(b.img, q)
		}
	}
	for q := range b.cur {
		if under(q, dir) {
			delete(b.cur, q)
		}
	}
	b.cur[dir] = fsEntry{Dir: true}
	b.img[dir] = fsEntry{Dir: true}
	b.cur[path.Join(dir, opqName)] = fsEntry{}
}

// commit closes the current layer.
func (b *builder) commit() {
	b.cur.addParents()
	b.layers = append(b.layers, b.cur)
	b.cur = layerFS{}
}

// files returns the regular, non-whiteout files of an image.
func (l layerFS) files() map[string][]byte {
	out := map[string][]byte{}
	for p, e := range l {
		if !e.Dir && !isWhiteoutPath(p) {
			out[p] = e.Data
		}
	}
	return out
}
