package c01

import (
	"github.com/quay/zlog"
	"github.com/rs/zerolog"

	"github.com/quay/claircore/verifharness/internal/hx"
)

// Run is the harness entry point.
func Run(cfg hx.Config) error {
	nop := zerolog.Nop()
	zlog.Set(&nop)
	r, err := hx.NewRun(cfg)
	if err != nil {
		return err
	}
	rnd := hx.NewRand(cfg.Seed)
	r.Rule = "pure layer: generated per-layer artifacts (0-12 layers; install/upgrade/remove evolutions, shared ids across databases, duplicate digests, repositories, whiteout files) through the real coalescers, MergeSR, whiteout.Resolver, IndexRecords; non-trivial = more than one layer / more than one ecosystem / fileIsDeleted true"
	runPure(r, cfg, rnd.Fork())
	runE2E(r, cfg, rnd.Fork())
	return r.Close()
}
