package c01

import (
	"github.com/quay/zlog"
	"github.com/rs/zerolog"

	"github.com/quay/claircore/verifharness/internal/hx"
)

// Run is the harness entry point.
func Run(cfg hx.Config) error {
	nop := zerolog.Nop()
	zlog.Set(&nop)
	r, err := hx.NewRun(cfg)
	if err != nil {
		return err
	}
	rnd := hx.NewRand(cfg.Seed)
	r.Rule = "(1) pure layer: generated per-layer artifacts (0-12 layers; install/upgrade/remove evolutions, ids shared across databases and ecosystems, duplicate digests, repositories, whiteout files) through the real coalescers, MergeSR (also with the reports in permuted order), whiteout.Resolver, IndexRecords; fileIsDeleted on arbitrary and on clean paths; direct oracles of the exactness theorems. (2) end to end: layer histories generated from install/upgrade/remove operations on dpkg, apk and rpm (ndb) databases, RHEL release files and content manifests, python/nodejs/ruby/java package files and Go executables (whiteouts at any depth, opaque directories, re-creation, empty, duplicate and unrelated layers, look-alike whiteout names, dot-directories) as tars through the real controller and libindex's scanners over an in-memory store; compared with the same scanners on the flattened image (packages, distributions); every history also abstracted (content ids, scan table, distribution table) for the Lean model (Tame?, indexModel, scanImage, imageDist). Non-trivial = more than one layer / ecosystem, fileIsDeleted true, final image with packages."
	r.Notes["ecosystems_end_to_end"] = "dpkg, alpine(apk), rhel and rpm (ndb databases; rhel repository scanner with a local mapping file), python, java, ruby, nodejs, gobin (synthetic ELF with .go.buildinfo), whiteout; rhcc is not run"
	r.Notes["store"] = "private in-memory indexer.Store (go/internal/c01/store.go) with the unique keys of migrations/indexer/01-init.sql; the SQL engine is modelled, not verified"
	r.Notes["strictness"] = "a history inside the hypothesis Tame (evaluated by the Go transcription of tameB, itself compared with the Lean evaluation on every e2e line) may show no difference at all; outside it a difference is classified only when it has exactly the shape of a recorded finding; distributions are compared when DistStable holds"
	r.Notes["goroutine_order"] = "protocol lines whose real answer depends on which coalescer goroutine finishes last (one package id with different Package values in two ecosystems) are skipped and counted; MergeSR is compared in permuted orders in the pure layer"
	defer removeMappingFile()
	runCorpus(r, cfg.Corpus)
	runPure(r, cfg, rnd.Fork())
	runE2E(r, cfg, rnd.Fork())
	return r.Close()
}
