package c02

import (
	"bytes"
	"context"
	"fmt"
	"sort"
	"strings"

	"github.com/quay/claircore"
	"github.com/quay/claircore/osrelease"
	"github.com/quay/claircore/toolkit/types/cpe"
	"github.com/quay/claircore/verifharness/internal/hx"
)

type osKV struct {
	key, value string
	style      int // 0 bare, 1 double quotes, 2 single quotes
}

func dqEscape(v string) string {
	var b strings.Builder
	for i := 0; i < len(v); i++ {
		switch v[i] {
		case '`', '\\', '"', '$':
			b.WriteByte('\\')
		}
		b.WriteByte(v[i])
	}
	return b.String()
}

func (kv osKV) render() string {
	switch kv.style {
	case 1:
		return kv.key + `="` + dqEscape(kv.value) + `"`
	case 2:
		return kv.key + `='` + strings.ReplaceAll(kv.value, `'`, `'\''`) + `'`
	}
	return kv.key + "=" + kv.value
}

var osKeys = []string{"NAME", "ID", "VERSION", "VERSION_ID", "VERSION_CODENAME", "PRETTY_NAME", "ID_LIKE", "HOME_URL", "BUG_REPORT_URL", "ANSI_COLOR", "CPE_NAME", "REDHAT_BUGZILLA_PRODUCT", "BUILD_ID", "VARIANT_ID", "PLATFORM_ID", "X_custom1", "LOGO"}

const bareAlphabet = "abcdefghijklmnopqrstuvwxyzABCDEFGHIJKLMNOPQRSTUVWXYZ0123456789._-:/+"
const quotedAlphabet = bareAlphabet + "      ()[]{};,!?@#%^&*<>|~=" + "\"'`$\\"

func genOsValue(r *hx.Rand, style int) string {
	switch r.Intn(6) {
	case 0:
		return r.Pick("Debian GNU/Linux 11 (bullseye)", "Ubuntu 20.04.6 LTS", "Alpine Linux v3.18", "Red Hat Enterprise Linux 8", "11", "3.18.4", "bullseye", "debian", "rhel fedora", "cpe:/o:redhat:enterprise_linux:8::baseos", "cpe:2.3:o:alpinelinux:alpine_linux:3.18.4:*:*:*:*:*:*:*", "0;31", "https://www.debian.org/")
	case 1:
		if style == 0 {
			return ""
		}
		return r.Pick("", " ", "  padded  ", "tab\there")
	}
	n := 1 + r.Intn(14)
	if style == 0 {
		return randFrom(r, bareAlphabet, n)
	}
	return randFrom(r, quotedAlphabet, n)
}

// osLegalFor says whether the value survives the documented unquoting of this style in
// claircore (otherwise it is the shape of a recorded finding).
func osKnownShape(kv osKV) string {
	switch kv.style {
	case 1:
		if strings.HasSuffix(kv.value, `"`) {
			return "osrelease-quote-at-end"
		}
	case 2:
		if strings.HasSuffix(kv.value, `'`) || strings.HasPrefix(kv.value, `'`) {
			return "osrelease-quote-at-end"
		}
	}
	return ""
}

func genOsFile(r *hx.Rand, allowKnown bool) ([]osKV, []byte) {
	n := r.Intn(10)
	var kvs []osKV
	var w bytes.Buffer
	nl := "\n"
	if r.Chance(1, 10) {
		nl = "\r\n"
	}
	for i := 0; i < n; i++ {
		kv := osKV{key: r.Pick(osKeys...), style: r.Intn(3)}
		kv.value = genOsValue(r, kv.style)
		if !allowKnown && osKnownShape(kv) != "" {
			kv.value = "x" + kv.value + "x"
		}
		if kv.style == 0 && (strings.HasPrefix(kv.value, `"`) || strings.HasPrefix(kv.value, `'`)) {
			kv.value = "v" + kv.value
		}
		kvs = append(kvs, kv)
		if r.Chance(1, 6) {
			w.WriteString(r.Pick("# a comment", "", "   ", "#", "  # indented comment", "\t") + nl)
		}
		line := kv.render()
		if r.Chance(1, 8) {
			line = r.Pick(" ", "\t", "  ") + line + r.Pick("", " ", "\t ")
		}
		w.WriteString(line)
		if i < n-1 || r.Chance(4, 5) {
			w.WriteString(nl)
		}
	}
	return kvs, w.Bytes()
}

func osExpected(kvs []osKV) map[string]string {
	m := map[string]string{}
	for _, kv := range kvs {
		m[kv.key] = kv.value
	}
	return m
}

func osMapString(m map[string]string) string {
	var l []string
	for k, v := range m {
		l = append(l, hx.Hex([]byte(k))+"="+hx.Hex([]byte(v)))
	}
	sort.Strings(l)
	return strings.Join(append([]string{fmt.Sprintf("ok %d", len(l))}, l...), " ")
}

func opOsParse(r *hx.Run, file []byte, nontrivial bool) (map[string]string, bool) {
	var m map[string]string
	out := hx.Guard(func() string {
		var err error
		m, err = osrelease.Parse(context.Background(), bytes.NewReader(file))
		if err != nil {
			m = nil
			return "err"
		}
		return osMapString(m)
	})
	if out == "panic" {
		r.Fail("", "osrelease.Parse panics on "+quoteShort(file))
	}
	r.Op("osr "+hx.Hex(file), out, nontrivial)
	return m, out != "err" && out != "panic"
}

type distOut struct {
	none, err bool
	d         *claircore.Distribution
}

func scanOsRelease(ents []ent) distOut {
	var o distOut
	l, err := mkLayer(ents)
	if err != nil {
		o.err = true
		return o
	}
	defer l.Close()
	res := hx.Guard(func() string {
		ds, err := (&osrelease.Scanner{}).Scan(context.Background(), l)
		switch {
		case err != nil:
			o.err = true
		case len(ds) == 0:
			o.none = true
		default:
			o.d = ds[0]
		}
		return ""
	})
	if res == "panic" {
		o.err = true
	}
	return o
}

func distString(d *claircore.Distribution) string {
	f := []string{d.Name, d.DID, d.Version, d.VersionID, d.VersionCodeName, d.PrettyName}
	for i := range f {
		f[i] = hx.Hex([]byte(f[i]))
	}
	return "ok " + strings.Join(f, ",")
}

func opOsDist(r *hx.Run, file []byte) distOut {
	o := scanOsRelease([]ent{{path: "etc/os-release", data: file}})
	out := "err"
	if !o.err && o.d != nil {
		out = distString(o.d)
	}
	r.Op("osd "+hx.Hex(file), out, true)
	return o
}

func mutateOs(r *hx.Rand, b []byte) []byte {
	lines := bytes.SplitAfter(b, []byte("\n"))
	if len(lines) == 0 {
		lines = [][]byte{nil}
	}
	i := r.Intn(len(lines))
	switch r.Intn(8) {
	case 0:
		lines[i] = []byte(r.Pick("no equals sign\n", "=value\n", "KEY\n", " = \n", "A=b=c\n", "export X=1\n"))
	case 1:
		lines[i] = []byte(r.Pick(`K="unterminated`, `K='it's'`, `K=""""`, `K="a"b"c"`, `K='''`, `K="\n\t\\\$"`, `K='a'\''b'`, `K="a\"`, `K=\"x\"`, `K= "spaced" `, `K ="x"`, `K='\''`, `K="$HOME \$HOME"`) + "\n")
	case 2:
		l := append([]byte(nil), lines[i]...)
		if len(l) > 0 {
			l[r.Intn(len(l))] = byte(r.Pick("\"", "'", "\\", "=", "#", " ", "\x00", "$", "`")[0])
		}
		lines[i] = l
	case 3:
		lines[i] = bytes.TrimSuffix(lines[i], []byte("\n"))
	case 4:
		lines = append(lines[:i+1:i+1], append([][]byte{lines[i]}, lines[i+1:]...)...)
	case 5:
		lines[i] = append([]byte("ID="+r.Pick("debian", "'ubuntu'", `"alpine"`, "")), '\n')
	case 6:
		lines[i] = append([]byte("REDHAT_BUGZILLA_PRODUCT="+r.Pick(`"Red Hat Enterprise Linux 8"`, "x", "")), '\n')
	case 7:
		lines[i] = append([]byte(r.Pick("NAME", "VERSION", "PRETTY_NAME", "VERSION_ID", "VERSION_CODENAME")+"="+r.Pick(`"a b"`, "", "''", "z")), '\n')
	}
	return bytes.Join(lines, nil)
}

func runOsRelease(r *hx.Run, rnd *hx.Rand, cfg hx.Config) {
	// recorded finding
	{
		f := []byte("PRETTY_NAME=\"say \\\"hi\\\"\"\nNAME='it'\\''s'\nVARIANT='rock '\\''n'\\'''\n")
		m, ok := opOsParse(r, f, true)
		if ok && m["PRETTY_NAME"] != `say "hi"` {
			r.KnownSeen("osrelease-quote-at-end", fmt.Sprintf(`PRETTY_NAME="say \"hi\"" parses to %q (all trailing quote characters are trimmed before unescaping)`, m["PRETTY_NAME"]))
		}
		if ok && m["NAME"] != "it's" {
			r.Fail("", "os-release NAME='it'\\''s' parses to "+m["NAME"])
		}
	}
	for _, s := range []string{"", "\n", "ID=debian", "ID=debian\n", "ID=debian\r\n", "ID=debian\r", "# c\nID=x\n\n  \nNAME=\"A B\"\n", "ID", "ID=\n", "=x\n", "ID=a\nID=b\n", "NAME=\"Red Hat\"\nPRETTY_NAME=p\nREDHAT_BUGZILLA_PRODUCT=\"RHEL 8\"\n", "ID=\"\"\n", "ID=''\n", "ID=\"\n", "ID='\n", "K=\"a\\\\\"\n", "K=\"\\a\\\\b\\$c\\`d\\\"e\"\n", "K='a'\\''b'\\''c'\n", "K='\\'''\n", " K = v \n", "K=a b\n", "K=\"a\" # trailing\n", "VERSION_ID=11\nVERSION=\"11 (bullseye)\"\nVERSION_CODENAME=bullseye\nID=debian\nNAME=\"Debian GNU/Linux\"\nPRETTY_NAME=\"Debian GNU/Linux 11 (bullseye)\"\nHOME_URL=\"https://www.debian.org/\"\n"} {
		opOsParse(r, []byte(s), true)
		opOsDist(r, []byte(s))
	}
	n := cfg.N(600, 15000)
	for i := 0; i < n && !r.Stop(); i++ {
		allowKnown := rnd.Chance(1, 10)
		kvs, file := genOsFile(rnd, allowKnown)
		for _, kv := range kvs {
			r.Count(fmt.Sprintf("osrelease:style:%d", kv.style))
		}
		r.Count("osrelease:keys:" + sizeBucket(len(kvs)))
		m, ok := opOsParse(r, file, len(kvs) > 0)
		want := osExpected(kvs)
		switch {
		case !ok:
			r.Fail("", "osrelease.Parse rejects a well-formed file: "+quoteShort(file))
		case osMapString(m) == osMapString(want):
			r.Count("osrelease:oracle:exact")
		default:
			// differs: is every differing key of the recorded shape?
			class := "osrelease-quote-at-end"
			last := map[string]osKV{}
			for _, kv := range kvs {
				last[kv.key] = kv
			}
			if len(m) != len(want) {
				class = ""
			}
			for k, v := range want {
				if got, present := m[k]; !present || got != v {
					if osKnownShape(last[k]) == "" || !present {
						class = ""
					}
				}
			}
			r.Count("osrelease:oracle:differs:" + class)
			r.Fail(class, fmt.Sprintf("os-release %s parses to %s, written values %s", quoteShort(file), fmt.Sprint(m), fmt.Sprint(want)))
		}
		// the distribution scanner on the same file
		o := opOsDist(r, file)
		if ok && osMapString(m) == osMapString(want) {
			checkOsDist(r, o, want, file)
		}
		if i%3 == 0 {
			mf := mutateOs(rnd, file)
			if _, ok := opOsParse(r, mf, true); ok {
				r.Count("osrelease:mutated:ok")
			} else {
				r.Count("osrelease:mutated:err")
			}
			opOsDist(r, mf)
		}
	}
	// path choice: etc/os-release wins, usr/lib/os-release is the fallback, neither = nothing
	a, b := []byte("ID=fromEtc\n"), []byte("ID=fromUsrLib\n")
	if o := scanOsRelease([]ent{{path: "etc/os-release", data: a}, {path: "usr/lib/os-release", data: b}}); o.d == nil || o.d.DID != "fromEtc" {
		r.Fail("", "os-release: etc/os-release is not preferred over usr/lib/os-release")
	}
	if o := scanOsRelease([]ent{{path: "usr/lib/os-release", data: b}}); o.d == nil || o.d.DID != "fromUsrLib" {
		r.Fail("", "os-release: usr/lib/os-release is not used as the fallback")
	}
	if o := scanOsRelease([]ent{{path: "etc/other", data: b}, {path: "opt/etc/os-release", data: a}}); !o.none {
		r.Fail("", "os-release: a layer without an os-release file reports a distribution")
	}
	r.Case("osrelease paths", true)
}

// checkOsDist: the Distribution holds what the file states.
func checkOsDist(r *hx.Run, o distOut, want map[string]string, file []byte) {
	if o.err || o.d == nil {
		r.Fail("", "osrelease.Scanner.Scan fails or reports nothing for "+quoteShort(file))
		return
	}
	get := func(k, def string) string {
		if v, ok := want[k]; ok {
			return v
		}
		return def
	}
	pretty := get("PRETTY_NAME", "")
	if v, ok := want["REDHAT_BUGZILLA_PRODUCT"]; ok {
		pretty = v // the documented Red Hat hack
	}
	exp := []string{get("NAME", "Linux"), get("ID", "linux"), get("VERSION", ""), get("VERSION_ID", ""), get("VERSION_CODENAME", ""), pretty}
	got := []string{o.d.Name, o.d.DID, o.d.Version, o.d.VersionID, o.d.VersionCodeName, o.d.PrettyName}
	for i := range exp {
		if exp[i] != got[i] {
			r.Fail("", fmt.Sprintf("os-release distribution field %d = %q, the file states %q: %s", i, got[i], exp[i], quoteShort(file)))
			return
		}
	}
	// CPE: what cpe.Unbind makes of CPE_NAME (C19 models Unbind), zero otherwise
	var wfn cpe.WFN
	if v, ok := want["CPE_NAME"]; ok {
		if w, err := cpe.Unbind(v); err == nil {
			wfn = w
		}
	}
	if o.d.CPE != wfn {
		r.Fail("", "os-release CPE differs from cpe.Unbind(CPE_NAME): "+quoteShort(file))
	}
	if o.d.Arch != "" || o.d.ID != "" {
		r.Fail("", "os-release distribution has Arch or ID set: "+quoteShort(file))
	}
}
