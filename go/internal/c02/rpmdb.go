package c02

import (
	"bytes"
	"database/sql"
	"encoding/binary"
	"fmt"
	"hash/adler32"
	"os"
	"path/filepath"
	"sort"

	_ "modernc.org/sqlite" // the driver claircore itself links
)

// rpm's own numbers (lib/rpmtag.h, lib/header.h); claircore/rpm/internal/rpm cannot be imported
// from here, and the writer is meant to be independent of it anyway.
type rpmTag int32
type rpmKind uint32

const (
	tagHeaderImmutable   rpmTag = 63
	tagSigPGP            rpmTag = 259
	tagName              rpmTag = 1000
	tagVersion           rpmTag = 1001
	tagRelease           rpmTag = 1002
	tagEpoch             rpmTag = 1003
	tagSummary           rpmTag = 1004
	tagDescription       rpmTag = 1005
	tagOldFilenames      rpmTag = 1027
	tagSize              rpmTag = 1009
	tagLicense           rpmTag = 1014
	tagArch              rpmTag = 1022
	tagSourceRPM         rpmTag = 1044
	tagDirindexes        rpmTag = 1116
	tagBasenames         rpmTag = 1117
	tagDirnames          rpmTag = 1118
	tagPayloadDigest     rpmTag = 5092
	tagPayloadDigestAlgo rpmTag = 5093
	tagModularityLabel   rpmTag = 5096

	typeInt16       rpmKind = 3
	typeInt32       rpmKind = 4
	typeInt64       rpmKind = 5
	typeString      rpmKind = 6
	typeBin         rpmKind = 7
	typeStringArray rpmKind = 8
	typeI18nString  rpmKind = 9
)

// ---- the harness's own writer of rpm header blobs and database containers ----

type rpmEntry struct {
	tag  rpmTag
	typ  rpmKind
	data []byte
	ct   uint32
}

func rpmString(tag rpmTag, s string) rpmEntry {
	return rpmEntry{tag: tag, typ: typeString, data: append([]byte(s), 0), ct: 1}
}

func rpmStrings(tag rpmTag, typ rpmKind, ss []string) rpmEntry {
	var b []byte
	for _, s := range ss {
		b = append(append(b, s...), 0)
	}
	return rpmEntry{tag: tag, typ: typ, data: b, ct: uint32(len(ss))}
}

func rpmInt32s(tag rpmTag, xs []int32) rpmEntry {
	b := make([]byte, 4*len(xs))
	for i, x := range xs {
		binary.BigEndian.PutUint32(b[4*i:], uint32(x))
	}
	return rpmEntry{tag: tag, typ: typeInt32, data: b, ct: uint32(len(xs))}
}

func rpmBin(tag rpmTag, b []byte) rpmEntry {
	return rpmEntry{tag: tag, typ: typeBin, data: b, ct: uint32(len(b))}
}

func rpmAlign(t rpmKind) int {
	switch t {
	case typeInt16:
		return 2
	case typeInt32:
		return 4
	case typeInt64:
		return 8
	}
	return 1
}

// rpmHeaderBlob renders the entries as a header blob with an immutable region, the way rpm
// stores headers in its database: index count, data size, index (region tag first, then the
// entries by tag), data store, region trailer at the end of the data.
func rpmHeaderBlob(ents []rpmEntry) []byte {
	sort.SliceStable(ents, func(i, j int) bool { return ents[i].tag < ents[j].tag })
	var data []byte
	type idx struct {
		tag, typ, off, ct uint32
	}
	var index []idx
	for _, e := range ents {
		for len(data)%rpmAlign(e.typ) != 0 {
			data = append(data, 0)
		}
		index = append(index, idx{uint32(e.tag), uint32(e.typ), uint32(len(data)), e.ct})
		data = append(data, e.data...)
	}
	il := uint32(len(index) + 1)
	trailerOff := uint32(len(data))
	tr := make([]byte, 16)
	binary.BigEndian.PutUint32(tr[0:], uint32(tagHeaderImmutable))
	binary.BigEndian.PutUint32(tr[4:], uint32(typeBin))
	binary.BigEndian.PutUint32(tr[8:], uint32(-int32(il*16)))
	binary.BigEndian.PutUint32(tr[12:], 16)
	data = append(data, tr...)
	var out bytes.Buffer
	w32 := func(x uint32) { binary.Write(&out, binary.BigEndian, x) }
	w32(il)
	w32(uint32(len(data)))
	w32(uint32(tagHeaderImmutable))
	w32(uint32(typeBin))
	w32(trailerOff)
	w32(16)
	for _, e := range index {
		w32(e.tag)
		w32(e.typ)
		w32(e.off)
		w32(e.ct)
	}
	out.Write(data)
	return out.Bytes()
}

// rpmSqlite builds an rpmdb.sqlite holding the blobs (hnum 1..n, in order).
func rpmSqlite(tmpdir string, blobs [][]byte) ([]byte, error) {
	p := filepath.Join(tmpdir, "rpmdb.sqlite")
	os.Remove(p)
	db, err := sql.Open("sqlite", "file:"+p)
	if err != nil {
		return nil, err
	}
	if _, err := db.Exec(`CREATE TABLE IF NOT EXISTS 'Packages' (hnum INTEGER PRIMARY KEY AUTOINCREMENT, blob BLOB NOT NULL)`); err != nil {
		db.Close()
		return nil, err
	}
	tx, err := db.Begin()
	if err != nil {
		db.Close()
		return nil, err
	}
	for _, b := range blobs {
		if _, err := tx.Exec(`INSERT INTO Packages (blob) VALUES (?)`, b); err != nil {
			db.Close()
			return nil, err
		}
	}
	if err := tx.Commit(); err != nil {
		db.Close()
		return nil, err
	}
	if err := db.Close(); err != nil {
		return nil, err
	}
	defer os.Remove(p)
	return os.ReadFile(p)
}

// ndbLayout says where the packages sit in a Packages.db: which slot (0-based, after the two
// header-sized units of page 0) and which package index each blob gets, how many slot pages
// there are, and in which order (and with how many free 16-byte blocks in front) the blobs
// are written. A database with history has free slots anywhere (erased packages), indexes
// that do not follow slot order (a new package reuses the first free slot) and blobs that do
// not follow either.
type ndbLayout struct {
	npages  int
	slot    []int    // slot position of blob i
	index   []uint32 // package index of blob i
	blobSeq []int    // order in which the blobs are written to the file
	gapBlks []int    // free blocks before the blob written k-th
	nextIdx uint32
}

// ndbFresh is the layout of a database that was only ever installed into: slots, indexes and
// blobs all in order, no holes.
func ndbFresh(n int) ndbLayout {
	l := ndbLayout{npages: (n + 2 + 255) / 256, nextIdx: uint32(n + 1)}
	if l.npages == 0 {
		l.npages = 1
	}
	for i := 0; i < n; i++ {
		l.slot = append(l.slot, i)
		l.index = append(l.index, uint32(i+1))
		l.blobSeq = append(l.blobSeq, i)
		l.gapBlks = append(l.gapBlks, 0)
	}
	return l
}

// ndbHistory is the layout of a database that packages were erased from and installed into:
// free slots at the start and in the middle, slot pages beyond the first, package indexes
// unrelated to slot order (the highest one possibly in the first slot, or erased), blobs
// written in another order with free blocks between them.
func ndbHistory(r interface{ Intn(int) int }, n int) ndbLayout {
	need := (n + 2 + 255) / 256
	if need == 0 {
		need = 1
	}
	l := ndbLayout{npages: need + r.Intn(3)}
	total := l.npages*256 - 2
	span := total
	if r.Intn(2) == 0 && n*3+8 < total {
		span = n*3 + 8 // dense: holes of a few slots
	}
	perm := func(k int) []int {
		p := make([]int, k)
		for i := range p {
			p[i] = i
		}
		for i := k - 1; i > 0; i-- {
			j := r.Intn(i + 1)
			p[i], p[j] = p[j], p[i]
		}
		return p
	}
	l.slot = perm(span)[:n]
	idx := perm(2*n + 5)[:n]
	max := uint32(0)
	for _, x := range idx {
		l.index = append(l.index, uint32(x+1))
		if uint32(x+1) > max {
			max = uint32(x + 1)
		}
	}
	l.nextIdx = max + 1 + uint32(r.Intn(3))
	l.blobSeq = perm(n)
	for range l.blobSeq {
		l.gapBlks = append(l.gapBlks, r.Intn(4)*r.Intn(2))
	}
	return l
}

// slotOrder lists the blobs in the order of their slots (the order a reader of the slot table
// meets them).
func (l ndbLayout) slotOrder() []int {
	o := make([]int, len(l.slot))
	for i := range o {
		o[i] = i
	}
	sort.Slice(o, func(a, b int) bool { return l.slot[o[a]] < l.slot[o[b]] })
	return o
}

// rpmNdb builds a Packages.db (rpm's "ndb" format) holding the blobs.
func rpmNdb(blobs [][]byte) []byte { return rpmNdbLayout(blobs, ndbFresh(len(blobs))) }

func rpmNdbLayout(blobs [][]byte, l ndbLayout) []byte {
	le := binary.LittleEndian
	file := make([]byte, l.npages*4096)
	copy(file[0:], "RpmP")
	le.PutUint32(file[4:], 0)
	le.PutUint32(file[8:], 1)
	le.PutUint32(file[12:], uint32(l.npages))
	le.PutUint32(file[16:], l.nextIdx)
	for i := 2; i < l.npages*256; i++ {
		copy(file[i*16:], "Slot") // a free slot: magic, everything else zero
	}
	for k, i := range l.blobSeq {
		b := blobs[i]
		file = append(file, make([]byte, 16*l.gapBlks[k])...)
		blobLen := 16 + len(b) + 12
		blocks := (blobLen + 15) / 16
		off := len(file)
		blob := make([]byte, blocks*16)
		copy(blob[0:], "BlbS")
		le.PutUint32(blob[4:], l.index[i])
		le.PutUint32(blob[8:], 1)
		le.PutUint32(blob[12:], uint32(len(b)))
		copy(blob[16:], b)
		sum := adler32.Checksum(blob[:len(blob)-12])
		le.PutUint32(blob[len(blob)-12:], sum)
		le.PutUint32(blob[len(blob)-8:], uint32(len(b)))
		copy(blob[len(blob)-4:], "BlbE")
		file = append(file, blob...)
		s := (2 + l.slot[i]) * 16
		le.PutUint32(file[s+4:], l.index[i])
		le.PutUint32(file[s+8:], uint32(off/16))
		le.PutUint32(file[s+12:], uint32(blocks))
	}
	return file
}

var _ = fmt.Sprint
