package c02

import (
	"context"
	"fmt"
	"io"
	"runtime"
	"sort"
	"strings"
	"sync"
	"time"

	"github.com/quay/claircore"
	"github.com/quay/claircore/gobin"
	"github.com/quay/claircore/indexer"
	"github.com/quay/claircore/java"
	"github.com/quay/claircore/nodejs"
	"github.com/quay/claircore/rpm"
	"github.com/quay/claircore/ruby"
	"github.com/quay/claircore/verifharness/internal/hx"
)

// "Files owned by the OS package manager are not reported by the language scanners": layers
// hold an rpm database (sqlite, ndb or bdb container, written by the harness) whose headers
// own some of the language package files; the unowned neighbours must be reported, the owned
// ones not. The clause is exercised the way the indexer uses the scanners:
//
//   - one scanner after the other on one layer object (the per-layer cache of rpm-owned
//     files is filled by the first and read by the others),
//   - several scanners started concurrently on one layer object (indexer/layerscanner.go
//     runs every scanner of a layer in its own goroutine), with the goroutine that loads the
//     rpm database held at every one of its reads of the database files in turn while the
//     others run,
//   - a first user of the layer whose context is cancelled (before the call, or at any of
//     the reads of the load), followed by scanners with a live context.
//
// Holding a goroutine is done from outside the code under test: the layer reads its tar
// bytes through a gate that parks the k-th read touching an rpm database file (or a decoy
// named like one, which the database search opens to look at its magic number). Whether the
// other goroutines have finished or are blocked is read off runtime.Stack, never off a
// clock; time-outs only bound the wait when the code under test is broken.

// gate is the io.ReaderAt a gated layer reads through.
type gate struct {
	b     []byte
	spans []span

	mu      sync.Mutex
	armed   bool
	reads   int
	parkAt  int
	parked  chan struct{}
	release chan struct{}
}

func newGate(b []byte, spans []span) *gate {
	return &gate{b: b, spans: spans, parked: make(chan struct{}), release: make(chan struct{})}
}

func (g *gate) ReadAt(p []byte, off int64) (int, error) {
	g.mu.Lock()
	park := false
	if g.armed {
		hit := false
		for _, s := range g.spans {
			if off < s.hi && off+int64(len(p)) > s.lo {
				hit = true
			}
		}
		if hit && inCacheLoad() {
			g.reads++
			if g.reads == g.parkAt {
				park = true
			}
		}
	}
	g.mu.Unlock()
	if park {
		close(g.parked)
		<-g.release
	}
	if off >= int64(len(g.b)) {
		return 0, io.EOF
	}
	n := copy(p, g.b[off:])
	if n < len(p) {
		return n, io.EOF
	}
	return n, nil
}

// inCacheLoad: is the calling goroutine the one that fills the cache of rpm-owned files (the
// function handed to singleflight in rpm/files.go getFiles)? Other readers of the same files
// (the rpm package scanner, gobin looking at every file) pass the gate untouched.
func inCacheLoad() bool {
	buf := make([]byte, 32<<10)
	n := runtime.Stack(buf, false)
	return strings.Contains(string(buf[:n]), "rpm.(*filesCache).getFiles.func")
}

func (g *gate) arm(parkAt int) {
	g.mu.Lock()
	g.armed, g.reads, g.parkAt = true, 0, parkAt
	g.mu.Unlock()
}

func (g *gate) count() int {
	g.mu.Lock()
	defer g.mu.Unlock()
	return g.reads
}

// goroutines counts the goroutines whose stack dump satisfies pred (header line = "goroutine
// N [state]:").
func goroutines(pred func(header, body string) bool) int {
	buf := make([]byte, 1<<20)
	for {
		n := runtime.Stack(buf, true)
		if n < len(buf) {
			buf = buf[:n]
			break
		}
		buf = make([]byte, 2*len(buf))
	}
	c := 0
	for _, g := range strings.Split(string(buf), "\n\n") {
		h, body, _ := strings.Cut(g, "\n")
		if pred(h, body) {
			c++
		}
	}
	return c
}

// osLimit bounds the waits of this section. It is generous on purpose: on a loaded machine the
// goroutine that walks the layer and parses the rpm database is merely slow (a 30 s limit raised
// alarms on unchanged code while four thorough-size checks ran in parallel); only code that
// really hangs reaches it.
const osLimit = 5 * time.Minute

// waitUntil polls cond (stack inspection) until it holds; false after the time-out, which is
// only reached when the code under test hangs.
func waitUntil(cond func() bool) bool {
	deadline := time.Now().Add(osLimit)
	for i := 0; ; i++ {
		if cond() {
			return true
		}
		if time.Now().After(deadline) {
			return false
		}
		if i < 50 {
			runtime.Gosched()
		} else {
			time.Sleep(200 * time.Microsecond)
		}
	}
}

func blockedInGetFiles() int {
	return goroutines(func(h, body string) bool {
		return strings.Contains(body, "rpm.(*filesCache).getFiles(") && !strings.Contains(body, "getFiles.func") &&
			(strings.Contains(h, "[select") || strings.Contains(h, "[chan receive"))
	})
}

// flightsRunning: singleflight calls of the files cache that have not yet handed out their
// result and forgotten their key.
func flightsRunning() int {
	return goroutines(func(h, body string) bool {
		return strings.Contains(body, "singleflight.(*Group).doCall(")
	})
}

// gcPending: the cache's per-call goroutines whose context is done but which have not yet
// dropped their reference. (Goroutines still waiting for a live context do not count.)
func gcWaiting() int {
	return goroutines(func(h, body string) bool {
		return strings.Contains(body, "rpm.(*filesCache).get.func1")
	})
}

type osCand struct {
	path  string
	data  []byte
	owned bool
	eco   string
	mode  int64
}

type osScanner struct {
	eco string
	s   indexer.PackageScanner
}

func osScanners() []osScanner {
	return []osScanner{
		{"python", &pythonScanner},
		{"nodejs", &nodejs.Scanner{}},
		{"ruby", &ruby.Scanner{}},
		{"java", &java.Scanner{}},
		{"gobin", gobin.Detector{}},
	}
}

// osLayer is a generated layer: tar bytes, where the database files are, and the truth.
type osLayer struct {
	tar   []byte
	spans []span
	kind  string
	cands []osCand
	desc  string
}

func genOsLayer(rnd *hx.Rand, cfg hx.Config, forceKind string) (*osLayer, error) {
	site := rnd.Pick("opt/app/lib/python3.9/site-packages", "usr/local/lib/python3.9/site-packages", "opt/rh/rh-python38/root/usr/lib/python3.8/site-packages")
	jdir := rnd.Pick("usr/share/java/", "opt/app/lib/", "usr/lib/jvm/ext/")
	bdir := rnd.Pick("usr/bin/", "usr/sbin/", "usr/libexec/podman/")
	// per ecosystem one or two owned and one or two unowned files, under names of any order (a
	// scanner asks about its candidates in walk order: which of them it asks about first, and
	// so while the database is still being loaded, must not matter)
	var cands []osCand
	used := map[string]bool{}
	name := func() string {
		for {
			n := randFrom(rnd, "abcdefghijklmnopqrstuvwxyz", 1) + randFrom(rnd, "abcdefghijklmnopqrstuvwxyz0123456789", 2+rnd.Intn(5))
			if !used[n] {
				used[n] = true
				return n
			}
		}
	}
	for _, owned := range []bool{true, false} {
		for _, eco := range []string{"python", "nodejs", "ruby", "java", "gobin"} {
			for k := 1 + rnd.Intn(2); k > 0; k-- {
				n := name()
				c := osCand{owned: owned, eco: eco}
				switch eco {
				case "python":
					c.path, c.data = site+"/"+n+"-2.0.egg-info/PKG-INFO", []byte("Metadata-Version: 1.1\nName: "+n+"\nVersion: 2.0\n")
				case "nodejs":
					c.path, c.data = "usr/lib/node_modules/"+n+"/package.json", renderPackageJSON(rnd, n, "1.0.0")
				case "ruby":
					c.path, c.data = "usr/share/gems/specifications/"+n+"-1.0.0.gemspec", renderGemspec(rnd, n, "1.0.0")
				case "java":
					c.path, c.data = jdir+n+"-1.0.jar", renderJar(rnd, "org.example", n, "1.0")
				case "gobin":
					d := bdir
					if !owned && rnd.Chance(1, 2) {
						d = "usr/local/bin/"
					}
					c.path, c.mode = d+n, 0o755
					c.data = goBinary(rnd, goInfo{goVersion: "go1.21.5", path: "example.com/" + n + "/cmd", mainPath: "example.com/" + n, mainVersion: "v1.0.0", deps: []goMod{{path: "golang.org/x/sys", version: "v0.15.0"}}})
				}
				cands = append(cands, c)
			}
		}
	}
	// an arbitrary subset of the ecosystems, at least one
	keep := map[string]bool{}
	ecos := []string{"python", "nodejs", "ruby", "java", "gobin"}
	for _, e := range ecos {
		if rnd.Chance(2, 3) {
			keep[e] = true
		}
	}
	if len(keep) == 0 {
		keep[rnd.Pick(ecos...)] = true
	}
	// the owning packages: one per ecosystem, so that the set of owned files is spread over
	// several headers, plus unrelated ones before, between and after
	var pkgs []rpmPkg
	filler := func() {
		for n := rnd.Intn(3); n > 0; n-- {
			nm := "filler-" + randFrom(rnd, "abcdefghijklmnop", 5)
			pkgs = append(pkgs, rpmPkg{name: nm, version: "1", release: "1", arch: "x86_64", srpm: nm + "-1-1.src.rpm",
				dirs: []string{"/usr/bin/", "/usr/share/doc/" + nm + "/"}, bases: []string{nm, "README"}, dirIdx: []int32{0, 1},
				desc: strings.Repeat("Filler package description. ", 60)})
		}
	}
	var ents []ent
	var kept []osCand
	filler()
	for _, e := range ecos {
		if !keep[e] {
			continue
		}
		owner := rpmPkg{name: "os-" + e + "-owned", version: "1.0", release: "1.el9", arch: "noarch", srpm: "os-" + e + "-owned-1.0-1.el9.src.rpm",
			desc: strings.Repeat("This package owns a language package file. ", 40)}
		dirIdx := map[string]int32{}
		for _, c := range cands {
			if c.eco != e {
				continue
			}
			kept = append(kept, c)
			ents = append(ents, ent{path: c.path, data: c.data, mode: c.mode})
			if !c.owned {
				continue
			}
			j := strings.LastIndexByte(c.path, '/')
			d, b := "/"+c.path[:j+1], c.path[j+1:]
			if _, ok := dirIdx[d]; !ok {
				dirIdx[d] = int32(len(owner.dirs))
				owner.dirs = append(owner.dirs, d)
			}
			owner.bases = append(owner.bases, b)
			owner.dirIdx = append(owner.dirIdx, dirIdx[d])
		}
		// other files of the package, which no scanner is interested in
		owner.dirs = append(owner.dirs, "/usr/share/licenses/"+owner.name+"/")
		owner.bases = append(owner.bases, "LICENSE")
		owner.dirIdx = append(owner.dirIdx, int32(len(owner.dirs)-1))
		pkgs = append(pkgs, owner)
		filler()
	}
	blobs := make([][]byte, len(pkgs))
	for i, p := range pkgs {
		blobs[i] = p.blob()
	}
	kind := forceKind
	if kind == "" {
		kind = rnd.Pick("sqlite", "ndb", "bdb")
	}
	dbDir := rnd.Pick("var/lib/rpm", "usr/lib/sysimage/rpm")
	var dbPath string
	switch kind {
	case "sqlite":
		b, err := rpmSqlite(cfg.OutDir, blobs)
		if err != nil {
			return nil, err
		}
		dbPath = dbDir + "/rpmdb.sqlite"
		ents = append(ents, ent{path: dbPath, data: b})
	case "ndb":
		dbPath = dbDir + "/Packages.db"
		ents = append(ents, ent{path: dbPath, data: rpmNdbLayout(blobs, ndbHistory(rnd, len(blobs)))})
	case "bdb":
		dbPath = dbDir + "/Packages"
		lay := bdbFreshLayout(rnd, len(blobs))
		lay.pageSize = 1024 // every header here is bigger than a quarter page
		f, _, _ := rpmBdb(blobs, lay)
		ents = append(ents, ent{path: dbPath, data: f})
	}
	// decoys named like databases: the search opens them to look at the magic number
	decoys := []string{rnd.Pick("aaa", "zzy") + "/doc/Packages", "zzz/repo/Packages.db"}
	for _, d := range decoys {
		ents = append(ents, ent{path: d, data: []byte("Package: not-a-database\nVersion: 1\nDescription: a Debian-style package index, not rpm's\n")})
	}
	// shuffle the order of the entries in the archive
	for i := len(ents) - 1; i > 0; i-- {
		j := rnd.Intn(i + 1)
		ents[i], ents[j] = ents[j], ents[i]
	}
	tarb, spans, err := mkTar(ents)
	if err != nil {
		return nil, err
	}
	ol := &osLayer{tar: tarb, kind: kind, cands: kept, desc: fmt.Sprintf("rpm database %s (%s, %d headers)", dbPath, kind, len(pkgs))}
	ol.spans = append(ol.spans, spans[dbPath])
	for _, d := range decoys {
		ol.spans = append(ol.spans, spans[d])
	}
	return ol, nil
}

var osNonce int

// open makes a new layer object over the bytes (its own digest, so its own cache entries).
func (ol *osLayer) open() (*claircore.Layer, *gate, error) {
	osNonce++
	g := newGate(ol.tar, ol.spans)
	l, err := openLayer(ol.tar, g, fmt.Sprint("os-owned-", osNonce))
	return l, g, err
}

type osResult struct {
	eco      string
	err      string // "" | "err" | "panic" | "hang"
	reported map[string]bool
}

func runScanner(ctx context.Context, sc osScanner, l *claircore.Layer) osResult {
	res := osResult{eco: sc.eco, reported: map[string]bool{}}
	out := hx.Guard(func() string {
		ps, err := sc.s.Scan(ctx, l)
		if err != nil {
			return "err"
		}
		for _, p := range ps {
			res.reported[p.Filepath] = true
		}
		return ""
	})
	res.err = out
	return res
}

// judge compares one scanner's result with the truth; the violations are returned as text.
func (ol *osLayer) judge(res osResult) []string {
	var bad []string
	if res.err != "" {
		return []string{fmt.Sprintf("%s scanner: %s", res.eco, res.err)}
	}
	for _, c := range ol.cands {
		if c.eco != res.eco {
			continue
		}
		switch rep := res.reported[c.path]; {
		case c.owned && rep:
			bad = append(bad, fmt.Sprintf("%s: %s is listed in the rpm database as installed by os-%s-owned, but is reported as a package", res.eco, c.path, c.eco))
		case !c.owned && !rep:
			bad = append(bad, fmt.Sprintf("%s: %s is not owned by any rpm, but is not reported", res.eco, c.path))
		}
	}
	return bad
}

func (ol *osLayer) active() []osScanner {
	var out []osScanner
	for _, sc := range osScanners() {
		for _, c := range ol.cands {
			if c.eco == sc.eco {
				out = append(out, sc)
				break
			}
		}
	}
	return out
}

func runOsOwned(r *hx.Run, rnd *hx.Rand, cfg hx.Config) error {
	runOsOwnedPatterns(r, rnd.Fork())
	for i := 0; i < cfg.N(10, 120) && !r.Stop(); i++ {
		kind := []string{"sqlite", "ndb", "bdb"}[i%3]
		ol, err := genOsLayer(rnd, cfg, kind)
		if err != nil {
			return err
		}
		r.Case(fmt.Sprintf("os-owned %d %s", i, kind), true)
		r.Count("osowned:container:" + kind)
		scs := ol.active()
		for _, sc := range scs {
			r.Count("osowned:ecosystem:" + sc.eco)
		}

		// (1) one after the other on one layer object; K = reads of the database files by a load
		K := 0
		{
			l, g, err := ol.open()
			if err != nil {
				return err
			}
			g.arm(0)
			ctx, cancel := context.WithCancel(context.Background())
			order := rnd.Intn(len(scs))
			for j := range scs {
				sc := scs[(j+order)%len(scs)]
				res := runScanner(ctx, sc, l)
				if j == 0 {
					K = g.count()
				}
				if bad := ol.judge(res); len(bad) > 0 {
					r.Fail("", fmt.Sprintf("os-owned, scanners one after the other (%s first): %s [%s]", scs[order].eco, strings.Join(bad, "; "), ol.desc))
				} else {
					r.Count("osowned:sequential:ok")
				}
			}
			if K2 := g.count(); K2 != K {
				r.Fail("", fmt.Sprintf("os-owned: the rpm database is read again by later scanners of the same layer (%d reads after the first scanner, %d after all) [%s]", K, K2, ol.desc))
			}
			cancel()
			l.Close()
		}
		r.Count("osowned:load-reads:" + sizeBucket(K))
		if K == 0 {
			r.Fail("", "os-owned: no read of the rpm database was seen ["+ol.desc+"]")
			continue
		}
		points := parkPoints(rnd, K, cfg.N(4, 10))

		// (2) concurrently, the loader held at its k-th read of a database file
		for _, k := range points {
			if r.Stop() {
				break
			}
			if bad := ol.concurrent(rnd, scs, k); len(bad) > 0 {
				r.Fail("", fmt.Sprintf("os-owned, %d scanners started concurrently on one layer, the goroutine loading the rpm database held at read %d of %d of the database files while the others run: %s [%s]", len(scs), k, K, strings.Join(bad, "; "), ol.desc))
			} else {
				r.Count("osowned:concurrent:ok")
			}
		}
		// (3) a first user whose context is cancelled, then scanners with a live context
		for _, k := range append([]int{0}, points...) {
			if r.Stop() {
				break
			}
			if bad := ol.afterCancel(rnd, scs, k); len(bad) > 0 {
				r.Fail("", fmt.Sprintf("os-owned, a first caller of FileInstalledByRPM whose context is cancelled (at read %d of %d of the database files; 0 = before the call), then scanners with a live context on the same layer: %s [%s]", k, K, strings.Join(bad, "; "), ol.desc))
			} else {
				r.Count("osowned:after-cancel:ok")
			}
		}
	}
	return nil
}

// runOsOwnedPatterns replays the recorded finding os-owned-files-outside-patterns: the rpm
// package only remembers the owned files that match its own list of patterns (jar,
// site-packages/*.egg-info/PKG-INFO, package.json, gemspec, /usr/bin, /usr/sbin,
// /usr/libexec/*/); what the language scanners look at is wider.
func runOsOwnedPatterns(r *hx.Run, rnd *hx.Rand) {
	gob := goBinary(rnd, goInfo{goVersion: "go1.21.5", path: "example.com/o/cmd", mainPath: "example.com/o", mainVersion: "v1.0.0"})
	files := []osCand{
		{path: "opt/app/lib/python3.9/site-packages/owned-2.0.dist-info/METADATA", data: []byte("Metadata-Version: 2.1\nName: owned\nVersion: 2.0\n"), eco: "python"},
		{path: "usr/share/tomcat/webapps/owned-1.0.war", data: renderJar(rnd, "org.example", "owned", "1.0"), eco: "java"},
		{path: "usr/lib/golang/bin/go", data: gob, eco: "gobin", mode: 0o755},
		{path: "usr/libexec/docker/cli-plugins/docker-compose", data: gob, eco: "gobin", mode: 0o755},
	}
	owner := rpmPkg{name: "owner", version: "1", release: "1", arch: "x86_64", srpm: "owner-1-1.src.rpm"}
	var ents []ent
	for _, c := range files {
		ents = append(ents, ent{path: c.path, data: c.data, mode: c.mode})
		j := strings.LastIndexByte(c.path, '/')
		owner.dirs = append(owner.dirs, "/"+c.path[:j+1])
		owner.bases = append(owner.bases, c.path[j+1:])
		owner.dirIdx = append(owner.dirIdx, int32(len(owner.dirs)-1))
	}
	ents = append(ents, ent{path: "var/lib/rpm/Packages.db", data: rpmNdb([][]byte{owner.blob()})})
	var reported, silent []string
	for _, sc := range osScanners() {
		got, _, ok := scanLang(sc.s, ents)
		for _, c := range files {
			if c.eco != sc.eco {
				continue
			}
			if _, rep := got[c.path]; rep && ok {
				reported = append(reported, c.path)
			} else {
				silent = append(silent, c.path)
			}
		}
	}
	if len(reported) > 0 {
		r.KnownSeen("os-owned-files-outside-patterns", fmt.Sprintf("files owned by rpm package owner-1-1 (Packages.db) are reported by the language scanners: %v (not reported: %v)", reported, silent))
	}
}

func parkPoints(rnd *hx.Rand, K, n int) []int {
	set := map[int]bool{1: true, K: true}
	if K >= 2 {
		set[2] = true
		set[K-1] = true
	}
	if K >= 3 {
		set[3] = true
	}
	for len(set) < n && len(set) < K {
		set[1+rnd.Intn(K)] = true
	}
	var out []int
	for k := range set {
		out = append(out, k)
	}
	sort.Ints(out)
	return out
}

// concurrent: scanner `first` starts alone and is held at read k; then every other scanner is
// started; when each of them has finished or waits for the load, the loader is let go.
func (ol *osLayer) concurrent(rnd *hx.Rand, scs []osScanner, k int) []string {
	l, g, err := ol.open()
	if err != nil {
		return []string{"cannot open layer: " + err.Error()}
	}
	defer l.Close()
	g.arm(k)
	ctx, cancel := context.WithCancel(context.Background())
	defer cancel()
	// every scanner once, some of them a second time (two index requests sharing the layer)
	scs = append([]osScanner(nil), scs...)
	for n := rnd.Intn(3); n > 0; n-- {
		scs = append(scs, scs[rnd.Intn(len(scs))])
	}
	first := rnd.Intn(len(scs))
	results := make([]osResult, len(scs))
	var wg sync.WaitGroup
	var mu sync.Mutex
	finished := 0
	start := func(i int) {
		wg.Add(1)
		go func() {
			defer wg.Done()
			res := runScanner(ctx, scs[i], l)
			mu.Lock()
			results[i] = res
			finished++
			mu.Unlock()
		}()
	}
	done := func() int { mu.Lock(); defer mu.Unlock(); return finished }
	start(first)
	parked := false
	waitUntil(func() bool {
		select {
		case <-g.parked:
			parked = true
			return true
		default:
		}
		return done() == 1
	})
	for i := range scs {
		if i != first {
			start(i)
		}
	}
	var bad []string
	if parked {
		// everybody has finished or waits for the load
		// (a time-out here only means the schedule was not the intended one; the verdict is
		// about the results)
		waitUntil(func() bool { return done()+blockedInGetFiles() >= len(scs) })
		close(g.release)
	}
	all := make(chan struct{})
	go func() { wg.Wait(); close(all) }()
	select {
	case <-all:
	case <-time.After(osLimit + time.Minute):
		return append(bad, "scanners hang")
	}
	for _, res := range results {
		bad = append(bad, ol.judge(res)...)
	}
	return bad
}

// afterCancel: a direct FileInstalledByRPM call (k = 0: its context is dead already; k > 0:
// cancelled while the load is held at read k), then, once that load has come to its end,
// every scanner with a live context.
func (ol *osLayer) afterCancel(rnd *hx.Rand, scs []osScanner, k int) []string {
	l, g, err := ol.open()
	if err != nil {
		return []string{"cannot open layer: " + err.Error()}
	}
	defer l.Close()
	// references of earlier, cancelled users of other layers may still be on their way out
	waitUntil(func() bool { return gcWaiting() == 0 })
	gcBase := gcWaiting()
	dead, kill := context.WithCancel(context.Background())
	askFor := ol.cands[rnd.Intn(len(ol.cands))].path
	firstDone := make(chan struct{})
	if k == 0 {
		kill()
		// hold the load at its first read (if it reads during the search at all), so that the
		// cache has dropped the dead caller's reference before the load goes on
		g.arm(1)
	} else {
		g.arm(k)
	}
	go func() {
		defer close(firstDone)
		hx.Guard(func() string { rpm.FileInstalledByRPM(dead, l, askFor); return "" })
	}()
	var bad []string
	parked := false
	waitUntil(func() bool {
		select {
		case <-g.parked:
			parked = true
			return true
		case <-firstDone:
			return flightsRunning() == 0
		default:
			return false
		}
	})
	kill()
	if parked {
		// the first caller has left, its reference is dropped; then the load goes on
		select {
		case <-firstDone:
		case <-time.After(osLimit + time.Minute):
			bad = append(bad, "the cancelled caller does not return")
		}
		waitUntil(func() bool { return gcWaiting() <= gcBase })
		close(g.release)
	}
	<-firstDone
	if !waitUntil(func() bool { return flightsRunning() == 0 }) {
		return append(bad, "the load started by the cancelled caller never ends")
	}
	ctx, cancel := context.WithCancel(context.Background())
	defer cancel()
	order := rnd.Intn(len(scs))
	for j := range scs {
		res := runScanner(ctx, scs[(j+order)%len(scs)], l)
		bad = append(bad, ol.judge(res)...)
	}
	return bad
}
