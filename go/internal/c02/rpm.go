package c02

import (
	"context"
	"encoding/binary"
	"fmt"
	"os"
	"path/filepath"
	"sort"
	"strings"

	"github.com/quay/claircore"
	"github.com/quay/claircore/rpm"
	"github.com/quay/claircore/verifharness/internal/hx"
)

// ---- ground truth ----

type rpmPkg struct {
	name             string
	epoch            int32
	hasEpoch         bool
	version, release string
	arch             string
	srpm             string // SOURCERPM tag; "" = tag absent
	module           string // MODULARITYLABEL; "" = absent
	digest           string // sha256 payload digest; "" = absent
	dirs, bases      []string
	dirIdx           []int32
	oldNames         []string // rpm 3 style OLDFILENAMES (absolute paths); nil = absent
	desc             string   // DESCRIPTION; real headers are a few KiB because of it and of the changelog
}

func (p rpmPkg) blob() []byte {
	ents := []rpmEntry{
		rpmString(tagName, p.name), rpmString(tagVersion, p.version), rpmString(tagRelease, p.release),
		rpmStrings(tagSummary, typeI18nString, []string{"summary of " + p.name}),
		rpmString(tagLicense, "MIT"),
		rpmInt32s(tagSize, []int32{12345}),
	}
	if p.arch != "" {
		ents = append(ents, rpmString(tagArch, p.arch))
	}
	if p.hasEpoch {
		ents = append(ents, rpmInt32s(tagEpoch, []int32{p.epoch}))
	}
	if p.srpm != "" {
		ents = append(ents, rpmString(tagSourceRPM, p.srpm))
	}
	if p.module != "" {
		ents = append(ents, rpmString(tagModularityLabel, p.module))
	}
	if p.digest != "" {
		ents = append(ents, rpmStrings(tagPayloadDigest, typeStringArray, []string{p.digest}), rpmInt32s(tagPayloadDigestAlgo, []int32{8}))
	}
	if p.desc != "" {
		ents = append(ents, rpmStrings(tagDescription, typeI18nString, []string{p.desc}))
	}
	if len(p.oldNames) > 0 {
		ents = append(ents, rpmStrings(tagOldFilenames, typeStringArray, p.oldNames))
	}
	if len(p.bases) > 0 {
		ents = append(ents, rpmStrings(tagBasenames, typeStringArray, p.bases), rpmStrings(tagDirnames, typeStringArray, p.dirs), rpmInt32s(tagDirindexes, p.dirIdx))
	}
	return rpmHeaderBlob(ents)
}

func (p rpmPkg) opInfo() string {
	h := func(s string) string { return hx.Hex([]byte(s)) }
	e := int32(0)
	if p.hasEpoch {
		e = p.epoch
	}
	return strings.Join([]string{h(p.name), fmt.Sprint(e), h(p.version), h(p.release), h(p.srpm), h(p.module), h(p.arch)}, ",")
}

type rpmTuple struct {
	name, version, arch, module string
	hasSrc                      bool
	srcName, srcVer, srcModule  string
	db, hint                    string
}

func (t rpmTuple) proto() string {
	h := func(s string) string { return hx.Hex([]byte(s)) }
	f := []string{h(t.name), h(t.version), h(t.arch), h(t.module)}
	if t.hasSrc {
		f = append(f, "src", h(t.srcName), h(t.srcVer), h(t.srcModule))
	} else {
		f = append(f, "nosrc")
	}
	return strings.Join(f, ",")
}

// expected: what the header states (ground truth of the generator, not a parse of the SRPM name)
type rpmGT struct {
	p                       rpmPkg
	srcName, srcVer, srcRel string // "" srcName = "(none)"
	stream                  string // "name:stream" or ""
}

func (g rpmGT) expected(db string) rpmTuple {
	t := rpmTuple{name: g.p.name, arch: g.p.arch, module: g.stream, db: db}
	if g.p.hasEpoch && g.p.epoch != 0 {
		t.version = fmt.Sprintf("%d:", g.p.epoch)
	}
	t.version += g.p.version + "-" + g.p.release
	if g.srcName != "" {
		t.hasSrc, t.srcName, t.srcVer, t.srcModule = true, g.srcName, g.srcVer+"-"+g.srcRel, g.stream
	}
	if g.p.digest != "" {
		t.hint = "hash:sha256:" + g.p.digest
	}
	return t
}

var rpmNames = []string{"bash", "glibc", "openssl-libs", "python3-libs", "libstdc++", "ca-certificates", "kernel-core", "perl-Text-Tabs+Wrap", "java-11-openjdk-headless", "nodejs", "gpg-pubkey", "libgcc", "rpm", "dnf", "tzdata"}

func genRpmDB(r *hx.Rand, n int) []rpmGT {
	var out []rpmGT
	modOf := map[string][2]string{} // SRPM -> module label, stream: one build, one module
	for len(out) < n {
		var g rpmGT
		p := &g.p
		if r.Chance(2, 3) {
			p.name = r.Pick(rpmNames...)
		} else {
			p.name = randFrom(r, "abcdefghijklmnopqrstuvwxyz", 1) + randFrom(r, "abcdefghijklmnopqrstuvwxyz0123456789-_.+", 1+r.Intn(15))
		}
		p.version = randFrom(r, "0123456789", 1) + randFrom(r, "0123456789.abcdefgh~^+_", r.Intn(8))
		p.release = fmt.Sprintf("%d%s", 1+r.Intn(40), r.Pick(".el8", ".el9_2.1", ".fc38", "", ".module+el8.9.0+1234+abcd", ".amzn2"))
		p.arch = r.Pick("x86_64", "noarch", "aarch64", "i686", "s390x", "ppc64le")
		if r.Chance(1, 3) {
			p.hasEpoch = true
			p.epoch = int32(r.Intn(4))
		}
		switch {
		case p.name == "gpg-pubkey":
			p.version, p.release, p.arch = randFrom(r, "0123456789abcdef", 8), randFrom(r, "0123456789abcdef", 8), ""
		case r.Chance(1, 15):
			p.srpm = "(none)"
		default:
			if r.Chance(1, 2) {
				g.srcName = p.name
			} else {
				g.srcName = r.Pick("glibc", "openssl", "python3.9", "gcc", "perl-Text-Tabs+Wrap", "java-11-openjdk", "a-b-c")
			}
			g.srcVer, g.srcRel = p.version, p.release
			if r.Chance(1, 5) {
				g.srcVer = randFrom(r, "0123456789", 1) + "." + randFrom(r, "0123456789", 2)
			}
			p.srpm = g.srcName + "-" + g.srcVer + "-" + g.srcRel + ".src.rpm"
		}
		if r.Chance(1, 5) && p.name != "gpg-pubkey" {
			m, s := r.Pick("nodejs", "perl", "python39", "postgresql"), r.Pick("16", "5.30", "3.9", "rhel8")
			p.module = fmt.Sprintf("%s:%s:%d:%s", m, s, 8090020231130+r.Intn(1000), randFrom(r, "0123456789abcdef", 8))
			g.stream = m + ":" + s
		}
		if g.srcName != "" {
			if ms, ok := modOf[p.srpm]; ok {
				p.module, g.stream = ms[0], ms[1]
			} else {
				modOf[p.srpm] = [2]string{p.module, g.stream}
			}
		}
		if r.Chance(2, 3) {
			p.digest = randFrom(r, "0123456789abcdef", 64)
		}
		if r.Chance(1, 2) {
			p.dirs = []string{"/usr/bin/", "/usr/lib64/", "/usr/share/doc/" + p.name + "/"}
			p.bases = []string{p.name, "lib" + p.name + ".so.1", "README"}
			p.dirIdx = []int32{0, 1, 2}
		}
		out = append(out, g)
	}
	return out
}

type rpmOut struct {
	err, panic bool
	tuples     []rpmTuple
	bad        []string
}

func scanRpm(ents []ent) rpmOut {
	var o rpmOut
	l, err := mkLayer(ents)
	if err != nil {
		o.err = true
		return o
	}
	defer l.Close()
	ctx, cancel := context.WithCancel(context.Background())
	defer cancel()
	res := hx.Guard(func() string {
		ps, err := (&rpm.Scanner{}).Scan(ctx, l)
		if err != nil {
			o.err = true
			return "err"
		}
		for _, p := range ps {
			t := rpmTuple{name: p.Name, version: p.Version, arch: p.Arch, module: p.Module, db: p.PackageDB, hint: p.RepositoryHint}
			if p.Kind != claircore.BINARY || p.NormalizedVersion.Kind != "" || p.Filepath != "" || p.CPE != zeroCPE {
				o.bad = append(o.bad, p.Name+": constants")
			}
			if p.Source != nil {
				t.hasSrc, t.srcName, t.srcVer, t.srcModule = true, p.Source.Name, p.Source.Version, p.Source.Module
				if p.Source.Kind != claircore.SOURCE || p.Source.Arch != "" || p.Source.Source != nil {
					o.bad = append(o.bad, p.Name+": source constants")
				}
			}
			o.tuples = append(o.tuples, t)
		}
		return "ok"
	})
	o.panic = res == "panic"
	return o
}

func rpmProto(ts []rpmTuple) string {
	l := []string{fmt.Sprintf("ok %d", len(ts))}
	for _, t := range ts {
		l = append(l, t.proto())
	}
	return strings.Join(l, " ")
}

func runRpm(r *hx.Run, rnd *hx.Rand, cfg hx.Config) error {
	tmp := cfg.OutDir
	n := cfg.N(80, 2000)
	for i := 0; i < n && !r.Stop(); i++ {
		k := rnd.Intn(9)
		if i%40 == 7 {
			k = 300 + rnd.Intn(400)
		}
		db := genRpmDB(rnd, k)
		blobs := make([][]byte, len(db))
		infos := make([]string, len(db))
		for j, g := range db {
			blobs[j] = g.p.blob()
			infos[j] = g.p.opInfo()
		}
		dir := rnd.Pick("var/lib/rpm", "var/lib/rpm", "usr/lib/sysimage/rpm", "opt/chroot/var/lib/rpm")
		kind := rnd.Pick("sqlite", "ndb", "ndb", "bdb", "bdb")
		var ents []ent
		switch kind {
		case "bdb":
			lay := bdbFreshLayout(rnd, len(blobs))
			if rnd.Chance(3, 4) {
				lay = bdbRandomLayout(rnd, len(blobs))
			}
			// real headers are bigger than a quarter page (some fifty index entries alone are
			// 800 bytes); make most of the generated ones so, and keep a few small
			for j := range db {
				if !rnd.Chance(1, 12) {
					db[j].p.desc = strings.Repeat("Lorem ipsum dolor sit amet. ", 1+lay.pageSize/4/28)
					if rnd.Chance(1, 3) {
						db[j].p.desc += strings.Repeat("x", rnd.Intn(3*lay.pageSize))
					}
					blobs[j] = db[j].p.blob()
				}
			}
			file, order, inl := rpmBdb(blobs, lay)
			var db2 []rpmGT
			var infos2 []string
			for k, i := range order {
				if inl[k] {
					// at most a quarter page: libdb keeps it in the bucket page (/repo fix fecbf23e reads it)
					r.Count("rpm:bdb:inline-header")
				}
				db2, infos2 = append(db2, db[i]), append(infos2, infos[i])
			}
			db, infos = db2, infos2
			ents = append(ents, ent{path: dir + "/Packages", data: file})
			r.Count(fmt.Sprintf("rpm:bdb:pagesize:%d", lay.pageSize))
			r.Count(fmt.Sprintf("rpm:bdb:big-endian:%v", lay.bigEndian))
			r.Count(fmt.Sprintf("rpm:bdb:sorted:%v", lay.sorted))
			r.Count(fmt.Sprintf("rpm:bdb:scatter:%v", lay.scatter))
			r.Count(fmt.Sprintf("rpm:bdb:bucket-pages:%s", sizeBucket(len(lay.perBucket))))
		case "sqlite":
			b, err := rpmSqlite(tmp, blobs)
			if err != nil {
				return fmt.Errorf("building rpmdb.sqlite: %w", err)
			}
			ents = append(ents, ent{path: dir + "/rpmdb.sqlite", data: b})
		case "ndb":
			lay := ndbFresh(len(blobs))
			if rnd.Chance(2, 3) {
				// a database with history: erased packages, reused slots
				lay = ndbHistory(rnd, len(blobs))
				r.Count(fmt.Sprintf("rpm:ndb:history:slot-pages:%d", lay.npages))
				// the headers are met in slot order
				o := lay.slotOrder()
				db2, infos2 := make([]rpmGT, len(db)), make([]string, len(db))
				for k, i := range o {
					db2[k], infos2[k] = db[i], infos[i]
				}
				if len(o) > 0 && o[0] != 0 {
					r.Count("rpm:ndb:history:reordered")
				}
				ents = append(ents, ent{path: dir + "/Packages.db", data: rpmNdbLayout(blobs, lay)})
				db, infos = db2, infos2
			} else {
				r.Count("rpm:ndb:fresh")
				ents = append(ents, ent{path: dir + "/Packages.db", data: rpmNdbLayout(blobs, lay)})
			}
		}
		r.Count("rpm:container:" + kind)
		r.Count("rpm:headers:" + sizeBucket(k))
		got := scanRpm(ents)
		dbName := kind + ":" + dir
		var want []rpmTuple
		srcless := false
		for _, g := range db {
			if g.p.name == "gpg-pubkey" {
				r.Count("rpm:pubkey")
				continue
			}
			if g.p.module != "" {
				r.Count("rpm:modular")
			}
			if g.srcName == "" {
				srcless = true
			}
			want = append(want, g.expected(dbName))
		}
		_ = srcless
		out := "err"
		switch {
		case got.panic:
			out = "panic"
		case !got.err:
			out = rpmProto(got.tuples)
		}
		r.Op("rpm "+strings.Join(infos, " "), out, len(want) > 0)
		wit := fmt.Sprintf("%s with headers [%s]", dbName, strings.Join(infos, " "))
		if len(wit) > 1500 {
			wit = wit[:1500] + "…"
		}
		switch {
		case got.err || got.panic:
			r.Fail("", "rpm.Scanner.Scan fails on a well-formed database: "+wit)
		case len(got.bad) > 0:
			r.Fail("", "rpm package constants: "+strings.Join(got.bad, ";")+" "+wit)
		case len(got.tuples) != len(want):
			r.Fail("", fmt.Sprintf("rpm: %d packages reported, the database holds %d: %s", len(got.tuples), len(want), wit))
		default:
			okAll := true
			for j := range want {
				g, w := got.tuples[j], want[j]
				if g != w {
					okAll = false
					r.Fail("", fmt.Sprintf("rpm: header %d reported as %+v, it states %+v: %s", j, g, w, wit))
					break
				}
			}
			if okAll {
				r.Count("rpm:oracle:exact")
			}
		}
	}
	// headers outside the well-formed class: correspondence of the error path
	for _, s := range []string{"nosuffix", "a-b", "-1-2.src.rpm", "x-1-2", "x-1-2.src.rpm.src.rpm", "n-0:1-2.src.rpm", "n--.src.rpm", ".src.rpm"} {
		p := rpmPkg{name: "odd", version: "1", release: "2", arch: "noarch", srpm: s}
		q := rpmPkg{name: "second", version: "1", release: "2", arch: "noarch", srpm: s, module: "m:s"}
		b, err := rpmSqlite(tmp, [][]byte{p.blob(), q.blob()})
		if err != nil {
			return err
		}
		got := scanRpm([]ent{{path: "var/lib/rpm/rpmdb.sqlite", data: b}})
		out := "err"
		if !got.err && !got.panic {
			out = rpmProto(got.tuples)
		}
		r.Op("rpm "+p.opInfo()+" "+q.opInfo(), out, true)
		r.Count("rpm:odd-source-nevr")
	}
	// fixed defect 857f8c86 and the shapes around it: fixed ndb layouts with three packages
	{
		mk := func(n string) rpmPkg {
			return rpmPkg{name: n, version: "1", release: "1", arch: "noarch", srpm: n + "-1-1.src.rpm"}
		}
		ps := []rpmPkg{mk("a"), mk("b"), mk("c")}
		blobs := [][]byte{ps[0].blob(), ps[1].blob(), ps[2].blob()}
		for _, c := range []struct {
			what string
			l    ndbLayout
		}{
			{"free slot in the middle (an erased package)", ndbLayout{npages: 1, slot: []int{0, 2, 3}, index: []uint32{1, 3, 4}, blobSeq: []int{0, 1, 2}, gapBlks: []int{0, 0, 0}, nextIdx: 5}},
			{"free slots at the start", ndbLayout{npages: 1, slot: []int{5, 6, 9}, index: []uint32{6, 7, 8}, blobSeq: []int{0, 1, 2}, gapBlks: []int{0, 0, 0}, nextIdx: 9}},
			{"the newest package reuses the first slot (highest index first)", ndbLayout{npages: 1, slot: []int{1, 0, 2}, index: []uint32{1, 5, 3}, blobSeq: []int{2, 0, 1}, gapBlks: []int{1, 0, 3}, nextIdx: 6}},
			{"packages in the second slot page", ndbLayout{npages: 2, slot: []int{3, 260, 400}, index: []uint32{2, 3, 4}, blobSeq: []int{0, 1, 2}, gapBlks: []int{0, 0, 0}, nextIdx: 5}},
			{"the highest index was erased", ndbLayout{npages: 1, slot: []int{0, 1, 2}, index: []uint32{1, 2, 3}, blobSeq: []int{0, 1, 2}, gapBlks: []int{0, 0, 0}, nextIdx: 9}},
			{"blobs written in reverse order", ndbLayout{npages: 1, slot: []int{0, 1, 2}, index: []uint32{1, 2, 3}, blobSeq: []int{2, 1, 0}, gapBlks: []int{2, 0, 1}, nextIdx: 4}},
		} {
			got := scanRpm([]ent{{path: "var/lib/rpm/Packages.db", data: rpmNdbLayout(blobs, c.l)}})
			var infos []string
			for _, i := range c.l.slotOrder() {
				infos = append(infos, ps[i].opInfo())
			}
			out := "err"
			if !got.err && !got.panic {
				out = rpmProto(got.tuples)
			}
			r.Op("rpm "+strings.Join(infos, " "), out, true)
			names := map[string]bool{}
			for _, t := range got.tuples {
				names[t.name] = true
			}
			if got.err || got.panic || len(got.tuples) != 3 || !names["a"] || !names["b"] || !names["c"] {
				r.Fail("", fmt.Sprintf("rpm ndb: Packages.db with packages a, b, c in slots %v with indexes %v (%s): reported %v", c.l.slot, c.l.index, c.what, rpmProto(got.tuples)))
			}
			r.Count("rpm:ndb:fixed-layouts")
		}
	}
	runBdbCorpus(r, cfg.Corpus)
	if err := runRpmMulti(r, rnd, cfg); err != nil {
		return err
	}
	// no database: nothing
	if o := scanRpm([]ent{{path: "var/lib/rpm/other", data: []byte("x")}}); o.err || len(o.tuples) != 0 {
		r.Fail("", "rpm: a layer without a database reports packages or fails")
	}
	return nil
}

// runBdbCorpus scans the Packages files under corpus/C02/bdb, which were written by libdb 5.3
// itself (through perl's DB_File, see mkbdb.pl there): hash databases with 512 ... 16384-byte
// pages, either byte order, with and without a history of deletions. <name>.expect lists the
// headers ("name length").
func runBdbCorpus(r *hx.Run, dir string) {
	files, _ := filepath.Glob(filepath.Join(dir, "bdb", "*.Packages"))
	sort.Strings(files)
	for _, fn := range files {
		b, err := os.ReadFile(fn)
		if err != nil || len(b) < 512 {
			continue
		}
		exp, err := os.ReadFile(strings.TrimSuffix(fn, ".Packages") + ".expect")
		if err != nil {
			continue
		}
		ps := binary.LittleEndian.Uint32(b[20:])
		if ps > 1<<16 {
			ps = binary.BigEndian.Uint32(b[20:])
		}
		want, small := map[string]bool{}, map[string]bool{}
		for _, l := range strings.Split(strings.TrimSpace(string(exp)), "\n") {
			var n string
			var sz int
			if _, err := fmt.Sscanf(l, "%s %d", &n, &sz); err != nil {
				continue
			}
			want[n] = true
			if uint32(sz) <= ps/4 {
				small[n] = true
			}
		}
		got := scanRpm([]ent{{path: "var/lib/rpm/Packages", data: b}})
		r.Case("bdb-corpus "+filepath.Base(fn), true)
		r.Count("rpm:bdb:libdb-written")
		names := map[string]bool{}
		for _, t := range got.tuples {
			if names[t.name] {
				r.Fail("", fmt.Sprintf("rpm bdb: %s (written by libdb): %s reported twice", filepath.Base(fn), t.name))
			}
			names[t.name] = true
			if !want[t.name] || t.version != "1."+strings.TrimPrefix(t.name, "p")+"-1" || t.arch != "noarch" {
				r.Fail("", fmt.Sprintf("rpm bdb: %s (written by libdb): reported %+v, which the database does not hold", filepath.Base(fn), t))
			}
		}
		var missing, missingSmall []string
		for n := range want {
			if !names[n] {
				if small[n] {
					missingSmall = append(missingSmall, n)
				} else {
					missing = append(missing, n)
				}
			}
		}
		sort.Strings(missing)
		sort.Strings(missingSmall)
		switch {
		case got.err || got.panic:
			r.Fail("", fmt.Sprintf("rpm bdb: %s (written by libdb): scan fails", filepath.Base(fn)))
		case len(missing) > 0:
			r.Fail("", fmt.Sprintf("rpm bdb: %s (written by libdb, %d-byte pages): headers %v are not reported", filepath.Base(fn), ps, missing))
		case len(missingSmall) > 0:
			r.Fail("", fmt.Sprintf("rpm bdb: %s (written by libdb 5.3, %d-byte pages): the headers of at most %d bytes (kept in the bucket page itself) %v are not reported", filepath.Base(fn), ps, ps/4, missingSmall))
		default:
			r.Count("rpm:bdb:libdb-written:exact")
		}
	}
}

// runRpmMulti: several rpm databases in one layer, at arbitrary paths, of equal or different
// kinds (a chroot or an installroot next to the system's own database): each is reported in
// full under its own PackageDB.
func runRpmMulti(r *hx.Run, rnd *hx.Rand, cfg hx.Config) error {
	dirs := []string{"var/lib/rpm", "usr/lib/sysimage/rpm", "opt/chroot/var/lib/rpm", "mnt/sysroot/usr/lib/sysimage/rpm", "srv/installroot/var/lib/rpm", "a/b/c"}
	for i := 0; i < cfg.N(25, 400) && !r.Stop(); i++ {
		k := 2 + rnd.Intn(2)
		perm := rnd.Intn(len(dirs))
		var ents []ent
		type one struct {
			name string
			want []rpmTuple
			info []string
		}
		var dbs []one
		kinds := ""
		for j := 0; j < k; j++ {
			dir := dirs[(perm+j*5)%len(dirs)]
			dup := false
			for _, d := range dbs {
				dup = dup || strings.HasSuffix(d.name, ":"+dir)
			}
			if dup {
				continue
			}
			db := genRpmDB(rnd, 1+rnd.Intn(6))
			for x := range db {
				db[x].p.desc = strings.Repeat("Some description. ", 80)
			}
			blobs := make([][]byte, len(db))
			for x, g := range db {
				blobs[x] = g.p.blob()
			}
			kind := rnd.Pick("sqlite", "ndb", "bdb")
			kinds += kind + " "
			order := make([]int, len(db))
			for x := range order {
				order[x] = x
			}
			switch kind {
			case "sqlite":
				b, err := rpmSqlite(cfg.OutDir, blobs)
				if err != nil {
					return err
				}
				ents = append(ents, ent{path: dir + "/rpmdb.sqlite", data: b})
			case "ndb":
				ents = append(ents, ent{path: dir + "/Packages.db", data: rpmNdb(blobs)})
			case "bdb":
				lay := bdbFreshLayout(rnd, len(blobs))
				lay.pageSize = 1024
				f, o, _ := rpmBdb(blobs, lay)
				order = o
				ents = append(ents, ent{path: dir + "/Packages", data: f})
			}
			d := one{name: kind + ":" + dir}
			for _, x := range order {
				d.info = append(d.info, db[x].p.opInfo())
				if db[x].p.name != "gpg-pubkey" {
					d.want = append(d.want, db[x].expected(d.name))
				}
			}
			dbs = append(dbs, d)
		}
		got := scanRpm(ents)
		r.Case(fmt.Sprintf("rpm-multi %d", i), true)
		r.Count(fmt.Sprintf("rpm:multi:databases:%d", len(dbs)))
		if got.err || got.panic || len(got.bad) > 0 {
			r.Fail("", fmt.Sprintf("rpm.Scanner.Scan fails on a layer with %d databases (%s)", len(dbs), kinds))
			continue
		}
		byDB := map[string][]rpmTuple{}
		for _, t := range got.tuples {
			byDB[t.db] = append(byDB[t.db], t)
		}
		for _, d := range dbs {
			g := byDB[d.name]
			delete(byDB, d.name)
			r.Op("rpm "+strings.Join(d.info, " "), rpmProto(g), true)
			same := len(g) == len(d.want)
			for x := 0; same && x < len(g); x++ {
				same = g[x] == d.want[x]
			}
			if !same {
				var names []string
				for _, o := range dbs {
					names = append(names, o.name)
				}
				r.Fail("", fmt.Sprintf("rpm: a layer with the databases %v: %s holds %d packages, %d are reported: headers [%s]", names, d.name, len(d.want), len(g), strings.Join(d.info, " ")))
			} else {
				r.Count("rpm:multi:oracle:exact")
			}
		}
		for n, ts := range byDB {
			r.Fail("", fmt.Sprintf("rpm: %d packages reported for a database %s that is not in the layer", len(ts), n))
		}
	}
	return nil
}
