package c02

import (
	"bufio"
	"bytes"
	"context"
	"crypto/md5"
	"encoding/hex"
	"errors"
	"fmt"
	"io"
	"net/textproto"
	"sort"
	"strings"

	"github.com/quay/claircore"
	"github.com/quay/claircore/dpkg"
	"github.com/quay/claircore/verifharness/internal/hx"
)

// ---- ground truth: a set of dpkg status entries ----

type debPkg struct {
	name, version, arch string
	want, flag, state   string // Status: want flag state
	srcName, srcVer     string // srcName=="" : no Source field; srcVer=="" : "Source: name"
	extras              []field
}

// field is one written field: key, separator after the colon, first line, continuation lines.
type field struct {
	key, sep, first string
	conts           []string // complete continuation lines (leading white space included)
}

func (p debPkg) installed() bool { return p.flag == "ok" && p.state == "installed" }

// tuple is the canonical form of one reported package.
type tuple struct {
	name, version, arch, srcName, srcVer string
	db                                   string
}

func (t tuple) protoString() string {
	return strings.Join([]string{hx.Hex([]byte(t.name)), hx.Hex([]byte(t.version)), hx.Hex([]byte(t.arch)), hx.Hex([]byte(t.srcName)), hx.Hex([]byte(t.srcVer))}, ",")
}

func (p debPkg) expected(db string) tuple {
	t := tuple{name: p.name, version: p.version, arch: p.arch, srcName: p.name, srcVer: p.version, db: db}
	if p.srcName != "" {
		t.srcName = p.srcName
		if p.srcVer != "" {
			t.srcVer = p.srcVer
		}
	}
	return t
}

// expectedDB is the statement's answer for one database: every installed entry, as written.
func expectedDB(db []debPkg, path string) []tuple {
	var out []tuple
	for _, p := range db {
		if p.installed() {
			out = append(out, p.expected(path))
		}
	}
	return out
}

// knownDefects applies the two recorded defects of parseStatus to the expected answer:
// bin is keyed by name only (the last installed stanza of a name wins), and the source
// version is that of the first stanza naming the source explicitly.
func knownDefects(db []debPkg, path string) (out []tuple, dup, srcDisagree bool) {
	src := map[string]string{}
	idx := map[string]int{}
	for _, p := range db {
		if !p.installed() {
			continue
		}
		t := p.expected(path)
		if p.srcName != "" {
			if v, ok := src[p.srcName]; ok {
				if v != t.srcVer {
					srcDisagree = true
				}
				t.srcVer = v
			} else {
				src[p.srcName] = t.srcVer
			}
		}
		if i, ok := idx[p.name]; ok {
			dup = true
			out[i] = t
		} else {
			idx[p.name] = len(out)
			out = append(out, t)
		}
	}
	return out, dup, srcDisagree
}

func sortTuples(ts []tuple) []tuple {
	out := append([]tuple(nil), ts...)
	sort.Slice(out, func(i, j int) bool {
		a, b := out[i], out[j]
		if a.db != b.db {
			return a.db < b.db
		}
		return a.protoString() < b.protoString()
	})
	return out
}

func sameTuples(a, b []tuple) bool {
	a, b = sortTuples(a), sortTuples(b)
	if len(a) != len(b) {
		return false
	}
	for i := range a {
		if a[i] != b[i] {
			return false
		}
	}
	return true
}

// ---- generators ----

var debNames = []string{"libc6", "bash", "coreutils", "libssl1.1", "libstdc++6", "gcc-10-base", "python3.9-minimal", "libgcc-s1", "tzdata", "base-files", "dpkg", "apt", "perl-base", "zlib1g", "libncursesw6", "0ad", "g++", "libsigc++-2.0-0v5", "a2ps", "x11-common"}
var debArches = []string{"amd64", "i386", "arm64", "armhf", "all", "ppc64el", "s390x", "riscv64"}

func randFrom(r *hx.Rand, alphabet string, n int) string {
	b := make([]byte, n)
	for i := range b {
		b[i] = alphabet[r.Intn(len(alphabet))]
	}
	return string(b)
}

func genDebName(r *hx.Rand) string {
	if r.Chance(1, 2) {
		return r.Pick(debNames...)
	}
	const first = "abcdefghijklmnopqrstuvwxyz0123456789"
	return randFrom(r, first, 1) + randFrom(r, first+"+.-", 1+r.Intn(18))
}

func genDebVersion(r *hx.Rand) string {
	const up = "abcdefghijklmnopqrstuvwxyzABCDEFGHIJKLMNOPQRSTUVWXYZ0123456789.+~"
	v := randFrom(r, "0123456789", 1) + randFrom(r, up, r.Intn(10))
	if r.Chance(1, 3) {
		v = r.Pick("1", "2", "0", "10") + ":" + v
	}
	if r.Chance(2, 3) {
		if r.Chance(1, 4) {
			v += "-" + randFrom(r, "0123456789", 1) // hyphen inside upstream
		}
		v += "-" + randFrom(r, "0123456789", 1) + randFrom(r, up, r.Intn(8))
	}
	if r.Chance(1, 6) {
		v += r.Pick("+deb11u5", "~bpo10+1", "+b1", "ubuntu0.20.04.1", "~rc1")
	}
	return v
}

var dpkgWant = []string{"install", "hold", "deinstall", "purge", "unknown"}
var dpkgFlag = []string{"ok", "ok", "ok", "ok", "reinstreq"}
var dpkgState = []string{"installed", "installed", "installed", "installed", "installed", "not-installed", "config-files", "half-installed", "unpacked", "half-configured", "triggers-awaited", "triggers-pending"}

type dbOpts struct {
	allowDup         bool // two installed stanzas of one name (multi-arch)
	allowSrcDisagree bool // one source name with two versions
}

func genDebDB(r *hx.Rand, n int, o dbOpts) []debPkg {
	var db []debPkg
	used := map[string]bool{}
	srcVer := map[string]string{}
	for len(db) < n {
		p := debPkg{name: genDebName(r), version: genDebVersion(r), arch: r.Pick(debArches...)}
		if r.Chance(9, 10) {
			p.want, p.flag, p.state = "install", "ok", "installed"
		} else {
			p.want, p.flag, p.state = r.Pick(dpkgWant...), r.Pick(dpkgFlag...), r.Pick(dpkgState...)
		}
		if used[p.name] {
			if !o.allowDup || !r.Chance(1, 2) {
				continue
			}
			// the multi-arch shape: same name and version, another architecture
			for _, q := range db {
				if q.name == p.name {
					p.version = q.version
					for p.arch == q.arch {
						p.arch = r.Pick(debArches...)
					}
				}
			}
		}
		switch r.Intn(4) {
		case 0:
			p.srcName = genDebName(r)
		case 1:
			p.srcName = genDebName(r)
			p.srcVer = genDebVersion(r)
		}
		if p.srcName != "" {
			eff := p.srcVer
			if eff == "" {
				eff = p.version
			}
			if v, ok := srcVer[p.srcName]; ok && v != eff {
				if !o.allowSrcDisagree {
					// make it agree: state the first version explicitly
					p.srcVer = v
				}
			} else if !ok && p.installed() {
				srcVer[p.srcName] = eff
			}
		}
		used[p.name] = true
		p.extras = genExtras(r)
		db = append(db, p)
	}
	return db
}

func genExtras(r *hx.Rand) []field {
	var fs []field
	if r.Chance(1, 2) {
		fs = append(fs, field{key: "Priority", sep: " ", first: r.Pick("optional", "required", "important")})
	}
	if r.Chance(1, 2) {
		fs = append(fs, field{key: "Section", sep: " ", first: r.Pick("libs", "admin", "utils", "non-free/libs")})
	}
	if r.Chance(1, 2) {
		fs = append(fs, field{key: "Installed-Size", sep: " ", first: fmt.Sprint(r.Intn(100000))})
	}
	if r.Chance(1, 2) {
		fs = append(fs, field{key: "Maintainer", sep: " ", first: "GNU Libc Maintainers <debian-glibc@lists.debian.org>"})
	}
	if r.Chance(1, 3) {
		fs = append(fs, field{key: "Multi-Arch", sep: " ", first: r.Pick("same", "foreign", "allowed")})
	}
	if r.Chance(1, 2) {
		f := field{key: "Depends", sep: " ", first: "libc6 (>= 2.14), libgcc-s1 (>= 3.0),"}
		for i := r.Intn(3); i > 0; i-- {
			f.conts = append(f.conts, r.Pick(" ", "  ", "\t")+"zlib1g (>= 1:1.1.4), perl:any")
		}
		fs = append(fs, f)
	}
	if r.Chance(1, 3) {
		f := field{key: "Conffiles", sep: "", first: ""}
		for i := 1 + r.Intn(3); i > 0; i-- {
			f.conts = append(f.conts, " /etc/"+randFrom(r, "abcdefgh.", 6)+" "+randFrom(r, "0123456789abcdef", 32))
		}
		fs = append(fs, f)
	}
	if r.Chance(2, 3) {
		f := field{key: "Description", sep: " ", first: "GNU C Library: Shared libraries"}
		for i := r.Intn(5); i > 0; i-- {
			f.conts = append(f.conts, r.Pick(" Contains the standard libraries that are used by nearly all programs on", " .", "  * a list item: with a colon", " Homepage: https://example.org/x", "\tindented by a tab", " Status: install ok installed", " Package: decoy"))
		}
		fs = append(fs, f)
	}
	if r.Chance(1, 4) {
		fs = append(fs, field{key: "Homepage", sep: " ", first: "https://www.gnu.org/software/libc/libc.html"})
	}
	if r.Chance(1, 8) {
		fs = append(fs, field{key: "Original-Maintainer", sep: " ", first: "Zo\xc3\xab <zoe@example.org>"})
	}
	if r.Chance(1, 150) {
		// lines beyond bufio's default buffers (4 KiB reader, 64 KiB scanner token): legal, and
		// met in practice (Depends/Provides of metapackages, Conffiles)
		f := field{key: r.Pick("Provides", "Depends", "Breaks"), sep: " "}
		n := (64<<10)/22 + r.Intn(3000)
		var b strings.Builder
		for i := 0; i < n; i++ {
			fmt.Fprintf(&b, "libfoo%05d (>= 1.%d), ", i, i%10)
		}
		f.first = b.String() + "libend"
		if r.Chance(1, 2) {
			f.conts = append(f.conts, " "+b.String()+"libend2")
		}
		fs = append(fs, f)
	}
	return fs
}

type serOpts struct {
	lead    int    // blank lines before the first stanza
	gapMax  int    // blank lines between stanzas: 1..gapMax
	tail    string // after the last stanza's final "\n": "\n" (usual), "" or "\n\n\n"
	noFinal bool   // no "\n" after the very last line
	shuffle bool
	keyCase bool // vary the case of field names
	sepVar  bool // vary white space after the colon and at line ends
	crlf    bool
}

func genSerOpts(r *hx.Rand) serOpts {
	o := serOpts{gapMax: 1, tail: "\n", shuffle: r.Chance(2, 3), keyCase: r.Chance(1, 5), sepVar: r.Chance(1, 3)}
	if r.Chance(1, 5) {
		o.lead = 1 + r.Intn(2)
	}
	if r.Chance(1, 4) {
		o.gapMax = 3
	}
	switch r.Intn(6) {
	case 0:
		o.tail = ""
	case 1:
		o.tail = ""
		o.noFinal = true
	case 2:
		o.tail = "\n\n\n"
	}
	return o
}

func varyKey(r *hx.Rand, k string) string {
	switch r.Intn(3) {
	case 0:
		return strings.ToLower(k)
	case 1:
		return strings.ToUpper(k)
	}
	b := []byte(k)
	for i := range b {
		if r.Chance(1, 2) {
			b[i] = byte(strings.ToUpper(string(b[i]))[0])
		} else {
			b[i] = byte(strings.ToLower(string(b[i]))[0])
		}
	}
	return string(b)
}

func (p debPkg) fields(r *hx.Rand, o serOpts) []field {
	fs := []field{
		{key: "Package", sep: " ", first: p.name},
		{key: "Status", sep: " ", first: p.want + " " + p.flag + " " + p.state},
		{key: "Architecture", sep: " ", first: p.arch},
		{key: "Version", sep: " ", first: p.version},
	}
	if p.srcName != "" {
		s := p.srcName
		if p.srcVer != "" {
			s += " (" + p.srcVer + ")"
		}
		fs = append(fs, field{key: "Source", sep: " ", first: s})
	}
	fs = append(fs, p.extras...)
	if o.shuffle {
		for i := len(fs) - 1; i > 0; i-- {
			j := r.Intn(i + 1)
			fs[i], fs[j] = fs[j], fs[i]
		}
	}
	for i := range fs {
		if o.keyCase && r.Chance(1, 2) {
			fs[i].key = varyKey(r, fs[i].key)
		}
		if o.sepVar {
			if fs[i].first != "" || len(fs[i].conts) == 0 {
				fs[i].sep = r.Pick(" ", "", "  ", "\t", " \t ")
			}
			if r.Chance(1, 3) {
				fs[i].first += r.Pick(" ", "\t", "  ")
			}
		}
	}
	return fs
}

func writeFields(w *bytes.Buffer, fs []field, nl string) {
	for _, f := range fs {
		w.WriteString(f.key + ":" + f.sep + f.first + nl)
		for _, c := range f.conts {
			w.WriteString(c + nl)
		}
	}
}

// renderStatus is the harness's own writer of a dpkg status file.
func renderStatus(r *hx.Rand, db []debPkg, o serOpts) []byte {
	var w bytes.Buffer
	nl := "\n"
	if o.crlf {
		nl = "\r\n"
	}
	for i := 0; i < o.lead; i++ {
		w.WriteString(nl)
	}
	for i, p := range db {
		writeFields(&w, p.fields(r, o), nl)
		if i < len(db)-1 {
			for k := 1 + r.Intn(o.gapMax); k > 0; k-- {
				w.WriteString(nl)
			}
		}
	}
	if len(db) > 0 {
		w.WriteString(o.tail)
	}
	b := w.Bytes()
	if o.noFinal && len(b) > 0 && b[len(b)-1] == '\n' {
		b = b[:len(b)-1]
	}
	return b
}

// ---- the real scanner ----

var zeroCPE = (claircore.Package{}).CPE

type dbFile struct {
	dir    string // "" = layer root
	status []byte
	md5    map[string][]byte // info/<key>.md5sums
}

func (d dbFile) statusPath() string {
	if d.dir == "" {
		return "status"
	}
	return d.dir + "/status"
}

func join(dir, f string) string {
	if dir == "" {
		return f
	}
	return dir + "/" + f
}

type scanOut struct {
	err    bool
	panic  bool
	tuples []tuple
	hints  map[string]string // db|name -> RepositoryHint
	bad    []string          // violations of the constant fields
}

func scanDpkg(dbs []dbFile, extra []ent) scanOut {
	var ents []ent
	for _, d := range dbs {
		ents = append(ents, ent{path: d.statusPath(), data: d.status}, ent{path: join(d.dir, "info"), dir: true})
		keys := make([]string, 0, len(d.md5))
		for k := range d.md5 {
			keys = append(keys, k)
		}
		sort.Strings(keys)
		for _, k := range keys {
			ents = append(ents, ent{path: join(d.dir, "info/"+k+".md5sums"), data: d.md5[k]})
		}
	}
	ents = append(ents, extra...)
	var out scanOut
	l, err := mkLayer(ents)
	if err != nil {
		out.err = true
		out.bad = append(out.bad, "layer: "+err.Error())
		return out
	}
	defer l.Close()
	res := hx.Guard(func() string {
		ps, err := (&dpkg.Scanner{}).Scan(context.Background(), l)
		if err != nil {
			out.err = true
			return "err"
		}
		out.hints = map[string]string{}
		for _, p := range ps {
			t := tuple{name: p.Name, version: p.Version, arch: p.Arch, db: p.PackageDB}
			if p.Kind != claircore.BINARY {
				out.bad = append(out.bad, fmt.Sprintf("%s: Kind=%q", p.Name, p.Kind))
			}
			if p.Module != "" || p.NormalizedVersion.Kind != "" || p.Filepath != "" || p.CPE != zeroCPE {
				out.bad = append(out.bad, fmt.Sprintf("%s: unexpected module/normalized version/filepath/cpe", p.Name))
			}
			if p.Source == nil {
				out.bad = append(out.bad, fmt.Sprintf("%s: nil Source", p.Name))
			} else {
				t.srcName, t.srcVer = p.Source.Name, p.Source.Version
				if p.Source.Kind != claircore.SOURCE || p.Source.PackageDB != p.PackageDB || p.Source.Arch != "" || p.Source.Source != nil {
					out.bad = append(out.bad, fmt.Sprintf("%s: source kind/db/arch wrong", p.Name))
				}
			}
			out.tuples = append(out.tuples, t)
			out.hints[p.PackageDB+"|"+p.Name] = p.RepositoryHint
		}
		return "ok"
	})
	if res == "panic" {
		out.panic = true
	}
	return out
}

func protoList(ts []tuple, sorted bool) string {
	l := make([]string, len(ts))
	for i, t := range ts {
		l[i] = t.protoString()
	}
	if sorted {
		sort.Strings(l)
	}
	return strings.Join(append([]string{fmt.Sprintf("ok %d", len(l))}, l...), " ")
}

// opDpkg records the correspondence line of one status file, scanned on its own.
func opDpkg(r *hx.Run, status []byte, nontrivial bool) scanOut {
	so := scanDpkg([]dbFile{{dir: "var/lib/dpkg", status: status}}, nil)
	out := "err"
	switch {
	case so.panic:
		out = "panic"
		r.Fail("", "dpkg.Scanner.Scan panics on status file "+quoteShort(status))
	case !so.err:
		out = protoList(so.tuples, true)
	}
	r.Op("dpkg "+hx.Hex(status), out, nontrivial)
	return so
}

func quoteShort(b []byte) string {
	if len(b) > 1500 {
		return fmt.Sprintf("%q...(%d bytes) hex-sha=%x", b[:1500], len(b), md5.Sum(b))
	}
	return fmt.Sprintf("%q", b)
}

// ---- net/textproto contract ----

func mimeCalls(b []byte) string {
	return hx.Guard(func() string {
		tp := textproto.NewReader(bufio.NewReader(bytes.NewReader(b)))
		var evs []string
		for i := 0; i < len(b)+3; i++ {
			h, err := tp.ReadMIMEHeader()
			kind := "nil"
			var pe textproto.ProtocolError
			switch {
			case err == nil:
			case errors.Is(err, io.EOF):
				kind = "eof"
			case errors.As(err, &pe):
				kind = "proto"
			default:
				kind = "other"
			}
			// canonical order: the model keeps insertion order of (key, value) pairs; a Go map
			// does not, so the pairs are listed per key in sorted key order on both sides
			evs = append(evs, kind+":"+hdrString(h))
			if kind == "eof" {
				break
			}
		}
		return strings.Join(evs, " ")
	})
}

func hdrString(h textproto.MIMEHeader) string {
	keys := make([]string, 0, len(h))
	for k := range h {
		keys = append(keys, k)
	}
	sort.Strings(keys)
	var kv []string
	for _, k := range keys {
		for _, v := range h[k] {
			kv = append(kv, hx.Hex([]byte(k))+"="+hx.Hex([]byte(v)))
		}
	}
	return strings.Join(kv, ",")
}

// ---- mutations: files that are not well-formed ----

func mutate(r *hx.Rand, b []byte) []byte {
	lines := bytes.SplitAfter(b, []byte("\n"))
	n := 1 + r.Intn(3)
	for ; n > 0; n-- {
		if len(lines) == 0 {
			break
		}
		i := r.Intn(len(lines))
		switch r.Intn(12) {
		case 0: // drop a line
			lines = append(lines[:i:i], lines[i+1:]...)
		case 1: // line without a colon
			lines[i] = []byte(r.Pick("garbage line\n", "# comment\n", "x\n", "\n", "  \n", "\t\n"))
		case 2: // leading white space on a field line
			lines[i] = append([]byte(r.Pick(" ", "\t", "   ")), lines[i]...)
		case 3: // control byte in a value
			l := append([]byte(nil), lines[i]...)
			if len(l) > 1 {
				l[r.Intn(len(l)-1)] = byte(r.Pick("\x00", "\x01", "\x7f", "\r", "\x1b", "\x80", "\xff")[0])
			}
			lines[i] = l
		case 4: // bad key
			lines[i] = append([]byte(r.Pick("Bad Key: v", ": v", "K(x): v", "ke y : v", "K\x80: v")), '\n')
		case 5: // duplicate the line
			lines = append(lines[:i+1:i+1], append([][]byte{lines[i]}, lines[i+1:]...)...)
		case 6: // white-space-only line in the middle
			lines = append(lines[:i:i], append([][]byte{[]byte(r.Pick(" \n", "\t\n", "  \n"))}, lines[i:]...)...)
		case 7: // empty the value
			if j := bytes.IndexByte(lines[i], ':'); j >= 0 {
				lines[i] = append(append([]byte(nil), lines[i][:j+1]...), '\n')
			}
		case 8: // CRLF
			if bytes.HasSuffix(lines[i], []byte("\n")) {
				lines[i] = append(append([]byte(nil), lines[i][:len(lines[i])-1]...), '\r', '\n')
			}
		case 9: // vcpkg keys
			lines = append(lines[:i:i], append([][]byte{[]byte(r.Pick("Port-Version: 1\n", "Default-Features: x\n", "Feature: y\n", "feature: z\n"))}, lines[i:]...)...)
		case 10: // long leading-space line at the start of a stanza
			lines = append(lines[:i:i], append([][]byte{[]byte("\n" + " " + strings.Repeat("x", 60+r.Intn(40)) + "\n")}, lines[i:]...)...)
		case 11: // odd Status
			lines[i] = []byte("Status: " + r.Pick("installed ok", "ok  installed", "install ok installed extra", "install\tok\tinstalled", "install ok half-installed", "ok", "installed", "OK INSTALLED", "install ok installed"[:0]+"install ok installed ") + "\n")
		}
	}
	return bytes.Join(lines, nil)
}

// ---- driver of the dpkg part ----

func dbWitness(db []debPkg, status []byte, got []tuple, want []tuple) string {
	return fmt.Sprintf("status=%s want=%s got=%s", quoteShort(status), protoHuman(want), protoHuman(got))
}

func protoHuman(ts []tuple) string {
	ts = sortTuples(ts)
	var l []string
	for _, t := range ts {
		l = append(l, fmt.Sprintf("%s/%s/%s(src %s/%s)", t.name, t.version, t.arch, t.srcName, t.srcVer))
		if len(l) >= 12 {
			l = append(l, fmt.Sprintf("…(%d)", len(ts)))
			break
		}
	}
	return "[" + strings.Join(l, " ") + "]"
}

// checkDebDB is the direct oracle: the statement on one generated database.
// It returns false when the statement fails in a way that is not a recorded finding.
func checkDebDB(r *hx.Run, db []debPkg, status []byte, got scanOut, path string, report bool) (okOrKnown bool, class string) {
	if got.err || got.panic {
		if report {
			r.Fail("", "dpkg.Scanner.Scan fails on a well-formed status file: "+quoteShort(status))
		}
		return false, ""
	}
	if len(got.bad) > 0 {
		if report {
			r.Fail("", "dpkg package constants: "+strings.Join(got.bad, "; ")+" status="+quoteShort(status))
		}
		return false, ""
	}
	want := expectedDB(db, path)
	if sameTuples(got.tuples, want) {
		return true, ""
	}
	pred, dup, dis := knownDefects(db, path)
	if sameTuples(got.tuples, pred) && (dup || dis) {
		switch {
		case dup:
			class = "dpkg-multiarch-dup"
		default:
			class = "dpkg-source-version-by-name"
		}
		if report {
			r.Fail(class, dbWitness(db, status, got.tuples, want))
		}
		return true, class
	}
	if report {
		r.Fail("", "dpkg scan differs from the database: "+dbWitness(db, status, got.tuples, want))
	}
	return false, ""
}

// shrinkDebDB removes entries while the unclassified failure persists.
func shrinkDebDB(r *hx.Run, rnd *hx.Rand, db []debPkg, o serOpts) ([]debPkg, []byte) {
	fails := func(d []debPkg) ([]byte, bool) {
		st := renderStatus(hx.NewRand(7), d, o)
		so := scanDpkg([]dbFile{{dir: "var/lib/dpkg", status: st}}, nil)
		ok, _ := checkDebDB(r, d, st, so, "var/lib/dpkg/status", false)
		return st, !ok
	}
	cur := append([]debPkg(nil), db...)
	st, f := fails(cur)
	if !f {
		return db, nil
	}
	for chunk := (len(cur) + 1) / 2; chunk >= 1; chunk /= 2 {
		for i := 0; i+chunk <= len(cur); {
			cand := append(append([]debPkg(nil), cur[:i]...), cur[i+chunk:]...)
			if s2, f2 := fails(cand); f2 {
				cur, st = cand, s2
			} else {
				i += chunk
			}
		}
	}
	for i := range cur {
		c := append([]debPkg(nil), cur...)
		c[i].extras = nil
		if s2, f2 := fails(c); f2 {
			cur, st = c, s2
		}
	}
	return cur, st
}

func runDpkg(r *hx.Run, rnd *hx.Rand, cfg hx.Config) {
	// recorded findings: replay the witnesses
	{
		st := []byte("Package: libc6\nStatus: install ok installed\nArchitecture: amd64\nMulti-Arch: same\nVersion: 2.31-13\n\nPackage: libc6\nStatus: install ok installed\nArchitecture: i386\nMulti-Arch: same\nVersion: 2.31-13\n\n")
		so := opDpkg(r, st, true)
		if !so.err && len(so.tuples) == 1 {
			r.KnownSeen("dpkg-multiarch-dup", "libc6:amd64 and libc6:i386 both 'install ok installed' -> one package reported ("+so.tuples[0].arch+")")
		}
		st = []byte("Package: a\nStatus: install ok installed\nArchitecture: all\nVersion: 5\nSource: s (1.0)\n\nPackage: b\nStatus: install ok installed\nArchitecture: all\nVersion: 5\nSource: s (2.0)\n\n")
		so = opDpkg(r, st, true)
		if !so.err && len(so.tuples) == 2 {
			for _, t := range so.tuples {
				if t.name == "b" && t.srcVer == "1.0" {
					r.KnownSeen("dpkg-source-version-by-name", "binary b states 'Source: s (2.0)' and is reported with source s 1.0 (from the earlier stanza of a)")
				}
			}
		}
	}
	// fixed defect 22 and friends: fixed texts
	for _, s := range []string{
		"", "\n", "\n\n", "Package: a\nStatus: install ok installed\nVersion: 1\nArchitecture: all",
		"Package: a\nStatus: install ok installed\nVersion: 1\nArchitecture: all\n",
		"Package: a\nStatus: install ok installed\nVersion: 1\nArchitecture: all\n\n\n\nPackage: b\nStatus: install ok installed\nVersion: 2\nArchitecture: all\n",
		"Package: a\nStatus: install ok installed\nVersion: 1\n\n",
		"Package: a\nStatus: install ok installed\nVersion: 1\nFeature: x\n\n",
		"Package: a\nStatus: install ok installed\nVersion: 1\nport-version: 3\n\nPackage: b\nStatus: install ok installed\nVersion: 2\nArchitecture: all\n",
		"Package: a\nStatus: install ok installed\nVersion: 1\nArchitecture: all\n \nSource: zz (3)\n\nPackage: b\nStatus: install ok installed\nVersion: 2\nArchitecture: all",
		"Package: a\nPackage: b\nStatus: install ok installed\nVersion: 1\nVersion: 2\nArchitecture: all\n\n",
		" leading\nPackage: a\nStatus: install ok installed\nVersion: 1\nArchitecture: all\n\n",
		"Package: a\nStatus: install ok installed\nVersion: 1\nArchitecture: all\nSource: s  (1.0)\n\n",
		"Package: a\nStatus: install ok installed\nVersion: 1\nArchitecture: all\nSource: s ((1.0))x)\n\n",
		"Package: a\nStatus: install ok installed\nVersion: 1\nArchitecture: all\nSource:  \n\n",
		"Package: a\r\nStatus: install ok installed\r\nVersion: 1\r\nArchitecture: all\r\n\r\n",
		"Package: a\nStatus: install ok installed\nVersion: 1\nArchitecture: all\r",
		"Package: a\nStatus: install ok installed\nVersion: 1\nArchitecture: all\n\n" + " " + strings.Repeat("y", 100) + "\nPackage: b\nStatus: install ok installed\nVersion: 2\nArchitecture: all\n",
	} {
		opDpkg(r, []byte(s), true)
		r.Op("mime "+hx.Hex([]byte(s)), mimeCalls([]byte(s)), true)
	}

	nDB := cfg.N(300, 8000)
	for i := 0; i < nDB && !r.Stop(); i++ {
		n := r0(rnd, i)
		o := dbOpts{allowDup: rnd.Chance(1, 10), allowSrcDisagree: rnd.Chance(1, 10)}
		db := genDebDB(rnd, n, o)
		so := genSerOpts(rnd)
		st := renderStatus(rnd, db, so)
		r.Count(fmt.Sprintf("dpkg:entries:%s", sizeBucket(n)))
		for _, l := range bytes.Split(st, []byte("\n")) {
			if len(l) >= 64<<10 {
				r.Count("dpkg:line>=64KiB")
			}
		}
		got := opDpkg(r, st, len(expectedDB(db, "")) > 0)
		ok, class := checkDebDB(r, db, st, got, "var/lib/dpkg/status", false)
		switch {
		case ok && class == "":
			r.Count("dpkg:oracle:exact")
		case ok:
			r.Count("dpkg:oracle:known:" + class)
			checkDebDB(r, db, st, got, "var/lib/dpkg/status", true)
		default:
			r.Count("dpkg:oracle:FAIL")
			small, sst := shrinkDebDB(r, rnd, db, so)
			if sst != nil {
				g2 := scanDpkg([]dbFile{{dir: "var/lib/dpkg", status: sst}}, nil)
				checkDebDB(r, small, sst, g2, "var/lib/dpkg/status", true)
			} else {
				checkDebDB(r, db, st, got, "var/lib/dpkg/status", true)
			}
		}
		countSer(r, so)
		// the textproto contract on the same bytes (small files only: the line is long)
		if len(st) < 6000 {
			r.Op("mime "+hx.Hex(st), mimeCalls(st), true)
		}
		// a not-well-formed variant: correspondence only
		if i%2 == 0 && len(st) > 0 {
			m := mutate(rnd, st)
			mo := opDpkg(r, m, true)
			switch {
			case mo.err:
				r.Count("dpkg:mutated:err")
			default:
				r.Count("dpkg:mutated:ok")
			}
			if len(m) < 6000 {
				r.Op("mime "+hx.Hex(m), mimeCalls(m), true)
			}
		}
	}
	runDpkgLayers(r, rnd, cfg)
}

func r0(rnd *hx.Rand, i int) int {
	switch {
	case i%97 == 5:
		return 1000 + rnd.Intn(1500)
	case i%11 == 0:
		return 40 + rnd.Intn(200)
	case i%13 == 1:
		return 0
	}
	return 1 + rnd.Intn(12)
}

func sizeBucket(n int) string {
	switch {
	case n == 0:
		return "0"
	case n <= 3:
		return "1-3"
	case n <= 12:
		return "4-12"
	case n <= 300:
		return "13-300"
	}
	return "1000+"
}

func countSer(r *hx.Run, o serOpts) {
	if o.shuffle {
		r.Count("dpkg:ser:shuffled-fields")
	}
	if o.keyCase {
		r.Count("dpkg:ser:key-case")
	}
	if o.sepVar {
		r.Count("dpkg:ser:separator-variation")
	}
	if o.gapMax > 1 {
		r.Count("dpkg:ser:blank-runs")
	}
	if o.lead > 0 {
		r.Count("dpkg:ser:leading-blank")
	}
	switch {
	case o.noFinal:
		r.Count("dpkg:ser:no-final-newline")
	case o.tail == "":
		r.Count("dpkg:ser:no-trailing-blank-line")
	case o.tail == "\n":
		r.Count("dpkg:ser:trailing-blank-line")
	default:
		r.Count("dpkg:ser:trailing-blank-run")
	}
}

// runDpkgLayers: several databases per layer at arbitrary paths, decoys, md5sums hints.
func runDpkgLayers(r *hx.Run, rnd *hx.Rand, cfg hx.Config) {
	dirs := []string{"var/lib/dpkg", "", "opt/chroot/var/lib/dpkg", "a", "usr/local/var/lib/dpkg", "x/y/z/w", "var/lib/dpkg/nested", "info", "status.d"}
	for i := 0; i < cfg.N(60, 800) && !r.Stop(); i++ {
		k := 1 + rnd.Intn(3)
		perm := append([]string(nil), dirs...)
		for a := len(perm) - 1; a > 0; a-- {
			b := rnd.Intn(a + 1)
			perm[a], perm[b] = perm[b], perm[a]
		}
		var dbs []dbFile
		var gens [][]debPkg
		var want []tuple
		wantHint := map[string]string{}
		for j := 0; j < k; j++ {
			db := genDebDB(rnd, rnd.Intn(8), dbOpts{})
			d := dbFile{dir: perm[j], md5: map[string][]byte{}}
			d.status = renderStatus(rnd, db, genSerOpts(rnd))
			for _, p := range db {
				if !p.installed() {
					if rnd.Chance(1, 2) {
						d.md5[p.name] = []byte("stale\n")
					}
					continue
				}
				switch rnd.Intn(3) {
				case 0:
					c := []byte(randFrom(rnd, "0123456789abcdef", 32) + "  usr/bin/" + p.name + "\n")
					d.md5[p.name] = c
					wantHint[d.statusPath()+"|"+p.name] = fmt.Sprintf("%x", md5.Sum(c))
				case 1:
					c := []byte(randFrom(rnd, "0123456789abcdef", 32) + "  usr/lib/" + p.name + "\n")
					d.md5[p.name+":"+p.arch] = c
					wantHint[d.statusPath()+"|"+p.name] = fmt.Sprintf("%x", md5.Sum(c))
				default:
					wantHint[d.statusPath()+"|"+p.name] = ""
				}
			}
			dbs = append(dbs, d)
			gens = append(gens, db)
			want = append(want, expectedDB(db, d.statusPath())...)
		}
		// decoys: a status file without an info directory, an info directory without a status
		// file, a directory called status
		var extra []ent
		decoy := "Package: decoy\nStatus: install ok installed\nVersion: 1\nArchitecture: all\n\n"
		if rnd.Chance(1, 2) {
			extra = append(extra, ent{path: "decoy1/status", data: []byte(decoy)})
			r.Count("dpkg:layer:decoy-status-without-info")
		}
		if rnd.Chance(1, 2) {
			extra = append(extra, ent{path: "decoy2/info", dir: true}, ent{path: "decoy2/info/x.md5sums", data: []byte("x")})
			r.Count("dpkg:layer:decoy-info-without-status")
		}
		if rnd.Chance(1, 2) {
			extra = append(extra, ent{path: "decoy3/status", dir: true}, ent{path: "decoy3/info", dir: true}, ent{path: "decoy3/status/status", data: []byte(decoy)})
			r.Count("dpkg:layer:decoy-status-directory")
		}
		if rnd.Chance(1, 2) {
			extra = append(extra, ent{path: "decoy4/info", data: []byte(decoy)}, ent{path: "decoy4/status", data: []byte(decoy)})
			r.Count("dpkg:layer:decoy-info-is-a-file")
		}
		got := scanDpkg(dbs, extra)
		r.Count(fmt.Sprintf("dpkg:layer:databases:%d", k))
		key := fmt.Sprintf("dpkg-layer %d dbs %d pkgs", k, len(want))
		r.Case(key+fmt.Sprint(i), len(want) > 0)
		wit := func() string {
			var sb strings.Builder
			for _, d := range dbs {
				fmt.Fprintf(&sb, "%s=%s ", d.statusPath(), quoteShort(d.status))
			}
			for _, e := range extra {
				fmt.Fprintf(&sb, "+%s ", e.path)
			}
			return sb.String()
		}
		switch {
		case got.err || got.panic:
			r.Fail("", "dpkg.Scanner.Scan fails on a layer of well-formed databases: "+wit())
		case len(got.bad) > 0:
			r.Fail("", "dpkg package constants: "+strings.Join(got.bad, "; ")+" "+wit())
		case !sameTuples(got.tuples, want):
			r.Fail("", "dpkg multi-database scan differs: "+wit()+" want="+protoHuman(want)+" got="+protoHuman(got.tuples))
		default:
			for k, h := range wantHint {
				if got.hints[k] != h {
					r.Fail("", fmt.Sprintf("dpkg RepositoryHint of %s = %q, want md5 of its md5sums file %q: %s", k, got.hints[k], h, wit()))
					break
				}
			}
		}
		// each database on its own through the model
		for j, d := range dbs {
			var mine []tuple
			for _, t := range got.tuples {
				if t.db == d.statusPath() {
					mine = append(mine, t)
				}
			}
			out := "err"
			if !got.err && !got.panic {
				out = protoList(mine, true)
			}
			r.Op("dpkg "+hx.Hex(d.status), out, len(gens[j]) > 0)
		}
	}
	_ = hex.EncodeToString
}
