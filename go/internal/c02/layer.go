package c02

import (
	"archive/tar"
	"bytes"
	"context"
	"crypto/sha256"
	"fmt"
	"sort"
	"strings"

	"github.com/quay/claircore"
)

// ent is one entry of a generated layer.
type ent struct {
	path string // no leading slash
	dir  bool
	data []byte
	link string // symlink target if non-empty
}

// mkLayer renders the entries as a tar archive (parents created on demand,
// entries in the given order) and opens it as a claircore.Layer.
func mkLayer(ents []ent) (*claircore.Layer, error) {
	var buf bytes.Buffer
	tw := tar.NewWriter(&buf)
	seen := map[string]bool{}
	var mkdirs func(p string) error
	mkdirs = func(p string) error {
		i := strings.LastIndexByte(p, '/')
		if i < 0 {
			return nil
		}
		d := p[:i]
		if seen[d] {
			return nil
		}
		if err := mkdirs(d); err != nil {
			return err
		}
		seen[d] = true
		return tw.WriteHeader(&tar.Header{Typeflag: tar.TypeDir, Name: d + "/", Mode: 0o755})
	}
	for _, e := range ents {
		if err := mkdirs(e.path); err != nil {
			return nil, err
		}
		switch {
		case e.dir:
			if seen[e.path] {
				continue
			}
			seen[e.path] = true
			if err := tw.WriteHeader(&tar.Header{Typeflag: tar.TypeDir, Name: e.path + "/", Mode: 0o755}); err != nil {
				return nil, err
			}
		case e.link != "":
			if err := tw.WriteHeader(&tar.Header{Typeflag: tar.TypeSymlink, Name: e.path, Linkname: e.link, Mode: 0o777}); err != nil {
				return nil, err
			}
		default:
			if err := tw.WriteHeader(&tar.Header{Typeflag: tar.TypeReg, Name: e.path, Mode: 0o644, Size: int64(len(e.data))}); err != nil {
				return nil, err
			}
			if _, err := tw.Write(e.data); err != nil {
				return nil, err
			}
		}
	}
	if err := tw.Close(); err != nil {
		return nil, err
	}
	b := buf.Bytes()
	sum := sha256.Sum256(b)
	var l claircore.Layer
	desc := claircore.LayerDescription{
		Digest:    fmt.Sprintf("sha256:%x", sum),
		MediaType: "application/vnd.oci.image.layer.v1.tar",
	}
	if err := l.Init(context.Background(), &desc, bytes.NewReader(b)); err != nil {
		return nil, err
	}
	return &l, nil
}

func sortedStrings(xs []string) []string {
	sort.Strings(xs)
	return xs
}
