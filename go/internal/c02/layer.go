package c02

import (
	"archive/tar"
	"bytes"
	"context"
	"crypto/sha256"
	"fmt"
	"io"
	"sort"
	"strings"

	"github.com/quay/claircore"
)

// ent is one entry of a generated layer.
type ent struct {
	path string // no leading slash
	dir  bool
	data []byte
	link string // symlink target if non-empty
	mode int64  // permission bits of a regular file; 0 = 0644
}

// mkLayer renders the entries as a tar archive (parents created on demand,
// entries in the given order) and opens it as a claircore.Layer.
func mkLayer(ents []ent) (*claircore.Layer, error) {
	b, _, err := mkTar(ents)
	if err != nil {
		return nil, err
	}
	return openLayer(b, bytes.NewReader(b), "")
}

// span is the position of a regular file's content inside the tar archive.
type span struct{ lo, hi int64 }

// openLayer opens tar bytes as a claircore.Layer reading through rd. The digest is that of
// the bytes followed by the nonce: layers with equal content and different nonces are
// different layers to every per-layer cache.
func openLayer(b []byte, rd io.ReaderAt, nonce string) (*claircore.Layer, error) {
	h := sha256.New()
	h.Write(b)
	h.Write([]byte(nonce))
	var l claircore.Layer
	desc := claircore.LayerDescription{
		Digest:    fmt.Sprintf("sha256:%x", h.Sum(nil)),
		MediaType: "application/vnd.oci.image.layer.v1.tar",
	}
	if err := l.Init(context.Background(), &desc, rd); err != nil {
		return nil, err
	}
	return &l, nil
}

// mkTar renders the entries as a tar archive and says where each regular file's content is.
func mkTar(ents []ent) ([]byte, map[string]span, error) {
	spans := map[string]span{}
	var buf bytes.Buffer
	tw := tar.NewWriter(&buf)
	seen := map[string]bool{}
	var mkdirs func(p string) error
	mkdirs = func(p string) error {
		i := strings.LastIndexByte(p, '/')
		if i < 0 {
			return nil
		}
		d := p[:i]
		if seen[d] {
			return nil
		}
		if err := mkdirs(d); err != nil {
			return err
		}
		seen[d] = true
		return tw.WriteHeader(&tar.Header{Typeflag: tar.TypeDir, Name: d + "/", Mode: 0o755})
	}
	for _, e := range ents {
		if err := mkdirs(e.path); err != nil {
			return nil, nil, err
		}
		switch {
		case e.dir:
			if seen[e.path] {
				continue
			}
			seen[e.path] = true
			if err := tw.WriteHeader(&tar.Header{Typeflag: tar.TypeDir, Name: e.path + "/", Mode: 0o755}); err != nil {
				return nil, nil, err
			}
		case e.link != "":
			if err := tw.WriteHeader(&tar.Header{Typeflag: tar.TypeSymlink, Name: e.path, Linkname: e.link, Mode: 0o777}); err != nil {
				return nil, nil, err
			}
		default:
			mode := int64(0o644)
			if e.mode != 0 {
				mode = e.mode
			}
			if err := tw.WriteHeader(&tar.Header{Typeflag: tar.TypeReg, Name: e.path, Mode: mode, Size: int64(len(e.data))}); err != nil {
				return nil, nil, err
			}
			spans[e.path] = span{int64(buf.Len()), int64(buf.Len() + len(e.data))}
			if _, err := tw.Write(e.data); err != nil {
				return nil, nil, err
			}
		}
	}
	if err := tw.Close(); err != nil {
		return nil, nil, err
	}
	return buf.Bytes(), spans, nil
}

func sortedStrings(xs []string) []string {
	sort.Strings(xs)
	return xs
}
