package c02

import (
	"bytes"
	"context"
	"fmt"
	"strings"

	"github.com/quay/claircore"
	"github.com/quay/claircore/debian"
	"github.com/quay/claircore/indexer"
	"github.com/quay/claircore/ubuntu"
	"github.com/quay/claircore/verifharness/internal/hx"
)

// The distribution scanners built on os-release (debian: through osrelease.Parse; ubuntu: its own
// line loop). The release tables and what matchers do with the result are C04's; here: the
// release a well-formed file states is the release reported, and another distribution's
// file yields nothing.

func scanDist(s indexer.DistributionScanner, ents []ent) (ds []*claircore.Distribution, ok bool) {
	l, err := mkLayer(ents)
	if err != nil {
		return nil, false
	}
	defer l.Close()
	ok = true
	if hx.Guard(func() string {
		var err error
		ds, err = s.Scan(context.Background(), l)
		if err != nil {
			ok = false
		}
		return ""
	}) == "panic" {
		ok = false
	}
	return ds, ok
}

func renderOsFile(r *hx.Rand, kvs []osKV, styles []int) []byte {
	var w bytes.Buffer
	for i := len(kvs) - 1; i > 0; i-- {
		j := r.Intn(i + 1)
		kvs[i], kvs[j] = kvs[j], kvs[i]
	}
	for _, kv := range kvs {
		kv.style = styles[r.Intn(len(styles))]
		if kv.style == 0 && strings.ContainsAny(kv.value, " ()/") {
			kv.style = 1
		}
		w.WriteString(kv.render() + "\n")
	}
	return w.Bytes()
}

func runDistScanners(r *hx.Run, rnd *hx.Rand, cfg hx.Config) {
	debs := []struct {
		n    int
		name string
	}{{8, "jessie"}, {9, "stretch"}, {10, "buster"}, {11, "bullseye"}, {12, "bookworm"}, {13, "trixie"}}
	ubus := []struct{ ver, name string }{{"16.04", "xenial"}, {"18.04", "bionic"}, {"20.04", "focal"}, {"22.04", "jammy"}, {"23.10", "mantic"}, {"24.04", "noble"}}
	for i := 0; i < cfg.N(60, 1000) && !r.Stop(); i++ {
		// debian
		d := debs[rnd.Intn(len(debs))]
		kvs := []osKV{
			{key: "PRETTY_NAME", value: fmt.Sprintf("Debian GNU/Linux %d (%s)", d.n, d.name)},
			{key: "NAME", value: "Debian GNU/Linux"},
			{key: "VERSION_ID", value: fmt.Sprint(d.n)},
			{key: "VERSION", value: fmt.Sprintf("%d (%s)", d.n, d.name)},
			{key: "ID", value: "debian"},
			{key: "HOME_URL", value: "https://www.debian.org/"},
		}
		withCodename := rnd.Chance(2, 3) // older releases have no VERSION_CODENAME: the name comes from VERSION
		if withCodename {
			kvs = append(kvs, osKV{key: "VERSION_CODENAME", value: d.name})
		}
		file := renderOsFile(rnd, kvs, []int{0, 1, 2})
		ds, ok := scanDist(&debian.DistributionScanner{}, []ent{{path: "etc/os-release", data: file}})
		r.Case(fmt.Sprintf("debian-dist %d", i), true)
		switch {
		case !ok || len(ds) != 1:
			r.Fail("", fmt.Sprintf("debian distribution scanner reports %d distributions for %s", len(ds), quoteShort(file)))
		case ds[0].DID != "debian" || ds[0].VersionID != fmt.Sprint(d.n) || ds[0].VersionCodeName != d.name || ds[0].Version != fmt.Sprintf("%d (%s)", d.n, d.name):
			r.Fail("", fmt.Sprintf("debian distribution scanner reports %+v for %s", *ds[0], quoteShort(file)))
		default:
			r.Count("dist:debian:exact")
		}
		// ubuntu, from os-release or lsb-release (the way Ubuntu ships them: bare or double-quoted)
		u := ubus[rnd.Intn(len(ubus))]
		var ents []ent
		if rnd.Chance(1, 2) {
			f := renderOsFile(rnd, []osKV{{key: "NAME", value: "Ubuntu"}, {key: "VERSION", value: u.ver + " LTS (" + strings.Title(u.name) + ")"}, {key: "ID", value: "ubuntu"}, {key: "ID_LIKE", value: "debian"}, {key: "VERSION_ID", value: u.ver}, {key: "VERSION_CODENAME", value: u.name}, {key: "UBUNTU_CODENAME", value: u.name}}, []int{0, 1})
			ents = append(ents, ent{path: "etc/os-release", data: f})
			file = f
		} else {
			f := renderOsFile(rnd, []osKV{{key: "DISTRIB_ID", value: "Ubuntu"}, {key: "DISTRIB_RELEASE", value: u.ver}, {key: "DISTRIB_CODENAME", value: u.name}, {key: "DISTRIB_DESCRIPTION", value: "Ubuntu " + u.ver + " LTS"}}, []int{0, 1})
			ents = append(ents, ent{path: "etc/lsb-release", data: f})
			file = f
		}
		ds, ok = scanDist(&ubuntu.DistributionScanner{}, ents)
		r.Case(fmt.Sprintf("ubuntu-dist %d", i), true)
		switch {
		case !ok || len(ds) != 1:
			r.Fail("", fmt.Sprintf("ubuntu distribution scanner reports %d distributions for %s", len(ds), quoteShort(file)))
		case ds[0].DID != "ubuntu" || ds[0].VersionID != u.ver || ds[0].VersionCodeName != u.name:
			r.Fail("", fmt.Sprintf("ubuntu distribution scanner reports %+v for %s", *ds[0], quoteShort(file)))
		default:
			r.Count("dist:ubuntu:exact")
		}
		// the other distribution's file: nothing
		if ds, ok := scanDist(&debian.DistributionScanner{}, ents); !ok || len(ds) != 0 {
			r.Fail("", "debian distribution scanner reports a distribution for an Ubuntu file "+quoteShort(file))
		}
	}
}
