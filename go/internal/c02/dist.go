package c02

import (
	"bytes"
	"context"
	"fmt"
	"strings"

	"github.com/quay/claircore"
	"github.com/quay/claircore/alpine"
	"github.com/quay/claircore/debian"
	"github.com/quay/claircore/indexer"
	"github.com/quay/claircore/rhel"
	"github.com/quay/claircore/toolkit/types/cpe"
	"github.com/quay/claircore/ubuntu"
	"github.com/quay/claircore/verifharness/internal/hx"
)

// The distribution scanners that read release files themselves: alpine (os-release through
// osrelease.Parse, then etc/issue), rhel (etc/redhat-release, then etc/os-release, one
// expression), debian (through osrelease.Parse), ubuntu (its own line loop over lsb-release
// or os-release). The Lean model (Model/DistScan.lean) answers the same files; the direct
// oracle: the release a well-formed file states is the release reported, another
// distribution's files yield nothing. The release tables and what matchers do with the
// result are C04's.

func scanDist(s indexer.DistributionScanner, ents []ent) (ds []*claircore.Distribution, ok bool) {
	l, err := mkLayer(ents)
	if err != nil {
		return nil, false
	}
	defer l.Close()
	ok = true
	if hx.Guard(func() string {
		var err error
		ds, err = s.Scan(context.Background(), l)
		if err != nil {
			ok = false
		}
		return ""
	}) == "panic" {
		ok = false
	}
	return ds, ok
}

// distProto renders a scan result the way the model driver does.
func distProto(ds []*claircore.Distribution, ok bool) string {
	switch {
	case !ok:
		return "err"
	case len(ds) == 0:
		return "none"
	case len(ds) > 1:
		return fmt.Sprintf("many %d", len(ds))
	}
	d := ds[0]
	h := func(s string) string { return hx.Hex([]byte(s)) }
	c := ""
	if d.CPE != (cpe.WFN{}) {
		c = d.CPE.BindFS()
		if w, err := cpe.Unbind("cpe:/o:redhat:enterprise_linux:" + d.Version); err == nil && w == d.CPE {
			c = "cpe:/o:redhat:enterprise_linux:" + d.Version
		}
	}
	return "dist " + strings.Join([]string{h(d.Name), h(d.DID), h(d.Version), h(d.VersionID), h(d.VersionCodeName), h(d.PrettyName), h(c)}, ",")
}

func optHex(b []byte, present bool) string {
	if !present {
		return "absent"
	}
	return hx.Hex(b)
}

func renderOsFile(r *hx.Rand, kvs []osKV, styles []int) []byte {
	var w bytes.Buffer
	for i := len(kvs) - 1; i > 0; i-- {
		j := r.Intn(i + 1)
		kvs[i], kvs[j] = kvs[j], kvs[i]
	}
	for _, kv := range kvs {
		kv.style = styles[r.Intn(len(styles))]
		if kv.style == 0 && strings.ContainsAny(kv.value, " ()/;") {
			kv.style = 1
		}
		w.WriteString(kv.render() + "\n")
	}
	return w.Bytes()
}

// mutateText damages a release file a little (for the correspondence only).
func mutateText(r *hx.Rand, b []byte) []byte {
	s := string(b)
	lines := strings.SplitAfter(s, "\n")
	switch r.Intn(12) {
	case 0:
		if len(lines) > 1 {
			i := r.Intn(len(lines))
			lines = append(lines[:i], lines[i+1:]...)
		}
	case 1:
		i := r.Intn(len(lines))
		lines = append(lines[:i+1], lines[i:]...)
	case 2:
		return []byte(strings.ReplaceAll(s, "\n", "\r\n"))
	case 3:
		return []byte(strings.TrimRight(s, "\n"))
	case 4:
		return []byte(strings.ReplaceAll(s, "\"", "'"))
	case 5:
		return []byte(strings.ReplaceAll(s, "=", " = "))
	case 6:
		return []byte(strings.ToUpper(s))
	case 7:
		return []byte(strings.Replace(s, ".", "", 1))
	case 8:
		i := r.Intn(len(s) + 1)
		return []byte(s[:i] + randFrom(r, "0123456789. ()\"=\n", 1+r.Intn(3)) + s[i:])
	case 9:
		if len(s) > 2 {
			i := r.Intn(len(s) - 1)
			return []byte(s[:i] + s[i+1:])
		}
	case 10:
		return []byte("# comment\n\n" + s + "\n\n")
	case 11:
		return []byte(strings.Replace(s, "=", "==", 1))
	}
	return []byte(strings.Join(lines, ""))
}

func runDistScanners(r *hx.Run, rnd *hx.Rand, cfg hx.Config) {
	runAlpineDist(r, rnd.Fork(), cfg)
	runRhelDist(r, rnd.Fork(), cfg)
	runDebianUbuntuDist(r, rnd.Fork(), cfg)
}

// ---- alpine ----

func alpineOp(r *hx.Run, osr, issue []byte, hasOsr, hasIssue bool, nontrivial bool) ([]*claircore.Distribution, bool) {
	var ents []ent
	if hasOsr {
		ents = append(ents, ent{path: "etc/os-release", data: osr})
	}
	if hasIssue {
		ents = append(ents, ent{path: "etc/issue", data: issue})
	}
	ents = append(ents, ent{path: "etc/hostname", data: []byte("x\n")})
	ds, ok := scanDist(&alpine.DistributionScanner{}, ents)
	r.Op("alpdist "+optHex(osr, hasOsr)+" "+optHex(issue, hasIssue), distProto(ds, ok), nontrivial)
	return ds, ok
}

func runAlpineDist(r *hx.Run, rnd *hx.Rand, cfg hx.Config) {
	for i := 0; i < cfg.N(80, 1500) && !r.Stop(); i++ {
		maj, min, patch := 3, rnd.Intn(25), rnd.Intn(12)
		if rnd.Chance(1, 10) {
			maj = 4 + rnd.Intn(9)
		}
		edge := rnd.Chance(1, 5)
		vid := fmt.Sprintf("%d.%d.%d", maj, min, patch)
		mm := fmt.Sprintf("%d.%d", maj, min)
		pretty := "Alpine Linux v" + mm
		wantVer := mm
		edgeIssue := ""
		if edge {
			stamp := fmt.Sprintf("_alpha2024%02d%02d", 1+rnd.Intn(12), 1+rnd.Intn(28))
			vid = mm + stamp
			if rnd.Chance(1, 2) {
				vid = mm + ".0" + stamp
			}
			edgeIssue = mm + stamp // alpine-release of an edge image carries no patch number
			pretty = "Alpine Linux edge"
			wantVer = "edge"
		}
		kvs := []osKV{{key: "NAME", value: "Alpine Linux"}, {key: "ID", value: "alpine"}, {key: "VERSION_ID", value: vid}, {key: "PRETTY_NAME", value: pretty},
			{key: "HOME_URL", value: "https://alpinelinux.org/"}, {key: "BUG_REPORT_URL", value: "https://gitlab.alpinelinux.org/alpine/aports/-/issues"}}
		osr := renderOsFile(rnd, kvs, []int{0, 1, 2})
		issue := []byte("Welcome to Alpine Linux " + mm + "\nKernel \\r on an \\m (\\l)\n\n")
		if edge {
			issue = []byte("Welcome to Alpine Linux " + edgeIssue + " (edge)\nKernel \\r on an \\m (\\l)\n\n")
		}
		layout := rnd.Intn(3) // both files, os-release only, issue only
		hasOsr, hasIssue := layout != 2, layout != 1
		ds, ok := alpineOp(r, osr, issue, hasOsr, hasIssue, true)
		r.Case(fmt.Sprintf("alpine-dist %d", i), true)
		r.Count(fmt.Sprintf("dist:alpine:layout:%d:edge=%v", layout, edge))
		wit := fmt.Sprintf("os-release=%s issue=%s", quoteShort(osr), quoteShort(issue))
		if !hasOsr {
			wit = "issue=" + quoteShort(issue)
		}
		switch {
		case !ok || len(ds) != 1:
			r.Fail("", fmt.Sprintf("alpine distribution scanner reports %d distributions (ok=%v) for %s", len(ds), ok, wit))
		case ds[0].DID != "alpine" || ds[0].Name != "Alpine Linux" || ds[0].Version != wantVer || ds[0].PrettyName != pretty:
			r.Fail("", fmt.Sprintf("alpine distribution scanner reports %+v, the files state release %s (%s): %s", *ds[0], wantVer, pretty, wit))
		default:
			r.Count("dist:alpine:exact")
		}
		// other distributions' files: nothing
		other := renderOsFile(rnd, []osKV{{key: "NAME", value: "Debian GNU/Linux"}, {key: "ID", value: "debian"}, {key: "VERSION_ID", value: "12"}, {key: "PRETTY_NAME", value: "Debian GNU/Linux 12 (bookworm)"}}, []int{0, 1})
		if ds, ok := alpineOp(r, other, []byte("Debian GNU/Linux 12 \\n \\l\n\n"), true, true, false); !ok || len(ds) != 0 {
			r.Fail("", "alpine distribution scanner reports a distribution for Debian's files")
		}
		// damaged files: correspondence only
		alpineOp(r, mutateText(rnd, osr), mutateText(rnd, issue), rnd.Chance(3, 4), rnd.Chance(3, 4), true)
	}
}

// ---- rhel ----

func rhelOp(r *hx.Run, oracle bool, rh, osr []byte, hasRh, hasOsr bool, nontrivial bool) ([]*claircore.Distribution, bool) {
	var ents []ent
	if oracle {
		ents = append(ents, ent{path: "etc/oracle-release", data: []byte("Oracle Linux Server release 8.6\n")})
	}
	if hasRh {
		ents = append(ents, ent{path: "etc/redhat-release", data: rh})
	}
	if hasOsr {
		ents = append(ents, ent{path: "etc/os-release", data: osr})
	}
	ents = append(ents, ent{path: "etc/hostname", data: []byte("x\n")})
	ds, ok := scanDist(&rhel.DistributionScanner{}, ents)
	o := "0"
	if oracle {
		o = "1"
	}
	r.Op("rheldist "+o+" "+optHex(rh, hasRh)+" "+optHex(osr, hasOsr), distProto(ds, ok), nontrivial)
	return ds, ok
}

func runRhelDist(r *hx.Run, rnd *hx.Rand, cfg hx.Config) {
	names := map[int]string{5: "Tikanga", 6: "Santiago", 7: "Maipo", 8: "Ootpa", 9: "Plow", 10: "Coughlan"}
	for i := 0; i < cfg.N(80, 1500) && !r.Stop(); i++ {
		n := 5 + rnd.Intn(6)
		if rnd.Chance(1, 8) {
			n = 11 + rnd.Intn(30)
		}
		minor := rnd.Intn(11)
		code := names[n]
		if code == "" {
			code = "Future"
		}
		variant := rnd.Pick("", "", "Server ", "Atomic Host ")
		if n >= 8 {
			variant = ""
		}
		rh := []byte(fmt.Sprintf("Red Hat Enterprise Linux %srelease %d.%d (%s)\n", variant, n, minor, code))
		if rnd.Chance(1, 6) {
			rh = []byte(fmt.Sprintf("Red Hat Enterprise Linux %srelease %d.%d Beta (%s)\n", variant, n, minor, code))
		}
		kvs := []osKV{{key: "NAME", value: "Red Hat Enterprise Linux"}, {key: "VERSION", value: fmt.Sprintf("%d.%d (%s)", n, minor, code)}, {key: "ID", value: "rhel"},
			{key: "ID_LIKE", value: "fedora"}, {key: "VERSION_ID", value: fmt.Sprintf("%d.%d", n, minor)}, {key: "PLATFORM_ID", value: fmt.Sprintf("platform:el%d", n)},
			{key: "PRETTY_NAME", value: fmt.Sprintf("Red Hat Enterprise Linux %d.%d (%s)", n, minor, code)}, {key: "ANSI_COLOR", value: "0;31"},
			{key: "CPE_NAME", value: fmt.Sprintf("cpe:/o:redhat:enterprise_linux:%d::baseos", n)}, {key: "HOME_URL", value: "https://www.redhat.com/"},
			{key: "DOCUMENTATION_URL", value: fmt.Sprintf("https://access.redhat.com/documentation/en-us/red_hat_enterprise_linux/%d", n)},
			{key: "REDHAT_BUGZILLA_PRODUCT", value: fmt.Sprintf("Red Hat Enterprise Linux %d", n)}, {key: "REDHAT_BUGZILLA_PRODUCT_VERSION", value: fmt.Sprintf("%d.%d", n, minor)},
			{key: "REDHAT_SUPPORT_PRODUCT", value: "Red Hat Enterprise Linux"}, {key: "REDHAT_SUPPORT_PRODUCT_VERSION", value: fmt.Sprintf("%d.%d", n, minor)}}
		osr := renderOsFile(rnd, kvs, []int{1})
		layout := rnd.Intn(3)
		hasRh, hasOsr := layout != 2, layout != 1
		ds, ok := rhelOp(r, false, rh, osr, hasRh, hasOsr, true)
		r.Case(fmt.Sprintf("rhel-dist %d", i), true)
		r.Count(fmt.Sprintf("dist:rhel:layout:%d", layout))
		r.Count(fmt.Sprintf("dist:rhel:variant:%q", variant))
		wit := fmt.Sprintf("redhat-release=%s os-release=%s (layout %d)", quoteShort(rh), quoteShort(osr), layout)
		ns := fmt.Sprint(n)
		want, _ := cpe.Unbind("cpe:/o:redhat:enterprise_linux:" + ns)
		switch {
		case !ok || len(ds) != 1:
			r.Fail("", fmt.Sprintf("rhel distribution scanner reports %d distributions (ok=%v) for %s", len(ds), ok, wit))
		case ds[0].DID != "rhel" || ds[0].Version != ns || ds[0].VersionID != ns || ds[0].CPE != want || ds[0].PrettyName != "Red Hat Enterprise Linux Server "+ns:
			r.Fail("", fmt.Sprintf("rhel distribution scanner reports %+v, the files state release %d: %s", *ds[0], n, wit))
		default:
			r.Count("dist:rhel:exact")
		}
		// an Oracle Linux layer carries Red Hat's release file, too: nothing
		if ds, ok := rhelOp(r, true, rh, osr, hasRh, hasOsr, false); !ok || len(ds) != 0 {
			r.Fail("", "rhel distribution scanner reports a distribution for a layer with etc/oracle-release")
		}
		// rebuilds: nothing
		var c []byte
		var cosr []byte
		switch rnd.Intn(3) {
		case 0:
			c = []byte(fmt.Sprintf("CentOS Linux release %d.%d.2009 (Core)\n", n, minor))
			cosr = renderOsFile(rnd, []osKV{{key: "NAME", value: "CentOS Linux"}, {key: "ID", value: "centos"}, {key: "ID_LIKE", value: "rhel fedora"}, {key: "VERSION_ID", value: ns}, {key: "PRETTY_NAME", value: "CentOS Linux " + ns + " (Core)"}, {key: "REDHAT_SUPPORT_PRODUCT", value: "centos"}}, []int{1})
		case 1:
			c = []byte(fmt.Sprintf("Rocky Linux release %d.%d (Green Obsidian)\n", n, minor))
			cosr = renderOsFile(rnd, []osKV{{key: "NAME", value: "Rocky Linux"}, {key: "ID", value: "rocky"}, {key: "ID_LIKE", value: "rhel centos fedora"}, {key: "VERSION_ID", value: fmt.Sprintf("%d.%d", n, minor)}, {key: "PRETTY_NAME", value: fmt.Sprintf("Rocky Linux %d.%d (Green Obsidian)", n, minor)}, {key: "REDHAT_SUPPORT_PRODUCT", value: "Rocky Linux"}}, []int{1})
		case 2:
			c = []byte("Fedora release 39 (Thirty Nine)\n")
			cosr = renderOsFile(rnd, []osKV{{key: "NAME", value: "Fedora Linux"}, {key: "ID", value: "fedora"}, {key: "VERSION_ID", value: "39"}, {key: "PRETTY_NAME", value: "Fedora Linux 39 (Container Image)"}, {key: "REDHAT_SUPPORT_PRODUCT", value: "Fedora"}}, []int{1})
		}
		if ds, ok := rhelOp(r, false, c, cosr, true, true, false); !ok || len(ds) != 0 {
			r.Fail("", "rhel distribution scanner reports a distribution for "+quoteShort(c))
		}
		rhelOp(r, rnd.Chance(1, 10), mutateText(rnd, rh), mutateText(rnd, osr), rnd.Chance(3, 4), rnd.Chance(3, 4), true)
	}
	// edges of the expression, correspondence only
	for _, s := range []string{
		"Red Hat Enterprise Linux Workstation release 7.9 (Maipo)\n", "Red Hat Enterprise Linux 8\n", "Red Hat Enterprise Linux release8\n",
		"Red Hat Enterprise Linux Server\n\n release\t 6.10\n", "Red Hat Enterprise Linux Serverrelease 7\n", "Red Hat Enterprise Linux Atomic Host 7\n",
		"Red Hat Enterprise Linux release 99999999999999999999\n", "Red Hat Enterprise Linux release 9223372036854775807\n", "Red Hat Enterprise Linux release 9223372036854775808\n",
		"Red Hat Enterprise Linux release 007.1\n", "xRed Hat Enterprise Linux Red Hat Enterprise Linux release 7.2\n", "Red Hat Enterprise Linux  release 7\n",
		"Red Hat Enterprise Linux release x Red Hat Enterprise Linux Server 6\n", "red hat enterprise linux release 8\n", "", "Red Hat Enterprise Linux ",
	} {
		rhelOp(r, false, []byte(s), nil, true, false, true)
		rhelOp(r, false, nil, []byte("PRETTY_NAME=\""+strings.TrimSpace(s)+"\"\n"), false, true, true)
		r.Count("dist:rhel:edge")
	}
}

// ---- debian, ubuntu ----

func debianOp(r *hx.Run, osr []byte, has bool, nontrivial bool) ([]*claircore.Distribution, bool) {
	var ents []ent
	if has {
		ents = append(ents, ent{path: "etc/os-release", data: osr})
	}
	ents = append(ents, ent{path: "etc/hostname", data: []byte("x\n")})
	ds, ok := scanDist(&debian.DistributionScanner{}, ents)
	r.Op("debdist "+optHex(osr, has), distProto(ds, ok), nontrivial)
	return ds, ok
}

func ubuntuOp(r *hx.Run, lsb, osr []byte, hasLsb, hasOsr bool, nontrivial bool) ([]*claircore.Distribution, bool) {
	var ents []ent
	if hasLsb {
		ents = append(ents, ent{path: "etc/lsb-release", data: lsb})
	}
	if hasOsr {
		ents = append(ents, ent{path: "etc/os-release", data: osr})
	}
	ents = append(ents, ent{path: "etc/hostname", data: []byte("x\n")})
	ds, ok := scanDist(&ubuntu.DistributionScanner{}, ents)
	r.Op("ubudist "+optHex(lsb, hasLsb)+" "+optHex(osr, hasOsr), distProto(ds, ok), nontrivial)
	return ds, ok
}

// distEdges: fixed files at the edges of the debian/ubuntu/alpine readers (correspondence only).
func distEdges(r *hx.Run) {
	for _, s := range []string{
		"ID=debian\nVERSION_ID=11\nVERSION_CODENAME=\nVERSION=\"11 (bullseye)\"\n", "ID=debian\nVERSION_ID=11\nVERSION=\"11 (bullseye)\"\n", "ID=debian\nVERSION_ID=11\nVERSION=\"11 (bullseye) \"\n",
		"ID=debian\nVERSION_ID=11\nVERSION=\"11 (v2_beta3)\"\n", "ID=debian\nVERSION_ID=11\nVERSION=\"11 (123)\"\n", "ID=debian\nVERSION_ID=+11\nVERSION_CODENAME=x\n", "ID=debian\nVERSION_ID=-0\nVERSION_CODENAME=x\n",
		"ID=debian\nVERSION_ID=2147483648\nVERSION_CODENAME=x\n", "ID=debian\nVERSION_ID=2147483647\nVERSION_CODENAME=x\n", "ID=debian\nVERSION_ID=11.2\nVERSION_CODENAME=x\n", "ID=debian\nVERSION_ID=1_1\nVERSION_CODENAME=x\n",
		"ID=debian\nVERSION_CODENAME=trixie\nVERSION=\"13 (trixie)\"\n", "ID=Debian\nVERSION_ID=11\nVERSION_CODENAME=x\n", "ID=debian\nVERSION_ID=11\nVERSION=\"(x)(y)\"\n", "ID=debian\nVERSION_ID=11\nVERSION=()\n", "ID=debian\nVERSION_ID='11\n",
	} {
		debianOp(r, []byte(s), true, true)
		r.Count("dist:debian:edge")
	}
	for _, s := range []string{
		"DISTRIB_ID=Ubuntu\r\nDISTRIB_RELEASE=22.04\r\nDISTRIB_CODENAME=jammy\r\n", "DISTRIB_ID=ubuntu\nDISTRIB_RELEASE=22.04\nDISTRIB_CODENAME=jammy", "DISTRIB_ID=UBUNTU\nDISTRIB_RELEASE=\"22.04\"\nDISTRIB_CODENAME=\"\"jammy\"\"\n",
		"DISTRIB_RELEASE=22.04\nDISTRIB_CODENAME=jammy\nDISTRIB_ID=Ubuntu\n", "DISTRIB_RELEASE=22.04\nDISTRIB_CODENAME=jammy\nDISTRIB_ID=LinuxMint\n", "DISTRIB_ID=Ubuntu\nDISTRIB_RELEASE=22.04\nDISTRIB_RELEASE=24.04\nDISTRIB_CODENAME=noble\n",
		" DISTRIB_ID=Ubuntu\nDISTRIB_RELEASE=22.04\nDISTRIB_CODENAME=jammy\n", "DISTRIB_ID=Ubuntu\nDISTRIB_RELEASE=\nDISTRIB_CODENAME=jammy\n", "DISTRIB_ID='Ubuntu'\nDISTRIB_RELEASE=22.04\nDISTRIB_CODENAME=jammy\n",
		"DISTRIB_ID=Ubuntu\nDISTRIB_RELEASE=22.04\nDISTRIB_CODENAME=jammy jellyfish\n", "DISTRIB_ID=Ubuntu\nDISTRIB_RELEASE=22.04\nDISTRIB_CODENAME=jammy-x_y1z\n", "", "\n\n", "DISTRIB_ID=Ubuntu=x\nDISTRIB_RELEASE==22.04\nDISTRIB_CODENAME=j\n",
	} {
		ubuntuOp(r, []byte(s), nil, true, false, true)
		ubuntuOp(r, nil, []byte(strings.NewReplacer("DISTRIB_ID", "ID", "DISTRIB_RELEASE", "VERSION_ID", "DISTRIB_CODENAME", "VERSION_CODENAME").Replace(s)), false, true, true)
		ubuntuOp(r, []byte("DISTRIB_ID=Debian\n"), []byte(s), true, true, true)
		r.Count("dist:ubuntu:edge")
	}
	for _, s := range []string{
		"ID=alpine\nVERSION_ID=3.18.4\n", "ID=alpine\nVERSION_ID=3.18\n", "ID=alpine\nVERSION_ID=3\n", "ID=alpine\nVERSION_ID=.\n", "ID=alpine\nVERSION_ID=3.18.4.\n", "ID=alpine\nVERSION_ID=3.20.0_alpha20240329\nPRETTY_NAME=\"Alpine Linux edge\"\n",
		"ID=alpine\nVERSION_ID=3.20_alpha20240329\nPRETTY_NAME=\"Alpine Linux edge\"\n", "ID=alpine\nVERSION_ID=3.20_alpha20240329\nPRETTY_NAME=\"Alpine Linux Edge\"\n", "ID=\"alpine\"\nVERSION_ID='3.18.4'\n", "ID=alpine\nVERSION_ID=\"3.18.4\n",
	} {
		alpineOp(r, []byte(s), nil, true, false, true)
		r.Count("dist:alpine:edge")
	}
	for _, s := range []string{
		"Welcome to Alpine Linux 3.18\n", "Alpine Linux 3.18", "Alpine Linux 3.", "Alpine Linux .18", "Alpine Linux 3.19_alpha20230901 (edge)\n", "Alpine Linux 3.19.0_alpha20230901 (edge)\n", "Alpine Linux 3.x (edge)", "Alpine Linux 3.19 (edge", "Alpine  Linux 3.18",
		"alpine linux 3.18", "Alpine Linux x Alpine Linux 3.17\nAlpine Linux 3.19 (edge)\n", "Alpine Linux 3.18.4", "Alpine Linux 03.018", "",
	} {
		alpineOp(r, nil, []byte(s), false, true, true)
		alpineOp(r, []byte("ID=debian\n"), []byte(s), true, true, true)
		r.Count("dist:alpine:edge")
	}
}

func runDebianUbuntuDist(r *hx.Run, rnd *hx.Rand, cfg hx.Config) {
	distEdges(r)
	debs := []struct {
		n    int
		name string
	}{{8, "jessie"}, {9, "stretch"}, {10, "buster"}, {11, "bullseye"}, {12, "bookworm"}, {13, "trixie"}}
	ubus := []struct{ ver, name string }{{"16.04", "xenial"}, {"18.04", "bionic"}, {"20.04", "focal"}, {"22.04", "jammy"}, {"23.10", "mantic"}, {"24.04", "noble"}}
	for i := 0; i < cfg.N(60, 1000) && !r.Stop(); i++ {
		// debian
		d := debs[rnd.Intn(len(debs))]
		kvs := []osKV{
			{key: "PRETTY_NAME", value: fmt.Sprintf("Debian GNU/Linux %d (%s)", d.n, d.name)},
			{key: "NAME", value: "Debian GNU/Linux"},
			{key: "VERSION_ID", value: fmt.Sprint(d.n)},
			{key: "VERSION", value: fmt.Sprintf("%d (%s)", d.n, d.name)},
			{key: "ID", value: "debian"},
			{key: "HOME_URL", value: "https://www.debian.org/"},
		}
		withCodename := rnd.Chance(2, 3) // older releases have no VERSION_CODENAME: the name comes from VERSION
		if withCodename {
			kvs = append(kvs, osKV{key: "VERSION_CODENAME", value: d.name})
		}
		file := renderOsFile(rnd, kvs, []int{0, 1, 2})
		ds, ok := debianOp(r, file, true, true)
		r.Case(fmt.Sprintf("debian-dist %d", i), true)
		switch {
		case !ok || len(ds) != 1:
			r.Fail("", fmt.Sprintf("debian distribution scanner reports %d distributions for %s", len(ds), quoteShort(file)))
		case ds[0].DID != "debian" || ds[0].VersionID != fmt.Sprint(d.n) || ds[0].VersionCodeName != d.name || ds[0].Version != fmt.Sprintf("%d (%s)", d.n, d.name):
			r.Fail("", fmt.Sprintf("debian distribution scanner reports %+v for %s", *ds[0], quoteShort(file)))
		default:
			r.Count("dist:debian:exact")
		}
		debianOp(r, mutateText(rnd, file), rnd.Chance(9, 10), true)
		// ubuntu, from os-release or lsb-release (the way Ubuntu ships them: bare or double-quoted)
		u := ubus[rnd.Intn(len(ubus))]
		osr := renderOsFile(rnd, []osKV{{key: "NAME", value: "Ubuntu"}, {key: "VERSION", value: u.ver + " LTS (" + strings.Title(u.name) + ")"}, {key: "ID", value: "ubuntu"}, {key: "ID_LIKE", value: "debian"}, {key: "VERSION_ID", value: u.ver}, {key: "VERSION_CODENAME", value: u.name}, {key: "UBUNTU_CODENAME", value: u.name}}, []int{0, 1})
		lsb := renderOsFile(rnd, []osKV{{key: "DISTRIB_ID", value: "Ubuntu"}, {key: "DISTRIB_RELEASE", value: u.ver}, {key: "DISTRIB_CODENAME", value: u.name}, {key: "DISTRIB_DESCRIPTION", value: "Ubuntu " + u.ver + " LTS"}}, []int{0, 1})
		layout := rnd.Intn(3)
		hasLsb, hasOsr := layout != 1, layout != 2
		ds, ok = ubuntuOp(r, lsb, osr, hasLsb, hasOsr, true)
		r.Case(fmt.Sprintf("ubuntu-dist %d", i), true)
		r.Count(fmt.Sprintf("dist:ubuntu:layout:%d", layout))
		wit := fmt.Sprintf("lsb-release=%s os-release=%s (layout %d)", quoteShort(lsb), quoteShort(osr), layout)
		switch {
		case !ok || len(ds) != 1:
			r.Fail("", fmt.Sprintf("ubuntu distribution scanner reports %d distributions for %s", len(ds), wit))
		case ds[0].DID != "ubuntu" || ds[0].VersionID != u.ver || ds[0].VersionCodeName != u.name || ds[0].Name != "Ubuntu":
			r.Fail("", fmt.Sprintf("ubuntu distribution scanner reports %+v for %s", *ds[0], wit))
		default:
			r.Count("dist:ubuntu:exact")
		}
		ubuntuOp(r, mutateText(rnd, lsb), mutateText(rnd, osr), rnd.Chance(2, 3), rnd.Chance(2, 3), true)
		// the other distribution's file: nothing
		if ds, ok := debianOp(r, osr, true, false); !ok || len(ds) != 0 {
			r.Fail("", "debian distribution scanner reports a distribution for an Ubuntu file "+quoteShort(osr))
		}
		if ds, ok := ubuntuOp(r, nil, file, false, true, false); !ok || len(ds) != 0 {
			r.Fail("", "ubuntu distribution scanner reports a distribution for a Debian file "+quoteShort(file))
		}
	}
}
