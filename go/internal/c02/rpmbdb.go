package c02

import (
	"encoding/binary"
)

// The harness's own writer of rpm's Berkeley DB `Packages` file (a libdb hash database, see
// libdb src/dbinc/db_page.h and hash.h): a metadata page, hash bucket pages whose index
// array pairs a key item with a data item, and overflow page chains holding the items that
// are too big for a bucket page (every real rpm header).

// bdbLayout chooses everything the format leaves open.
type bdbLayout struct {
	pageSize  int
	bigEndian bool
	sorted    bool  // bucket pages of type 13 (libdb >= 4.6) instead of 2
	perBucket []int // how many records each bucket page holds, in page order; sums to the number of blobs (+1 with countRec)
	countRec  bool  // rpm's record under key 0 (the next instance number): a 4-byte inline item, not a header
	countAt   int   // its position in the sequence of records
	scatter   bool  // overflow chains interleaved and not in ascending page order
	junkPages int   // pages of other types (free, duplicate, btree-ish) between the others
	seed      uint64
}

func bdbFreshLayout(r interface{ Intn(int) int }, n int) bdbLayout {
	l := bdbLayout{pageSize: 4096, sorted: true, countRec: true}
	rec := n + 1
	for rec > 0 {
		k := 1 + r.Intn(6)
		if k > rec {
			k = rec
		}
		l.perBucket = append(l.perBucket, k)
		rec -= k
	}
	return l
}

func bdbRandomLayout(r interface{ Intn(int) int }, n int) bdbLayout {
	l := bdbLayout{
		pageSize:  512 << r.Intn(8),
		bigEndian: r.Intn(3) == 0,
		sorted:    r.Intn(2) == 0,
		countRec:  r.Intn(4) != 0,
		scatter:   r.Intn(2) == 0,
		junkPages: r.Intn(4),
		seed:      uint64(r.Intn(1 << 30)),
	}
	rec := n
	if l.countRec {
		rec++
		l.countAt = r.Intn(rec)
	}
	// a 512-byte page holds few index pairs: 26 + 4*k + k*(5+12) <= 512
	max := 6
	if l.pageSize >= 4096 {
		max = 40
	}
	for rec > 0 {
		k := 1 + r.Intn(max)
		if r.Intn(5) == 0 {
			k = 0 // an empty bucket
		}
		if k > rec {
			k = rec
		}
		l.perBucket = append(l.perBucket, k)
		rec -= k
	}
	return l
}

// rpmBdb renders the blobs; the second result lists the blobs' indexes in the order a reader
// going through the pages and their index arrays meets them, and which of them are stored
// inline in the bucket page (smaller than a quarter page: libdb's ISBIG rule).
func rpmBdb(blobs [][]byte, l bdbLayout) (file []byte, order []int, inline []bool) {
	ord := binary.ByteOrder(binary.LittleEndian)
	if l.bigEndian {
		ord = binary.BigEndian
	}
	ps := l.pageSize
	x := l.seed*2862933555777941757 + 3037000493
	rnd := func(n int) int {
		x = x*6364136223846793005 + 1442695040888963407
		return int((x >> 33) % uint64(n))
	}
	// the records in the order they are laid out
	type rec struct {
		blob   int // -1: the count record
		data   []byte
		inline bool
		chain  []int // overflow pages
	}
	var recs []rec
	for i, b := range blobs {
		recs = append(recs, rec{blob: i, data: b, inline: len(b) <= ps/4})
	}
	if l.countRec {
		c := make([]byte, 4)
		binary.LittleEndian.PutUint32(c, uint32(len(blobs)+1))
		at := l.countAt
		if at > len(recs) {
			at = len(recs)
		}
		recs = append(recs[:at], append([]rec{{blob: -1, data: c, inline: true}}, recs[at:]...)...)
	}
	// an inline item must fit a bucket page next to its key; otherwise it goes off-page anyway
	for i := range recs {
		if recs[i].inline && len(recs[i].data) > ps/4 {
			recs[i].inline = false
		}
	}
	// which records go on which bucket page: the layout's counts, cut short where a page is full
	var buckets [][]int
	{
		ri := 0
		for _, want := range l.perBucket {
			var cur []int
			used := 26
			for len(cur) < want && ri < len(recs) {
				need := 4 + 5 + 12
				if recs[ri].inline {
					need = 4 + 5 + 1 + len(recs[ri].data)
				}
				if used+need > ps {
					break
				}
				used += need
				cur = append(cur, ri)
				ri++
			}
			buckets = append(buckets, cur)
		}
		for ri < len(recs) {
			var cur []int
			used := 26
			for ri < len(recs) {
				need := 4 + 5 + 12
				if recs[ri].inline {
					need = 4 + 5 + 1 + len(recs[ri].data)
				}
				if used+need > ps {
					break
				}
				used += need
				cur = append(cur, ri)
				ri++
			}
			buckets = append(buckets, cur)
		}
	}
	// page numbers: 0 = meta. A fresh database has its buckets first (as libdb allocates them at
	// creation) and the overflow pages after them; one that has grown has bucket pages anywhere,
	// the last page included. The buckets keep their relative order (the order of the headers).
	nb := len(buckets)
	type pageUse struct{ rec, seq int }
	var ovUse []pageUse
	per := ps - 26
	for i := range recs {
		if recs[i].inline {
			continue
		}
		np := (len(recs[i].data) + per - 1) / per
		if np == 0 {
			np = 1
		}
		for s := 0; s < np; s++ {
			ovUse = append(ovUse, pageUse{i, s})
		}
	}
	if l.scatter {
		for i := len(ovUse) - 1; i > 0; i-- {
			j := rnd(i + 1)
			ovUse[i], ovUse[j] = ovUse[j], ovUse[i]
		}
	}
	totalPages := nb + len(ovUse) + l.junkPages
	isBucket := make([]bool, totalPages+1) // by page number
	if l.scatter && nb > 0 {
		chosen := 0
		if rnd(2) == 0 {
			isBucket[totalPages] = true // a bucket is the last page of the file
			chosen = 1
		}
		for chosen < nb {
			pg := 1 + rnd(totalPages)
			if !isBucket[pg] {
				isBucket[pg] = true
				chosen++
			}
		}
	} else {
		for b := 1; b <= nb; b++ {
			isBucket[b] = true
		}
	}
	bucketPage := make([]int, 0, nb)
	var otherPages []int
	for pg := 1; pg <= totalPages; pg++ {
		if isBucket[pg] {
			bucketPage = append(bucketPage, pg)
		} else {
			otherPages = append(otherPages, pg)
		}
	}
	junkAt := map[int]bool{}
	for len(junkAt) < l.junkPages {
		junkAt[rnd(len(otherPages))] = true
	}
	var junk []int
	k := 0
	for slot, pg := range otherPages {
		if junkAt[slot] {
			junk = append(junk, pg)
			continue
		}
		u := ovUse[k]
		k++
		r := &recs[u.rec]
		for len(r.chain) <= u.seq {
			r.chain = append(r.chain, 0)
		}
		r.chain[u.seq] = pg
	}
	next := totalPages + 1
	last := next - 1
	file = make([]byte, (last+1)*ps)
	pageHdr := func(pg, prev, nxt, entries, hf int, typ byte) {
		p := file[pg*ps:]
		ord.PutUint32(p[8:], uint32(pg))
		ord.PutUint32(p[12:], uint32(prev))
		ord.PutUint32(p[16:], uint32(nxt))
		ord.PutUint16(p[20:], uint16(entries))
		ord.PutUint16(p[22:], uint16(hf))
		p[24] = 0
		p[25] = typ
	}
	// meta page
	{
		p := file
		ord.PutUint32(p[8:], 0)
		ord.PutUint32(p[12:], 0x00061561)
		ord.PutUint32(p[16:], 9)
		ord.PutUint32(p[20:], uint32(ps))
		p[24] = 0
		p[25] = 8
		ord.PutUint32(p[32:], uint32(last))
		ord.PutUint32(p[40:], uint32(len(recs)))
		ord.PutUint32(p[44:], uint32(len(recs)))
		copy(p[52:72], "verif-c02-bdb-fileid")
		if nb > 0 {
			ord.PutUint32(p[72:], uint32(nb-1))
		}
		ord.PutUint32(p[76:], 0xff)
		ord.PutUint32(p[80:], 0x7f)
		ord.PutUint32(p[88:], uint32(len(recs)))
		ord.PutUint32(p[92:], 0x5e688dd1)
	}
	// bucket pages
	for b, members := range buckets {
		pg := bucketPage[b]
		typ := byte(2)
		if l.sorted {
			typ = 13
		}
		p := file[pg*ps : (pg+1)*ps]
		hf := ps
		for e, ri := range members {
			r := &recs[ri]
			// key item: H_KEYDATA with the 4-byte instance number
			hf -= 5
			p[hf] = 1
			binary.LittleEndian.PutUint32(p[hf+1:], uint32(r.blob+1))
			ord.PutUint16(p[26+4*e:], uint16(hf))
			if r.inline {
				hf -= 1 + len(r.data)
				p[hf] = 1
				copy(p[hf+1:], r.data)
			} else {
				hf -= 12
				p[hf] = 3
				ord.PutUint32(p[hf+4:], uint32(r.chain[0]))
				ord.PutUint32(p[hf+8:], uint32(len(r.data)))
			}
			ord.PutUint16(p[26+4*e+2:], uint16(hf))
			if r.blob >= 0 {
				order = append(order, r.blob)
				inline = append(inline, r.inline)
			}
		}
		pageHdr(pg, 0, 0, 2*len(members), hf&0xffff, typ)
	}
	// overflow chains
	for i := range recs {
		r := &recs[i]
		for s, pg := range r.chain {
			lo := s * per
			hi := lo + per
			if hi > len(r.data) {
				hi = len(r.data)
			}
			prev, nxt := 0, 0
			if s > 0 {
				prev = r.chain[s-1]
			}
			if s+1 < len(r.chain) {
				nxt = r.chain[s+1]
			}
			pageHdr(pg, prev, nxt, 1, hi-lo, 7)
			copy(file[pg*ps+26:], r.data[lo:hi])
		}
	}
	// other pages: a free page (type 0), a hash duplicate page, a btree leaf
	for i, pg := range junk {
		typ := []byte{0, 4, 5}[i%3]
		pageHdr(pg, 0, 0, 0, ps, typ)
		// bytes that would look like an off-page item if the page were taken for a bucket
		file[pg*ps+40] = 3
	}
	return file, order, inline
}
