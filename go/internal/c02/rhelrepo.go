package c02

import (
	"context"
	"encoding/json"
	"fmt"
	"io"
	"net/http"
	"os"
	"path/filepath"
	"sort"
	"strings"

	"github.com/quay/claircore/rhel"
	"github.com/quay/claircore/toolkit/types/cpe"
	"github.com/quay/claircore/verifharness/internal/hx"
)

// rhel.RepositoryScanner: the repositories ("products") of a layer are the CPEs the
// repository-to-CPE mapping gives for the content sets listed in the layer's content manifest
// (root/buildinfo/content_manifests/*.json or usr/share/buildinfo/*.json); when there is no
// manifest, the labels of root/buildinfo/Dockerfile-<name>-<version>-<release> name the build
// the container API is asked about. The mapping comes from a local file, the API is an
// http.RoundTripper in this process: no network.

type fakeAPI struct {
	cpes     map[string]map[string][]string // nvr -> arch -> cpes
	requests []string
}

func (f *fakeAPI) RoundTrip(req *http.Request) (*http.Response, error) {
	f.requests = append(f.requests, req.URL.Path)
	nvr := strings.TrimPrefix(req.URL.Path, "/v1/images/nvr/")
	type label struct {
		Name  string `json:"name"`
		Value string `json:"value"`
	}
	type image struct {
		CPEs   []string `json:"cpe_ids"`
		Parsed struct {
			Architecture string  `json:"architecture"`
			Labels       []label `json:"labels"`
		} `json:"parsed_data"`
	}
	var out struct {
		Data []image `json:"data"`
	}
	archs := make([]string, 0)
	for a := range f.cpes[nvr] {
		archs = append(archs, a)
	}
	sort.Strings(archs)
	for _, a := range archs {
		var im image
		im.CPEs = f.cpes[nvr][a]
		im.Parsed.Architecture = a
		im.Parsed.Labels = []label{{"name", "x"}, {"architecture", a}}
		out.Data = append(out.Data, im)
	}
	b, _ := json.Marshal(out)
	return &http.Response{StatusCode: 200, Status: "200 OK", Header: http.Header{}, Body: io.NopCloser(strings.NewReader(string(b))), Request: req}, nil
}

func newRepoScanner(mappingFile string, api *fakeAPI) (*rhel.RepositoryScanner, error) {
	s := &rhel.RepositoryScanner{}
	cfg := func(v interface{}) error {
		c := v.(*rhel.RepositoryScannerConfig)
		c.Repo2CPEMappingFile = mappingFile
		if api == nil {
			c.DisableAPI = true
		} else {
			c.API = "http://containerapi.invalid/"
		}
		return nil
	}
	cl := &http.Client{Transport: api}
	if api == nil {
		cl = &http.Client{Transport: &fakeAPI{}}
	}
	if err := s.Configure(context.Background(), cfg, cl); err != nil {
		return nil, err
	}
	return s, nil
}

func scanRepos(s *rhel.RepositoryScanner, ents []ent) (names []string, res string) {
	l, err := mkLayer(ents)
	if err != nil {
		return nil, "err"
	}
	defer l.Close()
	res = hx.Guard(func() string {
		rs, err := s.Scan(context.Background(), l)
		if err != nil {
			return "err"
		}
		for _, r := range rs {
			w, err := cpe.Unbind(r.Name)
			if err != nil || w != r.CPE || r.Key != "rhel-cpe-repository" || r.URI != "" {
				return "bad-constants"
			}
			names = append(names, r.Name)
		}
		return "ok"
	})
	sort.Strings(names)
	return names, res
}

type repoManifest struct {
	dir     int
	name    string
	kind    string // ok | syntax | type
	repos   []string
	content []byte
}

var repoDirs = []string{"root/buildinfo/content_manifests/", "usr/share/buildinfo/"}

func runRhelRepo(r *hx.Run, rnd *hx.Rand, cfg hx.Config) error {
	repoNames := []string{"rhel-8-for-x86_64-baseos-rpms", "rhel-8-for-x86_64-appstream-rpms", "rhel-9-for-aarch64-baseos-rpms", "ubi-8-baseos-rpms", "ubi-8-appstream-rpms", "rhel-7-server-rpms", "codeready-builder-for-rhel-8-x86_64-rpms", "rhocp-4.12-for-rhel-8-x86_64-rpms", "unknown-to-the-mapping-rpms", "3scale-amp-2-rpms-for-rhel-8-x86_64-rpms"}
	cpePool := []string{"cpe:/o:redhat:enterprise_linux:8::baseos", "cpe:/a:redhat:enterprise_linux:8::appstream", "cpe:/o:redhat:enterprise_linux:9::baseos", "cpe:/a:redhat:enterprise_linux:8", "cpe:/o:redhat:enterprise_linux:7::server", "cpe:/a:redhat:enterprise_linux:8::crb", "cpe:/a:redhat:openshift:4.12::el8", "cpe:/a:redhat:3scale_amp:2.13::el8", "cpe:/o:redhat:rhel_eus:8.6::baseos"}
	badCPEs := []string{"not-a-cpe", "cpe:/x:redhat:bad", ""}
	n := cfg.N(100, 2500)
	var scanner *rhel.RepositoryScanner
	var mapping map[string][]string
	var mapOp []string
	for i := 0; i < n && !r.Stop(); i++ {
		if i%20 == 0 {
			// a new mapping file
			mapping = map[string][]string{}
			for _, rn := range repoNames {
				if rn == "unknown-to-the-mapping-rpms" {
					continue
				}
				var cs []string
				for k := rnd.Intn(4); k > 0; k-- {
					c := rnd.Pick(cpePool...)
					if rnd.Chance(1, 12) {
						c = rnd.Pick(badCPEs...)
					}
					cs = append(cs, c)
				}
				mapping[rn] = cs
			}
			type repo struct {
				CPEs []string `json:"cpes"`
			}
			mf := struct {
				Data map[string]repo `json:"data"`
			}{Data: map[string]repo{}}
			mapOp = nil
			names := make([]string, 0, len(mapping))
			for rn := range mapping {
				names = append(names, rn)
			}
			sort.Strings(names)
			for _, rn := range names {
				mf.Data[rn] = repo{CPEs: mapping[rn]}
				var items []string
				for _, c := range mapping[rn] {
					v := "1"
					if _, err := cpe.Unbind(c); err != nil {
						v = "0"
					}
					items = append(items, hx.Hex([]byte(c))+":"+v)
				}
				mapOp = append(mapOp, "m:"+hx.Hex([]byte(rn))+"="+strings.Join(items, ","))
			}
			b, _ := json.MarshalIndent(mf, "", " ")
			p := filepath.Join(cfg.OutDir, "repository-to-cpe.json")
			if err := os.WriteFile(p, b, 0o644); err != nil {
				return err
			}
			var err error
			scanner, err = newRepoScanner(p, nil)
			os.Remove(p)
			if err != nil {
				return fmt.Errorf("configuring rhel.RepositoryScanner: %w", err)
			}
		}
		// the layer's manifests
		k := 1
		switch rnd.Intn(10) {
		case 0:
			k = 0
		case 1, 2:
			k = 2 + rnd.Intn(2)
		}
		var ms []repoManifest
		var ents []ent
		seen := map[string]bool{}
		for j := 0; j < k; j++ {
			m := repoManifest{dir: rnd.Intn(2), kind: "ok"}
			m.name = rnd.Pick("ubi8-container", "myapp-container", "rhel-els-container", "openshift-enterprise-base-container", ".hidden") + fmt.Sprintf("-%d.%d-%d.json", 1+rnd.Intn(9), rnd.Intn(10), rnd.Intn(2000))
			if seen[repoDirs[m.dir]+m.name] {
				continue
			}
			seen[repoDirs[m.dir]+m.name] = true
			for c := rnd.Intn(4); c > 0; c-- {
				m.repos = append(m.repos, rnd.Pick(repoNames...))
			}
			doc := map[string]interface{}{
				"metadata":       map[string]interface{}{"icm_version": 1, "icm_spec": "https://raw.githubusercontent.com/containerbuildsystem/atomic-reactor/master/atomic_reactor/schemas/content_manifest.json", "image_layer_index": rnd.Intn(5)},
				"image_contents": []interface{}{},
			}
			if len(m.repos) > 0 || rnd.Chance(1, 2) {
				rs := m.repos
				if rs == nil {
					rs = []string{}
				}
				doc["content_sets"] = rs
			}
			if rnd.Chance(1, 4) {
				doc["from_dnf_hint"] = true
			}
			b, _ := json.MarshalIndent(doc, "", rnd.Pick("", "  ", "\t"))
			switch rnd.Intn(14) {
			case 0:
				m.kind, b = "syntax", b[:len(b)/2]
			case 1:
				m.kind, b = "type", []byte(`{"content_sets": "rhel-8-for-x86_64-baseos-rpms"}`)
			case 2:
				m.kind, b = "syntax", nil
			}
			m.content = b
			ms = append(ms, m)
			ents = append(ents, ent{path: repoDirs[m.dir] + m.name, data: b})
		}
		// neighbours that are no manifests
		ents = append(ents, ent{path: "root/buildinfo/content_manifests/README", data: []byte("x")}, ent{path: "usr/share/buildinfo/labels.txt", data: []byte(`{"content_sets":["rhel-7-server-rpms"]}`)},
			ent{path: "root/buildinfo/Dockerfile-ubi8-8.6-754", data: []byte("FROM scratch\nLABEL com.redhat.component=\"ubi8-container\" architecture=\"x86_64\"\n")},
			ent{path: "root/buildinfo/content_manifests/sub/nested-1.0-1.json", data: []byte(`{"content_sets":["rhel-7-server-rpms"]}`)})
		for k := len(ents) - 1; k > 0; k-- {
			j := rnd.Intn(k + 1)
			ents[k], ents[j] = ents[j], ents[k]
		}
		got, res := scanRepos(scanner, ents)
		op := append([]string{"rhelrepo"}, mapOp...)
		for _, m := range ms {
			var hs []string
			for _, x := range m.repos {
				hs = append(hs, hx.Hex([]byte(x)))
			}
			op = append(op, fmt.Sprintf("f:%d:%s:%s:%s", m.dir, hx.Hex([]byte(m.name)), m.kind, strings.Join(hs, ",")))
		}
		out := res
		if res == "ok" {
			l := []string{fmt.Sprintf("ok %d", len(got))}
			for _, g := range got {
				l = append(l, hx.Hex([]byte(g)))
			}
			sort.Strings(l[1:])
			out = strings.Join(l, " ")
		}
		r.Op(strings.Join(op, " "), out, len(ms) > 0)
		r.Count(fmt.Sprintf("rhelrepo:manifests:%d", len(ms)))
		// ground truth: the CPEs of every content set of every well-formed manifest of the layer
		allOK := true
		want := map[string]bool{}
		first := map[string]bool{}
		var order []repoManifest
		for d := 0; d < 2; d++ {
			var inDir []repoManifest
			for _, m := range ms {
				if m.dir == d {
					inDir = append(inDir, m)
				}
			}
			sort.Slice(inDir, func(a, b int) bool { return inDir[a].name < inDir[b].name })
			order = append(order, inDir...)
		}
		for j, m := range order {
			if m.kind != "ok" {
				allOK = false
				continue
			}
			for _, rn := range m.repos {
				for _, c := range mapping[rn] {
					if _, err := cpe.Unbind(c); err == nil {
						want[c] = true
						if j == 0 {
							first[c] = true
						}
					}
				}
			}
		}
		if !allOK {
			r.Count("rhelrepo:malformed-manifest")
			continue
		}
		r.Case(fmt.Sprintf("rhelrepo %d", i), len(want) > 0)
		gotSet := map[string]bool{}
		for _, g := range got {
			gotSet[g] = true
		}
		eq := func(a, b map[string]bool) bool {
			if len(a) != len(b) {
				return false
			}
			for k := range a {
				if !b[k] {
					return false
				}
			}
			return true
		}
		wit := fmt.Sprintf("manifests %v, mapping %v", describeManifests(order), mapping)
		if len(wit) > 1500 {
			wit = wit[:1500] + "…"
		}
		switch {
		case res != "ok":
			r.Fail("", "rhel.RepositoryScanner.Scan: "+res+" on well-formed content manifests: "+wit)
		case len(got) != len(gotSet):
			r.Fail("", fmt.Sprintf("rhel repository scanner reports a repository twice: %v: %s", got, wit))
		case eq(gotSet, want):
			r.Count("rhelrepo:oracle:exact")
		case len(order) > 1 && eq(gotSet, first):
			r.Fail("rhel-repo-first-manifest-only", fmt.Sprintf("rhel repository scanner reports %v: the content sets of the first manifest only; all manifests of the layer state %v: %s", got, keys(want), wit))
		default:
			r.Fail("", fmt.Sprintf("rhel repository scanner reports %v, the manifests and the mapping state %v: %s", got, keys(want), wit))
		}
	}
	// recorded finding: two manifests in one layer (a squashed image keeps its parent's)
	{
		p := filepath.Join(cfg.OutDir, "repository-to-cpe.json")
		os.WriteFile(p, []byte(`{"data":{"ubi-8-baseos-rpms":{"cpes":["cpe:/o:redhat:enterprise_linux:8::baseos"]},"rhocp-4.12-for-rhel-8-x86_64-rpms":{"cpes":["cpe:/a:redhat:openshift:4.12::el8"]}}}`), 0o644)
		s, err := newRepoScanner(p, nil)
		os.Remove(p)
		if err != nil {
			return err
		}
		got, res := scanRepos(s, []ent{
			{path: "root/buildinfo/content_manifests/ubi8-container-8.6-754.json", data: []byte(`{"metadata":{"image_layer_index":0},"content_sets":["ubi-8-baseos-rpms"]}`)},
			{path: "root/buildinfo/content_manifests/openshift-enterprise-base-container-v4.12.0-202301.json", data: []byte(`{"metadata":{"image_layer_index":1},"content_sets":["rhocp-4.12-for-rhel-8-x86_64-rpms"]}`)},
		})
		switch {
		case res == "ok" && len(got) == 1 && got[0] == "cpe:/a:redhat:openshift:4.12::el8":
			r.KnownSeen("rhel-repo-first-manifest-only", "a layer with ubi8-container-8.6-754.json (ubi-8-baseos-rpms) and openshift-enterprise-base-container-v4.12.0-202301.json (rhocp-4.12-for-rhel-8-x86_64-rpms) reports only cpe:/a:redhat:openshift:4.12::el8")
		case res == "ok" && len(got) == 2:
		default:
			r.Fail("", fmt.Sprintf("rhel repository scanner: two manifests in one layer: %s %v", res, got))
		}
	}
	return runRhelDockerfile(r, rnd, cfg)
}

func keys(m map[string]bool) []string {
	var out []string
	for k := range m {
		out = append(out, k)
	}
	sort.Strings(out)
	return out
}

func describeManifests(ms []repoManifest) []string {
	var out []string
	for _, m := range ms {
		out = append(out, fmt.Sprintf("%s%s=%s", repoDirs[m.dir], m.name, quoteShort(m.content)))
	}
	return out
}

// runRhelDockerfile: no content manifest, the build is identified by the Dockerfile's labels and
// name; the (in-process) container API is asked for exactly that build and architecture.
func runRhelDockerfile(r *hx.Run, rnd *hx.Rand, cfg hx.Config) error {
	p := filepath.Join(cfg.OutDir, "repository-to-cpe.json")
	if err := os.WriteFile(p, []byte(`{"data":{}}`), 0o644); err != nil {
		return err
	}
	defer os.Remove(p)
	for i := 0; i < cfg.N(60, 1000) && !r.Stop(); i++ {
		comp := rnd.Pick("ubi8-container", "rhel-server-container", "openshift-enterprise-cli-container", "my_app-container", "a")
		ver := rnd.Pick("8.6", "v4.12.0", "1", "7.9") + ""
		rel := fmt.Sprintf("%d", 1+rnd.Intn(3000)) + rnd.Pick("", ".1", ".el8")
		arch := rnd.Pick("x86_64", "aarch64", "s390x", "ppc64le")
		fileName := rnd.Pick("ubi8", "rhel7", "openshift-enterprise-cli", "x") + "-" + ver + "-" + rel
		nvr := comp + "-" + ver + "-" + rel
		api := &fakeAPI{cpes: map[string]map[string][]string{
			nvr:               {arch: {"cpe:/o:redhat:enterprise_linux:8::baseos", "cpe:/a:redhat:enterprise_linux:8::appstream"}, "other-arch": {"cpe:/o:redhat:enterprise_linux:6::server"}},
			"other-build-1-1": {arch: {"cpe:/o:redhat:enterprise_linux:7::server"}},
		}}
		s, err := newRepoScanner(p, api)
		if err != nil {
			return err
		}
		q := func(v string) string {
			switch rnd.Intn(3) {
			case 0:
				return `"` + v + `"`
			case 1:
				return `'` + v + `'`
			}
			return v
		}
		var df strings.Builder
		df.WriteString("FROM sha256:0123456789abcdef\n")
		if rnd.Chance(1, 2) {
			df.WriteString("# a comment with LABEL architecture=wrong\n")
		}
		df.WriteString("ENV container oci\n")
		useVar := rnd.Chance(1, 3)
		if useVar {
			df.WriteString("ENV COMPONENT=" + q(comp) + " UNUSED=1\n")
		}
		df.WriteString("ADD help.md /help.md\n")
		labels := []string{"com.redhat.component=" + q(comp), "architecture=" + q(arch), "name=" + q("ubi8"), "version=" + q(ver), "release=" + q(rel), `summary="Provides the latest release of X."`, `description="a component=wrong architecture=wrong text"`}
		if useVar {
			labels[0] = `com.redhat.component="$COMPONENT"`
			if rnd.Chance(1, 2) {
				labels[0] = `com.redhat.component="${COMPONENT}"`
			}
		}
		for k := len(labels) - 1; k > 0; k-- {
			j := rnd.Intn(k + 1)
			labels[k], labels[j] = labels[j], labels[k]
		}
		switch rnd.Intn(3) {
		case 0:
			df.WriteString("LABEL " + strings.Join(labels, " ") + "\n")
		case 1:
			df.WriteString("LABEL " + strings.Join(labels, " \\\n      ") + "\n")
		case 2:
			for _, l := range labels {
				df.WriteString("LABEL " + l + "\n")
			}
		}
		df.WriteString("RUN rm -rf /var/log/*\nCMD [\"/bin/bash\"]\n")
		ents := []ent{{path: "root/buildinfo/Dockerfile-" + fileName, data: []byte(df.String())}, {path: "root/buildinfo/labels.json", data: []byte("{}")}}
		got, res := scanRepos(s, ents)
		r.Case(fmt.Sprintf("rhel-dockerfile %d", i), true)
		wit := fmt.Sprintf("root/buildinfo/Dockerfile-%s=%q", fileName, df.String())
		wantReq := "/v1/images/nvr/" + nvr
		switch {
		case res != "ok":
			r.Fail("", "rhel.RepositoryScanner.Scan: "+res+" on a build-system Dockerfile: "+wit)
		case len(api.requests) != 1 || api.requests[0] != wantReq:
			r.Fail("", fmt.Sprintf("rhel repository scanner asks the container API for %v, the Dockerfile states build %s: %s", api.requests, nvr, wit))
		case len(got) != 2 || got[0] != "cpe:/a:redhat:enterprise_linux:8::appstream" || got[1] != "cpe:/o:redhat:enterprise_linux:8::baseos":
			r.Fail("", fmt.Sprintf("rhel repository scanner reports %v for build %s on %s: %s", got, nvr, arch, wit))
		default:
			r.Count("rhelrepo:dockerfile:exact")
		}
	}
	return nil
}
