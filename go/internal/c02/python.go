package c02

import (
	"bytes"
	"context"
	"fmt"
	"sort"
	"strconv"
	"strings"

	"github.com/quay/claircore"
	"github.com/quay/claircore/python"
	"github.com/quay/claircore/verifharness/internal/hx"
)

type pyPkg struct {
	name, version string // as written in the metadata file (PEP 440 normal form)
	kind          int    // 0 wheel, 1 .egg-info directory, 2 .egg-info file, 3 .egg directory
	site          string
	installer     string // wheel only: content of INSTALLER ("" = no file)
	extras        []field
	body          string
}

func (p pyPkg) path() string {
	stem := p.site + "/" + strings.ReplaceAll(p.name, "-", "_") + "-" + p.version
	switch p.kind {
	case 0:
		return stem + ".dist-info/METADATA"
	case 1:
		return stem + ".egg-info/PKG-INFO"
	case 2:
		return stem + ".egg-info"
	}
	return stem + "-py3.9.egg/EGG-INFO/PKG-INFO"
}

func (p pyPkg) db() string {
	switch p.kind {
	case 3:
		return "python:" + strings.TrimSuffix(p.path(), "/EGG-INFO/PKG-INFO")
	}
	return "python:" + p.site
}

type pyTuple struct {
	name, version, db, path string
	slots                   string
}

func genPep440(r *hx.Rand) (written string, public string, class string) {
	var b strings.Builder
	if r.Chance(1, 10) {
		fmt.Fprintf(&b, "%d!", 1+r.Intn(3))
	}
	n := 1 + r.Intn(4)
	for i := 0; i < n; i++ {
		if i > 0 {
			b.WriteByte('.')
		}
		if r.Chance(1, 12) {
			b.WriteString(strconv.Itoa(2000 + r.Intn(30)))
		} else {
			b.WriteString(strconv.Itoa(r.Intn(30)))
		}
	}
	num := func() int {
		if r.Chance(1, 8) {
			return 0
		}
		return 1 + r.Intn(20)
	}
	if r.Chance(1, 5) {
		b.WriteString(r.Pick("a", "b", "rc") + strconv.Itoa(r.Intn(9)))
	}
	pub := b.String()
	if r.Chance(1, 6) {
		k := num()
		b.WriteString(".post" + strconv.Itoa(k))
		if k == 0 {
			class = "python-dev0-post0-dropped"
		} else {
			pub += ".post" + strconv.Itoa(k)
		}
	}
	if r.Chance(1, 6) {
		k := num()
		b.WriteString(".dev" + strconv.Itoa(k))
		if k == 0 {
			class = "python-dev0-post0-dropped"
		} else {
			pub += ".dev" + strconv.Itoa(k)
		}
	}
	written = b.String()
	if r.Chance(1, 12) {
		written += "+" + r.Pick("ubuntu1", "local.7", "cpu", "g1234abc")
		if class == "" {
			class = "python-local-version-dropped"
		}
	}
	return written, pub, class
}

var pyNames = []string{"requests", "PyYAML", "Django", "numpy", "zope.interface", "typing_extensions", "setuptools", "pip", "Flask-SQLAlchemy", "ruamel.yaml.clib", "backports.zoneinfo", "six", "A"}
var pySites = []string{"usr/lib/python3.9/site-packages", "usr/local/lib/python3.11/site-packages", "usr/lib64/python3.6/site-packages", "opt/venv/lib/python3.10/site-packages", "app/.venv/lib/python3.12/site-packages", "home/user/.local/lib/python2.7/site-packages", "srv"}

func renderPyMeta(r *hx.Rand, p pyPkg) []byte {
	var w bytes.Buffer
	fs := []field{{key: "Name", sep: " ", first: p.name}, {key: "Version", sep: " ", first: p.version}}
	fs = append(fs, p.extras...)
	if r.Chance(1, 3) {
		for i := len(fs) - 1; i > 0; i-- {
			j := r.Intn(i + 1)
			fs[i], fs[j] = fs[j], fs[i]
		}
	}
	fs = append([]field{{key: "Metadata-Version", sep: " ", first: r.Pick("1.1", "2.1", "2.3")}}, fs...)
	writeFields(&w, fs, "\n")
	if p.body != "" {
		w.WriteString("\n" + p.body)
	} else if r.Chance(1, 2) {
		w.WriteString("\n")
	}
	return w.Bytes()
}

func genPyExtras(r *hx.Rand) []field {
	var fs []field
	if r.Chance(2, 3) {
		fs = append(fs, field{key: "Summary", sep: " ", first: "Python HTTP for Humans."})
	}
	if r.Chance(1, 2) {
		fs = append(fs, field{key: "Home-page", sep: " ", first: "https://requests.readthedocs.io"}, field{key: "Author-email", sep: " ", first: "me@kennethreitz.org"})
	}
	if r.Chance(1, 2) {
		fs = append(fs, field{key: "License", sep: " ", first: "Apache 2.0"}, field{key: "Classifier", sep: " ", first: "Programming Language :: Python :: 3"}, field{key: "Classifier", sep: " ", first: "License :: OSI Approved"})
	}
	if r.Chance(1, 2) {
		fs = append(fs, field{key: "Requires-Dist", sep: " ", first: "charset-normalizer (<4,>=2)"}, field{key: "Requires-Dist", sep: " ", first: "PySocks (!=1.5.7,>=1.5.6) ; extra == 'socks'"})
	}
	if r.Chance(1, 4) {
		// the old way of carrying the description: a folded field
		fs = append(fs, field{key: "Description", sep: " ", first: "A library.", conts: []string{"        Version: 9.9.9", "        ", "        Name: decoy"}})
	}
	return fs
}

func genPyPkgs(r *hx.Rand, n int) ([]pyPkg, map[string]string, map[string]string) {
	var ps []pyPkg
	used := map[string]bool{}
	public := map[string]string{}
	class := map[string]string{}
	for len(ps) < n {
		p := pyPkg{kind: r.Intn(4), site: r.Pick(pySites...)}
		if r.Chance(2, 3) {
			p.name = r.Pick(pyNames...)
		} else {
			p.name = randFrom(r, "abcdefghijklmnopqrstuvwxyzABCDEFGHIJKLMNOPQRSTUVWXYZ", 1) + randFrom(r, "abcdefghijklmnopqrstuvwxyzABCDEFGHIJKLMNOPQRSTUVWXYZ0123456789._-", r.Intn(12)) + randFrom(r, "abcdefghijklmnopqrstuvwxyz0123456789", 1)
		}
		var pub, cl string
		p.version, pub, cl = genPep440(r)
		if used[p.path()] {
			continue
		}
		used[p.path()] = true
		public[p.path()] = pub
		class[p.path()] = cl
		if p.kind == 0 {
			p.installer = r.Pick("pip", "pip", "", "conda", "poetry 1.4", "uv")
		}
		p.extras = genPyExtras(r)
		if r.Chance(1, 2) {
			p.body = "Requests\n========\n\nVersion: 0.0.1 is old\nName: not-this\n"
		}
		ps = append(ps, p)
	}
	return ps, public, class
}

type pyOut struct {
	err, panic bool
	byPath     map[string]pyTuple
	bad        []string
}

func scanPython(ents []ent) pyOut {
	var o pyOut
	l, err := mkLayer(ents)
	if err != nil {
		o.err = true
		return o
	}
	defer l.Close()
	o.byPath = map[string]pyTuple{}
	ctx, cancel := context.WithCancel(context.Background())
	defer cancel()
	res := hx.Guard(func() string {
		ps, err := (&python.Scanner{}).Scan(ctx, l)
		if err != nil {
			o.err = true
			return "err"
		}
		for _, p := range ps {
			if p.Kind != claircore.BINARY || p.RepositoryHint != "https://pypi.org/simple" || p.Source != nil || p.Arch != "" || p.Module != "" || p.NormalizedVersion.Kind != "pep440" {
				o.bad = append(o.bad, p.Filepath+": constants")
			}
			if _, dup := o.byPath[p.Filepath]; dup {
				o.bad = append(o.bad, p.Filepath+": reported twice")
			}
			sl := make([]string, len(p.NormalizedVersion.V))
			for i, x := range p.NormalizedVersion.V {
				sl[i] = strconv.Itoa(int(x))
			}
			o.byPath[p.Filepath] = pyTuple{name: p.Name, version: p.Version, db: p.PackageDB, path: p.Filepath, slots: strings.Join(sl, ",")}
		}
		return "ok"
	})
	o.panic = res == "panic"
	return o
}

func opPy(r *hx.Run, o pyOut, path string, file []byte, nontrivial bool) {
	for _, c := range file {
		if c >= 0x80 {
			// strings.ToLower is modelled for ASCII only (it rewrites invalid UTF-8 and folds
			// non-ASCII letters): outside the model's domain
			r.Count("python:skipped-non-ascii")
			return
		}
	}
	out := "err"
	switch {
	case o.panic:
		out = "panic"
	case !o.err:
		if t, ok := o.byPath[path]; ok {
			out = strings.Join([]string{"ok", hx.Hex([]byte(t.name)), hx.Hex([]byte(t.version)), hx.Hex([]byte(t.db)), t.slots}, " ")
		} else {
			out = "absent"
		}
	}
	r.Op("py "+hx.Hex([]byte(path))+" "+hx.Hex(file), out, nontrivial)
}

func runPython(r *hx.Run, rnd *hx.Rand, cfg hx.Config) {
	n := cfg.N(120, 4000)
	for i := 0; i < n && !r.Stop(); i++ {
		k := rnd.Intn(7)
		ps, public, class := genPyPkgs(rnd, k)
		var ents []ent
		files := map[string][]byte{}
		want := map[string]pyTuple{}
		known := map[string]string{}
		dpkgLayer := rnd.Chance(1, 6)
		if dpkgLayer {
			ents = append(ents, ent{path: "var/lib/dpkg/status", data: []byte("")})
			r.Count("python:layer:dpkg")
		}
		for _, p := range ps {
			data := renderPyMeta(rnd, p)
			files[p.path()] = data
			ents = append(ents, ent{path: p.path(), data: data})
			switch p.kind {
			case 0:
				ents = append(ents, ent{path: strings.TrimSuffix(p.path(), "METADATA") + "RECORD", data: []byte("x,sha256=abc,1\n")})
				if p.installer != "" {
					ents = append(ents, ent{path: strings.TrimSuffix(p.path(), "METADATA") + "INSTALLER", data: []byte(p.installer + "\n")})
				}
			case 1, 3:
				ents = append(ents, ent{path: strings.TrimSuffix(p.path(), "PKG-INFO") + "top_level.txt", data: []byte(p.name + "\n")})
			}
			r.Count(fmt.Sprintf("python:kind:%d", p.kind))
			want[p.path()] = pyTuple{name: strings.ToLower(p.name), version: public[p.path()], db: p.db(), path: p.path()}
			if class[p.path()] != "" {
				known[p.path()] = class[p.path()]
			}
		}
		// things that must not be reported
		var absent []string
		if rnd.Chance(1, 3) {
			for _, inst := range []string{"rpm", "dpkg", "apk"} {
				q := pyPkg{name: "os-owned-" + inst, version: "1.0", kind: 0, site: rnd.Pick(pySites...), installer: inst}
				d := renderPyMeta(rnd, q)
				files[q.path()] = d
				ents = append(ents, ent{path: q.path(), data: d}, ent{path: strings.TrimSuffix(q.path(), "METADATA") + "INSTALLER", data: []byte(inst + "\n")})
				absent = append(absent, q.path())
			}
			r.Count("python:layer:os-installer")
		}
		if rnd.Chance(1, 3) {
			q := pyPkg{name: "whiteout", version: "1.0", kind: 2, site: rnd.Pick(pySites...)}
			pth := q.site + "/.wh.whiteout-1.0.egg-info"
			files[pth] = renderPyMeta(rnd, q)
			ents = append(ents, ent{path: pth, data: files[pth]})
			absent = append(absent, pth)
			ents = append(ents, ent{path: q.site + "/dir-1.0.egg-info", dir: true}, ent{path: q.site + "/link-1.0.egg-info", link: "dir-1.0.egg-info"})
			r.Count("python:layer:whiteout-dir-symlink")
		}
		if dpkgLayer {
			q := pyPkg{name: "debian-owned", version: "2.0", kind: 1, site: "usr/lib/python3/dist-packages"}
			files[q.path()] = renderPyMeta(rnd, q)
			ents = append(ents, ent{path: q.path(), data: files[q.path()]})
			absent = append(absent, q.path())
		}
		o := scanPython(ents)
		r.Count(fmt.Sprintf("python:packages:%d", k))
		paths := make([]string, 0, len(files))
		for p := range files {
			paths = append(paths, p)
		}
		sort.Strings(paths)
		for _, p := range paths {
			isAbsentByLayer := false
			for _, a := range absent {
				if a == p && !strings.Contains(p, ".wh.") {
					isAbsentByLayer = true
				}
			}
			if !isAbsentByLayer { // the model knows paths and files, not installers or the dpkg rule
				opPy(r, o, p, files[p], true)
			}
		}
		wit := func(p string) string { return fmt.Sprintf("%s=%s", p, quoteShort(files[p])) }
		switch {
		case o.err || o.panic:
			r.Fail("", "python.Scanner.Scan fails on well-formed metadata")
		case len(o.bad) > 0:
			r.Fail("", "python constants: "+strings.Join(o.bad, "; "))
		default:
			for _, a := range absent {
				if _, ok := o.byPath[a]; ok {
					r.Fail("", "python: a file that is not a pip-installed package is reported: "+wit(a))
				}
			}
			if len(o.byPath) > len(want) {
				for p := range o.byPath {
					if _, ok := want[p]; !ok {
						r.Fail("", "python: invented package at "+p)
					}
				}
			}
			for p, w := range want {
				g, ok := o.byPath[p]
				switch {
				case !ok:
					r.Fail("", "python: package not reported: "+wit(p))
				case g.name != w.name || g.db != w.db:
					r.Fail("", fmt.Sprintf("python: name/db %q %q, want %q %q: %s", g.name, g.db, w.name, w.db, wit(p)))
				case g.version != w.version:
					r.Fail("", fmt.Sprintf("python: version %q, the file states %q: %s", g.version, w.version, wit(p)))
				case known[p] != "":
					r.Fail(known[p], fmt.Sprintf("python: version reported as %q: %s", g.version, wit(p)))
					r.Count("python:oracle:known:" + known[p])
				default:
					r.Count("python:oracle:exact")
				}
			}
		}
		// malformed metadata: correspondence only
		if i%2 == 0 && len(ps) > 0 {
			p := ps[rnd.Intn(len(ps))]
			m := mutate(rnd, files[p.path()])
			if rnd.Chance(1, 4) {
				m = append([]byte(rnd.Pick(" leading space\n", "\n", "no colon\n", "Version: 1.0\n")), m...)
			}
			mo := scanPython([]ent{{path: p.path(), data: m}})
			opPy(r, mo, p.path(), m, true)
			r.Count("python:mutated")
		}
	}
	// recorded findings: witnesses
	for _, w := range []struct{ ver, id, what string }{
		{"0.1.dev0", "python-dev0-post0-dropped", "Version: 0.1.dev0 is reported as 0.1 (Version.String omits a zero dev/post number)"},
		{"1.0+ubuntu1", "python-local-version-dropped", "Version: 1.0+ubuntu1 is reported as 1.0 (local version labels are discarded)"},
	} {
		p := pyPkg{name: "w", version: w.ver, kind: 0, site: "usr/lib/python3.9/site-packages"}
		d := []byte("Metadata-Version: 2.1\nName: w\nVersion: " + w.ver + "\n")
		o := scanPython([]ent{{path: p.path(), data: d}})
		opPy(r, o, p.path(), d, true)
		if t, ok := o.byPath[p.path()]; ok && t.version != w.ver {
			r.KnownSeen(w.id, w.what)
		}
	}
}
