package c02

import (
	"context"
	"fmt"
	"sort"
	"strings"

	"github.com/quay/claircore"
	"github.com/quay/claircore/dpkg"
	"github.com/quay/claircore/verifharness/internal/hx"
)

type dlFile struct {
	name string // file name inside status.d
	data []byte
}

type dlOut struct {
	err, panic bool
	byFile     map[string][]tuple // PackageDB -> packages in report order
	order      []string           // PackageDB values in report order
	bad        []string
}

func scanDistroless(dir string, files []dlFile, extra []ent) dlOut {
	var o dlOut
	ents := []ent{{path: dir, dir: true}}
	for _, f := range files {
		ents = append(ents, ent{path: dir + "/" + f.name, data: f.data})
	}
	ents = append(ents, extra...)
	l, err := mkLayer(ents)
	if err != nil {
		o.err = true
		return o
	}
	defer l.Close()
	o.byFile = map[string][]tuple{}
	res := hx.Guard(func() string {
		ps, err := (&dpkg.DistrolessScanner{}).Scan(context.Background(), l)
		if err != nil {
			o.err = true
			return "err"
		}
		for _, p := range ps {
			t := tuple{name: p.Name, version: p.Version, arch: p.Arch, db: p.PackageDB}
			if p.Kind != claircore.BINARY || p.Module != "" || p.NormalizedVersion.Kind != "" || p.Filepath != "" || p.CPE != zeroCPE || p.RepositoryHint != "" {
				o.bad = append(o.bad, p.Name+": constants")
			}
			if p.Source != nil {
				t.srcName, t.srcVer = p.Source.Name, p.Source.Version
				if p.Source.Kind != claircore.SOURCE || p.Source.PackageDB != p.PackageDB {
					o.bad = append(o.bad, p.Name+": source constants")
				}
			}
			if _, ok := o.byFile[p.PackageDB]; !ok {
				o.order = append(o.order, p.PackageDB)
			}
			o.byFile[p.PackageDB] = append(o.byFile[p.PackageDB], t)
		}
		return "ok"
	})
	o.panic = res == "panic"
	return o
}

func opDistroless(r *hx.Run, o dlOut, dir string, f dlFile, nontrivial bool) {
	out := "err"
	switch {
	case o.panic:
		out = "panic"
	case !o.err:
		out = protoList(o.byFile[dir+"/"+f.name], false)
	}
	r.Op("distroless "+hx.Hex(f.data), out, nontrivial)
}

func runDistroless(r *hx.Run, rnd *hx.Rand, cfg hx.Config) {
	n := cfg.N(150, 2000)
	for i := 0; i < n && !r.Stop(); i++ {
		dir := rnd.Pick("var/lib/dpkg/status.d", "var/lib/dpkg/status.d", "status.d", "opt/x/status.d")
		k := rnd.Intn(6)
		db := genDebDB(rnd, k, dbOpts{})
		var files []dlFile
		var want []tuple
		used := map[string]bool{}
		for _, p := range db {
			// distroless has no Status field (every stanza is a package); keep it at random:
			// the scanner must ignore it
			p.want, p.flag, p.state = "install", "ok", "installed"
			so := genSerOpts(rnd)
			so.lead, so.gapMax = 0, 1
			one := []debPkg{p}
			data := renderStatus(rnd, one, so)
			if rnd.Chance(1, 2) {
				data = dropStatusLine(data)
			}
			name := p.name
			if rnd.Chance(1, 4) {
				name = strings.TrimSuffix(strings.Split(p.name, "-")[0], "1")
			}
			for used[name] || name == "" {
				name += "x"
			}
			used[name] = true
			files = append(files, dlFile{name: name, data: data})
			t := p.expected(dir + "/" + name)
			if p.srcName == "" {
				t.srcName, t.srcVer = "", "" // no Source field: no source package
			}
			want = append(want, t)
			// the md5sums file that sits next to it in real images: not a package database
			if rnd.Chance(1, 2) {
				files = append(files, dlFile{name: name + ".md5sums", data: []byte(randFrom(rnd, "0123456789abcdef", 32) + "  usr/lib/x86_64-linux-gnu/" + name + ".so.1\n" + randFrom(rnd, "0123456789abcdef", 32) + "  usr/share/doc/" + name + "/copyright\n")})
				r.Count("distroless:md5sums-neighbour")
			}
		}
		var extra []ent
		if rnd.Chance(1, 3) {
			// a file called status.d is not a database directory
			extra = append(extra, ent{path: "decoy/status.d", data: []byte("Package: decoy\nVersion: 1\nArchitecture: all\n")})
		}
		o := scanDistroless(dir, files, extra)
		r.Count(fmt.Sprintf("distroless:files:%d", k))
		for _, f := range files {
			opDistroless(r, o, dir, f, !strings.HasSuffix(f.name, ".md5sums"))
		}
		var got []tuple
		for _, ts := range o.byFile {
			got = append(got, ts...)
		}
		wit := func() string {
			var sb strings.Builder
			for _, f := range files {
				fmt.Fprintf(&sb, "%s/%s=%s ", dir, f.name, quoteShort(f.data))
			}
			return sb.String()
		}
		switch {
		case o.err || o.panic:
			r.Fail("", "dpkg.DistrolessScanner.Scan fails on well-formed status.d files: "+wit())
		case len(o.bad) > 0:
			r.Fail("", "distroless constants: "+strings.Join(o.bad, "; ")+" "+wit())
		case !sameTuples(got, want):
			r.Fail("", "distroless scan differs from the database: "+wit()+" want="+protoHuman(want)+" got="+protoHuman(got))
		default:
			r.Count("distroless:oracle:exact")
			if !sort.StringsAreSorted(o.order) {
				r.Fail("", "distroless packages are not reported in file order: "+strings.Join(o.order, ","))
			}
		}
		// malformed variants: correspondence only
		if i%2 == 0 && len(files) > 0 {
			f := files[rnd.Intn(len(files))]
			m := dlFile{name: "mutated", data: mutate(rnd, f.data)}
			if rnd.Chance(1, 3) {
				// several stanzas in one file, blank-line runs
				m.data = append(append(append([]byte(nil), f.data...), []byte(rnd.Pick("\n", "\n\n", "\n\n\n"))...), m.data...)
			}
			mo := scanDistroless(dir, []dlFile{m}, nil)
			opDistroless(r, mo, dir, m, true)
			r.Count("distroless:mutated")
		}
	}
	// fixed defect: Source: name (version)
	{
		f := dlFile{name: "libgcc-s1", data: []byte("Package: libgcc-s1\nSource: gcc-10 (10.2.1-6)\nVersion: 10.2.1-6\nArchitecture: amd64\nDescription: GCC support library")}
		o := scanDistroless("var/lib/dpkg/status.d", []dlFile{f}, nil)
		opDistroless(r, o, "var/lib/dpkg/status.d", f, true)
		ts := o.byFile["var/lib/dpkg/status.d/libgcc-s1"]
		if o.err || len(ts) != 1 || ts[0].srcName != "gcc-10" || ts[0].srcVer != "10.2.1-6" {
			r.Fail("", fmt.Sprintf("distroless: Source: gcc-10 (10.2.1-6) is reported as %v", ts))
		}
	}
}

func dropStatusLine(b []byte) []byte {
	var out []string
	for _, l := range strings.SplitAfter(string(b), "\n") {
		if strings.HasPrefix(strings.ToLower(l), "status:") {
			continue
		}
		out = append(out, l)
	}
	return []byte(strings.Join(out, ""))
}
