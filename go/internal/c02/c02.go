// Package c02 checks package discovery: generated package sets are written in
// the on-disk format of each package manager by the harness's own writers, put
// into a tar layer and scanned by the real scanners.  Protocol lines carry the
// database bytes to the Lean models of the parsers; the direct oracle compares
// the scan with the generated package set.
package c02

import (
	"github.com/quay/zlog"
	"github.com/rs/zerolog"

	"github.com/quay/claircore/verifharness/internal/hx"
)

func Run(cfg hx.Config) error {
	nop := zerolog.Nop()
	zlog.Set(&nop)
	r, err := hx.NewRun(cfg)
	if err != nil {
		return err
	}
	rnd := hx.NewRand(cfg.Seed)
	r.Rule = "each case is a generated package database (or os-release file) rendered by the harness's writer and scanned by the real scanner inside a tar layer; a case is non-trivial when the database holds at least one installed package or reaches an error/restart path of the parser; distinct = distinct database bytes"
	runCorpus(r, cfg.Corpus)
	runDpkg(r, rnd.Fork(), cfg)
	runDistroless(r, rnd.Fork(), cfg)
	runApk(r, rnd.Fork(), cfg)
	runOsRelease(r, rnd.Fork(), cfg)
	runDistScanners(r, rnd.Fork(), cfg)
	runPython(r, rnd.Fork(), cfg)
	runNodejs(r, rnd.Fork(), cfg)
	runRuby(r, rnd.Fork(), cfg)
	runJava(r, rnd.Fork(), cfg)
	runGobin(r, rnd.Fork(), cfg)
	runGobinReal(r, rnd.Fork(), cfg)
	runJar(r, rnd.Fork(), cfg)
	runJarOdd(r, rnd.Fork(), cfg)
	if err := runRhelRepo(r, rnd.Fork(), cfg); err != nil {
		return err
	}
	if err := runOsOwned(r, rnd.Fork(), cfg); err != nil {
		return err
	}
	if err := runRpm(r, rnd.Fork(), cfg); err != nil {
		return err
	}
	return r.Close()
}
