package c02

import (
	"archive/zip"
	"bytes"
	"context"
	"crypto/sha1"
	"encoding/json"
	"fmt"
	"sort"
	"strings"

	"github.com/quay/claircore"
	"github.com/quay/claircore/indexer"
	"github.com/quay/claircore/java"
	"github.com/quay/claircore/nodejs"
	"github.com/quay/claircore/python"
	"github.com/quay/claircore/ruby"
	"github.com/quay/claircore/verifharness/internal/hx"
)

// Formats whose decoder is not claircore's own (encoding/json, regexp): no Lean model, the
// generated package set is compared with the scan (translation validation).

var pythonScanner python.Scanner

type langTuple struct {
	name, version, db, path, hint, kind string
	v1, v2, v3                          int32
}

func scanLang(s indexer.PackageScanner, ents []ent) (map[string]langTuple, []string, bool) {
	l, err := mkLayer(ents)
	if err != nil {
		return nil, nil, false
	}
	defer l.Close()
	ctx, cancel := context.WithCancel(context.Background())
	defer cancel()
	out := map[string]langTuple{}
	var bad []string
	ok := true
	res := hx.Guard(func() string {
		ps, err := s.Scan(ctx, l)
		if err != nil {
			ok = false
			return "err"
		}
		for _, p := range ps {
			if _, dup := out[p.Filepath]; dup {
				bad = append(bad, p.Filepath+": reported twice")
			}
			if p.Kind != claircore.BINARY || p.Source != nil || p.Arch != "" || p.Module != "" {
				bad = append(bad, p.Filepath+": constants")
			}
			out[p.Filepath] = langTuple{name: p.Name, version: p.Version, db: p.PackageDB, path: p.Filepath, hint: p.RepositoryHint, kind: p.NormalizedVersion.Kind,
				v1: p.NormalizedVersion.V[1], v2: p.NormalizedVersion.V[2], v3: p.NormalizedVersion.V[3]}
		}
		return "ok"
	})
	if res == "panic" {
		ok = false
	}
	return out, bad, ok
}

func jsonString(r *hx.Rand, s string) string {
	b, _ := json.Marshal(s)
	if r.Chance(1, 6) && len(s) > 0 {
		// spell the first character as a \u escape
		return fmt.Sprintf(`"\u%04x%s`, s[0], string(b[2:]))
	}
	return string(b)
}

// renderPackageJSON is the harness's own writer of package.json.
func renderPackageJSON(r *hx.Rand, name, version string) []byte {
	type kv struct{ k, v string }
	fields := []kv{{"name", jsonString(r, name)}, {"version", jsonString(r, version)}}
	extras := []kv{
		{"description", `"a \"quoted\" thing with name and version inside: \"name\": \"x\""`},
		{"main", `"index.js"`},
		{"author", `{"name": "Some Author", "email": "a@example.org", "version": "not-this"}`},
		{"dependencies", `{"left-pad": "^1.3.0", "name": "1.0.0", "version": "2.0.0"}`},
		{"scripts", `{"test": "node test.js"}`},
		{"keywords", `["name", "version", "x"]`},
		{"license", `"MIT"`},
		{"private", `false`},
		{"engines", `{"node": ">=10"}`},
		{"_resolved", `"https://registry.npmjs.org/x/-/x-1.0.0.tgz"`},
		{"nested", `{"a": {"b": [{"name": "deep", "version": "0.0.0"}]}}`},
	}
	for _, e := range extras {
		if r.Chance(1, 2) {
			fields = append(fields, e)
		}
	}
	for i := len(fields) - 1; i > 0; i-- {
		j := r.Intn(i + 1)
		fields[i], fields[j] = fields[j], fields[i]
	}
	nl, ind, sp := "\n", "  ", " "
	if r.Chance(1, 4) {
		nl, ind, sp = "", "", ""
	}
	var b strings.Builder
	b.WriteString("{" + nl)
	for i, f := range fields {
		b.WriteString(ind + `"` + f.k + `":` + sp + f.v)
		if i < len(fields)-1 {
			b.WriteString(",")
		}
		b.WriteString(nl)
	}
	b.WriteString("}" + nl)
	return []byte(b.String())
}

func runNodejs(r *hx.Run, rnd *hx.Rand, cfg hx.Config) {
	names := []string{"left-pad", "@babel/core", "lodash", "express", "@types/node", "uuid", "semver", "JSONStream", "a", "socket.io-client"}
	for i := 0; i < cfg.N(100, 1500) && !r.Stop(); i++ {
		k := rnd.Intn(7)
		var ents []ent
		want := map[string]langTuple{}
		files := map[string][]byte{}
		var absent []string
		for j := 0; j < k; j++ {
			name := rnd.Pick(names...)
			if rnd.Chance(1, 3) {
				name = randFrom(rnd, "abcdefghijklmnopqrstuvwxyz", 1) + randFrom(rnd, "abcdefghijklmnopqrstuvwxyz0123456789-._", rnd.Intn(12))
			}
			ver := fmt.Sprintf("%d.%d.%d", rnd.Intn(30), rnd.Intn(30), rnd.Intn(30)) + rnd.Pick("", "", "", "-beta.1", "-rc.0+build.5", "+sha.abc")
			if rnd.Chance(1, 10) {
				ver = rnd.Pick("1.0", "latest", "1.2.3.4", "v1.2.3") // not semver: reported with the text, no normalized version
			}
			root := rnd.Pick("usr/lib/node_modules/", "app/node_modules/", "node_modules/", "home/node/app/node_modules/"+rnd.Pick(names...)+"/node_modules/", "usr/local/lib/node_modules/npm/node_modules/")
			p := root + name + "/package.json"
			if _, dup := files[p]; dup {
				continue
			}
			data := renderPackageJSON(rnd, name, ver)
			files[p] = data
			ents = append(ents, ent{path: p, data: data}, ent{path: root + name + "/index.js", data: []byte("module.exports = 1\n")})
			want[p] = langTuple{name: name, version: ver, db: "nodejs:" + p, path: p, hint: "npm"}
		}
		if k > 0 && rnd.Chance(1, 3) {
			// a symbolic link to an installed package's manifest: the package is installed once
			var target string
			for p := range want {
				if target == "" || p < target {
					target = p
				}
			}
			lp := "opt/links/node_modules/linked/package.json"
			ents = append(ents, ent{path: lp, link: "/" + target})
			absent = append(absent, lp)
			r.Count("nodejs:layer:symlink")
		}
		if rnd.Chance(1, 3) {
			// the project's own manifest, outside node_modules: not an installed package
			p := rnd.Pick("app/package.json", "package.json", "srv/x/package.json")
			files[p] = renderPackageJSON(rnd, "the-app", "0.0.1")
			ents = append(ents, ent{path: p, data: files[p]})
			absent = append(absent, p)
			p2 := "app/node_modules/.wh.package.json"
			ents = append(ents, ent{path: p2, data: files[p]})
			absent = append(absent, p2)
			r.Count("nodejs:layer:own-manifest")
		}
		got, bad, ok := scanLang(&nodejs.Scanner{}, ents)
		r.Case(fmt.Sprintf("nodejs %d %d", i, k), k > 0)
		r.Count(fmt.Sprintf("nodejs:packages:%d", k))
		switch {
		case !ok:
			r.Fail("", "nodejs.Scanner.Scan fails on well-formed package.json files")
		case len(bad) > 0:
			r.Fail("", "nodejs constants: "+strings.Join(bad, ";"))
		default:
			for _, a := range absent {
				if _, rep := got[a]; rep {
					r.Fail("", "nodejs: not an installed package, but reported: "+a)
				}
			}
			for p := range got {
				if _, w := want[p]; !w {
					r.Fail("", "nodejs: invented package at "+p)
				}
			}
			for _, e := range ents {
				if strings.HasSuffix(e.path, "package.json") && e.link == "" {
					nodeOp(r, e.path, e.data, got)
				}
			}
			for p, w := range want {
				g, rep := got[p]
				g.kind, g.v1, g.v2, g.v3 = "", 0, 0, 0
				switch {
				case !rep:
					r.Fail("", fmt.Sprintf("nodejs: package not reported: %s=%s", p, quoteShort(files[p])))
				case g != w:
					r.Fail("", fmt.Sprintf("nodejs: reported %+v, the file states %+v: %s", g, w, quoteShort(files[p])))
				default:
					r.Count("nodejs:oracle:exact")
				}
			}
		}
	}
	runNodejsOdd(r, rnd, cfg)
	// recorded finding: a package.json that is only a module-type marker
	{
		ents := []ent{{path: "app/node_modules/uuid/package.json", data: []byte(`{"name":"uuid","version":"9.0.0"}`)}, {path: "app/node_modules/uuid/dist/esm-browser/package.json", data: []byte(`{"type":"module"}`)}}
		got, _, ok := scanLang(&nodejs.Scanner{}, ents)
		if g, rep := got["app/node_modules/uuid/dist/esm-browser/package.json"]; ok && rep && g.name == "" {
			r.KnownSeen("nodejs-nameless-package-json", `node_modules/uuid/dist/esm-browser/package.json = {"type":"module"} (a module-type marker, not a package) is reported as a package with empty name and version`)
		}
	}
}

// nodeOp records the protocol line for one file of a scanned layer: the path, whether
// encoding/json decodes the file into {name, version} (the standard library's verdict, asked
// directly) and what it decodes to.
func nodeOp(r *hx.Run, p string, data []byte, got map[string]langTuple) {
	var pj struct {
		Name    string `json:"name"`
		Version string `json:"version"`
	}
	kind := "ok"
	if err := json.NewDecoder(bytes.NewReader(data)).Decode(&pj); err != nil {
		kind = "bad"
		pj.Name, pj.Version = "", ""
	}
	out := "absent"
	if g, rep := got[p]; rep {
		n := "none"
		if g.kind != "" {
			n = fmt.Sprintf("%s:%d.%d.%d", g.kind, g.v1, g.v2, g.v3)
		}
		out = "ok " + hx.Hex([]byte(g.name)) + " " + hx.Hex([]byte(g.version)) + " " + n
	}
	r.Op("node "+hx.Hex([]byte(p))+" "+kind+" "+hx.Hex([]byte(pj.Name))+" "+hx.Hex([]byte(pj.Version)), out, true)
}

// runNodejsOdd: paths at the edges of the walk's filter, files encoding/json rejects, versions
// of every shape (correspondence only).
func runNodejsOdd(r *hx.Run, rnd *hx.Rand, cfg hx.Config) {
	paths := []string{"node_modules/package.json", "x/node_modulesX/a/package.json", "a/node_modules/b/package.json.bak", "a/node_modules/b/.wh.package.json",
		"node_modules_old/x/package.json", "a/node_modules/b/PACKAGE.JSON", "package.json", "a/node_modules/package.json/package.json", "a/xnode_modules/b/package.json",
		"a/node_modules/b/xpackage.json", "a/node_modules/.wh.b/package.json", "a/node_modules/@scope/pkg/package.json", "a/node_modules/b/test/fixtures/package.json"}
	bodies := []string{`{"name":"a","version":"1.0.0"}`, `{"name":"a","version":"1.0.0"`, `[1]`, `{"name":5,"version":"1"}`, `null`, `{"name":"a","version":"1.0.0"} trailing`,
		"ï»¿" + `{"name":"a","version":"1"}`, `{"name":"a","name":"b","version":"1","version":"2.0.0"}`, `{"NAME":"upper","Version":"1.2.3"}`, `{"version":"1.0.0"}`, ``, `   `,
		`{"name":"a\u0000b","version":"1.0.0-é"}`, `{"name":null,"version":null}`, `"just a string"`, `{"name":"a","version":1.0}`}
	versions := []string{"1.2.3", "v1.2.3", "1.2", "1", "1.2.3-beta.1", "1.2.3+build.5", "01.2.3", "1.2.3.4", "latest", "", "2147483648.0.0", "1.2147483647.99999999999", "9223372036854775808.0.0", "1.2.3-", "1.2.3-a..b", " 1.2.3", "1.2.3 ", "=1.2.3", "1.x", "V1.2.3", "1.2.3-rc.1+meta-data.x"}
	for i := 0; i < cfg.N(60, 600) && !r.Stop(); i++ {
		p := rnd.Pick(paths...)
		body := rnd.Pick(bodies...)
		if rnd.Chance(1, 2) {
			b, _ := json.Marshal(map[string]string{"name": rnd.Pick("x", "@a/b", ""), "version": rnd.Pick(versions...)})
			body = string(b)
		}
		ents := []ent{{path: p, data: []byte(body)}}
		got, _, ok := scanLang(&nodejs.Scanner{}, ents)
		if !ok {
			r.Fail("", fmt.Sprintf("nodejs.Scanner.Scan fails on %s=%q", p, body))
			continue
		}
		nodeOp(r, p, []byte(body), got)
		r.Count("nodejs:odd")
	}
}

// renderGemspec writes an installed gemspec the way `gem install` generates it.
func renderGemspec(r *hx.Rand, name, version string) []byte {
	q := func(s string) string {
		switch r.Intn(4) {
		case 0:
			return `'` + s + `'`
		case 1:
			return `"` + s + `"`
		}
		return `"` + s + `".freeze`
	}
	v := r.Pick("s", "s", "spec", "gem")
	var b strings.Builder
	b.WriteString("# -*- encoding: utf-8 -*-\n# stub: " + name + " " + version + " ruby lib\n\n")
	b.WriteString("Gem::Specification.new do |" + v + "|\n")
	pad := func(k string) string {
		if r.Chance(1, 3) {
			return k + strings.Repeat(" ", 12-len(k)%12)
		}
		return k + " "
	}
	lines := []string{
		"  " + v + "." + pad("name") + "= " + q(name),
		"  " + v + "." + pad("version") + "= " + q(version),
	}
	if r.Chance(1, 2) {
		lines[0], lines[1] = lines[1], lines[0]
	}
	b.WriteString(strings.Join(lines, "\n") + "\n\n")
	b.WriteString("  " + v + `.required_rubygems_version = Gem::Requirement.new(">= 0".freeze) if ` + v + ".respond_to? :required_rubygems_version=\n")
	b.WriteString("  " + v + `.require_paths = ["lib".freeze]` + "\n")
	b.WriteString("  " + v + `.authors = ["Some One".freeze]` + "\n")
	b.WriteString("  " + v + `.summary = "the name = 'decoy' and version = '0' of something".freeze` + "\n")
	b.WriteString("  " + v + `.rubygems_version = "3.3.7".freeze` + "\n")
	b.WriteString("  " + v + `.required_ruby_version = Gem::Requirement.new(">= 2.3.0".freeze)` + "\n")
	b.WriteString("  " + v + `.specification_version = 4` + "\n")
	b.WriteString("  " + v + `.add_runtime_dependency(%q<rack>.freeze, ["~> 2.0"])` + "\n")
	b.WriteString("end\n")
	return []byte(b.String())
}

func runRuby(r *hx.Run, rnd *hx.Rand, cfg hx.Config) {
	runRubyOdd(r, rnd.Fork(), cfg)
	names := []string{"rake", "bundler", "rack", "activesupport", "net-http", "json", "mini_portile2", "ruby2_keywords", "a"}
	for i := 0; i < cfg.N(100, 1500) && !r.Stop(); i++ {
		k := rnd.Intn(7)
		var ents []ent
		want := map[string]langTuple{}
		files := map[string][]byte{}
		var absent []string
		for j := 0; j < k; j++ {
			name := rnd.Pick(names...)
			if rnd.Chance(1, 3) {
				name = randFrom(rnd, "abcdefghijklmnopqrstuvwxyz", 1) + randFrom(rnd, "abcdefghijklmnopqrstuvwxyz0123456789-_", rnd.Intn(12))
			}
			ver := fmt.Sprintf("%d.%d.%d", rnd.Intn(30), rnd.Intn(30), rnd.Intn(30)) + rnd.Pick("", "", "", ".pre", ".rc1", ".1")
			root := rnd.Pick("usr/share/gems/specifications/", "usr/local/bundle/specifications/", "usr/lib/ruby/gems/3.0.0/specifications/default/", "var/lib/gems/2.7.0/specifications/", "opt/app/vendor/bundle/ruby/3.1.0/specifications/")
			p := root + name + "-" + ver + ".gemspec"
			if _, dup := files[p]; dup {
				continue
			}
			files[p] = renderGemspec(rnd, name, ver)
			ents = append(ents, ent{path: p, data: files[p]})
			want[p] = langTuple{name: name, version: ver, db: "ruby:" + p, path: p, hint: "rubygems"}
		}
		if k > 0 && rnd.Chance(1, 3) {
			var target string
			for p := range want {
				if target == "" || p < target {
					target = p
				}
			}
			lp := "opt/links/specifications/linked-1.0.gemspec"
			ents = append(ents, ent{path: lp, link: "/" + target})
			absent = append(absent, lp)
			r.Count("ruby:layer:symlink")
		}
		if rnd.Chance(1, 3) {
			// a gemspec in a source checkout (not under specifications/) is not an installed gem
			p := "usr/local/bundle/gems/rake-13.0.6/rake.gemspec"
			files[p] = renderGemspec(rnd, "rake", "13.0.6")
			ents = append(ents, ent{path: p, data: files[p]})
			absent = append(absent, p)
			r.Count("ruby:layer:source-gemspec")
		}
		got, bad, ok := scanLang(&ruby.Scanner{}, ents)
		r.Case(fmt.Sprintf("ruby %d %d", i, k), k > 0)
		r.Count(fmt.Sprintf("ruby:packages:%d", k))
		switch {
		case !ok:
			r.Fail("", "ruby.Scanner.Scan fails on well-formed gemspecs")
		case len(bad) > 0:
			r.Fail("", "ruby constants: "+strings.Join(bad, ";"))
		default:
			for _, a := range absent {
				if _, rep := got[a]; rep {
					r.Fail("", "ruby: not an installed gem, but reported: "+a)
				}
			}
			for p := range got {
				if _, w := want[p]; !w {
					r.Fail("", "ruby: invented package at "+p)
				}
			}
			for _, e := range ents {
				if e.link == "" {
					gemOp(r, e.path, e.data, got)
				}
			}
			ps := make([]string, 0, len(want))
			for p := range want {
				ps = append(ps, p)
			}
			sort.Strings(ps)
			for _, p := range ps {
				w := want[p]
				g, rep := got[p]
				g.kind, g.v1, g.v2, g.v3 = "", 0, 0, 0
				switch {
				case !rep:
					r.Fail("", fmt.Sprintf("ruby: gem not reported: %s=%s", p, quoteShort(files[p])))
				case g != w:
					r.Fail("", fmt.Sprintf("ruby: reported %+v, the gemspec states %+v: %s", g, w, quoteShort(files[p])))
				default:
					r.Count("ruby:oracle:exact")
				}
			}
		}
	}
}

func gemOp(r *hx.Run, p string, data []byte, got map[string]langTuple) {
	out := "absent"
	if g, rep := got[p]; rep {
		out = "ok " + hx.Hex([]byte(g.name)) + " " + hx.Hex([]byte(g.version))
	}
	if len(data) > 40000 {
		// keep the protocol file small: long files are judged by the oracle
		r.Count("ruby:op-skipped-long")
		return
	}
	r.Op("gem "+hx.Hex([]byte(p))+" "+hx.Hex(data), out, true)
}

// runRubyOdd: paths at the edges of the path expression, assignments of every shape
// (correspondence only), and gemspecs with a line beyond bufio.Scanner's 64 KiB token limit.
func runRubyOdd(r *hx.Run, rnd *hx.Rand, cfg hx.Config) {
	paths := []string{"usr/share/gems/specifications/a-1.gemspec", "specifications/a-1.gemspec", "x/specifications/.gemspec", "x/specifications/a.gemspec.bak", "x/specifications/sub/dir/a.gemspec",
		"x/specifications/.wh.a.gemspec", "x/Specifications/a.gemspec", "x/specifications/a.GEMSPEC", "x/myspecifications/a.gemspec", "x/specifications/a.gemspecx/y", "x/specifications/specifications/.gemspec",
		"x/specifications/a gemspec", "gemspec", "x/specifications/agemspec"}
	lines := []string{`s.name = "x"`, `s.name = "x".freeze`, `s.name="x"`, `  spec.name    = 'x'  `, "\ts.name\t=\t\"x\"", `s.name = %q{x}`, `s.name = "my gem"`, `s.name = "x" # c`, `s. name = "x"`, `s .name = "x"`,
		`name = "x"`, `.name = "x"`, `s.name = `, `s.name = ""`, `s.name = "'x'"`, `s.name = x.freeze.freeze`, `a.b.name = "x"`, `a.name=b.name="c"`, `s.name == "x"`, `s.name = = "x"`, `s.fullname = "x"`,
		`s.name=".freeze"`, `s.names = "x"`, `s.name += "x"`, `Gem::Specification.new do |s| s.name = "x" end`, `s.name = "x"` + "\r", `s.name = "caf\xc3\xa9"`, "s.name\u00a0= \"x\""}
	for i := 0; i < cfg.N(120, 1500) && !r.Stop(); i++ {
		p := "usr/share/gems/specifications/a-1.gemspec"
		if rnd.Chance(1, 3) {
			p = rnd.Pick(paths...)
		}
		var b strings.Builder
		for k := 1 + rnd.Intn(4); k > 0; k-- {
			l := rnd.Pick(lines...)
			if rnd.Chance(1, 2) {
				l = strings.ReplaceAll(l, "name", "version")
			}
			b.WriteString(l + rnd.Pick("\n", "\n", "\r\n", ""))
		}
		ents := []ent{{path: p, data: []byte(b.String())}}
		got, _, ok := scanLang(&ruby.Scanner{}, ents)
		if !ok {
			r.Fail("", fmt.Sprintf("ruby.Scanner.Scan fails on %s=%q", p, b.String()))
			continue
		}
		gemOp(r, p, []byte(b.String()), got)
		r.Count("ruby:odd")
	}
	// the scanner's token limit, around 64 KiB
	for _, n := range []int{65533, 65534, 65535, 65536, 65537, 70000} {
		for _, tail := range []string{"\n", ""} {
			for _, where := range []string{"first", "last"} {
				long := "  s.files = [" + strings.Repeat("x", n-len("  s.files = [")-1) + "]"
				nv := "  s.name = \"longfiles\"\n  s.version = \"1.0\"\n"
				file := long + "\n" + nv
				if where == "last" {
					file = nv + long + tail
				}
				ents := []ent{{path: "usr/share/gems/specifications/longfiles-1.0.gemspec", data: []byte(file)}}
				got, _, ok := scanLang(&ruby.Scanner{}, ents)
				_, rep := got[ents[0].path]
				out := "absent"
				if rep {
					g := got[ents[0].path]
					out = "ok " + hx.Hex([]byte(g.name)) + " " + hx.Hex([]byte(g.version))
				}
				r.Op("gem "+hx.Hex([]byte(ents[0].path))+" "+hx.Hex([]byte(file)), out, true)
				r.Count(fmt.Sprintf("ruby:long-line:%d:reported=%v", n, rep))
				switch {
				case !ok:
					r.Fail("", fmt.Sprintf("ruby.Scanner.Scan fails on a gemspec with a %d-byte line", n))
				case !rep && n >= 65536:
					r.KnownSeen("ruby-gemspec-long-line-skipped", fmt.Sprintf("longfiles-1.0.gemspec with a %d-byte `s.files = [...]` line (%s) is not reported", n, where))
				case !rep:
					r.Fail("", fmt.Sprintf("ruby: a gemspec with a %d-byte line (%s, tail %q) is not reported", n, where, tail))
				}
			}
		}
	}
}

// ---- java: jars carrying Maven's pom.properties ----

func renderJar(r *hx.Rand, group, artifact, version string) []byte {
	var buf bytes.Buffer
	zw := zip.NewWriter(&buf)
	add := func(name, body string) {
		w, _ := zw.Create(name)
		w.Write([]byte(body))
	}
	if r.Chance(1, 2) {
		zw.Create("META-INF/")
	}
	add("META-INF/MANIFEST.MF", "Manifest-Version: 1.0\r\nCreated-By: Apache Maven 3.8.6\r\nBuilt-By: someone\r\nBuild-Jdk: 11.0.16\r\n\r\n")
	lines := []string{"artifactId=" + artifact, "groupId=" + group, "version=" + version}
	for i := len(lines) - 1; i > 0; i-- {
		j := r.Intn(i + 1)
		lines[i], lines[j] = lines[j], lines[i]
	}
	nl := r.Pick("\n", "\r\n")
	props := "#Generated by Maven" + nl + "#Tue Mar 01 10:00:00 UTC 2022" + nl + strings.Join(lines, nl) + nl
	add("META-INF/maven/"+group+"/"+artifact+"/pom.properties", props)
	add("META-INF/maven/"+group+"/"+artifact+"/pom.xml", "<project><groupId>decoy</groupId><artifactId>decoy</artifactId><version>0</version></project>")
	add(strings.ReplaceAll(group, ".", "/")+"/Main.class", "\xca\xfe\xba\xbe0000")
	zw.Close()
	return buf.Bytes()
}

func runJava(r *hx.Run, rnd *hx.Rand, cfg hx.Config) {
	groups := []string{"org.apache.commons", "com.google.guava", "org.springframework", "io.netty", "log4j", "com.fasterxml.jackson.core"}
	arts := []string{"commons-lang3", "guava", "spring-core", "netty-all", "log4j-core", "jackson-databind", "a"}
	for i := 0; i < cfg.N(60, 800) && !r.Stop(); i++ {
		k := rnd.Intn(5)
		var ents []ent
		want := map[string]langTuple{}
		for j := 0; j < k; j++ {
			g, a := rnd.Pick(groups...), rnd.Pick(arts...)
			v := fmt.Sprintf("%d.%d", rnd.Intn(30), rnd.Intn(30)) + rnd.Pick("", ".1", ".Final", "-SNAPSHOT", "-jre", ".RELEASE", "-rc1")
			p := rnd.Pick("usr/share/java/", "opt/app/lib/", "app/BOOT-INF/lib/", "", "usr/lib/jvm/ext/") + a + "-" + v + rnd.Pick(".jar", ".jar", ".war", ".ear")
			if _, dup := want[p]; dup {
				continue
			}
			data := renderJar(rnd, g, a, v)
			ents = append(ents, ent{path: p, data: data})
			want[p] = langTuple{name: g + ":" + a, version: v, db: "maven:" + p, path: p, hint: fmt.Sprintf("sha1:%x", sha1.Sum(data))}
		}
		if rnd.Chance(1, 3) {
			ents = append(ents, ent{path: "opt/app/lib/notes.jar", data: []byte("this is not a zip file at all, but long enough to pass the size check")}, ent{path: "opt/app/lib/.wh.x-1.0.jar", data: renderJar(rnd, "g", "x", "1.0")}, ent{path: "opt/app/lib/data.zip", data: renderJar(rnd, "g", "y", "1.0")})
			r.Count("java:layer:decoys")
		}
		got, bad, ok := scanLang(&java.Scanner{}, ents)
		r.Case(fmt.Sprintf("java %d %d", i, k), k > 0)
		r.Count(fmt.Sprintf("java:jars:%d", k))
		switch {
		case !ok:
			r.Fail("", "java.Scanner.Scan fails on well-formed jars")
		case len(bad) > 0:
			r.Fail("", "java constants: "+strings.Join(bad, ";"))
		default:
			for p := range got {
				if _, w := want[p]; !w {
					r.Fail("", "java: invented package at "+p)
				}
			}
			for p, w := range want {
				g, rep := got[p]
				g.kind, g.v1, g.v2, g.v3 = "", 0, 0, 0
				switch {
				case !rep:
					r.Fail("", "java: jar not reported: "+p)
				case g != w:
					r.Fail("", fmt.Sprintf("java: reported %+v, pom.properties states %+v", g, w))
				default:
					r.Count("java:oracle:exact")
				}
			}
		}
	}
}
