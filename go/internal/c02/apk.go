package c02

import (
	"bytes"
	"context"
	"fmt"
	"strings"

	"github.com/quay/claircore"
	"github.com/quay/claircore/apk"
	"github.com/quay/claircore/verifharness/internal/hx"
)

// ---- ground truth ----

type apkPkg struct {
	name, version, arch string
	origin              string   // "" = no o: line
	commit              string   // "" = no c: line
	extras              []string // other complete "K:value" lines
}

type apkTuple struct {
	name, version, arch, hint string
	hasSrc                    bool
	srcName, srcVer           string
}

func (t apkTuple) protoString() string {
	f := []string{hx.Hex([]byte(t.name)), hx.Hex([]byte(t.version)), hx.Hex([]byte(t.arch)), hx.Hex([]byte(t.hint))}
	if t.hasSrc {
		f = append(f, "src", hx.Hex([]byte(t.srcName)), hx.Hex([]byte(t.srcVer)))
	} else {
		f = append(f, "nosrc")
	}
	return strings.Join(f, ",")
}

func apkProto(ts []apkTuple) string {
	l := []string{fmt.Sprintf("ok %d", len(ts))}
	for _, t := range ts {
		l = append(l, t.protoString())
	}
	return strings.Join(l, " ")
}

// expectedApk: every record is an installed package; the source is the origin at the
// package's own version.
func expectedApk(db []apkPkg) []apkTuple {
	var out []apkTuple
	for _, p := range db {
		t := apkTuple{name: p.name, version: p.version, arch: p.arch, hint: p.commit}
		if p.origin != "" {
			t.hasSrc, t.srcName, t.srcVer = true, p.origin, p.version
		}
		out = append(out, t)
	}
	return out
}

// apkKnown applies the recorded defect: sources are shared by origin name, so the
// source version is that of the first package of the origin.
func apkKnown(db []apkPkg) (out []apkTuple, disagree bool) {
	first := map[string]string{}
	for _, t := range expectedApk(db) {
		if t.hasSrc {
			if v, ok := first[t.srcName]; ok {
				if v != t.srcVer {
					disagree = true
				}
				t.srcVer = v
			} else {
				first[t.srcName] = t.srcVer
			}
		}
		out = append(out, t)
	}
	return out, disagree
}

var apkNames = []string{"musl", "busybox", "alpine-baselayout", "alpine-keys", "libcrypto1.1", "libssl1.1", "ca-certificates-bundle", "apk-tools", "zlib", "scanelf", "musl-utils", "libc-utils", "ssl_client", ".build-deps", "py3-pip", "libstdc++"}

func genApkDB(r *hx.Rand, n int, allowDisagree bool) []apkPkg {
	var db []apkPkg
	used := map[string]bool{}
	originVer := map[string]string{}
	for len(db) < n {
		p := apkPkg{arch: r.Pick("x86_64", "aarch64", "noarch", "armv7", "x86")}
		if r.Chance(1, 2) {
			p.name = r.Pick(apkNames...)
		} else {
			p.name = randFrom(r, "abcdefghijklmnopqrstuvwxyz0123456789", 1) + randFrom(r, "abcdefghijklmnopqrstuvwxyz0123456789+._-", 1+r.Intn(14))
		}
		if used[p.name] {
			continue
		}
		used[p.name] = true
		p.version = fmt.Sprintf("%d.%d.%d", r.Intn(20), r.Intn(40), r.Intn(10)) + r.Pick("", "", "_p1", "_rc2", "_git20200101", "a") + fmt.Sprintf("-r%d", r.Intn(12))
		switch r.Intn(5) {
		case 0:
		case 1, 2:
			p.origin = p.name
		default:
			p.origin = r.Pick(apkNames...)
		}
		if p.origin != "" {
			if v, ok := originVer[p.origin]; ok && v != p.version {
				if !allowDisagree {
					p.version = v // subpackages of one origin share its version
				}
			} else if !ok {
				originVer[p.origin] = p.version
			}
		}
		if r.Chance(4, 5) {
			p.commit = randFrom(r, "0123456789abcdef", 40)
		}
		p.extras = genApkExtras(r, p)
		db = append(db, p)
	}
	return db
}

func genApkExtras(r *hx.Rand, p apkPkg) []string {
	var x []string
	if r.Chance(4, 5) {
		x = append(x, "C:Q1"+randFrom(r, "ABCDEFGHIJKLMNOPQRSTUVWXYZabcdefghijklmnopqrstuvwxyz0123456789+/", 27)+"=")
	}
	if r.Chance(1, 2) {
		x = append(x, fmt.Sprintf("S:%d", r.Intn(1<<20)), fmt.Sprintf("I:%d", r.Intn(1<<22)))
	}
	if r.Chance(1, 2) {
		x = append(x, "T:the musl c library (libc) implementation", "U:https://musl.libc.org/", "L:MIT")
	}
	if r.Chance(1, 2) {
		x = append(x, "m:Natanael Copa <ncopa@alpinelinux.org>", fmt.Sprintf("t:%d", 1500000000+r.Intn(100000000)))
	}
	if r.Chance(1, 2) {
		x = append(x, "D:/bin/sh so:libc.musl-x86_64.so.1 "+r.Pick(apkNames...))
	}
	if r.Chance(1, 2) {
		x = append(x, "p:cmd:"+p.name+" so:lib"+p.name+".so.1=1")
	}
	for i := r.Intn(4); i > 0; i-- {
		x = append(x, "F:"+r.Pick("bin", "etc", "usr/lib", "lib/apk/db", "Program Files"), "R:"+randFrom(r, "abcdefgh.-_", 7), r.Pick("a:0:0:755", "a:0:42:640"), "Z:Q1"+randFrom(r, "ABCDEFGHIJKLMNOPQRSTUVWXYZabcdefghijklmnopqrstuvwxyz0123456789+/", 27)+"=")
	}
	return x
}

type apkSer struct {
	order   int  // 0 = apk's own order, 1 = fields shuffled but V before o, 2 = fully shuffled
	sigLast bool // a significant line is the last line of the record
	tail    string
	lead    string
	valueWS bool
}

func genApkSer(r *hx.Rand) apkSer {
	s := apkSer{tail: "\n"}
	switch r.Intn(4) {
	case 0:
		s.order = 1
	}
	s.sigLast = r.Chance(1, 3)
	switch r.Intn(10) {
	case 0, 1:
		s.tail = "" // file ends right after the last record's last newline
	case 2:
		s.tail = "\n\n" // a second empty line at the end (apk's own reader skips it)
	}
	if r.Chance(1, 8) {
		s.lead = "\n\n"
	}
	s.valueWS = r.Chance(1, 6)
	return s
}

// renderApk is the harness's own writer of lib/apk/db/installed.
func renderApk(r *hx.Rand, db []apkPkg, s apkSer) []byte {
	var w bytes.Buffer
	w.WriteString(s.lead)
	for _, p := range db {
		var head, sig, rest []string
		ws := func(v string) string {
			if s.valueWS {
				return r.Pick("", " ", "\t") + v + r.Pick("", " ", "\t", "\r")
			}
			return v
		}
		sig = append(sig, "P:"+ws(p.name), "V:"+ws(p.version), "A:"+ws(p.arch))
		if p.origin != "" {
			sig = append(sig, "o:"+ws(p.origin))
		}
		if p.commit != "" {
			sig = append(sig, "c:"+ws(p.commit))
		}
		for _, x := range p.extras {
			if x[0] == 'C' {
				head = append(head, x)
			} else {
				rest = append(rest, x)
			}
		}
		var lines []string
		switch s.order {
		case 0:
			lines = append(append(append(lines, head...), sig...), rest...)
		default:
			// shuffle everything, then restore V before o (the format's own order)
			lines = append(append(append(lines, head...), sig...), rest...)
			for i := len(lines) - 1; i > 0; i-- {
				j := r.Intn(i + 1)
				lines[i], lines[j] = lines[j], lines[i]
			}
			vi, oi := -1, -1
			for i, l := range lines {
				switch l[0] {
				case 'V':
					vi = i
				case 'o':
					oi = i
				}
			}
			if oi >= 0 && vi > oi {
				lines[vi], lines[oi] = lines[oi], lines[vi]
			}
		}
		if s.sigLast {
			// move one significant line to the end of the record
			for i := len(lines) - 1; i >= 0; i-- {
				if strings.IndexByte("PAoc", lines[i][0]) >= 0 {
					l := lines[i]
					lines = append(append(lines[:i:i], lines[i+1:]...), l)
					break
				}
			}
		}
		for _, l := range lines {
			w.WriteString(l + "\n")
		}
		w.WriteString("\n")
	}
	b := w.Bytes()
	// the loop leaves "…\n\n" at the end; tail "\n" keeps that, "" drops the blank line
	switch s.tail {
	case "":
		if len(db) > 0 {
			b = b[:len(b)-1]
		}
	case "\n\n":
		b = append(b, '\n')
	}
	return b
}

type apkOut struct {
	err, panic bool
	tuples     []apkTuple
	bad        []string
}

func scanApk(file []byte, present bool) apkOut {
	var out apkOut
	ents := []ent{{path: "etc/alpine-release", data: []byte("3.18.0\n")}}
	if present {
		ents = append(ents, ent{path: "lib/apk/db/installed", data: file})
	}
	l, err := mkLayer(ents)
	if err != nil {
		out.err = true
		return out
	}
	defer l.Close()
	res := hx.Guard(func() string {
		ps, err := (&apk.Scanner{}).Scan(context.Background(), l)
		if err != nil {
			out.err = true
			return "err"
		}
		for _, p := range ps {
			t := apkTuple{name: p.Name, version: p.Version, arch: p.Arch, hint: p.RepositoryHint}
			if p.Kind != claircore.BINARY || p.PackageDB != "lib/apk/db/installed" || p.Module != "" || p.NormalizedVersion.Kind != "" || p.Filepath != "" || p.CPE != zeroCPE {
				out.bad = append(out.bad, fmt.Sprintf("%s: kind/db/module/normalized version wrong", p.Name))
			}
			if p.Source != nil {
				t.hasSrc, t.srcName, t.srcVer = true, p.Source.Name, p.Source.Version
				if p.Source.Kind != claircore.SOURCE || p.Source.Arch != "" || p.Source.Source != nil {
					out.bad = append(out.bad, fmt.Sprintf("%s: source kind wrong", p.Name))
				}
			}
			out.tuples = append(out.tuples, t)
		}
		return "ok"
	})
	out.panic = res == "panic"
	return out
}

func opApk(r *hx.Run, file []byte, nontrivial bool) apkOut {
	o := scanApk(file, true)
	out := "err"
	switch {
	case o.panic:
		out = "panic"
		r.Fail("", "apk.Scanner.Scan panics on installed file "+quoteShort(file))
	case !o.err:
		out = apkProto(o.tuples)
	}
	r.Op("apk "+hx.Hex(file), out, nontrivial)
	return o
}

func sameApk(a, b []apkTuple) bool {
	if len(a) != len(b) {
		return false
	}
	for i := range a {
		if a[i] != b[i] {
			return false
		}
	}
	return true
}

func checkApkDB(r *hx.Run, db []apkPkg, file []byte, got apkOut, report bool) (ok bool, class string) {
	return checkApkDBTail(r, db, file, got, report, false)
}

// checkApkDBTail: extraBlank says the writer put a second empty line after the last record.
func checkApkDBTail(r *hx.Run, db []apkPkg, file []byte, got apkOut, report bool, extraBlank bool) (ok bool, class string) {
	fail := func(class, msg string) {
		if report {
			r.Fail(class, msg)
		}
	}
	if got.err || got.panic {
		fail("", "apk.Scanner.Scan fails on a well-formed installed file: "+quoteShort(file))
		return false, ""
	}
	if len(got.bad) > 0 {
		fail("", "apk package constants: "+strings.Join(got.bad, "; "))
		return false, ""
	}
	want := expectedApk(db)
	if sameApk(got.tuples, want) {
		return true, ""
	}
	pred, dis := apkKnown(db)
	if extraBlank {
		// recorded finding: the entry "\n" left over by the split is reported as a package
		// without any field
		if withPhantom := append(append([]apkTuple(nil), want...), apkTuple{}); sameApk(got.tuples, withPhantom) {
			fail("apk-blank-entry-phantom", fmt.Sprintf("installed=%s got %d packages, the last one without any field", quoteShort(file), len(got.tuples)))
			return true, "apk-blank-entry-phantom"
		}
		if withPhantom := append(append([]apkTuple(nil), pred...), apkTuple{}); dis && sameApk(got.tuples, withPhantom) {
			fail("apk-blank-entry-phantom", fmt.Sprintf("installed=%s got %d packages, the last one without any field", quoteShort(file), len(got.tuples)))
			return true, "apk-blank-entry-phantom"
		}
	}
	if dis && sameApk(got.tuples, pred) {
		fail("apk-origin-version-by-name", fmt.Sprintf("installed=%s want=%v got=%v", quoteShort(file), want, got.tuples))
		return true, "apk-origin-version-by-name"
	}
	fail("", fmt.Sprintf("apk scan differs from the database (in order): installed=%s want=%v got=%v", quoteShort(file), want, got.tuples))
	return false, ""
}

func mutateApk(r *hx.Rand, b []byte) []byte {
	lines := bytes.SplitAfter(b, []byte("\n"))
	for n := 1 + r.Intn(3); n > 0 && len(lines) > 0; n-- {
		i := r.Intn(len(lines))
		switch r.Intn(9) {
		case 0:
			lines = append(lines[:i:i], lines[i+1:]...)
		case 1:
			lines[i] = []byte(r.Pick("P\n", "V\n", "o\n", "x\n", "\n", "P", "Pxname\n", "P:\n", " P:x\n", "o:late\n", "V:9.9-r9\n", "P:two\nP:names\n"))
		case 2:
			lines = append(lines[:i:i], append([][]byte{[]byte("\n")}, lines[i:]...)...)
		case 3:
			if bytes.HasSuffix(lines[i], []byte("\n")) {
				lines[i] = append(append([]byte(nil), lines[i][:len(lines[i])-1]...), '\r', '\n')
			}
		case 4:
			lines = append(lines[:i+1:i+1], append([][]byte{lines[i]}, lines[i+1:]...)...)
		case 5:
			lines[i] = bytes.TrimSuffix(lines[i], []byte("\n"))
		case 6:
			lines[i] = append([]byte("o:"+r.Pick(apkNames...)), '\n')
		case 7:
			l := append([]byte(nil), lines[i]...)
			if len(l) > 2 {
				l[2+r.Intn(len(l)-2)] = byte(r.Pick(" ", "\t", "\x00", "\v", "\f", ":")[0])
			}
			lines[i] = l
		case 8:
			lines = append(lines[:i:i], append([][]byte{[]byte("\n\n\n")}, lines[i:]...)...)
		}
	}
	return bytes.Join(lines, nil)
}

func runApk(r *hx.Run, rnd *hx.Rand, cfg hx.Config) {
	// recorded finding: origin version by name
	{
		f := []byte("P:a\nV:1.0-r0\nA:x86_64\no:orig\n\nP:b\nV:2.0-r0\nA:x86_64\no:orig\n\n")
		o := opApk(r, f, true)
		if !o.err && len(o.tuples) == 2 && o.tuples[1].srcVer == "1.0-r0" {
			r.KnownSeen("apk-origin-version-by-name", "package b (V:2.0-r0, o:orig) is reported with source orig 1.0-r0 taken from package a")
		}
		f = []byte("P:a\no:a\nV:1.0-r0\nA:x86_64\n\n")
		o = opApk(r, f, true)
		if !o.err && len(o.tuples) == 1 && o.tuples[0].hasSrc && o.tuples[0].srcVer == "" {
			r.KnownSeen("apk-origin-before-version", "record with o: before V: is reported with an empty source version")
		}
	}
	for _, s := range []string{"", "\n", "\n\n", "\n\n\n", "P:a", "P:a\n", "P:a\n\n", "P:a\nV:1\nA:x\no:s\nc:h", "P:a\nV:1\nA:x\no:s\nc:h\n", "P:a\nV:1\nA:x\no:s\nc:h\n\n", "P:a\nV:1\nA:x\no:s\nc:h\n\n\n",
		"P:a\nV:1\n\nP:b\nV:2\no:b", "P:a\nV:1\n\n\nP:b\nV:2\no:b\n", "P\n\nV\n", "P:a\nP", "P:a\nPx", "P: a \nV:\t1\r\nA:x\n\n", "C:Q1\nP:a\nV:1\nA:x\nS:1\nI:2\nT:d\nU:u\nL:l\no:a\nm:m\nt:1\nc:abc\nD:x\np:y\nF:bin\nR:a\na:0:0:755\nZ:Q1\n\n"} {
		opApk(r, []byte(s), true)
	}
	{
		f := []byte("P:a\nV:1.0-r0\nA:x86_64\n\n\n")
		o := opApk(r, f, true)
		if !o.err && len(o.tuples) == 2 && o.tuples[1] == (apkTuple{}) {
			r.KnownSeen("apk-blank-entry-phantom", "installed file \"P:a\\nV:1.0-r0\\nA:x86_64\\n\\n\\n\" (a second empty line at the end) reports a second package without any field")
		}
	}
	// fixed defect: the last line of a record counts
	{
		f := []byte("P:a\nV:1\nA:x\nc:abc\no:src\n\nP:b\nV:2\nA:x\nc:def\n\n")
		o := scanApk(f, true)
		if o.err || len(o.tuples) != 2 || !o.tuples[0].hasSrc || o.tuples[0].srcName != "src" || o.tuples[1].hint != "def" {
			r.Fail("", "apk: the last line of a record is ignored: "+quoteShort(f)+fmt.Sprintf(" got=%v", o.tuples))
		}
	}
	// very long lines (a package with thousands of dependencies or provides): the records after
	// it are still there
	for _, key := range []string{"D", "p", "r"} {
		long := key + ":" + strings.Repeat("so:libsomething.so.1 cmd:tool=1.2.3-r4 ", 1800+rnd.Intn(400)) // > 64 KiB
		db := []apkPkg{
			{name: "first", version: "1.0-r0", arch: "x86_64", origin: "first", commit: "aa", extras: []string{"C:Q1x="}},
			{name: "huge", version: "2.0-r1", arch: "x86_64", origin: "huge", commit: "bb", extras: []string{long, "F:usr"}},
			{name: "after", version: "3.0-r2", arch: "noarch", origin: "after", commit: "cc"},
			{name: "last", version: "4.0-r3", arch: "noarch"},
		}
		file := renderApk(rnd, db, apkSer{tail: "\n"})
		got := opApk(r, file, true)
		if ok, _ := checkApkDB(r, db, file, got, false); !ok {
			short := bytes.Replace(file, []byte(long), []byte(long[:60]+"…("+fmt.Sprint(len(long))+" bytes)"), 1)
			r.Fail("", fmt.Sprintf("apk: a record with a %d-byte %s: line: scan differs from the database: installed=%q want=%v got=%v err=%v", len(long), key, short, expectedApk(db), got.tuples, got.err))
		}
		r.Count("apk:long-line")
	}
	// no database: nothing reported
	if o := scanApk(nil, false); o.err || len(o.tuples) != 0 {
		r.Fail("", "apk: a layer without lib/apk/db/installed reports packages or fails")
	}
	n := cfg.N(300, 8000)
	for i := 0; i < n && !r.Stop(); i++ {
		size := r0(rnd, i)
		dis := rnd.Chance(1, 12)
		db := genApkDB(rnd, size, dis)
		ser := genApkSer(rnd)
		file := renderApk(rnd, db, ser)
		r.Count("apk:entries:" + sizeBucket(size))
		r.Count(fmt.Sprintf("apk:ser:order%d", ser.order))
		if ser.sigLast {
			r.Count("apk:ser:significant-last-line")
		}
		if ser.valueWS {
			r.Count("apk:ser:value-whitespace")
		}
		r.Count("apk:ser:tail:" + fmt.Sprintf("%q", ser.tail))
		got := opApk(r, file, size > 0)
		extra := ser.tail == "\n\n"
		ok, class := checkApkDBTail(r, db, file, got, false, extra)
		switch {
		case ok && class == "":
			r.Count("apk:oracle:exact")
		case ok:
			r.Count("apk:oracle:known:" + class)
			checkApkDBTail(r, db, file, got, true, extra)
		default:
			r.Count("apk:oracle:FAIL")
			// shrink: drop records while it still fails
			cur := db
			for j := 0; j < len(cur); {
				cand := append(append([]apkPkg(nil), cur[:j]...), cur[j+1:]...)
				f2 := renderApk(hx.NewRand(3), cand, ser)
				if ok2, _ := checkApkDBTail(r, cand, f2, scanApk(f2, true), false, extra); !ok2 {
					cur = cand
				} else {
					j++
				}
			}
			f2 := renderApk(hx.NewRand(3), cur, ser)
			if ok2, _ := checkApkDBTail(r, cur, f2, scanApk(f2, true), true, extra); ok2 {
				checkApkDBTail(r, db, file, got, true, extra)
			}
		}
		if i%2 == 0 && len(file) > 0 {
			m := mutateApk(rnd, file)
			mo := opApk(r, m, true)
			if mo.err {
				r.Count("apk:mutated:err")
			} else {
				r.Count("apk:mutated:ok")
			}
		}
	}
}
