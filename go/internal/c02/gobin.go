package c02

import (
	"bytes"
	"context"
	"encoding/binary"
	"fmt"
	"os"
	"os/exec"
	"path/filepath"
	"sort"
	"strings"

	"github.com/quay/claircore"
	"github.com/quay/claircore/gobin"
	"github.com/quay/claircore/verifharness/internal/hx"
)

// gobin: the "database" is the build information the Go linker embeds in every executable
// (cmd/go/internal/modload + cmd/link: a 32-byte header found by its magic number, the
// toolchain version and the module list as text). The harness writes executables itself: an
// ELF (32/64 bit, either byte order, with or without a .go.buildinfo section, ET_EXEC or
// ET_DYN) or a PE image carrying the blob in either of its two encodings (inline strings,
// go >= 1.18; pointers to string headers, older toolchains).

type goMod struct {
	path, version, sum string
	replace            *goMod
}

type goKV struct{ k, v string }

type goInfo struct {
	goVersion   string
	path        string // package path of the main package
	mainPath    string // main module
	mainVersion string
	mainSum     string
	noMain      bool // no "mod" line (built outside a module)
	noModinfo   bool // no module information at all (GO111MODULE=off builds)
	deps        []goMod
	settings    []goKV
}

var (
	goInfoStart = "\x30\x77\xaf\x0c\x92\x74\x08\x02\x41\xe1\xc1\x07\xe6\xd6\x18\xe6"
	goInfoEnd   = "\xf9\x32\x43\x31\x86\x18\x20\x72\x00\x82\x42\x10\x41\x16\xd8\xf2"
	goMagic     = "\xff Go buildinf:"
)

// modinfo renders the module information the way runtime/debug.BuildInfo.String does.
func (g goInfo) modinfo() string {
	if g.noModinfo {
		return ""
	}
	var b strings.Builder
	if g.path != "" {
		fmt.Fprintf(&b, "path\t%s\n", g.path)
	}
	line := func(word string, m goMod) {
		b.WriteString(word + "\t" + m.path + "\t" + m.version + "\t" + m.sum + "\n")
	}
	if !g.noMain {
		line("mod", goMod{path: g.mainPath, version: g.mainVersion, sum: g.mainSum})
	}
	for _, d := range g.deps {
		if d.replace != nil {
			// the replaced module's line carries no checksum
			b.WriteString("dep\t" + d.path + "\t" + d.version + "\n")
			line("=>", *d.replace)
		} else {
			line("dep", d)
		}
	}
	for _, s := range g.settings {
		fmt.Fprintf(&b, "build\t%s=%s\n", s.k, s.v)
	}
	return goInfoStart + b.String() + goInfoEnd
}

// goExeShape chooses the container.
type goExeShape struct {
	format     string // "elf" | "pe"
	is64       bool
	bigEndian  bool
	etype      uint16 // ELF e_type
	section    bool   // the blob has its own .go.buildinfo section
	inline     bool   // go >= 1.18 encoding
	decoyMagic bool   // the magic bytes once more at an unaligned place before the blob
}

func (s goExeShape) String() string {
	return fmt.Sprintf("%s/64=%v/be=%v/type=%d/section=%v/inline=%v/decoy=%v", s.format, s.is64, s.bigEndian, s.etype, s.section, s.inline, s.decoyMagic)
}

func randGoShape(r *hx.Rand) goExeShape {
	s := goExeShape{format: "elf", is64: r.Chance(3, 4), bigEndian: r.Chance(1, 4), etype: 2, section: r.Chance(2, 3), inline: r.Chance(2, 3), decoyMagic: r.Chance(1, 3)}
	if r.Chance(1, 3) {
		s.etype = 3
	}
	if r.Chance(1, 5) {
		s = goExeShape{format: "pe", is64: true, inline: r.Chance(2, 3), decoyMagic: r.Chance(1, 3)}
	}
	return s
}

// goBinary writes an executable of a random shape.
func goBinary(r *hx.Rand, g goInfo) []byte { return goExe(randGoShape(r), g) }

// goData builds the data segment holding the blob: base is the virtual address it is loaded at.
func goData(s goExeShape, g goInfo, base uint64) (data []byte, blobOff int) {
	ord := binary.ByteOrder(binary.LittleEndian)
	if s.bigEndian {
		ord = binary.BigEndian
	}
	ptr := 4
	if s.is64 {
		ptr = 8
	}
	if s.decoyMagic {
		data = append(data, "xxxxx"...)
		data = append(data, goMagic...)
		data = append(data, "  not the real one"...)
	} else if !s.section {
		data = append(data, "some initialised data"...)
	}
	for len(data)%16 != 0 {
		data = append(data, 0)
	}
	blobOff = len(data)
	hdr := make([]byte, 32)
	copy(hdr, goMagic)
	hdr[14] = byte(ptr)
	vers, mod := g.goVersion, g.modinfo()
	if s.inline {
		hdr[15] = 2
		data = append(data, hdr...)
		data = binary.AppendUvarint(data, uint64(len(vers)))
		data = append(data, vers...)
		data = binary.AppendUvarint(data, uint64(len(mod)))
		data = append(data, mod...)
	} else {
		if s.bigEndian {
			hdr[15] = 1
		}
		// blob, two string headers, the bytes
		sh1 := base + uint64(blobOff) + 32
		sh2 := sh1 + uint64(2*ptr)
		d1 := sh2 + uint64(2*ptr)
		d2 := d1 + uint64(len(vers))
		put := func(b []byte, v uint64) {
			if ptr == 8 {
				ord.PutUint64(b, v)
			} else {
				ord.PutUint32(b, uint32(v))
			}
		}
		put(hdr[16:], sh1)
		put(hdr[16+ptr:], sh2)
		data = append(data, hdr...)
		sh := make([]byte, 4*ptr)
		put(sh[0:], d1)
		put(sh[ptr:], uint64(len(vers)))
		put(sh[2*ptr:], d2)
		put(sh[3*ptr:], uint64(len(mod)))
		data = append(data, sh...)
		data = append(data, vers...)
		data = append(data, mod...)
	}
	data = append(data, 0, 0, 0, 0)
	return data, blobOff
}

func goExe(s goExeShape, g goInfo) []byte {
	if s.format == "pe" {
		return goPE(s, g)
	}
	ord := binary.ByteOrder(binary.LittleEndian)
	if s.bigEndian {
		ord = binary.BigEndian
	}
	var out bytes.Buffer
	w16 := func(v uint16) { binary.Write(&out, ord, v) }
	w32 := func(v uint32) { binary.Write(&out, ord, v) }
	w64 := func(v uint64) { binary.Write(&out, ord, v) }
	wptr := func(v uint64) {
		if s.is64 {
			w64(v)
		} else {
			w32(uint32(v))
		}
	}
	ehsz, phsz, shsz := 52, 32, 40
	if s.is64 {
		ehsz, phsz, shsz = 64, 56, 64
	}
	const base = 0x400000
	text := bytes.Repeat([]byte{0x90}, 64)
	textOff := ehsz + 2*phsz
	dataOff := (textOff + len(text) + 15) &^ 15
	data, blobOff := goData(s, g, base+uint64(dataOff))
	shstr := []byte("\x00.text\x00.go.buildinfo\x00.shstrtab\x00.data\x00")
	shstrOff := dataOff + len(data)
	shOff := (shstrOff + len(shstr) + 7) &^ 7
	// ELF header
	out.Write([]byte{0x7f, 'E', 'L', 'F'})
	cls, dat := byte(1), byte(1)
	if s.is64 {
		cls = 2
	}
	if s.bigEndian {
		dat = 2
	}
	out.Write([]byte{cls, dat, 1, 0, 0, 0, 0, 0, 0, 0, 0, 0})
	w16(s.etype)
	mach := uint16(62)
	switch {
	case s.bigEndian && s.is64:
		mach = 22 // s390x
	case s.bigEndian:
		mach = 8 // mips
	case !s.is64:
		mach = 3 // 386
	}
	w16(mach)
	w32(1)
	wptr(base + uint64(textOff))
	wptr(uint64(ehsz))
	wptr(uint64(shOff))
	w32(0)
	w16(uint16(ehsz))
	w16(uint16(phsz))
	w16(2)
	w16(uint16(shsz))
	w16(4)
	w16(3)
	// program headers
	phdr := func(flags uint32, off, sz int) {
		w32(1) // PT_LOAD
		if s.is64 {
			w32(flags)
			w64(uint64(off))
			w64(base + uint64(off))
			w64(base + uint64(off))
			w64(uint64(sz))
			w64(uint64(sz))
			w64(16)
		} else {
			w32(uint32(off))
			w32(uint32(base + off))
			w32(uint32(base + off))
			w32(uint32(sz))
			w32(uint32(sz))
			w32(flags)
			w32(16)
		}
	}
	phdr(5, textOff, len(text)) // R+X
	phdr(6, dataOff, len(data)) // R+W
	out.Write(text)
	for out.Len() < dataOff {
		out.WriteByte(0)
	}
	out.Write(data)
	out.Write(shstr)
	for out.Len() < shOff {
		out.WriteByte(0)
	}
	shdr := func(name, typ uint32, flags uint64, addr, off, size uint64) {
		w32(name)
		w32(typ)
		wptr(flags)
		wptr(addr)
		wptr(off)
		wptr(size)
		w32(0)
		w32(0)
		wptr(16)
		wptr(0)
	}
	shdr(0, 0, 0, 0, 0, 0)
	shdr(1, 1, 6, base+uint64(textOff), uint64(textOff), uint64(len(text)))
	if s.section {
		shdr(7, 1, 3, base+uint64(dataOff+blobOff), uint64(dataOff+blobOff), uint64(len(data)-blobOff))
	} else {
		shdr(31, 1, 3, base+uint64(dataOff), uint64(dataOff), uint64(len(data)))
	}
	shdr(21, 3, 0, 0, uint64(shstrOff), uint64(len(shstr)))
	return out.Bytes()
}

// goPE writes a minimal PE32+ image: DOS header, COFF header, optional header, a .text and a
// .data section.
func goPE(s goExeShape, g goInfo) []byte {
	le := binary.LittleEndian
	const imageBase = 0x140000000
	const dataRVA = 0x2000
	s.bigEndian, s.is64, s.section = false, true, false
	data, _ := goData(s, g, imageBase+dataRVA)
	var out bytes.Buffer
	dos := make([]byte, 64)
	copy(dos, "MZ")
	le.PutUint32(dos[0x3c:], 64)
	out.Write(dos)
	out.WriteString("PE\x00\x00")
	w16 := func(v uint16) { binary.Write(&out, le, v) }
	w32 := func(v uint32) { binary.Write(&out, le, v) }
	w64 := func(v uint64) { binary.Write(&out, le, v) }
	// COFF file header
	w16(0x8664)
	w16(2)
	w32(0)
	w32(0)
	w32(0)
	w16(240)
	w16(0x22)
	hdrEnd := 64 + 4 + 20 + 240 + 2*40
	textOff := (hdrEnd + 511) &^ 511
	text := bytes.Repeat([]byte{0x90}, 512)
	dataOff := textOff + len(text)
	rawData := (len(data) + 511) &^ 511
	// optional header (PE32+)
	w16(0x20b)
	out.Write([]byte{14, 0})
	w32(uint32(len(text)))
	w32(uint32(rawData))
	w32(0)
	w32(0x1000)
	w32(0x1000)
	w64(imageBase)
	w32(0x1000)
	w32(0x200)
	w16(6)
	w16(1)
	w16(0)
	w16(0)
	w16(6)
	w16(1)
	w32(0)
	w32(0x4000)
	w32(uint32(textOff))
	w32(0)
	w16(3)
	w16(0)
	w64(0x100000)
	w64(0x1000)
	w64(0x100000)
	w64(0x1000)
	w32(0)
	w32(16)
	out.Write(make([]byte, 16*8))
	sect := func(name string, vsize, rva, rawSize, rawOff int, ch uint32) {
		n := make([]byte, 8)
		copy(n, name)
		out.Write(n)
		w32(uint32(vsize))
		w32(uint32(rva))
		w32(uint32(rawSize))
		w32(uint32(rawOff))
		w32(0)
		w32(0)
		w16(0)
		w16(0)
		w32(ch)
	}
	sect(".text", len(text), 0x1000, len(text), textOff, 0x60000020)
	sect(".data", len(data), dataRVA, rawData, dataOff, 0xC0000040)
	for out.Len() < textOff {
		out.WriteByte(0)
	}
	out.Write(text)
	out.Write(data)
	for out.Len() < dataOff+rawData {
		out.WriteByte(0)
	}
	return out.Bytes()
}

// ---- ground truth ----

type goTuple struct {
	name, version, db, path string
	kind                    string
	v1, v2, v3              int32
}

// goVer is a generated module version: its text and the semantic version numbers it states
// (ok = false: not a semantic version; the text is reported, nothing normalised).
type goVer struct {
	text       string
	ok         bool
	v1, v2, v3 int32
}

func randGoVer(r *hx.Rand) goVer {
	a, b, c := int32(r.Intn(40)), int32(r.Intn(100)), int32(r.Intn(300))
	if r.Chance(1, 8) {
		a, b, c = int32(r.Intn(999999999)), int32(r.Intn(1000000)), int32(r.Intn(999999999))
	}
	base := fmt.Sprintf("v%d.%d.%d", a, b, c)
	switch r.Intn(10) {
	case 0:
		return goVer{fmt.Sprintf("v0.0.0-2023%02d%02d123456-%s", 1+r.Intn(12), 1+r.Intn(28), randFrom(r, "0123456789abcdef", 12)), true, 0, 0, 0}
	case 1:
		return goVer{base + "+incompatible", true, a, b, c}
	case 2:
		return goVer{base + "-rc." + fmt.Sprint(r.Intn(9)), true, a, b, c}
	case 3:
		return goVer{fmt.Sprintf("v%d.%d.%d-0.2022%02d01000000-%s", a, b, c, 1+r.Intn(12), randFrom(r, "0123456789abcdef", 12)), true, a, b, c}
	case 4:
		return goVer{base + "-beta.1+build.7", true, a, b, c}
	}
	return goVer{base, true, a, b, c}
}

var goPaths = []string{"github.com/quay/claircore", "golang.org/x/sys", "golang.org/x/crypto", "github.com/pkg/errors", "gopkg.in/yaml.v3", "k8s.io/api", "github.com/Azure/go-autorest/autorest", "example.com/a", "go.uber.org/zap", "github.com/golang-jwt/jwt/v5", "rsc.io/quote/v3"}

type goGT struct {
	info goInfo
	want []goTuple // in the order the build info lists them
}

func genGoInfo(r *hx.Rand) goGT {
	var g goGT
	tv := fmt.Sprintf("1.%d.%d", 16+r.Intn(8), r.Intn(12))
	tup := goTuple{name: "stdlib", version: tv, kind: "semver", v1: 1}
	fmt.Sscanf(tv, "1.%d.%d", &tup.v2, &tup.v3)
	g.info.goVersion = "go" + tv
	switch r.Intn(8) {
	case 0:
		g.info.goVersion += " X:boringcrypto" // experiment suffix
	case 1:
		tv = fmt.Sprintf("1.%d", 16+r.Intn(8))
		g.info.goVersion = "go" + tv
		tup = goTuple{name: "stdlib", version: tv, kind: "semver", v1: 1}
		fmt.Sscanf(tv, "1.%d", &tup.v2)
	case 2:
		tv = fmt.Sprintf("1.%drc%d", 20+r.Intn(4), 1+r.Intn(3))
		g.info.goVersion = "go" + tv
		tup = goTuple{name: "stdlib", version: tv} // not a semantic version
	case 3:
		tv = "devel +abc1234 Tue Jan 2 15:04:05 2024 +0000"
		g.info.goVersion = tv // development toolchains carry no "go" prefix
		tup = goTuple{name: "stdlib", version: "devel"}
	}
	g.want = append(g.want, tup)
	if r.Chance(1, 12) {
		g.info.noModinfo = true
		g.want = append(g.want, goTuple{name: "command-line-arguments", version: "(devel)"})
		return g
	}
	g.info.mainPath = r.Pick(goPaths...) + r.Pick("", "/v2", "/cmd")
	g.info.path = g.info.mainPath + r.Pick("", "/cmd/tool", "/internal/main")
	mt := goTuple{name: g.info.mainPath}
	switch r.Intn(6) {
	case 0, 1:
		v := randGoVer(r)
		g.info.mainVersion, g.info.mainSum = v.text, "h1:"+randFrom(r, "ABCDEFGHIJKLMNOPQRSTUVWXYZabcdefghijklmnopqrstuvwxyz0123456789+/", 43)+"="
		mt.version, mt.kind, mt.v1, mt.v2, mt.v3 = v.text, "semver", v.v1, v.v2, v.v3
		if r.Chance(1, 3) {
			// stamps next to a tagged version change nothing
			g.info.settings = []goKV{{"-compiler", "gc"}, {"vcs", "git"}, {"vcs.revision", randFrom(r, "0123456789abcdef", 40)}, {"vcs.modified", "true"}}
		}
	case 2:
		g.info.noMain = true
		g.info.mainPath = ""
		mt.name, mt.version = "command-line-arguments", "(devel)"
	default:
		g.info.mainVersion = "(devel)"
		mt.version = "(devel)"
		// version control stamps
		if r.Chance(3, 4) {
			var parts []string
			rev := randFrom(r, "0123456789abcdef", []int{40, 64, 12}[r.Intn(3)])
			set := []goKV{{"-buildmode", "exe"}, {"-compiler", "gc"}, {"CGO_ENABLED", "0"}, {"GOARCH", "amd64"}, {"GOOS", "linux"}}
			if r.Chance(4, 5) {
				set = append(set, goKV{"vcs", "git"})
				parts = append(parts, "git")
			}
			set = append(set, goKV{"vcs.revision", rev})
			if len(rev) == 40 || len(rev) == 64 {
				parts = append(parts, "commit "+rev)
			} else {
				parts = append(parts, "rev "+rev)
			}
			if r.Chance(2, 3) {
				set = append(set, goKV{"vcs.time", "2024-01-02T15:04:05Z"})
				parts = append(parts, "built at 2024-01-02T15:04:05Z")
			}
			if r.Chance(1, 2) {
				m := r.Pick("true", "false")
				set = append(set, goKV{"vcs.modified", m})
				if m == "true" {
					parts = append(parts, "dirty")
				}
			}
			g.info.settings = set
			mt.version = "(devel) (" + strings.Join(parts, ", ") + ")"
		}
	}
	g.want = append(g.want, mt)
	seen := map[string]bool{g.info.mainPath: true}
	for n := r.Intn(8); n > 0; n-- {
		p := r.Pick(goPaths...)
		if r.Chance(1, 3) {
			p = "example.org/" + randFrom(r, "abcdefghijklmnopqrstuvwxyz", 1+r.Intn(6)) + "/" + randFrom(r, "abcdefghijklmnopqrstuvwxyz-_.0123456789", 1+r.Intn(10))
		}
		if seen[p] {
			continue
		}
		seen[p] = true
		v := randGoVer(r)
		d := goMod{path: p, version: v.text, sum: "h1:" + randFrom(r, "ABCDEFGHIJKLMNOPQRSTUVWXYZabcdefghijklmnopqrstuvwxyz0123456789+/", 43) + "="}
		t := goTuple{name: p, version: v.text, kind: "semver", v1: v.v1, v2: v.v2, v3: v.v3}
		switch r.Intn(8) {
		case 0:
			// replaced by another module: that is the code in the binary
			rv := randGoVer(r)
			rp := "github.com/fork/" + randFrom(r, "abcdefghijklmnop", 5)
			d.replace = &goMod{path: rp, version: rv.text, sum: d.sum}
			d.sum = ""
			t = goTuple{name: rp, version: rv.text, kind: "semver", v1: rv.v1, v2: rv.v2, v3: rv.v3}
		case 1:
			// replaced by a directory
			rp := r.Pick("../local", "./vendor-fork", "/src/lib")
			d.replace = &goMod{path: rp, version: "(devel)"}
			d.sum = ""
			t = goTuple{name: rp, version: "(devel)"}
		}
		g.info.deps = append(g.info.deps, d)
		g.want = append(g.want, t)
	}
	return g
}

func scanGobin(ents []ent) (out []goTuple, res string) {
	l, err := mkLayer(ents)
	if err != nil {
		return nil, "err"
	}
	defer l.Close()
	ctx, cancel := context.WithCancel(context.Background())
	defer cancel()
	res = hx.Guard(func() string {
		ps, err := gobin.Detector{}.Scan(ctx, l)
		if err != nil {
			return "err"
		}
		for _, p := range ps {
			t := goTuple{name: p.Name, version: p.Version, db: p.PackageDB, path: p.Filepath, kind: p.NormalizedVersion.Kind,
				v1: p.NormalizedVersion.V[1], v2: p.NormalizedVersion.V[2], v3: p.NormalizedVersion.V[3]}
			if p.Kind != claircore.BINARY || p.Source != nil || p.Arch != "" || p.Module != "" || p.RepositoryHint != "" || p.NormalizedVersion.V[0] != 0 || p.NormalizedVersion.V[4] != 0 {
				t.kind = "bad-constants"
			}
			out = append(out, t)
		}
		return "ok"
	})
	return out, res
}

func goProto(ts []goTuple) string {
	l := []string{fmt.Sprintf("ok %d", len(ts))}
	for _, t := range ts {
		n := "none"
		if t.kind != "" {
			n = fmt.Sprintf("%s:%d.%d.%d", t.kind, t.v1, t.v2, t.v3)
		}
		l = append(l, hx.Hex([]byte(t.name))+","+hx.Hex([]byte(t.version))+","+n)
	}
	return strings.Join(l, " ")
}

// goOp is the protocol line: the build information as the toolchain's reader returns it.
func (g goInfo) op() string {
	h := func(s string) string { return hx.Hex([]byte(s)) }
	f := []string{"gobin", h(g.goVersion)}
	if g.noModinfo || g.noMain {
		f = append(f, "-,-")
	} else {
		f = append(f, h(g.mainPath)+","+h(g.mainVersion))
	}
	var deps, sets []string
	if !g.noModinfo {
		for _, d := range g.deps {
			if d.replace != nil {
				deps = append(deps, h(d.path)+","+h(d.version)+",r,"+h(d.replace.path)+","+h(d.replace.version))
			} else {
				deps = append(deps, h(d.path)+","+h(d.version))
			}
		}
		for _, s := range g.settings {
			sets = append(sets, h(s.k)+","+h(s.v))
		}
	}
	f = append(f, fmt.Sprint(len(deps)))
	f = append(f, deps...)
	f = append(f, sets...)
	return strings.Join(f, " ")
}

func runGobin(r *hx.Run, rnd *hx.Rand, cfg hx.Config) {
	for i := 0; i < cfg.N(150, 4000) && !r.Stop(); i++ {
		nb := 1 + rnd.Intn(3)
		var ents []ent
		var gts []goGT
		var paths []string
		var shapes []goExeShape
		for j := 0; j < nb; j++ {
			g := genGoInfo(rnd)
			s := randGoShape(rnd)
			p := rnd.Pick("usr/bin/", "usr/local/bin/", "app/", "", "opt/tool/bin/") + randFrom(rnd, "abcdefghijklmnopqrstuvwxyz", 1+rnd.Intn(8)) + rnd.Pick("", "", ".exe", "-linux-amd64")
			dup := false
			for _, q := range paths {
				dup = dup || q == p
			}
			if dup {
				continue
			}
			mode := int64([]int{0o755, 0o755, 0o555, 0o700, 0o644, 0o100}[rnd.Intn(6)])
			ents = append(ents, ent{path: p, data: goExe(s, g.info), mode: mode})
			gts, paths, shapes = append(gts, g), append(paths, p), append(shapes, s)
			r.Count("gobin:shape:" + s.format + fmt.Sprintf(":64=%v:be=%v:section=%v:inline=%v", s.is64, s.bigEndian, s.section, s.inline))
			r.Count(fmt.Sprintf("gobin:deps:%d", len(g.info.deps)))
		}
		// things that are not Go executables
		var absent []string
		if rnd.Chance(1, 2) {
			d := []ent{
				{path: "usr/bin/script", data: []byte("#!/bin/sh\necho " + goMagic + "\n"), mode: 0o755},
				{path: "usr/lib/object.o", data: goExe(goExeShape{format: "elf", is64: true, etype: 1, section: true, inline: true}, genGoInfo(rnd).info), mode: 0o644},
				{path: "usr/bin/core", data: goExe(goExeShape{format: "elf", is64: true, etype: 4, section: true, inline: true}, genGoInfo(rnd).info), mode: 0o755},
				{path: "usr/bin/tiny", data: []byte("\x7fELF\x02\x01\x01"), mode: 0o755},
				{path: "usr/bin/noperm", data: goExe(goExeShape{format: "elf", is64: true, etype: 2, section: true, inline: true}, genGoInfo(rnd).info), mode: 0o200},
				{path: "usr/bin/c-program", data: notGoELF(), mode: 0o755},
				{path: "usr/bin/link", link: "/" + paths[0]},
			}
			for _, e := range d {
				if rnd.Chance(1, 2) {
					ents = append(ents, e)
					absent = append(absent, e.path)
					r.Count("gobin:decoy:" + e.path)
				}
			}
		}
		for k := len(ents) - 1; k > 0; k-- {
			j := rnd.Intn(k + 1)
			ents[k], ents[j] = ents[j], ents[k]
		}
		got, res := scanGobin(ents)
		r.Case(fmt.Sprintf("gobin %d", i), true)
		if res != "ok" {
			r.Fail("", fmt.Sprintf("gobin.Detector.Scan: %s on well-formed executables %v %v", res, paths, shapes))
			continue
		}
		byPath := map[string][]goTuple{}
		for _, t := range got {
			byPath[t.path] = append(byPath[t.path], t)
		}
		for _, a := range absent {
			if len(byPath[a]) > 0 {
				r.Fail("", fmt.Sprintf("gobin: %s is not a Go executable (or not readable/executable), but packages are reported for it: %v", a, byPath[a]))
			}
			delete(byPath, a)
		}
		for j, g := range gts {
			p := paths[j]
			gotp := byPath[p]
			delete(byPath, p)
			r.Op(g.info.op(), goProto(gotp), true)
			wit := fmt.Sprintf("%s (%s) go version %q, modinfo %q", p, shapes[j], g.info.goVersion, g.info.modinfo())
			if len(gotp) != len(g.want) {
				r.Fail("", fmt.Sprintf("gobin: %d packages reported, the build info lists %d: %s", len(gotp), len(g.want), wit))
				continue
			}
			ok := true
			for k, w := range g.want {
				w.db, w.path = "go:"+p, p
				if gotp[k] != w {
					ok = false
					r.Fail("", fmt.Sprintf("gobin: entry %d reported as %+v, the build info states %+v: %s", k, gotp[k], w, wit))
					break
				}
			}
			if ok {
				r.Count("gobin:oracle:exact")
			}
		}
		for p, ts := range byPath {
			r.Fail("", fmt.Sprintf("gobin: packages invented for %s: %v", p, ts))
		}
	}
}

// notGoELF is an ELF executable without build information.
func notGoELF() []byte {
	b := goExe(goExeShape{format: "elf", is64: true, etype: 2, section: false, inline: true}, goInfo{goVersion: "go1.21.0"})
	return bytes.ReplaceAll(b, []byte(goMagic), []byte("\xff Go buildXXX:"))
}

// runGobinReal: executables built by the local Go toolchain itself (offline: generated modules
// whose dependencies are local replace directives), as a check of the harness's own writer of
// build information against the real linker: native ELF in the quick tier, PIE, 32-bit,
// big-endian and PE targets in the thorough tier.
func runGobinReal(r *hx.Run, rnd *hx.Rand, cfg hx.Config) {
	goBin, err := exec.LookPath("go")
	if err != nil {
		r.Count("gobin:real:no-toolchain")
		return
	}
	verOut, err := exec.Command(goBin, "env", "GOVERSION").Output()
	if err != nil {
		r.Count("gobin:real:no-toolchain")
		return
	}
	goVersion := strings.TrimSpace(string(verOut))
	type target struct{ goos, goarch, mode string }
	targets := []target{{"", "", "exe"}}
	if cfg.Thorough() {
		targets = append(targets, target{"", "", "pie"}, target{"linux", "386", "exe"}, target{"linux", "s390x", "exe"}, target{"windows", "amd64", "exe"}, target{"linux", "arm64", "exe"})
	}
	for ti, t := range targets {
		if r.Stop() {
			return
		}
		dir := filepath.Join(cfg.OutDir, fmt.Sprintf("gobuild-%d", ti))
		os.RemoveAll(dir)
		defer os.RemoveAll(dir)
		mod := "example.com/verif/" + randFrom(rnd, "abcdefghijklmnopqrstuvwxyz", 3+rnd.Intn(6))
		nd := rnd.Intn(4)
		var gomod, mainsrc strings.Builder
		gomod.WriteString("module " + mod + "\n\ngo 1.21\n\n")
		mainsrc.WriteString("package main\n\nimport (\n")
		want := []goTuple{{name: "stdlib", version: strings.TrimPrefix(goVersion, "go")}, {name: mod, version: "(devel)"}}
		if pv, err := gobin.ParseVersion(strings.TrimPrefix(goVersion, "go")); err == nil {
			want[0].kind, want[0].v1, want[0].v2, want[0].v3 = pv.Kind, pv.V[1], pv.V[2], pv.V[3]
		}
		var uses []string
		depNames := make([]string, nd)
		for d := 0; d < nd; d++ {
			depNames[d] = fmt.Sprintf("example.org/%s/dep%d", randFrom(rnd, "abcdefghijklmnopqrstuvwxyz", 4), d)
		}
		sort.Strings(depNames) // the build info lists dependencies by module path
		for d, dn := range depNames {
			local := fmt.Sprintf("./dep%d", d)
			gomod.WriteString(fmt.Sprintf("require %s v0.0.0\n\nreplace %s => %s\n\n", dn, dn, local))
			os.MkdirAll(filepath.Join(dir, local), 0o755)
			os.WriteFile(filepath.Join(dir, local, "go.mod"), []byte("module "+dn+"\n\ngo 1.21\n"), 0o644)
			os.WriteFile(filepath.Join(dir, local, "x.go"), []byte(fmt.Sprintf("package dep%d\n\nvar X = %d\n", d, d)), 0o644)
			mainsrc.WriteString(fmt.Sprintf("\td%d %q\n", d, dn))
			uses = append(uses, fmt.Sprintf("d%d.X", d))
			want = append(want, goTuple{name: local, version: "(devel)"})
		}
		mainsrc.WriteString(")\n\nfunc main() { println(0")
		for _, u := range uses {
			mainsrc.WriteString(", " + u)
		}
		mainsrc.WriteString(") }\n")
		if nd == 0 {
			mainsrc.Reset()
			mainsrc.WriteString("package main\n\nfunc main() { println(0) }\n")
		}
		os.MkdirAll(dir, 0o755)
		os.WriteFile(filepath.Join(dir, "go.mod"), []byte(gomod.String()), 0o644)
		os.WriteFile(filepath.Join(dir, "main.go"), []byte(mainsrc.String()), 0o644)
		cmd := exec.Command(goBin, "build", "-buildvcs=false", "-buildmode="+t.mode, "-o", "app.bin", ".")
		cmd.Dir = dir
		cmd.Env = append(os.Environ(), "GOFLAGS=-mod=mod", "GOPROXY=off", "GOSUMDB=off", "GOTOOLCHAIN=local", "CGO_ENABLED=0")
		if t.goos != "" {
			cmd.Env = append(cmd.Env, "GOOS="+t.goos, "GOARCH="+t.goarch)
		}
		if out, err := cmd.CombinedOutput(); err != nil {
			r.Count("gobin:real:build-failed:" + t.goos + "/" + t.goarch + "/" + t.mode)
			_ = out
			continue
		}
		data, err := os.ReadFile(filepath.Join(dir, "app.bin"))
		if err != nil {
			continue
		}
		p := "usr/local/bin/realapp"
		got, res := scanGobin([]ent{{path: p, data: data, mode: 0o755}})
		r.Case(fmt.Sprintf("gobin-real %s/%s/%s", t.goos, t.goarch, t.mode), true)
		r.Count("gobin:real:built:" + t.goos + "/" + t.goarch + "/" + t.mode)
		wit := fmt.Sprintf("an executable built by %s (GOOS=%q GOARCH=%q -buildmode=%s) from module %s with %d dependencies replaced by local directories", goVersion, t.goos, t.goarch, t.mode, mod, nd)
		if res != "ok" || len(got) != len(want) {
			r.Fail("", fmt.Sprintf("gobin: %s, %d packages reported, the build lists %d: %s: %v", res, len(got), len(want), wit, got))
			continue
		}
		ok := true
		for k, w := range want {
			w.db, w.path = "go:"+p, p
			if got[k] != w {
				ok = false
				r.Fail("", fmt.Sprintf("gobin: entry %d reported as %+v, the build states %+v: %s", k, got[k], w, wit))
				break
			}
		}
		if ok {
			r.Count("gobin:real:exact")
		}
	}
}
