package c02

import (
	"bufio"
	"os"
	"path/filepath"
	"sort"
	"strings"

	"github.com/quay/claircore/verifharness/internal/hx"
)

// runCorpus replays corpus/C02/*.ops first: one protocol op per line (`#` comments), the
// minimised witnesses of the recorded findings, of the repaired defects and of model/code
// disagreements met while the model was built.
func runCorpus(r *hx.Run, dir string) {
	files, _ := filepath.Glob(filepath.Join(dir, "*.ops"))
	sort.Strings(files)
	for _, fn := range files {
		f, err := os.Open(fn)
		if err != nil {
			continue
		}
		sc := bufio.NewScanner(f)
		sc.Buffer(make([]byte, 1<<20), 1<<26)
		for sc.Scan() {
			w := strings.Fields(sc.Text())
			if len(w) < 2 || strings.HasPrefix(w[0], "#") {
				continue
			}
			b, err := hx.Unhex(w[1])
			if err != nil {
				continue
			}
			r.Count("corpus:" + w[0])
			switch w[0] {
			case "dpkg":
				opDpkg(r, b, true)
			case "mime":
				r.Op("mime "+hx.Hex(b), mimeCalls(b), true)
			case "apk":
				opApk(r, b, true)
			case "osr":
				opOsParse(r, b, true)
			case "osd":
				opOsDist(r, b)
			case "distroless":
				f := dlFile{name: "corpus", data: b}
				opDistroless(r, scanDistroless("var/lib/dpkg/status.d", []dlFile{f}, nil), "var/lib/dpkg/status.d", f, true)
			case "py":
				if len(w) == 3 {
					if file, err := hx.Unhex(w[2]); err == nil {
						opPy(r, scanPython([]ent{{path: string(b), data: file}}), string(b), file, true)
					}
				}
			}
		}
		f.Close()
	}
}
