// Package memstore is an in-memory indexer.Store that keeps real state and
// follows the SQL of datastore/postgres method by method (unique keys of the
// schema in migrations/indexer, ON CONFLICT behaviour, the queries' joins).
// Every interface method is atomic (one mutex), which is the modelling
// assumption stated in the evidence of the properties that use it: a real
// Postgres store's partial writes inside one method are out of reach.
//
// A Hook, when set, is consulted at the entry of every method. It can make the
// call fail without effect (Verdict.Err), or fail after the effect was applied
// (Verdict.Err with Commit), which is how fault scripts are injected.
//
// The package is self-contained: it depends only on claircore's public types.
package memstore

import (
	"context"
	"encoding/json"
	"errors"
	"fmt"
	"sort"
	"strconv"
	"sync"

	"github.com/quay/claircore"
	"github.com/quay/claircore/indexer"
)

// Call describes one Store method invocation to the Hook.
type Call struct {
	Method   string
	Manifest string // manifest digest, if the method has one
	Layer    string // layer digest, if the method has one
	Scanners []indexer.VersionedScanner
	Report   *claircore.IndexReport // SetIndexReport, SetIndexFinished: the argument
}

// Verdict is the Hook's decision about a call.
type Verdict struct {
	Err    error // returned to the caller when non-nil
	Commit bool  // with Err: apply the effect first ("the reply was lost"); without: skip the context check
}

// ScannerKey is the unique key of the scanner table.
type ScannerKey struct{ Name, Version, Kind string }

func KeyOf(v indexer.VersionedScanner) ScannerKey {
	return ScannerKey{v.Name(), v.Version(), v.Kind()}
}

type pkgKey struct{ Name, Version, Kind, Module, Arch string }

type pkgRow struct {
	pkgKey
	NormKind string
	Norm     claircore.Version
}

type pkgArt struct {
	Layer              string
	Pkg, Src, Scanner  int64
	DB, Hint, Filepath string
}

type distKey struct{ Name, DID, Version, VersionCodeName, VersionID, Arch, CPE, PrettyName string }

type repoKey struct{ Name, Key, URI string }

type refArt struct {
	Layer       string
	ID, Scanner int64
}

type fileKey struct{ Path, Kind string }

type idxRec struct{ Pkg, Dist, Repo int64 }

// Store implements indexer.Store.
type Store struct {
	mu   sync.Mutex
	Hook func(ctx context.Context, c Call) Verdict
	// AfterFiles, when set, is called when a FilesByLayer call has returned to
	// the point of handing its result back (the last query of the controller's
	// coalesce state): a harness that releases other goroutines "after the last
	// query" must do it here, not in Hook, which runs before the method's own
	// context check.
	AfterFiles func(ctx context.Context, c Call)

	scanners    map[ScannerKey]int64
	nextScanner int64

	manifests map[string][]string // manifest hash -> layer hashes in order
	layers    map[string]bool

	scannedLayer    map[refArt]bool // ID unused (0)
	scannedManifest map[string]map[int64]bool

	pkgs    map[pkgKey]int64
	pkgByID map[int64]*pkgRow
	nextPkg int64
	pkgArts map[pkgArt]bool

	dists    map[distKey]int64
	distByID map[int64]*claircore.Distribution
	nextDist int64
	distArts map[refArt]bool

	repos    map[repoKey]int64
	repoByID map[int64]*claircore.Repository
	nextRepo int64
	repoArts map[refArt]bool

	files    map[fileKey]int64
	fileByID map[int64]claircore.File
	nextFile int64
	fileArts map[refArt]bool

	reports map[string][]byte // JSON, as the jsonb column
	index   map[string]map[idxRec]bool

	closed bool
}

var _ indexer.Store = (*Store)(nil)

// New returns an empty store.
func New() *Store {
	return &Store{
		scanners:        map[ScannerKey]int64{},
		manifests:       map[string][]string{},
		layers:          map[string]bool{},
		scannedLayer:    map[refArt]bool{},
		scannedManifest: map[string]map[int64]bool{},
		pkgs:            map[pkgKey]int64{},
		pkgByID:         map[int64]*pkgRow{},
		pkgArts:         map[pkgArt]bool{},
		dists:           map[distKey]int64{},
		distByID:        map[int64]*claircore.Distribution{},
		distArts:        map[refArt]bool{},
		repos:           map[repoKey]int64{},
		repoByID:        map[int64]*claircore.Repository{},
		repoArts:        map[refArt]bool{},
		files:           map[fileKey]int64{},
		fileByID:        map[int64]claircore.File{},
		fileArts:        map[refArt]bool{},
		reports:         map[string][]byte{},
		index:           map[string]map[idxRec]bool{},
	}
}

// enter runs the hook and the context check every method starts with.
// It returns (proceed, errToReturn).
func (s *Store) enter(ctx context.Context, c Call) (bool, error) {
	if s.Hook != nil {
		v := s.Hook(ctx, c)
		if v.Err != nil {
			return v.Commit, v.Err
		}
		if v.Commit {
			// succeed regardless of the context (it is cancelled right after the call)
			return true, nil
		}
	}
	if err := ctx.Err(); err != nil {
		return false, err
	}
	return true, nil
}

func (s *Store) scannerID(v indexer.VersionedScanner) (int64, error) {
	id, ok := s.scanners[KeyOf(v)]
	if !ok {
		return 0, fmt.Errorf("memstore: scanner %s not found", v.Name())
	}
	return id, nil
}

func (s *Store) scannerIDs(vs indexer.VersionedScanners) ([]int64, error) {
	ids := make([]int64, len(vs))
	for i, v := range vs {
		id, err := s.scannerID(v)
		if err != nil {
			return nil, fmt.Errorf("failed to retrieve id for scanner %q: %w", v.Name(), err)
		}
		ids[i] = id
	}
	return ids, nil
}

// ---- Setter ---------------------------------------------------------------

func (s *Store) PersistManifest(ctx context.Context, manifest claircore.Manifest) error {
	ok, herr := s.enter(ctx, Call{Method: "PersistManifest", Manifest: manifest.Hash.String()})
	if !ok {
		return herr
	}
	s.mu.Lock()
	defer s.mu.Unlock()
	h := manifest.Hash.String()
	if _, seen := s.manifests[h]; !seen {
		s.manifests[h] = nil
	}
	// manifest_layer rows are unique on (manifest, layer, i): ON CONFLICT DO NOTHING
	if len(s.manifests[h]) == 0 {
		ls := make([]string, len(manifest.Layers))
		for i, l := range manifest.Layers {
			ls[i] = l.Hash.String()
		}
		s.manifests[h] = ls
	}
	for _, l := range manifest.Layers {
		s.layers[l.Hash.String()] = true
	}
	return herr
}

func (s *Store) DeleteManifests(ctx context.Context, ds ...claircore.Digest) ([]claircore.Digest, error) {
	ok, herr := s.enter(ctx, Call{Method: "DeleteManifests"})
	if !ok {
		return nil, herr
	}
	s.mu.Lock()
	defer s.mu.Unlock()
	out := make([]claircore.Digest, 0, len(ds))
	for _, d := range ds {
		h := d.String()
		ls, seen := s.manifests[h]
		if !seen {
			continue
		}
		delete(s.manifests, h)
		delete(s.scannedManifest, h) // foreign keys cascade (04-foreign-key-cascades.sql)
		delete(s.reports, h)
		delete(s.index, h)
		for _, l := range ls {
			used := false
			for _, other := range s.manifests {
				for _, ol := range other {
					if ol == l {
						used = true
					}
				}
			}
			if used {
				continue
			}
			delete(s.layers, l)
			for k := range s.scannedLayer {
				if k.Layer == l {
					delete(s.scannedLayer, k)
				}
			}
			for k := range s.pkgArts {
				if k.Layer == l {
					delete(s.pkgArts, k)
				}
			}
			for _, m := range []map[refArt]bool{s.distArts, s.repoArts, s.fileArts} {
				for k := range m {
					if k.Layer == l {
						delete(m, k)
					}
				}
			}
		}
		out = append(out, d)
	}
	return out, herr
}

func (s *Store) SetLayerScanned(ctx context.Context, hash claircore.Digest, vs indexer.VersionedScanner) error {
	ok, herr := s.enter(ctx, Call{Method: "SetLayerScanned", Layer: hash.String(), Scanners: []indexer.VersionedScanner{vs}})
	if !ok {
		return herr
	}
	s.mu.Lock()
	defer s.mu.Unlock()
	id, err := s.scannerID(vs)
	if err != nil || !s.layers[hash.String()] {
		// the sub-selects yield NULL, the primary key rejects it
		return fmt.Errorf("error setting layer scanned: null value in column violates not-null constraint")
	}
	s.scannedLayer[refArt{Layer: hash.String(), Scanner: id}] = true
	return herr
}

func (s *Store) RegisterScanners(ctx context.Context, scnrs indexer.VersionedScanners) error {
	ok, herr := s.enter(ctx, Call{Method: "RegisterScanners", Scanners: scnrs})
	if !ok {
		return herr
	}
	s.mu.Lock()
	defer s.mu.Unlock()
	for _, v := range scnrs {
		k := KeyOf(v)
		if _, seen := s.scanners[k]; !seen {
			s.nextScanner++
			s.scanners[k] = s.nextScanner
		}
	}
	return herr
}

func (s *Store) putReport(ir *claircore.IndexReport) error {
	h := ir.Hash.String()
	if _, seen := s.manifests[h]; !seen {
		return fmt.Errorf("null value in column \"manifest_id\" violates not-null constraint")
	}
	b, err := json.Marshal(ir)
	if err != nil {
		return err
	}
	s.reports[h] = b
	return nil
}

func (s *Store) SetIndexReport(ctx context.Context, ir *claircore.IndexReport) error {
	ok, herr := s.enter(ctx, Call{Method: "SetIndexReport", Manifest: ir.Hash.String(), Report: ir})
	if !ok {
		return herr
	}
	s.mu.Lock()
	defer s.mu.Unlock()
	if err := s.putReport(ir); err != nil {
		return fmt.Errorf("failed to upsert index report: %w", err)
	}
	return herr
}

func (s *Store) SetIndexFinished(ctx context.Context, ir *claircore.IndexReport, scnrs indexer.VersionedScanners) error {
	ok, herr := s.enter(ctx, Call{Method: "SetIndexFinished", Manifest: ir.Hash.String(), Scanners: scnrs, Report: ir})
	if !ok {
		return herr
	}
	s.mu.Lock()
	defer s.mu.Unlock()
	ids, err := s.scannerIDs(scnrs)
	if err != nil {
		return fmt.Errorf("failed to select package scanner id: %w", err)
	}
	h := ir.Hash.String()
	if _, seen := s.manifests[h]; !seen {
		return fmt.Errorf("failed to link manifest with scanner list: null manifest_id")
	}
	// one transaction: plain INSERTs (no ON CONFLICT) then the report upsert
	cur := s.scannedManifest[h]
	seenNow := map[int64]bool{}
	for _, id := range ids {
		if cur[id] || seenNow[id] {
			return fmt.Errorf("failed to link manifest with scanner list: duplicate key value violates unique constraint")
		}
		seenNow[id] = true
	}
	b, err := json.Marshal(ir)
	if err != nil {
		return fmt.Errorf("failed to upsert scan result: %w", err)
	}
	if cur == nil {
		cur = map[int64]bool{}
		s.scannedManifest[h] = cur
	}
	for _, id := range ids {
		cur[id] = true
	}
	s.reports[h] = b
	return herr
}

// ---- Querier --------------------------------------------------------------

func (s *Store) ManifestScanned(ctx context.Context, hash claircore.Digest, scnrs indexer.VersionedScanners) (bool, error) {
	ok, herr := s.enter(ctx, Call{Method: "ManifestScanned", Manifest: hash.String(), Scanners: scnrs})
	if !ok {
		return false, herr
	}
	s.mu.Lock()
	defer s.mu.Unlock()
	ids, err := s.scannerIDs(scnrs)
	if err != nil {
		return false, err
	}
	found := s.scannedManifest[hash.String()]
	for _, id := range ids {
		if !found[id] {
			return false, herr
		}
	}
	return true, herr
}

func (s *Store) LayerScanned(ctx context.Context, hash claircore.Digest, scnr indexer.VersionedScanner) (bool, error) {
	ok, herr := s.enter(ctx, Call{Method: "LayerScanned", Layer: hash.String(), Scanners: []indexer.VersionedScanner{scnr}})
	if !ok {
		return false, herr
	}
	s.mu.Lock()
	defer s.mu.Unlock()
	id, err := s.scannerID(scnr)
	if err != nil {
		return false, fmt.Errorf("scanner %s not found", scnr.Name())
	}
	return s.scannedLayer[refArt{Layer: hash.String(), Scanner: id}], herr
}

func (s *Store) idSet(scnrs indexer.VersionedScanners) (map[int64]bool, error) {
	set := map[int64]bool{}
	for _, v := range scnrs {
		id, err := s.scannerID(v)
		if err != nil {
			return nil, fmt.Errorf("failed to retrieve scanner ids: %w", err)
		}
		set[id] = true
	}
	return set, nil
}

func (s *Store) PackagesByLayer(ctx context.Context, hash claircore.Digest, scnrs indexer.VersionedScanners) ([]*claircore.Package, error) {
	ok, herr := s.enter(ctx, Call{Method: "PackagesByLayer", Layer: hash.String(), Scanners: scnrs})
	if !ok {
		return nil, herr
	}
	s.mu.Lock()
	defer s.mu.Unlock()
	if len(scnrs) == 0 {
		return []*claircore.Package{}, herr
	}
	set, err := s.idSet(scnrs)
	if err != nil {
		return nil, err
	}
	var arts []pkgArt
	for a := range s.pkgArts {
		if a.Layer == hash.String() && set[a.Scanner] {
			arts = append(arts, a)
		}
	}
	// SQL gives no order; sort for determinism of the harness only
	sort.Slice(arts, func(i, j int) bool {
		a, b := arts[i], arts[j]
		if a.Pkg != b.Pkg {
			return a.Pkg < b.Pkg
		}
		if a.Scanner != b.Scanner {
			return a.Scanner < b.Scanner
		}
		if a.Src != b.Src {
			return a.Src < b.Src
		}
		if a.DB != b.DB {
			return a.DB < b.DB
		}
		if a.Hint != b.Hint {
			return a.Hint < b.Hint
		}
		return a.Filepath < b.Filepath
	})
	res := []*claircore.Package{}
	for _, a := range arts {
		p := s.pkgOut(a.Pkg)
		p.Source = s.pkgOut(a.Src)
		p.Source.NormalizedVersion = claircore.Version{}
		p.PackageDB, p.RepositoryHint, p.Filepath = a.DB, a.Hint, a.Filepath
		res = append(res, p)
	}
	return res, herr
}

func (s *Store) pkgOut(id int64) *claircore.Package {
	r := s.pkgByID[id]
	p := &claircore.Package{ID: strconv.FormatInt(id, 10), Name: r.Name, Version: r.Version, Kind: r.Kind, Module: r.Module, Arch: r.Arch}
	if r.NormKind != "" {
		p.NormalizedVersion = r.Norm
		p.NormalizedVersion.Kind = r.NormKind
	}
	return p
}

func (s *Store) refsByLayer(arts map[refArt]bool, layer string, set map[int64]bool) []int64 {
	var ids []int64
	for a := range arts {
		if a.Layer == layer && set[a.Scanner] {
			// one row per (artifact, scanner): the join yields duplicates when
			// two scanners found the same thing
			ids = append(ids, a.ID)
		}
	}
	sort.Slice(ids, func(i, j int) bool { return ids[i] < ids[j] })
	return ids
}

func (s *Store) DistributionsByLayer(ctx context.Context, hash claircore.Digest, scnrs indexer.VersionedScanners) ([]*claircore.Distribution, error) {
	ok, herr := s.enter(ctx, Call{Method: "DistributionsByLayer", Layer: hash.String(), Scanners: scnrs})
	if !ok {
		return nil, herr
	}
	s.mu.Lock()
	defer s.mu.Unlock()
	if len(scnrs) == 0 {
		return []*claircore.Distribution{}, herr
	}
	set, err := s.idSet(scnrs)
	if err != nil {
		return nil, err
	}
	res := []*claircore.Distribution{}
	for _, id := range s.refsByLayer(s.distArts, hash.String(), set) {
		d := *s.distByID[id]
		d.ID = strconv.FormatInt(id, 10)
		res = append(res, &d)
	}
	return res, herr
}

func (s *Store) RepositoriesByLayer(ctx context.Context, hash claircore.Digest, scnrs indexer.VersionedScanners) ([]*claircore.Repository, error) {
	ok, herr := s.enter(ctx, Call{Method: "RepositoriesByLayer", Layer: hash.String(), Scanners: scnrs})
	if !ok {
		return nil, herr
	}
	s.mu.Lock()
	defer s.mu.Unlock()
	if len(scnrs) == 0 {
		return []*claircore.Repository{}, herr
	}
	set, err := s.idSet(scnrs)
	if err != nil {
		return nil, err
	}
	res := []*claircore.Repository{}
	for _, id := range s.refsByLayer(s.repoArts, hash.String(), set) {
		r := *s.repoByID[id]
		r.ID = strconv.FormatInt(id, 10)
		res = append(res, &r)
	}
	return res, herr
}

func (s *Store) FilesByLayer(ctx context.Context, hash claircore.Digest, scnrs indexer.VersionedScanners) ([]claircore.File, error) {
	if s.AfterFiles != nil {
		defer s.AfterFiles(ctx, Call{Method: "FilesByLayer", Layer: hash.String(), Scanners: scnrs})
	}
	ok, herr := s.enter(ctx, Call{Method: "FilesByLayer", Layer: hash.String(), Scanners: scnrs})
	if !ok {
		return nil, herr
	}
	s.mu.Lock()
	defer s.mu.Unlock()
	if len(scnrs) == 0 {
		return []claircore.File{}, herr
	}
	set, err := s.idSet(scnrs)
	if err != nil {
		return nil, err
	}
	res := []claircore.File{}
	for _, id := range s.refsByLayer(s.fileArts, hash.String(), set) {
		res = append(res, s.fileByID[id])
	}
	return res, herr
}

func (s *Store) IndexReport(ctx context.Context, hash claircore.Digest) (*claircore.IndexReport, bool, error) {
	ok, herr := s.enter(ctx, Call{Method: "IndexReport", Manifest: hash.String()})
	if !ok {
		return nil, false, herr
	}
	s.mu.Lock()
	defer s.mu.Unlock()
	b, seen := s.reports[hash.String()]
	if !seen {
		return nil, false, herr
	}
	var ir claircore.IndexReport
	if err := json.Unmarshal(b, &ir); err != nil {
		return nil, false, fmt.Errorf("failed to retrieve index report: %w", err)
	}
	return &ir, true, herr
}

func (s *Store) AffectedManifests(ctx context.Context, v claircore.Vulnerability, f claircore.CheckVulnernableFunc) ([]claircore.Digest, error) {
	return nil, errors.New("memstore: AffectedManifests is not implemented")
}

// ---- Indexer --------------------------------------------------------------

func (s *Store) internPkg(p *claircore.Package) int64 {
	k := pkgKey{p.Name, p.Version, p.Kind, p.Module, p.Arch}
	if id, ok := s.pkgs[k]; ok {
		return id
	}
	s.nextPkg++
	s.pkgs[k] = s.nextPkg
	s.pkgByID[s.nextPkg] = &pkgRow{pkgKey: k, NormKind: p.NormalizedVersion.Kind, Norm: p.NormalizedVersion}
	return s.nextPkg
}

var zeroPackage = claircore.Package{}

func (s *Store) IndexPackages(ctx context.Context, pkgs []*claircore.Package, layer *claircore.Layer, scnr indexer.VersionedScanner) error {
	ok, herr := s.enter(ctx, Call{Method: "IndexPackages", Layer: layer.Hash.String(), Scanners: []indexer.VersionedScanner{scnr}})
	if !ok {
		return herr
	}
	s.mu.Lock()
	defer s.mu.Unlock()
	sid, serr := s.scannerID(scnr)
	for _, p := range pkgs {
		src := p.Source
		if src == nil {
			src = &zeroPackage
		}
		s.internPkg(src)
		s.internPkg(p)
	}
	for _, p := range pkgs {
		if p.Name == "" {
			continue
		}
		if serr != nil || !s.layers[layer.Hash.String()] {
			return fmt.Errorf("batch insert failed for package_scanartifact: null value violates not-null constraint")
		}
		src := p.Source
		if src == nil {
			src = &zeroPackage
		}
		s.pkgArts[pkgArt{Layer: layer.Hash.String(), Pkg: s.internPkg(p), Src: s.internPkg(src), Scanner: sid,
			DB: p.PackageDB, Hint: p.RepositoryHint, Filepath: p.Filepath}] = true
	}
	return herr
}

func (s *Store) IndexDistributions(ctx context.Context, dists []*claircore.Distribution, layer *claircore.Layer, scnr indexer.VersionedScanner) error {
	ok, herr := s.enter(ctx, Call{Method: "IndexDistributions", Layer: layer.Hash.String(), Scanners: []indexer.VersionedScanner{scnr}})
	if !ok {
		return herr
	}
	s.mu.Lock()
	defer s.mu.Unlock()
	sid, serr := s.scannerID(scnr)
	for _, d := range dists {
		k := distKey{d.Name, d.DID, d.Version, d.VersionCodeName, d.VersionID, d.Arch, d.CPE.String(), d.PrettyName}
		id, seen := s.dists[k]
		if !seen {
			s.nextDist++
			id = s.nextDist
			s.dists[k] = id
			c := *d
			s.distByID[id] = &c
		}
		if serr != nil || !s.layers[layer.Hash.String()] {
			return fmt.Errorf("batch insert failed for dist_scanartifact: null value violates not-null constraint")
		}
		s.distArts[refArt{Layer: layer.Hash.String(), ID: id, Scanner: sid}] = true
	}
	return herr
}

func (s *Store) IndexRepositories(ctx context.Context, repos []*claircore.Repository, layer *claircore.Layer, scnr indexer.VersionedScanner) error {
	ok, herr := s.enter(ctx, Call{Method: "IndexRepositories", Layer: layer.Hash.String(), Scanners: []indexer.VersionedScanner{scnr}})
	if !ok {
		return herr
	}
	s.mu.Lock()
	defer s.mu.Unlock()
	sid, serr := s.scannerID(scnr)
	for _, r := range repos {
		k := repoKey{r.Name, r.Key, r.URI}
		id, seen := s.repos[k]
		if !seen {
			s.nextRepo++
			id = s.nextRepo
			s.repos[k] = id
			c := *r
			s.repoByID[id] = &c
		}
		if serr != nil || !s.layers[layer.Hash.String()] {
			return fmt.Errorf("batch insert failed for repo_scanartifact: null value violates not-null constraint")
		}
		s.repoArts[refArt{Layer: layer.Hash.String(), ID: id, Scanner: sid}] = true
	}
	return herr
}

func (s *Store) IndexFiles(ctx context.Context, files []claircore.File, layer *claircore.Layer, scnr indexer.VersionedScanner) error {
	ok, herr := s.enter(ctx, Call{Method: "IndexFiles", Layer: layer.Hash.String(), Scanners: []indexer.VersionedScanner{scnr}})
	if !ok {
		return herr
	}
	s.mu.Lock()
	defer s.mu.Unlock()
	sid, serr := s.scannerID(scnr)
	for _, f := range files {
		k := fileKey{f.Path, string(f.Kind)}
		id, seen := s.files[k]
		if !seen {
			s.nextFile++
			id = s.nextFile
			s.files[k] = id
			s.fileByID[id] = f
		}
		if serr != nil || !s.layers[layer.Hash.String()] {
			return fmt.Errorf("batch insert failed for file_scanartifact: null value violates not-null constraint")
		}
		s.fileArts[refArt{Layer: layer.Hash.String(), ID: id, Scanner: sid}] = true
	}
	return herr
}

func (s *Store) IndexManifest(ctx context.Context, ir *claircore.IndexReport) error {
	ok, herr := s.enter(ctx, Call{Method: "IndexManifest", Manifest: ir.Hash.String()})
	if !ok {
		return herr
	}
	s.mu.Lock()
	defer s.mu.Unlock()
	if ir.Hash.String() == "" {
		return fmt.Errorf("received empty hash. cannot associate contents with a manifest hash")
	}
	h := ir.Hash.String()
	recs := ir.IndexRecords()
	if len(recs) == 0 {
		return herr
	}
	if _, seen := s.manifests[h]; !seen {
		return fmt.Errorf("final batch insert failed: null manifest_id")
	}
	atoi := func(x string) int64 { n, _ := strconv.ParseInt(x, 10, 64); return n }
	set := s.index[h]
	if set == nil {
		set = map[idxRec]bool{}
		s.index[h] = set
	}
	for _, r := range recs {
		if r.Package == nil {
			continue
		}
		var d, rp int64
		if r.Distribution != nil {
			d = atoi(r.Distribution.ID)
		}
		if r.Repository != nil {
			rp = atoi(r.Repository.ID)
		}
		if r.Package.Source != nil && r.Package.Source.ID != "" {
			set[idxRec{atoi(r.Package.Source.ID), d, rp}] = true
		}
		set[idxRec{atoi(r.Package.ID), d, rp}] = true
	}
	return herr
}

func (s *Store) Close(context.Context) error {
	s.mu.Lock()
	s.closed = true
	s.mu.Unlock()
	return nil
}

// ---- inspection (for harness oracles; never used by claircore) -------------

// HasLayerScanned reports the scanned_layer row without going through the hook.
func (s *Store) HasLayerScanned(layer string, k ScannerKey) bool {
	s.mu.Lock()
	defer s.mu.Unlock()
	id, ok := s.scanners[k]
	return ok && s.scannedLayer[refArt{Layer: layer, Scanner: id}]
}

// HasManifestScanned reports the scanned_manifest row without the hook.
func (s *Store) HasManifestScanned(manifest string, k ScannerKey) bool {
	s.mu.Lock()
	defer s.mu.Unlock()
	id, ok := s.scanners[k]
	return ok && s.scannedManifest[manifest][id]
}

// StoredReport returns the persisted report of a manifest without the hook.
func (s *Store) StoredReport(manifest string) (*claircore.IndexReport, bool) {
	s.mu.Lock()
	defer s.mu.Unlock()
	b, ok := s.reports[manifest]
	if !ok {
		return nil, false
	}
	var ir claircore.IndexReport
	if json.Unmarshal(b, &ir) != nil {
		return nil, false
	}
	return &ir, true
}

// HasManifest reports whether the manifest row exists.
func (s *Store) HasManifest(manifest string) bool {
	s.mu.Lock()
	defer s.mu.Unlock()
	_, ok := s.manifests[manifest]
	return ok
}

// Counts returns the number of manifest rows, scanned_layer rows and scan
// artifact rows (all four kinds).
func (s *Store) Counts() (manifests, scannedLayers, artifacts int) {
	s.mu.Lock()
	defer s.mu.Unlock()
	return len(s.manifests), len(s.scannedLayer), len(s.pkgArts) + len(s.distArts) + len(s.repoArts) + len(s.fileArts)
}

// ManifestIndexed reports whether IndexManifest stored at least one record.
func (s *Store) ManifestIndexed(manifest string) bool {
	s.mu.Lock()
	defer s.mu.Unlock()
	return len(s.index[manifest]) > 0
}

// ArtifactNames lists, sorted, what one scanner stored for one layer:
// "p:<name>" packages, "d:<name>" distributions, "r:<name>" repositories,
// "f:<path>" files.
func (s *Store) ArtifactNames(layer string, k ScannerKey) []string {
	s.mu.Lock()
	defer s.mu.Unlock()
	id, ok := s.scanners[k]
	if !ok {
		return nil
	}
	var out []string
	for a := range s.pkgArts {
		if a.Layer == layer && a.Scanner == id {
			out = append(out, "p:"+s.pkgByID[a.Pkg].Name)
		}
	}
	for a := range s.distArts {
		if a.Layer == layer && a.Scanner == id {
			out = append(out, "d:"+s.distByID[a.ID].Name)
		}
	}
	for a := range s.repoArts {
		if a.Layer == layer && a.Scanner == id {
			out = append(out, "r:"+s.repoByID[a.ID].Name)
		}
	}
	for a := range s.fileArts {
		if a.Layer == layer && a.Scanner == id {
			out = append(out, "f:"+s.fileByID[a.ID].Path)
		}
	}
	sort.Strings(out)
	return out
}
