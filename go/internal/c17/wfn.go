package c17

// Garbage for the cpe.WFN codec that knows the two grammars: formatted
// strings with 0..14 components and quoted / unquoted specials at component
// ends, URIs with 1..9 components, packed editions with 0..8 tildes and
// percent-escapes cut short — each through UnmarshalText, Scan (string,
// []byte) and JSON, into fresh and used receivers (opWfnScan: no panic, the
// receiver unchanged on error, the value re-encodes to a text that decodes to
// the same value, and the answer is the model's); and names built by
// construction, whose bound form must decode to the name.

import (
	"encoding/json"
	"fmt"
	"strings"

	"github.com/quay/claircore"
	"github.com/quay/claircore/toolkit/types/cpe"
	"github.com/quay/claircore/verifharness/internal/hx"
)

var fsComponents = []string{
	"*", "-", "", "a", "o", "h", "x", "vendor", "1.0", "8", "product_name", "A", "a b",
	`v\\`, `\\`, `v\\\\`, `v\:`, `v\`, `\`, `a\\\:b`, `a\:b`, `x\\`, `\\x`, `foo\.bar`, `\-`, `\*`, `\?`, `big\$money`,
	"*x", "x*", "?x", "x?", "**", "??x", "x??", "*", "a*b", "é", "v\x00", "v\x7f",
}

var uriComponents = []string{
	"", "a", "o", "-", "vendor", "product", "1.0", "8", "u1", "en-us", "A", "%21", "%2", "%", "%zz", "%01", "%7e", "a%7eb", "%2A", "%02x", "a%", "a%2",
	"~", "~~", "~~~~~", "~e", "x~y", "*", "?", "a b", "é",
}

func packedEdition(rnd *hx.Rand) string {
	n := rnd.Intn(9) // 0..8 tildes
	var sb strings.Builder
	if rnd.Chance(1, 6) {
		sb.WriteString("ed") // does not start with a tilde
	}
	for i := 0; i < n; i++ {
		sb.WriteByte('~')
		sb.WriteString(rnd.Pick("", "", "ed", "sw", "tsw", "thw", "oth", "-", "%21", "%2", "extra", "A"))
	}
	return sb.String()
}

func randFSText(rnd *hx.Rand) string {
	n := rnd.Intn(15) // 0..14 components
	parts := []string{"cpe", "2.3"}
	for i := 0; i < n; i++ {
		c := fsComponents[rnd.Intn(len(fsComponents))]
		if i == 0 && rnd.Chance(2, 3) {
			c = rnd.Pick("a", "o", "h", "*", "-")
		}
		parts = append(parts, c)
	}
	return strings.Join(parts, ":")
}

func randURIText(rnd *hx.Rand) string {
	n := 1 + rnd.Intn(9) // 1..9 components
	parts := make([]string, n)
	for i := range parts {
		c := uriComponents[rnd.Intn(len(uriComponents))]
		if i == 0 && rnd.Chance(2, 3) {
			c = rnd.Pick("a", "o", "h")
		}
		if i == 5 && rnd.Chance(3, 4) {
			c = packedEdition(rnd)
		}
		parts[i] = c
	}
	return "cpe:/" + strings.Join(parts, ":")
}

// values a well-formed name may hold (no `\.` `\-` `\_`, which C19 records as not surviving the bound form)
var wfnValues = []string{
	"vendor", "product", "1\\.0", "a", `v\\`, `\\`, `a\\b`, `a\:b`, `v\:`, `big\$money`, `foo\!`, `x\\\\`, `\\\:`, "8", "en\\-us",
	"*x", "x*", "?x", "x??", "a_b",
}

func randBuiltWFN(rnd *hx.Rand) (cpe.WFN, bool) {
	var w cpe.WFN
	for i := range w.Attr {
		switch rnd.Intn(6) {
		case 0:
			w.Attr[i].Kind = cpe.ValueAny
		case 1:
			w.Attr[i].Kind = cpe.ValueNA
		case 2:
			// unset: reads back as ANY
		default:
			v := wfnValues[rnd.Intn(len(wfnValues))]
			if strings.Contains(v, `\.`) || strings.Contains(v, `\-`) {
				v = strings.NewReplacer(`\.`, "", `\-`, "").Replace(v)
			}
			if i == int(cpe.Part) {
				v = rnd.Pick("a", "o", "h")
			}
			w.Attr[i] = cpe.Value{Kind: cpe.ValueSet, V: v}
		}
	}
	return w, w.Valid() == nil
}

// opWfnJSON: the same text through encoding/json into a fresh and into a used field.
func opWfnJSON(r *hx.Run, old, text string, want string) {
	type holder struct {
		C cpe.WFN `json:"cpe"`
	}
	doc, _ := json.Marshal(map[string]string{"cpe": text})
	if !json.Valid(doc) || !strings.Contains(string(doc), "cpe") {
		return
	}
	for _, prime := range []string{"", old} {
		var h holder
		if prime != "" && h.C.UnmarshalText([]byte(prime)) != nil {
			continue
		}
		before := h.C
		out := hx.Guard(func() string {
			if err := json.Unmarshal(doc, &h); err != nil {
				if h.C != before {
					failW(r, "", fmt.Sprintf("json.Unmarshal(%s) failed and changed the WFN field from %q to %q", doc, before.String(), h.C.BindFS()))
				}
				return "err"
			}
			b, err := h.C.MarshalText()
			if err != nil {
				return "ok invalid"
			}
			return "ok " + hx.Hex(b)
		})
		if out == "panic" {
			failW(r, "", fmt.Sprintf("json.Unmarshal into a cpe.WFN field panics on %s", doc))
		}
		// JSON strings carry valid UTF-8 only; for those the answer is UnmarshalText's
		if strings.ToValidUTF8(text, "") == text && out != want {
			failW(r, "", fmt.Sprintf("json.Unmarshal(%s) into a field holding %q gives %s, UnmarshalText of the same text %s", doc, prime, out, want))
		}
		r.Case("wfn-json "+prime+" "+text, true)
	}
}

func wfnTextLine(r *hx.Run, rnd *hx.Rand, text string) {
	olds := []string{"", "cpe:2.3:o:redhat:enterprise_linux:8:*:*:*:*:*:*:*"}
	for _, old := range olds {
		for _, s := range textSrcs([]byte(text)) {
			opWfnScan(r, old, s)
		}
	}
	// what UnmarshalText says of it, for the JSON path
	want := hx.Guard(func() string {
		var w cpe.WFN
		if err := w.UnmarshalText([]byte(text)); err != nil {
			return "err"
		}
		b, err := w.MarshalText()
		if err != nil {
			return "ok invalid"
		}
		return "ok " + hx.Hex(b)
	})
	if want == "panic" {
		failW(r, "", fmt.Sprintf("cpe.WFN.UnmarshalText panics on %q", text))
		return
	}
	opWfnJSON(r, olds[1], text, want)
	// inside a report: a Package whose cpe is this text decodes or is rejected, never panics
	doc, _ := json.Marshal(map[string]interface{}{"packages": map[string]interface{}{"1": map[string]string{"id": "1", "cpe": text}}})
	if hx.Guard(func() string { json.Unmarshal(doc, &claircore.IndexReport{}); return "" }) == "panic" {
		failW(r, "", fmt.Sprintf("json.Unmarshal of an IndexReport panics on %s", doc))
	}
}

// runWFNGrammar drives the grammar-aware garbage and the built names.
func runWFNGrammar(r *hx.Run, cfg hx.Config, rnd *hx.Rand) {
	// the shapes the generators must not miss
	for _, t := range []string{
		"cpe:/a:vendor:product:1.0:u1:~ed~sw~tsw~thw~oth", "cpe:/a:vendor:product:1.0:u1:~ed~sw~tsw~thw~oth~extra", "cpe:/a:vendor:product:1.0:u1:~~~~~~~~",
		"cpe:/a:vendor:product:1.0:u1:~", "cpe:/a:vendor:product:1.0:u1:~ed", "cpe:/a:v:p:1:u:e:l:x", "cpe:/a:%2", "cpe:/a:%", "cpe:/", "cpe:/a",
		`cpe:2.3:a:v\\:p:1:*:*:*:*:*:*:*`, `cpe:2.3:a:v\\\\:p:1:*:*:*:*:*:*:*`, `cpe:2.3:a:v\:p:1:*:*:*:*:*:*:*`, `cpe:2.3:a:v\\\:p:1:*:*:*:*:*:*:*`, `cpe:2.3:a:\\:p:1:*:*:*:*:*:*:*`,
		`cpe:2.3:a:v\`, `cpe:2.3:a:v\\`, "cpe:2.3", "cpe:2.3:", "cpe:2.3:a:b:c:d:e:f:g:h:i:j:k:l:m:n",
	} {
		wfnTextLine(r, rnd, t)
	}
	for i := 0; i < cfg.N(500, 30000) && !r.Stop(); i++ {
		wfnTextLine(r, rnd, randFSText(rnd))
		wfnTextLine(r, rnd, randURIText(rnd))
		r.Count("wfn-grammar:texts")
	}
	// names built by construction: the bound form decodes to the name (unset reads back as ANY)
	for i := 0; i < cfg.N(600, 30000) && !r.Stop(); i++ {
		w, ok := randBuiltWFN(rnd)
		if !ok {
			r.Count("wfn-built:invalid")
			continue
		}
		r.Count("wfn-built:valid")
		want := w
		for k := range want.Attr {
			if want.Attr[k].Kind == cpe.ValueUnset {
				want.Attr[k].Kind = cpe.ValueAny
			}
		}
		text, err := w.MarshalText()
		if err != nil {
			failW(r, "", fmt.Sprintf("MarshalText of the valid name %#v fails: %v", w, err))
			continue
		}
		for _, prime := range []string{"", "cpe:2.3:o:redhat:enterprise_linux:8:*:*:*:*:*:*:*"} {
			out := hx.Guard(func() string {
				var got cpe.WFN
				got.UnmarshalText([]byte(prime))
				if err := got.UnmarshalText(text); err != nil {
					return "the name " + w.GoString() + " marshals to " + string(text) + " which its decoder rejects: " + err.Error()
				}
				if got != want {
					return "the name " + w.GoString() + " marshals to " + string(text) + " which decodes to " + got.GoString()
				}
				var viaScan cpe.WFN
				viaScan.UnmarshalText([]byte(prime))
				if err := viaScan.Scan(string(text)); err != nil || viaScan != want {
					return "the name " + w.GoString() + " has Value " + string(text) + " which scans to " + viaScan.GoString()
				}
				return "ok"
			})
			r.Case("wfn-built "+string(text), true)
			if out != "ok" {
				failW(r, "", out)
			}
		}
		// and the protocol sees the text too
		for _, s := range textSrcs(text) {
			opWfnScan(r, "", s)
		}
	}
}
