package c17

// The JSON form of the reports, as trees: the harness turns a tree into JSON
// text for the real decoder, re-encodes what was decoded with the real
// encoder, and prints it canonically; the Lean model (Model/ReportJson.lean)
// answers the same lines.  Valid documents come from real json.Marshal of
// reflection-filled reports; garbage is made by editing such trees.

import (
	"bytes"
	"encoding/hex"
	"encoding/json"
	"fmt"
	"reflect"
	"sort"
	"strings"
	"time"
	"unicode/utf8"

	"github.com/quay/claircore"
	"github.com/quay/claircore/verifharness/internal/hx"
)

// jv is a JSON value.
type jv struct {
	kind byte // n t f i s [ {
	n    int64
	s    []byte
	arr  []*jv
	keys [][]byte
	vals []*jv
}

func jNull() *jv          { return &jv{kind: 'n'} }
func jBool(b bool) *jv    { return &jv{kind: map[bool]byte{true: 't', false: 'f'}[b]} }
func jNum(n int64) *jv    { return &jv{kind: 'i', n: n} }
func jStr(s string) *jv   { return &jv{kind: 's', s: []byte(s)} }
func jArr(xs ...*jv) *jv  { return &jv{kind: '[', arr: xs} }
func jObj() *jv           { return &jv{kind: '{'} }
func (j *jv) set(k string, v *jv) *jv {
	j.keys = append(j.keys, []byte(k))
	j.vals = append(j.vals, v)
	return j
}

// fromAny converts a value decoded with UseNumber; object keys are sorted so
// that the tree does not depend on map iteration order.
func fromAny(x interface{}) (*jv, bool) {
	switch v := x.(type) {
	case nil:
		return jNull(), true
	case bool:
		return jBool(v), true
	case json.Number:
		n, err := v.Int64()
		if err != nil {
			return nil, false
		}
		return jNum(n), true
	case string:
		return jStr(v), true
	case []interface{}:
		out := jArr()
		for _, e := range v {
			c, ok := fromAny(e)
			if !ok {
				return nil, false
			}
			out.arr = append(out.arr, c)
		}
		return out, true
	case map[string]interface{}:
		ks := make([]string, 0, len(v))
		for k := range v {
			ks = append(ks, k)
		}
		sort.Strings(ks)
		out := jObj()
		for _, k := range ks {
			c, ok := fromAny(v[k])
			if !ok {
				return nil, false
			}
			out.set(k, c)
		}
		return out, true
	}
	return nil, false
}

func parseJSONText(b []byte) (*jv, bool) {
	dec := json.NewDecoder(bytes.NewReader(b))
	dec.UseNumber()
	var x interface{}
	if err := dec.Decode(&x); err != nil {
		return nil, false
	}
	return fromAny(x)
}

// wire renders the tree in the protocol's grammar (sorted = canonical form).
func (j *jv) wire(sb *strings.Builder, sorted bool) {
	switch j.kind {
	case 'n', 't', 'f':
		sb.WriteByte(j.kind)
	case 'i':
		fmt.Fprintf(sb, "i%d;", j.n)
	case 's':
		sb.WriteByte('s')
		sb.WriteString(hex.EncodeToString(j.s))
		sb.WriteByte(';')
	case '[':
		sb.WriteByte('[')
		for _, e := range j.arr {
			e.wire(sb, sorted)
		}
		sb.WriteByte(']')
	case '{':
		idx := make([]int, len(j.keys))
		for i := range idx {
			idx[i] = i
		}
		if sorted {
			sort.SliceStable(idx, func(a, b int) bool { return bytes.Compare(j.keys[idx[a]], j.keys[idx[b]]) < 0 })
		}
		sb.WriteByte('{')
		for _, i := range idx {
			sb.WriteString(hex.EncodeToString(j.keys[i]))
			sb.WriteByte(':')
			j.vals[i].wire(sb, sorted)
		}
		sb.WriteByte('}')
	}
}

func (j *jv) wireString(sorted bool) string {
	var sb strings.Builder
	j.wire(&sb, sorted)
	return sb.String()
}

// text renders the tree as JSON text for the real decoder.
func (j *jv) text(sb *bytes.Buffer) {
	switch j.kind {
	case 'n':
		sb.WriteString("null")
	case 't':
		sb.WriteString("true")
	case 'f':
		sb.WriteString("false")
	case 'i':
		fmt.Fprintf(sb, "%d", j.n)
	case 's':
		b, _ := json.Marshal(string(j.s))
		sb.Write(b)
	case '[':
		sb.WriteByte('[')
		for i, e := range j.arr {
			if i > 0 {
				sb.WriteByte(',')
			}
			e.text(sb)
		}
		sb.WriteByte(']')
	case '{':
		sb.WriteByte('{')
		for i := range j.keys {
			if i > 0 {
				sb.WriteByte(',')
			}
			b, _ := json.Marshal(string(j.keys[i]))
			sb.Write(b)
			sb.WriteByte(':')
			j.vals[i].text(sb)
		}
		sb.WriteByte('}')
	}
}

func (j *jv) clone() *jv {
	c := *j
	c.s = append([]byte(nil), j.s...)
	c.arr = nil
	for _, e := range j.arr {
		c.arr = append(c.arr, e.clone())
	}
	c.keys, c.vals = nil, nil
	for i := range j.keys {
		c.keys = append(c.keys, append([]byte(nil), j.keys[i]...))
		c.vals = append(c.vals, j.vals[i].clone())
	}
	return &c
}

// node is one position of a tree: the value, where it hangs, and the key it hangs under.
type node struct {
	v      *jv
	parent *jv
	idx    int
	key    string // nearest enclosing object key
}

func (j *jv) nodes(parent *jv, idx int, key string, out *[]node) {
	*out = append(*out, node{j, parent, idx, key})
	for i, e := range j.arr {
		e.nodes(j, i, key, out)
	}
	for i, e := range j.vals {
		e.nodes(j, i, string(j.keys[i]), out)
	}
}

func (n node) replace(v *jv) {
	if n.parent == nil {
		return
	}
	if n.parent.kind == '[' {
		n.parent.arr[n.idx] = v
	} else {
		n.parent.vals[n.idx] = v
	}
}

// jsType is one decodable Go type of the protocol.
type jsType struct {
	name  string
	fresh func() interface{}
}

var jsTypes = map[string]jsType{
	"ir":    {"ir", func() interface{} { return &claircore.IndexReport{} }},
	"vr":    {"vr", func() interface{} { return &claircore.VulnerabilityReport{} }},
	"vuln":  {"vuln", func() interface{} { return &claircore.Vulnerability{} }},
	"pkg":   {"pkg", func() interface{} { return &claircore.Package{} }},
	"dist":  {"dist", func() interface{} { return &claircore.Distribution{} }},
	"repo":  {"repo", func() interface{} { return &claircore.Repository{} }},
	"env":   {"env", func() interface{} { return &claircore.Environment{} }},
	"range": {"range", func() interface{} { return &claircore.Range{} }},
}

// opJS: decode the document with the real decoder into a fresh value,
// re-encode with the real encoder, print canonically.
func opJS(r *hx.Run, ty string, doc *jv, nontrivial bool) string {
	var buf bytes.Buffer
	doc.text(&buf)
	out := hx.Guard(func() string {
		v := jsTypes[ty].fresh()
		if err := json.Unmarshal(buf.Bytes(), v); err != nil {
			return "err"
		}
		b, err := json.Marshal(v)
		if err != nil {
			return "encerr"
		}
		// by value must give the same document (pointer-receiver marshalers used to be skipped)
		b2, err2 := json.Marshal(reflect.ValueOf(v).Elem().Interface())
		if err2 != nil || !bytes.Equal(b, b2) {
			failW(r, "", "json.Marshal of a "+ty+" by value differs from by pointer: "+trunc(string(b2))+" vs "+trunc(string(b)))
		}
		t, ok := parseJSONText(b)
		if !ok {
			return "unparsable"
		}
		// the decoded value must not reach into the caller's buffer (UnmarshalText is handed sub-slices of it)
		raw := buf.Bytes()
		for i := range raw {
			raw[i] ^= 0x55
		}
		if b4, _ := json.Marshal(v); !bytes.Equal(b, b4) {
			failW(r, "", "a decoded "+ty+" changed when the JSON buffer it was decoded from was overwritten: "+firstDiff(string(b), string(b4)))
		}
		// decoding what was just encoded must give the same value again
		w := jsTypes[ty].fresh()
		if err := json.Unmarshal(b, w); err != nil {
			if strings.Contains(string(b), `"manifest_hash":""`) || strings.Contains(string(b), `"introduced_in":""`) {
				failW(r, "digest-zero-value", ty+" with a zero Digest encodes to "+trunc(string(b))+" which does not decode: "+err.Error())
			} else {
				failW(r, "", "re-encoded "+ty+" does not decode: "+err.Error()+" json="+trunc(string(b)))
			}
		} else if b3, _ := json.Marshal(w); !bytes.Equal(b, b3) {
			// (compared as documents: a WFN with unset attributes legitimately reads back with ANY there, which is C19's business)
			failW(r, "", "re-encoded "+ty+" decodes to a different value: "+deepDiff(reflect.ValueOf(v), reflect.ValueOf(w), "")+" "+firstDiff(string(b), string(b3)))
		}
		return "ok " + t.wireString(true)
	})
	if out == "panic" {
		failW(r, "", "json.Unmarshal into "+ty+" panics on "+trunc(buf.String()))
	}
	r.Op("js "+ty+" "+doc.wireString(false), out, nontrivial)
	r.Count("js:" + ty + ":" + strings.SplitN(out, " ", 2)[0])
	return out
}

func canonJSON(v interface{}) string {
	b, err := json.Marshal(v)
	if err != nil {
		return "encerr"
	}
	t, ok := parseJSONText(b)
	if !ok {
		return "unparsable"
	}
	return t.wireString(true)
}

// opRecs: IndexReport.IndexRecords of the decoded document, canonically.
func opRecs(r *hx.Run, doc *jv) {
	var buf bytes.Buffer
	doc.text(&buf)
	var ir claircore.IndexReport
	out := "err"
	if err := json.Unmarshal(buf.Bytes(), &ir); err == nil {
		out = hx.Guard(func() string {
			recs := ir.IndexRecords()
			ss := make([]string, len(recs))
			for i, rec := range recs {
				ss[i] = canonJSON(rec.Package) + "|" + canonJSON(rec.Distribution) + "|" + canonJSON(rec.Repository)
			}
			sort.Strings(ss)
			return fmt.Sprintf("ok %d %s", len(recs), strings.Join(ss, ","))
		})
	}
	r.Op("recs "+doc.wireString(false), out, true)
	r.Count("recs:" + strings.SplitN(out, " ", 2)[0])
}

// ---- garbage ----

var otherKinds = []func() *jv{
	jNull, func() *jv { return jNum(5) }, func() *jv { return jNum(-1) }, func() *jv { return jBool(true) }, func() *jv { return jBool(false) },
	func() *jv { return jStr("") }, func() *jv { return jStr("x") }, func() *jv { return jArr() }, func() *jv { return jObj() },
	func() *jv { return jArr(jNull()) }, func() *jv { return jObj().set("id", jNum(1)) }, func() *jv { return jNum(9007199254740993) },
}

// nearValid edits a leaf string of a known codec into something just outside
// (or just inside) its accepted language.
func nearValid(rnd *hx.Rand, key string, s []byte) []byte {
	m := append([]byte(nil), s...)
	switch key {
	case "issued":
		// time.Time's parser is modelled by pattern only: stay within what both sides agree on
		return []byte(rnd.Pick("", "garbage", "2020-13-01T00:00:00Z", "2020-01-01 00:00:00Z", "2020-01-01T00:00:00", "2020-01-01T24:00:00Z", "2020-01-01T00:00:00.Z", "2020-01-01T00:00:60Z", "20-01-01T00:00:00Z", "2021-02-03T04:05:06.789Z", "2021-02-03T04:05:06Z"))
	case "cpe":
		return []byte(rnd.Pick("", "cpe:2.3:a", "cpe:/a:b:c", "cpe:2.3:x:*:*:*:*:*:*:*:*:*:*", "garbage", "cpe:2.3:a:b:c:d:e:f:g:h:i:j:k:l", "cpe:2.3:*:*:*:*:*:*:*:*:*:*:*", "cpe:2.3:a:v\x00:*:*:*:*:*:*:*:*:*", "cpe:2.3:a:"+strings.Repeat("v", 300)+":*:*:*:*:*:*:*:*:*"))
	}
	if len(m) == 0 {
		return []byte(rnd.Pick("x", ":", "k:", "sha256:", "Unknown", "equals"))
	}
	switch rnd.Intn(7) {
	case 0:
		m[rnd.Intn(len(m))] ^= byte(1 << rnd.Intn(7))
	case 1:
		m = m[:rnd.Intn(len(m))]
	case 2:
		m = append(m, m[len(m)-1])
	case 3:
		m[rnd.Intn(len(m))] = 0
	case 4:
		m = append(m, []byte(rnd.Pick(".1", ".99999999999999999999", "00", ":", " ", ".2147483648"))...)
	case 5:
		m = bytes.ToUpper(m)
	case 6:
		m = append(m, bytes.Repeat([]byte("9"), 40)...)
	}
	if !utf8.Valid(m) {
		return s
	}
	return m
}

func flipCase(rnd *hx.Rand, k []byte) []byte {
	m := append([]byte(nil), k...)
	for i := range m {
		if m[i] >= 'a' && m[i] <= 'z' && rnd.Chance(1, 2) {
			m[i] -= 32
		}
	}
	return m
}

var codecKeys = map[string]bool{"manifest_hash": true, "introduced_in": true, "normalized_version": true, "[": true, ")": true,
	"normalized_severity": true, "arch_op": true, "cpe": true, "issued": true}

// mutate applies one edit somewhere in the tree; it never introduces two keys
// in one object that are equal case-insensitively.
func mutate(rnd *hx.Rand, doc *jv) (*jv, string) {
	d := doc.clone()
	var ns []node
	d.nodes(nil, 0, "", &ns)
	n := ns[rnd.Intn(len(ns))]
	switch rnd.Intn(10) {
	case 0, 1: // another kind of value
		if n.parent == nil {
			return otherKinds[rnd.Intn(len(otherKinds))](), "kind-top"
		}
		if n.key == "enrichments" && n.parent.kind == '[' {
			break // a RawMessage is any value
		}
		n.replace(otherKinds[rnd.Intn(len(otherKinds))]())
		return d, "kind"
	case 2, 8, 9: // near-valid text, preferably in a leaf that has a codec of its own
		var special, plain []node
		for _, c := range ns {
			if c.v.kind == 's' && c.parent != nil {
				if codecKeys[c.key] {
					special = append(special, c)
				} else {
					plain = append(plain, c)
				}
			}
		}
		pick := special
		if len(special) == 0 || (len(plain) > 0 && rnd.Chance(1, 4)) {
			pick = plain
		}
		if len(pick) > 0 {
			c := pick[rnd.Intn(len(pick))]
			c.v.s = nearValid(rnd, c.key, c.v.s)
			return d, "text:" + c.key
		}
	case 3: // drop a key
		if n.v.kind == '{' && len(n.v.keys) > 0 {
			i := rnd.Intn(len(n.v.keys))
			n.v.keys = append(n.v.keys[:i], n.v.keys[i+1:]...)
			n.v.vals = append(n.v.vals[:i], n.v.vals[i+1:]...)
			return d, "drop-key"
		}
	case 4: // the key in another case
		if n.v.kind == '{' && len(n.v.keys) > 0 {
			i := rnd.Intn(len(n.v.keys))
			n.v.keys[i] = flipCase(rnd, n.v.keys[i])
			return d, "case-key"
		}
	case 5: // an unknown key
		if n.v.kind == '{' {
			k := rnd.Pick("unknown_key", "x", "", "ids", "Kind2", "packagess")
			for _, e := range n.v.keys {
				if strings.EqualFold(string(e), k) {
					return d, "none"
				}
			}
			n.v.set(k, otherKinds[rnd.Intn(len(otherKinds))]())
			return d, "extra-key"
		}
	case 6: // null where a value is
		if n.parent != nil {
			n.replace(jNull())
			return d, "null"
		}
	case 7: // an empty container where a container is
		if n.v.kind == '{' && n.parent != nil {
			n.replace(jObj())
			return d, "empty"
		}
		if n.v.kind == '[' && n.parent != nil {
			n.replace(jArr())
			return d, "empty"
		}
	}
	return d, "none"
}

// docOf marshals a filled value with the real encoder and parses the result.
func docOf(v interface{}) (*jv, bool) {
	b, err := json.Marshal(v)
	if err != nil {
		return nil, false
	}
	return parseJSONText(b)
}

func fillDoc(rnd *hx.Rand, ty string) (*jv, interface{}) {
	v := jsTypes[ty].fresh()
	fill(rnd, reflect.ValueOf(v).Elem(), 0)
	d, ok := docOf(v)
	if !ok {
		return nil, nil
	}
	return d, v
}

// runJSON drives the tree protocol.
func runJSON(r *hx.Run, cfg hx.Config, rnd *hx.Rand) {
	tys := []string{"ir", "vr", "vuln", "pkg", "dist", "repo", "env", "range"}
	// hand-written documents first: the shapes the generators must not miss
	hand := []struct {
		ty  string
		doc *jv
	}{
		{"ir", jNull()}, {"vr", jNull()}, {"ir", jObj()}, {"vr", jObj()}, {"ir", jArr()}, {"ir", jStr("x")}, {"ir", jNum(1)},
		{"ir", jObj().set("manifest_hash", jStr(""))},
		{"ir", jObj().set("manifest_hash", jNull()).set("packages", jObj()).set("distributions", jNull()).set("environments", jObj().set("1", jNull()).set("2", jArr()).set("3", jArr(jNull())))},
		{"ir", jObj().set("packages", jObj().set("1", jNull()))},
		{"ir", jObj().set("Packages", jObj().set("1", jObj().set("ID", jStr("1")).set("NAME", jStr("n"))))},
		{"ir", jObj().set("success", jStr("true"))}, {"ir", jObj().set("success", jBool(true)).set("err", jNull())},
		{"pkg", jObj().set("source", jObj().set("source", jObj().set("source", jNull()).set("id", jStr("3"))).set("id", jStr("2"))).set("id", jStr("1"))},
		{"pkg", jObj().set("source", jNum(1))}, {"pkg", jObj().set("normalized_version", jObj())}, {"pkg", jObj().set("normalized_version", jStr("k:1.2.3.4.5.6.7.8.9.10.11"))},
		{"pkg", jObj().set("normalized_version", jStr("nocolon"))}, {"pkg", jObj().set("cpe", jStr(""))}, {"pkg", jObj().set("cpe", jNum(0))},
		{"repo", jObj()}, {"repo", jObj().set("cpe", jNull())}, {"env", jObj().set("repository_ids", jArr(jNull(), jStr("a"), jStr("")))},
		{"env", jObj().set("repository_ids", jArr(jNum(1)))}, {"env", jObj().set("introduced_in", jStr("sha256:00"))},
		{"range", jObj().set("[", jStr("k:1")).set(")", jStr("k:2.x"))}, {"range", jObj().set("[", jStr("k:1")).set(")", jStr("k:2"))},
		{"vuln", jObj().set("normalized_severity", jStr("quals"))}, {"vuln", jObj().set("normalized_severity", jStr("Hi"))}, {"vuln", jObj().set("normalized_severity", jNum(4))},
		{"vuln", jObj().set("arch_op", jStr("quals"))}, {"vuln", jObj().set("arch_op", jStr("pattern match"))}, {"vuln", jObj().set("arch_op", jNum(1))},
		{"vuln", jObj().set("issued", jStr("2021-02-03T04:05:06.789Z")).set("range", jNull()).set("package", jObj())},
		{"vuln", jObj().set("issued", jNum(0))}, {"vuln", jObj().set("issued", jStr("garbage"))}, {"vuln", jObj().set("range", jArr())},
		{"vr", jObj().set("enrichments", jObj().set("k", jArr(jNull(), jNum(1), jStr("<&>"), jObj().set("b", jArr()).set("a", jNull())))).set("package_vulnerabilities", jObj().set("1", jNull()).set("2", jArr()).set("3", jArr(jStr("v"))))},
		{"vr", jObj().set("vulnerabilities", jObj().set("1", jNull()).set("2", jObj()))},
	}
	for _, h := range hand {
		opJS(r, h.ty, h.doc, true)
		if h.ty == "ir" {
			opRecs(r, h.doc)
		}
	}
	// IndexRecords shapes: repositories present/absent, nil pointers
	{
		pk := func(id string) *jv { return jObj().set("id", jStr(id)).set("name", jStr("n"+id)) }
		env := func(dist string, repos ...string) *jv {
			e := jObj().set("distribution_id", jStr(dist))
			if repos != nil {
				a := jArr()
				for _, x := range repos {
					a.arr = append(a.arr, jStr(x))
				}
				e.set("repository_ids", a)
			}
			return e
		}
		base := func() *jv {
			return jObj().set("manifest_hash", jStr(randDigest(rnd).String())).
				set("packages", jObj().set("1", pk("1")).set("2", pk("2")).set("k3", pk("1"))).
				set("distributions", jObj().set("d", jObj().set("id", jStr("d"))).set("dn", jNull())).
				set("repository", jObj().set("r", jObj().set("id", jStr("r"))).set("rn", jNull())).
				set("environments", jObj().set("1", jArr(env("d"), env("d", "r", "rn", "absent"), env("absent", []string{}...), env("dn", "r"))).set("2", jNull()))
		}
		opRecs(r, base())
		b := base()
		b.vals[1].set("4", jNull())
		opRecs(r, b)
		b = base()
		b.vals[4].vals[0].arr = append(b.vals[4].vals[0].arr, jNull())
		opRecs(r, b)
	}
	muts := 0
	for i := 0; i < cfg.N(260, 12000) && !r.Stop(); i++ {
		ty := tys[i%len(tys)]
		doc, _ := fillDoc(rnd, ty)
		if ty == "ir" && (i/len(tys))%2 == 1 {
			// a report whose ids refer to each other, so that IndexRecords has something to unpack
			doc, _ = docOf(coherentIR(rnd))
		}
		if doc == nil {
			failW(r, "", "json.Marshal of a filled "+ty+" failed")
			continue
		}
		opJS(r, ty, doc, true)
		if ty == "ir" {
			opRecs(r, doc)
		}
		for k := 0; k < 6; k++ {
			m, what := mutate(rnd, doc)
			if what == "none" {
				continue
			}
			if rnd.Chance(1, 4) {
				m, _ = mutate(rnd, m)
			}
			muts++
			out := opJS(r, ty, m, true)
			r.Count("mut:" + what + ":" + strings.SplitN(out, " ", 2)[0])
			if ty == "ir" && rnd.Chance(1, 2) {
				opRecs(r, m)
			}
		}
	}
	r.Notes["json_mutations"] = muts

	// by-value marshalling of every type that holds a text-marshalled field (repaired defect), and of
	// a struct holding a Duration (recorded finding: its MarshalText is on the pointer and guards nil)
	for i := 0; i < cfg.N(60, 2000) && !r.Stop(); i++ {
		var v claircore.Vulnerability
		fill(rnd, reflect.ValueOf(&v).Elem(), 0)
		byValueRoundTrip(r, "Vulnerability", v, &v, &claircore.Vulnerability{})
		var p claircore.Package
		fill(rnd, reflect.ValueOf(&p).Elem(), 0)
		byValueRoundTrip(r, "Package", p, &p, &claircore.Package{})
		var d claircore.Distribution
		fill(rnd, reflect.ValueOf(&d).Elem(), 0)
		byValueRoundTrip(r, "Distribution", d, &d, &claircore.Distribution{})
		rg := claircore.Range{Lower: randVersion(rnd), Upper: randVersion(rnd)}
		byValueRoundTrip(r, "Range", rg, &rg, &claircore.Range{})
		m := map[string]claircore.Vulnerability{"1": v}
		byValueRoundTrip(r, "map[string]Vulnerability", m, &m, &map[string]claircore.Vulnerability{})
	}
	{
		type D struct {
			D claircore.Duration `json:"d"`
		}
		x := D{D: claircore.Duration(90 * time.Minute)}
		b, _ := json.Marshal(x)
		var back D
		if err := json.Unmarshal(b, &back); err != nil || back != x {
			failW(r, "duration-value-marshal", "json.Marshal(struct{D Duration}{90m}) by value = "+string(b)+", which Duration's decoder rejects")
		}
	}
}

func byValueRoundTrip(r *hx.Run, what string, val, ptr, fresh interface{}) {
	out := hx.Guard(func() string {
		b1, err := json.Marshal(val)
		if err != nil {
			return "marshal-err " + err.Error()
		}
		b2, _ := json.Marshal(ptr)
		if !bytes.Equal(b1, b2) {
			return "by value " + trunc(string(b1)) + " by pointer " + trunc(string(b2))
		}
		if err := json.Unmarshal(b1, fresh); err != nil {
			return "unmarshal-err " + err.Error() + " json=" + trunc(string(b1))
		}
		if !reflect.DeepEqual(ptr, fresh) {
			return "not-equal json=" + trunc(string(b1))
		}
		return "ok"
	})
	r.Case("by-value "+what, true)
	if out != "ok" {
		failW(r, "", "json round trip of a "+what+" marshalled by value: "+out)
	}
}

func firstDiff(a, b string) string {
	i := 0
	for i < len(a) && i < len(b) && a[i] == b[i] {
		i++
	}
	lo := i - 80
	if lo < 0 {
		lo = 0
	}
	ha, hb := i+80, i+80
	if ha > len(a) {
		ha = len(a)
	}
	if hb > len(b) {
		hb = len(b)
	}
	return strings.ToValidUTF8("…"+a[lo:ha]+"… VS …"+b[lo:hb]+"…", "?")
}

// deepDiff names the first place two values of one type differ.
func deepDiff(a, b reflect.Value, path string) string {
	if a.Kind() != b.Kind() {
		return path + ": kinds differ"
	}
	switch a.Kind() {
	case reflect.Ptr, reflect.Interface:
		if a.IsNil() || b.IsNil() {
			if a.IsNil() != b.IsNil() {
				return path + ": nil vs non-nil"
			}
			return ""
		}
		return deepDiff(a.Elem(), b.Elem(), path)
	case reflect.Struct:
		if a.Type() == reflect.TypeOf(time.Time{}) {
			if !reflect.DeepEqual(a.Interface(), b.Interface()) {
				return fmt.Sprintf("%s: time %#v vs %#v", path, a.Interface(), b.Interface())
			}
			return ""
		}
		for i := 0; i < a.NumField(); i++ {
			if a.Type().Field(i).PkgPath != "" {
				if !reflect.DeepEqual(a.Field(i).String(), b.Field(i).String()) {
					return path + "." + a.Type().Field(i).Name + " (unexported)"
				}
				continue
			}
			if d := deepDiff(a.Field(i), b.Field(i), path+"."+a.Type().Field(i).Name); d != "" {
				return d
			}
		}
		return ""
	case reflect.Map:
		if a.IsNil() != b.IsNil() || a.Len() != b.Len() {
			return fmt.Sprintf("%s: map nil/len %v/%d vs %v/%d", path, a.IsNil(), a.Len(), b.IsNil(), b.Len())
		}
		for _, k := range a.MapKeys() {
			bv := b.MapIndex(k)
			if !bv.IsValid() {
				return fmt.Sprintf("%s[%v]: missing", path, k)
			}
			if d := deepDiff(a.MapIndex(k), bv, fmt.Sprintf("%s[%v]", path, k)); d != "" {
				return d
			}
		}
		return ""
	case reflect.Slice, reflect.Array:
		if a.Kind() == reflect.Slice && (a.IsNil() != b.IsNil()) {
			return fmt.Sprintf("%s: slice nil %v vs %v", path, a.IsNil(), b.IsNil())
		}
		if a.Len() != b.Len() {
			return fmt.Sprintf("%s: len %d vs %d", path, a.Len(), b.Len())
		}
		for i := 0; i < a.Len(); i++ {
			if d := deepDiff(a.Index(i), b.Index(i), fmt.Sprintf("%s[%d]", path, i)); d != "" {
				return d
			}
		}
		return ""
	}
	if a.CanInterface() && !reflect.DeepEqual(a.Interface(), b.Interface()) {
		return fmt.Sprintf("%s: %#v vs %#v", path, a.Interface(), b.Interface())
	}
	return ""
}
