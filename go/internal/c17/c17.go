// Package c17 checks the codecs of the public model types: protocol lines for
// the hand-written text/SQL codecs (modelled in Lean), and direct round-trip /
// no-panic oracles for everything that goes through encoding/json.
package c17

import (
	"bytes"
	"encoding/json"
	"fmt"
	"reflect"
	"strconv"
	"strings"
	"time"

	"github.com/quay/claircore"
	"github.com/quay/claircore/toolkit/types"
	"github.com/quay/claircore/toolkit/types/cpe"
	"github.com/quay/claircore/verifharness/internal/hx"
)

func slots(v [10]int32) string {
	s := make([]string, 10)
	for i, x := range v {
		s[i] = strconv.FormatInt(int64(x), 10)
	}
	return strings.Join(s, ",")
}

// ---- protocol ops against the real code ----

func opSevUn(r *hx.Run, b []byte) {
	out := hx.Guard(func() string {
		var s claircore.Severity
		if err := s.UnmarshalText(b); err != nil {
			return "err"
		}
		return fmt.Sprintf("ok %d", uint(s))
	})
	if out == "panic" {
		failW(r, "", "Severity.UnmarshalText panics on hex:"+hx.Hex(b))
	}
	r.Op("sev-un "+hx.Hex(b), out, true)
	// Scan with string and []byte must agree with UnmarshalText
	for _, v := range []interface{}{string(b), append([]byte(nil), b...)} {
		o2 := hx.Guard(func() string {
			var s claircore.Severity
			if err := s.Scan(v); err != nil {
				return "err"
			}
			return fmt.Sprintf("ok %d", uint(s))
		})
		if o2 != out {
			failW(r, "", fmt.Sprintf("Severity.Scan(%T) disagrees with UnmarshalText on hex:%s: %s vs %s", v, hx.Hex(b), o2, out))
		}
	}
}

func opArchUn(r *hx.Run, b []byte) {
	out := hx.Guard(func() string {
		var s claircore.ArchOp
		if err := s.UnmarshalText(b); err != nil {
			return "err"
		}
		return fmt.Sprintf("ok %d", uint(s))
	})
	if out == "panic" {
		failW(r, "", "ArchOp.UnmarshalText panics on hex:"+hx.Hex(b))
	}
	r.Op("arch-un "+hx.Hex(b), out, true)
	for _, v := range []interface{}{string(b), append([]byte(nil), b...)} {
		o2 := hx.Guard(func() string {
			var s claircore.ArchOp
			if err := s.Scan(v); err != nil {
				return "err"
			}
			return fmt.Sprintf("ok %d", uint(s))
		})
		if o2 != out {
			failW(r, "", fmt.Sprintf("ArchOp.Scan(%T) disagrees with UnmarshalText on hex:%s", v, hx.Hex(b)))
		}
	}
}

func opVerUn(r *hx.Run, b []byte) {
	out := hx.Guard(func() string {
		var v claircore.Version
		if err := v.UnmarshalText(b); err != nil {
			return "err"
		}
		return fmt.Sprintf("ok %s %s", hx.Hex([]byte(v.Kind)), slots(v.V))
	})
	if out == "panic" {
		failW(r, "", "Version.UnmarshalText panics on hex:"+hx.Hex(b))
	}
	if i := bytes.IndexByte(b, ':'); i >= 0 && strings.HasPrefix(out, "ok ") {
		// what is accepted is kind ":" up to ten int32 literals, and the slots are those numbers
		var v claircore.Version
		v.UnmarshalText(b)
		parts := strings.Split(string(b[i+1:]), ".")
		bad := len(parts) > 10
		for k, p := range parts {
			n, err := strconv.ParseInt(p, 10, 32)
			if err != nil || (k < 10 && int64(v.V[k]) != n) {
				bad = true
			}
		}
		if bad {
			failW(r, "", fmt.Sprintf("Version.UnmarshalText accepted %q as slots %s", b, slots(v.V)))
		}
	}
	r.Op("ver-un "+hx.Hex(b), out, true)
	// toolkit/types carries a copy of the same type and codec: same model line
	out2 := hx.Guard(func() string {
		var v types.Version
		if err := v.UnmarshalText(b); err != nil {
			return "err"
		}
		return fmt.Sprintf("ok %s %s", hx.Hex([]byte(v.Kind)), slots(v.V))
	})
	if out2 == "panic" {
		failW(r, "", "toolkit types.Version.UnmarshalText panics on hex:"+hx.Hex(b))
	}
	r.Op("ver-un "+hx.Hex(b), out2, false)
}

func opDig(r *hx.Run, b []byte) {
	out := hx.Guard(func() string {
		var d claircore.Digest
		if err := d.UnmarshalText(b); err != nil {
			return "err"
		}
		return fmt.Sprintf("ok %s %s %s", hx.Hex([]byte(d.Algorithm())), hx.Hex(d.Checksum()), hx.Hex([]byte(d.String())))
	})
	if out == "panic" {
		failW(r, "", "Digest.UnmarshalText panics on hex:"+hx.Hex(b))
	}
	r.Op("dig "+hx.Hex(b), out, true)
	// ParseDigest and Scan(string) are the same decoder
	o2 := hx.Guard(func() string {
		d, err := claircore.ParseDigest(string(b))
		if err != nil {
			return "err"
		}
		return fmt.Sprintf("ok %s %s %s", hx.Hex([]byte(d.Algorithm())), hx.Hex(d.Checksum()), hx.Hex([]byte(d.String())))
	})
	if o2 != out {
		failW(r, "", "ParseDigest disagrees with UnmarshalText on hex:"+hx.Hex(b))
	}
	o3 := hx.Guard(func() string {
		var d claircore.Digest
		if err := d.Scan(string(b)); err != nil {
			return "err"
		}
		return "ok"
	})
	if o3 == "panic" {
		failW(r, "", "Digest.Scan panics on hex:"+hx.Hex(b))
	}
}

// opDigSeq decodes two texts through ONE variable, keeping a value copy of
// the first result: Digest is passed around by value, so the copy must not
// change when the variable is decoded into again.
func opDigSeq(r *hx.Run, a, b []byte) {
	out := hx.Guard(func() string {
		var d claircore.Digest
		ea := d.UnmarshalText(a)
		cp := d
		before := append([]byte(nil), cp.Checksum()...)
		eb := d.UnmarshalText(b)
		if ea == nil && !bytes.Equal(before, cp.Checksum()) {
			// the statement: a decoded value stays equal to itself
			failW(r, "", "a Digest value changed when the variable it was copied from decoded another text: first=hex:"+hx.Hex(a)+" second=hex:"+hx.Hex(b))
		}
		sa, sb := "err", "err"
		if ea == nil {
			sa = hx.Hex(cp.Checksum()) + ":" + hx.Hex([]byte(cp.String()))
		}
		if eb == nil {
			sb = hx.Hex(d.Checksum()) + ":" + hx.Hex([]byte(d.String()))
		}
		return sa + " " + sb
	})
	r.Op("dig2 "+hx.Hex(a)+" "+hx.Hex(b), out, true)
}

// opVerSeq decodes two texts into one receiver (UnmarshalText mutates it).
func opVerSeq(r *hx.Run, a, b []byte) {
	out := hx.Guard(func() string {
		var v claircore.Version
		if err := v.UnmarshalText(a); err != nil {
			return "err1"
		}
		cp := v
		if err := v.UnmarshalText(b); err != nil {
			return "err2"
		}
		return fmt.Sprintf("ok %s %s %s %s", hx.Hex([]byte(cp.Kind)), slots(cp.V), hx.Hex([]byte(v.Kind)), slots(v.V))
	})
	r.Op("ver-un2 "+hx.Hex(a)+" "+hx.Hex(b), out, true)
}

// ---- generators ----

func randBytes(rnd *hx.Rand, alphabet string, n int) []byte {
	b := make([]byte, n)
	for i := range b {
		if alphabet == "" {
			b[i] = byte(rnd.Intn(256))
		} else {
			b[i] = alphabet[rnd.Intn(len(alphabet))]
		}
	}
	return b
}

func randInt32(rnd *hx.Rand) int32 {
	switch rnd.Intn(8) {
	case 0:
		return 0
	case 1:
		return 2147483647
	case 2:
		return -2147483648
	case 3:
		return int32(rnd.Intn(10))
	case 4:
		return -int32(rnd.Intn(1000))
	default:
		return int32(rnd.U64())
	}
}

func randKind(rnd *hx.Rand) string {
	ks := []string{"semver", "pep440", "gem", "maven", "rhctag", "k", "rpm", "üñï", "a b", "x.y", "with-dash_1"}
	return ks[rnd.Intn(len(ks))]
}

func randVersion(rnd *hx.Rand) claircore.Version {
	var v claircore.Version
	v.Kind = randKind(rnd)
	n := rnd.Intn(11)
	for i := 0; i < n; i++ {
		v.V[rnd.Intn(10)] = randInt32(rnd)
	}
	return v
}

func randDigest(rnd *hx.Rand) claircore.Digest {
	algo, sz := claircore.SHA256, 32
	if rnd.Chance(1, 3) {
		algo, sz = claircore.SHA512, 64
	}
	sum := randBytes(rnd, "", sz)
	d, err := claircore.NewDigest(algo, sum)
	if err != nil {
		// the statement quantifies over every constructible digest: a checksum of the algorithm's size must construct
		if curRun != nil {
			failW(curRun, "", fmt.Sprintf("NewDigest(%q, %d bytes) fails: %v", algo, sz, err))
		}
		d, _ = claircore.NewDigest(claircore.SHA256, sum[:32])
	}
	return d
}

// curRun lets the generators report a value that cannot even be constructed.
var curRun *hx.Run

var strPool = []string{"", "a", "openssl", "1.0.2k-fips", "héllo wörld", "日本語", "with \"quotes\" and \\ backslash", "tab\tnewline\n", "<html>&amp;", "  ", "NULL", "0", strings.Repeat("x", 300)}

func randString(rnd *hx.Rand) string { return strPool[rnd.Intn(len(strPool))] }

func randCPE(rnd *hx.Rand) cpe.WFN {
	if rnd.Chance(1, 3) {
		return cpe.WFN{}
	}
	pool := []string{
		"cpe:2.3:o:redhat:enterprise_linux:8:*:*:*:*:*:*:*",
		"cpe:2.3:a:vendor:product:1.0:*:*:*:*:*:*:*",
		"cpe:2.3:a:foo\\:bar:big\\$money:2010:*:*:*:special:ipod_touch:80gb:*",
		"cpe:2.3:*:*:*:*:*:*:*:*:*:*:*",
		"cpe:2.3:a:-:-:-:-:-:-:-:-:-:-",
	}
	w, err := cpe.UnbindFS(pool[rnd.Intn(len(pool))])
	if err != nil {
		panic(err)
	}
	return w
}

var notCarried = map[string]bool{"IndexReport.Files": true, "Package.PackageDB": true, "Package.Filepath": true, "Package.RepositoryHint": true}

// fill sets v (settable) to a random value of its type, honouring the
// invariants of the special types and leaving `json:"-"` fields zero.
func fill(rnd *hx.Rand, v reflect.Value, depth int) {
	switch x := v.Addr().Interface().(type) {
	case *claircore.Digest:
		*x = randDigest(rnd)
		return
	case *claircore.Version:
		if rnd.Chance(1, 4) {
			*x = claircore.Version{}
		} else {
			*x = randVersion(rnd)
		}
		return
	case *claircore.Severity:
		*x = claircore.Severity(rnd.Intn(6))
		return
	case *claircore.ArchOp:
		*x = claircore.ArchOp(rnd.Intn(4))
		return
	case *cpe.WFN:
		*x = randCPE(rnd)
		return
	case *time.Time:
		// days up to the 28th: the model of time.Time's text form does not know month lengths
		ns := 0
		switch rnd.Intn(3) {
		case 1:
			ns = rnd.Intn(1000) * 1000000
		case 2:
			ns = rnd.Intn(1000000000)
		}
		*x = time.Date(1+rnd.Intn(9998), time.Month(1+rnd.Intn(12)), 1+rnd.Intn(28), rnd.Intn(24), rnd.Intn(60), rnd.Intn(60), ns, time.UTC)
		if rnd.Chance(1, 6) {
			*x = time.Time{}
		}
		return
	case *json.RawMessage:
		*x = json.RawMessage(`{"k":[1,2,{"z":null}]}`)
		return
	}
	switch v.Kind() {
	case reflect.String:
		v.SetString(randString(rnd))
	case reflect.Bool:
		v.SetBool(rnd.Chance(1, 2))
	case reflect.Int, reflect.Int64, reflect.Int32:
		v.SetInt(int64(int32(rnd.U64())))
	case reflect.Uint, reflect.Uint64:
		v.SetUint(rnd.U64() % 6)
	case reflect.Ptr:
		if depth > 3 || rnd.Chance(1, 4) {
			return // nil
		}
		p := reflect.New(v.Type().Elem())
		fill(rnd, p.Elem(), depth+1)
		v.Set(p)
	case reflect.Slice:
		if rnd.Chance(1, 5) {
			return // nil
		}
		n := 1 + rnd.Intn(3)
		s := reflect.MakeSlice(v.Type(), n, n)
		for i := 0; i < n; i++ {
			fill(rnd, s.Index(i), depth+1)
		}
		v.Set(s)
	case reflect.Map:
		if rnd.Chance(1, 5) {
			return
		}
		n := rnd.Intn(4)
		if rnd.Chance(1, 20) {
			n = 200
		}
		m := reflect.MakeMap(v.Type())
		for i := 0; i < n; i++ {
			k := reflect.New(v.Type().Key()).Elem()
			k.SetString(fmt.Sprintf("%d", i))
			e := reflect.New(v.Type().Elem()).Elem()
			fill(rnd, e, depth+1)
			// a nil pointer element marshals as null and decodes as nil: fine
			m.SetMapIndex(k, e)
		}
		v.Set(m)
	case reflect.Struct:
		t := v.Type()
		for i := 0; i < t.NumField(); i++ {
			f := t.Field(i)
			// what JSON does not carry is fixed here (not read from the tags): hiding one more field is a loss
			if f.PkgPath != "" || notCarried[t.Name()+"."+f.Name] {
				continue
			}
			fill(rnd, v.Field(i), depth+1)
		}
	}
}

// jsonRoundTrip: marshal, unmarshal into a fresh value, compare deeply.
func jsonRoundTrip(r *hx.Run, what string, orig interface{}, fresh interface{}) {
	out := hx.Guard(func() string {
		b, err := json.Marshal(orig)
		if err != nil {
			return "marshal-err " + err.Error()
		}
		if err := json.Unmarshal(b, fresh); err != nil {
			return "unmarshal-err " + err.Error() + " json=" + trunc(string(b))
		}
		if !reflect.DeepEqual(orig, fresh) {
			b2, _ := json.Marshal(fresh)
			return "not-equal json1=" + trunc(string(b)) + " json2=" + trunc(string(b2))
		}
		return "ok"
	})
	r.Case(what, true)
	if out != "ok" {
		failW(r, "", "json round trip of "+what+": "+out)
	}
}

// trunc shortens a witness; the result is valid UTF-8 (a cut may fall inside a rune).
func trunc(s string) string {
	if len(s) > 400 {
		s = s[:400] + "…"
	}
	return strings.ToValidUTF8(s, "?")
}

// Run is the harness entry point for C17.
func Run(cfg hx.Config) error {
	r, err := hx.NewRun(cfg)
	if err != nil {
		return err
	}
	r.Rule = "protocol lines: every enum member, every substring of the stringer name tables, all strings up to length 2 over the table alphabets, generated/mutated version and digest texts, arbitrary bytes; oracle cases: JSON/text/SQL round trips of generated values of every public model type (reflection-filled, special types valid); a case is non-trivial when distinct by its text"
	rnd := hx.NewRand(cfg.Seed)
	curRun = r
	r.Op("reset", "ok", false)

	// --- enums: members
	for n := 0; n < 8; n++ {
		out := "none"
		if n < 6 {
			s := claircore.Severity(n)
			b, _ := s.MarshalText()
			out = hx.Hex(b)
			var back claircore.Severity
			if err := back.UnmarshalText(b); err != nil || back != s {
				failW(r, "", fmt.Sprintf("Severity %d does not round-trip through text", n))
			}
			val, _ := s.Value()
			var back2 claircore.Severity
			if err := back2.Scan(val); err != nil || back2 != s {
				failW(r, "", fmt.Sprintf("Severity %d does not round-trip through Value/Scan", n))
			}
			jb, _ := json.Marshal(&s)
			var back3 claircore.Severity
			if err := json.Unmarshal(jb, &back3); err != nil || back3 != s {
				failW(r, "", fmt.Sprintf("Severity %d does not round-trip through JSON", n))
			}
		}
		r.Op(fmt.Sprintf("sev-m %d", n), out, true)
		out = "none"
		if n < 4 {
			s := claircore.ArchOp(n)
			b, _ := s.MarshalText()
			out = hx.Hex(b)
			var back claircore.ArchOp
			if err := back.UnmarshalText(b); err != nil || back != s {
				failW(r, "", fmt.Sprintf("ArchOp %d does not round-trip through text", n))
			}
			val, _ := s.Value()
			var back2 claircore.ArchOp
			if err := back2.Scan(val); err != nil || back2 != s {
				failW(r, "", fmt.Sprintf("ArchOp %d does not round-trip through Value/Scan", n))
			}
		}
		r.Op(fmt.Sprintf("arch-m %d", n), out, true)
	}
	for _, v := range []int64{-9223372036854775808, -2, -1, 0, 1, 2, 3, 4, 5, 6, 7, 100, 9223372036854775807} {
		out := hx.Guard(func() string {
			var s claircore.Severity
			if err := s.Scan(v); err != nil {
				return "err"
			}
			return fmt.Sprintf("ok %d", uint64(s))
		})
		r.Op(fmt.Sprintf("sev-scanint %d", v), out, true)
		out = hx.Guard(func() string {
			var s claircore.ArchOp
			if err := s.Scan(v); err != nil {
				return "err"
			}
			return fmt.Sprintf("ok %d", uint64(s))
		})
		r.Op(fmt.Sprintf("arch-scanint %d", v), out, true)
	}
	// other Scan source types: error, never panic
	for _, v := range []interface{}{nil, 3.5, true, time.Time{}, []int{1}} {
		for _, f := range []func() error{
			func() error { var s claircore.Severity; return s.Scan(v) },
			func() error { var s claircore.ArchOp; return s.Scan(v) },
			func() error { var s claircore.Digest; return s.Scan(v) },
		} {
			if hx.Guard(func() string { f(); return "ok" }) == "panic" {
				failW(r, "", fmt.Sprintf("Scan(%T) panics", v))
			}
			r.Case(fmt.Sprintf("scan-other %T", v), true)
		}
	}

	// --- enums: every substring of the tables, all short strings, random
	sevName := "UnknownNegligibleLowMediumHighCritical"
	archName := "invalidequalsnot equalspattern match"
	for _, name := range []string{sevName, archName} {
		for i := 0; i <= len(name); i++ {
			for j := i; j <= len(name); j++ {
				opSevUn(r, []byte(name[i:j]))
				opArchUn(r, []byte(name[i:j]))
			}
		}
	}
	r.Count("enum:substrings-of-both-tables")
	alpha := "UnkowNegliLMdumHhCrtcavqsp "
	for _, a := range alpha {
		opSevUn(r, []byte(string(a)))
		opArchUn(r, []byte(string(a)))
		for _, b := range alpha {
			opSevUn(r, []byte(string(a)+string(b)))
			opArchUn(r, []byte(string(a)+string(b)))
		}
	}
	for i := 0; i < cfg.N(2000, 200000); i++ {
		var b []byte
		switch rnd.Intn(4) {
		case 0:
			b = randBytes(rnd, "", rnd.Intn(6))
		case 1:
			b = randBytes(rnd, alpha, 1+rnd.Intn(12))
		default:
			// a table substring with one edit
			name := sevName
			if rnd.Chance(1, 2) {
				name = archName
			}
			i0 := rnd.Intn(len(name))
			j0 := i0 + rnd.Intn(len(name)-i0+1)
			b = []byte(name[i0:j0])
			if len(b) > 0 && rnd.Chance(1, 2) {
				b[rnd.Intn(len(b))] ^= byte(1 << rnd.Intn(7))
			}
		}
		opSevUn(r, b)
		opArchUn(r, b)
	}

	// --- Version text codec
	knownColon := false
	knownEmpty := false
	for i := 0; i < cfg.N(3000, 300000); i++ {
		v := randVersion(rnd)
		if rnd.Chance(1, 30) {
			v.Kind = ""
		}
		if rnd.Chance(1, 30) {
			v.Kind = "a:b"
		}
		b, _ := v.MarshalText()
		r.Op(fmt.Sprintf("ver-m %s %s", hx.Hex([]byte(v.Kind)), slots(v.V)), hx.Hex(b), true)
		r.Op("ver-s "+slots(v.V), hx.Hex([]byte(v.String())), true)
		tv := types.Version{Kind: v.Kind, V: v.V}
		tb, _ := tv.MarshalText()
		r.Op(fmt.Sprintf("ver-m %s %s", hx.Hex([]byte(v.Kind)), slots(v.V)), hx.Hex(tb), false)
		r.Op("ver-s "+slots(v.V), hx.Hex([]byte(tv.String())), false)
		opVerUn(r, b)
		// the statement: text round trip
		var back claircore.Version
		err := back.UnmarshalText(b)
		if err != nil || back != v {
			switch {
			case strings.Contains(v.Kind, ":"):
				knownColon = true
				failW(r, "version-kind-colon", fmt.Sprintf("kind=%q slots=%s", v.Kind, slots(v.V)))
			case v.Kind == "" && v.V != [10]int32{}:
				knownEmpty = true
				failW(r, "version-empty-kind", fmt.Sprintf("kind=\"\" slots=%s", slots(v.V)))
			default:
				failW(r, "", fmt.Sprintf("Version text round trip kind=%q slots=%s err=%v", v.Kind, slots(v.V), err))
			}
		}
		// mutated texts into the decoder
		if len(b) > 0 {
			m := append([]byte(nil), b...)
			switch rnd.Intn(5) {
			case 0:
				m[rnd.Intn(len(m))] = byte(rnd.Intn(256))
			case 1:
				m = append(m, []byte(".1.2.3")[:rnd.Intn(7)]...)
			case 2:
				m = m[:rnd.Intn(len(m))]
			case 3:
				m = append(m, '.')
				m = append(m, []byte(strconv.FormatInt(int64(rnd.U64()>>rnd.Intn(40)), 10))...)
			case 4:
				m = bytes.Replace(m, []byte("."), []byte(rnd.Pick("..", ".+", ".-", ".0x", "._", ". ")), 1)
			}
			opVerUn(r, m)
			b2, _ := func() ([]byte, error) { w := randVersion(rnd); return w.MarshalText() }()
			if rnd.Chance(1, 3) {
				b2 = b2[:len(b2)-rnd.Intn(1+len(b2)/2)] // fewer components: old slots stay
			}
			opVerSeq(r, b, b2)
			opVerSeq(r, b, m)
		}
	}
	_ = knownColon
	_ = knownEmpty
	for _, s := range []string{"", ":", "k:", "k:1", "k:1.2.3.4.5.6.7.8.9.10", "k:1.2.3.4.5.6.7.8.9.10.11", "k:1.2.3.4.5.6.7.8.9.10.11.12.13", "k:2147483647", "k:2147483648", "k:-2147483648", "k:-2147483649", "k:+5", "k:-0", "k:1_0", "k:0x10", "k:99999999999999999999999", "k:1..2", "::", "k:1:2", "nocolon", "k:.", "k: 1"} {
		opVerUn(r, []byte(s))
	}
	r.Count("version:edge-texts")

	// --- Digest
	for i := 0; i < cfg.N(2000, 100000); i++ {
		d := randDigest(rnd)
		t := []byte(d.String())
		opDig(r, t)
		back, err := claircore.ParseDigest(d.String())
		if err != nil || back.String() != d.String() || !bytes.Equal(back.Checksum(), d.Checksum()) || back.Algorithm() != d.Algorithm() {
			failW(r, "", "Digest text round trip "+d.String())
		}
		val, _ := d.Value()
		var back2 claircore.Digest
		if err := back2.Scan(val); err != nil || back2.String() != d.String() {
			failW(r, "", "Digest Value/Scan round trip "+d.String())
		}
		m := append([]byte(nil), t...)
		switch rnd.Intn(6) {
		case 0:
			m[rnd.Intn(len(m))] = byte(rnd.Intn(256))
		case 1:
			m = m[:rnd.Intn(len(m))]
		case 2:
			m = append(m, randBytes(rnd, "0123456789abcdef", 1+rnd.Intn(3))...)
		case 3:
			m = bytes.ToUpper(m)
		case 4:
			m = bytes.Replace(m, []byte("sha"), []byte(rnd.Pick("SHA", "md5", "", "sha1:", "sha256:")), 1)
		case 5:
			m = append([]byte(nil), t[bytes.IndexByte(t, ':'):]...)
		}
		opDig(r, m)
		d2 := randDigest(rnd)
		opDigSeq(r, t, []byte(d2.String()))
		if rnd.Chance(1, 4) {
			opDigSeq(r, t, m)
		}
	}
	for _, s := range []string{"", ":", "sha256:", "sha512:", "sha256", "sha256:zz", "sha256:0", "sha256:00", ":00", "sha384:" + strings.Repeat("0", 96), "sha256:" + strings.Repeat("A", 64), "sha256:" + strings.Repeat("a", 63), "sha256:" + strings.Repeat("a", 65), "sha512:" + strings.Repeat("f", 128), "sha256:" + strings.Repeat("f", 128)} {
		opDig(r, []byte(s))
	}
	for i := 0; i < cfg.N(1000, 50000); i++ {
		opDig(r, randBytes(rnd, "sha2561:0af", rnd.Intn(80)))
		opVerUn(r, randBytes(rnd, "k:.-+0123456789", rnd.Intn(40)))
	}
	runSQL(r, cfg, rnd)
	runWFN(r, cfg, rnd)
	runWFNGrammar(r, cfg, rnd)
	runDuration(r, cfg, rnd)
	runEncodeAliasing(r, cfg, rnd)
	runReceiverIndependence(r, cfg, rnd)
	runJSON(r, cfg, rnd)
	runScan(r, cfg, rnd)
	// the zero Digest (recorded finding): it prints as "" which its own decoder rejects
	{
		var z claircore.Digest
		b, _ := json.Marshal(z)
		var back claircore.Digest
		if err := json.Unmarshal(b, &back); err != nil {
			failW(r, "digest-zero-value", "json.Marshal(Digest{}) = "+string(b)+" which json.Unmarshal rejects: "+err.Error())
		}
	}

	// --- JSON round trips of the report types and everything inside them
	for i := 0; i < cfg.N(400, 20000) && !r.Stop(); i++ {
		switch i % 8 {
		case 0:
			var x claircore.IndexReport
			fill(rnd, reflect.ValueOf(&x).Elem(), 0)
			jsonRoundTrip(r, "IndexReport", &x, &claircore.IndexReport{})
		case 1:
			var x claircore.VulnerabilityReport
			fill(rnd, reflect.ValueOf(&x).Elem(), 0)
			jsonRoundTrip(r, "VulnerabilityReport", &x, &claircore.VulnerabilityReport{})
		case 2:
			var x claircore.Vulnerability
			fill(rnd, reflect.ValueOf(&x).Elem(), 0)
			jsonRoundTrip(r, "Vulnerability", &x, &claircore.Vulnerability{})
		case 3:
			var x claircore.Package
			fill(rnd, reflect.ValueOf(&x).Elem(), 0)
			jsonRoundTrip(r, "Package", &x, &claircore.Package{})
		case 4:
			var x claircore.Range
			x.Lower, x.Upper = randVersion(rnd), randVersion(rnd)
			jsonRoundTrip(r, "Range", &x, &claircore.Range{})
		case 5:
			var x claircore.Distribution
			fill(rnd, reflect.ValueOf(&x).Elem(), 0)
			jsonRoundTrip(r, "Distribution", &x, &claircore.Distribution{})
		case 6:
			var x claircore.Environment
			fill(rnd, reflect.ValueOf(&x).Elem(), 0)
			jsonRoundTrip(r, "Environment", &x, &claircore.Environment{})
		case 7:
			type D struct {
				D claircore.Duration `json:"d"`
			}
			x := D{D: claircore.Duration(time.Duration(int64(rnd.U64() >> uint(1+rnd.Intn(40)))))}
			if rnd.Chance(1, 2) {
				x.D = -x.D
			}
			jsonRoundTrip(r, "Duration", &x, &D{})
		}
	}
	// arbitrary JSON-ish documents into the report decoders: error or value, never panic
	docs := []string{`{}`, `null`, `[]`, `{"manifest_hash":5}`, `{"manifest_hash":"sha256:00"}`, `{"packages":{"1":{"normalized_version":"k:1.2.3.4.5.6.7.8.9.10.11"}}}`,
		`{"packages":{"1":{"cpe":"cpe:2.3:a"}}}`, `{"vulnerabilities":{"1":{"normalized_severity":"quals"}}}`, `{"vulnerabilities":{"1":{"arch_op":"quals"}}}`,
		`{"vulnerabilities":{"1":{"normalized_severity":"nknown"}}}`, `{"vulnerabilities":{"1":{"range":{"[":"k:1",")":"k:2.x"}}}}`, `{"environments":{"1":[{"introduced_in":"sha256:zz"}]}}`}
	for _, d := range docs {
		for _, f := range []func() error{
			func() error { return json.Unmarshal([]byte(d), &claircore.IndexReport{}) },
			func() error { return json.Unmarshal([]byte(d), &claircore.VulnerabilityReport{}) },
		} {
			if hx.Guard(func() string { f(); return "ok" }) == "panic" {
				failW(r, "", "report decoder panics on "+d)
			}
			r.Case("doc "+d, true)
		}
	}
	return r.Close()
}

// failW reports a failure with a witness that fits on one valid UTF-8 line.
func failW(r *hx.Run, class, witness string) {
	witness = strings.ToValidUTF8(witness, "?")
	witness = strings.NewReplacer("\n", `\n`, "\r", `\r`).Replace(witness)
	r.Fail(class, witness)
}
