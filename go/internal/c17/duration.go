package c17

// duration.go: claircore.Duration text form against the Lean model of
// time.Duration.String / time.ParseDuration.

import (
	"fmt"
	"math"
	"strconv"
	"time"

	"github.com/quay/claircore"
	"github.com/quay/claircore/verifharness/internal/hx"
)

func opDurM(r *hx.Run, d int64) []byte {
	x := claircore.Duration(d)
	var text []byte
	out := hx.Guard(func() string {
		b, err := (&x).MarshalText()
		if err != nil {
			return "err"
		}
		text = b
		return hx.Hex(b)
	})
	r.Op("dur-m "+strconv.FormatInt(d, 10), out, true)
	// the statement: text round trip of every value
	var back claircore.Duration = 12345
	if err := back.UnmarshalText(text); err != nil || back != x {
		failW(r, "", fmt.Sprintf("Duration %d marshals to %q which decodes to %d (err=%v)", d, text, int64(back), err))
	}
	return text
}

func opDurUn(r *hx.Run, old int64, t []byte) {
	out := hx.Guard(func() string {
		x := claircore.Duration(old)
		buf := append([]byte(nil), t...)
		if err := x.UnmarshalText(buf); err != nil {
			if int64(x) != old {
				failW(r, "", fmt.Sprintf("Duration.UnmarshalText(%q) failed and changed its receiver from %d to %d", t, old, int64(x)))
			}
			return "err " + strconv.FormatInt(int64(x), 10)
		}
		return "ok " + strconv.FormatInt(int64(x), 10)
	})
	if out == "panic" {
		failW(r, "", "Duration.UnmarshalText panics on hex:"+hx.Hex(t))
	}
	r.Op("dur-un "+strconv.FormatInt(old, 10)+" "+hx.Hex(t), out, true)
	r.Count("dur-un:" + out[:2])
}

func randDur(rnd *hx.Rand) int64 {
	var d int64
	switch rnd.Intn(10) {
	case 0:
		d = int64(rnd.Intn(1000))
	case 1:
		d = int64(rnd.Intn(1000000))
	case 2:
		d = int64(rnd.Intn(1000000000))
	case 3:
		d = int64(rnd.Intn(3600)) * int64(time.Second)
	case 4:
		d = int64(rnd.Intn(100000)) * int64(time.Minute)
	case 5:
		d = int64(rnd.Intn(2562047)) * int64(time.Hour)
	case 6:
		d = int64(rnd.Intn(1000)) * int64(rnd.Pick("\x01", "\x0a", "\x64")[0]) * 1000000
	case 7:
		d = math.MaxInt64 - int64(rnd.Intn(1000))
	default:
		d = int64(rnd.U64() >> uint(1+rnd.Intn(62)))
	}
	if rnd.Chance(1, 3) {
		d = -d
	}
	return d
}

func runDuration(r *hx.Run, cfg hx.Config, rnd *hx.Rand) {
	edge := []int64{0, 1, -1, 999, 1000, 1001, 999999, 1000000, 1000001, 999999999, 1000000000, 1000000001, 1500000000, 59999999999, 60000000000, 60000000001,
		3599999999999, 3600000000000, 3600000000001, 90 * 60 * 1000000000, math.MaxInt64, math.MinInt64, math.MinInt64 + 1, math.MaxInt64 - 1, 100, 1010, 1100000, 10000000000, 600000000000}
	for _, d := range edge {
		t := opDurM(r, d)
		opDurUn(r, 7, t)
	}
	for _, s := range []string{"", "0", "+0", "-0", "-", "+", "0s", "1", "1s", "1.s", ".s", "-.s", ".5s", "1.5h", "1h1h", "1h2m3s4ms5us6ns", "1µs", "1μs", "1us", "1\xb5s", "1 s", "1S", "1d", "1.0000000000000000000001s", "0.000000001s",
		"9223372036854775807ns", "9223372036854775808ns", "-9223372036854775808ns", "-9223372036854775809ns", "9223372036854775808ns9223372036854775808ns", "-9223372036854775808ns9223372036854775808ns",
		"2562047h47m16.854775807s", "2562047h47m16.854775808s", "-2562047h47m16.854775808s", "2562048h", "9223372036.854775807s", "9223372036.854775808s", "0.9223372036854775808s", "0.9223372036854775807s",
		"1.99999999999999999999h", "0.3h", "0.1h", "0.7m", "1e3s", "0x1s", "1_0s", "１s", "1s\x00", "\x001s", "1.5", "1h-2m", "--1s", "+-1s", "1.5.5s", "3600000000001ns", "100000000000000000000s", "0.00000000000000000000000001h",
		"1.234567891234h", "0.123456789123456789h", "7.7777777777777777m", "99999.99999999999h"} {
		opDurUn(r, 7, []byte(s))
	}
	for i := 0; i < cfg.N(3000, 200000); i++ {
		d := randDur(rnd)
		t := opDurM(r, d)
		m := append([]byte(nil), t...)
		switch rnd.Intn(8) {
		case 0:
			m[rnd.Intn(len(m))] = byte(rnd.Intn(256))
		case 1:
			m = m[:rnd.Intn(len(m))]
		case 2:
			m = append(m, []byte(rnd.Pick("1s", ".5h", "0", "h", "ms", "5", "µs", "1.5m"))...)
		case 3:
			m[rnd.Intn(len(m))] = byte(rnd.Pick(".", "h", "m", "s", "0", "9", "-", "u", "n")[0])
		case 4:
			// a long fraction in front of a unit: the float path
			m = []byte(strconv.FormatInt(int64(rnd.Intn(3000000)), 10) + "." + strconv.FormatUint(rnd.U64()>>uint(rnd.Intn(50)), 10) + rnd.Pick("h", "m", "s", "ms", "us", "ns"))
		case 5:
			m = append([]byte(rnd.Pick("+", "-", "0", "00")), m...)
		}
		opDurUn(r, randDur(rnd), m)
	}
}
