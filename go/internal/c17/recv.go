package c17

// Receiver independence: decoding an accepted text into a receiver that has
// already decoded another accepted text gives the same value as decoding it
// into a fresh receiver (row loops and json.Decoder reuse one variable) — and,
// for a text the encoder produced, the encoded value.

import (
	"bytes"
	"encoding/json"
	"fmt"
	"reflect"
	"strconv"

	"github.com/quay/claircore"
	"github.com/quay/claircore/toolkit/types"
	"github.com/quay/claircore/toolkit/types/cpe"
	"github.com/quay/claircore/verifharness/internal/hx"
)

// decoderUnderTest decodes src into a receiver that first decoded prime (nil = fresh receiver).
// It returns the observation of the receiver and whether both calls returned nil.
type decoderUnderTest struct {
	name string
	run  func(prime, src interface{}) (string, bool)
}

func textOf(x interface{}) []byte {
	switch v := x.(type) {
	case []byte:
		return v
	case string:
		return []byte(v)
	}
	return nil
}

func showSrc(x interface{}) string {
	switch v := x.(type) {
	case nil:
		return "nil"
	case []byte:
		return fmt.Sprintf("[]byte(%q)", v)
	case string:
		return fmt.Sprintf("%q", v)
	}
	return fmt.Sprintf("%T(%v)", x, x)
}

func receiverDecoders() []decoderUnderTest {
	showV := func(k string, v [10]int32) string { return strconv.Quote(k) + " " + slots(v) }
	return []decoderUnderTest{
		{"Version.UnmarshalText", func(prime, src interface{}) (string, bool) {
			var v claircore.Version
			if prime != nil && v.UnmarshalText(textOf(prime)) != nil {
				return "", false
			}
			err := v.UnmarshalText(textOf(src))
			return showV(v.Kind, v.V), err == nil
		}},
		{"toolkit types.Version.UnmarshalText", func(prime, src interface{}) (string, bool) {
			var v types.Version
			if prime != nil && v.UnmarshalText(textOf(prime)) != nil {
				return "", false
			}
			err := v.UnmarshalText(textOf(src))
			return showV(v.Kind, v.V), err == nil
		}},
		{"Digest.UnmarshalText", func(prime, src interface{}) (string, bool) {
			var d claircore.Digest
			if prime != nil && d.UnmarshalText(textOf(prime)) != nil {
				return "", false
			}
			err := d.UnmarshalText(textOf(src))
			return showDigest(d), err == nil
		}},
		{"Digest.Scan", func(prime, src interface{}) (string, bool) {
			var d claircore.Digest
			if prime != nil && d.Scan(prime) != nil {
				return "", false
			}
			err := d.Scan(src)
			return showDigest(d), err == nil
		}},
		{"Severity.UnmarshalText", func(prime, src interface{}) (string, bool) {
			var s claircore.Severity
			if prime != nil && s.UnmarshalText(textOf(prime)) != nil {
				return "", false
			}
			err := s.UnmarshalText(textOf(src))
			return fmt.Sprint(uint(s)), err == nil
		}},
		{"Severity.Scan", func(prime, src interface{}) (string, bool) {
			var s claircore.Severity
			if prime != nil && s.Scan(prime) != nil {
				return "", false
			}
			err := s.Scan(src)
			return fmt.Sprint(uint(s)), err == nil
		}},
		{"ArchOp.UnmarshalText", func(prime, src interface{}) (string, bool) {
			var s claircore.ArchOp
			if prime != nil && s.UnmarshalText(textOf(prime)) != nil {
				return "", false
			}
			err := s.UnmarshalText(textOf(src))
			return fmt.Sprint(uint(s)), err == nil
		}},
		{"ArchOp.Scan", func(prime, src interface{}) (string, bool) {
			var s claircore.ArchOp
			if prime != nil && s.Scan(prime) != nil {
				return "", false
			}
			err := s.Scan(src)
			return fmt.Sprint(uint(s)), err == nil
		}},
		{"Duration.UnmarshalText", func(prime, src interface{}) (string, bool) {
			var d claircore.Duration
			if prime != nil && d.UnmarshalText(textOf(prime)) != nil {
				return "", false
			}
			err := d.UnmarshalText(textOf(src))
			return fmt.Sprint(int64(d)), err == nil
		}},
		{"cpe.WFN.UnmarshalText", func(prime, src interface{}) (string, bool) {
			var w cpe.WFN
			if prime != nil && w.UnmarshalText(textOf(prime)) != nil {
				return "", false
			}
			err := w.UnmarshalText(textOf(src))
			return w.String(), err == nil
		}},
		{"cpe.WFN.Scan", func(prime, src interface{}) (string, bool) {
			var w cpe.WFN
			if prime != nil && w.Scan(prime) != nil {
				return "", false
			}
			err := w.Scan(src)
			return w.String(), err == nil
		}},
		{"json.Unmarshal(Range)", jsonInto(func() interface{} { return &claircore.Range{} })},
		{"json.Unmarshal(Environment)", jsonInto(func() interface{} { return &claircore.Environment{} })},
		{"json.Unmarshal(Distribution)", jsonInto(func() interface{} { return &claircore.Distribution{} })},
		// structs with omitempty keys: encoding/json itself keeps a field whose key is absent, so only
		// the fields every document spells are observed
		{"json.Unmarshal(Package).NormalizedVersion/CPE", func(prime, src interface{}) (string, bool) {
			var p claircore.Package
			if prime != nil && json.Unmarshal(textOf(prime), &p) != nil {
				return "", false
			}
			err := json.Unmarshal(textOf(src), &p)
			return showV(p.NormalizedVersion.Kind, p.NormalizedVersion.V) + " " + p.CPE.String(), err == nil
		}},
		{"json.Unmarshal(Vulnerability).NormalizedSeverity/Range", func(prime, src interface{}) (string, bool) {
			var v claircore.Vulnerability
			if prime != nil && json.Unmarshal(textOf(prime), &v) != nil {
				return "", false
			}
			err := json.Unmarshal(textOf(src), &v)
			o := fmt.Sprint(uint(v.NormalizedSeverity))
			if bytes.Contains(textOf(src), []byte(`"range":{`)) && v.Range != nil {
				// the decoder reuses the Range the pointer already points at
				o += " " + showV(v.Range.Lower.Kind, v.Range.Lower.V) + " " + showV(v.Range.Upper.Kind, v.Range.Upper.V)
			}
			return o, err == nil
		}},
		{"json.Unmarshal(IndexReport).Hash", func(prime, src interface{}) (string, bool) {
			var ir claircore.IndexReport
			if prime != nil && json.Unmarshal(textOf(prime), &ir) != nil {
				return "", false
			}
			err := json.Unmarshal(textOf(src), &ir)
			return showDigest(ir.Hash), err == nil
		}},
	}
}

func jsonInto(fresh func() interface{}) func(prime, src interface{}) (string, bool) {
	return func(prime, src interface{}) (string, bool) {
		v := fresh()
		if prime != nil && json.Unmarshal(textOf(prime), v) != nil {
			return "", false
		}
		err := json.Unmarshal(textOf(src), v)
		b, _ := json.Marshal(v)
		return string(b), err == nil
	}
}

// checkReceiver runs one decoder on (prime, src) and on (fresh, src).
func checkReceiver(r *hx.Run, d decoderUnderTest, prime, src interface{}) {
	var fresh, used string
	var okF, okU bool
	out := hx.Guard(func() string {
		fresh, okF = d.run(nil, src)
		used, okU = d.run(prime, src)
		return ""
	})
	r.Case("recv "+d.name+" "+showSrc(prime)+" "+showSrc(src), true)
	if out == "panic" {
		failW(r, "", fmt.Sprintf("%s panics: receiver primed with %s, then %s", d.name, showSrc(prime), showSrc(src)))
		return
	}
	if !okF {
		r.Count("recv:" + d.name + ":rejected")
		return
	}
	r.Count("recv:" + d.name + ":accepted")
	if !okU {
		// the priming text was not acceptable (skip), or the same source is rejected by a used receiver
		if _, okP := d.run(nil, prime); okP {
			failW(r, "", fmt.Sprintf("%s accepts %s into a fresh receiver but not into one that decoded %s", d.name, showSrc(src), showSrc(prime)))
		}
		return
	}
	if used != fresh {
		class := ""
		if d.name == "cpe.WFN.Scan" && len(textOf(src)) == 0 && src != nil {
			class = "wfn-scan-empty-keeps-receiver"
		}
		failW(r, class, fmt.Sprintf("%s: %s decodes to %s in a fresh receiver but to %s in a receiver that had decoded %s", d.name, showSrc(src), fresh, used, showSrc(prime)))
	}
}

// runReceiverIndependence drives every decoder with pairs of sources.
func runReceiverIndependence(r *hx.Run, cfg hx.Config, rnd *hx.Rand) {
	ds := receiverDecoders()
	byName := map[string]decoderUnderTest{}
	for _, d := range ds {
		byName[d.name] = d
	}
	// the witnesses of the repaired defects, first
	for _, n := range []string{"Version.UnmarshalText", "toolkit types.Version.UnmarshalText"} {
		checkReceiver(r, byName[n], []byte("k:9.9.9.9.9.9.9.9.9.9"), []byte("k:1.2.3"))
		checkReceiver(r, byName[n], []byte("k:9.9.9.9.9.9.9.9.9.9"), []byte(""))
		checkReceiver(r, byName[n], []byte("k:9.9.9.9.9.9.9.9.9.9"), []byte("nocolon"))
		checkReceiver(r, byName[n], []byte("k:9.9.9.9.9.9.9.9.9.9"), []byte("j:5"))
	}
	checkReceiver(r, byName["cpe.WFN.UnmarshalText"], []byte("cpe:2.3:a:v:p:1:*:*:*:*:*:*:*"), []byte(""))
	checkReceiver(r, byName["cpe.WFN.Scan"], "cpe:2.3:a:v:p:1:*:*:*:*:*:*:*", "")
	checkReceiver(r, byName["cpe.WFN.Scan"], "cpe:2.3:a:v:p:1:*:*:*:*:*:*:*", []byte{})
	checkReceiver(r, byName["Digest.Scan"], "sha256:"+string(bytes.Repeat([]byte("ab"), 32)), nil)
	checkReceiver(r, byName["json.Unmarshal(Package).NormalizedVersion/CPE"], []byte(`{"id":"1","normalized_version":"k:9.9.9.9.9.9.9.9.9.9","cpe":"cpe:2.3:a:v:p:1:*:*:*:*:*:*:*"}`), []byte(`{"id":"2","normalized_version":"","cpe":""}`))
	checkReceiver(r, byName["json.Unmarshal(Range)"], []byte(`{"[":"k:9.9.9.9.9.9.9.9.9.9",")":"k:9.9.9.9.9.9.9.9.9.9"}`), []byte(`{"[":"k:1",")":"k:2.0.1"}`))
	checkReceiver(r, byName["json.Unmarshal(Vulnerability).NormalizedSeverity/Range"], []byte(`{"range":{"[":"k:9.9.9.9.9.9.9.9.9.9",")":"k:9.9.9.9.9.9.9.9.9.9"}}`), []byte(`{"normalized_severity":"Low","range":{"[":"k:1",")":""}}`))

	verText := func() []byte {
		v := randVersion(rnd)
		if rnd.Chance(1, 6) {
			v = claircore.Version{}
		}
		b, _ := v.MarshalText()
		switch rnd.Intn(5) {
		case 0:
			// fewer components than ten: accepted, the rest is zero
			parts := bytes.Split(b, []byte("."))
			if len(parts) > 1 {
				b = bytes.Join(parts[:1+rnd.Intn(len(parts)-1)], []byte("."))
			}
		case 1:
			b = []byte(rnd.Pick("", "nocolon", "k:0", "k:-1.+2", ":1"))
		}
		return b
	}
	digText := func() string {
		if rnd.Chance(1, 8) {
			return rnd.Pick("", "md5:00", "sha256:zz")
		}
		return randDigest(rnd).String()
	}
	cpeText := func() string {
		return rnd.Pick("", "cpe:2.3:o:redhat:enterprise_linux:8:*:*:*:*:*:*:*", "cpe:2.3:a:vendor:product:1.0:*:*:*:*:*:*:*", "cpe:/a:b:c", "cpe:2.3:a", "cpe:2.3:*:*:*:*:*:*:*:*:*:*:*", "garbage")
	}
	enumText := func() string {
		return rnd.Pick("Unknown", "Negligible", "Low", "Medium", "High", "Critical", "invalid", "equals", "not equals", "pattern match", "", "Hi", "quals", "x")
	}
	anySrc := func(text string) interface{} {
		switch rnd.Intn(6) {
		case 0:
			return []byte(text)
		case 1:
			return int64(rnd.Intn(8)) - 1
		case 2:
			return nil
		}
		return text
	}
	for i := 0; i < cfg.N(400, 20000) && !r.Stop(); i++ {
		checkReceiver(r, byName["Version.UnmarshalText"], verText(), verText())
		checkReceiver(r, byName["toolkit types.Version.UnmarshalText"], verText(), verText())
		checkReceiver(r, byName["Digest.UnmarshalText"], []byte(digText()), []byte(digText()))
		checkReceiver(r, byName["Digest.Scan"], anySrc(digText()), anySrc(digText()))
		checkReceiver(r, byName["Severity.UnmarshalText"], []byte(enumText()), []byte(enumText()))
		checkReceiver(r, byName["Severity.Scan"], anySrc(enumText()), anySrc(enumText()))
		checkReceiver(r, byName["ArchOp.UnmarshalText"], []byte(enumText()), []byte(enumText()))
		checkReceiver(r, byName["ArchOp.Scan"], anySrc(enumText()), anySrc(enumText()))
		t1 := opDurText(rnd)
		checkReceiver(r, byName["Duration.UnmarshalText"], opDurText(rnd), t1)
		checkReceiver(r, byName["cpe.WFN.UnmarshalText"], []byte(cpeText()), []byte(cpeText()))
		checkReceiver(r, byName["cpe.WFN.Scan"], anySrc(cpeText()), anySrc(cpeText()))
		// documents the encoder produced, decoded into a used variable: also equal to the encoded value
		for _, ty := range []struct {
			name  string
			fresh func() interface{}
		}{
			{"json.Unmarshal(Range)", func() interface{} { return &claircore.Range{} }},
			{"json.Unmarshal(Environment)", func() interface{} { return &claircore.Environment{} }},
			{"json.Unmarshal(Distribution)", func() interface{} { return &claircore.Distribution{} }},
			{"json.Unmarshal(Package).NormalizedVersion/CPE", func() interface{} { return &claircore.Package{} }},
			{"json.Unmarshal(Vulnerability).NormalizedSeverity/Range", func() interface{} { return &claircore.Vulnerability{} }},
			{"json.Unmarshal(IndexReport).Hash", func() interface{} { return &claircore.IndexReport{} }},
		} {
			a, b := ty.fresh(), ty.fresh()
			fill(rnd, reflect.ValueOf(a).Elem(), 0)
			fill(rnd, reflect.ValueOf(b).Elem(), 0)
			ja, _ := json.Marshal(a)
			jb, _ := json.Marshal(b)
			checkReceiver(r, byName[ty.name], ja, jb)
		}
	}
}

// opDurText: the text of a random duration, sometimes not a duration.
func opDurText(rnd *hx.Rand) []byte {
	if rnd.Chance(1, 8) {
		return []byte(rnd.Pick("", "1", "x", "1.5h", "0"))
	}
	x := claircore.Duration(randDur(rnd))
	b, _ := (&x).MarshalText()
	return b
}
