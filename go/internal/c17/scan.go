package c17

// "A scan of a report that has been through JSON gives the same result as a
// scan of the original": real libvuln.Scan (real controllers, the real default
// matchers plus one matcher that accepts everything) over a stub store whose
// answer is a function of every field of the records that JSON carries.

import (
	"bytes"
	"context"
	"crypto/sha256"
	"encoding/json"
	"fmt"
	"net/http"
	"reflect"
	"sort"
	"strings"
	"time"

	"github.com/google/uuid"

	"github.com/quay/claircore"
	"github.com/quay/claircore/alpine"
	"github.com/quay/claircore/aws"
	"github.com/quay/claircore/datastore"
	"github.com/quay/claircore/debian"
	"github.com/quay/claircore/gobin"
	"github.com/quay/claircore/java"
	"github.com/quay/claircore/libvuln"
	"github.com/quay/claircore/libvuln/driver"
	"github.com/quay/claircore/oracle"
	"github.com/quay/claircore/photon"
	"github.com/quay/claircore/python"
	"github.com/quay/claircore/rhel/rhcc"
	"github.com/quay/claircore/ruby"
	"github.com/quay/claircore/suse"
	"github.com/quay/claircore/toolkit/types/cpe"
	"github.com/quay/claircore/ubuntu"
	"github.com/quay/claircore/verifharness/internal/hx"
)

// ---- coherent reports: ids, environments and lookup maps that refer to each other ----

var distPool = []claircore.Distribution{
	{DID: "alpine", Name: "Alpine Linux", Version: "3.18", VersionID: "3.18", PrettyName: "Alpine Linux v3.18"},
	{DID: "debian", Name: "Debian GNU/Linux", Version: "12 (bookworm)", VersionCodeName: "bookworm", VersionID: "12", PrettyName: "Debian GNU/Linux 12 (bookworm)"},
	{DID: "ubuntu", Name: "Ubuntu", Version: "22.04 (Jammy)", VersionCodeName: "jammy", VersionID: "22.04", PrettyName: "Ubuntu 22.04"},
	{DID: "rhel", Name: "Red Hat Enterprise Linux Server", Version: "8", VersionID: "8", PrettyName: "Red Hat Enterprise Linux Server 8", CPE: cpe.MustUnbind("cpe:/o:redhat:enterprise_linux:8")},
	{DID: "amzn", Name: "Amazon Linux", Version: "2", VersionID: "2", PrettyName: "Amazon Linux 2"},
	{DID: "ol", Name: "Oracle Linux Server", Version: "8", VersionID: "8"},
	{DID: "photon", Name: "VMware Photon Linux", Version: "3.0", VersionID: "3.0"},
	{DID: "sles", Name: "SLES", Version: "15", VersionID: "15"},
	{},
}

var repoPool = []claircore.Repository{
	{Name: "pypi", URI: "https://pypi.org/simple"},
	{Name: "rubygems", URI: "https://rubygems.org/gems/"},
	{Name: "maven", URI: "https://repo1.maven.apache.org/maven2"},
	{Name: "go", URI: "https://pkg.go.dev/"},
	{Name: "Red Hat Container Catalog", URI: "https://catalog.redhat.com/software/containers/explore"},
	{Name: "cpe:/o:redhat:enterprise_linux:8::baseos", Key: "rhel-cpe-repository", CPE: cpe.MustUnbind("cpe:/o:redhat:enterprise_linux:8::baseos")},
	{},
}

func coherentPackage(rnd *hx.Rand, id string, depth int) *claircore.Package {
	p := &claircore.Package{
		ID:      id,
		Name:    rnd.Pick("openssl", "musl", "bash", "requests", "rails", "log4j-core", "github.com/x/y", "zlib", "héllo"),
		Version: rnd.Pick("1.2.3", "2.0", "1.0.0-1", "1:1.1.1k-7.el8", "3.0.8-r0", "0", ""),
		Kind:    rnd.Pick(claircore.BINARY, claircore.SOURCE, ""),
		Arch:    rnd.Pick("x86_64", "aarch64", "noarch", ""),
		Module:  rnd.Pick("", "", "nodejs:18"),
		// json:"-": present in the original, gone after the round trip
		PackageDB:      rnd.Pick("var/lib/rpm", "lib/apk/db/installed", "python:usr/lib/python3", ""),
		Filepath:       rnd.Pick("", "usr/lib/x.jar", "app/Gemfile.lock"),
		RepositoryHint: rnd.Pick("", "hash:sha256:abc|key:199e2f91fd431d51", "https://pypi.org/simple"),
	}
	if rnd.Chance(2, 3) {
		p.NormalizedVersion = randVersion(rnd)
	}
	if rnd.Chance(1, 4) {
		p.CPE = randCPE(rnd)
	}
	if depth < 3 && rnd.Chance(1, 3) {
		p.Source = coherentPackage(rnd, "s"+id, depth+1)
		p.Source.Kind = claircore.SOURCE
	}
	return p
}

func coherentIR(rnd *hx.Rand) *claircore.IndexReport {
	ir := &claircore.IndexReport{Hash: randDigest(rnd), State: rnd.Pick("IndexFinished", "IndexError", ""), Success: rnd.Chance(3, 4)}
	if !ir.Success {
		ir.Err = "failed to scan all layer contents: boom"
	}
	nd, nr, np := rnd.Intn(3), rnd.Intn(3), rnd.Intn(6)
	if rnd.Chance(4, 5) || nd > 0 {
		ir.Distributions = map[string]*claircore.Distribution{}
	}
	for i := 0; i < nd; i++ {
		d := distPool[rnd.Intn(len(distPool))]
		d.ID = fmt.Sprintf("d%d", i)
		ir.Distributions[d.ID] = &d
	}
	if rnd.Chance(4, 5) || nr > 0 {
		ir.Repositories = map[string]*claircore.Repository{}
	}
	for i := 0; i < nr; i++ {
		p := repoPool[rnd.Intn(len(repoPool))]
		p.ID = fmt.Sprintf("r%d", i)
		ir.Repositories[p.ID] = &p
	}
	if rnd.Chance(4, 5) || np > 0 {
		ir.Packages = map[string]*claircore.Package{}
		ir.Environments = map[string][]*claircore.Environment{}
	}
	for i := 0; i < np; i++ {
		id := fmt.Sprintf("%d", i+1)
		ir.Packages[id] = coherentPackage(rnd, id, 0)
		if rnd.Chance(1, 8) {
			continue // a package without environments
		}
		var envs []*claircore.Environment
		for k := rnd.Intn(3); k >= 0; k-- {
			e := &claircore.Environment{PackageDB: ir.Packages[id].PackageDB, IntroducedIn: randDigest(rnd)}
			switch rnd.Intn(4) {
			case 0:
				e.DistributionID = "absent"
			case 1:
			default:
				if nd > 0 {
					e.DistributionID = fmt.Sprintf("d%d", rnd.Intn(nd))
				}
			}
			switch rnd.Intn(4) {
			case 0: // nil
			case 1:
				e.RepositoryIDs = []string{}
			default:
				for q := rnd.Intn(3); q >= 0; q-- {
					if nr > 0 && rnd.Chance(3, 4) {
						e.RepositoryIDs = append(e.RepositoryIDs, fmt.Sprintf("r%d", rnd.Intn(nr)))
					} else {
						e.RepositoryIDs = append(e.RepositoryIDs, "absent")
					}
				}
			}
			envs = append(envs, e)
		}
		ir.Environments[id] = envs
	}
	if rnd.Chance(1, 2) {
		ir.Files = map[string]claircore.File{"sha256:x": {Path: "a/.wh.b", Kind: claircore.FileKindWhiteout}}
	}
	return ir
}

// ---- what JSON carries of a record, computed by reflection (not through encoding/json) ----

var hiddenFields = map[string]bool{"PackageDB": true, "Filepath": true, "RepositoryHint": true}

func dump(sb *strings.Builder, v reflect.Value, inPackage bool) {
	switch v.Kind() {
	case reflect.Ptr:
		if v.IsNil() {
			sb.WriteString("nil")
			return
		}
		dump(sb, v.Elem(), inPackage)
	case reflect.Struct:
		if w, ok := v.Interface().(cpe.WFN); ok {
			sb.WriteString(w.String()) // the bound form: unset and ANY read the same
			return
		}
		isPkg := v.Type() == reflect.TypeOf(claircore.Package{})
		sb.WriteByte('{')
		for i := 0; i < v.NumField(); i++ {
			f := v.Type().Field(i)
			if f.PkgPath != "" || (isPkg && hiddenFields[f.Name]) {
				continue
			}
			sb.WriteString(f.Name)
			sb.WriteByte(':')
			dump(sb, v.Field(i), isPkg)
			sb.WriteByte(' ')
		}
		sb.WriteByte('}')
	case reflect.Slice, reflect.Array:
		fmt.Fprintf(sb, "%d[", v.Len())
		for i := 0; i < v.Len(); i++ {
			dump(sb, v.Index(i), inPackage)
			sb.WriteByte(',')
		}
		sb.WriteByte(']')
	default:
		fmt.Fprintf(sb, "%#v", v.Interface())
	}
}

func fingerprint(r *claircore.IndexRecord) string {
	var sb strings.Builder
	dump(&sb, reflect.ValueOf(r.Package), false)
	sb.WriteByte('|')
	dump(&sb, reflect.ValueOf(r.Distribution), false)
	sb.WriteByte('|')
	dump(&sb, reflect.ValueOf(r.Repository), false)
	return sb.String()
}

// ---- stub store and the accept-everything matcher ----

type fpStore struct {
	datastore.MatcherStore
}

func (s *fpStore) Get(ctx context.Context, records []*claircore.IndexRecord, opts datastore.GetOpts) (map[string][]*claircore.Vulnerability, error) {
	res := map[string][]*claircore.Vulnerability{}
	for _, rec := range records {
		fp := fingerprint(rec)
		h := sha256.Sum256([]byte(fp))
		mk := func(n int) *claircore.Vulnerability {
			v := &claircore.Vulnerability{
				ID:      fmt.Sprintf("%x-%d", h[:8], n),
				Updater: "c17",
				Name:    fmt.Sprintf("CVE-%x", h[8:12]),
				Issued:  time.Unix(int64(h[12])<<20, 0).UTC(),
				Package: &claircore.Package{Name: rec.Package.Name, Kind: rec.Package.Kind},
				Dist:    rec.Distribution,
				Repo:    rec.Repository,
			}
			return v
		}
		v0 := mk(0) // no fixed version: every matcher that looks only at versions says vulnerable
		v0.Description = fp
		v1 := mk(1)
		v1.FixedInVersion = rec.Package.Version + ".1"
		v1.ArchOperation = claircore.ArchOp(h[13] % 4)
		v1.Package.Arch = []string{"x86_64", "aarch64|x86_64", "", "noarch"}[h[14]%4]
		v2 := mk(2)
		v2.FixedInVersion = "0"
		lo, up := rec.Package.NormalizedVersion, rec.Package.NormalizedVersion
		up.V[9]++
		v2.Range = &claircore.Range{Lower: lo, Upper: up}
		res[rec.Package.ID] = append(res[rec.Package.ID], v0, v1, v2)
	}
	return res, nil
}

func (s *fpStore) GetEnrichment(ctx context.Context, kind string, tags []string) ([]driver.EnrichmentRecord, error) {
	return nil, nil
}
func (s *fpStore) Initialized(context.Context) (bool, error) { return true, nil }
func (s *fpStore) GetLatestUpdateRef(context.Context, driver.UpdateKind) (uuid.UUID, error) {
	return uuid.Nil, nil
}

type allMatcher struct{}

func (allMatcher) Name() string                             { return "c17-all" }
func (allMatcher) Filter(*claircore.IndexRecord) bool       { return true }
func (allMatcher) Query() []driver.MatchConstraint          { return nil }
func (allMatcher) Vulnerable(context.Context, *claircore.IndexRecord, *claircore.Vulnerability) (bool, error) {
	return true, nil
}

func realMatchers() []driver.Matcher {
	return []driver.Matcher{
		&alpine.Matcher{}, &aws.Matcher{}, &debian.Matcher{}, &gobin.Matcher{}, &java.Matcher{}, &oracle.Matcher{},
		&photon.Matcher{}, &python.Matcher{}, rhcc.Matcher, &ruby.Matcher{}, &suse.Matcher{}, &ubuntu.Matcher{},
		&allMatcher{},
	}
}

// canonVR: the vulnerability report as a canonical document (package
// vulnerability lists sorted: their order depends on goroutine scheduling).
func canonVR(vr *claircore.VulnerabilityReport) string {
	if vr == nil {
		return "nil"
	}
	cp := *vr
	cp.PackageVulnerabilities = map[string][]string{}
	for k, v := range vr.PackageVulnerabilities {
		w := append([]string(nil), v...)
		sort.Strings(w)
		cp.PackageVulnerabilities[k] = w
	}
	return canonJSON(&cp)
}

func scanOnce(lv *libvuln.Libvuln, ir *claircore.IndexReport) (string, string) {
	type res struct{ doc, err string }
	ch := make(chan res, 1)
	go func() {
		out := hx.Guard(func() string {
			ctx, cancel := context.WithTimeout(context.Background(), 20*time.Second)
			defer cancel()
			vr, err := lv.Scan(ctx, ir)
			if err != nil {
				ch <- res{"", "err"}
				return ""
			}
			ch <- res{canonVR(vr), ""}
			return ""
		})
		if out == "panic" {
			ch <- res{"", "panic"}
		}
	}()
	select {
	case r := <-ch:
		return r.doc, r.err
	case <-time.After(30 * time.Second):
		return "", "hang"
	}
}

// runScan: Scan(original) vs Scan(json round trip), on the real code.
func runScan(r *hx.Run, cfg hx.Config, rnd *hx.Rand) {
	lv, err := libvuln.New(context.Background(), &libvuln.Options{
		Store:                    &fpStore{},
		Client:                   http.DefaultClient,
		MatcherNames:             []string{},
		UpdaterSets:              []string{},
		Matchers:                 realMatchers(),
		DisableBackgroundUpdates: true,
		UpdateRetention:          2,
	})
	if err != nil {
		failW(r, "", "libvuln.New with a stub store failed: "+err.Error())
		return
	}
	ms := realMatchers()
	for i := 0; i < cfg.N(120, 4000) && !r.Stop(); i++ {
		ir := coherentIR(rnd)
		b, err := json.Marshal(ir)
		if err != nil {
			failW(r, "", "json.Marshal of a coherent IndexReport failed: "+err.Error())
			continue
		}
		var rt claircore.IndexReport
		if err := json.Unmarshal(b, &rt); err != nil {
			failW(r, "", "a coherent IndexReport does not decode: "+err.Error()+" json="+trunc(string(b)))
			continue
		}
		// the protocol sees the same report: its records, by the model and by the real IndexRecords
		if doc, ok := parseJSONText(b); ok {
			opRecs(r, doc)
			if i%4 == 0 {
				opJS(r, "ir", doc, true)
			}
		}
		d1, e1 := scanOnce(lv, ir)
		d2, e2 := scanOnce(lv, &rt)
		r.Case(fmt.Sprintf("scan %d", i), true)
		r.Count(fmt.Sprintf("scan:records=%d", min(len(ir.IndexRecords()), 9)))
		if e1 != "" || e2 != "" {
			r.Count("scan:" + e1 + "/" + e2)
		}
		if e1 == "panic" || e2 == "panic" || e1 == "hang" || e2 == "hang" {
			failW(r, "", "libvuln.Scan "+e1+"/"+e2+" on a coherent report: json="+trunc(string(b)))
			continue
		}
		if e1 != e2 || d1 != d2 {
			failW(r, "", "libvuln.Scan of the JSON round trip of a report differs from the scan of the original: "+firstDiff(d1+e1, d2+e2)+" report json="+trunc(string(b)))
			continue
		}
		if e1 == "" {
			n := strings.Count(d1, hexKey("fixed_in_version"))
			r.Count(fmt.Sprintf("scan:vulns~%d", min(n/3, 9)*3))
		}
		// record by record, every real matcher answers the same on both
		recA, recB := ir.IndexRecords(), rt.IndexRecords()
		sort.Slice(recA, func(i, j int) bool { return fingerprint(recA[i]) < fingerprint(recA[j]) })
		sort.Slice(recB, func(i, j int) bool { return fingerprint(recB[i]) < fingerprint(recB[j]) })
		if len(recA) != len(recB) {
			failW(r, "", fmt.Sprintf("IndexRecords: %d records of the original, %d of its JSON round trip: json=%s", len(recA), len(recB), trunc(string(b))))
			continue
		}
		st := &fpStore{}
		for k := range recA {
			if fingerprint(recA[k]) != fingerprint(recB[k]) {
				failW(r, "", "an index record changed across JSON: "+firstDiff(fingerprint(recA[k]), fingerprint(recB[k])))
				break
			}
			va, _ := st.Get(context.Background(), recA[k:k+1], datastore.GetOpts{})
			for _, m := range ms {
				fa, fb := m.Filter(recA[k]), m.Filter(recB[k])
				if fa != fb {
					failW(r, "", fmt.Sprintf("matcher %s Filter differs on a record and its JSON round trip: %s", m.Name(), fingerprint(recA[k])))
				}
				if fa {
					r.Count("scan:filter:" + m.Name())
				}
				for _, v := range va[recA[k].Package.ID] {
					oa := hx.Guard(func() string { ok, err := m.Vulnerable(context.Background(), recA[k], v); return fmt.Sprint(ok, err != nil) })
					ob := hx.Guard(func() string { ok, err := m.Vulnerable(context.Background(), recB[k], v); return fmt.Sprint(ok, err != nil) })
					if oa != ob {
						failW(r, "", fmt.Sprintf("matcher %s Vulnerable differs on a record and its JSON round trip (%s vs %s): %s", m.Name(), oa, ob, fingerprint(recA[k])))
					}
				}
			}
		}
	}
}

func hexKey(s string) string {
	var b bytes.Buffer
	fmt.Fprintf(&b, "%x:", s)
	return b.String()
}
