package c17

// Scan/Value (database/sql) of the value types over every kind of
// driver.Value, receivers that already hold a value, the toolkit/types copies
// of the enums (same model lines) and types.PackageKind.

import (
	"bytes"
	"fmt"
	"strconv"
	"strings"
	"time"

	"github.com/quay/claircore"
	pkgcpe "github.com/quay/claircore/pkg/cpe"
	"github.com/quay/claircore/toolkit/types"
	"github.com/quay/claircore/toolkit/types/cpe"
	"github.com/quay/claircore/verifharness/internal/hx"
)

// srcV is one driver.Value together with its form on the wire.
type srcV struct {
	wire string
	v    interface{}
}

// textSrcs: the text as string and as []byte.
func textSrcs(b []byte) []srcV {
	return []srcV{
		{"s" + hx.Hex(b), string(b)},
		{"b" + hx.Hex(b), append([]byte(nil), b...)},
	}
}

// foreignSrcs: nil and the driver.Value kinds no Scanner here looks at.
func foreignSrcs() []srcV {
	return []srcV{{"n", nil}, {"o", 3.5}, {"o", true}, {"o", time.Unix(0, 0)}, {"o", time.Time{}}, {"o", float64(0)}}
}

func intSrc(v int64) srcV { return srcV{"i" + strconv.FormatInt(v, 10), v} }

// opEnumScan runs Severity.Scan and ArchOp.Scan on one source value, into a
// receiver that already holds a member: an error must leave it alone.
func opEnumScan(r *hx.Run, s srcV) {
	out := hx.Guard(func() string {
		x := claircore.Medium
		if err := x.Scan(s.v); err != nil {
			if x != claircore.Medium {
				failW(r, "", fmt.Sprintf("Severity.Scan(%T %s) failed and changed its receiver to %d", s.v, s.wire, uint64(x)))
			}
			return "err"
		}
		if uint64(x) > uint64(claircore.Critical) {
			failW(r, "", fmt.Sprintf("Severity.Scan(%T %s) returned nil and the non-member %d", s.v, s.wire, uint64(x)))
		}
		return fmt.Sprintf("ok %d", uint64(x))
	})
	if out == "panic" {
		failW(r, "", fmt.Sprintf("Severity.Scan(%T) panics on %s", s.v, s.wire))
	}
	r.Op("sev-scan "+s.wire, out, true)
	r.Count("sev-scan:" + s.wire[:1] + ":" + out[:2])
	out = hx.Guard(func() string {
		x := claircore.OpNotEquals
		if err := x.Scan(s.v); err != nil {
			if x != claircore.OpNotEquals {
				failW(r, "", fmt.Sprintf("ArchOp.Scan(%T %s) failed and changed its receiver to %d", s.v, s.wire, uint64(x)))
			}
			return "err"
		}
		if uint64(x) > uint64(claircore.OpPatternMatch) {
			failW(r, "", fmt.Sprintf("ArchOp.Scan(%T %s) returned nil and the non-member %d", s.v, s.wire, uint64(x)))
		}
		return fmt.Sprintf("ok %d", uint64(x))
	})
	if out == "panic" {
		failW(r, "", fmt.Sprintf("ArchOp.Scan(%T) panics on %s", s.v, s.wire))
	}
	r.Op("arch-scan "+s.wire, out, true)
	r.Count("arch-scan:" + s.wire[:1] + ":" + out[:2])
}

// opToolkitEnums: the copies in toolkit/types answer the same model lines;
// PackageKind has its own table.
func opToolkitEnums(r *hx.Run, b []byte) {
	out := hx.Guard(func() string {
		var s types.Severity
		if err := s.UnmarshalText(b); err != nil {
			return "err"
		}
		return fmt.Sprintf("ok %d", uint(s))
	})
	if out == "panic" {
		failW(r, "", "toolkit types.Severity.UnmarshalText panics on hex:"+hx.Hex(b))
	}
	r.Op("sev-un "+hx.Hex(b), out, false)
	out = hx.Guard(func() string {
		var s types.ArchOp
		if err := s.UnmarshalText(b); err != nil {
			return "err"
		}
		return fmt.Sprintf("ok %d", uint(s))
	})
	if out == "panic" {
		failW(r, "", "toolkit types.ArchOp.UnmarshalText panics on hex:"+hx.Hex(b))
	}
	r.Op("arch-un "+hx.Hex(b), out, false)
	out = hx.Guard(func() string {
		s := types.BinaryPackage
		if err := s.UnmarshalText(b); err != nil {
			return "err"
		}
		return fmt.Sprintf("ok %d", uint(s))
	})
	if out == "panic" {
		failW(r, "", "toolkit types.PackageKind.UnmarshalText panics on hex:"+hx.Hex(b))
	}
	r.Op("pk-un "+hx.Hex(b), out, true)
}

func showDigest(d claircore.Digest) string {
	if d.Algorithm() == "" && d.Checksum() == nil && d.String() == "" {
		return "zero"
	}
	return hx.Hex([]byte(d.Algorithm())) + " " + hx.Hex(d.Checksum()) + " " + hx.Hex([]byte(d.String()))
}

// recvDigest builds the receiver of a dig-scan / dig-unx line.
func recvDigest(old string) claircore.Digest {
	if old == "" {
		return claircore.Digest{}
	}
	return claircore.MustParseDigest(old)
}

func recvWire(old string) string {
	if old == "" {
		return "-"
	}
	return hx.Hex([]byte(old))
}

// opDigScan: Digest.Scan of one source value into a receiver holding old.
func opDigScan(r *hx.Run, old string, s srcV) {
	out := hx.Guard(func() string {
		d := recvDigest(old)
		if err := d.Scan(s.v); err != nil {
			if showDigest(d) != showDigest(recvDigest(old)) {
				failW(r, "", fmt.Sprintf("Digest.Scan(%T %s) failed and changed its receiver to %s", s.v, s.wire, showDigest(d)))
			}
			return "err " + showDigest(d)
		}
		if str, ok := s.v.(string); ok {
			// a nil error means the text was a digest, and the receiver is that digest
			want, perr := claircore.ParseDigest(str)
			if perr != nil || showDigest(want) != showDigest(d) {
				failW(r, "", fmt.Sprintf("Digest.Scan(%q) returned nil and left %s (ParseDigest: %v)", str, showDigest(d), perr))
			}
		}
		return "ok " + showDigest(d)
	})
	if out == "panic" {
		failW(r, "", fmt.Sprintf("Digest.Scan(%T) panics on %s", s.v, s.wire))
	}
	r.Op("dig-scan "+recvWire(old)+" "+s.wire, out, true)
	r.Count("dig-scan:" + s.wire[:1] + ":" + out[:2])
}

// opDigUnx: Digest.UnmarshalText into a receiver holding old; afterwards the
// input buffer is overwritten, which must not reach into the value.
func opDigUnx(r *hx.Run, old string, t []byte) {
	out := hx.Guard(func() string {
		d := recvDigest(old)
		keep := d
		buf := append([]byte(nil), t...)
		err := d.UnmarshalText(buf)
		st := showDigest(d)
		for i := range buf {
			buf[i] ^= 0xff
		}
		if st2 := showDigest(d); st2 != st {
			failW(r, "", "a decoded Digest changed when the input buffer was overwritten: text=hex:"+hx.Hex(t)+" before="+st+" after="+st2)
		}
		if old != "" && showDigest(keep) != showDigest(recvDigest(old)) {
			failW(r, "", "a value copy of a Digest changed when the variable it was copied from decoded hex:"+hx.Hex(t))
		}
		if err != nil {
			return "err " + st
		}
		// a decoded value must satisfy the type's invariant
		if d.String() != d.Algorithm()+":"+fmt.Sprintf("%x", d.Checksum()) {
			failW(r, "", "Digest decoded from hex:"+hx.Hex(t)+" is inconsistent: "+st)
		}
		return "ok " + st
	})
	if out == "panic" {
		failW(r, "", "Digest.UnmarshalText panics on hex:"+hx.Hex(t))
	}
	r.Op("dig-unx "+recvWire(old)+" "+hx.Hex(t), out, true)
	r.Count("dig-unx:" + out[:2])
}

// opVerUnx: Version.UnmarshalText of b into a receiver that already decoded a
// (which must be acceptable), reporting the receiver also when b is rejected.
func opVerUnx(r *hx.Run, a, b []byte) {
	var v claircore.Version
	if err := v.UnmarshalText(a); err != nil {
		return
	}
	var tv types.Version
	tv.UnmarshalText(a)
	out := hx.Guard(func() string {
		buf := append([]byte(nil), b...)
		err := v.UnmarshalText(buf)
		st := hx.Hex([]byte(v.Kind)) + " " + slots(v.V)
		for i := range buf {
			buf[i] ^= 0xff
		}
		if st2 := hx.Hex([]byte(v.Kind)) + " " + slots(v.V); st2 != st {
			failW(r, "", "a decoded Version changed when the input buffer was overwritten: hex:"+hx.Hex(b))
		}
		if err != nil {
			return "err " + st
		}
		return "ok " + st
	})
	if out == "panic" {
		failW(r, "", "Version.UnmarshalText panics on hex:"+hx.Hex(b))
	}
	r.Op("ver-unx "+hx.Hex(a)+" "+hx.Hex(b), out, true)
	r.Count("ver-unx:" + out[:2])
	out2 := hx.Guard(func() string {
		err := tv.UnmarshalText(b)
		st := hx.Hex([]byte(tv.Kind)) + " " + slots(tv.V)
		if err != nil {
			return "err " + st
		}
		return "ok " + st
	})
	r.Op("ver-unx "+hx.Hex(a)+" "+hx.Hex(b), out2, false)
}

// runSQL drives the Scan/Value half and the receiver-state lines.
func runSQL(r *hx.Run, cfg hx.Config, rnd *hx.Rand) {
	// every member through Value -> Scan, with every text source kind
	for n := 0; n < 6; n++ {
		s := claircore.Severity(n)
		for _, src := range textSrcs([]byte(s.String())) {
			opEnumScan(r, src)
		}
	}
	for n := 0; n < 4; n++ {
		s := claircore.ArchOp(n)
		for _, src := range textSrcs([]byte(s.String())) {
			opEnumScan(r, src)
		}
	}
	for _, v := range []int64{-9223372036854775808, -4294967296, -2, -1, 0, 1, 2, 3, 4, 5, 6, 7, 100, 4294967296, 9223372036854775807} {
		opEnumScan(r, intSrc(v))
	}
	for _, s := range foreignSrcs() {
		opEnumScan(r, s)
	}
	for i := 0; i < cfg.N(600, 20000); i++ {
		var b []byte
		switch rnd.Intn(3) {
		case 0:
			b = randBytes(rnd, "", rnd.Intn(5))
		case 1:
			b = randBytes(rnd, "UnkowNegliLMdumHhCrtcavqsp ", 1+rnd.Intn(9))
		default:
			name := rnd.Pick("UnknownNegligibleLowMediumHighCritical", "invalidequalsnot equalspattern match")
			i0 := rnd.Intn(len(name))
			b = []byte(name[i0 : i0+rnd.Intn(len(name)-i0+1)])
		}
		for _, src := range textSrcs(b) {
			opEnumScan(r, src)
		}
		if rnd.Chance(1, 4) {
			opEnumScan(r, intSrc(int64(rnd.Intn(12))-3))
		}
	}

	// toolkit/types copies and PackageKind
	for n := 0; n < 5; n++ {
		out := "none"
		if n < 3 {
			k := types.PackageKind(n)
			b, _ := k.MarshalText()
			out = hx.Hex(b)
			var back types.PackageKind
			if err := back.UnmarshalText(b); err != nil || back != k {
				failW(r, "", fmt.Sprintf("types.PackageKind %d does not round-trip through text", n))
			}
		}
		r.Op(fmt.Sprintf("pk-m %d", n), out, true)
	}
	for n := 0; n < 6; n++ {
		s := types.Severity(n)
		b, _ := s.MarshalText()
		r.Op(fmt.Sprintf("sev-m %d", n), hx.Hex(b), false)
	}
	for n := 0; n < 4; n++ {
		s := types.ArchOp(n)
		b, _ := s.MarshalText()
		r.Op(fmt.Sprintf("arch-m %d", n), hx.Hex(b), false)
	}
	for _, name := range []string{"UnknownNegligibleLowMediumHighCritical", "invalidequalsnot equalspattern match", "unknownsourcebinary"} {
		for i := 0; i <= len(name); i++ {
			for j := i; j <= len(name); j++ {
				opToolkitEnums(r, []byte(name[i:j]))
			}
		}
	}
	for i := 0; i < cfg.N(500, 20000); i++ {
		name := rnd.Pick("UnknownNegligibleLowMediumHighCritical", "invalidequalsnot equalspattern match", "unknownsourcebinary")
		i0 := rnd.Intn(len(name))
		b := []byte(name[i0 : i0+rnd.Intn(len(name)-i0+1)])
		if len(b) > 0 && rnd.Chance(1, 2) {
			b[rnd.Intn(len(b))] ^= byte(1 << rnd.Intn(7))
		}
		if rnd.Chance(1, 5) {
			b = randBytes(rnd, "", rnd.Intn(5))
		}
		opToolkitEnums(r, b)
	}

	// Digest: Scan over every source kind and both receiver states
	olds := []string{"", "sha256:" + string(bytes.Repeat([]byte("0"), 64)), "sha512:" + string(bytes.Repeat([]byte("ab"), 64))}
	for _, old := range olds {
		for _, s := range foreignSrcs() {
			opDigScan(r, old, s)
		}
		opDigScan(r, old, intSrc(0))
		opDigScan(r, old, intSrc(256))
		for _, t := range []string{"", ":", "sha256:", "md5:00", "sha512:zz", "sha256:00", "sha256:" + string(bytes.Repeat([]byte("A"), 64)), "sha512:" + string(bytes.Repeat([]byte("9"), 128)), "sha256:" + string(bytes.Repeat([]byte("9"), 128)), "sha512:" + string(bytes.Repeat([]byte("9"), 64)), "sha384:" + string(bytes.Repeat([]byte("9"), 96))} {
			for _, s := range textSrcs([]byte(t)) {
				opDigScan(r, old, s)
			}
			opDigUnx(r, old, []byte(t))
		}
	}
	for i := 0; i < cfg.N(800, 40000); i++ {
		old := ""
		if rnd.Chance(2, 3) {
			old = randDigest(rnd).String()
		}
		d := randDigest(rnd)
		t := []byte(d.String())
		switch rnd.Intn(8) {
		case 0:
			t[rnd.Intn(len(t))] = byte(rnd.Intn(256))
		case 1:
			t = t[:rnd.Intn(len(t))]
		case 2:
			t = append(t, randBytes(rnd, "0123456789abcdef", 1+rnd.Intn(3))...)
		case 3:
			// the other algorithm's name in front of this checksum
			if d.Algorithm() == claircore.SHA256 {
				t = append([]byte("sha512"), t[6:]...)
			} else {
				t = append([]byte("sha256"), t[6:]...)
			}
		case 4:
			t[bytes.IndexByte(t, ':')+1+rnd.Intn(len(t)-7)] = byte(rnd.Pick("g", "G", " ", ":", "\x00", "F")[0])
		}
		opDigUnx(r, old, t)
		for _, s := range textSrcs(t) {
			opDigScan(r, old, s)
		}
		// Value -> Scan of a constructed digest, into any receiver
		val, _ := d.Value()
		back := recvDigest(old)
		if err := back.Scan(val); err != nil || showDigest(back) != showDigest(d) {
			failW(r, "", "Digest Value/Scan round trip into a used receiver: "+d.String())
		}
	}

	// Version: receiver state after accepted and rejected texts
	for _, p := range [][2]string{{"k:1.2.3", "k:7.x"}, {"k:1.2.3", "j:"}, {"k:1.2.3", "j:9.9.9.9.9.9.9.9.9.9.9"}, {"k:1.2.3", "nocolon"}, {"k:1.2.3", ""}, {"k:1.2.3", "j:1..3"}, {"k:1.2.3", "j:4.5.2147483648"}, {"", "k:7.x"}, {"k:1", ":"}} {
		opVerUnx(r, []byte(p[0]), []byte(p[1]))
	}
	for i := 0; i < cfg.N(1500, 60000); i++ {
		v := randVersion(rnd)
		a, _ := v.MarshalText()
		w := randVersion(rnd)
		b, _ := w.MarshalText()
		switch rnd.Intn(7) {
		case 0:
			b[rnd.Intn(len(b))] = byte(rnd.Intn(256))
		case 1:
			b = append(b, []byte(".1.2.3")[:rnd.Intn(7)]...)
		case 2:
			b = b[:rnd.Intn(len(b))]
		case 3:
			// one component out of int32 range, somewhere in the middle
			parts := bytes.Split(b, []byte("."))
			if len(parts) < 2 {
				// a text form with a single component has no middle: leave it as it is
				break
			}
			parts[1+rnd.Intn(len(parts)-1)] = []byte(rnd.Pick("2147483648", "-2147483649", "99999999999999999999", "+7", "-0", "1_0", "0x1", "", " 1", "1e3", "\x00"))
			b = bytes.Join(parts, []byte("."))
		}
		opVerUnx(r, a, b)
	}
}

// opWfnScan: cpe.WFN.Scan of one source value into a receiver that decoded old.
func opWfnScan(r *hx.Run, old string, s srcV) {
	var w cpe.WFN
	if err := w.UnmarshalText([]byte(old)); err != nil {
		return
	}
	before := w
	out := hx.Guard(func() string {
		if err := w.Scan(s.v); err != nil {
			if w != before {
				// no partial mutation (repaired defect): a rejected source leaves the receiver alone
				failW(r, "", fmt.Sprintf("cpe.WFN.Scan(%T %s) failed and changed its receiver from %q to %q", s.v, s.wire, before.String(), w.BindFS()))
			}
			return "err"
		}
		b, err := w.MarshalText()
		if err != nil {
			return "ok invalid"
		}
		if bs, ok := s.v.([]byte); ok {
			// the scanned name must not reach into the driver's buffer
			for i := range bs {
				bs[i] ^= 0x55
			}
			if b2, _ := w.MarshalText(); string(b2) != string(b) {
				failW(r, "", "a scanned cpe.WFN changed when the []byte it was scanned from was overwritten: "+string(b)+" -> "+string(b2))
			}
		}
		// Value -> Scan gives the same name back
		val, err := w.Value()
		var back cpe.WFN
		if err != nil || back.Scan(val) != nil || back.String() != w.String() {
			failW(r, "", "cpe.WFN Value/Scan round trip of "+string(b))
		}
		return "ok " + hx.Hex(b)
	})
	if out == "panic" {
		failW(r, "", fmt.Sprintf("cpe.WFN.Scan(%T) panics on %q (%s)", s.v, textOf(s.v), s.wire))
	}
	if str, ok := s.v.(string); ok {
		// UnmarshalText is the same decoder as Scan(string), with the same care for its receiver
		u := before
		o2 := hx.Guard(func() string {
			if err := u.UnmarshalText([]byte(str)); err != nil {
				if u != before {
					failW(r, "", fmt.Sprintf("cpe.WFN.UnmarshalText(%q) failed and changed its receiver from %q to %q", str, before.String(), u.BindFS()))
				}
				return "err"
			}
			b, err := u.MarshalText()
			if err != nil {
				return "ok invalid"
			}
			return "ok " + hx.Hex(b)
		})
		// (the empty string is where they differ by design: Scan documents that it keeps the receiver)
		if o2 != out && str != "" {
			failW(r, "", fmt.Sprintf("cpe.WFN.UnmarshalText(%q) = %s but Scan of the same string = %s", str, o2, out))
		}
		r.Op("wfn-un "+hx.Hex([]byte(old))+" "+hx.Hex([]byte(str)), o2, true)
	}
	r.Op("wfn-scan "+hx.Hex([]byte(old))+" "+s.wire, out, true)
	if str, ok := s.v.(string); ok && str != "" && old == "" {
		// pkg/cpe is a re-export of the same decoders: same line, same answer
		o3 := hx.Guard(func() string {
			n, err := pkgcpe.Unbind(str)
			if err != nil {
				return "err"
			}
			b, err := n.MarshalText()
			if err != nil {
				return "ok invalid"
			}
			return "ok " + hx.Hex(b)
		})
		if o3 != out {
			failW(r, "", fmt.Sprintf("pkg/cpe.Unbind(%q) = %s but toolkit cpe (Scan) = %s", str, o3, out))
		}
		r.Op("wfn-scan - "+s.wire, o3, false)
		for name, f := range map[string][2]func(string) (cpe.WFN, error){"UnbindFS": {pkgcpe.UnbindFS, cpe.UnbindFS}, "UnbindURI": {pkgcpe.UnbindURI, cpe.UnbindURI}} {
			if hx.Guard(func() string {
				a, ea := f[0](str)
				b, eb := f[1](str)
				if a != b || (ea == nil) != (eb == nil) {
					failW(r, "", fmt.Sprintf("pkg/cpe.%s(%q) differs from the toolkit function it re-exports", name, str))
				}
				return ""
			}) == "panic" {
				failW(r, "", fmt.Sprintf("cpe.%s panics on %q", name, str))
			}
		}
	}
	r.Count("wfn-scan:" + s.wire[:1] + ":" + out[:2])
}

func opUTF8(r *hx.Run, b []byte) {
	r.Op("utf8 "+hx.Hex(b), hx.Hex([]byte(strings.ToValidUTF8(string(b), "\uFFFD"))), true)
}

// runWFN: marshaling.go's wrappers (the text codec underneath is C19's).
func runWFN(r *hx.Run, cfg hx.Config, rnd *hx.Rand) {
	pool := []string{
		"", "cpe:2.3:o:redhat:enterprise_linux:8:*:*:*:*:*:*:*", "cpe:2.3:a:vendor:product:1.0:*:*:*:*:*:*:*",
		"cpe:2.3:a:foo\\:bar:big\\$money:2010:*:*:*:special:ipod_touch:80gb:*", "cpe:2.3:*:*:*:*:*:*:*:*:*:*:*",
		"cpe:2.3:a:-:-:-:-:-:-:-:-:-:-", "cpe:/o:redhat:enterprise_linux:8::baseos", "cpe:/a:b:c", "cpe:2.3:a", "cpe:/",
	}
	olds := []string{"", pool[1], pool[6]}
	for _, old := range olds {
		for _, s := range foreignSrcs() {
			opWfnScan(r, old, s)
		}
		opWfnScan(r, old, intSrc(0))
		for _, t := range pool {
			for _, s := range textSrcs([]byte(t)) {
				opWfnScan(r, old, s)
			}
		}
		for _, t := range []string{"garbage", "cpe:2.3:x:*:*:*:*:*:*:*:*:*:*", "cpe:2.3:a:b:c:d:e:f:g:h:i:j:k:l", "cpe:2.3:a:v\xff:*:*:*:*:*:*:*:*:*", "\xffcpe:2.3:a:v:*:*:*:*:*:*:*:*:*", "cpe:2.3:a:v\x00:*:*:*:*:*:*:*:*:*", "cpe:/a:%ff", "cpe:2.3:a:\xc3\xa9:*:*:*:*:*:*:*:*:*"} {
			for _, s := range textSrcs([]byte(t)) {
				opWfnScan(r, old, s)
			}
		}
	}
	for i := 0; i < cfg.N(400, 20000); i++ {
		t := []byte(pool[1+rnd.Intn(len(pool)-1)])
		switch rnd.Intn(6) {
		case 0:
			t[rnd.Intn(len(t))] = byte(rnd.Intn(256))
		case 1:
			t = t[:rnd.Intn(len(t))]
		case 2:
			t = append(t, []byte(rnd.Pick(":x", ":*", "\\", "*", "?", "\x80"))...)
		case 3:
			t[rnd.Intn(len(t))] = byte(rnd.Pick("*", "?", "\\", ":", "-", "_", "~", "%", " ", "A")[0])
		}
		old := olds[rnd.Intn(len(olds))]
		for _, s := range textSrcs(t) {
			opWfnScan(r, old, s)
		}
	}
	// strings.ToValidUTF8 as Scan([]byte) uses it
	for _, h := range []string{"", "41", "80", "c0", "c080", "c2", "c2a9", "c2a9c2", "e0a080", "e09f80", "eda080", "ed9fbf", "ef", "efbf", "efbfbd", "f0908080", "f08f8080", "f48fbfbf", "f4908080", "f5", "ff", "80808041808080", "41ff42ff", "e282ac41e282"} {
		b, _ := hx.Unhex(h)
		if h == "" {
			b = nil
		}
		opUTF8(r, b)
	}
	for i := 0; i < cfg.N(600, 40000); i++ {
		n := 1 + rnd.Intn(7)
		b := make([]byte, n)
		for k := range b {
			b[k] = byte(rnd.Pick("A", "\x80", "\xbf", "\xc2", "\xe0", "\xa0", "\xed", "\x9f", "\xf0", "\x90", "\xf4", "\x8f", "\xef", "\xc0", "\xff", "\xe2")[0])
		}
		opUTF8(r, b)
	}
}

// runEncodeAliasing: the bytes an encoder returns belong to the caller: a later
// encoding must not change them, and scribbling over them must not change the
// value they came from (nor what it encodes to next time).
func runEncodeAliasing(r *hx.Run, cfg hx.Config, rnd *hx.Rand) {
	type enc struct {
		name string
		f    func() ([]byte, error)
	}
	for i := 0; i < cfg.N(300, 20000) && !r.Stop(); i++ {
		d1, d2 := randDigest(rnd), randDigest(rnd)
		v1, v2 := randVersion(rnd), randVersion(rnd)
		s1, s2 := claircore.Severity(rnd.Intn(6)), claircore.Severity(rnd.Intn(6))
		a1, a2 := claircore.ArchOp(rnd.Intn(4)), claircore.ArchOp(rnd.Intn(4))
		w1, w2 := randCPE(rnd), randCPE(rnd)
		u1, u2 := claircore.Duration(randDur(rnd)), claircore.Duration(randDur(rnd))
		pairs := [][2]enc{
			{{"Digest", d1.MarshalText}, {"Digest", d2.MarshalText}},
			{{"Version", v1.MarshalText}, {"Version", v2.MarshalText}},
			{{"Severity", s1.MarshalText}, {"Severity", s2.MarshalText}},
			{{"ArchOp", a1.MarshalText}, {"ArchOp", a2.MarshalText}},
			{{"cpe.WFN", w1.MarshalText}, {"cpe.WFN", w2.MarshalText}},
			{{"Duration", (&u1).MarshalText}, {"Duration", (&u2).MarshalText}},
		}
		for _, p := range pairs {
			out := hx.Guard(func() string {
				t1, err := p[0].f()
				if err != nil {
					return "ok"
				}
				keep := string(t1)
				t2, _ := p[1].f()
				if string(t1) != keep {
					return fmt.Sprintf("the text %q returned by %s.MarshalText changed to %q when another value was marshalled (%q)", keep, p[0].name, t1, t2)
				}
				for k := range t1 {
					t1[k] ^= 0x20
				}
				t3, _ := p[0].f()
				if string(t3) != keep {
					return fmt.Sprintf("%s.MarshalText gives %q after the bytes it returned before (%q) were overwritten", p[0].name, t3, keep)
				}
				return "ok"
			})
			r.Case("enc-alias "+p[0].name, true)
			if out != "ok" {
				failW(r, "", out)
			}
		}
	}
}
