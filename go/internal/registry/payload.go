package registry

import (
	"archive/tar"
	"bytes"
	"compress/bzip2"
	"encoding/hex"
	"io"

	"github.com/klauspost/compress/gzip"
	"github.com/klauspost/compress/zstd"
)

// File is one regular file of a generated layer.
type File struct {
	Name string
	Data []byte
}

// Tar builds a tar archive of regular files. trailer=false leaves out the two
// zero blocks that end an archive (still a readable archive).
func Tar(files []File, trailer bool) []byte {
	var buf bytes.Buffer
	tw := tar.NewWriter(&buf)
	for _, f := range files {
		tw.WriteHeader(&tar.Header{Typeflag: tar.TypeReg, Name: f.Name, Size: int64(len(f.Data)), Mode: 0o644, Format: tar.FormatUSTAR})
		tw.Write(f.Data)
	}
	if trailer {
		tw.Close()
	} else {
		tw.Flush()
	}
	return buf.Bytes()
}

// Compression names used by the harnesses.
const (
	Plain = "plain"
	Gzip  = "gzip"
	Zstd  = "zstd"
	Bzip2 = "bzip2"
)

// GzipBytes compresses b as one gzip member at the given level.
func GzipBytes(b []byte, level int) []byte {
	var buf bytes.Buffer
	zw, _ := gzip.NewWriterLevel(&buf, level)
	zw.Write(b)
	zw.Close()
	return buf.Bytes()
}

// GzipMembers compresses the parts as consecutive gzip members (a
// multistream file whose decompression is the concatenation).
func GzipMembers(parts [][]byte, level int) []byte {
	var out []byte
	for _, p := range parts {
		out = append(out, GzipBytes(p, level)...)
	}
	return out
}

// ZstdBytes compresses b as one zstd frame. checksum adds the content checksum.
func ZstdBytes(b []byte, checksum bool) []byte {
	zw, _ := zstd.NewWriter(nil, zstd.WithEncoderCRC(checksum), zstd.WithEncoderConcurrency(1))
	defer zw.Close()
	return zw.EncodeAll(b, nil)
}

// ZstdFrames compresses the parts as consecutive zstd frames.
func ZstdFrames(parts [][]byte, checksum bool) []byte {
	var out []byte
	for _, p := range parts {
		out = append(out, ZstdBytes(p, checksum)...)
	}
	return out
}

// ZstdSkippable is a zstd skippable frame carrying n bytes of user data.
func ZstdSkippable(n int) []byte {
	out := []byte{0x50, 0x2A, 0x4D, 0x18, byte(n), byte(n >> 8), byte(n >> 16), byte(n >> 24)}
	for i := 0; i < n; i++ {
		out = append(out, byte(0xA0+i%7))
	}
	return out
}

// bzip2TarHex is `bzip2 -9` of a 10240-byte USTAR archive holding the one
// file etc/bz ("bzip2 layer\n"). compress/bzip2 has no writer, so the
// compressed form is a literal.
const bzip2TarHex = "425a683931415926535942e63acc0000727b80ca9001004000f78000107a245e30080820005434841a68d0c469a34d3f5412513234d1900001f7b11a84153908459cce03230a502180f693d66f13982325a09323bf9a6bc60d5287b59961a5216ad895fd711b22201f8bb9229c284821731d6600"

// Bzip2Tar returns a bzip2-compressed tar archive and its decompressed form.
func Bzip2Tar() (compressed, plain []byte) {
	compressed, _ = hex.DecodeString(bzip2TarHex)
	plain, _ = io.ReadAll(bzip2.NewReader(bytes.NewReader(compressed)))
	return compressed, plain
}
