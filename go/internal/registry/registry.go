// Package registry is a scripted layer/feed server for the verification
// harnesses. One Response value describes exactly what goes on the wire
// (status, headers, body bytes, framing, write chunking) and how the response
// ends (cleanly, connection closed early, connection reset, stall). The same
// script can be served two ways:
//
//   - Server: a loopback net/http/httptest server that hijacks the connection
//     and writes the raw HTTP/1.1 response, so the real net/http client
//     transport is in the path;
//   - Transport: an in-process http.RoundTripper that hands the scripted bytes
//     to the caller with exactly the scripted read boundaries and terminal
//     error. It is deterministic and fast, and is what the large sweeps use.
//
// Response.Delivered states what a correct HTTP/1.1 client delivers to the
// reader of the body for the script; the harness checks the loopback server
// against it (the transport contract) on a sample of scripts in every run.
//
// The package depends only on the standard library and on
// github.com/klauspost/compress (payload.go), which claircore itself requires.
package registry

import (
	"bufio"
	"compress/gzip"
	"context"
	"errors"
	"fmt"
	"io"
	"net"
	"net/http"
	"net/http/httptest"
	"sort"
	"strconv"
	"strings"
	"sync"
	"syscall"
	"time"
)

// Framing is how the length of the body is communicated.
type Framing int

const (
	// FrameLength sends a Content-Length header (Response.Declared, or the
	// length of the body when Declared < 0).
	FrameLength Framing = iota
	// FrameChunked uses chunked transfer encoding, one HTTP chunk per write.
	FrameChunked
	// FrameClose sends neither; the body ends when the connection closes
	// (a truncation is then invisible to the transport).
	FrameClose
)

func (f Framing) String() string { return [...]string{"length", "chunked", "close"}[f] }

// End is how the response ends after Response.Body has been written.
type End int

const (
	// EndClean completes the framing (terminal chunk for FrameChunked).
	EndClean End = iota
	// EndClose closes the connection without completing the framing.
	EndClose
	// EndReset resets the connection (RST).
	EndReset
	// EndStall writes nothing more and keeps the connection open until the
	// client goes away.
	EndStall
)

func (e End) String() string { return [...]string{"clean", "close", "reset", "stall"}[e] }

// Term is the terminal condition the reader of a response body observes.
type Term int

const (
	TermEOF           Term = iota // io.EOF
	TermUnexpectedEOF             // io.ErrUnexpectedEOF
	TermReset                     // a read error (connection reset)
	TermStall                     // blocks until the request context is done
)

func (t Term) String() string { return [...]string{"eof", "short", "reset", "stall"}[t] }

// ErrReset is the read error the in-process transport reports for EndReset.
var ErrReset = &net.OpError{Op: "read", Net: "tcp", Err: syscall.ECONNRESET}

// Response is one scripted response.
type Response struct {
	Status int // 0 means 200
	// Header holds the exact response headers. Content-Type is absent unless
	// set here (no sniffing); Content-Length and Transfer-Encoding are managed
	// by Framing.
	Header   http.Header
	Body     []byte
	Framing  Framing
	Declared int   // Content-Length for FrameLength; < 0 means len(Body)
	Chunks   []int // sizes of the successive writes / reads; the remainder goes in one
	End      End
	// RefuseConn makes the request itself fail (in-process transport only:
	// RoundTrip returns an error; the loopback server closes the connection
	// before writing a status line).
	RefuseConn bool
}

// New returns a 200 response with the given content type ("" = no header) and body.
func New(contentType string, body []byte) *Response {
	r := &Response{Status: 200, Header: http.Header{}, Body: body, Declared: -1}
	if contentType != "" {
		r.Header.Set("Content-Type", contentType)
	}
	return r
}

// Clone returns a deep copy.
func (r *Response) Clone() *Response {
	c := *r
	c.Header = r.Header.Clone()
	c.Body = append([]byte(nil), r.Body...)
	c.Chunks = append([]int(nil), r.Chunks...)
	return &c
}

func (r *Response) status() int {
	if r.Status == 0 {
		return 200
	}
	return r.Status
}

func (r *Response) declared() int {
	if r.Declared < 0 {
		return len(r.Body)
	}
	return r.Declared
}

// Delivered is what a correct HTTP/1.1 client hands to the reader of the
// response body: the bytes, and the terminal condition after them.
func (r *Response) Delivered() ([]byte, Term) {
	body := r.Body
	switch r.Framing {
	case FrameLength:
		d := r.declared()
		if d <= len(body) {
			// The client stops at Content-Length whatever follows.
			return body[:d], TermEOF
		}
		switch r.End {
		case EndClean, EndClose:
			return body, TermUnexpectedEOF
		case EndReset:
			return body, TermReset
		default:
			return body, TermStall
		}
	case FrameChunked:
		switch r.End {
		case EndClean:
			return body, TermEOF
		case EndClose:
			return body, TermUnexpectedEOF
		case EndReset:
			return body, TermReset
		default:
			return body, TermStall
		}
	default: // FrameClose
		switch r.End {
		case EndClean, EndClose:
			return body, TermEOF
		case EndReset:
			return body, TermReset
		default:
			return body, TermStall
		}
	}
}

// cuts returns the write boundaries of body according to Chunks.
func (r *Response) cuts(n int) []int {
	var out []int
	off := 0
	for _, c := range r.Chunks {
		if c <= 0 {
			continue
		}
		if off+c >= n {
			break
		}
		off += c
		out = append(out, off)
	}
	return append(out, n)
}

// Describe renders the script on one line (for witnesses and replays).
func (r *Response) Describe() string {
	var hs []string
	for k, v := range r.Header {
		hs = append(hs, k+"="+strings.Join(v, ","))
	}
	sort.Strings(hs)
	return fmt.Sprintf("status=%d hdr=[%s] len=%d framing=%s declared=%d end=%s chunks=%v", r.status(), strings.Join(hs, ";"), len(r.Body), r.Framing, r.declared(), r.End, r.Chunks)
}

// AsksGzip reports whether net/http's Transport adds "Accept-Encoding: gzip"
// to a request with these headers (and therefore undoes a gzip
// Content-Encoding of the response on its own): no Accept-Encoding and no
// Range header in the request, method not HEAD.
func AsksGzip(method string, h http.Header) bool {
	return h.Get("Accept-Encoding") == "" && h.Get("Range") == "" && method != http.MethodHead
}

// Decoded reports whether a client that asked for gzip on its own hands out
// the body of this response content-decoded: "Content-Encoding: gzip"
// (ASCII case-insensitive, the first value) on a response that can have a body.
func (r *Response) Decoded(askedGzip bool) bool {
	if !askedGzip || !strings.EqualFold(r.Header.Get("Content-Encoding"), "gzip") {
		return false
	}
	return !(r.Framing == FrameLength && r.declared() == 0)
}

// DeliveredTo is Delivered for a request with the given method and headers:
// when the transport undoes the gzip content coding, the reader of the body
// sees what compress/gzip (the package net/http uses) makes of the delivered
// entity followed by its terminal condition.
func (r *Response) DeliveredTo(method string, h http.Header) ([]byte, Term) {
	data, term := r.Delivered()
	if !r.Decoded(AsksGzip(method, h)) {
		return data, term
	}
	src := &scriptBody{ctx: context.Background(), data: data, cuts: []int{len(data)}, term: term, stallErr: context.DeadlineExceeded}
	out, err := io.ReadAll(&lazyGzip{body: src})
	switch {
	case err == nil:
		return out, TermEOF
	case errors.Is(err, io.ErrUnexpectedEOF):
		return out, TermUnexpectedEOF
	case errors.Is(err, context.DeadlineExceeded):
		return out, TermStall
	default:
		return out, TermReset
	}
}

// lazyGzip mirrors net/http's gzipReader: the gzip header is read on the first
// Read, and its error is sticky.
type lazyGzip struct {
	body io.ReadCloser
	zr   *gzip.Reader
	zerr error
}

func (g *lazyGzip) Read(p []byte) (int, error) {
	if g.zr == nil {
		if g.zerr == nil {
			g.zr, g.zerr = gzip.NewReader(g.body)
		}
		if g.zerr != nil {
			return 0, g.zerr
		}
	}
	return g.zr.Read(p)
}

func (g *lazyGzip) Close() error { return g.body.Close() }

// Request is what the server saw of one request.
type Request struct {
	Method string
	Path   string
	Header http.Header
}

// routeTable is shared by Transport and Server: scripts by path, each path
// with a sequence of responses (the n-th request gets the n-th, the last one
// repeats), and a log of the requests.
type routeTable struct {
	mu     sync.Mutex
	routes map[string][]*Response
	hits   map[string]int
	log    map[string][]Request
}

func newRouteTable() routeTable {
	return routeTable{routes: map[string][]*Response{}, hits: map[string]int{}, log: map[string][]Request{}}
}

// Set installs one script for a path ("/x"); every request gets it.
func (t *routeTable) Set(path string, r *Response) { t.SetSeq(path, []*Response{r}) }

// SetSeq installs the scripts of successive requests for a path; the last
// one repeats.
func (t *routeTable) SetSeq(path string, rs []*Response) {
	t.mu.Lock()
	t.routes[path] = rs
	t.hits[path] = 0
	delete(t.log, path)
	t.mu.Unlock()
}

// Hits is the number of requests seen for the path since it was set.
func (t *routeTable) Hits(path string) int {
	t.mu.Lock()
	defer t.mu.Unlock()
	return t.hits[path]
}

// Requests is the log of the requests seen for the path since it was set.
func (t *routeTable) Requests(path string) []Request {
	t.mu.Lock()
	defer t.mu.Unlock()
	return append([]Request(nil), t.log[path]...)
}

// take records a request and returns its script (nil: no such path) and its
// ordinal (1 for the first).
func (t *routeTable) take(req *http.Request) (*Response, int) {
	t.mu.Lock()
	defer t.mu.Unlock()
	path := req.URL.Path
	t.hits[path]++
	n := t.hits[path]
	t.log[path] = append(t.log[path], Request{Method: req.Method, Path: path, Header: req.Header.Clone()})
	rs := t.routes[path]
	if len(rs) == 0 {
		return nil, n
	}
	if n > len(rs) {
		return rs[len(rs)-1], n
	}
	return rs[n-1], n
}

// ---------------------------------------------------------------------------
// in-process transport

// Transport is an http.RoundTripper serving scripts by URL path.
type Transport struct {
	routeTable
	// Gate, if set, is called for every request after it has been recorded and
	// before it is answered, with the path and the ordinal of the request for
	// that path. It may block: the controlled schedules hold a download here.
	Gate func(path string, n int)
}

func NewTransport() *Transport {
	return &Transport{routeTable: newRouteTable()}
}

// URL is the URL to request for a path.
func (t *Transport) URL(path string) string { return "http://registry.invalid" + path }

// Client returns an http.Client using the transport.
func (t *Transport) Client() *http.Client { return &http.Client{Transport: t} }

func (t *Transport) RoundTrip(req *http.Request) (*http.Response, error) {
	// what net/http.Transport checks before it dials
	if req.URL == nil || (req.URL.Scheme != "http" && req.URL.Scheme != "https") {
		return nil, errors.New("registry: unsupported protocol scheme")
	}
	if req.URL.Host == "" {
		return nil, errors.New("registry: no Host in request URL")
	}
	r, n := t.take(req)
	if g := t.Gate; g != nil {
		g(req.URL.Path, n)
	}
	if err := req.Context().Err(); err != nil {
		return nil, err
	}
	if r == nil {
		r = &Response{Status: 404, Header: http.Header{}, Declared: -1}
	}
	if r.RefuseConn {
		return nil, &net.OpError{Op: "dial", Net: "tcp", Err: syscall.ECONNREFUSED}
	}
	data, term := r.Delivered()
	resp := &http.Response{
		Status:        fmt.Sprintf("%d %s", r.status(), http.StatusText(r.status())),
		StatusCode:    r.status(),
		Proto:         "HTTP/1.1",
		ProtoMajor:    1,
		ProtoMinor:    1,
		Header:        r.Header.Clone(),
		Request:       req,
		ContentLength: -1,
	}
	if resp.Header == nil {
		resp.Header = http.Header{}
	}
	if r.Framing == FrameLength {
		resp.ContentLength = int64(r.declared())
		resp.Header.Set("Content-Length", strconv.Itoa(r.declared()))
	} else if r.Framing == FrameChunked {
		resp.TransferEncoding = []string{"chunked"}
	}
	resp.Body = &scriptBody{ctx: req.Context(), data: data, cuts: r.cuts(len(data)), term: term}
	if r.Decoded(AsksGzip(req.Method, req.Header)) {
		// what net/http's Transport does when it asked for gzip by itself
		resp.Body = &lazyGzip{body: resp.Body}
		resp.Header.Del("Content-Encoding")
		resp.Header.Del("Content-Length")
		resp.ContentLength = -1
		resp.Uncompressed = true
	}
	return resp, nil
}

// scriptBody delivers data with the scripted read boundaries, then the
// terminal condition (sticky).
type scriptBody struct {
	ctx    context.Context
	data   []byte
	cuts   []int
	off    int
	term   Term
	closed bool
	// stallErr, if set, is reported for TermStall instead of blocking
	// (DeliveredTo evaluates a script without a request).
	stallErr error
}

func (b *scriptBody) Read(p []byte) (int, error) {
	if b.closed {
		return 0, errors.New("http: read on closed response body")
	}
	if err := b.ctx.Err(); err != nil {
		return 0, err
	}
	if len(p) == 0 {
		return 0, nil
	}
	if b.off < len(b.data) {
		for len(b.cuts) > 0 && b.cuts[0] <= b.off {
			b.cuts = b.cuts[1:]
		}
		end := len(b.data)
		if len(b.cuts) > 0 {
			end = b.cuts[0]
		}
		n := copy(p, b.data[b.off:end])
		b.off += n
		return n, nil
	}
	switch b.term {
	case TermEOF:
		return 0, io.EOF
	case TermUnexpectedEOF:
		return 0, io.ErrUnexpectedEOF
	case TermReset:
		return 0, ErrReset
	default:
		if b.stallErr != nil {
			return 0, b.stallErr
		}
		<-b.ctx.Done()
		return 0, b.ctx.Err()
	}
}

func (b *scriptBody) Close() error { b.closed = true; return nil }

// ---------------------------------------------------------------------------
// loopback server

// Server serves scripts over a loopback TCP listener.
type Server struct {
	routeTable
	srv *httptest.Server
	// StallMax bounds how long a stalled response keeps its connection.
	StallMax time.Duration
}

func NewServer() *Server {
	s := &Server{routeTable: newRouteTable(), StallMax: 15 * time.Second}
	s.srv = httptest.NewServer(http.HandlerFunc(s.serve))
	return s
}

func (s *Server) Close() {
	s.srv.CloseClientConnections()
	s.srv.Close()
}

// Client returns a client for the server. Transparent gzip decoding is left
// at the net/http default.
func (s *Server) Client() *http.Client { return s.srv.Client() }

func (s *Server) URL(path string) string { return s.srv.URL + path }

func (s *Server) serve(w http.ResponseWriter, req *http.Request) {
	r, _ := s.take(req)
	if r == nil {
		http.NotFound(w, req)
		return
	}
	hj, ok := w.(http.Hijacker)
	if !ok {
		http.Error(w, "no hijack", 500)
		return
	}
	conn, _, err := hj.Hijack()
	if err != nil {
		return
	}
	defer conn.Close()
	if r.RefuseConn {
		return
	}
	bw := bufio.NewWriter(conn)
	fmt.Fprintf(bw, "HTTP/1.1 %d %s\r\n", r.status(), http.StatusText(r.status()))
	keys := make([]string, 0, len(r.Header))
	for k := range r.Header {
		keys = append(keys, k)
	}
	sort.Strings(keys)
	for _, k := range keys {
		for _, v := range r.Header[k] {
			fmt.Fprintf(bw, "%s: %s\r\n", k, v)
		}
	}
	switch r.Framing {
	case FrameLength:
		fmt.Fprintf(bw, "Content-Length: %d\r\n", r.declared())
	case FrameChunked:
		fmt.Fprintf(bw, "Transfer-Encoding: chunked\r\n")
	}
	fmt.Fprintf(bw, "Connection: close\r\n\r\n")
	bw.Flush()
	off := 0
	for _, end := range r.cuts(len(r.Body)) {
		part := r.Body[off:end]
		off = end
		if len(part) == 0 {
			continue
		}
		if r.Framing == FrameChunked {
			fmt.Fprintf(bw, "%x\r\n", len(part))
			bw.Write(part)
			bw.WriteString("\r\n")
		} else {
			bw.Write(part)
		}
		if bw.Flush() != nil {
			return
		}
	}
	switch r.End {
	case EndClean:
		if r.Framing == FrameChunked {
			bw.WriteString("0\r\n\r\n")
			bw.Flush()
		}
		// Let the client read everything before the FIN: half-close, then
		// wait for the peer.
		if tc, ok := conn.(*net.TCPConn); ok {
			tc.CloseWrite()
			s.waitPeer(conn, 2*time.Second)
		}
	case EndClose:
		if tc, ok := conn.(*net.TCPConn); ok {
			tc.CloseWrite()
			s.waitPeer(conn, 2*time.Second)
		}
	case EndReset:
		// Give the client a moment to read what was written: a reset may
		// discard data still queued in the peer's receive buffer.
		time.Sleep(20 * time.Millisecond)
		if tc, ok := conn.(*net.TCPConn); ok {
			tc.SetLinger(0)
		}
	case EndStall:
		s.waitPeer(conn, s.StallMax)
	}
}

// waitPeer blocks until the client closes its side (or max elapses).
func (s *Server) waitPeer(conn net.Conn, max time.Duration) {
	conn.SetReadDeadline(time.Now().Add(max))
	var b [256]byte
	for {
		if _, err := conn.Read(b[:]); err != nil {
			return
		}
	}
}
