package ctrl

import (
	"fmt"
	"os"
	"path/filepath"
	"reflect"
	"strconv"
	"strings"

	"github.com/quay/claircore/indexer"
	"github.com/quay/claircore/verifharness/internal/hx"
	"github.com/quay/claircore/verifharness/internal/memstore"
)

// Session performs operations on the real code and records them in the line
// protocol. It also keeps what the direct oracles need: which manifests were
// touched since the last reset and the cold-run results.
type Session struct {
	R *hx.Run
	W *World

	Manifests map[string][]int // LayersString -> layers, since reset
	Lost      bool             // a call hung: the world is unusable
	cold      map[string]Result
	// Quiet sessions do not emit protocol lines (used with Concurrency > 1,
	// where the call numbering depends on the schedule): direct checks only.
	Quiet       bool
	Concurrency int

	everOff map[memstore.ScannerKey]bool // scanners that were configured with a failing Configure since reset

	// SchedRnd: when set, every Index call runs its scanner goroutines under the
	// seeded scheduler (Concurrency is the errgroup's limit) and is emitted as a
	// `pindex` line carrying the schedule; a non-empty fault script then only
	// means "grant one call in FaultRate with a fault".
	SchedRnd  *hx.Rand
	FaultRate int
}

func (s *Session) op(op, out string, nontrivial bool) {
	if s.Quiet {
		s.R.Case("quiet "+op+" => "+out, nontrivial)
		return
	}
	s.R.Op(op, out, nontrivial)
}

func NewSession(r *hx.Run) *Session {
	return &Session{R: r, cold: map[string]Result{}}
}

func (s *Session) Reset() {
	s.W = NewWorld()
	s.W.Concurrency = s.Concurrency
	s.Manifests = map[string][]int{}
	s.everOff = map[memstore.ScannerKey]bool{}
	if !s.Quiet {
		s.R.Op("reset", "ok", false)
	}
}

func (s *Session) Config(cfg Config) {
	out, err := s.W.Configure(cfg)
	if err != nil {
		out = "err"
	}
	s.op(ConfigOp(cfg), out, true)
	s.R.Count(fmt.Sprintf("config.scanners=%d", len(cfg)))
}

// Index performs one index operation and emits it.
func (s *Session) Index(layers []int, script Script, dead bool) Result {
	if s.SchedRnd != nil && !dead {
		rate := 0
		if len(script) > 0 {
			rate = s.FaultRate
		}
		res, sched := s.W.IndexSched(layers, s.SchedRnd, rate)
		s.Manifests[LayersString(layers)] = layers
		s.op(PIndexOp(layers, max(1, s.W.Concurrency), sched), res.Line(), true)
		if res.Hang {
			s.Lost = true
		}
		s.count(res, Script{}, false)
		s.R.Count(fmt.Sprintf("sched.steps<=%d", bucket(strings.Count(sched, ",")+1)))
		if res.SchedFirst != 0 {
			s.R.Count(fmt.Sprintf("sched.first-fault=%c", res.SchedFirst))
		}
		return res
	}
	res := s.W.Index(layers, script, dead)
	s.Manifests[LayersString(layers)] = layers
	nontrivial := res.Failed || len(script) > 0 || dead || res.Trace != "MGR"
	s.op(IndexOp(layers, script, dead), res.Line(), nontrivial)
	if res.Hang {
		s.Lost = true
	}
	s.count(res, script, dead)
	return res
}

// New performs one libindex.New with faulty arguments / environment and emits it.
func (s *Session) New(nf NewFaults, cfg Config) string {
	out := s.W.New(nf, cfg)
	s.op(NewOp(nf, cfg), out, true)
	if strings.HasPrefix(out, "tok") {
		s.R.Count("new.ok")
	} else {
		s.R.Count("new." + strings.SplitN(out, " ", 2)[0] + " faults=" + nf.String()[:1])
	}
	return out
}

// Run drives controller.run with scripted state functions and emits it.
func (s *Session) Run(script []RunIter) string {
	out := RunScript(script)
	s.op(RunOp(script), out, true)
	s.R.Count(fmt.Sprintf("run.iters=%d", len(script)))
	s.R.Count(fmt.Sprintf("run.waits=%d", strings.Count(out, "w:")))
	if strings.Contains(out, "w:j") {
		s.R.Count("run.jitter-wait")
	}
	return out
}

// State evaluates the state token of a configuration and emits it.
func (s *Session) State(cfg Config) string {
	out := s.W.State(cfg)
	s.op(StateOp(cfg), out, true)
	s.R.Count(fmt.Sprintf("state.scanners<=%d", (len(cfg)+9)/10*10))
	return out
}

// StateOfEcosystems evaluates the token of real ecosystems and emits it (when
// their scanners' names can be written in a protocol line).
func (s *Session) StateOfEcosystems(ecos []*indexer.Ecosystem) string {
	op, out := s.W.StateOfEcosystems(ecos)
	if op != "" {
		s.op(op, out, true)
	}
	s.R.Count("state.real-ecosystems")
	return out
}

// Net switches the world's network (scanners flagged N) and emits it.
func (s *Session) Net(down bool) {
	s.W.NetDown = down
	x := "up"
	if down {
		x = "down"
	}
	s.op("net "+x, "ok", false)
	s.R.Count("net." + x)
}

// Delete performs one DeleteManifests operation and emits it.
func (s *Session) Delete(ms [][]int) string {
	out := s.W.Delete(ms)
	s.op(DeleteOp(ms), out, true)
	s.R.Count(fmt.Sprintf("delete.manifests=%d", len(ms)))
	return out
}

func (s *Session) count(res Result, script Script, dead bool) {
	r := s.R
	switch {
	case res.Hang:
		r.Count("index.hang")
	case res.Panic:
		r.Count("index.panic")
	case res.Crashed:
		r.Count("index.crashed")
	default:
		r.Count("index.err=" + res.ErrClass)
		r.Count("index.state=" + res.State)
	}
	if dead {
		r.Count("index.dead-context")
	}
	if res.Trace == "MGR" {
		r.Count("index.lookup")
	}
	for p, k := range script {
		if p < len(res.Trace) && res.Trace != "-" {
			r.Count(fmt.Sprintf("fault.%c@%c", k, res.Trace[p]&^0x20))
		} else {
			r.Count(fmt.Sprintf("fault.%c@unreached", k))
		}
	}
	r.Count("index.calls<=" + strconv.Itoa(bucket(res.Calls)))
}

func bucket(n int) int {
	for _, b := range []int{0, 3, 10, 30, 60, 100, 200, 400} {
		if n <= b {
			return b
		}
	}
	return 1000
}

// Cold is the observation of indexing the manifest alone on a fresh store
// with the given configuration and no fault ("the report a fault-free run
// produces"). It does not emit protocol lines.
func (s *Session) Cold(cfg Config, layers []int) Result {
	key := cfg.String() + "|" + LayersString(layers) + "|" + b01(s.W.NetDown)
	if r, ok := s.cold[key]; ok {
		return r
	}
	w := NewWorld()
	w.NetDown = s.W.NetDown
	if _, err := w.Configure(cfg); err != nil {
		return Result{ErrClass: "gen"}
	}
	r := w.Index(layers, Script{}, false)
	s.cold[key] = r
	return r
}

// ExpectedArtifacts is what scanner k must have stored for layer l, computed
// from the stub table alone.
func ExpectedArtifacts(k memstore.ScannerKey, l int, down bool) []string {
	var out []string
	if k.Kind == "file" {
		return out
	}
	items := ItemsNet(k.Name, k.Version, l, true, down)
	pre := map[string]string{"package": "p:p", "distribution": "d:d", "repository": "r:r"}[k.Kind]
	seen := map[string]bool{}
	for _, it := range items {
		n := pre + strconv.Itoa(it)
		if !seen[n] {
			seen[n] = true
			out = append(out, n)
		}
	}
	if k.Kind == "package" && strSum(k.Name)%2 == 1 && len(items) > 0 {
		out = append(out, "r:r"+strconv.Itoa(DefRepoItem(k.Name)))
	}
	sortStrings(out)
	return out
}

func sortStrings(a []string) {
	for i := 1; i < len(a); i++ {
		for j := i; j > 0 && a[j] < a[j-1]; j-- {
			a[j], a[j-1] = a[j-1], a[j]
		}
	}
}

// FindingUnconfigured is the id of the listed finding about scanners whose
// Configure failed.
const FindingUnconfigured = "unconfigured-scanner-marked"

// Bad is one violated clause of CheckStore; Class is the id of the listed
// finding whose exact shape it has ("" otherwise).
type Bad struct{ Class, Msg string }

// CheckStore evaluates the persistent half of the C07 statement directly on
// the store: a manifest recorded as scanned by a scanner has every layer
// recorded as scanned by it, a layer recorded as scanned has exactly the
// scanner's artifacts stored, and a report is stored. It returns descriptions
// of what fails.
func (s *Session) CheckStore() []Bad {
	var bad []Bad
	keys := s.W.Keys()
	for _, sp := range s.W.Cfg {
		if sp.Off() {
			s.everOff[memstore.ScannerKey{Name: sp.Name, Version: sp.Version, Kind: sp.KindName()}] = true
		}
	}
	// what each marked pair was last scanned under (network up / down)
	lastDown := map[string]bool{}
	sawUp, sawDown := map[string]bool{}, map[string]bool{}
	s.W.mu.Lock()
	for _, ev := range s.W.Scans {
		k := fmt.Sprintf("%d|%v", ev.Layer, ev.Scanner)
		lastDown[k] = ev.Down
		if ev.Down {
			sawDown[k] = true
		} else {
			sawUp[k] = true
		}
	}
	s.W.mu.Unlock()
	layers := map[int]bool{}
	for _, ls := range s.Manifests {
		mh := ManifestDigest(ls).String()
		for _, k := range keys {
			if !s.W.Store.HasManifestScanned(mh, k) {
				continue
			}
			for _, l := range ls {
				if !s.W.Store.HasLayerScanned(LayerDigest(l).String(), k) {
					cls := ""
					if s.everOff[k] {
						// the scanner's Configure failed: it is never run but stays in the list of configured scanners
						cls = FindingUnconfigured
					}
					bad = append(bad, Bad{cls, fmt.Sprintf("manifest %s recorded scanned by %s/%s/%s but layer %d is not", LayersString(ls), k.Kind, k.Name, k.Version, l)})
				}
			}
			if _, ok := s.W.Store.StoredReport(mh); !ok {
				bad = append(bad, Bad{"", fmt.Sprintf("manifest %s recorded scanned but no report stored", LayersString(ls))})
			}
		}
		for _, l := range ls {
			layers[l] = true
		}
	}
	for l := range layers {
		for _, k := range keys {
			if !s.W.Store.HasLayerScanned(LayerDigest(l).String(), k) {
				continue
			}
			got := s.W.Store.ArtifactNames(LayerDigest(l).String(), k)
			want := ExpectedArtifacts(k, l, lastDown[fmt.Sprintf("%d|%v", l, k)])
			if len(got) == 0 && len(want) == 0 {
				continue
			}
			if pk := fmt.Sprintf("%d|%v", l, k); sawUp[pk] && sawDown[pk] && reflect.DeepEqual(got, ExpectedArtifacts(k, l, false)) {
				// by design (result.Do forgives *net.AddrError): the scanner ran on this layer both with and
				// without the network (a failed attempt's artifacts stay); the store holds the union
				continue
			}
			if !reflect.DeepEqual(got, want) {
				bad = append(bad, Bad{"", fmt.Sprintf("layer %d recorded scanned by %s/%s/%s but stored artifacts are [%s], the scanner finds [%s]",
					l, k.Kind, k.Name, k.Version, strings.Join(got, " "), strings.Join(want, " "))})
			}
		}
	}
	return bad
}

// FirstFault returns the kind of the first scripted fault that was reached
// and made a call fail (0 if none).
func FirstFault(res Result, script Script) byte {
	for i := 0; i < len(res.Trace) && res.Trace != "-"; i++ {
		c := res.Trace[i]
		if c >= 'a' && c <= 'z' {
			return script[i]
		}
	}
	return 0
}

// FaultAt returns the letter of the call a scripted position hit ('?' if the
// position was not reached).
func FaultAt(res Result, p int) byte {
	if res.Trace == "-" || p >= len(res.Trace) {
		return '?'
	}
	return res.Trace[p] &^ 0x20
}

// ReplayCorpus performs the operation lines of every *.ops file of the
// property's corpus directory (minimised past disagreements and witnesses) on
// the real code, as protocol lines: `reset`, `config`, `new`, `net`, `index`,
// `delete`, `run`. Lines starting with # are comments.
func (s *Session) ReplayCorpus(dir string) {
	ents, err := os.ReadDir(dir)
	if err != nil {
		return
	}
	for _, e := range ents {
		if e.IsDir() || !strings.HasSuffix(e.Name(), ".ops") {
			continue
		}
		b, err := os.ReadFile(filepath.Join(dir, e.Name()))
		if err != nil {
			continue
		}
		s.R.Count("corpus.file")
		for _, line := range strings.Split(string(b), "\n") {
			line = strings.TrimSpace(line)
			if line == "" || strings.HasPrefix(line, "#") {
				continue
			}
			f := strings.Fields(line)
			switch {
			case f[0] == "reset" && len(f) == 1:
				s.Reset()
			case s.W == nil:
				// every file starts with reset
			case f[0] == "config" && len(f) == 2:
				if cfg, err := ParseConfig(f[1]); err == nil {
					s.Config(cfg)
				}
			case f[0] == "new" && len(f) == 3:
				if cfg, err := ParseConfig(f[2]); err == nil {
					s.New(parseNewFaults(f[1]), cfg)
				}
			case f[0] == "state" && len(f) == 2:
				if cfg, err := ParseConfig(f[1]); err == nil {
					s.State(cfg)
				}
			case f[0] == "net" && len(f) == 2:
				s.Net(f[1] == "down")
			case f[0] == "index" && len(f) == 4:
				ls, e1 := ParseLayers(f[1])
				sc, e2 := ParseScript(f[2])
				if e1 == nil && e2 == nil {
					s.Index(ls, sc, f[3] == "dead")
				}
			case f[0] == "delete" && len(f) == 2:
				var ms [][]int
				for _, p := range strings.Split(f[1], ";") {
					if ls, err := ParseLayers(p); err == nil {
						ms = append(ms, ls)
					}
				}
				s.Delete(ms)
			case f[0] == "run" && len(f) == 2:
				s.Run(parseRun(f[1]))
			}
			s.R.Count("corpus.line")
		}
	}
}

func parseNewFaults(x string) NewFaults {
	nf := NewFaults{CtorFailAt: -1}
	if x == "-" {
		return nf
	}
	for _, p := range strings.Split(x, ",") {
		switch {
		case p == "l":
			nf.NoLocker = true
		case p == "s":
			nf.NoStore = true
		case p == "a":
			nf.NoArena = true
		case p == "h":
			nf.NoClient = true
		case p == "r":
			nf.RegisterFails = true
		case strings.HasPrefix(p, "c"):
			if k, err := strconv.Atoi(p[1:]); err == nil {
				nf.CtorFailAt = k
			}
		}
	}
	return nf
}

func parseRun(x string) []RunIter {
	var out []RunIter
	if x == "-" {
		return out
	}
	for _, p := range strings.Split(x, ";") {
		f := strings.Split(p, "/")
		if len(f) != 3 || len(f[1]) != 1 {
			continue
		}
		out = append(out, RunIter{Next: f[0], Err: f[1][0], Cancel: strings.Contains(f[2], "x"), PersistFails: strings.Contains(f[2], "p"), CancelInWait: strings.Contains(f[2], "w")})
	}
	return out
}
