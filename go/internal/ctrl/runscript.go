package ctrl

import (
	"context"
	"errors"
	"fmt"
	"strings"
	"time"

	"github.com/quay/claircore"
	"github.com/quay/claircore/indexer"
	"github.com/quay/claircore/indexer/controller"
	"github.com/quay/claircore/verifharness/internal/memstore"
)

// RunIter is one call of a scripted state function (see lean Model/RunClock):
// what it returns, and what happens around it.
type RunIter struct {
	Next         string // name of the State returned
	Err          byte   // '-' nil, 'g' ordinary error, 'c' Canceled class, 'd' DeadlineExceeded class
	Cancel       bool   // the caller's context is cancelled while the function runs
	PersistFails bool   // the SetIndexReport after it fails
	CancelInWait bool   // the context is cancelled when the retry branch starts to wait
}

func (it RunIter) String() string {
	f := ""
	if it.Cancel {
		f += "x"
	}
	if it.PersistFails {
		f += "p"
	}
	if it.CancelInWait {
		f += "w"
	}
	if f == "" {
		f = "-"
	}
	return fmt.Sprintf("%s/%c/%s", it.Next, it.Err, f)
}

// RunOp renders the operation line.
func RunOp(script []RunIter) string {
	if len(script) == 0 {
		return "run -"
	}
	p := make([]string, len(script))
	for i, it := range script {
		p[i] = it.String()
	}
	return "run " + strings.Join(p, ";")
}

var stateByName = map[string]controller.State{
	"Terminal": controller.Terminal, "CheckManifest": controller.CheckManifest, "FetchLayers": controller.FetchLayers,
	"ScanLayers": controller.ScanLayers, "Coalesce": controller.Coalesce, "IndexManifest": controller.IndexManifest,
	"IndexError": controller.IndexError, "IndexFinished": controller.IndexFinished,
}

// StateNames lists the controller's states.
var StateNames = []string{"Terminal", "CheckManifest", "FetchLayers", "ScanLayers", "Coalesce", "IndexManifest", "IndexError", "IndexFinished"}

// RunScript drives the real controller.run (through Controller.Index) with
// scripted state functions on a fresh store and returns the canonical
// observation: the calls of state functions, every SetIndexReport with the
// report it was handed, every wait of the retry branch (w:0 = zero duration,
// w:j = a duration in [1s, 5s)), and what Index returned. A wait that is not
// cut short by cancellation really sleeps.
func RunScript(script []RunIter) string {
	store := memstore.New()
	m := &claircore.Manifest{Hash: ManifestDigest([]int{9})}
	m.Layers = []*claircore.Layer{{Hash: LayerDigest(9), URI: "mem://layer/9"}}
	if err := store.PersistManifest(context.Background(), *m); err != nil {
		return "setup-failed"
	}
	ctx, cancel := context.WithCancel(context.Background())
	defer cancel()
	var events []string
	var cur RunIter
	idx := 0
	store.Hook = func(ctx context.Context, c memstore.Call) memstore.Verdict {
		if c.Method != "SetIndexReport" {
			events = append(events, "unexpected:"+c.Method)
			return memstore.Verdict{}
		}
		ok := ctx.Err() == nil && !cur.PersistFails
		events = append(events, fmt.Sprintf("p:%s,%s,%s,%s", stateName(c.Report.State), b01(c.Report.Success), b01(c.Report.Err != ""), b01(ok)))
		if cur.PersistFails && ctx.Err() == nil {
			return memstore.Verdict{Err: errInjected}
		}
		return memstore.Verdict{}
	}
	hook := func(key string) {
		d, err := time.ParseDuration(key)
		switch {
		case err != nil:
			events = append(events, "w:bad:"+key)
		case d == 0:
			events = append(events, "w:0")
		case d >= time.Second && d < 5*time.Second:
			events = append(events, "w:j")
		default:
			events = append(events, "w:bad:"+key)
		}
		if cur.CancelInWait {
			cancel()
		}
	}
	retryHook.Store(&hook)
	defer retryHook.Store(nil)
	table := map[controller.State]func(context.Context, *controller.Controller) (controller.State, error){}
	for name, st := range stateByName {
		if st == controller.Terminal {
			continue
		}
		table[st] = func(context.Context, *controller.Controller) (controller.State, error) {
			events = append(events, "c:"+name)
			cur = RunIter{Next: "Terminal", Err: '-'}
			if idx < len(script) {
				cur = script[idx]
				idx++
			}
			if cur.Cancel {
				cancel()
			}
			var err error
			switch cur.Err {
			case 'g':
				err = ordinaryError(idx, 'R')
			case 'c':
				err = canceledError(idx)
			case 'd':
				err = deadlineError(idx)
			}
			return stateByName[cur.Next], err
		}
	}
	w := NewWorld() // only for its fetch arena
	opts := &indexer.Options{Store: store, FetchArena: &arena{w: w}}
	c := controller.New(opts)
	type ret struct {
		ir  *claircore.IndexReport
		err error
		p   bool
	}
	ch := make(chan ret, 1)
	go func() {
		defer func() {
			if e := recover(); e != nil {
				ch <- ret{p: true}
			}
		}()
		ir, err := controller.RunScriptedForVerif(ctx, c, m, table)
		ch <- ret{ir: ir, err: err}
	}()
	var r ret
	select {
	case r = <-ch:
	case <-time.After(30 * time.Second):
		cancel()
		return "hang"
	}
	if r.p {
		return "panic"
	}
	ev := "-"
	if len(events) > 0 {
		ev = strings.Join(events, " ")
	}
	if r.ir == nil {
		return fmt.Sprintf("ev=%s e=%s nil-report", ev, classOf(r.err))
	}
	return fmt.Sprintf("ev=%s e=%s st=%s s=%s er=%s", ev, classOf(r.err), stateName(r.ir.State), b01(r.ir.Success), b01(r.ir.Err != ""))
}

var _ = errors.New
