// Package ctrl is the shared part of the C07 / C08 harnesses: it drives the
// real indexer (libindex.New / Libindex.Index -> controller.Controller ->
// indexer.LayerScanner) over the in-memory store, with table-driven stub
// scanners, a stub fetch arena that realizes real (tiny) tar layers, and a
// fault controller that numbers every datastore / realizer / scanner call of
// one Index call and makes the numbered call fail as a script says.
//
// One operation of the line protocol = one call of Libindex.New (`config`) or
// Libindex.Index (`index`); the answer is the canonical observation of what
// the real code returned and what the store holds afterwards.
package ctrl

import (
	"archive/tar"
	"bytes"
	"context"
	"crypto/sha256"
	"encoding/hex"
	"errors"
	"fmt"
	"io"
	"net"
	"net/http"
	"net/url"
	"os"
	"sort"
	"strconv"
	"strings"
	"sync"
	"time"

	"github.com/quay/zlog"
	"github.com/rs/zerolog"

	"github.com/quay/claircore"
	"github.com/quay/claircore/indexer"
	"github.com/quay/claircore/internal/wart"
	"github.com/quay/claircore/libindex"
	"github.com/quay/claircore/libvuln/updates"
	"github.com/quay/claircore/verifharness/internal/hx"
	"github.com/quay/claircore/verifharness/internal/memstore"
)

func init() {
	nop := zerolog.Nop()
	zlog.Set(&nop)
}

// ---- specifications ---------------------------------------------------------

// ScannerSpec describes one stub scanner.
type ScannerSpec struct {
	Eco     int    // ecosystem index
	Kind    byte   // 'p' package, 'd' distribution, 'r' repository
	Name    string // [a-z0-9_]+
	Version string // [a-z0-9_]+
	// Flags (a property of the scanner implementation / the deployment, in this order):
	//  N  needs the network: while the world's network is down its Scan returns
	//     what it found so far (its first item) together with a *net.AddrError
	//  C  implements indexer.ConfigurableScanner
	//  R  implements indexer.RPCScanner
	//  V  the deployment supplies a configuration function for it (Options.ScannerConfig)
	//  X  its Configure returns an error
	Flags string
}

func (s ScannerSpec) Has(f byte) bool { return strings.IndexByte(s.Flags, f) >= 0 }

// Off: libindex drops the scanner from the LayerScanner (its Configure is
// called and fails) while it stays in the list of configured scanners.
func (s ScannerSpec) Off() bool { return s.Has('X') && (s.Has('C') || s.Has('R')) }

// DefRepo: a package scanner whose name has an odd byte sum also implements
// indexer.DefaultRepoScanner (a property of the scanner, not of the config).
func (s ScannerSpec) DefRepo() bool { return s.Kind == 'p' && strSum(s.Name)%2 == 1 }

func (s ScannerSpec) KindName() string {
	switch s.Kind {
	case 'p':
		return "package"
	case 'd':
		return "distribution"
	case 'f':
		return "file"
	default:
		return "repository"
	}
}

func (s ScannerSpec) String() string {
	if s.Flags != "" {
		return fmt.Sprintf("%d/%c/%s/%s/%s", s.Eco, s.Kind, s.Name, s.Version, s.Flags)
	}
	return fmt.Sprintf("%d/%c/%s/%s", s.Eco, s.Kind, s.Name, s.Version)
}

// Config is an ordered scanner list; ecosystems are numbered 0..max(Eco).
type Config []ScannerSpec

func (c Config) String() string {
	if len(c) == 0 {
		return "-"
	}
	parts := make([]string, len(c))
	for i, s := range c {
		parts[i] = s.String()
	}
	return strings.Join(parts, ",")
}

// ParseConfig is the inverse of Config.String.
func ParseConfig(s string) (Config, error) {
	if s == "-" {
		return nil, nil
	}
	var out Config
	for _, p := range strings.Split(s, ",") {
		f := strings.Split(p, "/")
		if (len(f) != 4 && len(f) != 5) || len(f[1]) != 1 {
			return nil, fmt.Errorf("bad scanner spec %q", p)
		}
		e, err := strconv.Atoi(f[0])
		if err != nil {
			return nil, err
		}
		sp := ScannerSpec{Eco: e, Kind: f[1][0], Name: f[2], Version: f[3]}
		if len(f) == 5 {
			sp.Flags = f[4]
		}
		out = append(out, sp)
	}
	return out, nil
}

func strSum(s string) int {
	n := 0
	for i := 0; i < len(s); i++ {
		n += int(s[i])
	}
	return n
}

// Items is the stub scanners' table: what scanner (name, version) finds in
// layer number l. The Lean driver computes the same function.
func Items(name, version string, l int) []int {
	a, v := strSum(name), strSum(version)
	n := (l + a + v) % 3
	out := make([]int, 0, n)
	for i := 0; i < n; i++ {
		out = append(out, (2*l+3*a+5*v+7*i)%10)
	}
	return out
}

// ItemsNet is Items for a scanner that needs the network: with the network
// down it finds only its first item.
func ItemsNet(name, version string, l int, needsNet, netDown bool) []int {
	it := Items(name, version, l)
	if needsNet && netDown && len(it) > 1 {
		it = it[:1]
	}
	return it
}

// DefRepoItem is the repository a DefaultRepoScanner adds.
func DefRepoItem(name string) int { return 100 + strSum(name)%50 }

// LayerDigest / ManifestDigest: content addresses of the generated objects.
func LayerDigest(n int) claircore.Digest {
	h := sha256.Sum256([]byte("layer-" + strconv.Itoa(n)))
	return claircore.MustParseDigest("sha256:" + hex.EncodeToString(h[:]))
}

func LayersString(ls []int) string {
	if len(ls) == 0 {
		return "-"
	}
	p := make([]string, len(ls))
	for i, l := range ls {
		p[i] = strconv.Itoa(l)
	}
	return strings.Join(p, ".")
}

func ParseLayers(s string) ([]int, error) {
	if s == "-" {
		return nil, nil
	}
	var out []int
	for _, p := range strings.Split(s, ".") {
		n, err := strconv.Atoi(p)
		if err != nil {
			return nil, err
		}
		out = append(out, n)
	}
	return out, nil
}

func ManifestDigest(ls []int) claircore.Digest {
	h := sha256.Sum256([]byte("manifest-" + LayersString(ls)))
	return claircore.MustParseDigest("sha256:" + hex.EncodeToString(h[:]))
}

// ---- faults -----------------------------------------------------------------

// Fault kinds (letters of the protocol).
const (
	FErr         = 'e' // the call fails with an ordinary error, no effect
	FCanceled    = 'c' // the call fails with an error wrapping context.Canceled, context still live
	FDeadline    = 'd' // the call fails with an error wrapping context.DeadlineExceeded, context still live
	FCancelCtx   = 'x' // the caller's context is cancelled during the call; the call returns context.Canceled, no effect
	FCancelAfter = 'a' // the call succeeds; the caller's context is cancelled right after it
	FCrash       = 'k' // the process dies before this call: it and every later call has no effect
	FCommitErr   = 'E' // the effect is applied but the caller sees an ordinary error (lost reply)
)

// Script maps call positions (0-based, in call order) to fault kinds.
type Script map[int]byte

func (s Script) String() string {
	if len(s) == 0 {
		return "-"
	}
	ks := make([]int, 0, len(s))
	for k := range s {
		ks = append(ks, k)
	}
	sort.Ints(ks)
	p := make([]string, len(ks))
	for i, k := range ks {
		p[i] = fmt.Sprintf("%d:%c", k, s[k])
	}
	return strings.Join(p, ",")
}

func ParseScript(s string) (Script, error) {
	out := Script{}
	if s == "-" {
		return out, nil
	}
	for _, p := range strings.Split(s, ",") {
		f := strings.Split(p, ":")
		if len(f) != 2 || len(f[1]) != 1 {
			return nil, fmt.Errorf("bad fault %q", p)
		}
		n, err := strconv.Atoi(f[0])
		if err != nil {
			return nil, err
		}
		out[n] = f[1][0]
	}
	return out, nil
}

var (
	errInjected = errors.New("injected fault")
	errCrashed  = errors.New("process crashed")
)

type timeoutErr struct{}

func (timeoutErr) Error() string   { return "i/o timeout" }
func (timeoutErr) Timeout() bool   { return true }
func (timeoutErr) Temporary() bool { return true }

// ordinaryError is the error value of an `e` fault at call position p. All of
// them are ordinary failures for the indexer (none is, or wraps, a context
// error; none is a *net.AddrError when the call is a scanner): connection
// refused, DNS timeout, HTTP client timeout, file deadline, truncated stream, a
// *net.AddrError from the datastore, ... The position picks the shape, so every
// run meets all of them at every kind of call.
func ordinaryError(p int, letter byte) error {
	switch p % 8 {
	case 1:
		return &net.OpError{Op: "dial", Net: "tcp", Err: errors.New("connect: connection refused")}
	case 2:
		return &net.DNSError{Err: "i/o timeout", Name: "stub.invalid", IsTimeout: true}
	case 3:
		return &url.Error{Op: "Get", URL: "https://stub.invalid/x", Err: timeoutErr{}}
	case 4:
		return fmt.Errorf("reading layer: %w", os.ErrDeadlineExceeded)
	case 5:
		return fmt.Errorf("decoding: %w", io.ErrUnexpectedEOF)
	case 6:
		return &net.ParseError{Type: "IP address", Text: "stub"}
	case 7:
		if letter != 'S' {
			return fmt.Errorf("connecting to the database: %w", &net.AddrError{Err: "missing port in address", Addr: "db"})
		}
	}
	return errInjected
}

func canceledError(p int) error {
	switch p % 3 {
	case 1:
		return context.Canceled
	case 2:
		return errors.Join(errors.New("rolling back"), fmt.Errorf("query: %w", context.Canceled))
	}
	return fmt.Errorf("injected: %w", context.Canceled)
}

func deadlineError(p int) error {
	switch p % 3 {
	case 1:
		return context.DeadlineExceeded
	case 2:
		return errors.Join(errors.New("rolling back"), fmt.Errorf("query: %w", context.DeadlineExceeded))
	}
	return fmt.Errorf("injected: %w", context.DeadlineExceeded)
}

// ---- the world --------------------------------------------------------------

// ScanEvent is one successful entry into a stub scanner's Scan.
type ScanEvent struct {
	Layer   int
	Scanner memstore.ScannerKey
	Down    bool // the scanner needs the network and it was down
}

// World is one store plus the currently configured Libindex.
type World struct {
	Store  *memstore.Store
	Lib    *libindex.Libindex
	Cfg    Config
	Tokens []string // state tokens of the configs since reset, in order
	// Concurrency is passed as LayerScanConcurrency (0 = 1). With more than one
	// scanner goroutine the call numbering depends on the schedule, so such
	// worlds are used for direct checks only, never for the line protocol.
	Concurrency int

	mu sync.Mutex // guards the per-call fields below and Scans/Fetches

	layerNo map[string]int

	// per Index call
	active    bool
	pos       int
	script    Script
	crashed   bool
	failed    bool
	cancelled bool
	cancel    context.CancelFunc
	trace     []byte
	Scans     []ScanEvent // since reset
	Fetches   []int       // layer numbers realized, since reset
	// NetDown: scanners flagged N cannot reach the network (their Scan returns a *net.AddrError)
	NetDown bool
	// ConfigEvents are the Configure calls of the last libindex.New, in call order
	ConfigEvents []ConfigEvent
	// during libindex.New: scanner-constructor calls of the stub ecosystems
	ctorCalls    int
	ctorFailAt   int // -1: none
	registered   bool
	registerFail bool
	inNew        bool
	// CtorFailInIndex > 0: the CtorFailInIndex-th scanner-constructor call made during Index calls (by coalesce) fails
	CtorFailInIndex int
	opScans         int
	opFetch         int
	sched           *Sched          // the scheduler of the running Index call's scanner goroutines, if any
	callCtx         context.Context // the caller's context of the running Index call
	ph              *phase          // coalescer synchronisation of the running Index call
}

// phase orders the stub coalescers of one Index call: in the schedule the
// protocol uses, every Coalesce call finishes after the last store query of the
// coalesce state (the last FilesByLayer), in ecosystem order, and after the
// first failing one the others are cancelled without being numbered.
type phaseKey struct{}

type phase struct {
	fWant, fCount int
	turn          []chan struct{} // turn[i] is closed when stub ecosystem i may enter; turn[0] when all queries are done
	allQueried    bool            // the last FilesByLayer was granted success
	released      bool
	failed        bool
}

func NewWorld() *World {
	w := &World{Store: memstore.New(), layerNo: map[string]int{}}
	w.Store.Hook = w.storeHook
	w.Store.AfterFiles = w.afterFiles
	return w
}

var letters = map[string]byte{
	"ManifestScanned": 'M', "PersistManifest": 'P', "IndexReport": 'G', "SetIndexReport": 'R',
	"LayerScanned": 'L', "IndexPackages": 'I', "IndexDistributions": 'I', "IndexRepositories": 'I', "IndexFiles": 'I',
	"SetLayerScanned": 'K', "PackagesByLayer": 'A', "RepositoriesByLayer": 'B', "DistributionsByLayer": 'D',
	"FilesByLayer": 'F', "IndexManifest": 'X', "SetIndexFinished": 'Y',
}

// enter numbers a call and decides its fate. It returns (err, commit):
// err == nil: proceed; err != nil && commit: apply the effect, then fail.
func (w *World) enter(ctx context.Context, letter byte) (error, bool) {
	return w.enterAs(ctx, letter, "")
}

// enterAs is enter for a call made by the scanner closure `who` (see Sched):
// under a scheduler the call first parks until it is granted, and its fate is
// what the grant says instead of what the position script says.
func (w *World) enterAs(ctx context.Context, letter byte, who string) (error, bool) {
	var granted byte
	if s := w.sched; s != nil && who != "" {
		if f, ok := s.park(ctx, who, letter); ok {
			granted = f
		}
	}
	w.mu.Lock()
	defer w.mu.Unlock()
	if !w.active {
		return nil, false
	}
	p := w.pos
	w.pos++
	// a successful FilesByLayer: the last one of the coalesce state releases the stub coalescers
	okF := func() {
		if letter == 'F' && w.ph != nil {
			w.ph.fCount++
			if w.ph.fCount == w.ph.fWant {
				// released by afterFiles, once the call has really returned: the
				// store method checks its context after this hook, and a coalescer
				// released here could fail and cancel the group under its feet
				w.ph.allQueried = true
			}
		}
	}
	fail := func(err error) (error, bool) {
		w.failed = true
		w.trace = append(w.trace, letter|0x20)
		return err, false
	}
	if w.crashed {
		return fail(errCrashed)
	}
	if err := ctx.Err(); err != nil {
		return fail(err)
	}
	fate := w.script[p]
	if granted != 0 {
		fate = granted
	}
	switch fate {
	case FErr:
		return fail(ordinaryError(p, letter))
	case FCanceled:
		return fail(canceledError(p))
	case FDeadline:
		return fail(deadlineError(p))
	case FCancelCtx:
		w.cancelled = true
		w.cancel()
		return fail(context.Canceled)
	case FCrash:
		w.crashed = true
		return fail(errCrashed)
	case FCancelAfter:
		w.trace = append(w.trace, letter)
		okF()
		w.cancelled = true
		w.cancel()
		return nil, true
	case FCommitErr:
		w.failed = true
		w.trace = append(w.trace, letter|0x20)
		return ordinaryError(p, letter), true
	}
	w.trace = append(w.trace, letter)
	okF()
	return nil, false
}

// afterFiles releases the stub coalescers when the last query of the coalesce
// state has returned.
func (w *World) afterFiles(ctx context.Context, c memstore.Call) {
	w.mu.Lock()
	defer w.mu.Unlock()
	if ph := w.ph; w.active && ph != nil && ph.allQueried && !ph.released {
		if own, _ := ctx.Value(phaseKey{}).(*phase); own == nil || own == ph {
			ph.released = true
			close(ph.turn[0])
		}
	}
}

func (w *World) storeHook(ctx context.Context, c memstore.Call) memstore.Verdict {
	if c.Method == "RegisterScanners" {
		w.mu.Lock()
		defer w.mu.Unlock()
		w.registered = true
		if w.registerFail {
			return memstore.Verdict{Err: errInjected}
		}
		return memstore.Verdict{}
	}
	l, ok := letters[c.Method]
	if !ok {
		return memstore.Verdict{}
	}
	who := ""
	if (l == 'L' || l == 'I' || l == 'K') && len(c.Scanners) == 1 {
		who = threadKey(c.Layer, memstore.KeyOf(c.Scanners[0]))
	}
	err, commit := w.enterAs(ctx, l, who)
	return memstore.Verdict{Err: err, Commit: commit}
}

// ---- stub scanners ------------------------------------------------------------

type stub struct {
	w    *World
	spec ScannerSpec
}

func (s *stub) Name() string    { return s.spec.Name }
func (s *stub) Version() string { return s.spec.Version }
func (s *stub) Kind() string    { return s.spec.KindName() }

// scan is the common part of the three Scan methods.
func (s *stub) scan(ctx context.Context, l *claircore.Layer) ([]int, error) {
	err, commit := s.w.enterAs(ctx, 'S', threadKey(l.Hash.String(), memstore.ScannerKey{Name: s.Name(), Version: s.Version(), Kind: s.Kind()}))
	if err != nil && !commit {
		return nil, err
	}
	s.w.mu.Lock()
	if !l.Fetched() {
		if s.w.active && (s.w.Concurrency <= 1 || s.w.sched != nil) {
			// the call was traced as successful; it is not
			s.w.trace[len(s.w.trace)-1] = 's'
		}
		s.w.failed = true
		s.w.mu.Unlock()
		return nil, fmt.Errorf("stub scanner %s: layer %s was not fetched", s.spec.Name, l.Hash)
	}
	n := s.w.layerNo[l.Hash.String()]
	down := s.w.NetDown && s.spec.Has('N')
	s.w.Scans = append(s.w.Scans, ScanEvent{Layer: n, Scanner: memstore.ScannerKey{Name: s.Name(), Version: s.Version(), Kind: s.Kind()}, Down: down})
	s.w.mu.Unlock()
	if err != nil {
		return nil, err
	}
	items := ItemsNet(s.spec.Name, s.spec.Version, n, s.spec.Has('N'), down)
	if down {
		// "scanner not able to access resources": result.Do swallows exactly this error type
		var aerr error = &net.AddrError{Err: "no route to host", Addr: "stub.invalid:443"}
		if n%2 == 1 {
			aerr = fmt.Errorf("stub scanner %s: fetching metadata: %w", s.spec.Name, aerr)
		}
		return items, aerr
	}
	return items, nil
}

// swallowed reports whether err is of the one type result.Do forgives.
func swallowed(err error) bool {
	var a *net.AddrError
	return errors.As(err, &a)
}

// StubConfig is what a configurable stub scanner asks its ConfigDeserializer to fill.
type StubConfig struct{ Token string }

// ConfigEvent records one Configure call made by libindex.New.
type ConfigEvent struct {
	Kind   byte
	Name   string
	How    byte // 'C' ConfigurableScanner, 'R' RPCScanner
	Token  bool // the deployment's configuration function was the one passed in
	Client bool // an *http.Client was passed
}

func (e ConfigEvent) String() string {
	return fmt.Sprintf("%c.%s.%c.%s.%s", e.Kind, e.Name, e.How, b01(e.Token), b01(e.Client))
}

func (s *stub) configure(f indexer.ConfigDeserializer, how byte, cl *http.Client) error {
	var c StubConfig
	if f != nil {
		if err := f(&c); err != nil {
			return err
		}
	}
	s.w.mu.Lock()
	s.w.ConfigEvents = append(s.w.ConfigEvents, ConfigEvent{Kind: s.spec.Kind, Name: s.spec.Name, How: how, Token: c.Token == s.spec.Name+"-cfg", Client: cl != nil})
	s.w.mu.Unlock()
	if s.spec.Has('X') {
		return errors.New("stub scanner: configuration rejected")
	}
	return nil
}

type pkgStub struct{ stub }

func (s *pkgStub) Scan(ctx context.Context, l *claircore.Layer) ([]*claircore.Package, error) {
	items, err := s.scan(ctx, l)
	if (err != nil && !swallowed(err)) || len(items) == 0 {
		return nil, err
	}
	out := make([]*claircore.Package, len(items))
	for i, it := range items {
		out[i] = &claircore.Package{Name: "p" + strconv.Itoa(it), Version: "1.0", Kind: claircore.BINARY, Arch: "x", PackageDB: "db/" + s.spec.Name}
	}
	return out, err
}

type pkgRepoStub struct{ pkgStub }

func (s *pkgRepoStub) DefaultRepository(context.Context) *claircore.Repository {
	return &claircore.Repository{Name: "r" + strconv.Itoa(DefRepoItem(s.spec.Name)), Key: "k"}
}

type distStub struct{ stub }

func (s *distStub) Scan(ctx context.Context, l *claircore.Layer) ([]*claircore.Distribution, error) {
	items, err := s.scan(ctx, l)
	if (err != nil && !swallowed(err)) || len(items) == 0 {
		return nil, err
	}
	out := make([]*claircore.Distribution, len(items))
	for i, it := range items {
		out[i] = &claircore.Distribution{Name: "d" + strconv.Itoa(it), DID: "d", Version: "1"}
	}
	return out, err
}

type repoStub struct{ stub }

func (s *repoStub) Scan(ctx context.Context, l *claircore.Layer) ([]*claircore.Repository, error) {
	items, err := s.scan(ctx, l)
	if (err != nil && !swallowed(err)) || len(items) == 0 {
		return nil, err
	}
	out := make([]*claircore.Repository, len(items))
	for i, it := range items {
		out[i] = &claircore.Repository{Name: "r" + strconv.Itoa(it), Key: "k"}
	}
	return out, err
}

// fileStub is a file scanner that finds nothing; it exists for the state token
// (kind 'f' is only generated for `state` operations).
type fileStub struct{ stub }

func (s *fileStub) Scan(ctx context.Context, l *claircore.Layer) ([]claircore.File, error) {
	return nil, nil
}

// The same scanners implementing indexer.ConfigurableScanner (suffix C) or
// indexer.RPCScanner (suffix R). The two interfaces share the method name, so
// no type can implement both.
type (
	pkgStubC     struct{ pkgStub }
	pkgStubR     struct{ pkgStub }
	pkgRepoStubC struct{ pkgRepoStub }
	pkgRepoStubR struct{ pkgRepoStub }
	distStubC    struct{ distStub }
	distStubR    struct{ distStub }
	repoStubC    struct{ repoStub }
	repoStubR    struct{ repoStub }
)

func (s *pkgStubC) Configure(_ context.Context, f indexer.ConfigDeserializer) error {
	return s.configure(f, 'C', nil)
}
func (s *pkgStubR) Configure(_ context.Context, f indexer.ConfigDeserializer, c *http.Client) error {
	return s.configure(f, 'R', c)
}
func (s *pkgRepoStubC) Configure(_ context.Context, f indexer.ConfigDeserializer) error {
	return s.configure(f, 'C', nil)
}
func (s *pkgRepoStubR) Configure(_ context.Context, f indexer.ConfigDeserializer, c *http.Client) error {
	return s.configure(f, 'R', c)
}
func (s *distStubC) Configure(_ context.Context, f indexer.ConfigDeserializer) error {
	return s.configure(f, 'C', nil)
}
func (s *distStubR) Configure(_ context.Context, f indexer.ConfigDeserializer, c *http.Client) error {
	return s.configure(f, 'R', c)
}
func (s *repoStubC) Configure(_ context.Context, f indexer.ConfigDeserializer) error {
	return s.configure(f, 'C', nil)
}
func (s *repoStubR) Configure(_ context.Context, f indexer.ConfigDeserializer, c *http.Client) error {
	return s.configure(f, 'R', c)
}

var (
	_ indexer.ConfigurableScanner = (*pkgStubC)(nil)
	_ indexer.RPCScanner          = (*pkgStubR)(nil)
	_ indexer.DefaultRepoScanner  = (*pkgRepoStubC)(nil)
	_ indexer.DefaultRepoScanner  = (*pkgRepoStubR)(nil)
)

// stubCoalescer reports every package with the first layer it was seen in,
// every distribution and every repository. It does not depend on the order of
// artifacts inside a layer.
type stubCoalescer struct {
	w   *World
	idx int // ecosystem index
}

// enter makes the Coalesce call a numbered call (letter C). In protocol
// sessions it first waits for its turn (see phase); with several scanner
// goroutines (direct checks only) it is entered as it comes.
func (c *stubCoalescer) enter(ctx context.Context) error {
	w := c.w
	// the phase of the Index call this coalescer belongs to travels in the
	// context: a goroutine of an abandoned coalesce state may only start to run
	// while the world is already in its next Index call
	ph, _ := ctx.Value(phaseKey{}).(*phase)
	w.mu.Lock()
	active := w.active && (ph == nil || ph == w.ph)
	cctx := w.callCtx
	w.mu.Unlock()
	if !active {
		return ctx.Err()
	}
	if ph == nil || (w.Concurrency > 1 && w.sched == nil) {
		err, _ := w.enter(ctx, 'C')
		return err
	}
	select {
	case <-ph.turn[0]:
	case <-ctx.Done():
		w.mu.Lock()
		all := ph.allQueried
		w.mu.Unlock()
		if !all {
			// the coalesce state was left before its last query: nobody waits for this result
			return ctx.Err()
		}
		// the last query succeeded (the context went afterwards): the release is on its way
		select {
		case <-ph.turn[0]:
		case <-time.After(20 * time.Second):
			return errors.New("stub coalescer: never released")
		}
	}
	select {
	case <-ph.turn[c.idx]:
	case <-time.After(20 * time.Second):
		return errors.New("stub coalescer: turn never came")
	}
	w.mu.Lock()
	skip := ph.failed
	w.mu.Unlock()
	var err error
	if skip {
		// cancelled by the errgroup after an earlier coalescer failed: return only
		// once the group has recorded that error (it cancels the context right after)
		select {
		case <-ctx.Done():
		case <-time.After(20 * time.Second):
		}
		err = context.Canceled
	} else {
		err, _ = w.enter(cctx, 'C')
		if err != nil {
			w.mu.Lock()
			ph.failed = true
			w.mu.Unlock()
		}
	}
	close(ph.turn[c.idx+1])
	return err
}

func (c *stubCoalescer) Coalesce(ctx context.Context, artifacts []*indexer.LayerArtifacts) (*claircore.IndexReport, error) {
	if err := c.enter(ctx); err != nil {
		return nil, err
	}
	ir := &claircore.IndexReport{
		Packages:      map[string]*claircore.Package{},
		Environments:  map[string][]*claircore.Environment{},
		Distributions: map[string]*claircore.Distribution{},
		Repositories:  map[string]*claircore.Repository{},
		Files:         map[string]claircore.File{},
	}
	for _, la := range artifacts {
		for _, p := range la.Pkgs {
			if _, ok := ir.Packages[p.ID]; ok {
				continue
			}
			ir.Packages[p.ID] = p
			ir.Environments[p.ID] = []*claircore.Environment{{PackageDB: p.PackageDB, IntroducedIn: la.Hash}}
		}
		for _, d := range la.Dist {
			ir.Distributions[d.ID] = d
		}
		for _, r := range la.Repos {
			ir.Repositories[r.ID] = r
		}
	}
	return ir, nil
}

// ---- fetch arena ----------------------------------------------------------------

var layerTar = func() []byte {
	var buf bytes.Buffer
	tw := tar.NewWriter(&buf)
	body := []byte("hello\n")
	tw.WriteHeader(&tar.Header{Name: "etc/motd", Mode: 0o644, Size: int64(len(body)), Typeflag: tar.TypeReg})
	tw.Write(body)
	tw.Close()
	return buf.Bytes()
}()

type arena struct{ w *World }

func (a *arena) Realizer(context.Context) indexer.Realizer { return &realizer{w: a.w} }
func (a *arena) Close(context.Context) error               { return nil }

type realizer struct {
	w      *World
	inited []*claircore.Layer
}

// Realize behaves like libindex.FetchProxy.Realize: the layers are realized
// into NEW claircore.Layer objects built from descriptions of the arguments,
// and the caller's slice is then pointed at them with wart.CopyLayerPointers
// (the caller's own objects stay uninitialized). The controller copies them on
// into manifest.Layers with a second CopyLayerPointers.
func (r *realizer) Realize(ctx context.Context, ls []*claircore.Layer) error {
	err, commit := r.w.enter(ctx, 'Z')
	if err != nil && !commit {
		return err
	}
	ds := wart.LayersToDescriptions(ls)
	ret := make([]claircore.Layer, len(ds))
	for i := range ds {
		// like a real fetcher, this one depends on what the description says
		r.w.mu.Lock()
		n, known := r.w.layerNo[ds[i].Digest]
		r.w.mu.Unlock()
		if !known || ds[i].URI != "mem://layer/"+strconv.Itoa(n) || len(ds[i].Headers["X-Layer"]) != 1 || ds[i].Headers["X-Layer"][0] != strconv.Itoa(n) || ds[i].MediaType == "" {
			r.w.mu.Lock()
			r.w.failed = true
			r.w.mu.Unlock()
			return fmt.Errorf("stub fetcher: cannot fetch layer %s from %q (headers %v)", ds[i].Digest, ds[i].URI, ds[i].Headers)
		}
		if ierr := ret[i].Init(ctx, &ds[i], bytes.NewReader(layerTar)); ierr != nil {
			return ierr
		}
		r.inited = append(r.inited, &ret[i])
		r.w.mu.Lock()
		r.w.Fetches = append(r.w.Fetches, r.w.layerNo[ds[i].Digest])
		r.w.mu.Unlock()
	}
	wart.CopyLayerPointers(ls, ret)
	return err
}

func (r *realizer) Close() error {
	for _, l := range r.inited {
		l.Close()
	}
	r.inited = nil
	return nil
}

// ---- operations -------------------------------------------------------------------

func (w *World) ecosystems(cfg Config) []*indexer.Ecosystem {
	n := 0
	for _, s := range cfg {
		if s.Eco+1 > n {
			n = s.Eco + 1
		}
	}
	ecos := make([]*indexer.Ecosystem, n)
	for i := range ecos {
		var ps []indexer.PackageScanner
		var ds []indexer.DistributionScanner
		var rs []indexer.RepositoryScanner
		var fs []indexer.FileScanner
		for _, s := range cfg {
			if s.Eco != i {
				continue
			}
			if s.Kind == 'f' {
				fs = append(fs, &fileStub{stub{w: w, spec: s}})
				continue
			}
			st := stub{w: w, spec: s}
			how := byte(0)
			switch {
			case s.Has('C'):
				how = 'C'
			case s.Has('R'):
				how = 'R'
			}
			switch s.Kind {
			case 'p':
				switch {
				case s.DefRepo() && how == 'C':
					ps = append(ps, &pkgRepoStubC{pkgRepoStub{pkgStub{st}}})
				case s.DefRepo() && how == 'R':
					ps = append(ps, &pkgRepoStubR{pkgRepoStub{pkgStub{st}}})
				case s.DefRepo():
					ps = append(ps, &pkgRepoStub{pkgStub{st}})
				case how == 'C':
					ps = append(ps, &pkgStubC{pkgStub{st}})
				case how == 'R':
					ps = append(ps, &pkgStubR{pkgStub{st}})
				default:
					ps = append(ps, &pkgStub{st})
				}
			case 'd':
				switch how {
				case 'C':
					ds = append(ds, &distStubC{distStub{st}})
				case 'R':
					ds = append(ds, &distStubR{distStub{st}})
				default:
					ds = append(ds, &distStub{st})
				}
			default:
				switch how {
				case 'C':
					rs = append(rs, &repoStubC{repoStub{st}})
				case 'R':
					rs = append(rs, &repoStubR{repoStub{st}})
				default:
					rs = append(rs, &repoStub{st})
				}
			}
		}
		ecos[i] = &indexer.Ecosystem{
			Name: "stub" + strconv.Itoa(i),
			PackageScanners: func(context.Context) ([]indexer.PackageScanner, error) {
				if err := w.ctor(); err != nil {
					return nil, err
				}
				return ps, nil
			},
			DistributionScanners: func(context.Context) ([]indexer.DistributionScanner, error) {
				if err := w.ctor(); err != nil {
					return nil, err
				}
				return ds, nil
			},
			RepositoryScanners: func(context.Context) ([]indexer.RepositoryScanner, error) {
				if err := w.ctor(); err != nil {
					return nil, err
				}
				return rs, nil
			},
			Coalescer: func(context.Context) (indexer.Coalescer, error) { return &stubCoalescer{w: w, idx: i}, nil },
		}
		if len(fs) > 0 {
			ecos[i].FileScanners = func(context.Context) ([]indexer.FileScanner, error) { return fs, nil }
		}
	}
	return ecos
}

// ctor counts a scanner-constructor call of a stub ecosystem and fails the one
// the running New was told to fail.
func (w *World) ctor() error {
	w.mu.Lock()
	defer w.mu.Unlock()
	if !w.inNew {
		// during Index: coalesce calls the constructors again
		if w.active && w.CtorFailInIndex > 0 {
			w.CtorFailInIndex--
			if w.CtorFailInIndex == 0 {
				w.failed = true
				return errors.New("stub ecosystem: scanner constructor failed")
			}
		}
		return nil
	}
	k := w.ctorCalls
	w.ctorCalls++
	if k == w.ctorFailAt {
		return errors.New("stub ecosystem: scanner constructor failed")
	}
	return nil
}

// Keys lists the configured scanners in the order libindex merges them
// (package, distribution, repository scanners of all ecosystems, then the
// whiteout file scanner libindex.New always adds).
func (w *World) Keys() []memstore.ScannerKey { return KeysOf(w.Cfg) }

func KeysOf(cfg Config) []memstore.ScannerKey {
	var out []memstore.ScannerKey
	n := 0
	for _, s := range cfg {
		if s.Eco+1 > n {
			n = s.Eco + 1
		}
	}
	seen := map[string]bool{}
	for _, k := range []byte{'p', 'd', 'r', 'f'} {
		for e := 0; e < n; e++ {
			for _, s := range cfg {
				if s.Kind == k && s.Eco == e {
					// EcosystemsToScanners keeps the first scanner of a name per kind
					if seen[string(k)+"/"+s.Name] {
						continue
					}
					seen[string(k)+"/"+s.Name] = true
					out = append(out, memstore.ScannerKey{Name: s.Name, Version: s.Version, Kind: s.KindName()})
				}
			}
		}
	}
	return append(out, memstore.ScannerKey{Name: "whiteout", Version: "1", Kind: "file"})
}

// SpecOf finds the specification of a configured scanner.
func SpecOf(cfg Config, k memstore.ScannerKey) (ScannerSpec, bool) {
	for _, s := range cfg {
		if s.Name == k.Name && s.Version == k.Version && s.KindName() == k.Kind {
			return s, true
		}
	}
	return ScannerSpec{}, false
}

// Configure runs libindex.New with the stub ecosystems on the world's store
// and returns the index of the first configuration since reset with the same
// state token.
func (w *World) Configure(cfg Config) (string, error) {
	out := w.New(NewFaults{CtorFailAt: -1}, cfg)
	if strings.HasPrefix(out, "err") {
		return "", errors.New(out)
	}
	return out, nil
}

// NewFaults says what is wrong with the arguments / the environment of one
// libindex.New call.
type NewFaults struct {
	NoLocker, NoStore, NoArena, NoClient bool
	RegisterFails                        bool
	CtorFailAt                           int // the k-th scanner-constructor call of the stub ecosystems fails; -1: none
}

func (f NewFaults) String() string {
	var p []string
	for _, x := range []struct {
		on bool
		s  string
	}{{f.NoLocker, "l"}, {f.NoStore, "s"}, {f.NoArena, "a"}, {f.NoClient, "h"}, {f.RegisterFails, "r"}} {
		if x.on {
			p = append(p, x.s)
		}
	}
	if f.CtorFailAt >= 0 {
		p = append(p, "c"+strconv.Itoa(f.CtorFailAt))
	}
	if len(p) == 0 {
		return "-"
	}
	return strings.Join(p, ",")
}

// NewOp renders the operation line.
func NewOp(f NewFaults, cfg Config) string { return "new " + f.String() + " " + cfg.String() }

// New runs libindex.New on the world's store. On success the world is
// reconfigured and the answer is that of Configure; on failure the previous
// Libindex stays in use and the answer tells how far New got.
func (w *World) New(nf NewFaults, cfg Config) string {
	ctx := context.Background()
	opts := &libindex.Options{
		LayerScanConcurrency: max(1, w.Concurrency),
		Ecosystems:           w.ecosystems(cfg),
	}
	if !nf.NoStore {
		opts.Store = w.Store
	}
	if !nf.NoLocker {
		opts.Locker = updates.NewLocalLockSource()
	}
	if !nf.NoArena {
		opts.FetchArena = &arena{w: w}
	}
	client := http.DefaultClient
	if nf.NoClient {
		client = nil
	}
	opts.ScannerConfig.Package = map[string]func(interface{}) error{}
	opts.ScannerConfig.Dist = map[string]func(interface{}) error{}
	opts.ScannerConfig.Repo = map[string]func(interface{}) error{}
	for _, s := range cfg {
		if !s.Has('V') {
			continue
		}
		name := s.Name
		f := func(v interface{}) error {
			if c, ok := v.(*StubConfig); ok {
				c.Token = name + "-cfg"
			}
			return nil
		}
		switch s.Kind {
		case 'p':
			opts.ScannerConfig.Package[name] = f
		case 'd':
			opts.ScannerConfig.Dist[name] = f
		default:
			opts.ScannerConfig.Repo[name] = f
		}
	}
	w.mu.Lock()
	w.ConfigEvents = nil
	w.inNew, w.ctorCalls, w.ctorFailAt, w.registered, w.registerFail = true, 0, nf.CtorFailAt, false, nf.RegisterFails
	w.mu.Unlock()
	var lib *libindex.Libindex
	var err error
	panicked := hx.Guard(func() string { lib, err = libindex.New(ctx, opts, client); return "" })
	w.mu.Lock()
	w.inNew = false
	evs := make([]string, len(w.ConfigEvents))
	for i, e := range w.ConfigEvents {
		evs[i] = e.String()
	}
	ct, rg := w.ctorCalls, w.registered
	w.mu.Unlock()
	cf := "-"
	if len(evs) > 0 {
		cf = strings.Join(evs, ",")
	}
	switch {
	case panicked != "":
		return "panic"
	case err != nil && lib != nil:
		return "err-with-lib"
	case err != nil:
		return fmt.Sprintf("err ct=%d rg=%s cf=%s", ct, b01(rg), cf)
	case lib == nil:
		return "nil-without-err"
	}
	w.Lib, w.Cfg = lib, cfg
	tok, _ := lib.State(ctx)
	w.Tokens = append(w.Tokens, tok)
	for i, t := range w.Tokens {
		if t == tok {
			return "tok " + strconv.Itoa(i) + " cf=" + cf
		}
	}
	return "unreachable"
}

// Result is the observation of one Index call.
type Result struct {
	ErrClass string // nil | gen | can | dl
	Nil      bool   // the returned report was nil
	Success  bool
	State    string
	ErrSet   bool
	Body     string
	Scanned  bool // ManifestScanned by every configured scanner, afterwards
	Stored   string
	Calls    int
	Trace    string
	Crashed  bool
	Failed   bool // some numbered call failed
	// Cancelled: the caller's context was cancelled before or during the call
	Cancelled bool
	Hang      bool
	Panic     bool
	NScans    int // stub Scan entries during this call
	NFetch    int // layers realized during this call
	// SchedFirst: under a scheduler, the kind of the first fault it granted (0: none)
	SchedFirst byte
	Note       string // why the call is reported as hung, if known
}

func classOf(err error) string {
	switch {
	case err == nil:
		return "nil"
	case errors.Is(err, context.DeadlineExceeded):
		return "dl"
	case errors.Is(err, context.Canceled):
		return "can"
	default:
		return "gen"
	}
}

func stateName(s string) string {
	if s == "" {
		return "-"
	}
	return s
}

// Body is the canonical content of a report: sorted codes
// tag*1000000 + item*1000 + layer (layer only for packages: where introduced).
func (w *World) Body(ir *claircore.IndexReport) string {
	if ir == nil {
		return "-"
	}
	var codes []int
	num := func(s string) int { n, _ := strconv.Atoi(s[1:]); return n }
	for id, p := range ir.Packages {
		envs := ir.Environments[id]
		if len(envs) == 0 {
			codes = append(codes, num(p.Name)*1000+999)
		}
		for _, e := range envs {
			codes = append(codes, num(p.Name)*1000+w.layerNo[e.IntroducedIn.String()])
		}
	}
	for _, d := range ir.Distributions {
		codes = append(codes, 1000000+num(d.Name)*1000)
	}
	for _, r := range ir.Repositories {
		codes = append(codes, 2000000+num(r.Name)*1000)
	}
	sort.Ints(codes)
	var out []string
	for i, c := range codes {
		if i > 0 && c == codes[i-1] {
			continue
		}
		out = append(out, strconv.Itoa(c))
	}
	if len(out) == 0 {
		return "-"
	}
	return strings.Join(out, ".")
}

func b01(b bool) string {
	if b {
		return "1"
	}
	return "0"
}

func (w *World) summary(ir *claircore.IndexReport) string {
	return b01(ir.Success) + "," + stateName(ir.State) + "," + b01(ir.Err != "") + "," + w.Body(ir)
}

// Index runs Libindex.Index on the manifest made of the given layer numbers
// under the fault script. dead: the caller's context is already cancelled.
func (w *World) Index(layers []int, script Script, dead bool) Result {
	m := &claircore.Manifest{Hash: ManifestDigest(layers)}
	for _, n := range layers {
		d := LayerDigest(n)
		w.layerNo[d.String()] = n
		m.Layers = append(m.Layers, &claircore.Layer{Hash: d, URI: "mem://layer/" + strconv.Itoa(n), Headers: map[string][]string{"X-Layer": {strconv.Itoa(n)}}})
	}
	ctx, cancel := context.WithCancel(context.Background())
	defer cancel()
	if dead {
		cancel()
	}
	w.mu.Lock()
	w.active, w.pos, w.script, w.crashed, w.failed, w.cancel, w.trace = true, 0, script, false, false, cancel, nil
	w.cancelled = dead
	necos := 0
	for _, s := range w.Cfg {
		necos = max(necos, s.Eco+1)
	}
	w.ph = &phase{fWant: (necos + 1) * len(layers), turn: make([]chan struct{}, necos+2)}
	for i := range w.ph.turn {
		w.ph.turn[i] = make(chan struct{})
	}
	ctx = context.WithValue(ctx, phaseKey{}, w.ph)
	w.callCtx = ctx
	s0, f0 := len(w.Scans), len(w.Fetches)
	w.mu.Unlock()
	type ret struct {
		ir    *claircore.IndexReport
		err   error
		panic bool
	}
	ch := make(chan ret, 1)
	go func() {
		defer func() {
			if e := recover(); e != nil {
				ch <- ret{panic: true}
			}
		}()
		ir, err := w.Lib.Index(ctx, m)
		ch <- ret{ir: ir, err: err}
	}()
	var r ret
	var res Result
	select {
	case r = <-ch:
	case <-time.After(20 * time.Second):
		res.Hang = true
		cancel()
		select {
		case r = <-ch:
		case <-time.After(20 * time.Second):
			// the goroutine is lost; the world must not be used any more
			w.mu.Lock()
			w.active = false
			w.mu.Unlock()
			return res
		}
	}
	w.mu.Lock()
	w.active = false
	w.mu.Unlock()
	res.Panic = r.panic
	res.ErrClass = classOf(r.err)
	res.Nil = r.ir == nil
	if r.ir != nil {
		res.Success, res.State, res.ErrSet, res.Body = r.ir.Success, stateName(r.ir.State), r.ir.Err != "", w.Body(r.ir)
	} else {
		res.State, res.Body = "-", "-"
	}
	res.Scanned = true
	for _, k := range w.Keys() {
		if !w.Store.HasManifestScanned(m.Hash.String(), k) {
			res.Scanned = false
		}
	}
	if sr, ok := w.Store.StoredReport(m.Hash.String()); ok {
		res.Stored = w.summary(sr)
	} else {
		res.Stored = "-"
	}
	res.Calls, res.Trace, res.Crashed, res.Failed = w.pos, string(w.trace), w.crashed, w.failed
	res.Cancelled = w.cancelled
	if res.Trace == "" {
		res.Trace = "-"
	}
	res.NScans, res.NFetch = len(w.Scans)-s0, len(w.Fetches)-f0
	return res
}

// Line is the canonical answer of an index operation.
func (r Result) Line() string {
	switch {
	case r.Hang && r.Note != "":
		return "hang (" + r.Note + ")"
	case r.Hang:
		return "hang"
	case r.Panic:
		return "panic"
	}
	head := fmt.Sprintf("e=%s s=%s st=%s er=%s b=%s", r.ErrClass, b01(r.Success), r.State, b01(r.ErrSet), r.Body)
	if r.Crashed {
		// nobody is left to look at what the call returned
		head = "crashed"
	}
	return fmt.Sprintf("%s sc=%s sr=%s n=%d t=%s", head, b01(r.Scanned), r.Stored, r.Calls, r.Trace)
}

// IndexOp renders the operation line.
func IndexOp(layers []int, script Script, dead bool) string {
	d := "live"
	if dead {
		d = "dead"
	}
	return fmt.Sprintf("index %s %s %s", LayersString(layers), script.String(), d)
}

// StoredSummary is the canonical summary of the report stored for the manifest
// ("-" if none), read without going through the hook.
func (w *World) StoredSummary(m []int) string {
	if sr, ok := w.Store.StoredReport(ManifestDigest(m).String()); ok {
		return w.summary(sr)
	}
	return "-"
}

// ScannedBy lists which of the configured scanners the manifest is recorded as
// scanned by, as a 0/1 string in Keys() order.
func (w *World) ScannedBy(m []int) string {
	var b strings.Builder
	for _, k := range w.Keys() {
		b.WriteString(b01(w.Store.HasManifestScanned(ManifestDigest(m).String(), k)))
	}
	return b.String()
}

// LayerState is the scanned marks and stored artifacts of one layer under the
// configured scanners.
func (w *World) LayerState(l int) string {
	var b strings.Builder
	for _, k := range w.Keys() {
		b.WriteString(b01(w.Store.HasLayerScanned(LayerDigest(l).String(), k)))
		b.WriteString("[" + strings.Join(w.Store.ArtifactNames(LayerDigest(l).String(), k), " ") + "]")
	}
	return b.String()
}

// Delete runs Libindex.DeleteManifests on the manifests made of the given
// layer lists and returns the canonical answer: what was reported as deleted
// and the row counts of the store afterwards.
func (w *World) Delete(ms [][]int) string {
	ds := make([]claircore.Digest, len(ms))
	names := map[string]string{}
	for i, m := range ms {
		ds[i] = ManifestDigest(m)
		names[ds[i].String()] = LayersString(m)
	}
	got, err := w.Lib.DeleteManifests(context.Background(), ds...)
	if err != nil {
		return "err"
	}
	out := make([]string, len(got))
	for i, d := range got {
		n, ok := names[d.String()]
		if !ok {
			n = "?"
		}
		out[i] = n
	}
	del := "-"
	if len(out) > 0 {
		del = strings.Join(out, ";")
	}
	mf, sl, ar := w.Store.Counts()
	return fmt.Sprintf("del=%s mf=%d sl=%d ar=%d", del, mf, sl, ar)
}

// DeleteOp renders the operation line.
func DeleteOp(ms [][]int) string {
	p := make([]string, len(ms))
	for i, m := range ms {
		p[i] = LayersString(m)
	}
	return "delete " + strings.Join(p, ";")
}

// ConfigOp renders the operation line.
func ConfigOp(cfg Config) string { return "config " + cfg.String() }
