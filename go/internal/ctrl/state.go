package ctrl

import (
	"context"
	"fmt"
	"net/http"
	"strconv"
	"strings"
	"time"

	"github.com/quay/claircore/alpine"
	"github.com/quay/claircore/dpkg"
	"github.com/quay/claircore/gobin"
	"github.com/quay/claircore/indexer"
	"github.com/quay/claircore/java"
	"github.com/quay/claircore/libindex"
	"github.com/quay/claircore/libvuln/updates"
	"github.com/quay/claircore/python"
	"github.com/quay/claircore/rhel"
	"github.com/quay/claircore/rhel/rhcc"
	"github.com/quay/claircore/rpm"
	"github.com/quay/claircore/ruby"
	"github.com/quay/claircore/verifharness/internal/hx"
	"github.com/quay/claircore/verifharness/internal/memstore"
)

// stateOf runs libindex.New with the ecosystems on a scratch store and returns
// Libindex.State() ("" with an error text if New did not return normally).
func stateOf(ecos []*indexer.Ecosystem) (string, string) {
	ctx, cancel := context.WithTimeout(context.Background(), 30*time.Second)
	defer cancel()
	opts := &libindex.Options{
		Store:                memstore.New(),
		Locker:               updates.NewLocalLockSource(),
		FetchArena:           &arena{w: NewWorld()},
		LayerScanConcurrency: 1,
		Ecosystems:           ecos,
	}
	var lib *libindex.Libindex
	var err error
	if p := hx.Guard(func() string { lib, err = libindex.New(ctx, opts, http.DefaultClient); return "" }); p != "" {
		return "", "panic"
	}
	if err != nil || lib == nil {
		return "", "err"
	}
	tok, _ := lib.State(ctx)
	return tok, ""
}

func (w *World) tokenIndex(tok string) string {
	w.Tokens = append(w.Tokens, tok)
	for i, t := range w.Tokens {
		if t == tok {
			return "tok " + strconv.Itoa(i)
		}
	}
	return "unreachable"
}

// State evaluates the state token of a configuration (any number of stub
// scanners of the four kinds) with libindex.New on a scratch store; the world's
// deployment is left alone, the token joins the world's list of tokens.
func (w *World) State(cfg Config) string {
	scratch := NewWorld()
	tok, bad := stateOf(scratch.ecosystems(cfg))
	if bad != "" {
		return bad
	}
	return w.tokenIndex(tok)
}

// StateOp renders the operation line.
func StateOp(cfg Config) string { return "state " + cfg.String() }

// DefaultEcosystems are the ecosystems libindex.New uses when none are given,
// in the order perm says (nil: the order of libindex.New).
func DefaultEcosystems(perm []int) []*indexer.Ecosystem {
	ctx := context.Background()
	all := []*indexer.Ecosystem{
		dpkg.NewEcosystem(ctx), alpine.NewEcosystem(ctx), rhel.NewEcosystem(ctx), rpm.NewEcosystem(ctx), python.NewEcosystem(ctx),
		java.NewEcosystem(ctx), rhcc.NewEcosystem(ctx), gobin.NewEcosystem(ctx), ruby.NewEcosystem(ctx),
	}
	if perm == nil {
		return all
	}
	out := make([]*indexer.Ecosystem, len(all))
	for i, p := range perm {
		out[i] = all[p]
	}
	return out
}

// SpecOfEcosystems describes real ecosystems as a configuration line (what the
// model needs: ecosystem index, kind, name, version of every scanner). ok is
// false when a name or version cannot be written in the line syntax.
func SpecOfEcosystems(ecos []*indexer.Ecosystem) (Config, bool) {
	ctx := context.Background()
	var cfg Config
	ok := true
	add := func(i int, k byte, v indexer.VersionedScanner) {
		if strings.ContainsAny(v.Name()+v.Version(), "/, \t\n") || v.Name() == "" || v.Version() == "" {
			ok = false
		}
		cfg = append(cfg, ScannerSpec{Eco: i, Kind: k, Name: v.Name(), Version: v.Version()})
	}
	for i, e := range ecos {
		ps, err1 := e.PackageScanners(ctx)
		ds, err2 := e.DistributionScanners(ctx)
		rs, err3 := e.RepositoryScanners(ctx)
		if err1 != nil || err2 != nil || err3 != nil {
			return nil, false
		}
		for _, s := range ps {
			add(i, 'p', s)
		}
		for _, s := range ds {
			add(i, 'd', s)
		}
		for _, s := range rs {
			add(i, 'r', s)
		}
		if e.FileScanners != nil {
			fs, err := e.FileScanners(ctx)
			if err != nil {
				return nil, false
			}
			for _, s := range fs {
				add(i, 'f', s)
			}
		}
	}
	return cfg, ok
}

// StateOfEcosystems evaluates the token of real ecosystems; the operation line
// is the `state` line of their description.
func (w *World) StateOfEcosystems(ecos []*indexer.Ecosystem) (op, out string) {
	cfg, ok := SpecOfEcosystems(ecos)
	tok, bad := stateOf(ecos)
	if bad != "" {
		return "", bad
	}
	out = w.tokenIndex(tok)
	if !ok {
		return "", out
	}
	return StateOp(cfg), out
}

var _ = fmt.Sprintf
