package ctrl

import (
	"context"
	"fmt"
	"strconv"
	"strings"
	"sync"
	"time"

	"github.com/quay/claircore"
	"github.com/quay/claircore/verifharness/internal/hx"
	"github.com/quay/claircore/verifharness/internal/memstore"
)

// Concurrent Index calls on one deployment, interleaved deterministically at
// the entry of every datastore call: each call of Libindex.Index carries its
// session number in its context; a datastore call parks until the seeded
// scheduler grants it; with LayerScanConcurrency = 1 every session has at most
// one goroutine that makes datastore calls, so "every live session is parked"
// is the point where the next grant is decided.

type duoKey struct{}

// DuoResult is what one of the concurrent sessions observed.
type DuoResult struct {
	Layers  []int
	Res     Result
	Faulted bool // one of its calls was made to fail
}

// IndexConcurrently runs Libindex.Index for each of the manifests at the same
// time on the world's current deployment (which must have been configured with
// Concurrency <= 1), interleaving their datastore calls by rnd. faultAt >= 0:
// the faultAt-th granted call (counting all sessions) fails with an ordinary
// error. It returns the sessions' observations and the interleaving (session
// numbers in grant order).
func (w *World) IndexConcurrently(ms [][]int, rnd *hx.Rand, faultAt int) ([]DuoResult, string) {
	n := len(ms)
	type sess struct {
		gate    chan bool // true: fail the call
		parked  bool
		done    bool
		waitsOn int // an earlier session indexing the same manifest: this one sits in the manifest lock until that one is done; -1: none
	}
	var mu sync.Mutex
	ss := make([]*sess, n)
	for i := range ss {
		ss[i] = &sess{gate: make(chan bool, 1), waitsOn: -1}
		for j := 0; j < i; j++ {
			if LayersString(ms[j]) == LayersString(ms[i]) && ss[i].waitsOn < 0 {
				ss[i].waitsOn = j
			}
		}
	}
	faulted := make([]bool, n)
	oldHook := w.Store.Hook
	w.Store.Hook = func(ctx context.Context, c memstore.Call) memstore.Verdict {
		id, ok := ctx.Value(duoKey{}).(int)
		if !ok {
			return memstore.Verdict{}
		}
		mu.Lock()
		ss[id].parked = true
		mu.Unlock()
		if <-ss[id].gate {
			return memstore.Verdict{Err: errInjected}
		}
		return memstore.Verdict{}
	}
	defer func() { w.Store.Hook = oldHook }()

	out := make([]DuoResult, n)
	var wg sync.WaitGroup
	s0 := make([]int, n)
	for i, layers := range ms {
		m := &claircore.Manifest{Hash: ManifestDigest(layers)}
		for _, l := range layers {
			d := LayerDigest(l)
			w.layerNo[d.String()] = l
			m.Layers = append(m.Layers, &claircore.Layer{Hash: d, URI: "mem://layer/" + strconv.Itoa(l), Headers: map[string][]string{"X-Layer": {strconv.Itoa(l)}}})
		}
		out[i].Layers = layers
		s0[i] = len(w.Scans)
		wg.Add(1)
		go func() {
			defer wg.Done()
			ctx, cancel := context.WithTimeout(context.WithValue(context.Background(), duoKey{}, i), 60*time.Second)
			defer cancel()
			var res Result
			func() {
				defer func() {
					if e := recover(); e != nil {
						res.Panic = true
					}
				}()
				ir, err := w.Lib.Index(ctx, m)
				res.ErrClass = classOf(err)
				res.Nil = ir == nil
				res.State, res.Body = "-", "-"
				if ir != nil {
					res.Success, res.State, res.ErrSet, res.Body = ir.Success, stateName(ir.State), ir.Err != "", w.Body(ir)
				}
			}()
			mu.Lock()
			ss[i].done = true
			out[i].Res = res
			mu.Unlock()
		}()
		// the sessions take their manifest locks in this order: wait until this
		// one made its first datastore call (or sits in the lock behind an earlier one)
		for t0 := time.Now(); ss[i].waitsOn < 0 && time.Since(t0) < 30*time.Second; {
			mu.Lock()
			ok := ss[i].parked || ss[i].done
			mu.Unlock()
			if ok {
				break
			}
			time.Sleep(20 * time.Microsecond)
		}
	}
	var order []string
	granted := 0
	deadline := time.Now().Add(30 * time.Second)
	for {
		mu.Lock()
		alive, ready := 0, []int{}
		for i, s := range ss {
			if s.done {
				continue
			}
			if !s.parked && s.waitsOn >= 0 && !ss[s.waitsOn].done {
				continue // blocked in the manifest lock
			}
			alive++
			if s.parked {
				ready = append(ready, i)
			}
		}
		if alive == 0 {
			mu.Unlock()
			break
		}
		if len(ready) < alive {
			mu.Unlock()
			if time.Now().After(deadline) {
				// give up: release everybody
				mu.Lock()
				for _, s := range ss {
					if s.parked {
						s.parked = false
						s.gate <- false
					}
				}
				mu.Unlock()
				for i := range out {
					out[i].Res.Hang = true
				}
				deadline = time.Now().Add(30 * time.Second)
			}
			time.Sleep(20 * time.Microsecond)
			continue
		}
		deadline = time.Now().Add(30 * time.Second)
		k := ready[rnd.Intn(len(ready))]
		fail := granted == faultAt
		granted++
		if fail {
			faulted[k] = true
		}
		order = append(order, strconv.Itoa(k))
		ss[k].parked = false
		mu.Unlock()
		ss[k].gate <- fail
	}
	wg.Wait()
	for i := range out {
		out[i].Faulted = faulted[i]
		mh := ManifestDigest(ms[i]).String()
		out[i].Res.Scanned = true
		for _, k := range w.Keys() {
			if !w.Store.HasManifestScanned(mh, k) {
				out[i].Res.Scanned = false
			}
		}
		out[i].Res.Stored = w.StoredSummary(ms[i])
	}
	return out, strings.Join(order, "")
}

// Line is a short rendering for witnesses.
func (d DuoResult) Line() string {
	r := d.Res
	return fmt.Sprintf("%s: e=%s s=%s st=%s er=%s b=%s sc=%s sr=%s", LayersString(d.Layers), r.ErrClass, b01(r.Success), r.State, b01(r.ErrSet), r.Body, b01(r.Scanned), r.Stored)
}
