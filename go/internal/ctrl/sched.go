package ctrl

import (
	"context"
	"fmt"
	"strconv"
	"strings"
	"sync"
	"sync/atomic"
	"time"

	"github.com/quay/claircore/internal/verifhook"
	"github.com/quay/claircore/verifharness/internal/hx"
	"github.com/quay/claircore/verifharness/internal/memstore"
)

// The scheduler of LayerScanner.Scan's goroutines (lean Model/ScanSched).
//
// layerscanner.go has hook points where a closure is constructed
// (layerscanner.launch, on the main goroutine, before g.Go may block), where it
// starts and ends (layerscanner.start / .done, on its own goroutine), where the
// main loop reaches the next layer (layerscanner.layer) and g.Wait
// (layerscanner.wait). Together with the entry of every store / scanner call
// (World.enter) these are the places where a participant parks. The scheduler
// waits until nobody can move (every started closure is parked; the main loop
// is parked at a layer, or in g.Wait, or blocked in g.Go with all slots taken;
// a cancellation that is under way has arrived), then lets exactly one
// participant take one step, chosen by the seeded generator, and records it.
// The real goroutines thus run one at a time, in an order that is a function of
// the seed, and the recorded schedule is replayed by the model.

const (
	thLaunched = iota // closure constructed, goroutine not yet at its first point
	thAtStart         // parked at layerscanner.start
	thAtCall          // parked at the entry of a store / scanner call
	thRunning
	thDone
)

type sthread struct {
	idx        int
	key        string
	state      int
	letter     byte
	gate       chan byte // the granted fault letter ('-' = none)
	ctx        context.Context
	lastFailed bool // its last granted call was made to fail
}

// Sched schedules one Scan.
type Sched struct {
	rnd       *hx.Rand
	limit     int
	faultRate int // one call in faultRate is granted with a fault; 0: never

	mu       sync.Mutex
	threads  map[string]*sthread
	order    []*sthread
	launched int
	started  int
	done     int
	mainAt   string // "" running, "layer", "wait"
	mainGate chan struct{}
	grants   []string
	first    byte // kind of the first fault granted
	stalled  bool
	note     string // what went wrong, if the schedule could not be carried through
}

var (
	activeSched atomic.Pointer[Sched]
	retryHook   atomic.Pointer[func(key string)]
)

func init() {
	verifhook.Install(func(site, key string) {
		switch site {
		case "controller.run.retry":
			if f := retryHook.Load(); f != nil {
				(*f)(key)
			}
		case "layerscanner.launch", "layerscanner.start", "layerscanner.done", "layerscanner.layer", "layerscanner.wait":
			if s := activeSched.Load(); s != nil {
				s.point(site, key)
			}
		}
	})
}

func threadKey(layer string, k memstore.ScannerKey) string {
	return layer + "|" + k.Kind + "|" + k.Name + "|" + k.Version
}

func (s *Sched) point(site, key string) {
	switch site {
	case "layerscanner.launch":
		s.mu.Lock()
		if s.threads[key] != nil && s.note == "" {
			// one closure per (layer, scanner) pair is what Scan's de-duplication promises
			s.note = "the pair " + key + " was handed to g.Go twice in one Scan"
		}
		th := &sthread{idx: len(s.order), key: key, state: thLaunched, gate: make(chan byte, 1)}
		s.threads[key] = th
		s.order = append(s.order, th)
		s.launched++
		s.mu.Unlock()
	case "layerscanner.start":
		s.mu.Lock()
		th := s.threads[key]
		if th == nil || s.stalled {
			s.mu.Unlock()
			return
		}
		th.state = thAtStart
		s.started++
		s.mu.Unlock()
		<-th.gate
	case "layerscanner.done":
		s.mu.Lock()
		if th := s.threads[key]; th != nil {
			th.state = thDone
			s.done++
		}
		s.mu.Unlock()
	case "layerscanner.layer":
		s.mu.Lock()
		if s.stalled {
			s.mu.Unlock()
			return
		}
		s.mainAt = "layer"
		s.mu.Unlock()
		<-s.mainGate
	case "layerscanner.wait":
		s.mu.Lock()
		s.mainAt = "wait"
		s.mu.Unlock()
	}
}

// park is called at the entry of a store / scanner call made by a closure; it
// returns the fault the scheduler grants the call with ('-': none) and whether
// the call belongs to a scheduled closure at all.
func (s *Sched) park(ctx context.Context, key string, letter byte) (byte, bool) {
	s.mu.Lock()
	th := s.threads[key]
	if th == nil || th.state == thDone || th.state == thLaunched || s.stalled {
		s.mu.Unlock()
		return 0, false
	}
	th.state, th.letter, th.ctx = thAtCall, letter, ctx
	s.mu.Unlock()
	return <-th.gate, true
}

// quiescent: nobody can move without a grant. Called with s.mu held.
func (s *Sched) quiescent() bool {
	for _, th := range s.order {
		switch th.state {
		case thRunning:
			return false
		case thDone:
			// the errgroup cancels its context after the closure returned an error
			if th.lastFailed && th.ctx != nil && th.ctx.Err() == nil {
				return false
			}
		}
	}
	switch {
	case (s.mainAt == "layer" || s.mainAt == "wait") && s.launched == s.started:
		return true
	case s.launched == s.started+1 && s.started-s.done == s.limit:
		return true // the main loop is blocked in g.Go: every slot is taken
	}
	return false
}

var schedFaults = []byte{FErr, FCanceled, FDeadline, FCancelCtx, FCancelAfter, FCrash, FCommitErr}

// run grants steps until the Index call is over (ch is closed by the caller
// when Libindex.Index returned).
func (s *Sched) run(over <-chan struct{}) {
	deadline := time.Now().Add(20 * time.Second)
	for {
		select {
		case <-over:
			return
		default:
		}
		s.mu.Lock()
		if s.note != "" {
			s.mu.Unlock()
			s.stall()
			return
		}
		if !s.quiescent() {
			s.mu.Unlock()
			if time.Now().After(deadline) {
				s.stall()
				return
			}
			time.Sleep(20 * time.Microsecond)
			continue
		}
		// who can move
		var cand []*sthread
		for _, th := range s.order {
			if th.state == thAtStart || th.state == thAtCall {
				cand = append(cand, th)
			}
		}
		n := len(cand)
		if s.mainAt == "layer" {
			n++
		}
		if n == 0 {
			// everything handed over is done; the main loop is in (or about to enter) g.Wait, or Scan has not begun
			s.mu.Unlock()
			if time.Now().After(deadline) {
				s.stall()
				return
			}
			time.Sleep(20 * time.Microsecond)
			continue
		}
		deadline = time.Now().Add(20 * time.Second)
		k := s.rnd.Intn(n)
		if k == len(cand) {
			s.grants = append(s.grants, "M")
			s.mainAt = ""
			s.mu.Unlock()
			s.mainGate <- struct{}{}
			continue
		}
		th := cand[k]
		f := byte('-')
		if th.state == thAtCall && s.faultRate > 0 && s.rnd.Intn(s.faultRate) == 0 {
			f = schedFaults[s.rnd.Intn(len(schedFaults))]
			if s.first == 0 {
				s.first = f
			}
		}
		if th.state == thAtCall && f != '-' && f != FCancelAfter {
			th.lastFailed = true
		}
		s.grants = append(s.grants, strconv.Itoa(th.idx)+string(f))
		th.state = thRunning
		s.mu.Unlock()
		th.gate <- f
	}
}

// stall gives up: everybody is released and runs free.
func (s *Sched) stall() {
	s.mu.Lock()
	s.stalled = true
	for _, th := range s.order {
		if th.state == thAtStart || th.state == thAtCall {
			th.state = thRunning
			th.gate <- '-'
		}
	}
	at := s.mainAt
	s.mainAt = ""
	s.mu.Unlock()
	if at == "layer" {
		s.mainGate <- struct{}{}
	}
}

func (s *Sched) schedule() string {
	s.mu.Lock()
	defer s.mu.Unlock()
	if len(s.grants) == 0 {
		return "-"
	}
	return strings.Join(s.grants, ",")
}

// IndexSched is Index with the scanner goroutines of LayerScanner.Scan run one
// at a time under a seeded schedule (the world must have been configured with
// Concurrency = the limit). It returns the observation and the schedule used.
func (w *World) IndexSched(layers []int, rnd *hx.Rand, faultRate int) (Result, string) {
	s := &Sched{rnd: rnd, limit: max(1, w.Concurrency), faultRate: faultRate, threads: map[string]*sthread{}, mainGate: make(chan struct{})}
	w.sched = s
	activeSched.Store(s)
	over := make(chan struct{})
	var wg sync.WaitGroup
	wg.Add(1)
	go func() {
		defer wg.Done()
		s.run(over)
	}()
	res := w.Index(layers, Script{}, false)
	close(over)
	wg.Wait()
	activeSched.Store(nil)
	w.sched = nil
	res.SchedFirst = s.first
	if s.stalled {
		res.Hang = true
		res.Note = s.note
		if res.Note == "" {
			res.Note = "the scanner goroutines could not be scheduled (a participant did not reach its next hook point)"
		}
	}
	return res, s.schedule()
}

// PIndexOp renders the operation line.
func PIndexOp(layers []int, limit int, sched string) string {
	return fmt.Sprintf("pindex %s %d %s", LayersString(layers), limit, sched)
}
