// Package c08 is the harness of property C08 (index results are a function of
// the manifest, not of indexing history): histories of Libindex.Index calls
// over families of manifests with overlapping and repeated layers, interleaved
// with changes of the configured scanner set (libindex.New on the same store),
// on the real indexer over the in-memory store. Every call is a protocol line
// the Lean model answers too; the statement is checked directly: every
// fault-free call against a cold run of the same manifest on a fresh store,
// re-submission is a three-call lookup, no (layer, scanner version) pair
// recorded as scanned is scanned or fetched for again, and the state token
// changes exactly when the scanner set changes.
package c08

import (
	"fmt"
	"sort"
	"strings"

	"github.com/quay/claircore/verifharness/internal/c07"
	"github.com/quay/claircore/verifharness/internal/ctrl"
	"github.com/quay/claircore/verifharness/internal/hx"
	"github.com/quay/claircore/verifharness/internal/memstore"
)

const (
	FindingStale   = "stale-report-after-scanner-change"
	FindingClobber = "report-clobbered"
)

func keySet(cfg ctrl.Config) string {
	ks := ctrl.KeysOf(cfg)
	p := make([]string, len(ks))
	for i, k := range ks {
		p[i] = k.Kind + "/" + k.Name + "/" + k.Version
	}
	sort.Strings(p)
	return strings.Join(p, ",")
}

// cfgSig identifies what a stored report depends on besides the manifest: the
// configured scanners AND how the ecosystems group them (each ecosystem's
// coalescer sees only its own scanners' artifacts). The order of ecosystems and
// of scanners inside one does not matter.
func cfgSig(cfg ctrl.Config) string {
	necos := 0
	for _, s := range cfg {
		necos = max(necos, s.Eco+1)
	}
	var ecos []string
	for e := 0; e < necos; e++ {
		var ks []string
		for _, s := range cfg {
			if s.Eco == e {
				ks = append(ks, s.KindName()+"/"+s.Name+"/"+s.Version)
			}
		}
		if len(ks) == 0 {
			continue
		}
		sort.Strings(ks)
		ecos = append(ecos, strings.Join(ks, ","))
	}
	sort.Strings(ecos)
	return strings.Join(ecos, " | ")
}

type hist struct {
	r *hx.Run
	s *ctrl.Session

	cfgs      []ctrl.Config     // configurations since reset, in order
	written   map[string]string // manifest -> key set under which its stored report was last written
	clobbered map[string]bool   // manifest -> a failed attempt hit it while it was recorded as scanned
	log       []string
}

func (h *hist) reset() {
	h.s.Reset()
	h.cfgs = nil
	h.written = map[string]string{}
	h.clobbered = map[string]bool{}
	h.log = nil
}

// net switches the network. Scan results recorded under the other state stay.
func (h *hist) net(down bool) {
	h.s.Net(down)
	h.log = append(h.log, fmt.Sprintf("net down=%v", down))
}

// newFaulty runs libindex.New with something wrong; it must fail, return no
// Libindex, and leave the deployment as it was.
func (h *hist) newFaulty(nf ctrl.NewFaults, cfg ctrl.Config) {
	libBefore, ntok := h.s.W.Lib, len(h.s.W.Tokens)
	out := h.s.New(nf, cfg)
	h.log = append(h.log, ctrl.NewOp(nf, cfg))
	wit := fmt.Sprintf("history [%s] => %s", h.where(), out)
	h.r.Case("new "+wit, true)
	necos := 0
	for _, s := range cfg {
		necos = max(necos, s.Eco+1)
	}
	mustFail := nf.NoLocker || nf.NoStore || nf.NoArena || nf.NoClient || nf.RegisterFails || (nf.CtorFailAt >= 0 && nf.CtorFailAt < 6*necos)
	switch {
	case mustFail && !strings.HasPrefix(out, "err "):
		h.r.Fail("", "libindex.New did not report the failure of its arguments / environment: "+wit)
	case mustFail && (h.s.W.Lib != libBefore || len(h.s.W.Tokens) != ntok):
		h.r.Fail("", "harness: a failed New replaced the deployment: "+wit)
	case !mustFail && !strings.HasPrefix(out, "tok "):
		h.r.Fail("", "libindex.New failed although nothing was wrong: "+wit)
	case !mustFail:
		h.cfgs = append(h.cfgs, cfg)
	}
}

func (h *hist) where() string { return strings.Join(h.log, "; ") }

// config reconfigures and checks the token statement against every earlier
// configuration of the history.
func (h *hist) config(cfg ctrl.Config) {
	h.s.Config(cfg)
	h.cfgs = append(h.cfgs, cfg)
	h.log = append(h.log, "config "+cfg.String())
	n := len(h.cfgs) - 1
	for i := 0; i < n; i++ {
		sameTok := h.s.W.Tokens[i] == h.s.W.Tokens[n]
		sameSet := keySet(h.cfgs[i]) == keySet(cfg)
		h.r.Case(fmt.Sprintf("token %s | %s", h.cfgs[i], cfg), true)
		if sameTok != sameSet {
			h.r.Fail("", fmt.Sprintf("state token: same-token=%v but same-scanner-set=%v for configs [%s] and [%s]", sameTok, sameSet, h.cfgs[i], cfg))
		}
		if sameSet {
			h.r.Count("token.same-set")
		} else {
			h.r.Count("token.different-set")
		}
	}
}

func (h *hist) marks(layers []int) map[string]bool {
	out := map[string]bool{}
	for _, l := range layers {
		for _, k := range h.s.W.Keys() {
			if h.s.W.Store.HasLayerScanned(ctrl.LayerDigest(l).String(), k) {
				out[fmt.Sprintf("%d|%s|%s|%s", l, k.Kind, k.Name, k.Version)] = true
			}
		}
	}
	return out
}

func (h *hist) scanned(m []int) bool {
	for _, k := range h.s.W.Keys() {
		if !h.s.W.Store.HasManifestScanned(ctrl.ManifestDigest(m).String(), k) {
			return false
		}
	}
	return true
}

// index performs one call and checks the statement on it.
func (h *hist) index(m []int, script ctrl.Script) {
	cfg := h.s.W.Cfg
	ms := ctrl.LayersString(m)
	before := h.marks(m)
	was := h.scanned(m)
	s0, f0 := len(h.s.W.Scans), len(h.s.W.Fetches)
	res := h.s.Index(m, script, false)
	h.log = append(h.log, strings.TrimPrefix(ctrl.IndexOp(m, script, false), "index "))
	wit := fmt.Sprintf("history [%s] => %s", h.where(), res.Line())
	if res.Hang || res.Panic {
		h.r.Fail("", "index did not return normally: "+wit)
		return
	}
	// bookkeeping for the classification of the two listed findings:
	// under which scanner set was the stored report of this manifest last
	// written (finished or intermediate; the write-back of a pure lookup does
	// not count, it stores what was there)
	wrote := strings.ContainsAny(res.Trace, "RY")
	for p, k := range script {
		if k == ctrl.FCommitErr && (ctrl.FaultAt(res, p) == 'Y' || ctrl.FaultAt(res, p) == 'R') {
			wrote = true
		}
	}
	if wrote && res.Trace != "MGR" {
		h.written[ms] = cfgSig(cfg)
	}
	if strings.Contains(res.Trace, "Y") {
		h.clobbered[ms] = false
	}
	if was && res.Failed {
		h.clobbered[ms] = true
	}
	for p, k := range script {
		if k == ctrl.FCommitErr && ctrl.FaultAt(res, p) == 'Y' {
			h.clobbered[ms] = true
		}
	}
	// a pair recorded as scanned is not scanned again; a layer is fetched only if some configured scanner still needs it
	keys := h.s.W.Keys()
	for _, ev := range h.s.W.Scans[s0:] {
		if before[fmt.Sprintf("%d|%s|%s|%s", ev.Layer, ev.Scanner.Kind, ev.Scanner.Name, ev.Scanner.Version)] {
			h.r.Fail("", fmt.Sprintf("layer %d scanned again by %s/%s/%s although recorded as scanned: %s", ev.Layer, ev.Scanner.Kind, ev.Scanner.Name, ev.Scanner.Version, wit))
		}
	}
	for _, l := range h.s.W.Fetches[f0:] {
		need := false
		for _, k := range keys {
			if !before[fmt.Sprintf("%d|%s|%s|%s", l, k.Kind, k.Name, k.Version)] {
				need = true
			}
		}
		if !need {
			h.r.Fail("", fmt.Sprintf("layer %d fetched although every configured scanner is recorded as having scanned it: %s", l, wit))
		}
	}
	for _, b := range h.s.CheckStore() {
		h.r.Fail(b.Class, b.Msg+": "+wit)
	}
	if len(script) > 0 {
		h.r.Count("op.index-faulty")
		return
	}
	// did a scanner that needs the network scan a layer of this manifest under
	// another state of the network than the present one? (the last scan of a
	// pair is the one whose results are stored)
	// (artifacts of a failed attempt stay, so any earlier scan counts, not only the last)
	other := map[string]bool{}
	for _, ev := range h.s.W.Scans {
		if ev.Down != h.s.W.NetDown {
			other[fmt.Sprintf("%d|%v", ev.Layer, ev.Scanner)] = true
		}
	}
	taint := false
	for _, k := range keys {
		sp, ok := ctrl.SpecOf(cfg, k)
		if !ok || !sp.Has('N') {
			continue
		}
		for _, l := range m {
			if other[fmt.Sprintf("%d|%v", l, k)] {
				taint = true
			}
		}
	}
	if taint {
		// by design (result.Do swallows *net.AddrError): no comparison with a cold run; the model still has to agree
		h.r.Count("op.index-after-addr-error(by design: no cold comparison)")
		return
	}
	// fault-free call: compare with the cold run
	cold := h.s.Cold(cfg, m)
	h.r.Case("cold "+cfg.String()+" "+ms+" after "+fmt.Sprint(len(h.log)), len(h.log) > 2)
	ok := res.ErrClass == "nil" && res.Success && res.State == "IndexFinished" && !res.ErrSet && res.Body == cold.Body
	if !ok {
		cls := ""
		if res.Trace == "MGR" {
			switch {
			case h.clobbered[ms]:
				cls = FindingClobber
			case h.written[ms] != "" && h.written[ms] != cfgSig(cfg):
				// the stored report was last written under another scanner set, or under the
				// same scanners grouped into other ecosystems (the scanned_manifest rows,
				// and the state token, cannot tell)
				cls = FindingStale
			}
		}
		h.r.Fail(cls, fmt.Sprintf("report differs from the cold run (%s): %s", cold.Line(), wit))
	}
	if was {
		h.r.Count("op.index-resubmit")
		if res.Trace != "MGR" || res.NScans != 0 || res.NFetch != 0 {
			h.r.Fail("", "re-submitting an indexed manifest is not a pure lookup: "+wit)
		}
	} else {
		h.r.Count("op.index-new")
		h.r.Count(fmt.Sprintf("op.index-new.scans=%d", bucket(res.NScans)))
		h.r.Count(fmt.Sprintf("op.index-new.fetches=%d", res.NFetch))
	}
}

// delete performs one DeleteManifests call and checks what it must and must
// not remove.
func (h *hist) delete(ms [][]int) {
	w := h.s.W
	inArg := map[string]bool{}
	var want []string
	for _, m := range ms {
		k := ctrl.LayersString(m)
		if !inArg[k] && w.Store.HasManifest(ctrl.ManifestDigest(m).String()) {
			want = append(want, k)
		}
		inArg[k] = true
	}
	type snap struct {
		had             bool
		stored, scanned string
	}
	before := map[string]snap{}
	for k, m := range h.s.Manifests {
		before[k] = snap{w.Store.HasManifest(ctrl.ManifestDigest(m).String()), w.StoredSummary(m), w.ScannedBy(m)}
	}
	layerBefore := map[int]string{}
	for k, m := range h.s.Manifests {
		if inArg[k] {
			continue
		}
		for _, l := range m {
			layerBefore[l] = w.LayerState(l)
		}
	}
	out := h.s.Delete(ms)
	h.log = append(h.log, ctrl.DeleteOp(ms))
	wit := fmt.Sprintf("history [%s] => %s", h.where(), out)
	h.r.Case("delete "+wit, true)
	wantS := "-"
	if len(want) > 0 {
		wantS = strings.Join(want, ";")
	}
	if !strings.HasPrefix(out, "del="+wantS+" ") {
		h.r.Fail("", "DeleteManifests does not report exactly the manifests it held ("+wantS+"): "+wit)
	}
	for _, m := range ms {
		k := ctrl.LayersString(m)
		if w.Store.HasManifest(ctrl.ManifestDigest(m).String()) || strings.Contains(w.ScannedBy(m), "1") || w.StoredSummary(m) != "-" {
			h.r.Fail("", "manifest "+k+" was deleted but is still persisted / recorded as scanned / has a stored report: "+wit)
		}
		delete(h.written, k)
		delete(h.clobbered, k)
		h.r.Count("delete.known=" + fmt.Sprint(before[k].had))
	}
	for k, m := range h.s.Manifests {
		if inArg[k] {
			continue
		}
		b := before[k]
		if b.had != w.Store.HasManifest(ctrl.ManifestDigest(m).String()) || b.stored != w.StoredSummary(m) || b.scanned != w.ScannedBy(m) {
			h.r.Fail("", fmt.Sprintf("deleting other manifests changed the records of manifest %s (stored %s -> %s, scanned %s -> %s): %s", k, b.stored, w.StoredSummary(m), b.scanned, w.ScannedBy(m), wit))
		}
		if !b.had {
			continue
		}
		for _, l := range m {
			if now := w.LayerState(l); now != layerBefore[l] {
				h.r.Fail("", fmt.Sprintf("layer %d is still referred to by manifest %s but its scan records changed (%s -> %s): %s", l, k, layerBefore[l], now, wit))
			}
		}
	}
	for _, b := range h.s.CheckStore() {
		h.r.Fail(b.Class, b.Msg+": "+wit)
	}
}

func bucket(n int) int {
	for _, b := range []int{0, 1, 2, 4, 8, 16} {
		if n <= b {
			return b
		}
	}
	return 32
}

// mutate derives the next configuration of a history.
func mutate(rnd *hx.Rand, salt uint64, cur ctrl.Config, earlier []ctrl.Config) (ctrl.Config, string) {
	cp := append(ctrl.Config(nil), cur...)
	switch rnd.Intn(6) {
	case 0: // permute: same set, other order
		for i := len(cp) - 1; i > 0; i-- {
			j := rnd.Intn(i + 1)
			cp[i], cp[j] = cp[j], cp[i]
		}
		// keep ecosystem numbering dense and ecosystem 0 present
		return cp, "permute"
	case 1: // bump a version (in every ecosystem that lists the scanner)
		if len(cp) > 0 {
			i := rnd.Intn(len(cp))
			k, n := cp[i].Kind, cp[i].Name
			for j := range cp {
				if cp[j].Kind == k && cp[j].Name == n {
					cp[j].Version = cp[j].Version + "x"
					cp[j].Flags = c07.GenFlags(salt, k, n, cp[j].Version)
				}
			}
			return cp, "bump"
		}
	case 2: // remove a scanner (from every ecosystem that lists it)
		if len(cp) > 1 {
			i := rnd.Intn(len(cp))
			k, n := cp[i].Kind, cp[i].Name
			var out ctrl.Config
			for _, t := range cp {
				if !(t.Kind == k && t.Name == n) {
					out = append(out, t)
				}
			}
			if len(out) > 0 {
				return normalize(out), "remove"
			}
		}
	case 3: // roll back to an earlier configuration
		if len(earlier) > 0 {
			return earlier[rnd.Intn(len(earlier))], "rollback"
		}
	case 4: // same name, other kind
		if len(cp) > 0 && len(cp) < 5 {
			s := cp[rnd.Intn(len(cp))]
			s.Kind = "pdr"[rnd.Intn(3)]
			s.Flags = c07.GenFlags(salt, s.Kind, s.Name, s.Version)
			for _, t := range cp {
				if t.Kind == s.Kind && t.Name == s.Name {
					return cp, "same"
				}
			}
			return append(cp, s), "add-same-name"
		}
	}
	// add a scanner
	for tries := 0; tries < 20 && len(cp) < 5; tries++ {
		s := c07.GenConfig(rnd, salt)[0]
		s.Eco = 0
		dup := false
		for _, t := range cp {
			if t.Kind == s.Kind && t.Name == s.Name {
				dup = true
			}
		}
		if !dup {
			return append(cp, s), "add"
		}
	}
	return cp, "same"
}

func hasN(cfg ctrl.Config) bool {
	for _, s := range cfg {
		if s.Has('N') {
			return true
		}
	}
	return false
}

func normalize(cfg ctrl.Config) ctrl.Config {
	has0 := false
	for _, s := range cfg {
		if s.Eco == 0 {
			has0 = true
		}
	}
	if !has0 {
		for i := range cfg {
			cfg[i].Eco = 0
		}
	}
	return cfg
}

var faultKinds = []byte{ctrl.FErr, ctrl.FCanceled, ctrl.FDeadline, ctrl.FCancelCtx, ctrl.FCancelAfter, ctrl.FCrash, ctrl.FCommitErr}

// known replays the witnesses of the listed findings.
func (h *hist) known() {
	ab := ctrl.Config{{Eco: 0, Kind: 'p', Name: "a", Version: "1"}, {Eco: 0, Kind: 'd', Name: "b", Version: "1"}}
	a := ctrl.Config{{Eco: 0, Kind: 'p', Name: "a", Version: "1"}}
	m := []int{1, 2}
	// scanner b removed: the report stored under {a, b} is returned under {a}
	h.reset()
	h.s.Config(ab)
	h.s.Index(m, ctrl.Script{}, false)
	h.s.Config(a)
	res := h.s.Index(m, ctrl.Script{}, false)
	cold := h.s.Cold(a, m)
	if res.Trace == "MGR" && res.Body != cold.Body {
		h.r.KnownSeen(FindingStale, fmt.Sprintf("config %s; index 1.2; config %s; index 1.2 => %s ; cold run under %s => b=%s", ab, a, res.Line(), a, cold.Body))
	}
	// the same scanners regrouped into other ecosystems: the report coalesced under the old grouping is returned
	g1 := ctrl.Config{{Eco: 0, Kind: 'r', Name: "b", Version: "1"}, {Eco: 1, Kind: 'p', Name: "c", Version: "1"}, {Eco: 0, Kind: 'd', Name: "c", Version: "v1"}, {Eco: 1, Kind: 'p', Name: "bc", Version: "1"}}
	g2 := ctrl.Config{{Eco: 0, Kind: 'r', Name: "b", Version: "1"}, {Eco: 0, Kind: 'd', Name: "c", Version: "v1"}, {Eco: 1, Kind: 'p', Name: "bc", Version: "1"}, {Eco: 0, Kind: 'p', Name: "c", Version: "1"}}
	mg := []int{4, 4, 1, 2}
	h.reset()
	h.s.Config(g1)
	h.s.Index(mg, ctrl.Script{}, false)
	h.s.Config(g2)
	res = h.s.Index(mg, ctrl.Script{}, false)
	cold = h.s.Cold(g2, mg)
	if res.Trace == "MGR" && res.Body != cold.Body && keySet(g1) == keySet(g2) {
		h.r.KnownSeen(FindingStale, fmt.Sprintf("config %s; index 4.4.1.2; config %s (same scanners, c moved to ecosystem 0, same state token); index 4.4.1.2 => %s ; cold run => b=%s", g1, g2, res.Line(), cold.Body))
	}
	// a failed re-index overwrites the finished report
	h.reset()
	h.s.Config(a)
	h.s.Index(m, ctrl.Script{}, false)
	h.s.Index(m, ctrl.Script{1: ctrl.FErr}, false)
	res = h.s.Index(m, ctrl.Script{}, false)
	if res.Trace == "MGR" && !res.Success {
		h.r.KnownSeen(FindingClobber, fmt.Sprintf("config %s; index 1.2; index 1.2 with IndexReport failing once (1:e); index 1.2 => %s", a, res.Line()))
	}
}

// concurrent runs Index calls of manifests that share layers (or are the same
// manifest) at the same time on one deployment, their datastore calls
// interleaved by the seeded scheduler, and checks that every session that was
// not made to fail returns exactly the cold-run report, that the store ends up
// consistent, and that nothing is scanned more often than the sessions can
// account for. No protocol lines (the model is sequential); the theorems that
// speak about this are the interleaving invariants of C07.
func concurrent(r *hx.Run, q *ctrl.Session, rnd *hx.Rand) {
	q.Reset()
	cfg := c07.GenConfig(rnd, rnd.U64())
	for i := range cfg {
		// scanners that misbehave by design are out of scope here
		cfg[i].Flags = strings.NewReplacer("N", "", "X", "").Replace(cfg[i].Flags)
	}
	q.Config(cfg)
	base := c07.GenManifest(rnd, 3)
	var ms [][]int
	for n := 2 + rnd.Intn(2); len(ms) < n; {
		nbase := 0
		for _, m := range ms {
			if ctrl.LayersString(m) == ctrl.LayersString(base) {
				nbase++
			}
		}
		x := rnd.Intn(4)
		if x == 0 && nbase >= 2 {
			x = 1 // at most two sessions wait for one manifest lock (who gets it third is not decided by the schedule)
		}
		switch x {
		case 0:
			ms = append(ms, base) // the same manifest: the manifest lock serialises them
		case 1:
			ms = append(ms, c07.GenManifest(rnd, 3))
		default: // shares layers with base
			m := append([]int{}, base...)
			m = append(m, 1+rnd.Intn(6))
			if rnd.Chance(1, 2) {
				m = m[1:]
			}
			ms = append(ms, m)
		}
	}
	// at most two sessions per manifest (who gets a manifest lock third is not decided by the schedule)
	occ := map[string]int{}
	var kept [][]int
	for _, m := range ms {
		if occ[ctrl.LayersString(m)]++; occ[ctrl.LayersString(m)] <= 2 {
			kept = append(kept, m)
		}
	}
	ms = kept
	if rnd.Chance(1, 3) {
		q.Index(base, ctrl.Script{}, false) // some layers are already scanned
	}
	// the shape of finding report-clobbered: a failed attempt on a manifest that is recorded as indexed
	pre := map[string]bool{}
	for _, m := range ms {
		pre[ctrl.LayersString(m)] = strings.Contains(q.W.ScannedBy(m), "1") && !strings.Contains(q.W.ScannedBy(m), "0")
	}
	marked := map[string]bool{}
	for _, m := range ms {
		for _, l := range m {
			for _, k := range q.W.Keys() {
				if q.W.Store.HasLayerScanned(ctrl.LayerDigest(l).String(), k) {
					marked[fmt.Sprintf("%d|%v", l, k)] = true
				}
			}
		}
	}
	faultAt := -1
	if rnd.Chance(1, 3) {
		faultAt = rnd.Intn(80)
	}
	s0 := len(q.W.Scans)
	out, order := q.W.IndexConcurrently(ms, rnd, faultAt)
	var lines []string
	for _, d := range out {
		lines = append(lines, d.Line())
		q.Manifests[ctrl.LayersString(d.Layers)] = d.Layers
	}
	wit := fmt.Sprintf("config %s; concurrent Index of %d manifests, datastore calls interleaved as %s, fault at granted call %d => %s", cfg, len(ms), order, faultAt, strings.Join(lines, " ; "))
	r.Case("concurrent "+wit, true)
	r.Count(fmt.Sprintf("concurrent.sessions=%d", len(ms)))
	anyFault := false
	clobbered := map[string]bool{}
	okBefore := map[string]bool{}
	for _, d := range out {
		k := ctrl.LayersString(d.Layers)
		if d.Faulted && (pre[k] || okBefore[k]) {
			clobbered[k] = true
		}
		if !d.Faulted {
			okBefore[k] = true // sessions of one manifest run in this order (the manifest lock)
		}
	}
	for _, d := range out {
		if d.Res.Hang || d.Res.Panic {
			r.Fail("", "concurrent Index did not return normally: "+wit)
			return
		}
		if d.Faulted {
			anyFault = true
			r.Count("concurrent.session-faulted")
			if d.Res.ErrClass == "nil" && (d.Res.Success || !d.Res.ErrSet) {
				r.Fail("", "a datastore call of the session failed but Index returned a nil error and a report that does not carry an error: "+wit)
			}
			continue
		}
		cold := q.Cold(cfg, d.Layers)
		if !(d.Res.ErrClass == "nil" && d.Res.Success && d.Res.State == "IndexFinished" && !d.Res.ErrSet && d.Res.Body == cold.Body && d.Res.Scanned) {
			// a session behind a failed attempt on the same manifest is a retry: still must converge
			cls := ""
			if clobbered[ctrl.LayersString(d.Layers)] {
				cls = FindingClobber
			}
			r.Fail(cls, fmt.Sprintf("a concurrent Index differs from the cold run of %s (%s): %s", ctrl.LayersString(d.Layers), cold.Line(), wit))
		}
	}
	// nothing that was recorded as scanned is scanned again; a pair is scanned at most once per session that holds the layer
	count := map[string]int{}
	for _, ev := range q.W.Scans[s0:] {
		k := fmt.Sprintf("%d|%v", ev.Layer, ev.Scanner)
		count[k]++
		if marked[k] {
			r.Fail("", "a (layer, scanner) pair recorded as scanned was scanned again by a concurrent Index: "+k+": "+wit)
		}
	}
	for k, c := range count {
		holders := map[string]bool{}
		for _, m := range ms {
			for _, l := range m {
				if strings.HasPrefix(k, fmt.Sprintf("%d|", l)) {
					holders[ctrl.LayersString(m)] = true // sessions of one manifest are serialised by its lock: they count once
				}
			}
		}
		if c > len(holders) && !anyFault {
			r.Fail("", fmt.Sprintf("pair %s was scanned %d times by %d distinct manifests: %s", k, c, len(holders), wit))
		}
	}
	for _, b := range q.CheckStore() {
		r.Fail(b.Class, b.Msg+": "+wit)
	}
	// afterwards every manifest that succeeded is answered from the store
	for _, d := range out {
		if d.Faulted {
			continue
		}
		res := q.Index(d.Layers, ctrl.Script{}, false)
		cold := q.Cold(cfg, d.Layers)
		if res.Trace != "MGR" || res.Body != cold.Body {
			cls := ""
			if clobbered[ctrl.LayersString(d.Layers)] && res.Trace == "MGR" {
				cls = FindingClobber
			}
			r.Fail(cls, fmt.Sprintf("after the concurrent calls, re-submitting %s is not a lookup of the cold-run report: %s ; %s", ctrl.LayersString(d.Layers), res.Line(), wit))
		}
	}
}

var stateNames = []string{"a", "b", "rhel_containerscanner", "rpm", "os-release", "ab", "c", "zz", "a1", "m"}
var stateVers = []string{"1", "2", "v1", "0.1.0", "10"}

// genBigConfig draws 13..40 scanners of the four kinds over 1..5 ecosystems;
// the few names make many same-name groups across kinds; sometimes a (kind,
// name) is listed again by another ecosystem, with the same or another version
// (EcosystemsToScanners keeps the first).
func genBigConfig(rnd *hx.Rand) ctrl.Config {
	n := 13 + rnd.Intn(28)
	necos := 1 + rnd.Intn(5)
	var cfg ctrl.Config
	seen := map[string]bool{}
	for tries := 0; len(cfg) < n && tries < 400; tries++ {
		s := ctrl.ScannerSpec{Eco: rnd.Intn(necos), Kind: "pdrf"[rnd.Intn(4)], Name: stateNames[rnd.Intn(len(stateNames))], Version: stateVers[rnd.Intn(len(stateVers))]}
		k := string(s.Kind) + "/" + s.Name
		if seen[k] && !rnd.Chance(1, 8) {
			continue
		}
		seen[k] = true
		cfg = append(cfg, s)
	}
	return cfg
}

func permuted(rnd *hx.Rand, cfg ctrl.Config, necos int) ctrl.Config {
	cp := append(ctrl.Config(nil), cfg...)
	for i := len(cp) - 1; i > 0; i-- {
		j := rnd.Intn(i + 1)
		cp[i], cp[j] = cp[j], cp[i]
	}
	// the ecosystems are listed in another order too
	perm := make([]int, necos)
	for i := range perm {
		perm[i] = i
	}
	for i := necos - 1; i > 0; i-- {
		j := rnd.Intn(i + 1)
		perm[i], perm[j] = perm[j], perm[i]
	}
	for i := range cp {
		cp[i].Eco = perm[cp[i].Eco]
	}
	return cp
}

// states evaluates the state token of large configurations: each under several
// permutations (of the scanners inside the ecosystems and of the ecosystems)
// and after changing one name / kind / version; for every two evaluations of a
// group: same token <=> same set of (kind, name, version) that
// EcosystemsToScanners keeps.
func (h *hist) states(rnd *hx.Rand) {
	h.reset()
	base := genBigConfig(rnd)
	necos := 0
	for _, s := range base {
		necos = max(necos, s.Eco+1)
	}
	var cfgs []ctrl.Config
	var toks []string
	eval := func(cfg ctrl.Config) {
		out := h.s.State(cfg)
		cfgs, toks = append(cfgs, cfg), append(toks, out)
		if !strings.HasPrefix(out, "tok ") {
			h.r.Fail("", "libindex.New failed on a configuration of stub scanners: state "+cfg.String()+" => "+out)
		}
	}
	eval(base)
	for i := 0; i < 4; i++ {
		eval(permuted(rnd, base, necos))
	}
	for i := 0; i < 3; i++ {
		m := append(ctrl.Config(nil), base...)
		j := rnd.Intn(len(m))
		switch rnd.Intn(3) {
		case 0:
			m[j].Version += "x"
		case 1:
			m[j].Name = stateNames[rnd.Intn(len(stateNames))]
		default:
			m[j].Kind = "pdrf"[rnd.Intn(4)]
		}
		eval(m)
		eval(permuted(rnd, m, necos))
	}
	n := len(h.s.W.Tokens) - len(toks)
	for i := range cfgs {
		for j := i + 1; j < len(cfgs); j++ {
			sameTok := h.s.W.Tokens[n+i] == h.s.W.Tokens[n+j]
			sameSet := keySet(cfgs[i]) == keySet(cfgs[j])
			h.r.Case(fmt.Sprintf("state-token %s | %s", cfgs[i], cfgs[j]), true)
			if sameSet {
				h.r.Count("state.same-set")
			} else {
				h.r.Count("state.different-set")
			}
			if sameTok != sameSet {
				h.r.Fail("", fmt.Sprintf("state token: same-token=%v but same-scanner-set=%v for configurations [%s] and [%s]", sameTok, sameSet, cfgs[i], cfgs[j]))
			}
		}
	}
}

// realStates: the ecosystems libindex.New uses by default, listed in several
// orders: one token.
func (h *hist) realStates(rnd *hx.Rand) {
	h.reset()
	first := h.s.StateOfEcosystems(ctrl.DefaultEcosystems(nil))
	if !strings.HasPrefix(first, "tok ") {
		h.r.Fail("", "libindex.New failed on its default ecosystems: "+first)
		return
	}
	for i := 0; i < 8; i++ {
		perm := []int{0, 1, 2, 3, 4, 5, 6, 7, 8}
		for k := len(perm) - 1; k > 0; k-- {
			j := rnd.Intn(k + 1)
			perm[k], perm[j] = perm[j], perm[k]
		}
		out := h.s.StateOfEcosystems(ctrl.DefaultEcosystems(perm))
		h.r.Case(fmt.Sprintf("default ecosystems in order %v", perm), true)
		if out != first {
			cfg, _ := ctrl.SpecOfEcosystems(ctrl.DefaultEcosystems(perm))
			h.r.Fail("", fmt.Sprintf("state token depends on the order of the ecosystems: libindex's default ecosystems in order %v (scanners %s) give another State() than in the default order", perm, cfg))
		}
	}
}

// knownMore replays the witness of finding unconfigured-scanner-marked and the
// by-design exception (result.Do accepts a scanner's *net.AddrError).
func (h *hist) knownMore() {
	ax := ctrl.Config{{Eco: 0, Kind: 'p', Name: "a", Version: "1", Flags: "CX"}, {Eco: 0, Kind: 'd', Name: "b", Version: "1"}}
	h.reset()
	h.s.Config(ax)
	h.s.Index([]int{1, 2}, ctrl.Script{}, false)
	res := h.s.Index([]int{1, 3}, ctrl.Script{}, false)
	for _, b := range h.s.CheckStore() {
		if b.Class == ctrl.FindingUnconfigured {
			refetched := false
			for _, l := range h.s.W.Fetches[len(h.s.W.Fetches)-res.NFetch:] {
				if l == 1 {
					refetched = true
				}
			}
			h.r.KnownSeen(ctrl.FindingUnconfigured, fmt.Sprintf("config %s (a's Configure fails); index 1.2; index 1.3 => %s ; layer 1 fetched again: %v ; %s", ax, res.Line(), refetched, b.Msg))
			break
		}
	}
	// by design: a scanner that cannot reach the network is forgiven, the layer is recorded as scanned with what it returned
	n := ctrl.Config{{Eco: 0, Kind: 'p', Name: "ab", Version: "1", Flags: "N"}}
	h.reset()
	h.s.Net(true)
	h.s.Config(n)
	down := h.s.Index([]int{1, 4}, ctrl.Script{}, false)
	h.s.Net(false)
	up := h.s.Index([]int{1, 4}, ctrl.Script{}, false)
	cold := h.s.Cold(n, []int{1, 4})
	if down.ErrClass == "nil" && down.Success && up.Trace == "MGR" && up.Body != cold.Body {
		h.r.Count("by-design.addr-error: report after the network came back differs from a cold run")
	} else {
		h.r.Fail("", fmt.Sprintf("the by-design exception does not reproduce: scanner ab needs the network; index 1.4 with the network down => %s ; network up, index 1.4 => %s ; cold => %s", down.Line(), up.Line(), cold.Line()))
	}
}

// Run is the entry point of the C08 harness.
func Run(cfg hx.Config) error {
	r, err := hx.NewRun(cfg)
	if err != nil {
		return err
	}
	defer r.Close()
	r.Rule = "each case = one libindex.New (config) or Libindex.Index call of a history on the real code over the in-memory store: 5..40 calls over a family of 3..5 manifests drawn from 6 layers (shared and repeated layers), one call in 7 carries a random fault, one in 10 changes the scanner set (add, remove, version bump, same name under another kind, permutation, rollback; scanners may be listed by two ecosystems, may implement ConfigurableScanner / RPCScanner, may fail to configure, may need the network), one in 10 is a Libindex.DeleteManifests of one or two manifests of the family (or an unknown one), one in 10 a libindex.New with a nil argument / failing RegisterScanners / failing scanner constructor, one in 10 switches the network of network-dependent scanners; every fault-free Index is compared with a cold run of the same manifest under the current configuration on a fresh store; non-trivial = Index on a store that already went through at least two operations"
	rnd := hx.NewRand(cfg.Seed)
	h := &hist{r: r, s: ctrl.NewSession(r)}
	h.s.ReplayCorpus(cfg.Corpus)
	h.known()
	h.knownMore()
	h.realStates(rnd.Fork())
	srnd := rnd.Fork()
	for i, n := 0, cfg.N(60, 600); i < n && !r.Stop(); i++ {
		h.states(srnd)
	}

	// the same histories with LayerScanConcurrency = 3, the scanner goroutines
	// stepped by the seeded scheduler (every Index is a `pindex` line)
	hs := &hist{r: r, s: ctrl.NewSession(r)}
	hs.s.Concurrency, hs.s.SchedRnd, hs.s.FaultRate = 3, rnd.Fork(), 9

	nHist := cfg.N(1200, 8000)
	nSched := cfg.N(40, 600)
	for i := 0; i < nHist+nSched && !r.Stop() && !h.s.Lost && !hs.s.Lost; i++ {
		if i == nHist {
			h = hs
		}
		if i >= nHist {
			r.Count("history.scheduled-goroutines")
		}
		h.reset()
		salt := rnd.U64()
		cur := c07.GenConfig(rnd, salt)
		h.config(cur)
		nman := 3 + rnd.Intn(3)
		family := make([][]int, nman)
		for j := range family {
			family[j] = c07.GenManifest(rnd, 4)
		}
		nops := 5 + rnd.Intn(36)
		r.Count(fmt.Sprintf("history.ops<=%d", (nops+9)/10*10))
		for j := 0; j < nops && !r.Stop() && !h.s.Lost; j++ {
			switch x := rnd.Intn(10); {
			case x == 8:
				// libindex.New with something wrong: the deployment must stay as it is
				nf := ctrl.NewFaults{CtorFailAt: -1}
				switch rnd.Intn(7) {
				case 0:
					nf.NoLocker = true
				case 1:
					nf.NoStore = true
				case 2:
					nf.NoArena = true
				case 3:
					nf.NoClient = true
				case 4:
					nf.RegisterFails = true
				default:
					nf.CtorFailAt = rnd.Intn(14)
				}
				next, _ := mutate(rnd, salt, cur, h.cfgs)
				h.newFaulty(nf, next)
				if nf.CtorFailAt >= 0 && h.s.W.Lib != nil && h.s.W.Cfg.String() == next.String() {
					cur = next // the failing constructor call was never reached: New went through
				}
			case x == 9:
				if hasN(cur) {
					h.net(!h.s.W.NetDown)
				} else {
					h.index(family[rnd.Intn(nman)], ctrl.Script{})
				}
			case x == 7:
				// delete one or two manifests of the family, sometimes one that was never indexed, sometimes one twice
				var ms [][]int
				for k := 1 + rnd.Intn(2); k > 0; k-- {
					ms = append(ms, family[rnd.Intn(nman)])
				}
				if rnd.Chance(1, 6) {
					ms = append(ms, []int{7, 8})
				}
				h.delete(ms)
			case x == 0:
				next, how := mutate(rnd, salt, cur, h.cfgs)
				r.Count("config." + how)
				cur = next
				h.config(cur)
			case x == 1:
				m := family[rnd.Intn(nman)]
				p := rnd.Intn(12)
				if rnd.Chance(1, 2) {
					p = rnd.Intn(90)
				}
				h.index(m, ctrl.Script{p: faultKinds[rnd.Intn(len(faultKinds))]})
			default:
				h.index(family[rnd.Intn(nman)], ctrl.Script{})
			}
		}
	}
	// concurrent Index calls on one deployment (direct checks only)
	q := ctrl.NewSession(r)
	q.Quiet = true
	for i, n := 0, cfg.N(150, 4000); i < n && !r.Stop() && !q.Lost; i++ {
		concurrent(r, q, rnd)
	}
	r.Notes["store"] = "in-memory indexer.Store (go/internal/memstore) following datastore/postgres method by method; every method atomic"
	r.Notes["cold run"] = "libindex.New with the same configuration on a fresh memstore, one fault-free Index of the manifest"
	_ = memstore.ScannerKey{}
	return nil
}
