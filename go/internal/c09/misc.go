package c09

import (
	"bytes"
	"context"
	"fmt"
	"io"
	"net/http"
	"os"
	"strings"

	"github.com/quay/claircore"
	"github.com/quay/claircore/internal/httputil"
	"github.com/quay/claircore/internal/zreader"
	"github.com/quay/claircore/verifharness/internal/hx"
)

// The small pieces next to the fetcher, each called directly:
//
//	chk    httputil.CheckResponse over every status x accepted-code list
//	dscan  claircore.Digest: ParseDigest of one text, then Scan of nil / a string / another type
//	sniff  zreader.detectCompression on slices of every length around the magic numbers

func kindName(c zreader.Compression) string {
	switch c {
	case zreader.KindGzip:
		return "gzip"
	case zreader.KindZstd:
		return "zstd"
	case zreader.KindBzip2:
		return "bzip2"
	case zreader.KindNone:
		return "none"
	}
	return "other"
}

func miscOps(r *hx.Run, g *gen) {
	r.Op("reset", "ok", false)
	// CheckResponse
	lists := [][]int{{200}, {}, {200, 206}, {204, 200}, {301, 302, 200}, {404}, {200, 200}}
	statuses := []int{0, 1, 100, 101, 199, 200, 201, 202, 203, 204, 205, 206, 226, 299, 300, 301, 302, 304, 307, 400, 401, 403, 404, 416, 429, 499, 500, 502, 503, 599, 600, 999, 1200, 2000, 20000}
	for _, codes := range lists {
		for _, st := range statuses {
			resp := &http.Response{StatusCode: st, Status: fmt.Sprintf("%d x", st), Body: http.NoBody}
			out := hx.Guard(func() string {
				if err := httputil.CheckResponse(resp, codes...); err != nil {
					return "err"
				}
				return "ok"
			})
			cs := make([]string, len(codes))
			for i, c := range codes {
				cs[i] = fmt.Sprint(c)
			}
			list := strings.Join(cs, ",")
			if list == "" {
				list = "-"
			}
			r.Op(fmt.Sprintf("chk %d %s", st, list), out, true)
			r.Count("chk:" + out)
			// the statement, directly
			in := false
			for _, c := range codes {
				if c == st {
					in = true
				}
			}
			if in != (out == "ok") {
				r.Fail("", fmt.Sprintf("CheckResponse(status=%d, accepted=%v) = %s", st, codes, out))
			}
		}
	}
	// Digest: every text family as the previous value and as the scanned text
	body := []byte("digest texts")
	h256 := fmt.Sprintf("%x", hashOf("sha256", body))
	h512 := fmt.Sprintf("%x", hashOf("sha512", body))
	texts := []string{
		"sha256:" + h256, "sha512:" + h512, "sha256:" + strings.ToUpper(h256), "sha512:" + strings.ToUpper(h512[:40]) + h512[40:],
		"", ":", "sha256", "sha256:", "sha512:", ":" + h256, "sha256:" + h256[:63], "sha256:" + h256[:62], "sha256:" + h256 + "00",
		"sha512:" + h256, "sha256:" + h512, "sha1:" + h256[:40], "SHA256:" + h256, "Sha256:" + h256, "sha256 :" + h256, " sha256:" + h256,
		"sha256:" + h256 + " ", "sha256:" + h256 + "\n", "sha256::" + h256[:62], "sha256:" + h256[:10] + "zz" + h256[12:], "sha256:" + h256[:10] + "gg" + h256[12:],
		"sha384:" + h512[:96], "md5:" + h256[:32], "sha256:0x" + h256[:62], "sha512:" + h512 + h512, "sha256:" + strings.Repeat("0", 64), "sha256:" + strings.Repeat("F", 64),
		"sha256:" + h256[:32] + ":" + h256[32:], "sha512/256:" + h256, "sha256-" + h256,
		"sha256:0x" + h256, "sha256:0X" + h256, "sha256:\t" + h256, "sha256:" + h256 + "\r\n", "\"sha256:" + h256 + "\"", "sha256:" + h256 + "\x00",
		"sha256=" + h256, "sha256:" + h256 + ":", "sha-256:" + h256, "sha256:" + h256[:64] + "=",
	}
	for i := 0; i < g.cfg.N(30, 300); i++ {
		// mutations of a good text: one character changed, dropped or inserted
		t := []byte(texts[g.rnd.Intn(4)])
		k := g.rnd.Intn(len(t))
		switch g.rnd.Intn(3) {
		case 0:
			t[k] = "0123456789abcdefABCDEFg:xX -"[g.rnd.Intn(28)]
		case 1:
			t = append(t[:k], t[k+1:]...)
		default:
			t = append(t[:k], append([]byte{"0aF:g"[g.rnd.Intn(5)]}, t[k:]...)...)
		}
		texts = append(texts, string(t))
	}
	scan := func(prev, kind, text string) {
		d, _ := claircore.ParseDigest(prev)
		var arg any
		switch kind {
		case "s":
			arg = text
		case "o":
			arg = []byte(text)
		}
		e := "0"
		out := hx.Guard(func() string {
			if err := d.Scan(arg); err != nil {
				e = "1"
			}
			v, _ := d.Value()
			vs, _ := v.(string)
			if vs != d.String() {
				return "value-differs-from-String"
			}
			return fmt.Sprintf("%s %s %s %s", e, hx.Hex([]byte(d.Algorithm())), hx.Hex(d.Checksum()), hx.Hex([]byte(d.String())))
		})
		r.Op(fmt.Sprintf("dscan %s %s %s", hx.Hex([]byte(prev)), kind, hx.Hex([]byte(text))), out, true)
		r.Count("dscan:" + kind)
		// the statement, directly: a text is accepted exactly if it is well-formed,
		// and then names what it says
		if kind == "s" {
			algo, sum, ok := parseDigestSpec(text)
			_, perr := claircore.ParseDigest(text)
			if ok != (perr == nil) {
				r.Fail("", fmt.Sprintf("ParseDigest(%q): error=%v, well-formed=%v", text, perr, ok))
			}
			if ok {
				want := fmt.Sprintf("0 %s %s %s", hx.Hex([]byte(algo)), hx.Hex(sum), hx.Hex([]byte(fmt.Sprintf("%s:%x", algo, sum))))
				if out != want {
					r.Fail("", fmt.Sprintf("Scan(%q) on a digest parsed from %q gives %s", text, prev, out))
				}
				r.Count("dscan:wellformed")
			} else {
				r.Count("dscan:malformed")
			}
		}
	}
	prevs := []string{"", texts[0], texts[1], "sha256:zz"}
	for _, t := range texts {
		for _, p := range prevs {
			scan(p, "s", t)
		}
	}
	for _, p := range prevs {
		scan(p, "n", "")
		scan(p, "o", texts[0])
	}
	// detectCompression: every prefix of every magic (and near misses) followed by 0..3 more bytes
	magics := [][]byte{{0x1f, 0x8b, 0x08}, {0x28, 0xb5, 0x2f, 0xfd}, {'B', 'Z', 'h', '1'}, {'B', 'Z', 'h', '9'}, {'B', 'Z', 'h', '0'}, {'B', 'Z', 'h', ':'}, {'B', 'Z', '0', '5'},
		{0x1f, 0x8b, 0x00}, {0x1f, 0x8b, 0x09}, {0x28, 0xb5, 0x2f, 0xfc}, {0x50, 0x2a, 0x4d, 0x18}, {0, 0, 0, 0}, {0xfd, 0x37, 0x7a, 0x58}, {0x1f, 0x9d, 0x90, 0}}
	seen := map[string]bool{}
	for _, m := range magics {
		for k := 0; k <= len(m); k++ {
			for extra := 0; extra <= 3; extra++ {
				b := append(append([]byte(nil), m[:k]...), g.bytes(extra)...)
				if k < len(m) && extra > 0 && g.rnd.Chance(1, 2) {
					// continue the magic with the right byte after all
					b[k] = m[k]
				}
				if seen[string(b)] {
					continue
				}
				seen[string(b)] = true
				out := hx.Guard(func() string { return kindName(zreader.DetectCompressionForVerif(b)) })
				r.Op("sniff "+hx.Hex(b), out, true)
				r.Count("sniff:" + out)
				if want := magicKindAny(b); want != out {
					r.Fail("", fmt.Sprintf("detectCompression(%x) = %s, the magic numbers say %s", b, out, want))
				}
			}
		}
	}
}

// layerInitOps: claircore.Layer.Init called directly on a file: every media
// type family, malformed digests, the filesystem type with and without a URI,
// a second Init on the same Layer; the initialized Layer is read back.
func layerInitOps(r *hx.Run, g *gen, dir string) {
	mts := append(append([]string{}, tarMediaTypes...), fsMediaType, "", "application/x-tar", "application/vnd.oci.image.layer.v1.tar+bzip2",
		"application/vnd.docker.image.rootfs.diff.tar.gzip", "application/vnd.oci.image.layer.v2.tar", "APPLICATION/VND.OCI.IMAGE.LAYER.V1.TAR", "application/vnd.oci.image.layer.v1.tar ")
	n := g.cfg.N(60, 600)
	for i := 0; i < n && !r.Stop(); i++ {
		payload, _, _ := g.payload()
		digest := digestOf(g.algo(), payload)
		if g.rnd.Chance(1, 5) {
			digest, _ = g.malformedDigest(payload)
		}
		uri := "http://registry.invalid/x"
		if g.rnd.Chance(1, 3) {
			uri = ""
		}
		mt := mts[g.rnd.Intn(len(mts))]
		f, err := os.CreateTemp(dir, "linit")
		if err != nil {
			panic(err)
		}
		f.Write(payload)
		desc := claircore.LayerDescription{Digest: digest, URI: uri, MediaType: mt, Headers: map[string][]string{"X-A": {"1"}}}
		var l claircore.Layer
		var got []byte
		out := hx.Guard(func() string {
			if err := l.Init(context.Background(), &desc, f); err != nil {
				return "err"
			}
			defer l.Close()
			if err := l.Init(context.Background(), &desc, f); err == nil {
				return "second-init-accepted"
			}
			if l.URI != uri || l.Hash.String() != strings.ToLower(digest) || len(l.Headers) != 1 {
				return "fields-not-copied"
			}
			rd, err := l.Reader()
			if err != nil {
				if _, e2 := l.FS(); e2 == nil {
					return "d"
				}
				return "noview"
			}
			got, err = io.ReadAll(rd)
			if err != nil {
				return "readerr"
			}
			return viewOf(got)
		})
		os.Remove(f.Name())
		f.Close()
		tar := tarAccepted(payload)
		r.Op(fmt.Sprintf("linit %s %s %s %s %s", hx.Hex([]byte(digest)), b01(uri == ""), hx.Hex([]byte(mt)), hx.Hex(payload), b01(tar)), out, true)
		r.Count("linit:" + out[:1])
		// the statement, directly
		_, _, okd := parseDigestSpec(digest)
		switch {
		case strings.HasPrefix(out, "t:"):
			if !okd || !isTarMediaType(mt) || !tar || !bytes.Equal(got, payload) {
				r.Fail("", fmt.Sprintf("Layer.Init(digest=%q mediatype=%q uri=%q) over %d bytes gives %s", digest, mt, uri, len(payload), out))
			}
		case out == "d":
			if !okd || mt != fsMediaType || uri == "" {
				r.Fail("", fmt.Sprintf("Layer.Init(digest=%q mediatype=%q uri=%q) gives a filesystem layer", digest, mt, uri))
			}
		case out != "err":
			r.Fail("", fmt.Sprintf("Layer.Init(digest=%q mediatype=%q uri=%q): %s", digest, mt, uri, out))
		}
	}
}

// magicKindAny: the compression the first bytes announce, for a slice of any
// length (gzip: 1f 8b 08; zstd: 28 b5 2f fd; bzip2: "BZh" and a level 1-9).
func magicKindAny(b []byte) string {
	switch {
	case len(b) >= 3 && b[0] == 0x1f && b[1] == 0x8b && b[2] == 8:
		return "gzip"
	case len(b) >= 4 && b[0] == 0x28 && b[1] == 0xb5 && b[2] == 0x2f && b[3] == 0xfd:
		return "zstd"
	case len(b) >= 4 && b[0] == 'B' && b[1] == 'Z' && b[2] == 'h' && b[3] >= '1' && b[3] <= '9':
		return "bzip2"
	}
	return "none"
}
