package c09

import (
	"bufio"
	"bytes"
	"context"
	"errors"
	"fmt"
	"io"
	"net/http"
	"os"
	"path/filepath"
	"sort"
	"strconv"
	"strings"
	"time"

	"github.com/quay/claircore/verifharness/internal/hx"
	"github.com/quay/claircore/verifharness/internal/registry"
)

type nextWorld func(be backend, loop bool) *world

func fixedTar() ([]byte, []registry.File) {
	files := []registry.File{{Name: "etc/os-release", Data: []byte("ID=witness\n")}}
	return registry.Tar(files, true), files
}

// witnesses replays the defect repaired by the fix commit (a response cut
// short exactly where the zstd decoder is content to stop was accepted) and a
// few fixed cases of each rejection class.
func witnesses(r *hx.Run, next nextWorld, tr *registry.Transport) {
	p, files := fixedTar()
	z := registry.ZstdBytes(p, true)
	mk := func(body []byte, comp, what string) *layer {
		return &layer{api: "new", digest: digestOf("sha256", body), uriKind: 'g', mediaType: tarMediaTypes[0],
			script: registry.New("", body), comp: comp, damage: what, files: files, payload: p}
	}
	// 1. Content-Length promises more than arrives; everything that arrives is
	//    one complete zstd frame whose digest is the declared one.
	l := mk(z, registry.Zstd, "witness:zstd-complete-frame-short-of-content-length")
	l.script.Declared = len(z) + 10
	w := next(tr, false)
	w.realize(0, []*layer{l}, false)
	w.finish()
	// 2. chunked transfer without the terminal chunk
	l = mk(z, registry.Zstd, "witness:zstd-complete-frame-chunked-no-terminator")
	l.script.Framing, l.script.End = registry.FrameChunked, registry.EndClose
	w = next(tr, false)
	w.realize(0, []*layer{l}, false)
	w.finish()
	// 3. two frames, cut after the first, digest of what arrives
	z2 := registry.ZstdFrames([][]byte{p[:1024], p[1024:]}, true)
	first := registry.ZstdBytes(p[:1024], true)
	l = mk(first, registry.Zstd, "witness:zstd-cut-at-frame-boundary")
	l.script.Declared = len(z2)
	l.files = nil
	w = next(tr, false)
	w.realize(0, []*layer{l}, false)
	w.finish()
	// 4. the correct layer in each compression
	for _, c := range []string{registry.Plain, registry.Gzip, registry.Zstd} {
		body := p
		switch c {
		case registry.Gzip:
			body = registry.GzipBytes(p, 6)
		case registry.Zstd:
			body = z
		}
		l = mk(body, c, "none")
		l.pristine = true
		w = next(tr, false)
		w.realize(0, []*layer{l}, false)
		w.finish()
	}
	// 5. bzip2 is recognised and refused, under a generic and under a tar content type
	bz, bp := registry.Bzip2Tar()
	for _, ct := range []string{"", "application/x-tar", "application/x-bzip2"} {
		l = &layer{api: "new", digest: digestOf("sha256", bz), uriKind: 'g', mediaType: tarMediaTypes[0],
			script: registry.New(ct, bz), comp: registry.Bzip2, damage: "witness:bzip2", payload: bp}
		w = next(tr, false)
		w.realize(0, []*layer{l}, false)
		w.finish()
	}
}

// runCorpus replays corpus/C09/*.case: one single-layer case per line,
//
//	comp=<plain|gzip|zstd> ct=<content type> framing=<length|chunked|close> declared=<+n|-n|n> end=<clean|close|reset|stall>
//	cut=<n> append=<hex> flip=<offset> digest=<delivered|wire|payload> algo=<sha256|sha512> status=<n> mediatype=<..> api=<new|old>
//
// over the fixed one-file tar. Missing keys mean "as in the correct layer".
func runCorpus(r *hx.Run, cfg hx.Config, next nextWorld, tr *registry.Transport) error {
	if cfg.Corpus == "" {
		return nil
	}
	names, _ := filepath.Glob(filepath.Join(cfg.Corpus, "*.case"))
	sort.Strings(names)
	n := 0
	for _, name := range names {
		f, err := os.Open(name)
		if err != nil {
			return err
		}
		sc := bufio.NewScanner(f)
		for sc.Scan() {
			line := strings.TrimSpace(sc.Text())
			if line == "" || strings.HasPrefix(line, "#") {
				continue
			}
			l, err := corpusLayer(line)
			if err != nil {
				f.Close()
				return fmt.Errorf("%s: %w", name, err)
			}
			w := next(tr, false)
			w.realize(0, []*layer{l}, false)
			w.finish()
			n++
		}
		f.Close()
	}
	r.Notes["corpus_cases"] = n
	return nil
}

func corpusLayer(line string) (*layer, error) {
	p, files := fixedTar()
	kv := map[string]string{}
	for _, f := range strings.Fields(line) {
		i := strings.IndexByte(f, '=')
		if i < 0 {
			return nil, fmt.Errorf("bad field %q", f)
		}
		kv[f[:i]] = f[i+1:]
	}
	comp := kv["comp"]
	if comp == "" {
		comp = registry.Plain
	}
	wire := p
	switch comp {
	case registry.Gzip:
		wire = registry.GzipBytes(p, 6)
	case registry.Zstd:
		wire = registry.ZstdBytes(p, true)
	case registry.Plain:
	default:
		return nil, fmt.Errorf("bad comp %q", comp)
	}
	body := append([]byte(nil), wire...)
	if v, ok := kv["cut"]; ok {
		k, err := strconv.Atoi(v)
		if err != nil || k < 0 || k > len(body) {
			return nil, fmt.Errorf("bad cut %q", v)
		}
		body = body[:k]
	}
	if v, ok := kv["flip"]; ok {
		k, err := strconv.Atoi(v)
		if err != nil || k < 0 || k >= len(body) {
			return nil, fmt.Errorf("bad flip %q", v)
		}
		body[k] ^= 1
	}
	if v, ok := kv["append"]; ok {
		b, err := hx.Unhex(v)
		if err != nil {
			return nil, err
		}
		body = append(body, b...)
	}
	r := registry.New(kv["ct"], body)
	switch kv["framing"] {
	case "", "length":
	case "chunked":
		r.Framing = registry.FrameChunked
	case "close":
		r.Framing = registry.FrameClose
	default:
		return nil, fmt.Errorf("bad framing")
	}
	if v, ok := kv["declared"]; ok {
		k, err := strconv.Atoi(strings.TrimPrefix(v, "+"))
		if err != nil {
			return nil, fmt.Errorf("bad declared %q", v)
		}
		if strings.HasPrefix(v, "+") || strings.HasPrefix(v, "-") {
			k += len(body)
		}
		r.Declared = k
	}
	switch kv["end"] {
	case "", "clean":
	case "close":
		r.End = registry.EndClose
	case "reset":
		r.End = registry.EndReset
	case "stall":
		r.End = registry.EndStall
	default:
		return nil, fmt.Errorf("bad end")
	}
	if v, ok := kv["status"]; ok {
		k, err := strconv.Atoi(v)
		if err != nil {
			return nil, err
		}
		r.Status = k
	}
	algo := kv["algo"]
	if algo == "" {
		algo = "sha256"
	}
	l := &layer{api: "new", uriKind: 'g', mediaType: tarMediaTypes[0], script: r, comp: comp, damage: "corpus:" + line, files: files, payload: p}
	switch kv["digest"] {
	case "", "delivered":
		d, _ := r.Delivered()
		l.digest = digestOf(algo, d)
	case "wire":
		l.digest = digestOf(algo, wire)
	case "payload":
		l.digest = digestOf(algo, p)
	default:
		l.digest = kv["digest"]
	}
	if v, ok := kv["mediatype"]; ok {
		l.mediaType = v
	}
	if kv["api"] == "old" {
		l.api = "old"
	}
	return l, nil
}

// sweeps: for small layers, every single-bit flip position and every cut,
// each with the digest of the original blob and with the digest of what is
// actually delivered (so that only the later checks stand in the way).
func sweeps(r *hx.Run, g *gen, next nextWorld, tr *registry.Transport) {
	p, files := fixedTar()
	small := registry.Tar(files, false) // 1024 bytes
	type sw struct {
		comp string
		wire []byte
		pay  []byte
		step int
	}
	bases := []sw{
		{registry.Gzip, registry.GzipBytes(p, 6), p, 1},
		{registry.Zstd, registry.ZstdBytes(p, true), p, 1},
		{registry.Zstd, registry.ZstdFrames([][]byte{p[:700], p[700:]}, g.rnd.Chance(1, 2)), p, 1},
		{registry.Gzip, registry.GzipMembers([][]byte{p[:700], p[700:]}, 6), p, 1},
		{registry.Plain, small, small, g.cfg.N(7, 1)},
	}
	if g.cfg.Thorough() {
		for i := 0; i < 6; i++ {
			b := g.tarBase()
			if len(b.wire) > 1500 {
				continue
			}
			bases = append(bases, sw{b.comp, b.wire, b.payload, 1})
		}
	}
	for _, b := range bases {
		off := g.rnd.Intn(b.step)
		mk := func(body []byte, what string, redigest bool) *layer {
			l := &layer{api: "new", digest: digestOf("sha256", b.wire), uriKind: 'g', mediaType: tarMediaTypes[0],
				script: registry.New(g.consistentCT(b.comp), body), comp: b.comp, damage: what, payload: b.pay}
			l.script.Chunks = g.chunks(len(body))
			if redigest {
				l.digest = digestOf("sha256", body)
				l.damage += "+redigest"
			}
			return l
		}
		run := func(l *layer) {
			if r.Stop() {
				return
			}
			w := next(tr, false)
			w.realize(0, []*layer{l}, false)
			w.finish()
		}
		for i := off; i < len(b.wire); i += b.step {
			bits := []int{g.rnd.Intn(8)}
			if g.cfg.Thorough() && len(b.wire) < 400 {
				bits = []int{0, 1, 2, 3, 4, 5, 6, 7}
			}
			for _, bit := range bits {
				body := append([]byte(nil), b.wire...)
				body[i] ^= 1 << bit
				run(mk(body, "sweep-flip", false))
				run(mk(body, "sweep-flip", true))
			}
		}
		for k := off; k < len(b.wire); k += b.step {
			body := b.wire[:k]
			// promised length not reached
			l := mk(body, "sweep-cut-short-of-content-length", false)
			l.script.Declared = len(b.wire)
			run(l)
			l = mk(body, "sweep-cut-short-of-content-length", true)
			l.script.Declared = len(b.wire)
			run(l)
			// cut invisible to the transport
			l = mk(body, "sweep-cut-silent", false)
			l.script.Framing = registry.FrameClose
			run(l)
			l = mk(body, "sweep-cut-silent", true)
			l.script.Framing = registry.FrameClose
			run(l)
			// the server fails or stalls at this point of the response
			if len(b.wire) < 400 {
				l = mk(body, "sweep-reset-at", g.rnd.Chance(1, 2))
				l.script.Framing, l.script.End = registry.FrameChunked, registry.EndReset
				run(l)
				if k%g.cfg.N(25, 5) == 0 {
					l = mk(body, "sweep-stall-at", g.rnd.Chance(1, 2))
					l.script.Declared, l.script.End = len(b.wire), registry.EndStall
					run(l)
				}
			}
		}
		// extensions of 1..6 bytes
		for n := 1; n <= 6; n++ {
			for _, fill := range []byte{0, 0xff} {
				body := append(append([]byte(nil), b.wire...), bytes.Repeat([]byte{fill}, n)...)
				run(mk(body, "sweep-extend", false))
				run(mk(body, "sweep-extend", true))
			}
		}
	}
}

// retrySweep: layers large enough for part of the payload to have reached the
// spool file (the fetcher writes through a 4 KiB buffer) when the first
// transfer dies; a second request would be answered correctly. Every cut on a
// coarse grid plus the block boundaries around 4 KiB, each way of dying.
func retrySweep(r *hx.Run, g *gen, next nextWorld, tr *registry.Transport) {
	nb := g.cfg.N(3, 12)
	for i := 0; i < nb && !r.Stop(); i++ {
		b := g.bigBase()
		good := registry.New(g.consistentCT(b.comp), b.wire)
		n := len(b.wire)
		cuts := []int{0, 1, 3, 4, 512, 4095, 4096, 4097, 8192, n - 1, n}
		step := n / g.cfg.N(6, 40)
		if step < 1 {
			step = 1
		}
		for k := step; k < n; k += step {
			cuts = append(cuts, k)
		}
		for _, k := range cuts {
			if k < 0 || k > n || r.Stop() {
				continue
			}
			bad, how := g.dying(good, k)
			l := &layer{api: "new", digest: digestOf("sha256", b.wire), uriKind: 'g', mediaType: tarMediaTypes[0],
				script: bad, more: []*registry.Response{good.Clone()}, comp: b.comp, damage: "retry-sweep:first-dies(" + how + ")-then-good",
				files: b.files, payload: b.payload}
			w := next(tr, false)
			w.realize(0, []*layer{l}, g.rnd.Chance(1, 4))
			w.finish()
		}
		// the same layer fetched correctly, read by several consumers
		l := &layer{api: "new", digest: digestOf("sha256", b.wire), uriKind: 'g', mediaType: tarMediaTypes[0],
			script: good.Clone(), comp: b.comp, damage: "none", files: b.files, payload: b.payload, pristine: true}
		w := next(tr, false)
		w.realize(0, []*layer{l}, true)
		for k := 0; k < 3; k++ {
			w.consumeSome(0)
		}
		w.finish()
	}
}

// history: one arena, several calls. A layer whose digest string is held by an
// open FetchProxy is served from the arena whatever the server would answer;
// once everything holding it is closed it is fetched (and checked) again.
func history(g *gen, w *world) {
	defer w.finish()
	nb := 1 + g.rnd.Intn(2)
	var good []*layer
	for i := 0; i < nb; i++ {
		good = append(good, g.pristine(g.tarBase()))
	}
	steps := 3 + g.rnd.Intn(6)
	id := 0
	for s := 0; s < steps && !w.r.Stop(); s++ {
		switch x := g.rnd.Intn(10); {
		case x < 7:
			src := good[g.rnd.Intn(len(good))]
			l := *src
			l.script = src.script.Clone()
			switch g.rnd.Intn(5) {
			case 0:
				// same digest string, the server now sends something else: garbage, or
				// another well-formed layer (what a wrong answer that got into the
				// arena would show to the next user of the digest)
				if g.rnd.Chance(1, 2) {
					l.script.Body = append([]byte("changed "), g.bytes(20)...)
					l.damage = "history-other-bytes-same-digest"
				} else {
					other, files := g.tarPayload()
					w, _ := g.compress(other, l.comp)
					l.script.Body = w
					l.script.Chunks = nil
					l.files, l.payload = files, other
					l.damage = "history-other-layer-same-digest"
				}
				l.pristine = false
			case 1:
				l.script.Status = 404
				l.damage = "history-404-same-digest"
				l.pristine = false
			case 2:
				// same blob named by the other spelling of its digest: another key
				i := strings.IndexByte(l.digest, ':')
				if l.digest[i+1:] == strings.ToLower(l.digest[i+1:]) {
					l.digest = l.digest[:i+1] + strings.ToUpper(l.digest[i+1:])
				} else {
					l.digest = l.digest[:i+1] + strings.ToLower(l.digest[i+1:])
				}
				l.damage = "history-digest-case"
			case 3:
				l.api = g.rnd.Pick("old", "new")
				l.damage = "history-api"
			}
			w.realize(id, []*layer{&l}, g.rnd.Chance(2, 3))
			id++
		default:
			if len(w.open) == 0 {
				continue
			}
			ids := make([]int, 0, len(w.open))
			for k := range w.open {
				ids = append(ids, k)
			}
			sort.Ints(ids)
			w.close(ids[g.rnd.Intn(len(ids))])
		}
	}
}

// loopback: the same kinds of cases with the real net/http client transport in
// the path, plus the transport contract the in-process runs rely on.
func loopback(r *hx.Run, g *gen, cfg hx.Config, next nextWorld) {
	srv := registry.NewServer()
	defer srv.Close()
	n := cfg.N(120, 1200)
	stalls := cfg.N(3, 12)
	for i := 0; i < n && !r.Stop(); i++ {
		l := g.randomLayer()
		if i < 12 {
			// the repaired defect through the real transport
			p, files := fixedTar()
			z := registry.ZstdBytes(p, true)
			l = &layer{api: "new", digest: digestOf("sha256", z), uriKind: 'g', mediaType: tarMediaTypes[0],
				script: registry.New("", z), comp: registry.Zstd, files: files, payload: p}
			switch i % 4 {
			case 0:
				l.script.Declared = len(z) + 7
				l.damage = "loopback:zstd-complete-frame-short-of-content-length"
			case 1:
				l.script.Framing, l.script.End = registry.FrameChunked, registry.EndClose
				l.damage = "loopback:zstd-complete-frame-chunked-no-terminator"
			case 2:
				l.script.Framing, l.script.End = registry.FrameChunked, registry.EndReset
				l.damage = "loopback:zstd-complete-frame-then-reset"
			default:
				l.damage = "none"
				l.pristine = true
			}
		}
		// header values travel through net/textproto: keep them to what a server can send
		if ct := l.script.Header.Get("Content-Type"); ct != strings.TrimSpace(ct) {
			l.script.Header.Set("Content-Type", strings.TrimSpace(ct))
		}
		_, term := l.seen()
		if term == registry.TermStall {
			if stalls == 0 {
				continue
			}
			stalls--
		}
		w := next(srv, true)
		r.Count("transport:loopback")
		w.realize(0, []*layer{l}, false)
		w.finish()
		if i%3 == 0 {
			transportContract(r, srv, l)
		}
	}
}

// transportContract fetches the script with net/http directly and compares
// what the body reader sees with Response.Delivered.
func transportContract(r *hx.Run, srv *registry.Server, l *layer) {
	fin, loops := l.final()
	if loops {
		return
	}
	fin = fin.Clone()
	fin.Header.Del("Location") // (a 3xx that is the final response: keep the client from following it here)
	want, term := fin.DeliveredTo(http.MethodGet, nil)
	if st := statusOf(fin); fin.RefuseConn || st == 204 || st == 304 || st < 200 {
		return // no request, or a status that carries no body
	}
	srv.Set("/contract", fin)
	ctx, cancel := context.WithTimeout(context.Background(), 5*time.Second)
	if term == registry.TermStall {
		cancel()
		ctx, cancel = context.WithTimeout(context.Background(), 200*time.Millisecond)
	}
	defer cancel()
	req, _ := http.NewRequestWithContext(ctx, http.MethodGet, srv.URL("/contract"), nil)
	resp, err := srv.Client().Do(req)
	if err != nil {
		r.Fail("", fmt.Sprintf("harness-transport-contract: request error %v for %s", err, fin.Describe()))
		return
	}
	defer resp.Body.Close()
	got, rerr := io.ReadAll(resp.Body)
	okTerm := false
	switch term {
	case registry.TermEOF:
		okTerm = rerr == nil
	case registry.TermUnexpectedEOF:
		okTerm = errors.Is(rerr, io.ErrUnexpectedEOF)
	case registry.TermReset:
		okTerm = rerr != nil
	case registry.TermStall:
		okTerm = errors.Is(rerr, context.DeadlineExceeded)
	}
	okBytes := bytes.Equal(got, want)
	if term == registry.TermReset {
		// a reset may discard bytes still in flight
		okBytes = bytes.HasPrefix(want, got)
	}
	r.Case("transport-contract "+fin.Describe(), true)
	r.Count("transport-contract:" + term.String())
	if !okTerm || !okBytes || resp.StatusCode != statusOf(fin) {
		r.Fail("", fmt.Sprintf("harness-transport-contract: delivered %d bytes err=%v status=%d, expected %d bytes term=%s status=%d: %s",
			len(got), rerr, resp.StatusCode, len(want), term, statusOf(fin), fin.Describe()))
	}
}
