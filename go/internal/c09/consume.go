package c09

import (
	"bytes"
	"fmt"
	"io"
	"strings"

	"github.com/quay/claircore/verifharness/internal/hx"
)

// Consumers of a realized layer. A scanner obtains a reader with
// Layer.Reader() and reads it sequentially (Read, io.Copy, Seek) or by offset
// (ReadAt); several scanners do so on the same Layer, one after the other or
// interleaved, and some keep a reader beyond the close of the fetch proxy.
//
// The statement checked directly (no model): every byte any consumer is
// handed is the byte at that position of the one payload that was verified
// for the layer's digest - whatever the other consumers did before or in
// between; a closed layer hands out nothing.

type cop struct {
	kind   byte // o r a s w
	c      int
	n      int
	off    int64
	whence int
}

func (o cop) String() string {
	switch o.kind {
	case 'o', 'w':
		return fmt.Sprintf("%c%d", o.kind, o.c)
	case 'r':
		return fmt.Sprintf("r%d:%d", o.c, o.n)
	case 'a':
		return fmt.Sprintf("a%d:%d:%d", o.c, o.off, o.n)
	default:
		return fmt.Sprintf("s%d:%d:%d", o.c, o.whence, o.off)
	}
}

// script generates a consumer schedule for a layer of the given size.
// Consumers 0..2; each opens a reader before using it (mostly), reads with
// sizes that straddle the end, and the operations of different consumers
// interleave.
func (g *gen) script(size int, opened map[int]bool) []cop {
	var ops []cop
	n := 2 + g.rnd.Intn(9)
	szs := []int{1, 2, 7, 100, 512, 513, 4096, size, size + 1, size / 2, size - 1}
	pickN := func() int {
		v := szs[g.rnd.Intn(len(szs))]
		if v < 1 {
			v = 1
		}
		return v
	}
	for i := 0; i < n; i++ {
		c := g.rnd.Intn(3)
		if !opened[c] && !g.rnd.Chance(1, 12) {
			ops = append(ops, cop{kind: 'o', c: c})
			opened[c] = true
			continue
		}
		switch x := g.rnd.Intn(20); {
		case x < 2:
			ops = append(ops, cop{kind: 'o', c: c}) // a second Reader() for the same consumer
			opened[c] = true
		case x < 9:
			ops = append(ops, cop{kind: 'r', c: c, n: pickN()})
		case x < 12:
			offs := []int64{0, 1, int64(size) - 1, int64(size), int64(size) + 1, int64(size / 2), -1, int64(g.rnd.Intn(size + 2))}
			ops = append(ops, cop{kind: 'a', c: c, off: offs[g.rnd.Intn(len(offs))], n: pickN()})
		case x < 16:
			offs := []int64{0, 1, -1, int64(size), -int64(size), int64(size / 2), -int64(size / 2), int64(size) + 5, -int64(size) - 1, int64(g.rnd.Intn(size + 2))}
			ops = append(ops, cop{kind: 's', c: c, whence: g.rnd.Intn(4), off: offs[g.rnd.Intn(len(offs))]})
		default:
			ops = append(ops, cop{kind: 'w', c: c})
		}
	}
	return ops
}

func renderBytes(b []byte) string { return fmt.Sprintf("%d:%016x", len(b), fnv1a(b)) }

// consume runs one script against layer idx of realize id and writes the protocol line.
func (w *world) consume(id, idx int, ops []cop) {
	h := w.handles[id][idx]
	outs := make([]string, len(ops))
	names := make([]string, len(ops))
	bad := func(i int, what string) {
		w.r.Fail("", fmt.Sprintf("%s at op %d of consumers=%s (layer %d of realize %d, %d payload bytes, closed=%v): %s",
			what, i, joinOps(ops), idx, id, len(h.expected), h.closed, h.desc))
	}
	for i, o := range ops {
		names[i] = o.String()
		rd := h.rds[o.c]
		if o.kind != 'o' && rd == nil {
			outs[i] = "E"
			continue
		}
		res := hx.Guard(func() string {
			switch o.kind {
			case 'o':
				r, err := h.l.Reader()
				if err != nil {
					if h.tar && !h.closed {
						bad(i, "layer-reader-unavailable:"+err.Error())
					}
					return "E"
				}
				if h.closed {
					bad(i, "reader-handed-out-after-close")
				}
				h.rds[o.c] = r
				h.cur[o.c] = 0
				return "o"
			case 'r':
				buf := make([]byte, o.n)
				n, err := rd.Read(buf)
				if n == 0 && err == io.EOF {
					if h.cur[o.c] < int64(len(h.expected)) && !h.closed {
						bad(i, fmt.Sprintf("end-of-file-at-%d-before-the-end-of-the-payload", h.cur[o.c]))
					}
					return "F"
				}
				if err != nil && n == 0 {
					if !h.closed {
						bad(i, "read-error-on-an-open-layer:"+err.Error())
					}
					return "E"
				}
				w.checkBytes(h, i, bad, buf[:n], h.cur[o.c])
				h.cur[o.c] += int64(n)
				return renderBytes(buf[:n])
			case 'a':
				buf := make([]byte, o.n)
				n, err := rd.ReadAt(buf, o.off)
				if n == 0 && err == io.EOF {
					return "F"
				}
				if err != nil && err != io.EOF && n == 0 {
					if !h.closed {
						bad(i, "readat-error-on-an-open-layer:"+err.Error())
					}
					return "E"
				}
				w.checkBytes(h, i, bad, buf[:n], o.off)
				return renderBytes(buf[:n])
			case 's':
				sk, ok := rd.(io.Seeker)
				if !ok {
					bad(i, "reader-is-no-io.Seeker")
					return "E"
				}
				p, err := sk.Seek(o.off, o.whence)
				if err != nil {
					return "E"
				}
				h.cur[o.c] = p
				return fmt.Sprintf("p%d", p)
			default:
				var buf bytes.Buffer
				_, err := io.Copy(&buf, rd)
				if err != nil {
					if !h.closed {
						bad(i, "copy-error-on-an-open-layer:"+err.Error())
					}
					if buf.Len() == 0 {
						return "E"
					}
				}
				w.checkBytes(h, i, bad, buf.Bytes(), h.cur[o.c])
				if !h.closed && h.cur[o.c] <= int64(len(h.expected)) && h.cur[o.c]+int64(buf.Len()) != int64(len(h.expected)) {
					bad(i, fmt.Sprintf("copy-from-%d-stopped-at-%d-of-%d", h.cur[o.c], h.cur[o.c]+int64(buf.Len()), len(h.expected)))
				}
				if h.cur[o.c] < int64(len(h.expected)) {
					h.cur[o.c] = int64(len(h.expected))
				}
				return renderBytes(buf.Bytes())
			}
		})
		if res == "panic" {
			bad(i, "panic-in-a-reader-operation")
		}
		outs[i] = res
		w.r.Count("consumer-op:" + string(o.kind))
	}
	w.r.Op(fmt.Sprintf("consume %d %d %s", id, idx, strings.Join(names, ",")), strings.Join(outs, ","), true)
	if h.closed {
		w.r.Count("consume:after-close")
	} else {
		w.r.Count("consume:open")
	}
}

func joinOps(ops []cop) string {
	s := make([]string, len(ops))
	for i, o := range ops {
		s[i] = o.String()
	}
	return strings.Join(s, ",")
}

// checkBytes: the bytes handed out are the payload's bytes at that offset.
func (w *world) checkBytes(h *handle, i int, bad func(int, string), got []byte, off int64) {
	if len(got) == 0 {
		return
	}
	if h.closed {
		bad(i, fmt.Sprintf("closed-layer-delivered-%d-bytes", len(got)))
		return
	}
	if off < 0 || off+int64(len(got)) > int64(len(h.expected)) || !bytes.Equal(got, h.expected[off:off+int64(len(got))]) {
		bad(i, fmt.Sprintf("consumer-read-bytes-that-are-not-the-payload-at-offset-%d got=%s", off, clip(hx.Hex(got), 80)))
	}
}

// consumeSome runs consumer schedules against the layers of a realize (a
// sample of the calls: every realize already read every layer once).
func (w *world) consumeSome(id int) {
	hs := w.handles[id]
	if len(hs) == 0 || w.g == nil {
		return
	}
	g := w.g
	closed := hs[0].closed
	if !closed && !g.rnd.Chance(1, 3) {
		return
	}
	if closed {
		// after the close: only where a reader was kept, and a sample of the rest
		kept := false
		for _, h := range hs {
			if len(h.rds) > 0 {
				kept = true
			}
		}
		if !kept && !g.rnd.Chance(1, 6) {
			return
		}
	}
	for idx, h := range hs {
		if idx > 0 && g.rnd.Chance(1, 2) {
			continue
		}
		opened := map[int]bool{}
		for c := range h.rds {
			opened[c] = true
		}
		size := len(h.expected)
		rounds := 1 + g.rnd.Intn(2)
		if closed {
			rounds = 1
		}
		for k := 0; k < rounds; k++ {
			w.consume(id, idx, g.script(size, opened))
		}
		if !closed && h.tar {
			// the FS view is not disturbed by the readers
			w.checkFS(h, idx, id)
		}
		if closed && h.tar && len(h.expected) > 0 {
			// nothing of a closed layer can be read through the FS view either
			if got, err := listFS(h.l); err == nil && strings.Contains(got, "=") && !strings.HasSuffix(got, "=-") && hasContent(got) {
				w.r.Fail("", "closed-layer-fs-delivered-file-content: "+h.desc)
			}
			w.r.Case("fs-after-close", false)
		}
	}
}

// hasContent: some listed file came with bytes.
func hasContent(listing string) bool {
	for _, e := range strings.Split(listing, ",") {
		if i := strings.IndexByte(e, '='); i >= 0 && e[i+1:] != "-" && e[i+1:] != "" {
			return true
		}
	}
	return false
}

// checkFS: after the consumers ran, Layer.FS() still lists tarfs over the payload.
func (w *world) checkFS(h *handle, idx, id int) {
	got, err := listFS(h.l)
	if err != nil {
		w.r.Fail("", fmt.Sprintf("layer-fs-unreadable-after-consumers: %v: %s", err, h.desc))
		return
	}
	want, err := fsOver(h.expected)
	if err == nil && want != got {
		w.r.Fail("", "layer-fs-differs-after-consumers: "+h.desc)
	}
	w.r.Case(fmt.Sprintf("fs-after-consumers %d", len(h.expected)), false)
}
