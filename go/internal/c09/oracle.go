package c09

import (
	"bytes"
	"fmt"
	"sort"
	"strings"

	"github.com/quay/claircore"
	"github.com/quay/claircore/pkg/tarfs"
	"github.com/quay/claircore/verifharness/internal/hx"
	"github.com/quay/claircore/verifharness/internal/registry"
)

// The statement of C09, checked directly on every outcome and written without
// reference to the fetcher's tables:
//
//   success  =>  the response was a 200 that ended cleanly, the bytes delivered
//                hash to the declared digest (a well-formed sha256/sha512
//                digest), their magic is gzip, zstd or none of the known ones,
//                the content type does not announce something else, and the
//                bytes readable through Layer.Reader()/Layer.FS() are exactly
//                the decompression of the delivered bytes;
//   failure  =>  no layer is returned;
//   a pristine layer (undamaged, consistent) is realized.
//
// A layer served from the arena (its digest string is held by an open
// FetchProxy of the same arena) is exempt from the response checks - no
// request is made for it - and must show the content that is held.

// declaredKind is what a content type announces about the compression.
func declaredKind(ct string) string {
	switch {
	case ct == "", ct == "text/plain", ct == "binary/octet-stream", ct == "application/octet-stream":
		return "generic"
	case strings.HasSuffix(ct, "gzip"):
		return registry.Gzip
	case strings.HasSuffix(ct, "zstd"):
		return registry.Zstd
	case strings.HasSuffix(ct, "tar"):
		return registry.Plain
	}
	return "unknown"
}

func ctClass(ct string) string { return declaredKind(ct) }

func isTarMediaType(mt string) bool {
	for _, t := range tarMediaTypes {
		if t == mt {
			return true
		}
	}
	return false
}

const fsMediaType = "application/vnd.claircore.filesystem"

func renderFiles(files []registry.File) string {
	var out []string
	for _, f := range files {
		out = append(out, f.Name+"="+hx.Hex(f.Data))
	}
	sort.Strings(out)
	return strings.Join(out, ",")
}

func (w *world) oracleSucceeded(ls []*layer, got []*claircore.Layer, views []string, bodies [][]byte) {
	inCall := map[string]string{}
	for i, l := range ls {
		key := keyOf(l)
		mt := l.mediaType
		if l.api == "old" {
			mt = tarMediaTypes[0]
		}
		w.r.Case("oracle "+views[i]+" "+l.damage+" "+l.comp, true)
		if h := w.held[key]; h != nil {
			w.r.Count("served:arena")
			if isTarMediaType(mt) && strings.HasPrefix(h.view, "t:") && views[i] != h.view {
				w.r.Fail("", fmt.Sprintf("arena-served-content-differs held=%s got=%s: %s", h.view, views[i], l.describe()))
			}
			continue
		}
		if v, ok := inCall[key]; ok {
			w.r.Count("served:same-call")
			if v != views[i] && isTarMediaType(mt) {
				w.r.Fail("", fmt.Sprintf("same-digest-two-contents %s vs %s: %s", v, views[i], l.describe()))
			}
			continue
		}
		inCall[key] = views[i]
		w.r.Count("served:fetch")
		delivered, term := l.script.Delivered()
		bad := func(what string) {
			w.r.Fail("", what+": "+l.describe())
		}
		if l.uriKind != 'g' {
			bad("realized-without-a-usable-uri")
			continue
		}
		if l.script.RefuseConn {
			bad("realized-although-the-request-failed")
			continue
		}
		if statusOf(l.script) != 200 {
			bad(fmt.Sprintf("accepted-status-%d", statusOf(l.script)))
		}
		if term != registry.TermEOF {
			bad("accepted-a-response-that-did-not-end-cleanly(" + term.String() + ")")
		}
		algo, want, ok := parseDigestSpec(key)
		if !ok {
			bad("accepted-a-malformed-digest")
		} else if !bytes.Equal(hashOf(algo, delivered), want) {
			bad("accepted-bytes-that-do-not-hash-to-the-digest")
		}
		magic := magicKind(delivered)
		if magic == registry.Bzip2 {
			bad("accepted-unsupported-compression-bzip2")
		}
		ct := l.script.Header.Get("Content-Type")
		switch d := declaredKind(ct); d {
		case "generic":
		case "unknown":
			bad("accepted-unsupported-content-type")
		default:
			if d != magic {
				bad("accepted-content-type-" + d + "-for-" + magic + "-body")
			}
		}
		switch {
		case mt == fsMediaType:
			if views[i] != "d" {
				bad("filesystem-media-type-with-a-reader")
			}
			continue
		case !isTarMediaType(mt):
			bad("accepted-unknown-media-type")
			continue
		}
		// payload exactness
		expected := delivered
		if magic == registry.Gzip || magic == registry.Zstd {
			out, ok := decode(magic, delivered, term)
			if !ok {
				bad("accepted-an-undecodable-" + magic + "-body")
				continue
			}
			expected = out
		}
		if views[i] != viewOf(expected) || !bytes.Equal(bodies[i], expected) {
			bad(fmt.Sprintf("layer-reader-shows-%s-expected-%s", views[i], viewOf(expected)))
			continue
		}
		// the FS view is tarfs over exactly those bytes
		gotFS, err := listFS(got[i])
		if err != nil {
			bad("layer-fs-unreadable:" + err.Error())
			continue
		}
		if l.files != nil && bytes.Equal(expected, l.payload) {
			if want := renderFiles(l.files); gotFS != want {
				bad("layer-fs-differs-from-generated-files got=" + clip(gotFS, 200) + " want=" + clip(want, 200))
			}
		} else if sys, err := tarfs.New(bytes.NewReader(expected)); err == nil {
			if want, err := listSys(sys); err == nil && want != gotFS {
				bad("layer-fs-differs-from-tarfs-over-the-expected-bytes")
			}
		}
	}
}

func (w *world) oracleFailed(ls []*layer, err error) {
	all := true
	for _, l := range ls {
		if !l.pristine {
			all = false
		}
	}
	w.r.Case("oracle err "+ls[0].damage+" "+ls[0].comp, true)
	if all {
		w.r.Fail("", fmt.Sprintf("pristine-layer-refused (%v): %s", err, ls[0].describe()))
	}
}
