package c09

import (
	"bytes"
	"encoding/hex"
	"fmt"
	"net/http"
	"sort"
	"strings"

	"github.com/quay/claircore"
	"github.com/quay/claircore/pkg/tarfs"
	"github.com/quay/claircore/verifharness/internal/hx"
	"github.com/quay/claircore/verifharness/internal/registry"
)

// The statement of C09, checked directly on every outcome and written without
// reference to the fetcher's tables:
//
//   success  =>  the response was a 200 that ended cleanly, the bytes delivered
//                hash to the declared digest (a well-formed sha256/sha512
//                digest), their magic is gzip, zstd or none of the known ones,
//                the content type does not announce something else, and the
//                bytes readable through Layer.Reader()/Layer.FS() are exactly
//                the decompression of the delivered bytes;
//   failure  =>  no layer is returned;
//   a pristine layer (undamaged, consistent) is realized.
//
// A layer served from the arena (its digest string is held by an open
// FetchProxy of the same arena) is exempt from the response checks - no
// request is made for it - and must show the content that is held.

// declaredKind is what a content type announces about the compression.
func declaredKind(ct string) string {
	switch {
	case ct == "", ct == "text/plain", ct == "binary/octet-stream", ct == "application/octet-stream":
		return "generic"
	case strings.HasSuffix(ct, "gzip"):
		return registry.Gzip
	case strings.HasSuffix(ct, "zstd"):
		return registry.Zstd
	case strings.HasSuffix(ct, "tar"):
		return registry.Plain
	}
	return "unknown"
}

func ctClass(ct string) string { return declaredKind(ct) }

func isTarMediaType(mt string) bool {
	for _, t := range tarMediaTypes {
		if t == mt {
			return true
		}
	}
	return false
}

const fsMediaType = "application/vnd.claircore.filesystem"

func renderFiles(files []registry.File) string {
	var out []string
	for _, f := range files {
		out = append(out, f.Name+"="+hx.Hex(f.Data))
	}
	sort.Strings(out)
	return strings.Join(out, ",")
}

// fsOver lists tarfs over the bytes.
func fsOver(b []byte) (string, error) {
	sys, err := tarfs.New(bytes.NewReader(b))
	if err != nil {
		return "", err
	}
	return listSys(sys)
}

// complaints lists what is wrong with realizing the layer, had the response
// "cand" been the one the layer was made from. Empty: nothing.
func (w *world) complaints(l *layer, cand *registry.Response, mt, view string, body []byte, got *claircore.Layer, key string) []string {
	var out []string
	bad := func(what string) { out = append(out, what) }
	delivered, term := cand.DeliveredTo(http.MethodGet, http.Header(l.headers))
	if cand.RefuseConn {
		bad("realized-although-the-request-failed")
		return out
	}
	if statusOf(cand) != 200 {
		bad(fmt.Sprintf("accepted-status-%d", statusOf(cand)))
	}
	if term != registry.TermEOF {
		bad("accepted-a-response-that-did-not-end-cleanly(" + term.String() + ")")
	}
	algo, want, ok := parseDigestSpec(key)
	if !ok {
		bad("accepted-a-malformed-digest")
	} else if !bytes.Equal(hashOf(algo, delivered), want) {
		bad("accepted-bytes-that-do-not-hash-to-the-digest")
	}
	magic := magicKind(delivered)
	if magic == registry.Bzip2 {
		bad("accepted-unsupported-compression-bzip2")
	}
	ct := cand.Header.Get("Content-Type")
	switch d := declaredKind(ct); d {
	case "generic":
	case "unknown":
		bad("accepted-unsupported-content-type")
	default:
		if d != magic {
			bad("accepted-content-type-" + d + "-for-" + magic + "-body")
		}
	}
	switch {
	case mt == fsMediaType:
		if view != "d" {
			bad("filesystem-media-type-with-a-reader")
		}
		return out
	case !isTarMediaType(mt):
		bad("accepted-unknown-media-type")
		return out
	}
	// payload exactness
	expected := delivered
	if magic == registry.Gzip || magic == registry.Zstd {
		dec, ok := decode(magic, delivered, term)
		if !ok {
			bad("accepted-an-undecodable-" + magic + "-body")
			return out
		}
		expected = dec
	}
	if l.limited && len(expected) > l.disk {
		bad(fmt.Sprintf("realized-%d-bytes-although-the-spool-file-takes-%d", len(expected), l.disk))
	}
	if view != viewOf(expected) || !bytes.Equal(body, expected) {
		bad(fmt.Sprintf("layer-reader-shows-%s-expected-%s", view, viewOf(expected)))
		return out
	}
	// the FS view is tarfs over exactly those bytes
	gotFS, err := listFS(got)
	if err != nil {
		bad("layer-fs-unreadable:" + err.Error())
		return out
	}
	if l.files != nil && bytes.Equal(expected, l.payload) {
		if want := renderFiles(l.files); gotFS != want {
			bad("layer-fs-differs-from-generated-files got=" + clip(gotFS, 200) + " want=" + clip(want, 200))
		}
	} else if want, err := fsOver(expected); err == nil && want != gotFS {
		bad("layer-fs-differs-from-tarfs-over-the-expected-bytes")
	}
	return out
}

func (w *world) oracleSucceeded(ls []*layer, got []*claircore.Layer, views []string, bodies [][]byte) {
	inCall := map[string]string{}
	for i, l := range ls {
		key := keyOf(l)
		mt := l.mediaType
		if l.api == "old" {
			mt = tarMediaTypes[0]
		}
		w.r.Case("oracle "+views[i]+" "+l.damage+" "+l.comp, true)
		w.checkLayerFields(l, got[i], key)
		if h := w.held[key]; h != nil {
			w.r.Count("served:arena")
			if isTarMediaType(mt) && strings.HasPrefix(h.view, "t:") && views[i] != h.view {
				w.r.Fail("", fmt.Sprintf("arena-served-content-differs held=%s got=%s: %s", h.view, views[i], l.describe()))
			}
			if n := w.be.Hits(l.path); n != 0 {
				w.r.Count("arena-hit-with-request")
			}
			continue
		}
		if v, ok := inCall[key]; ok {
			w.r.Count("served:same-call")
			if v != views[i] && isTarMediaType(mt) {
				w.r.Fail("", fmt.Sprintf("same-digest-two-contents %s vs %s: %s", v, views[i], l.describe()))
			}
			continue
		}
		inCall[key] = views[i]
		w.r.Count("served:fetch")
		if l.uriKind != 'g' {
			w.r.Fail("", "realized-without-a-usable-uri: "+l.describe())
			continue
		}
		if _, loops := l.final(); loops {
			w.r.Fail("", "realized-although-the-redirects-never-end: "+l.describe())
			continue
		}
		// The layer must be explained by one of the responses a request for it
		// could get: normally the first; a later one only if the fetcher asked again.
		var best []string
		for k, cand := range l.candidates() {
			c := w.complaints(l, cand, mt, views[i], bodies[i], got[i], key)
			if k > 0 && len(c) > 0 {
				for j := range c {
					c[j] += fmt.Sprintf("(judged-by-response-%d)", k+1)
				}
			}
			if k == 0 || len(c) < len(best) {
				best = c
			}
			if len(c) == 0 {
				break
			}
		}
		for _, c := range best {
			w.r.Fail("", c+": "+l.describe())
		}
		w.checkRequestHeaders(l)
	}
}

// checkLayerFields: Layer.Init copies the description into the Layer.
func (w *world) checkLayerFields(l *layer, got *claircore.Layer, key string) {
	if algo, sum, ok := parseDigestSpec(key); ok {
		want := algo + ":" + hex.EncodeToString(sum)
		if got.Hash.String() != want || got.Hash.Algorithm() != algo || !bytes.Equal(got.Hash.Checksum(), sum) {
			w.r.Fail("", fmt.Sprintf("layer-hash-%q-is-not-the-described-digest: %s", got.Hash.String(), l.describe()))
		}
	}
	if l.api == "new" {
		if len(got.Headers) != len(l.headers) {
			w.r.Fail("", "layer-headers-differ-from-the-description: "+l.describe())
		}
		for k, v := range l.headers {
			if strings.Join(got.Headers[k], "\x00") != strings.Join(v, "\x00") {
				w.r.Fail("", "layer-headers-differ-from-the-description: "+l.describe())
			}
		}
	}
}

// checkRequestHeaders: the request for the layer carried the description's headers.
func (w *world) checkRequestHeaders(l *layer) {
	rs := w.be.Requests(l.path)
	if len(rs) == 0 {
		return
	}
	if rs[0].Method != http.MethodGet {
		w.r.Fail("", "layer-requested-with-method-"+rs[0].Method+": "+l.describe())
	}
	for k, v := range l.headers {
		if strings.Join(rs[0].Header.Values(k), "\x00") != strings.Join(v, "\x00") {
			w.r.Fail("", fmt.Sprintf("request-header-%s-not-sent-as-described: %s", k, l.describe()))
		}
	}
	if len(l.headers) > 0 {
		w.r.Count("request-headers:propagated")
	}
}

func (w *world) oracleFailed(ls []*layer, err error) {
	all := true
	for _, l := range ls {
		if !l.pristine {
			all = false
		}
	}
	w.r.Case("oracle err "+ls[0].damage+" "+ls[0].comp, true)
	if all {
		w.r.Fail("", fmt.Sprintf("pristine-layer-refused (%v): %s", err, ls[0].describe()))
	}
}
