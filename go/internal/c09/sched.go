package c09

import (
	"bytes"
	"context"
	"fmt"
	"runtime"
	"sort"
	"strings"
	"sync/atomic"
	"time"

	"github.com/quay/claircore"
	"github.com/quay/claircore/internal/verifhook"
	"github.com/quay/claircore/libindex"
	"github.com/quay/claircore/verifharness/internal/hx"
	"github.com/quay/claircore/verifharness/internal/registry"
)

// Controlled schedules of concurrent users of one arena.
//
// Every user is one RealizeDescriptions call with one description, running on
// its own goroutine. The fetch arena's verifhook points (the ones C10 uses)
// stop each user before the singleflight ("c10.enter") and after it received
// the flight's result ("c10.got"); the in-process transport stops every
// request before it is answered (registry.Transport.Gate). The harness
// releases one of them at a time and waits until nothing moves any more
// (every goroutine inside libindex or singleflight is blocked), so that the
// schedule - who reaches the singleflight while which download is in flight -
// is exactly the one written to the protocol, and the Lean model
// (Model/FetchSched.lean) answers the same lines.
//
// The statement checked directly: a user that gets a layer reads, through
// Layer.Reader(), the decompression of bytes that hash to the digest of ITS
// OWN description - whoever started the download it waited for, and whatever
// URI either of them named.

type spark struct {
	site string
	key  string
	gid  int64
	rel  chan struct{}
}

type gpark struct {
	path   string
	n      int
	rel    chan struct{}
	leader int
}

type stask struct {
	id     int
	l      *layer
	uri    string
	ctx    context.Context
	cancel context.CancelFunc
	p      *libindex.FetchProxy
	gid    int64
	at     *spark
	st     string // parked waiting done closed
	fin    bool
	ls     []claircore.Layer
	err    error
}

type ssched struct {
	w       *world
	tr      *registry.Transport
	tasks   []*stask
	arrive  chan *spark
	gateArr chan *gpark
	doneCh  chan *stask
	gates   []*gpark
	fresh   []*gpark // gate arrivals not yet attributed
	abandon atomic.Bool
	broken  bool
	ops     []string
	scripts []*layer // every description of the scenario (for the oracle)
	// The protocol lines and failures of the scenario are written at its end,
	// and only if nothing ever moved after the scheduler had judged the system
	// quiet (a goroutine state this file does not know would otherwise turn
	// into a false alarm).
	lines     [][2]string
	fails     []string
	unsettled bool
}

func (s *ssched) emit(op, out string) { s.lines = append(s.lines, [2]string{op, out}) }

// stable checks, before anything is released, that nothing has moved since
// the last step was judged complete.
func (s *ssched) stable() {
	select {
	case p := <-s.arrive:
		s.unsettled = true
		s.place(p)
	case g := <-s.gateArr:
		s.unsettled = true
		s.gates = append(s.gates, g)
	case t := <-s.doneCh:
		s.unsettled = true
		t.fin = true
	default:
	}
}

func newSsched(w *world, tr *registry.Transport) *ssched {
	s := &ssched{w: w, tr: tr, arrive: make(chan *spark, 256), gateArr: make(chan *gpark, 256), doneCh: make(chan *stask, 256)}
	verifhook.Install(s.hook)
	tr.Gate = s.gate
	w.sink = s.emit
	return s
}

func (s *ssched) hook(site, key string) {
	if site != "c10.enter" && site != "c10.got" {
		return
	}
	if s.abandon.Load() {
		return
	}
	p := &spark{site: site, key: key, gid: hx.GoID(), rel: make(chan struct{})}
	s.arrive <- p
	<-p.rel
}

func (s *ssched) gate(path string, n int) {
	if s.abandon.Load() {
		return
	}
	g := &gpark{path: path, n: n, rel: make(chan struct{}), leader: -1}
	s.gateArr <- g
	<-g.rel
}

func (s *ssched) witness() string { return "schedule=" + strings.Join(s.ops, ";") }

func (s *ssched) fail(what string) {
	var ds []string
	for _, t := range s.tasks {
		ds = append(ds, fmt.Sprintf("task%d{digest=%q uri=%s %s}", t.id, t.l.digest, t.l.path, t.l.damage))
	}
	s.fails = append(s.fails, what+" "+s.witness()+" "+strings.Join(ds, " "))
}

// busy reports whether some goroutine inside libindex or singleflight is not blocked.
// busy reports whether some goroutine other than the caller can still make a
// step on its own: it is not blocked on a channel, a select, a lock or the
// network. (The code under test spawns goroutines of its own - errgroup,
// singleflight, the zstd stream decoder - so every goroutine counts. The
// harness has no timers or background workers running during a schedule.)
func busy() bool {
	buf := make([]byte, 1<<16)
	for {
		n := runtime.Stack(buf, true)
		if n < len(buf) {
			buf = buf[:n]
			break
		}
		buf = make([]byte, 2*len(buf))
	}
	for k, g := range bytes.Split(buf, []byte("\n\n")) {
		if k == 0 {
			continue // the caller
		}
		i := bytes.IndexByte(g, '[')
		j := bytes.IndexByte(g, ']')
		if i < 0 || j < i {
			return true
		}
		st := string(g[i+1 : j])
		blocked := false
		for _, p := range []string{"chan receive", "chan send", "select", "sync.", "IO wait", "finalizer wait"} {
			if strings.HasPrefix(st, p) {
				blocked = true
			}
		}
		if strings.HasPrefix(st, "semacquire") {
			// a WaitGroup, Once or file-descriptor lock - not the runtime's own
			// semaphores (a goroutine stopped in the allocator while the garbage
			// collector or this very stack dump holds the world)
			if nl := bytes.IndexByte(g, '\n'); nl >= 0 {
				top := g[nl+1:]
				blocked = bytes.HasPrefix(top, []byte("sync.runtime_Semacquire")) || bytes.HasPrefix(top, []byte("internal/poll.runtime_Semacquire"))
			}
		}
		if !blocked {
			return true
		}
	}
	return false
}

// settle waits until nothing moves: all arrivals placed, every goroutine of
// the code under test blocked at a hook, at the gate, or on a channel.
func (s *ssched) settle() bool {
	if s.broken {
		return false
	}
	deadline := time.Now().Add(30 * time.Second)
	for {
		moved := false
		for drained := false; !drained; {
			select {
			case p := <-s.arrive:
				s.place(p)
				moved = true
			case g := <-s.gateArr:
				s.gates = append(s.gates, g)
				s.fresh = append(s.fresh, g)
				moved = true
			case t := <-s.doneCh:
				t.fin = true
				moved = true
			default:
				drained = true
			}
		}
		if !moved && !busy() {
			// the sends happen before the goroutines block: look once more,
			// and take a second look at the goroutines after yielding
			runtime.Gosched()
			if len(s.arrive) == 0 && len(s.gateArr) == 0 && len(s.doneCh) == 0 && !busy() &&
				len(s.arrive) == 0 && len(s.gateArr) == 0 && len(s.doneCh) == 0 {
				return true
			}
			continue
		}
		if time.Now().After(deadline) {
			s.fail("no-quiescence-within-30s")
			s.giveUp()
			return false
		}
		if !moved {
			time.Sleep(30 * time.Microsecond)
		}
	}
}

func (s *ssched) place(p *spark) {
	for _, t := range s.tasks {
		if t.gid == p.gid {
			t.at = p
			return
		}
	}
	// the goroutine of the task started last (its first stop)
	for i := len(s.tasks) - 1; i >= 0; i-- {
		if t := s.tasks[i]; t.gid == 0 {
			t.gid, t.at = p.gid, p
			return
		}
	}
	s.fail("hook-from-unknown-goroutine site=" + p.site)
	close(p.rel)
}

// giveUp lets everything run to its end.
func (s *ssched) giveUp() {
	s.broken = true
	s.abandon.Store(true)
	for _, t := range s.tasks {
		if t.at != nil {
			close(t.at.rel)
			t.at = nil
		}
	}
	for _, g := range s.gates {
		close(g.rel)
	}
	s.gates = nil
	for {
		select {
		case p := <-s.arrive:
			close(p.rel)
			continue
		case g := <-s.gateArr:
			close(g.rel)
			continue
		default:
		}
		break
	}
}

func (s *ssched) release(t *stask) {
	p := t.at
	t.at = nil
	close(p.rel)
}

// spawn starts the task's RealizeDescriptions call; it stops before the singleflight.
func (s *ssched) spawn(l *layer, uri string) *stask {
	t := &stask{id: len(s.tasks), l: l, uri: uri, st: "parked"}
	t.ctx, t.cancel = context.WithTimeout(context.Background(), 60*time.Second)
	t.p = s.w.arena.Realizer(t.ctx).(*libindex.FetchProxy)
	s.tasks = append(s.tasks, t)
	s.w.layerLine(l, uri)
	go func() {
		hx.Guard(func() string {
			t.ls, t.err = t.p.RealizeDescriptions(t.ctx, []claircore.LayerDescription{{Digest: l.digest, URI: uri, MediaType: l.mediaType, Headers: l.headers}})
			return ""
		})
		s.doneCh <- t
	}()
	s.ops = append(s.ops, fmt.Sprintf("spawn %d", t.id))
	out := "parked"
	if !s.settle() || t.at == nil || t.at.site != "c10.enter" {
		out = "not-parked"
		if !s.broken {
			s.fail("task-did-not-reach-the-singleflight")
			s.giveUp()
		}
	}
	s.emit(fmt.Sprintf("spawn %d", t.id), out)
	return t
}

// outcome renders the result of a task whose call returned, and checks the statement on it.
func (s *ssched) outcome(t *stask) string {
	t.st = "done"
	if t.err != nil || len(t.ls) != 1 {
		s.w.r.Count("sched-task:err")
		s.w.r.Count("sched-err:" + errClass(orErr(t.err)))
		t.p.Close()
		t.st = "closed"
		return "err"
	}
	view, body := s.w.readBack(&t.ls[0])
	s.w.r.Count("sched-task:ok")
	s.check(t, view, body)
	return "ok:" + view
}

func orErr(err error) error {
	if err == nil {
		return fmt.Errorf("no layer and no error")
	}
	return err
}

// check: the bytes the task reads are the decompression of a served body that
// hashes to the digest of the task's own description.
func (s *ssched) check(t *stask, view string, body []byte) {
	s.w.r.Case(fmt.Sprintf("sched-oracle %s %s", view, t.l.damage), true)
	algo, want, ok := parseDigestSpec(t.l.digest)
	if !ok {
		s.fail(fmt.Sprintf("task-%d-realized-a-malformed-digest", t.id))
		return
	}
	if !strings.HasPrefix(view, "t:") {
		return
	}
	for _, l := range s.scripts {
		for _, cand := range l.candidates() {
			delivered, term := cand.DeliveredTo("GET", nil)
			if term != registry.TermEOF || statusOf(cand) != 200 || !bytes.Equal(hashOf(algo, delivered), want) {
				continue
			}
			expected := delivered
			if k := magicKind(delivered); k == registry.Gzip || k == registry.Zstd {
				dec, ok := decode(k, delivered, term)
				if !ok {
					continue
				}
				expected = dec
			}
			if bytes.Equal(expected, body) {
				return
			}
		}
	}
	s.fail(fmt.Sprintf("task-%d-was-handed-%d-bytes-(%s)-that-are-not-the-content-of-its-digest-%s", t.id, len(body), view, t.l.digest))
}

// deliver releases the tasks stopped after the singleflight, in task order,
// one at a time, and renders what became of each.
func (s *ssched) deliver() string {
	var rs []string
	for _, t := range s.tasks {
		if t.at == nil || t.at.site != "c10.got" {
			continue
		}
		s.release(t)
		if !s.settle() {
			return "broken"
		}
		switch {
		case t.fin:
			rs = append(rs, fmt.Sprintf("%d=%s", t.id, s.outcome(t)))
		case t.at != nil && t.at.site == "c10.enter":
			t.st = "parked"
			s.w.r.Count("sched-task:retry")
			rs = append(rs, fmt.Sprintf("%d=retry", t.id))
		default:
			s.fail(fmt.Sprintf("task-%d-neither-finished-nor-retried", t.id))
			s.giveUp()
			return "broken"
		}
	}
	return "res " + strings.Join(rs, ";")
}

func (s *ssched) anyAt(site string) bool {
	for _, t := range s.tasks {
		if t.at != nil && t.at.site == site {
			return true
		}
	}
	return false
}

func (s *ssched) enter(t *stask) {
	s.ops = append(s.ops, fmt.Sprintf("enter %d", t.id))
	s.fresh = nil
	s.release(t)
	out := "broken"
	if s.settle() {
		switch {
		case len(s.fresh) > 0:
			for _, g := range s.fresh {
				g.leader = t.id
			}
			s.fresh = nil
			t.st = "waiting"
			out = "lead"
			s.w.r.Count("sched-enter:lead")
		case s.anyAt("c10.got"):
			// the flight ended without a request
			out = s.deliver()
			s.w.r.Count("sched-enter:immediate")
		case t.fin:
			out = "res " + fmt.Sprintf("%d=%s", t.id, s.outcome(t))
		default:
			t.st = "waiting"
			out = "join"
			s.w.r.Count("sched-enter:join")
		}
	}
	s.emit(fmt.Sprintf("enter %d", t.id), out)
}

func (s *ssched) serve(g *gpark) {
	s.ops = append(s.ops, fmt.Sprintf("serve %d", g.leader))
	for i, x := range s.gates {
		if x == g {
			s.gates = append(s.gates[:i], s.gates[i+1:]...)
			break
		}
	}
	s.fresh = nil
	close(g.rel)
	out := "broken"
	if s.settle() {
		if len(s.fresh) > 0 {
			// another request on behalf of the same flight (a redirect hop, a retry)
			for _, x := range s.fresh {
				x.leader = g.leader
			}
			s.w.r.Count("sched-serve:further-request")
			for len(s.fresh) > 0 && !s.broken {
				x := s.fresh[0]
				s.fresh = s.fresh[1:]
				for i, y := range s.gates {
					if y == x {
						s.gates = append(s.gates[:i], s.gates[i+1:]...)
						break
					}
				}
				close(x.rel)
				if !s.settle() {
					break
				}
				for _, y := range s.fresh {
					y.leader = g.leader
				}
			}
		}
		if !s.broken {
			out = s.deliver()
		}
	}
	s.emit(fmt.Sprintf("serve %d", g.leader), out)
}

func (s *ssched) tclose(t *stask) {
	s.ops = append(s.ops, fmt.Sprintf("tclose %d", t.id))
	out := hx.Guard(func() string {
		if err := t.p.Close(); err != nil {
			return "close-error"
		}
		return "closed"
	})
	t.st = "closed"
	if out != "closed" {
		s.fail(fmt.Sprintf("FetchProxy.Close-of-task-%d:%s", t.id, out))
	}
	s.emit(fmt.Sprintf("tclose %d", t.id), out)
}

type schoice struct {
	kind string
	t    *stask
	g    *gpark
}

func (s *ssched) enabled() []schoice {
	var cs []schoice
	for _, t := range s.tasks {
		switch {
		case t.st == "parked" && t.at != nil && t.at.site == "c10.enter":
			cs = append(cs, schoice{kind: "enter", t: t})
		case t.st == "done":
			cs = append(cs, schoice{kind: "tclose", t: t})
		}
	}
	gs := append([]*gpark(nil), s.gates...)
	sort.Slice(gs, func(i, j int) bool { return gs[i].leader < gs[j].leader })
	for _, g := range gs {
		cs = append(cs, schoice{kind: "serve", g: g})
	}
	return cs
}

func (s *ssched) teardown() {
	if !s.broken {
		// finish what is left, deterministically
		for guard := 0; guard < 100 && !s.broken; guard++ {
			cs := s.enabled()
			if len(cs) == 0 {
				break
			}
			s.do(cs[0])
		}
	}
	if !s.broken {
		for _, t := range s.tasks {
			if t.st != "closed" {
				s.fail(fmt.Sprintf("task-%d-left-in-state-%s", t.id, t.st))
				s.giveUp()
				break
			}
		}
	}
	if s.broken {
		deadline := time.After(20 * time.Second)
		for _, t := range s.tasks {
			if !t.fin {
			wait:
				for {
					select {
					case x := <-s.doneCh:
						x.fin = true
						if x == t {
							break wait
						}
					case p := <-s.arrive:
						close(p.rel)
					case g := <-s.gateArr:
						close(g.rel)
					case <-deadline:
						t.cancel()
						break wait
					}
				}
			}
			if t.st != "closed" {
				hx.Guard(func() string { t.p.Close(); return "" })
			}
		}
	}
	for _, t := range s.tasks {
		t.cancel()
	}
	verifhook.Install(nil)
	s.tr.Gate = nil
	s.w.sink = nil
	if s.unsettled {
		// not a verdict about the code under test: drop the scenario
		s.w.r.Count("sched:discarded-unsettled")
		return
	}
	s.w.r.Count("sched:scenarios")
	for _, l := range s.lines {
		s.w.r.Op(l[0], l[1], true)
	}
	for _, f := range s.fails {
		s.w.r.Fail("", f)
	}
}

func (s *ssched) do(c schoice) {
	s.stable()
	if s.unsettled && !s.broken {
		s.giveUp()
		return
	}
	switch c.kind {
	case "enter":
		s.enter(c.t)
	case "serve":
		s.serve(c.g)
	default:
		s.tclose(c.t)
	}
}

// schedScenario: a few users of one arena naming one or two URIs and one or
// two digests in every combination, under a random schedule.
func schedScenario(g *gen, w *world, tr *registry.Transport) {
	s := newSsched(w, tr)
	defer func() {
		s.teardown()
		w.finish()
	}()
	// the sources: each URI serves one response to every request
	type source struct {
		l    *layer
		path string
		uri  string
	}
	var bases []base
	for i, n := 0, 1+g.rnd.Intn(2); i < n; i++ {
		bases = append(bases, g.tarBase())
	}
	var srcs []*source
	for i, n := 0, 1+g.rnd.Intn(2); i < n; i++ {
		b := bases[g.rnd.Intn(len(bases))]
		var l *layer
		switch g.rnd.Intn(6) {
		case 0:
			l = g.damaged(b)
			l.api, l.uriKind, l.headers, l.limited = "new", 'g', nil, false
			// every request for a URI gets the same answer here, whoever makes it
			l.more = nil
		default:
			l = g.pristine(b)
			l.api = "new"
		}
		if l.mediaType == fsMediaType || !isTarMediaType(l.mediaType) {
			l.mediaType = tarMediaTypes[0]
		}
		if _, term := l.seen(); term == registry.TermStall {
			// a stalled download ends only with the deadline of its context
			l = g.pristine(b)
			l.api = "new"
		}
		uri := w.install(l)
		srcs = append(srcs, &source{l: l, path: l.path, uri: uri})
	}
	// the digests in play: those of the blobs served, with a spelling variant, and a stranger
	var digests []string
	for _, b := range bases {
		d := digestOf("sha256", b.wire)
		digests = append(digests, d, d)
		if g.rnd.Chance(1, 3) {
			i := strings.IndexByte(d, ':')
			digests = append(digests, d[:i+1]+strings.ToUpper(d[i+1:]))
		}
		if g.rnd.Chance(1, 4) {
			digests = append(digests, digestOf("sha512", b.wire))
		}
	}
	if g.rnd.Chance(1, 3) {
		g.uniq++
		digests = append(digests, digestOf("sha256", []byte(fmt.Sprintf("stranger %d", g.uniq))))
	}
	nt := 2 + g.rnd.Intn(4)
	for i := 0; i < nt && !s.broken; i++ {
		src := srcs[g.rnd.Intn(len(srcs))]
		l := *src.l
		l.digest = digests[g.rnd.Intn(len(digests))]
		l.pristine = false
		l.damage = "sched:" + src.l.damage
		if g.rnd.Chance(1, 10) {
			l.mediaType = "application/x-not-a-layer"
		}
		s.scripts = append(s.scripts, &l)
		w.r.Count("sched:tasks")
		s.spawn(&l, src.uri)
	}
	// how the descriptions relate
	for i, a := range s.tasks {
		for _, b := range s.tasks[i+1:] {
			switch {
			case a.uri == b.uri && a.l.digest != b.l.digest:
				w.r.Count("sched-pair:same-uri-other-digest")
			case a.uri != b.uri && a.l.digest == b.l.digest:
				w.r.Count("sched-pair:other-uri-same-digest")
			case a.uri == b.uri:
				w.r.Count("sched-pair:same-uri-same-digest")
			}
		}
	}
	steps := 4 + g.rnd.Intn(12)
	for i := 0; i < steps && !s.broken && !w.r.Stop(); i++ {
		cs := s.enabled()
		if len(cs) == 0 {
			break
		}
		// entering is preferred while downloads are in flight: that is where users meet
		var pick schoice
		var enters []schoice
		for _, c := range cs {
			if c.kind == "enter" {
				enters = append(enters, c)
			}
		}
		if len(enters) > 0 && g.rnd.Chance(3, 5) {
			pick = enters[g.rnd.Intn(len(enters))]
		} else {
			pick = cs[g.rnd.Intn(len(cs))]
		}
		s.do(pick)
	}
}
