// Package c09 is the correspondence and oracle harness of property C09
// ("only bytes matching the declared digest are ever scanned").
//
// It drives the real libindex.RemoteFetchArena black-box: layer descriptions
// are realized against scripted responses (package registry: an in-process
// RoundTripper for the large sweeps, a loopback HTTP server for the rest) and
// the realized layers are read back through Layer.Reader() and Layer.FS().
// Every realize is written in the line protocol of the Lean model
// (lean/Driver/C09.lean); the quantities the model takes as parameters (hash
// of the delivered bytes, result of the gzip/zstd decoder, tarfs.New's and
// url.ParseRequestURI's verdicts) are computed here by calling those libraries
// directly, never through the fetcher. Independently of the model, the
// property statement is checked on every case (oracle.go).
package c09

import (
	"bytes"
	"context"
	"crypto/sha256"
	"crypto/sha512"
	"encoding/hex"
	"errors"
	"fmt"
	"io"
	"io/fs"
	"net/http"
	"net/url"
	"os"
	"os/signal"
	"sort"
	"strings"
	"sync"
	"syscall"
	"time"

	"github.com/klauspost/compress/gzip"
	"github.com/klauspost/compress/zstd"

	"github.com/quay/claircore"
	"github.com/quay/claircore/libindex"
	"github.com/quay/claircore/pkg/tarfs"
	"github.com/quay/claircore/verifharness/internal/hx"
	"github.com/quay/claircore/verifharness/internal/registry"
)

// backend is what both registry.Transport and registry.Server offer.
type backend interface {
	Set(path string, r *registry.Response)
	SetSeq(path string, rs []*registry.Response)
	URL(path string) string
	Hits(path string) int
	Requests(path string) []registry.Request
	Client() *http.Client
}

// layer is one layer description together with the scripted response.
type layer struct {
	api       string // "new": RealizeDescriptions, "old": deprecated Realize
	digest    string // as given in the description
	uriKind   byte   // g good | e empty | b rejected by ParseRequestURI | p parses but cannot be requested
	mediaType string
	script    *registry.Response
	// headers are the request headers of the description (nil: none).
	headers map[string][]string
	// more are the responses to a second, third, ... request for the same URI
	// (the fetcher as it is makes one request per fetch; a server that fails
	// once and then answers correctly must still see the first failure count).
	more []*registry.Response
	// hops: when script is a redirect, the responses at the successive
	// redirect targets; the last one is what the client hands to the fetcher.
	hops []*registry.Response
	// limited: the spool file takes disk bytes, then writes fail.
	limited bool
	disk    int
	// set by realize
	path string

	// bookkeeping for the oracles and the histogram
	comp    string          // plain | gzip | zstd | bzip2
	damage  string          // what was done to the response, "none" for a pristine one
	files   []registry.File // files of the generated tar (nil: payload is not a generated tar)
	payload []byte          // the payload before compression and damage
	// pristine: undamaged wire bytes, digest of exactly those, consistent
	// content type, tar media type, good uri, 200, clean end: must succeed.
	pristine bool
}

func (l *layer) describe() string {
	s := fmt.Sprintf("api=%s digest=%q uri=%c mediatype=%q comp=%s damage=%s payload=%dB response{%s} body=%s",
		l.api, l.digest, l.uriKind, l.mediaType, l.comp, l.damage, len(l.payload), l.script.Describe(), clip(hx.Hex(l.script.Body), 400))
	for i, h := range l.hops {
		s += fmt.Sprintf(" hop%d{%s} body=%s", i, h.Describe(), clip(hx.Hex(h.Body), 200))
	}
	for i, m := range l.more {
		s += fmt.Sprintf(" request%d{%s} body=%s", i+2, m.Describe(), clip(hx.Hex(m.Body), 400))
	}
	if len(l.headers) > 0 {
		s += fmt.Sprintf(" request-headers=%v", l.headers)
	}
	if l.limited {
		s += fmt.Sprintf(" spool-file-limit=%d", l.disk)
	}
	return s
}

func isRedirect(st int) bool { return st == 301 || st == 302 || st == 303 || st == 307 || st == 308 }

// final is the response net/http's client hands to the fetcher for the first
// request of the layer: the script itself, or the end of its redirect chain
// (a 3xx without Location is returned as it is; a chain that does not end
// within ten requests is an error of the request). Written from the
// documentation of http.Client, independently of the fetcher.
func (l *layer) final() (r *registry.Response, failed bool) {
	chain := append([]*registry.Response{l.script}, l.hops...)
	for i, c := range chain {
		if !isRedirect(statusOf(c)) || c.Header.Get("Location") == "" {
			return c, false
		}
		if i == len(chain)-1 {
			// the last hop redirects to itself
			return c, true
		}
	}
	return l.script, false
}

// seen is what the reader of the response body sees for the first request.
func (l *layer) seen() ([]byte, registry.Term) {
	f, _ := l.final()
	return f.DeliveredTo(http.MethodGet, http.Header(l.headers))
}

// candidates are the responses a request made for this layer can be answered
// with, first the one the first request gets.
func (l *layer) candidates() []*registry.Response {
	f, _ := l.final()
	return append([]*registry.Response{f}, l.more...)
}

func clip(s string, n int) string {
	if len(s) > n {
		return s[:n] + "..."
	}
	return s
}

// held is what the harness knows about a key some open FetchProxy references.
type held struct {
	count int
	view  string
}

type world struct {
	r     *hx.Run
	be    backend
	loop  bool // loopback server (real net/http transport) rather than in-process
	root  string
	arena *libindex.RemoteFetchArena
	open  map[int]*openProxy
	held  map[string]*held
	scen  int
	npath int
	g     *gen
	rt    *countRT
	// sink, if set, receives the protocol lines instead of the run (the
	// controlled schedules write theirs at the end of the scenario)
	sink func(op, out string)
	// handles of realized layers that can still be consumed, by realize id
	handles map[int][]*handle
}

type openProxy struct {
	p    *libindex.FetchProxy
	keys []string
}

// handle is one realized layer with the readers its consumers hold.
type handle struct {
	l        *claircore.Layer
	expected []byte // what every consumer must see (nil for a filesystem layer)
	tar      bool
	rds      map[int]claircore.ReadAtCloser
	cur      map[int]int64
	closed   bool
	desc     string
}

// countRT counts, per URL path, how often the fetcher's HTTP client was asked
// to send a request (whether or not it reached a server).
type countRT struct {
	inner http.RoundTripper
	mu    sync.Mutex
	n     map[string]int
}

func (c *countRT) RoundTrip(req *http.Request) (*http.Response, error) {
	c.mu.Lock()
	if req.URL != nil {
		c.n[req.URL.Path]++
	}
	c.mu.Unlock()
	return c.inner.RoundTrip(req)
}

func (c *countRT) calls(path string) int {
	c.mu.Lock()
	defer c.mu.Unlock()
	return c.n[path]
}

func newWorld(r *hx.Run, be backend, loop bool, root string, scen int) *world {
	w := &world{r: r, be: be, loop: loop, root: root, scen: scen, open: map[int]*openProxy{}, held: map[string]*held{}, handles: map[int][]*handle{}}
	cl := *be.Client()
	inner := cl.Transport
	if inner == nil {
		inner = http.DefaultTransport
	}
	w.rt = &countRT{inner: inner, n: map[string]int{}}
	cl.Transport = w.rt
	w.arena = libindex.NewRemoteFetchArena(&cl, root)
	r.Op("reset", "ok", false)
	return w
}

// finish closes whatever the scenario left open (an unclosed Layer panics in
// its finalizer).
func (w *world) finish() {
	ids := make([]int, 0, len(w.open))
	for id := range w.open {
		ids = append(ids, id)
	}
	sort.Ints(ids)
	for _, id := range ids {
		w.close(id)
	}
	w.arena.Close(context.Background())
}

func fnv1a(b []byte) uint64 {
	h := uint64(0xcbf29ce484222325)
	for _, c := range b {
		h ^= uint64(c)
		h *= 0x100000001b3
	}
	return h
}

func viewOf(b []byte) string { return fmt.Sprintf("t:%d:%016x", len(b), fnv1a(b)) }

// termErr is the error a reader sees for a terminal condition.
func termErr(t registry.Term) error {
	switch t {
	case registry.TermEOF:
		return io.EOF
	case registry.TermUnexpectedEOF:
		return io.ErrUnexpectedEOF
	case registry.TermReset:
		return registry.ErrReset
	default:
		return context.DeadlineExceeded
	}
}

type endReader struct{ err error }

func (e endReader) Read([]byte) (int, error) { return 0, e.err }

// magicKind is the compression the first bytes announce (RFC 1952 / RFC 8878 /
// bzip2 file format), written here independently of zreader.
func magicKind(b []byte) string {
	switch {
	case len(b) >= 4 && b[0] == 0x1f && b[1] == 0x8b && b[2] == 8:
		return registry.Gzip
	case len(b) >= 4 && b[0] == 0x28 && b[1] == 0xb5 && b[2] == 0x2f && b[3] == 0xfd:
		return registry.Zstd
	case len(b) >= 4 && b[0] == 'B' && b[1] == 'Z' && b[2] == 'h' && b[3] >= '1' && b[3] <= '9':
		return registry.Bzip2
	}
	return registry.Plain
}

// decode runs the decompression library directly over the delivered bytes
// followed by the terminal condition. ok=false: the library reports an error.
func decode(kind string, delivered []byte, term registry.Term) (out []byte, ok bool) {
	src := io.MultiReader(bytes.NewReader(delivered), endReader{termErr(term)})
	var buf bytes.Buffer
	switch kind {
	case registry.Gzip:
		zr, err := gzip.NewReader(src)
		if err != nil {
			return nil, false
		}
		defer zr.Close()
		if _, err := io.Copy(&buf, zr); err != nil {
			return nil, false
		}
	case registry.Zstd:
		zr, err := zstd.NewReader(src)
		if err != nil {
			return nil, false
		}
		defer zr.Close()
		if _, err := io.Copy(&buf, zr.IOReadCloser()); err != nil {
			return nil, false
		}
	default:
		return nil, false
	}
	return buf.Bytes(), true
}

// parseDigestSpec is the format of a digest string written from its
// specification: algorithm ":" hex, sha256 with 32 bytes or sha512 with 64.
func parseDigestSpec(s string) (algo string, sum []byte, ok bool) {
	i := strings.IndexByte(s, ':')
	if i < 0 {
		return "", nil, false
	}
	algo = s[:i]
	b, err := hex.DecodeString(s[i+1:])
	if err != nil {
		return "", nil, false
	}
	switch {
	case algo == "sha256" && len(b) == 32, algo == "sha512" && len(b) == 64:
		return algo, b, true
	}
	return "", nil, false
}

func hashOf(algo string, b []byte) []byte {
	switch algo {
	case "sha256":
		s := sha256.Sum256(b)
		return s[:]
	case "sha512":
		s := sha512.Sum512(b)
		return s[:]
	}
	return nil
}

func tarAccepted(b []byte) bool {
	ok := false
	hx.Guard(func() string {
		_, err := tarfs.New(bytes.NewReader(b))
		ok = err == nil
		return ""
	})
	return ok
}

var tarMediaTypes = []string{
	"application/vnd.oci.image.layer.v1.tar",
	"application/vnd.oci.image.layer.v1.tar+gzip",
	"application/vnd.oci.image.layer.v1.tar+zstd",
	"application/vnd.oci.image.layer.nondistributable.v1.tar",
	"application/vnd.oci.image.layer.nondistributable.v1.tar+gzip",
	"application/vnd.oci.image.layer.nondistributable.v1.tar+zstd",
}

// keyOf is the arena key the call will use for the layer.
func keyOf(l *layer) string {
	if l.api == "old" {
		d, err := claircore.ParseDigest(l.digest)
		if err != nil {
			return ""
		}
		return d.String()
	}
	return l.digest
}

func errClass(err error) string {
	s := err.Error()
	var de *claircore.DigestError
	switch {
	case errors.As(err, &de):
		return "digest-parse"
	case strings.Contains(s, "empty uri"), strings.Contains(s, "failed to parse remote path uri"):
		return "uri"
	case strings.Contains(s, "request failed"):
		return "request"
	case strings.Contains(s, "unexpected status code"):
		return "status"
	case strings.Contains(s, "error determining compression"):
		return "detect"
	case strings.Contains(s, "disallowed compression kind"):
		return "kind-disallowed"
	case strings.Contains(s, "unknown content-type"):
		return "ctype-unknown"
	case strings.Contains(s, "mismatched compression"):
		return "ctype-mismatch"
	case strings.Contains(s, "error reading response body"):
		return "drain"
	case strings.Contains(s, "validation failed"):
		return "checksum"
	case strings.Contains(s, "unable to create fs.FS"):
		return "tarfs"
	case strings.Contains(s, "unknown MediaType"):
		return "mediatype"
	case errors.Is(err, context.DeadlineExceeded), errors.Is(err, context.Canceled):
		return "context"
	}
	return "copy/other"
}

// install registers the scripts of a layer under a fresh path and returns the URI of the description.
func (w *world) install(l *layer) string {
	path := fmt.Sprintf("/s%d/l%d", w.scen, w.npath)
	w.npath++
	l.path = path
	chain := append([]*registry.Response{l.script}, l.hops...)
	for i, c := range chain {
		if isRedirect(statusOf(c)) && c.Header.Get("Location") != "" {
			next := fmt.Sprintf("%s/h%d", path, i)
			if i == len(chain)-1 {
				// the end of the chain points at itself
				if i == 0 {
					next = path
				} else {
					next = fmt.Sprintf("%s/h%d", path, i-1)
				}
			}
			c.Header.Set("Location", w.be.URL(next))
		}
		if i == 0 {
			w.be.SetSeq(path, append([]*registry.Response{c}, l.more...))
		} else {
			w.be.Set(fmt.Sprintf("%s/h%d", path, i-1), c)
		}
	}
	switch l.uriKind {
	case 'g':
		return w.be.URL(path)
	case 'b':
		return "registry.invalid" + path // no scheme: not a request URI
	case 'p':
		return path // a request URI, but there is no host to ask
	}
	return ""
}

// layerLine writes the protocol line of one layer: the description and the
// parameters of the model, obtained from the libraries directly.
func (w *world) layerLine(l *layer, uri string) {
	fin, loops := l.final()
	delivered, term := l.seen()
	uriFlag := string(l.uriKind)
	refused := fin.RefuseConn || loops
	if l.uriKind == 'p' {
		uriFlag, refused = "g", true
	}
	if l.uriKind == 'b' {
		if _, err := url.ParseRequestURI(uri); err == nil {
			panic("harness: uri kind b parses")
		}
	}
	key := keyOf(l)
	// hash of the delivered bytes under the algorithm the key names
	sum := []byte(nil)
	if i := strings.IndexByte(key, ':'); i >= 0 {
		sum = hashOf(key[:i], delivered)
	}
	z := "x"
	expected := delivered
	if k := magicKind(delivered); k == registry.Gzip || k == registry.Zstd {
		if out, ok := decode(k, delivered, term); ok {
			z = "=" + hx.Hex(out)
			expected = out
		}
	}
	tarFlag := "0"
	if tarAccepted(expected) {
		tarFlag = "1"
	}
	disk := "-"
	if l.limited {
		disk = fmt.Sprint(l.disk)
	}
	ct := fin.Header.Get("Content-Type")
	line := fmt.Sprintf("layer %s %s %s %s %s %d %s %s %s %s %s %s %s", l.api, hx.Hex([]byte(l.digest)), uriFlag, hx.Hex([]byte(l.mediaType)),
		b01(refused), statusOf(fin), hx.Hex([]byte(ct)), term, hx.Hex(delivered), hx.Hex(sum), z, tarFlag, disk)
	if w.sink != nil {
		w.sink(line, "queued")
	} else {
		w.r.Op(line, "queued", true)
	}
	w.r.Count("comp:" + l.comp)
	w.r.Count("damage:" + l.damage)
	w.r.Count("term:" + term.String())
	w.r.Count("framing:" + fin.Framing.String())
	w.r.Count(fmt.Sprintf("status:%d", statusOf(fin)))
	w.r.Count("magic:" + magicKind(delivered))
	w.r.Count("ctype:" + ctClass(ct))
	w.r.Count("bodysize:" + sizeBucket(len(delivered)))
	if len(fin.Chunks) > 0 {
		w.r.Count("chunked-reads:yes")
	} else {
		w.r.Count("chunked-reads:no")
	}
	if len(l.more) > 0 {
		w.r.Count("attempts:several-scripted")
	}
	if len(l.hops) > 0 {
		w.r.Count(fmt.Sprintf("redirect-hops:%d", len(l.hops)))
	}
	if l.limited {
		w.r.Count("spool-limit:" + sizeBucket(l.disk))
	}
	if ce := fin.Header.Get("Content-Encoding"); ce != "" {
		w.r.Count("content-encoding:" + strings.ToLower(ce) + ":decoded=" + b01(fin.Decoded(registry.AsksGzip(http.MethodGet, http.Header(l.headers)))))
	}
}

// withSpoolLimit runs f while no file of the process can grow beyond n bytes
// (RLIMIT_FSIZE; SIGXFSZ is ignored, so the write fails with EFBIG): the
// stand-in for a full or failing disk under the arena. Nothing else writes
// files while f runs: the harness' own output is written by this goroutine.
func withSpoolLimit(n int, f func()) {
	var old syscall.Rlimit
	if err := syscall.Getrlimit(syscall.RLIMIT_FSIZE, &old); err != nil {
		panic(err)
	}
	lim := syscall.Rlimit{Cur: uint64(n), Max: old.Max}
	if err := syscall.Setrlimit(syscall.RLIMIT_FSIZE, &lim); err != nil {
		panic(err)
	}
	defer func() {
		if err := syscall.Setrlimit(syscall.RLIMIT_FSIZE, &old); err != nil {
			panic(err)
		}
	}()
	f()
}

// realize runs one RealizeDescriptions / Realize call over the layers, writes
// the protocol lines and checks the statement on the outcome.
func (w *world) realize(id int, ls []*layer, hold bool) {
	n := len(ls)
	uris := make([]string, n)
	stall := false
	limit := -1
	for _, l := range ls {
		if l.limited && (limit < 0 || l.disk < limit) {
			limit = l.disk
		}
	}
	for i, l := range ls {
		if limit >= 0 {
			// the limit is the process's: it holds for every layer of the call
			if !l.limited || l.disk != limit {
				l.limited, l.disk = true, limit
			}
			if len(l.payload) > limit {
				l.pristine = false
			}
		}
		uris[i] = w.install(l)
		_, term := l.seen()
		if term == registry.TermStall && w.held[keyOf(l)] == nil {
			// (a layer served from the arena makes no request and cannot stall)
			stall = true
		}
		w.layerLine(l, uris[i])
	}
	timeout := 30 * time.Second
	if stall {
		// a stalled response ends only by the deadline; the outcome (error) does
		// not depend on how long that takes
		timeout = 60 * time.Millisecond
		if w.loop {
			timeout = 300 * time.Millisecond
		}
	}
	ctx, cancel := context.WithTimeout(context.Background(), timeout)
	defer cancel()
	p := w.arena.Realizer(ctx).(*libindex.FetchProxy)
	legacy := ls[0].api == "old"
	var got []*claircore.Layer
	var rerr error
	nilOnErr := true
	call := func() string {
		if legacy {
			in := make([]*claircore.Layer, n)
			for i, l := range ls {
				d, err := claircore.ParseDigest(l.digest)
				if err != nil {
					d = claircore.Digest{}
				}
				in[i] = &claircore.Layer{Hash: d, URI: uris[i], Headers: l.headers}
			}
			rerr = p.Realize(ctx, in)
			if rerr == nil {
				got = in
			}
		} else {
			descs := make([]claircore.LayerDescription, n)
			for i, l := range ls {
				descs[i] = claircore.LayerDescription{Digest: l.digest, URI: uris[i], MediaType: l.mediaType, Headers: l.headers}
			}
			res, err := p.RealizeDescriptions(ctx, descs)
			rerr = err
			if err == nil {
				for i := range res {
					got = append(got, &res[i])
				}
			} else if res != nil {
				nilOnErr = false
			}
		}
		return ""
	}
	var out string
	if limit >= 0 {
		withSpoolLimit(limit, func() { out = hx.Guard(call) })
	} else {
		out = hx.Guard(call)
	}
	if out == "panic" {
		w.r.Fail("", "panic in Realize: "+ls[0].describe())
		w.r.Op(fmt.Sprintf("realize %d %s", id, b01(hold)), "panic", true)
		return
	}
	reqs := make([]string, n)
	for i, l := range ls {
		k := w.rt.calls(l.path)
		reqs[i] = fmt.Sprint(k)
		w.r.Count("requests-per-layer:" + reqs[i])
	}
	if rerr != nil {
		w.r.Count("outcome:err")
		w.r.Count("err:" + errClass(rerr))
		if !nilOnErr {
			w.r.Fail("", "layers returned together with an error: "+ls[0].describe())
		}
		ans := "err"
		if n == 1 {
			ans += " r:" + reqs[0]
		}
		w.r.Op(fmt.Sprintf("realize %d %s", id, b01(hold)), ans, true)
		p.Close()
		w.oracleFailed(ls, rerr)
		return
	}
	w.r.Count("outcome:ok")
	views := make([]string, n)
	bodies := make([][]byte, n)
	for i, l := range got {
		views[i], bodies[i] = w.readBack(l)
	}
	w.r.Op(fmt.Sprintf("realize %d %s", id, b01(hold)), "ok "+strings.Join(views, ";")+" r:"+strings.Join(reqs, ","), true)
	w.oracleSucceeded(ls, got, views, bodies)
	hs := make([]*handle, n)
	for i, l := range got {
		hs[i] = &handle{l: l, tar: strings.HasPrefix(views[i], "t:"), rds: map[int]claircore.ReadAtCloser{}, cur: map[int]int64{}, desc: ls[i].describe()}
		if hs[i].tar {
			hs[i].expected = bodies[i]
		}
	}
	w.handles[id] = hs
	w.consumeSome(id)
	keys := make([]string, n)
	for i, l := range ls {
		keys[i] = keyOf(l)
	}
	if hold {
		for i, k := range keys {
			h := w.held[k]
			if h == nil {
				h = &held{view: views[i]}
				w.held[k] = h
			}
			h.count++
		}
		w.open[id] = &openProxy{p: p, keys: keys}
	} else {
		if err := p.Close(); err != nil {
			w.r.Fail("", fmt.Sprintf("FetchProxy.Close: %v: %s", err, ls[0].describe()))
		}
		for _, h := range hs {
			h.closed = true
		}
		w.r.Op(fmt.Sprintf("release %d", id), "closed", false)
		w.consumeSome(id)
		delete(w.handles, id)
	}
}

func (w *world) close(id int) {
	op := w.open[id]
	if op == nil {
		w.r.Op(fmt.Sprintf("close %d", id), "closed", false)
		return
	}
	delete(w.open, id)
	for _, k := range op.keys {
		if h := w.held[k]; h != nil {
			h.count--
			if h.count == 0 {
				delete(w.held, k)
			}
		}
	}
	out := hx.Guard(func() string {
		if err := op.p.Close(); err != nil {
			return "close-error"
		}
		return "closed"
	})
	if out != "closed" {
		w.r.Fail("", fmt.Sprintf("FetchProxy.Close of realize %d: %s", id, out))
	}
	w.r.Op(fmt.Sprintf("close %d", id), out, true)
	for _, h := range w.handles[id] {
		h.closed = true
	}
	w.consumeSome(id)
	delete(w.handles, id)
}

// readBack returns the canonical view and the bytes of a realized layer.
func (w *world) readBack(l *claircore.Layer) (string, []byte) {
	rd, err := l.Reader()
	if err != nil {
		if _, e2 := l.FS(); e2 == nil {
			return "d", nil
		}
		return "noview", nil
	}
	defer rd.Close()
	b, err := io.ReadAll(rd)
	if err != nil {
		return "readerr", nil
	}
	return viewOf(b), b
}

// listFS renders name=content of every regular file the layer's FS shows.
func listFS(l *claircore.Layer) (string, error) {
	sys, err := l.FS()
	if err != nil {
		return "", err
	}
	return listSys(sys)
}

func listSys(sys fs.FS) (string, error) {
	var out []string
	err := fs.WalkDir(sys, ".", func(p string, d fs.DirEntry, err error) error {
		if err != nil {
			return err
		}
		if d.IsDir() {
			return nil
		}
		b, err := fs.ReadFile(sys, p)
		if err != nil {
			return err
		}
		out = append(out, p+"="+hx.Hex(b))
		return nil
	})
	sort.Strings(out)
	return strings.Join(out, ","), err
}

func b01(b bool) string {
	if b {
		return "1"
	}
	return "0"
}

func statusOf(r *registry.Response) int {
	if r.Status == 0 {
		return 200
	}
	return r.Status
}

func sizeBucket(n int) string {
	switch {
	case n == 0:
		return "0"
	case n < 4:
		return "1-3"
	case n < 64:
		return "4-63"
	case n < 512:
		return "64-511"
	case n < 4096:
		return "512-4095"
	}
	return "4096+"
}

// Run is the harness entry point.
func Run(cfg hx.Config) error {
	r, err := hx.NewRun(cfg)
	if err != nil {
		return err
	}
	r.Rule = "layer descriptions realized through the real RemoteFetchArena against scripted responses (payload x compression x content type x digest x media type x damage x framing/terminal condition x read chunking x redirects x content-encoding x request headers x spool-file limit x several scripted answers per URI), single fetches, multi-layer calls, hold/refetch/close histories, consumer schedules on the realized layers (several readers, Read/ReadAt/Seek/Copy interleaved, before and after the close), controlled schedules of concurrent users sharing URIs and digests (parked at the arena's hook points and at the transport), and direct calls of CheckResponse, Digest parsing/Scan, detectCompression and Layer.Init; non-trivial = a distinct protocol line (every layer line reaches at least the digest/uri validation of the model) or a distinct oracle evaluation (outcome x damage x compression)"
	root, err := os.MkdirTemp("", "verif-c09-arena-")
	if err != nil {
		return err
	}
	defer os.RemoveAll(root)
	// a write beyond the spool limit must come back as an error, not as a signal
	signal.Ignore(syscall.SIGXFSZ)
	g := &gen{rnd: hx.NewRand(cfg.Seed), cfg: cfg}
	tr := registry.NewTransport()
	scen := 0
	next := func(be backend, loop bool) *world {
		scen++
		w := newWorld(r, be, loop, root, scen)
		w.g = g
		return w
	}

	// 1. witnesses: the repaired defect and the corpus
	witnesses(r, next, tr)
	if err := runCorpus(r, cfg, next, tr); err != nil {
		return err
	}

	// 2. systematic damage sweeps over small layers (every flip position, every cut)
	sweeps(r, g, next, tr)

	// 2b. a first transfer that dies, a second request that would succeed
	retrySweep(r, g, next, tr)

	// 3. random single fetches
	nrand := cfg.N(2500, 25000)
	for i := 0; i < nrand && !r.Stop(); i++ {
		w := next(tr, false)
		w.realize(0, []*layer{g.randomLayer()}, false)
		w.finish()
	}

	// 4. multi-layer calls
	nmulti := cfg.N(250, 4000)
	for i := 0; i < nmulti && !r.Stop(); i++ {
		w := next(tr, false)
		w.realize(0, g.multi(), g.rnd.Chance(1, 3))
		w.finish()
	}

	// 5. histories on one arena: hold, refetch (served from the arena), close, refetch
	nhist := cfg.N(250, 4000)
	for i := 0; i < nhist && !r.Stop(); i++ {
		history(g, next(tr, false))
	}

	// 5b. concurrent users of one arena under controlled schedules
	nsched := cfg.N(300, 5000)
	for i := 0; i < nsched && !r.Stop(); i++ {
		schedScenario(g, next(tr, false), tr)
	}
	r.Notes["scheduled_scenarios"] = nsched
	r.Notes["scheduled_scenarios_discarded_as_unsettled"] = r.Hist["sched:discarded-unsettled"]

	// 5c. CheckResponse, Digest texts and Scan, detectCompression on short slices
	if !r.Stop() {
		miscOps(r, g)
		layerInitOps(r, g, root)
	}

	// 6. the same through a loopback HTTP server (real net/http transport)
	if !r.Stop() {
		loopback(r, g, cfg, next)
	}
	r.Notes["random_single"] = nrand
	r.Notes["multi_layer_calls"] = nmulti
	r.Notes["histories"] = nhist
	r.Notes["transport"] = "in-process RoundTripper (exact read boundaries) for the sweeps; loopback httptest server for the transport-contract sample"
	return r.Close()
}
