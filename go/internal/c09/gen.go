package c09

import (
	"encoding/hex"
	"fmt"
	"strings"

	"github.com/quay/claircore/verifharness/internal/hx"
	"github.com/quay/claircore/verifharness/internal/registry"
)

type gen struct {
	rnd  *hx.Rand
	cfg  hx.Config
	uniq int
}

// base is an undamaged layer blob.
type base struct {
	payload []byte
	files   []registry.File
	comp    string // plain | gzip | zstd | bzip2
	variant string
	wire    []byte
	tar     bool // payload is a generated tar
}

func (g *gen) bytes(n int) []byte {
	b := make([]byte, n)
	for i := range b {
		b[i] = byte(g.rnd.U64())
	}
	return b
}

var fileNames = []string{"etc/os-release", "var/lib/dpkg/status", "usr/lib/os-release", "a", "bin/sh", "lib/apk/db/installed", "root/.profile"}

// tarPayload generates a small tar; every call yields different bytes.
func (g *gen) tarPayload() ([]byte, []registry.File) {
	n := 1 + g.rnd.Intn(3)
	var files []registry.File
	used := map[string]bool{}
	for i := 0; i < n; i++ {
		name := fileNames[g.rnd.Intn(len(fileNames))]
		if used[name] {
			continue
		}
		used[name] = true
		g.uniq++
		data := []byte(fmt.Sprintf("%d:", g.uniq))
		switch g.rnd.Intn(4) {
		case 0:
		case 1:
			data = append(data, g.bytes(g.rnd.Intn(40))...)
		case 2:
			data = append(data, []byte(strings.Repeat("ID=alpine\n", 1+g.rnd.Intn(20)))...)
		case 3:
			data = append(data, g.bytes(500+g.rnd.Intn(600))...)
		}
		files = append(files, registry.File{Name: name, Data: data})
	}
	return registry.Tar(files, g.rnd.Chance(1, 2)), files
}

// payload: mostly tars, sometimes bytes that are no tar, empty or shorter than
// the sniffing window.
func (g *gen) payload() (p []byte, files []registry.File, isTar bool) {
	switch x := g.rnd.Intn(100); {
	case x < 80:
		p, files = g.tarPayload()
		return p, files, true
	case x < 84:
		return nil, nil, false
	case x < 88:
		return make([]byte, 512*(1+g.rnd.Intn(3))), nil, false
	case x < 94:
		// shorter than the sniffing window, possibly the start of a magic
		heads := [][]byte{{0x1f, 0x8b, 8}, {0x28, 0xb5, 0x2f}, {'B', 'Z', 'h'}, {0x1f}, {0x1f, 0x8b}, {0}, {'a', 'b'}}
		return heads[g.rnd.Intn(len(heads))], nil, false
	default:
		g.uniq++
		return append([]byte(fmt.Sprintf("not a tar %d ", g.uniq)), g.bytes(g.rnd.Intn(700))...), nil, false
	}
}

func (g *gen) compress(p []byte, comp string) (wire []byte, variant string) {
	switch comp {
	case registry.Gzip:
		switch g.rnd.Intn(5) {
		case 0:
			return registry.GzipBytes(p, 0), "gzip-stored"
		case 1:
			return registry.GzipBytes(p, 1), "gzip-l1"
		case 2:
			return registry.GzipBytes(p, 9), "gzip-l9"
		case 3:
			k := len(p) / 2
			return registry.GzipMembers([][]byte{p[:k], p[k:]}, 6), "gzip-2members"
		default:
			return registry.GzipBytes(p, 6), "gzip-l6"
		}
	case registry.Zstd:
		switch g.rnd.Intn(5) {
		case 0:
			return registry.ZstdBytes(p, false), "zstd-nocrc"
		case 1:
			k := len(p) / 2
			return registry.ZstdFrames([][]byte{p[:k], p[k:]}, true), "zstd-2frames"
		case 2:
			k := len(p) / 2
			w := append(registry.ZstdBytes(p[:k], true), registry.ZstdSkippable(g.rnd.Intn(9))...)
			return append(w, registry.ZstdBytes(p[k:], true)...), "zstd-skippable-between"
		default:
			return registry.ZstdBytes(p, true), "zstd-crc"
		}
	}
	return p, "plain"
}

func (g *gen) base() base {
	if g.rnd.Chance(1, 25) {
		z, p := registry.Bzip2Tar()
		return base{payload: p, comp: registry.Bzip2, variant: "bzip2", wire: z}
	}
	p, files, isTar := g.payload()
	comp := g.rnd.Pick(registry.Plain, registry.Gzip, registry.Gzip, registry.Zstd, registry.Zstd)
	w, v := g.compress(p, comp)
	return base{payload: p, files: files, comp: comp, variant: v, wire: w, tar: isTar}
}

// tarBase is a base whose payload is a generated tar under a supported compression.
func (g *gen) tarBase() base {
	for {
		b := g.base()
		if b.tar && b.comp != registry.Bzip2 {
			return b
		}
	}
}

var consistentCTs = map[string][]string{
	registry.Gzip: {"application/gzip", "application/x-gzip", "application/vnd.docker.image.rootfs.diff.tar.gzip",
		"application/vnd.oci.image.layer.v1.tar+gzip", "application/vnd.oci.image.layer.nondistributable.v1.tar+gzip", "x.tar+gzip", ".tar+gzip"},
	registry.Zstd: {"application/zstd", "application/vnd.oci.image.layer.v1.tar+zstd", "application/vnd.oci.image.layer.nondistributable.v1.tar+zstd", "y/z.tar+zstd"},
	registry.Plain: {"application/x-tar", "application/vnd.oci.image.layer.v1.tar", "application/vnd.oci.image.layer.nondistributable.v1.tar",
		"application/vnd.docker.image.rootfs.diff.tar", ".tar"},
}

var genericCTs = []string{"", "text/plain", "binary/octet-stream", "application/octet-stream"}

var otherCTs = []string{"application/json", "application/x-bzip2", "application/gzip; charset=binary", "Application/Gzip", "application/tar",
	"tar", ".tar+gzip2", "application/x-xz", "text/plain; charset=utf-8", "application/vnd.oci.image.layer.v1.tar+bzip2", "gzip", "zstd",
	"application/x-tar+gzip", "application/x-zstd", "application/x-gtar", "application/x-tar;q=1", "text/html", "application/vnd.oci.image.layer.v1.tar+",
	"APPLICATION/X-TAR", "application/octet-stream ", "application/gzip,application/x-tar", "x.tgz", "application/zstd+tar"}

func (g *gen) consistentCT(comp string) string {
	if comp == registry.Bzip2 {
		return g.rnd.Pick("application/x-bzip2", "", "application/vnd.oci.image.layer.v1.tar+bzip2")
	}
	if g.rnd.Chance(2, 5) {
		return genericCTs[g.rnd.Intn(len(genericCTs))]
	}
	c := consistentCTs[comp]
	return c[g.rnd.Intn(len(c))]
}

// anyCT: any content type, consistent or not, known or not, or a mutation of a known one.
func (g *gen) anyCT() string {
	switch g.rnd.Intn(6) {
	case 0:
		return genericCTs[g.rnd.Intn(len(genericCTs))]
	case 1:
		return otherCTs[g.rnd.Intn(len(otherCTs))]
	case 2:
		// one character of a known type dropped, doubled or upper-cased
		c := g.consistentCT(g.rnd.Pick(registry.Plain, registry.Gzip, registry.Zstd))
		if len(c) < 2 {
			return "x"
		}
		i := g.rnd.Intn(len(c))
		switch g.rnd.Intn(3) {
		case 0:
			return c[:i] + c[i+1:]
		case 1:
			return c[:i] + c[i:i+1] + c[i:]
		default:
			return c[:i] + strings.ToUpper(c[i:i+1]) + c[i+1:]
		}
	default:
		return g.consistentCT(g.rnd.Pick(registry.Plain, registry.Gzip, registry.Zstd))
	}
}

func digestOf(algo string, b []byte) string {
	return algo + ":" + hex.EncodeToString(hashOf(algo, b))
}

func (g *gen) algo() string { return g.rnd.Pick("sha256", "sha256", "sha512") }

// chunks: how the transport hands out the body.
func (g *gen) chunks(n int) []int {
	switch g.rnd.Intn(8) {
	case 0, 1, 2:
		return nil
	case 3:
		return []int{1, 1, 1, 1, 1, 1, 1, 1}
	case 4:
		return []int{g.rnd.Intn(6)}
	case 5:
		// byte at a time throughout (bounded)
		m := n
		if m > 300 {
			m = 300
		}
		c := make([]int, m)
		for i := range c {
			c[i] = 1
		}
		return c
	default:
		var c []int
		for left := n; left > 0 && len(c) < 40; {
			k := 1 + g.rnd.Intn(1+left)
			c = append(c, k)
			left -= k
		}
		return c
	}
}

// pristine builds the correct layer for a base.
func (g *gen) pristine(b base) *layer {
	r := registry.New(g.consistentCT(b.comp), b.wire)
	r.Chunks = g.chunks(len(b.wire))
	switch g.rnd.Intn(5) {
	case 0:
		r.Framing = registry.FrameChunked
	case 1:
		r.Framing = registry.FrameClose
	}
	l := &layer{api: "new", digest: digestOf(g.algo(), b.wire), uriKind: 'g', mediaType: tarMediaTypes[g.rnd.Intn(len(tarMediaTypes))],
		script: r, comp: b.comp, damage: "none", files: b.files, payload: b.payload}
	l.pristine = b.tar && b.comp != registry.Bzip2
	if g.rnd.Chance(1, 6) {
		l.api = "old"
	}
	if g.rnd.Chance(1, 8) {
		// upper-case hex is a well-formed digest
		i := strings.IndexByte(l.digest, ':')
		l.digest = l.digest[:i+1] + strings.ToUpper(l.digest[i+1:])
	}
	return l
}

func (g *gen) redigest(l *layer) {
	d, _ := l.script.Delivered()
	algo := "sha256"
	if strings.HasPrefix(l.digest, "sha512") {
		algo = "sha512"
	}
	l.digest = digestOf(algo, d)
}

func (g *gen) malformedDigest(wire []byte) (string, string) {
	h256 := hex.EncodeToString(hashOf("sha256", wire))
	h512 := hex.EncodeToString(hashOf("sha512", wire))
	switch g.rnd.Intn(17) {
	case 14:
		return "sha256:" + h256 + g.rnd.Pick(" ", "\n", "\t", "\r\n"), "digest-trailing-blank"
	case 15:
		return g.rnd.Pick(" ", "\t") + "sha256:" + h256, "digest-leading-blank"
	case 16:
		return "sha256:0x" + h256, "digest-0x"
	case 0:
		return "sha256:" + h256[:63], "digest-odd-hex"
	case 1:
		return "sha256:" + h256[:62], "digest-short"
	case 2:
		return "sha256:" + h256 + "00", "digest-long"
	case 3:
		return "sha512:" + h256, "digest-sha512-with-32-bytes"
	case 4:
		return "sha256:" + h512, "digest-sha256-with-64-bytes"
	case 5:
		return "sha1:" + h256[:40], "digest-sha1"
	case 6:
		return "SHA256:" + h256, "digest-algo-uppercase"
	case 7:
		return h256, "digest-no-colon"
	case 8:
		return "", "digest-empty"
	case 9:
		return "sha256:" + h256[:10] + "zz" + h256[12:], "digest-non-hex"
	case 10:
		return ":" + h256, "digest-empty-algo"
	case 11:
		return "sha256::" + h256[:62], "digest-two-colons"
	case 12:
		return "sha256:", "digest-empty-hex"
	default:
		return "sha384:" + h512[:96], "digest-sha384"
	}
}

// damaged applies one perturbation to a pristine layer of the base.
func (g *gen) damaged(b base) *layer {
	l := g.pristine(b)
	l.pristine = false
	r := l.script
	n := len(r.Body)
	re := g.rnd.Chance(1, 2) // recompute the digest over what is delivered
	tag := func(s string) {
		if re {
			g.redigest(l)
			s += "+redigest"
		}
		l.damage = s
	}
	switch g.rnd.Intn(25) {
	case 17, 18:
		g.retryDamage(l, b)
	case 19, 20:
		g.redirectDamage(l, b)
	case 21, 22:
		g.encodingDamage(l, b)
	case 23:
		g.headerDamage(l, b)
	case 24:
		g.diskDamage(l, b)
	case 0, 1:
		if n == 0 {
			r.Body = []byte{0}
			tag("extend-garbage")
			break
		}
		r.Body = append([]byte(nil), r.Body...)
		r.Body[g.rnd.Intn(n)] ^= 1 << g.rnd.Intn(8)
		tag("flip-bit")
	case 2:
		if n == 0 {
			r.Status = 404
			l.damage = "status"
			break
		}
		k := g.rnd.Intn(n)
		r.Body = r.Body[:k]
		switch g.rnd.Intn(3) {
		case 0:
			r.Framing, r.Declared, r.End = registry.FrameLength, n, registry.EndClose
			tag("truncate-short-of-content-length")
		case 1:
			r.Framing, r.End = registry.FrameChunked, registry.EndClose
			tag("truncate-chunked-no-terminator")
		default:
			r.Framing = registry.FrameClose
			r.Declared = -1
			tag("truncate-silent")
		}
	case 3:
		r.Body = append(append([]byte(nil), r.Body...), g.bytes(1+g.rnd.Intn(8))...)
		tag("extend-garbage")
	case 4:
		r.Body = append(append([]byte(nil), r.Body...), make([]byte, 1+g.rnd.Intn(600))...)
		tag("extend-zeros")
	case 5:
		extra, _ := g.tarPayload()
		w, _ := g.compress(extra, b.comp)
		if b.comp == registry.Bzip2 {
			w = extra
		}
		r.Body = append(append([]byte(nil), r.Body...), w...)
		tag("extend-second-member")
	case 6:
		if b.comp == registry.Zstd {
			r.Body = append(append([]byte(nil), r.Body...), registry.ZstdSkippable(g.rnd.Intn(12))...)
			tag("extend-skippable-frame")
		} else {
			r.Body = append(registry.ZstdSkippable(3), r.Body...)
			tag("prepend-skippable-frame")
		}
	case 7:
		r.Header.Set("Content-Type", g.anyCT())
		if r.Header.Get("Content-Type") == "" {
			r.Header.Del("Content-Type")
		}
		l.damage = "ctype-any"
	case 8:
		other := g.rnd.Pick(registry.Plain, registry.Gzip, registry.Zstd)
		c := consistentCTs[other]
		r.Header.Set("Content-Type", c[g.rnd.Intn(len(c))])
		l.damage = "ctype-of-" + other
	case 9:
		switch g.rnd.Intn(4) {
		case 0:
			l.digest = digestOf(g.algo(), b.payload)
			l.damage = "digest-of-payload"
		case 1:
			g.uniq++
			l.digest = digestOf(g.algo(), []byte(fmt.Sprintf("other %d", g.uniq)))
			l.damage = "digest-of-other-bytes"
		default:
			l.digest, l.damage = g.malformedDigest(b.wire)
		}
	case 10:
		r.Status = []int{201, 204, 206, 400, 401, 403, 404, 429, 500, 503}[g.rnd.Intn(10)]
		l.damage = "status"
	case 11:
		// the whole body, then the response does not end cleanly
		switch g.rnd.Intn(4) {
		case 0:
			r.Framing, r.Declared, r.End = registry.FrameLength, n+1+g.rnd.Intn(20), registry.EndClose
			l.damage = "complete-body-short-of-content-length"
		case 1:
			r.Framing, r.End = registry.FrameChunked, registry.EndClose
			l.damage = "complete-body-chunked-no-terminator"
		case 2:
			r.Framing, r.End = registry.FrameChunked, registry.EndReset
			l.damage = "complete-body-then-reset"
		default:
			r.Framing, r.Declared, r.End = registry.FrameLength, n+5, registry.EndStall
			l.damage = "complete-body-then-stall"
		}
	case 12:
		if n > 0 {
			r.Body = r.Body[:g.rnd.Intn(n)]
		}
		if g.rnd.Chance(1, 2) {
			r.Framing, r.End = registry.FrameChunked, registry.EndReset
			tag("partial-body-then-reset")
		} else {
			r.Framing, r.Declared, r.End = registry.FrameLength, n+1, registry.EndStall
			tag("partial-body-then-stall")
		}
	case 13:
		l.mediaType = g.rnd.Pick(fsMediaType, "", "application/vnd.docker.image.rootfs.diff.tar.gzip", "application/x-tar", "application/vnd.oci.image.layer.v1.tar+bzip2", "application/vnd.oci.image.layer.v2.tar")
		l.api = "new"
		l.damage = "mediatype"
	case 14:
		l.uriKind = []byte{'e', 'b', 'p'}[g.rnd.Intn(3)]
		l.damage = "uri"
	case 15:
		r.RefuseConn = true
		l.damage = "request-fails"
	default:
		// Content-Length smaller than the body: the client stops there
		if n > 0 {
			r.Framing, r.Declared = registry.FrameLength, g.rnd.Intn(n)
		}
		tag("content-length-smaller")
	}
	return l
}

// dying makes a copy of the response that ends badly after k bytes of its body.
func (g *gen) dying(r *registry.Response, k int) (*registry.Response, string) {
	d := r.Clone()
	n := len(d.Body)
	if k > n {
		k = n
	}
	d.Body = d.Body[:k]
	d.Chunks = nil
	switch g.rnd.Intn(4) {
	case 0:
		d.Framing, d.Declared, d.End = registry.FrameLength, n+1, registry.EndClose
		return d, "short-of-content-length"
	case 1:
		d.Framing, d.End = registry.FrameChunked, registry.EndClose
		return d, "chunked-no-terminator"
	case 2:
		d.Framing, d.End = registry.FrameChunked, registry.EndReset
		return d, "reset"
	default:
		d.Framing, d.Declared, d.End = registry.FrameLength, n+1, registry.EndReset
		return d, "reset-short-of-content-length"
	}
}

// retryDamage: the first request for the layer fails (dies after k bytes, or
// is answered with an error status, or with other bytes); a second request
// would get the correct response. The fetch as a whole must not produce
// anything but the blob of the digest - with one request per fetch: nothing.
func (g *gen) retryDamage(l *layer, b base) {
	good := l.script
	n := len(good.Body)
	switch g.rnd.Intn(6) {
	case 0:
		bad := good.Clone()
		bad.Status = []int{500, 502, 503, 429, 404}[g.rnd.Intn(5)]
		l.script, l.more, l.damage = bad, []*registry.Response{good}, "retry:first-status-then-good"
	case 1:
		bad := good.Clone()
		bad.Body = append([]byte("oops "), g.bytes(30)...)
		l.script, l.more, l.damage = bad, []*registry.Response{good}, "retry:first-other-bytes-then-good"
	case 2:
		bad := good.Clone()
		bad.RefuseConn = true
		l.script, l.more, l.damage = bad, []*registry.Response{good}, "retry:first-refused-then-good"
	default:
		k := 0
		if n > 0 {
			k = g.rnd.Intn(n + 1)
		}
		bad, how := g.dying(good, k)
		l.script, l.more, l.damage = bad, []*registry.Response{good}, "retry:first-dies("+how+")-then-good"
		if g.rnd.Chance(1, 4) {
			// ... and a third one, should anybody ask
			l.more = append(l.more, good.Clone())
		}
	}
}

var redirectCodes = []int{301, 302, 303, 307, 308}

func (g *gen) redirectTo() *registry.Response {
	r := registry.New("", nil)
	r.Status = redirectCodes[g.rnd.Intn(len(redirectCodes))]
	r.Header.Set("Location", "next")
	return r
}

// redirectDamage: the URI answers with a redirect (chain). What counts is the
// response at the end of the chain.
func (g *gen) redirectDamage(l *layer, b base) {
	final := l.script
	switch g.rnd.Intn(7) {
	case 0, 1:
		l.script, l.hops, l.damage = g.redirectTo(), []*registry.Response{final}, "none:redirected"
		l.pristine = b.tar && b.comp != registry.Bzip2
	case 2:
		l.script, l.hops, l.damage = g.redirectTo(), []*registry.Response{g.redirectTo(), g.redirectTo(), final}, "none:redirected-3-hops"
		l.pristine = b.tar && b.comp != registry.Bzip2
	case 3:
		// a redirect without Location is the final response
		r := g.redirectTo()
		r.Header.Del("Location")
		r.Header.Set("Content-Type", final.Header.Get("Content-Type"))
		r.Body = final.Body
		l.script, l.damage = r, "redirect-without-location"
	case 4:
		// never-ending
		l.script, l.hops, l.damage = g.redirectTo(), []*registry.Response{g.redirectTo()}, "redirect-loop"
	case 5:
		// 3xx that is not a redirect for the client
		r := final.Clone()
		r.Status = []int{300, 304, 305, 306}[g.rnd.Intn(4)]
		r.Header.Set("Location", "next")
		l.script, l.hops, l.damage = r, nil, "status-3xx-not-followed"
	default:
		// the target is damaged
		bad := final.Clone()
		if len(bad.Body) > 0 {
			bad.Body[g.rnd.Intn(len(bad.Body))] ^= 0x10
		} else {
			bad.Status = 404
		}
		l.script, l.hops, l.damage = g.redirectTo(), []*registry.Response{bad}, "redirected-to-flipped-bit"
	}
}

// encodingDamage: Content-Encoding. net/http undoes a gzip content coding it
// asked for by itself; the digest is that of the entity, not of its coding.
func (g *gen) encodingDamage(l *layer, b base) {
	r := l.script
	entity := r.Body
	r.Chunks = nil
	switch g.rnd.Intn(8) {
	case 0, 1:
		r.Body = registry.GzipBytes(entity, 1+g.rnd.Intn(9))
		r.Header.Set("Content-Encoding", g.rnd.Pick("gzip", "gzip", "GZIP", "GZip"))
		l.damage = "none:content-encoding-gzip"
		l.pristine = b.tar && b.comp != registry.Bzip2
	case 2:
		// the description asks for a coding itself: the client hands out the coded bytes
		r.Body = registry.GzipBytes(entity, 6)
		r.Header.Set("Content-Encoding", "gzip")
		l.headers = map[string][]string{"Accept-Encoding": {g.rnd.Pick("gzip", "identity", "gzip, zstd")}}
		l.damage = "content-encoding-gzip-asked-by-description"
		if g.rnd.Chance(1, 2) {
			g.redigest(l)
			l.damage += "+redigest"
		}
	case 3:
		// claims a coding the body does not have
		r.Header.Set("Content-Encoding", "gzip")
		l.damage = "content-encoding-gzip-but-not-coded"
	case 4:
		r.Header.Set("Content-Encoding", g.rnd.Pick("zstd", "br", "deflate", "identity", "x-gzip", "compress", "gzip, gzip"))
		l.damage = "none:content-encoding-not-undone"
		if ce := r.Header.Get("Content-Encoding"); ce == "identity" || true {
			// the client leaves these alone: the bytes are the blob
			l.pristine = b.tar && b.comp != registry.Bzip2
		}
	case 5:
		z := registry.GzipBytes(entity, 6)
		z[g.rnd.Intn(len(z))] ^= 1 << g.rnd.Intn(8)
		r.Body = z
		r.Header.Set("Content-Encoding", "gzip")
		l.damage = "content-encoding-gzip-flipped-bit"
		if g.rnd.Chance(1, 2) {
			g.redigest(l)
			l.damage += "+redigest"
		}
	case 6:
		z := registry.GzipBytes(entity, 6)
		k := g.rnd.Intn(len(z))
		r.Body = z[:k]
		r.Header.Set("Content-Encoding", "gzip")
		r.Framing = registry.FrameClose
		l.damage = "content-encoding-gzip-truncated"
		if g.rnd.Chance(1, 2) {
			g.redigest(l)
			l.damage += "+redigest"
		}
	default:
		// two members in the coding
		k := len(entity) / 2
		r.Body = registry.GzipMembers([][]byte{entity[:k], entity[k:]}, 6)
		r.Header.Set("Content-Encoding", "gzip")
		l.damage = "none:content-encoding-gzip-2members"
		l.pristine = b.tar && b.comp != registry.Bzip2
	}
}

// headerDamage: request headers in the description.
func (g *gen) headerDamage(l *layer, b base) {
	l.headers = map[string][]string{}
	for i, n := 0, 1+g.rnd.Intn(3); i < n; i++ {
		switch g.rnd.Intn(5) {
		case 0:
			l.headers["Authorization"] = []string{"Bearer " + hex.EncodeToString(g.bytes(6))}
		case 1:
			l.headers["X-Verif"] = []string{"a", "b b", ""}
		case 2:
			l.headers["Range"] = []string{"bytes=0-9"}
		case 3:
			l.headers["Accept"] = []string{"application/vnd.oci.image.layer.v1.tar+gzip", "*/*;q=0.1"}
		default:
			l.headers["User-Agent"] = []string{"claircore/verif"}
		}
	}
	l.damage = "none:request-headers"
	l.pristine = b.tar && b.comp != registry.Bzip2
	if l.api == "old" && g.rnd.Chance(1, 2) {
		l.api = "new"
	}
	if _, ok := l.headers["Range"]; ok && g.rnd.Chance(1, 2) {
		// a server that honours the range
		r := l.script
		r.Status = 206
		if len(r.Body) > 10 {
			r.Body = r.Body[:10]
		}
		r.Header.Set("Content-Range", fmt.Sprintf("bytes 0-9/%d", len(b.wire)))
		l.damage = "range-honoured-206"
		l.pristine = false
		if g.rnd.Chance(1, 2) {
			r.Status = 200 // ... and lies about it
			l.damage = "range-honoured-but-200"
			if g.rnd.Chance(1, 2) {
				g.redigest(l)
				l.damage += "+redigest"
			}
		}
	}
}

// diskDamage: the spool file cannot take (all of) the payload.
func (g *gen) diskDamage(l *layer, b base) {
	n := len(b.payload)
	opts := []int{0, 1, 511, 512, 513, n - 1, n, n + 1, 4095, 4096, 4097, n / 2}
	d := opts[g.rnd.Intn(len(opts))]
	if d < 0 {
		d = 0
	}
	l.limited, l.disk = true, d
	l.damage = "spool-file-limit"
	if d >= n {
		l.damage = "none:spool-file-limit-not-reached"
		l.pristine = b.tar && b.comp != registry.Bzip2
	}
}

// bigTar is a tar of 6..40 KiB: large enough for the fetcher's buffered
// writer to have flushed part of it to the spool file before a transfer dies.
func (g *gen) bigTar() ([]byte, []registry.File) {
	var files []registry.File
	n := 2 + g.rnd.Intn(4)
	for i := 0; i < n; i++ {
		g.uniq++
		data := []byte(fmt.Sprintf("%d:", g.uniq))
		if g.rnd.Chance(1, 2) {
			data = append(data, g.bytes(2000+g.rnd.Intn(6000))...)
		} else {
			data = append(data, []byte(strings.Repeat(fmt.Sprintf("line %d of a text file\n", g.uniq), 100+g.rnd.Intn(300)))...)
		}
		files = append(files, registry.File{Name: fmt.Sprintf("f%d/%s", i, fileNames[g.rnd.Intn(len(fileNames))]), Data: data})
	}
	return registry.Tar(files, true), files
}

func (g *gen) bigBase() base {
	p, files := g.bigTar()
	comp := g.rnd.Pick(registry.Plain, registry.Gzip, registry.Zstd)
	w, v := g.compress(p, comp)
	return base{payload: p, files: files, comp: comp, variant: v, wire: w, tar: true}
}

func (g *gen) randomLayer() *layer {
	b := g.base()
	if g.rnd.Chance(1, 5) {
		return g.pristine(b)
	}
	return g.damaged(b)
}

// multi: the layers of one call; distinct blobs, one API.
func (g *gen) multi() []*layer {
	n := 2 + g.rnd.Intn(3)
	api := g.rnd.Pick("new", "new", "old")
	var ls []*layer
	for i := 0; i < n; i++ {
		b := g.tarBase()
		var l *layer
		if g.rnd.Chance(3, 4) {
			l = g.pristine(b)
		} else {
			l = g.damaged(b)
		}
		if l.api != api {
			l.api = api
			if api == "old" && l.damage == "mediatype" {
				// the deprecated entry point has no media type to get wrong
				l.damage = "none-by-api"
				l.mediaType = tarMediaTypes[0]
			}
		}
		ls = append(ls, l)
	}
	return ls
}

var _ = hx.Hex
