package extract

// Snapshot for Gen/Cvss (see rxsnapshot.go for the idea): the ORDER in which the
// evaluated tables of updater/osv fromCVSS3 / fromCVSS2 were printed when the
// theorems were written — metric names in the order of the metric switch, the
// values of every metric in the order of its value switch, and the ignored
// names.  No weights, no slots, nothing that decides a fact: every listed
// (metric, value) is evaluated on every run and printed with the slot and weight
// the code gives it now (or dropped if the code rejects it); every other
// accepted candidate is appended.
type rxOsvMetricSnap struct {
	name   string
	values []string
}

type rxOsvCvssSnap struct {
	metrics []rxOsvMetricSnap
	ignored []string
}

var rxSnapOsvCvss = map[string]rxOsvCvssSnap{
	"3": {
		metrics: []rxOsvMetricSnap{
			{"AV", []string{"N", "A", "L", "P"}},
			{"AC", []string{"L", "H"}},
			{"PR", []string{"N", "L", "H"}},
			{"UI", []string{"N", "R"}},
			{"S", []string{"U", "C"}},
			{"C", []string{"H", "L", "N"}},
			{"I", []string{"H", "L", "N"}},
			{"A", []string{"H", "L", "N"}},
		},
		ignored: []string{"E", "RL", "RC", "CR", "IR", "AR", "MAV", "MAC", "MPR", "MUI", "MS", "MC", "MI", "MA"},
	},
	"2": {
		metrics: []rxOsvMetricSnap{
			{"AV", []string{"N", "A", "L"}},
			{"AC", []string{"L", "M", "H"}},
			{"Au", []string{"M", "S", "N"}},
			{"C", []string{"C", "P", "N"}},
			{"I", []string{"C", "P", "N"}},
			{"A", []string{"C", "P", "N"}},
		},
		ignored: []string{"E", "RL", "RC", "CDP", "TD", "CR", "IR", "AR"},
	},
}
