package extract

import (
	"fmt"
	"go/ast"
	"go/token"
	"strconv"
	"strings"
)

// Fetch: the table-like parts of the layer fetcher (property C09).
//
//	internal/zreader/zreader.go  Compression constants, detector array, magic headers
//	libindex/fetcher.go          accepted status, content-type fix-up set and table,
//	                             the content-type -> compression switch (fallthrough resolved)
//	layer.go                     media types Layer.Init accepts, by how the FS is built
//	digest.go                    algorithm -> checksum size switch of setChecksum
//
// Anything not of the expected shape is an error: Gen/Fetch.lean is then not
// written and every obligation of C09 stops checking.
func init() {
	Register(Gen{Name: "Fetch", Run: genFetch})
}

func genFetch(repo string) (string, error) {
	out := Header("Fetch", "internal/zreader/zreader.go", "libindex/fetcher.go", "layer.go", "digest.go")

	// ---- zreader
	_, zf, err := ParseFile(repo, "internal/zreader/zreader.go")
	if err != nil {
		return "", err
	}
	kinds, err := fxIotaNames(zf, "Compression")
	if err != nil {
		return "", err
	}
	out += "/-- zreader.Compression constants in iota order. -/\n"
	out += "def kindNames : List String := " + LeanStrList(kinds) + "\n\n"
	hdrs := map[string][]int64{}
	for _, n := range []string{"gzipHeader", "zstdHeader", "bzipHeader"} {
		b, err := fxByteSliceVar(zf, n)
		if err != nil {
			return "", err
		}
		hdrs[n] = b
	}
	dets, err := fxDetectorArray(zf, hdrs)
	if err != nil {
		return "", err
	}
	if len(dets) >= len(kinds) {
		return "", fmt.Errorf("zreader: %d detectors for %d compression kinds", len(dets), len(kinds))
	}
	out += "/-- zreader.detectors in array order; the detector at index i reports `Compression(i)`.\n" +
		"    (kind, magic bytes, mask length, optional inclusive range for the byte after the magic) -/\n"
	out += "def detectors : List (String × List Nat × Nat × Option (Nat × Nat)) := [\n"
	maxSz := 0
	for i, d := range dets {
		rng := "none"
		if d.hasRange {
			rng = fmt.Sprintf("some (%d, %d)", d.lo, d.hi)
		}
		sep := ","
		if i == len(dets)-1 {
			sep = ""
		}
		out += fmt.Sprintf("  (%s, %s, %d, %s)%s\n", LeanString(kinds[i]), LeanNatList(d.header), d.maskLen, rng, sep)
		if d.maskLen > maxSz {
			maxSz = d.maskLen
		}
	}
	out += "]\n"
	out += fmt.Sprintf("/-- zreader.maxSz as computed by the package's init. -/\ndef maxSz : Nat := %d\n", maxSz)
	// the kind reported when no detector fires
	out += "def defaultKind : String := " + LeanString("KindNone") + "\n\n"
	if !fxContains(kinds, "KindNone") {
		return "", fmt.Errorf("zreader: no KindNone constant")
	}

	// ---- fetcher
	_, ff, err := ParseFile(repo, "libindex/fetcher.go")
	if err != nil {
		return "", err
	}
	fd := FuncDecl(ff, "RemoteFetchArena", "fetchUnlinkedFile")
	if fd == nil {
		return "", fmt.Errorf("fetcher: fetchUnlinkedFile not found")
	}
	status, err := fxAcceptedStatus(fd)
	if err != nil {
		return "", err
	}
	out += "/-- Status codes passed to httputil.CheckResponse. -/\n"
	out += "def acceptStatus : List Nat := " + LeanNatList(status) + "\n\n"
	fixTypes, fixTable, err := fxFixup(fd)
	if err != nil {
		return "", err
	}
	out += "/-- Content types the fetcher replaces by one derived from the sniffed compression. -/\n"
	out += "def fixupTypes : List String := " + LeanStrList(fixTypes) + "\n"
	out += "/-- sniffed kind -> replacement content type (kinds not listed: error). -/\n"
	out += "def fixupTable : List (String × String) := " + fxLeanPairs(fixTable) + "\n\n"
	cases, err := fxCtSwitch(fd)
	if err != nil {
		return "", err
	}
	out += "/-- The content-type switch in source order, fallthrough resolved:\n    (true = strings.HasSuffix / false = equality, literal, expected kind). No match: error. -/\n"
	out += "def ctCases : List (Bool × String × String) := [\n"
	for i, c := range cases {
		sep := ","
		if i == len(cases)-1 {
			sep = ""
		}
		out += fmt.Sprintf("  (%v, %s, %s)%s\n", c.suffix, LeanString(c.lit), LeanString(c.kind), sep)
	}
	out += "]\n\n"
	for _, c := range cases {
		if !fxContains(kinds, c.kind) {
			return "", fmt.Errorf("fetcher: content-type switch names unknown kind %s", c.kind)
		}
	}
	for _, p := range fixTable {
		if !fxContains(kinds, p[0]) {
			return "", fmt.Errorf("fetcher: fix-up switch names unknown kind %s", p[0])
		}
	}

	// ---- layer.go
	_, lf, err := ParseFile(repo, "layer.go")
	if err != nil {
		return "", err
	}
	tarMT, dirMT, err := fxInitMediaTypes(lf)
	if err != nil {
		return "", err
	}
	out += "/-- Media types for which Layer.Init builds the FS with tarfs.New over the fetched file. -/\n"
	out += "def tarMediaTypes : List String := " + LeanStrList(tarMT) + "\n"
	out += "/-- Media types for which Layer.Init uses os.DirFS(desc.URI) and drops the reader. -/\n"
	out += "def dirMediaTypes : List String := " + LeanStrList(dirMT) + "\n\n"

	// ---- wart: media type the deprecated Realize assigns
	_, wf, err := ParseFile(repo, "internal/wart/layerdescription.go")
	if err != nil {
		return "", err
	}
	wmt, err := fxWartMediaType(wf)
	if err != nil {
		return "", err
	}
	out += "/-- Media type wart.LayersToDescriptions gives every layer (deprecated Realize). -/\n"
	out += "def legacyMediaType : String := " + LeanString(wmt) + "\n\n"

	// ---- digest.go
	_, df, err := ParseFile(repo, "digest.go")
	if err != nil {
		return "", err
	}
	algos, err := fxDigestAlgos(df)
	if err != nil {
		return "", err
	}
	out += "/-- setChecksum: algorithm name -> checksum size in bytes (others: error). -/\n"
	out += "def digestAlgos : List (String × Nat) := ["
	for i, a := range algos {
		if i > 0 {
			out += ", "
		}
		out += fmt.Sprintf("(%s, %d)", LeanString(a.name), a.size)
	}
	out += "]\n"
	return out + Footer("Fetch"), nil
}

func fxContains(xs []string, x string) bool {
	for _, y := range xs {
		if y == x {
			return true
		}
	}
	return false
}

func fxLeanPairs(ps [][2]string) string {
	q := make([]string, len(ps))
	for i, p := range ps {
		q[i] = "(" + LeanString(p[0]) + ", " + LeanString(p[1]) + ")"
	}
	return "[" + strings.Join(q, ", ") + "]"
}

// fxIotaNames returns the names of the const block whose first spec has the
// given type and the value iota.
func fxIotaNames(f *ast.File, typ string) ([]string, error) {
	for _, d := range f.Decls {
		gd, ok := d.(*ast.GenDecl)
		if !ok || gd.Tok != token.CONST || len(gd.Specs) == 0 {
			continue
		}
		first, ok := gd.Specs[0].(*ast.ValueSpec)
		if !ok {
			continue
		}
		id, ok := first.Type.(*ast.Ident)
		if !ok || id.Name != typ || len(first.Values) != 1 {
			continue
		}
		if v, ok := first.Values[0].(*ast.Ident); !ok || v.Name != "iota" {
			return nil, fmt.Errorf("%s constants do not start at iota", typ)
		}
		var names []string
		for i, s := range gd.Specs {
			vs := s.(*ast.ValueSpec)
			if len(vs.Names) != 1 || (i > 0 && (vs.Type != nil || len(vs.Values) != 0)) {
				return nil, fmt.Errorf("%s constants are not a plain iota sequence", typ)
			}
			names = append(names, vs.Names[0].Name)
		}
		return names, nil
	}
	return nil, fmt.Errorf("const block of type %s not found", typ)
}

func fxTopLevelValue(f *ast.File, name string) ast.Expr {
	for _, d := range f.Decls {
		gd, ok := d.(*ast.GenDecl)
		if !ok {
			continue
		}
		for _, s := range gd.Specs {
			vs, ok := s.(*ast.ValueSpec)
			if !ok {
				continue
			}
			for i, n := range vs.Names {
				if n.Name == name && i < len(vs.Values) {
					return vs.Values[i]
				}
			}
		}
	}
	return nil
}

func fxByteLit(e ast.Expr) (int64, error) {
	if bl, ok := e.(*ast.BasicLit); ok && bl.Kind == token.CHAR {
		r, _, _, err := strconv.UnquoteChar(bl.Value[1:len(bl.Value)-1], '\'')
		if err != nil || r > 255 {
			return 0, fmt.Errorf("bad byte literal %s", bl.Value)
		}
		return int64(r), nil
	}
	v, err := IntLit(e)
	if err != nil || v < 0 || v > 255 {
		return 0, fmt.Errorf("not a byte literal")
	}
	return v, nil
}

// fxByteSliceVar reads `name = []byte{...}`.
func fxByteSliceVar(f *ast.File, name string) ([]int64, error) {
	v := fxTopLevelValue(f, name)
	cl, ok := v.(*ast.CompositeLit)
	if !ok {
		return nil, fmt.Errorf("zreader: %s is not a []byte literal", name)
	}
	var out []int64
	for _, e := range cl.Elts {
		b, err := fxByteLit(e)
		if err != nil {
			return nil, fmt.Errorf("zreader: %s: %w", name, err)
		}
		out = append(out, b)
	}
	if len(out) == 0 {
		return nil, fmt.Errorf("zreader: %s is empty", name)
	}
	return out, nil
}

type fxDetectorFact struct {
	header   []int64
	maskLen  int
	hasRange bool
	lo, hi   int64
}

// fxDetectorArray reads `var detectors = [...]detector{ staticHeader(x), ..., {Mask: bytes.Repeat([]byte{0xFF}, n), Check: func...} }`.
func fxDetectorArray(f *ast.File, hdrs map[string][]int64) ([]fxDetectorFact, error) {
	cl, ok := fxTopLevelValue(f, "detectors").(*ast.CompositeLit)
	if !ok {
		return nil, fmt.Errorf("zreader: detectors is not a composite literal")
	}
	// staticHeader must still be "mask of 0xFF as long as the header, bytes.Equal".
	sh := FuncDecl(f, "", "staticHeader")
	if sh == nil {
		return nil, fmt.Errorf("zreader: staticHeader not found")
	}
	okMask, okEq := false, false
	ast.Inspect(sh, func(n ast.Node) bool {
		if c, ok := n.(*ast.CallExpr); ok {
			if fxIsSel(c.Fun, "bytes", "Repeat") && len(c.Args) == 2 && fxIsFFSlice(c.Args[0]) && fxIsLenOf(c.Args[1], "h") {
				okMask = true
			}
			if fxIsSel(c.Fun, "bytes", "Equal") && len(c.Args) == 2 {
				okEq = true
			}
		}
		return true
	})
	if !okMask || !okEq {
		return nil, fmt.Errorf("zreader: staticHeader no longer has the recognised shape")
	}
	var out []fxDetectorFact
	for _, e := range cl.Elts {
		switch x := e.(type) {
		case *ast.CallExpr:
			id, ok := x.Fun.(*ast.Ident)
			if !ok || id.Name != "staticHeader" || len(x.Args) != 1 {
				return nil, fmt.Errorf("zreader: unrecognised detector constructor")
			}
			arg, ok := x.Args[0].(*ast.Ident)
			if !ok || hdrs[arg.Name] == nil {
				return nil, fmt.Errorf("zreader: staticHeader argument is not a known header")
			}
			out = append(out, fxDetectorFact{header: hdrs[arg.Name], maskLen: len(hdrs[arg.Name])})
		case *ast.CompositeLit:
			d := fxDetectorFact{}
			for _, el := range x.Elts {
				kv, ok := el.(*ast.KeyValueExpr)
				if !ok {
					return nil, fmt.Errorf("zreader: detector literal without keys")
				}
				switch kv.Key.(*ast.Ident).Name {
				case "Mask":
					c, ok := kv.Value.(*ast.CallExpr)
					if !ok || !fxIsSel(c.Fun, "bytes", "Repeat") || len(c.Args) != 2 || !fxIsFFSlice(c.Args[0]) {
						return nil, fmt.Errorf("zreader: detector mask is not bytes.Repeat([]byte{0xFF}, n)")
					}
					n, err := IntLit(c.Args[1])
					if err != nil {
						return nil, fmt.Errorf("zreader: detector mask length: %w", err)
					}
					d.maskLen = int(n)
				case "Check":
					fl, ok := kv.Value.(*ast.FuncLit)
					if !ok {
						return nil, fmt.Errorf("zreader: detector Check is not a function literal")
					}
					// bytes.Equal(<hdr>, b[:l]) && (b[l] >= 'x' && b[l] <= 'y'), l := len(<hdr>)
					var hdr string
					var lo, hi int64 = -1, -1
					nret := 0
					ast.Inspect(fl, func(n ast.Node) bool {
						switch y := n.(type) {
						case *ast.ReturnStmt:
							nret++
						case *ast.CallExpr:
							if fxIsSel(y.Fun, "bytes", "Equal") && len(y.Args) == 2 {
								if id, ok := y.Args[0].(*ast.Ident); ok {
									hdr = id.Name
								}
							}
						case *ast.BinaryExpr:
							if y.Op == token.GEQ {
								if v, err := fxByteLit(y.Y); err == nil {
									lo = v
								}
							}
							if y.Op == token.LEQ {
								if v, err := fxByteLit(y.Y); err == nil {
									hi = v
								}
							}
							if y.Op == token.LOR || y.Op == token.NEQ || y.Op == token.LSS || y.Op == token.GTR {
								nret += 100 // a shape this reader does not understand
							}
						}
						return true
					})
					if hdrs[hdr] == nil || lo < 0 || hi < 0 || nret != 1 {
						return nil, fmt.Errorf("zreader: detector Check no longer has the recognised shape")
					}
					d.header, d.hasRange, d.lo, d.hi = hdrs[hdr], true, lo, hi
				default:
					return nil, fmt.Errorf("zreader: unknown detector field")
				}
			}
			if d.header == nil || d.maskLen != len(d.header)+1 {
				return nil, fmt.Errorf("zreader: custom detector: mask length %d does not cover header+1", d.maskLen)
			}
			out = append(out, d)
		default:
			return nil, fmt.Errorf("zreader: unrecognised detector element")
		}
	}
	return out, nil
}

func fxIsSel(e ast.Expr, pkg, name string) bool {
	s, ok := e.(*ast.SelectorExpr)
	if !ok || s.Sel.Name != name {
		return false
	}
	id, ok := s.X.(*ast.Ident)
	return ok && id.Name == pkg
}

func fxIsFFSlice(e ast.Expr) bool {
	cl, ok := e.(*ast.CompositeLit)
	if !ok || len(cl.Elts) != 1 {
		return false
	}
	v, err := IntLit(cl.Elts[0])
	return err == nil && v == 0xFF
}

func fxIsLenOf(e ast.Expr, name string) bool {
	c, ok := e.(*ast.CallExpr)
	if !ok || len(c.Args) != 1 {
		return false
	}
	f, ok := c.Fun.(*ast.Ident)
	a, ok2 := c.Args[0].(*ast.Ident)
	return ok && ok2 && f.Name == "len" && a.Name == name
}

var fxHttpStatus = map[string]int64{"StatusOK": 200, "StatusCreated": 201, "StatusAccepted": 202, "StatusNoContent": 204,
	"StatusPartialContent": 206, "StatusNotModified": 304}

func fxAcceptedStatus(fd *ast.FuncDecl) ([]int64, error) {
	var out []int64
	var bad error
	n := 0
	ast.Inspect(fd, func(nd ast.Node) bool {
		c, ok := nd.(*ast.CallExpr)
		if !ok || !fxIsSel(c.Fun, "httputil", "CheckResponse") {
			return true
		}
		n++
		for _, a := range c.Args[1:] {
			if s, ok := a.(*ast.SelectorExpr); ok {
				if v, ok := fxHttpStatus[s.Sel.Name]; ok && fxIsSel(a, "http", s.Sel.Name) {
					out = append(out, v)
					continue
				}
			}
			if v, err := IntLit(a); err == nil {
				out = append(out, v)
				continue
			}
			bad = fmt.Errorf("fetcher: unrecognised status argument to CheckResponse")
		}
		return true
	})
	if bad != nil {
		return nil, bad
	}
	if n != 1 || len(out) == 0 {
		return nil, fmt.Errorf("fetcher: expected exactly one httputil.CheckResponse call with status codes")
	}
	return out, nil
}

func fxStrLit(e ast.Expr) (string, bool) {
	bl, ok := e.(*ast.BasicLit)
	if !ok || bl.Kind != token.STRING {
		return "", false
	}
	s, err := strconv.Unquote(bl.Value)
	return s, err == nil
}

// fxOrAtoms flattens a || b || c.
func fxOrAtoms(e ast.Expr) []ast.Expr {
	if p, ok := e.(*ast.ParenExpr); ok {
		return fxOrAtoms(p.X)
	}
	if b, ok := e.(*ast.BinaryExpr); ok && b.Op == token.LOR {
		return append(fxOrAtoms(b.X), fxOrAtoms(b.Y)...)
	}
	return []ast.Expr{e}
}

// fxCtEq recognises `ct == "lit"`.
func fxCtEq(e ast.Expr) (string, bool) {
	b, ok := e.(*ast.BinaryExpr)
	if !ok || b.Op != token.EQL {
		return "", false
	}
	id, ok := b.X.(*ast.Ident)
	if !ok || id.Name != "ct" {
		return "", false
	}
	return fxStrLit(b.Y)
}

// fxFixup finds `if ct == "" || ... { switch kind { case zreader.KindX: ct = "lit" ... default: return } }`.
func fxFixup(fd *ast.FuncDecl) ([]string, [][2]string, error) {
	var types []string
	var table [][2]string
	found := 0
	var bad error
	ast.Inspect(fd.Body, func(n ast.Node) bool {
		is, ok := n.(*ast.IfStmt)
		if !ok || is.Init != nil {
			return true
		}
		atoms := fxOrAtoms(is.Cond)
		var lits []string
		for _, a := range atoms {
			l, ok := fxCtEq(a)
			if !ok {
				return true
			}
			lits = append(lits, l)
		}
		// the body must hold the switch on kind
		var sw *ast.SwitchStmt
		for _, st := range is.Body.List {
			if s, ok := st.(*ast.SwitchStmt); ok {
				if id, ok := s.Tag.(*ast.Ident); ok && id.Name == "kind" {
					sw = s
				}
			}
		}
		if sw == nil {
			return true
		}
		found++
		types = lits
		hasDefault := false
		for _, st := range sw.Body.List {
			cc := st.(*ast.CaseClause)
			if cc.List == nil {
				hasDefault = true
				if len(cc.Body) != 1 {
					bad = fmt.Errorf("fetcher: fix-up default is not a single return")
				} else if _, ok := cc.Body[0].(*ast.ReturnStmt); !ok {
					bad = fmt.Errorf("fetcher: fix-up default is not a return")
				}
				continue
			}
			if len(cc.Body) != 1 {
				bad = fmt.Errorf("fetcher: fix-up case body is not a single assignment")
				continue
			}
			as, ok := cc.Body[0].(*ast.AssignStmt)
			if !ok || len(as.Lhs) != 1 || len(as.Rhs) != 1 || as.Tok != token.ASSIGN {
				bad = fmt.Errorf("fetcher: fix-up case body is not an assignment")
				continue
			}
			lhs, ok := as.Lhs[0].(*ast.Ident)
			val, ok2 := fxStrLit(as.Rhs[0])
			if !ok || !ok2 || lhs.Name != "ct" {
				bad = fmt.Errorf("fetcher: fix-up case does not assign a literal to ct")
				continue
			}
			for _, e := range cc.List {
				s, ok := e.(*ast.SelectorExpr)
				if !ok || !fxIsSel(e, "zreader", s.Sel.Name) {
					bad = fmt.Errorf("fetcher: fix-up case is not a zreader kind")
					continue
				}
				table = append(table, [2]string{s.Sel.Name, val})
			}
		}
		if !hasDefault {
			bad = fmt.Errorf("fetcher: fix-up switch has no default")
		}
		return true
	})
	if bad != nil {
		return nil, nil, bad
	}
	if found != 1 {
		return nil, nil, fmt.Errorf("fetcher: content-type fix-up block found %d times", found)
	}
	return types, table, nil
}

type fxCtCase struct {
	suffix bool
	lit    string
	kind   string
}

// fxCtSwitch finds the tagless switch that assigns wantZ.
func fxCtSwitch(fd *ast.FuncDecl) ([]fxCtCase, error) {
	var sw *ast.SwitchStmt
	n := 0
	ast.Inspect(fd.Body, func(nd ast.Node) bool {
		s, ok := nd.(*ast.SwitchStmt)
		if !ok || s.Tag != nil || s.Init != nil {
			return true
		}
		assigns := false
		ast.Inspect(s, func(m ast.Node) bool {
			if as, ok := m.(*ast.AssignStmt); ok && len(as.Lhs) == 1 {
				if id, ok := as.Lhs[0].(*ast.Ident); ok && id.Name == "wantZ" {
					assigns = true
				}
			}
			return true
		})
		if assigns {
			sw = s
			n++
		}
		return true
	})
	if n != 1 {
		return nil, fmt.Errorf("fetcher: content-type switch found %d times", n)
	}
	type clause struct {
		atoms []fxCtCase
		kind  string // "" = fallthrough
	}
	var cls []clause
	hasDefault := false
	for i, st := range sw.Body.List {
		cc := st.(*ast.CaseClause)
		if cc.List == nil {
			hasDefault = true
			if i != len(sw.Body.List)-1 {
				return nil, fmt.Errorf("fetcher: content-type switch default is not last")
			}
			if len(cc.Body) != 1 {
				return nil, fmt.Errorf("fetcher: content-type switch default is not a single return")
			}
			if _, ok := cc.Body[0].(*ast.ReturnStmt); !ok {
				return nil, fmt.Errorf("fetcher: content-type switch default is not a return")
			}
			continue
		}
		var c clause
		for _, e := range cc.List {
			for _, a := range fxOrAtoms(e) {
				if l, ok := fxCtEq(a); ok {
					c.atoms = append(c.atoms, fxCtCase{lit: l})
					continue
				}
				if call, ok := a.(*ast.CallExpr); ok && fxIsSel(call.Fun, "strings", "HasSuffix") && len(call.Args) == 2 {
					id, ok := call.Args[0].(*ast.Ident)
					l, ok2 := fxStrLit(call.Args[1])
					if ok && ok2 && id.Name == "ct" {
						c.atoms = append(c.atoms, fxCtCase{suffix: true, lit: l})
						continue
					}
				}
				return nil, fmt.Errorf("fetcher: unrecognised content-type case condition")
			}
		}
		if len(cc.Body) != 1 {
			return nil, fmt.Errorf("fetcher: content-type case body is not a single statement")
		}
		switch b := cc.Body[0].(type) {
		case *ast.BranchStmt:
			if b.Tok != token.FALLTHROUGH {
				return nil, fmt.Errorf("fetcher: unexpected branch in content-type switch")
			}
		case *ast.AssignStmt:
			s, ok := b.Rhs[0].(*ast.SelectorExpr)
			if !ok || !fxIsSel(b.Rhs[0], "zreader", s.Sel.Name) || b.Tok != token.ASSIGN {
				return nil, fmt.Errorf("fetcher: content-type case does not assign a zreader kind")
			}
			c.kind = s.Sel.Name
		default:
			return nil, fmt.Errorf("fetcher: unrecognised content-type case body")
		}
		cls = append(cls, c)
	}
	if !hasDefault {
		return nil, fmt.Errorf("fetcher: content-type switch has no default (unknown types would pass)")
	}
	var out []fxCtCase
	for i, c := range cls {
		k := c.kind
		for j := i; k == "" && j < len(cls); j++ {
			k = cls[j].kind
		}
		if k == "" {
			return nil, fmt.Errorf("fetcher: fallthrough chain does not end in an assignment")
		}
		for _, a := range c.atoms {
			a.kind = k
			out = append(out, a)
		}
	}
	return out, nil
}

// fxInitMediaTypes reads the switch on desc.MediaType in (*Layer).Init.
func fxInitMediaTypes(f *ast.File) (tarMT, dirMT []string, err error) {
	fd := FuncDecl(f, "Layer", "Init")
	if fd == nil {
		return nil, nil, fmt.Errorf("layer.go: Layer.Init not found")
	}
	n := 0
	ast.Inspect(fd.Body, func(nd ast.Node) bool {
		sw, ok := nd.(*ast.SwitchStmt)
		if !ok || !fxIsSel(sw.Tag, "desc", "MediaType") {
			return true
		}
		n++
		hasDefault := false
		for _, st := range sw.Body.List {
			cc := st.(*ast.CaseClause)
			if cc.List == nil {
				hasDefault = true
				if len(cc.Body) != 1 {
					err = fmt.Errorf("layer.go: media type default is not a single return")
				} else if _, ok := cc.Body[0].(*ast.ReturnStmt); !ok {
					err = fmt.Errorf("layer.go: media type default is not a return")
				}
				continue
			}
			var lits []string
			for _, e := range cc.List {
				l, ok := fxStrLit(e)
				if !ok {
					err = fmt.Errorf("layer.go: media type case is not a string literal")
				}
				lits = append(lits, l)
			}
			usesTar, usesDir := false, false
			for _, b := range cc.Body {
				ast.Inspect(b, func(m ast.Node) bool {
					if c, ok := m.(*ast.CallExpr); ok {
						if fxIsSel(c.Fun, "tarfs", "New") {
							usesTar = true
						}
						if fxIsSel(c.Fun, "os", "DirFS") {
							usesDir = true
						}
					}
					return true
				})
			}
			switch {
			case usesTar && !usesDir:
				tarMT = append(tarMT, lits...)
			case usesDir && !usesTar:
				dirMT = append(dirMT, lits...)
			default:
				err = fmt.Errorf("layer.go: media type case builds its FS in an unrecognised way")
			}
		}
		if !hasDefault {
			err = fmt.Errorf("layer.go: media type switch has no default")
		}
		return true
	})
	if err != nil {
		return nil, nil, err
	}
	if n != 1 {
		return nil, nil, fmt.Errorf("layer.go: switch on desc.MediaType found %d times", n)
	}
	return tarMT, dirMT, nil
}

func fxWartMediaType(f *ast.File) (string, error) {
	fd := FuncDecl(f, "", "LayersToDescriptions")
	if fd == nil {
		return "", fmt.Errorf("wart: LayersToDescriptions not found")
	}
	var out []string
	ast.Inspect(fd.Body, func(n ast.Node) bool {
		as, ok := n.(*ast.AssignStmt)
		if !ok || len(as.Lhs) != 1 || len(as.Rhs) != 1 {
			return true
		}
		if s, ok := as.Lhs[0].(*ast.SelectorExpr); ok && s.Sel.Name == "MediaType" {
			if l, ok := fxStrLit(as.Rhs[0]); ok {
				out = append(out, l)
			} else {
				out = append(out, "\x00")
			}
		}
		return true
	})
	if len(out) != 1 || out[0] == "\x00" {
		return "", fmt.Errorf("wart: LayersToDescriptions does not assign one literal MediaType")
	}
	return out[0], nil
}

type fxAlgoFact struct {
	name string
	size int64
}

var fxHashSizes = map[string]int64{"sha256.Size": 32, "sha512.Size": 64, "sha1.Size": 20, "md5.Size": 16, "sha512.Size384": 48, "sha256.Size224": 28}

// fxDigestAlgos reads the `switch d.algo` of (*Digest).setChecksum.
func fxDigestAlgos(f *ast.File) ([]fxAlgoFact, error) {
	fd := FuncDecl(f, "Digest", "setChecksum")
	if fd == nil {
		return nil, fmt.Errorf("digest.go: setChecksum not found")
	}
	var out []fxAlgoFact
	var err error
	n := 0
	ast.Inspect(fd.Body, func(nd ast.Node) bool {
		sw, ok := nd.(*ast.SwitchStmt)
		if !ok || !fxIsSel(sw.Tag, "d", "algo") {
			return true
		}
		n++
		hasDefault := false
		for _, st := range sw.Body.List {
			cc := st.(*ast.CaseClause)
			if cc.List == nil {
				hasDefault = true
				if len(cc.Body) != 1 {
					err = fmt.Errorf("digest.go: default of the algorithm switch is not a single return")
				} else if _, ok := cc.Body[0].(*ast.ReturnStmt); !ok {
					err = fmt.Errorf("digest.go: default of the algorithm switch is not a return")
				}
				continue
			}
			if len(cc.Body) != 1 {
				err = fmt.Errorf("digest.go: algorithm case is not a single assignment")
				continue
			}
			as, ok := cc.Body[0].(*ast.AssignStmt)
			if !ok || len(as.Rhs) != 1 {
				err = fmt.Errorf("digest.go: algorithm case is not an assignment")
				continue
			}
			var size int64 = -1
			if s, ok := as.Rhs[0].(*ast.SelectorExpr); ok {
				if id, ok := s.X.(*ast.Ident); ok {
					if v, ok := fxHashSizes[id.Name+"."+s.Sel.Name]; ok {
						size = v
					}
				}
			} else if v, e := IntLit(as.Rhs[0]); e == nil {
				size = v
			}
			if size < 0 {
				err = fmt.Errorf("digest.go: unrecognised checksum size expression")
				continue
			}
			for _, e := range cc.List {
				l, ok := fxStrLit(e)
				if !ok {
					err = fmt.Errorf("digest.go: algorithm case is not a string literal")
					continue
				}
				out = append(out, fxAlgoFact{l, size})
			}
		}
		if !hasDefault {
			err = fmt.Errorf("digest.go: algorithm switch has no default")
		}
		return true
	})
	if err != nil {
		return nil, err
	}
	if n != 1 || len(out) == 0 {
		return nil, fmt.Errorf("digest.go: switch on d.algo found %d times", n)
	}
	return out, nil
}
