package extract

import (
	"encoding/hex"
	"fmt"
	"go/ast"
	"go/constant"
	"regexp"
	"sort"
	"strings"
)

// Fetch: the table-like parts of the layer fetcher (property C09).
//
//	internal/zreader   Compression constants (names: read from the package), the detectors
//	libindex           accepted status, content-type fix-up set and table, content type -> compression
//	claircore          media types Layer.Init accepts, by how the FS is built; checksum sizes of NewDigest
//	internal/wart      the media type of the deprecated Realize
//
// Everything except the constant names is EVALUATED (design/EXTRACT.md) by the
// probe go/cmd/rxprobe/fetch, which runs the real code: detectCompression on
// byte strings built from the package's byte-slice literals; one
// RealizeDescriptions call per (status, content type, payload compression)
// against a scripted in-process registry; Layer.Init per media type;
// claircore.NewDigest per (algorithm, length).  The candidate content types /
// media types / algorithms are the string literals of the packages, the
// snapshot's entries, near misses of both and fresh probes.  Where the old
// generated text had a source order, the snapshot's order is used when the
// evaluated SET is the snapshot's, a canonical (sorted) order otherwise.
func init() {
	Register(Gen{Name: "Fetch", Run: genFetch})
}

type rxFetchAns struct {
	Detect []int
	Fetch  []string
	Init   []string
	Legacy string
	Digest [][]int
}

type rxFetchOp struct {
	CT      string `json:"ct"`
	Payload string `json:"payload"`
	Status  int    `json:"status,omitempty"`
}

var rxPayloads = []string{"gzip", "zstd", "plain", "bzip2"}

// payload name -> zreader constant name
var rxPayloadKind = map[string]string{"gzip": "KindGzip", "zstd": "KindZstd", "plain": "KindNone", "bzip2": "KindBzip2"}

func genFetch(repo string) (string, error) {
	out := Header("Fetch", "internal/zreader/zreader.go", "libindex/fetcher.go", "layer.go", "digest.go")

	// ---- zreader
	zp, err := rxLoadPkg(repo, "internal/zreader")
	if err != nil {
		return "", err
	}
	kinds, err := zp.IotaSeq("Compression")
	if err != nil {
		return "", err
	}
	out += "/-- zreader.Compression constants in iota order. -/\n"
	out += "def kindNames : List String := " + LeanStrList(kinds) + "\n\n"
	dets, deflt, err := rxDetectors(repo, zp, kinds)
	if err != nil {
		return "", fmt.Errorf("zreader: %w", err)
	}
	if len(dets) >= len(kinds) {
		return "", fmt.Errorf("zreader: %d detectors for %d compression kinds", len(dets), len(kinds))
	}
	out += "/-- zreader.detectors in array order; the detector at index i reports `Compression(i)`.\n" +
		"    (kind, magic bytes, mask length, optional inclusive range for the byte after the magic) -/\n"
	out += "def detectors : List (String × List Nat × Nat × Option (Nat × Nat)) := [\n"
	maxSz := 0
	for i, d := range dets {
		rng := "none"
		if d.hasRange {
			rng = fmt.Sprintf("some (%d, %d)", d.lo, d.hi)
		}
		sep := ","
		if i == len(dets)-1 {
			sep = ""
		}
		out += fmt.Sprintf("  (%s, %s, %d, %s)%s\n", LeanString(d.kind), LeanNatList(d.header), d.maskLen, rng, sep)
		if d.maskLen > maxSz {
			maxSz = d.maskLen
		}
	}
	out += "]\n"
	out += fmt.Sprintf("/-- zreader.maxSz as computed by the package's init. -/\ndef maxSz : Nat := %d\n", maxSz)
	// the kind reported when no detector fires
	out += "def defaultKind : String := " + LeanString(deflt) + "\n\n"
	if !fxContains(kinds, "KindNone") {
		return "", fmt.Errorf("zreader: no KindNone constant")
	}

	// ---- fetcher
	status, fixTypes, fixTable, cases, err := rxFetchTables(repo, kinds)
	if err != nil {
		return "", fmt.Errorf("fetcher: %w", err)
	}
	out += "/-- Status codes passed to httputil.CheckResponse. -/\n"
	out += "def acceptStatus : List Nat := " + LeanNatList(status) + "\n\n"
	out += "/-- Content types the fetcher replaces by one derived from the sniffed compression. -/\n"
	out += "def fixupTypes : List String := " + LeanStrList(fixTypes) + "\n"
	out += "/-- sniffed kind -> replacement content type (kinds not listed: error). -/\n"
	out += "def fixupTable : List (String × String) := " + fxLeanPairs(fixTable) + "\n\n"
	out += "/-- The content-type switch in source order, fallthrough resolved:\n    (true = strings.HasSuffix / false = equality, literal, expected kind). No match: error. -/\n"
	out += "def ctCases : List (Bool × String × String) := [\n"
	for i, c := range cases {
		sep := ","
		if i == len(cases)-1 {
			sep = ""
		}
		out += fmt.Sprintf("  (%v, %s, %s)%s\n", c.suffix, LeanString(c.lit), LeanString(c.kind), sep)
	}
	out += "]\n\n"
	for _, c := range cases {
		if !fxContains(kinds, c.kind) {
			return "", fmt.Errorf("fetcher: content-type table names unknown kind %s", c.kind)
		}
	}
	for _, p := range fixTable {
		if !fxContains(kinds, p[0]) {
			return "", fmt.Errorf("fetcher: fix-up table names unknown kind %s", p[0])
		}
	}

	// ---- Layer.Init, wart, NewDigest
	tarMT, dirMT, legacyMT, algos, err := rxLayerTables(repo)
	if err != nil {
		return "", err
	}
	out += "/-- Media types for which Layer.Init builds the FS with tarfs.New over the fetched file. -/\n"
	out += "def tarMediaTypes : List String := " + LeanStrList(tarMT) + "\n"
	out += "/-- Media types for which Layer.Init uses os.DirFS(desc.URI) and drops the reader. -/\n"
	out += "def dirMediaTypes : List String := " + LeanStrList(dirMT) + "\n\n"
	out += "/-- Media type wart.LayersToDescriptions gives every layer (deprecated Realize). -/\n"
	out += "def legacyMediaType : String := " + LeanString(legacyMT) + "\n\n"
	out += "/-- setChecksum: algorithm name -> checksum size in bytes (others: error). -/\n"
	out += "def digestAlgos : List (String × Nat) := ["
	for i, a := range algos {
		if i > 0 {
			out += ", "
		}
		out += fmt.Sprintf("(%s, %d)", LeanString(a.name), a.size)
	}
	out += "]\n"
	return out + Footer("Fetch"), nil
}

func fxContains(xs []string, x string) bool {
	for _, y := range xs {
		if y == x {
			return true
		}
	}
	return false
}

func fxLeanPairs(ps [][2]string) string {
	q := make([]string, len(ps))
	for i, p := range ps {
		q[i] = "(" + LeanString(p[0]) + ", " + LeanString(p[1]) + ")"
	}
	return "[" + strings.Join(q, ", ") + "]"
}

// ---------------------------------------------------------------- detectors

type rxDetector struct {
	kind     string
	header   []int64
	maskLen  int
	hasRange bool
	lo, hi   int64
}

// rxByteLits: the byte strings written in a package: []byte{...} composite
// literals of constant bytes and []byte("constant") conversions.
func rxByteLits(p *rxPkg) [][]byte {
	var out [][]byte
	for _, f := range p.files {
		sc := p.Scope(f)
		ast.Inspect(f, func(n ast.Node) bool {
			switch x := n.(type) {
			case *ast.CompositeLit:
				at, ok := x.Type.(*ast.ArrayType)
				if !ok {
					return true
				}
				if id, ok := at.Elt.(*ast.Ident); !ok || (id.Name != "byte" && id.Name != "uint8") {
					return true
				}
				var b []byte
				for _, e := range x.Elts {
					if kv, ok := e.(*ast.KeyValueExpr); ok {
						e = kv.Value
					}
					v, ok := sc.Int(e)
					if !ok || v < 0 || v > 255 {
						return true
					}
					b = append(b, byte(v))
				}
				if len(b) > 0 {
					out = append(out, b)
				}
			case *ast.CallExpr:
				if at, ok := x.Fun.(*ast.ArrayType); ok && len(x.Args) == 1 {
					if id, ok := at.Elt.(*ast.Ident); ok && id.Name == "byte" {
						if v, ok := sc.Const(x.Args[0]); ok && v.Kind() == constant.String {
							if s := constant.StringVal(v); s != "" {
								out = append(out, []byte(s))
							}
						}
					}
				}
			}
			return true
		})
	}
	return out
}

// rxDetectors infers, for every compression kind, the detector detectCompression
// implements: the magic (the longest candidate byte string after which some next
// byte makes the function report the kind), the set of next bytes it accepts
// (all: no range; an interval: that range), the shortest input that is
// recognised (the mask length), and checks that every bit of the magic matters
// and that nothing after the mask does.
func rxDetectors(repo string, zp *rxPkg, kinds []string) ([]rxDetector, string, error) {
	candSet := map[string]bool{}
	for _, b := range rxByteLits(zp) {
		if len(b) <= 16 {
			candSet[string(b)] = true
		}
	}
	for _, h := range rxSnapFetchMagics {
		b, _ := hex.DecodeString(h)
		candSet[string(b)] = true
	}
	var cands []string
	for c := range candSet {
		cands = append(cands, c)
	}
	sort.Strings(cands)
	zeros := strings.Repeat("\x00", 8)
	var inputs []string
	for _, c := range cands {
		for b := 0; b < 256; b++ {
			inputs = append(inputs, c+string([]byte{byte(b)})+zeros)
		}
	}
	inputs = append(inputs, "", zeros+zeros, strings.Repeat("\xff", 16), "rx probe: no magic")
	ask := func(in []string) ([]int, error) {
		hx := make([]string, len(in))
		for i, s := range in {
			hx[i] = hex.EncodeToString([]byte(s))
		}
		var ans rxFetchAns
		if err := rxProbe(repo, "fetch", map[string]any{"detect": hx}, &ans); err != nil {
			return nil, err
		}
		if len(ans.Detect) != len(in) {
			return nil, fmt.Errorf("fetch probe: %d answers for %d detect questions", len(ans.Detect), len(in))
		}
		return ans.Detect, nil
	}
	res, err := ask(inputs)
	if err != nil {
		return nil, "", err
	}
	n := len(cands) * 256
	deflt := res[n]
	for i := n; i < len(res); i++ {
		if res[i] != deflt {
			return nil, "", fmt.Errorf("no single default kind: inputs without a magic are reported as %d and %d", deflt, res[i])
		}
	}
	if deflt < 0 || deflt >= len(kinds) {
		return nil, "", fmt.Errorf("default kind %d has no constant", deflt)
	}
	type found struct {
		magic string
		next  []int
	}
	best := map[int]found{}
	for ci, c := range cands {
		byKind := map[int][]int{}
		for b := 0; b < 256; b++ {
			k := res[ci*256+b]
			if k != deflt {
				byKind[k] = append(byKind[k], b)
			}
		}
		for k, next := range byKind {
			if cur, ok := best[k]; !ok || len(c) > len(cur.magic) {
				best[k] = found{c, next}
			}
		}
	}
	var dets []rxDetector
	var round2 []string
	type chk struct {
		kind        int
		what        string
		wantKind    bool
		lenOfPrefix int
	}
	var checks []chk
	var order []int
	for k := range best {
		order = append(order, k)
	}
	sort.Ints(order)
	for _, k := range order {
		if k < 0 || k >= len(kinds) {
			return nil, "", fmt.Errorf("detectCompression reports %d, which is no Compression constant", k)
		}
		f := best[k]
		d := rxDetector{kind: kinds[k]}
		for _, b := range []byte(f.magic) {
			d.header = append(d.header, int64(b))
		}
		if len(f.next) != 256 {
			lo, hi := f.next[0], f.next[len(f.next)-1]
			if hi-lo+1 != len(f.next) {
				return nil, "", fmt.Errorf("%s: the bytes accepted after the magic %x are not one interval: %v", kinds[k], f.magic, f.next)
			}
			d.hasRange, d.lo, d.hi = true, int64(lo), int64(hi)
		}
		dets = append(dets, d)
		x := f.magic + string([]byte{byte(f.next[0])}) + zeros
		for l := 0; l <= len(x); l++ {
			round2 = append(round2, x[:l])
			checks = append(checks, chk{k, "prefix", true, l})
		}
		for bit := 0; bit < 8*len(f.magic); bit++ {
			y := []byte(x)
			y[bit/8] ^= 1 << (bit % 8)
			round2 = append(round2, string(y))
			checks = append(checks, chk{k, fmt.Sprintf("bit %d of the magic flipped", bit), false, 0})
		}
	}
	res2, err := ask(round2)
	if err != nil {
		return nil, "", err
	}
	for di := range dets {
		k := order[di]
		d := &dets[di]
		d.maskLen = -1
		full := len(d.header) + 1 + len(zeros)
		for i, c := range checks {
			if c.kind != k {
				continue
			}
			switch c.what {
			case "prefix":
				if res2[i] == k && d.maskLen < 0 {
					d.maskLen = c.lenOfPrefix
				}
				if d.maskLen >= 0 && res2[i] != k {
					return nil, "", fmt.Errorf("%s: an input of %d bytes is recognised but a longer one (%d) is not", d.kind, d.maskLen, c.lenOfPrefix)
				}
			default:
				if res2[i] == k {
					return nil, "", fmt.Errorf("%s: %s and the input is still recognised: the magic is not %x", d.kind, c.what, d.header)
				}
			}
		}
		if d.maskLen < 0 || d.maskLen > full {
			return nil, "", fmt.Errorf("%s: no input length is recognised", d.kind)
		}
		if d.maskLen < len(d.header) {
			return nil, "", fmt.Errorf("%s: recognised from %d bytes although the magic has %d", d.kind, d.maskLen, len(d.header))
		}
		if !d.hasRange && d.maskLen > len(d.header) {
			// every next byte is accepted but the byte must be there: still a mask over header+1 bytes
		}
		if d.hasRange && d.maskLen != len(d.header)+1 {
			return nil, "", fmt.Errorf("%s: a range for the byte after the magic but mask length %d for a %d byte magic", d.kind, d.maskLen, len(d.header))
		}
	}
	for i, d := range dets {
		if d.kind != kinds[i] {
			return nil, "", fmt.Errorf("kinds with a detector are not the first Compression constants (%s at position %d)", d.kind, i)
		}
	}
	return dets, kinds[deflt], nil
}

// ---------------------------------------------------------------- fetcher

type fxCtCase struct {
	suffix bool
	lit    string
	kind   string
}

var rxMediaLike = regexp.MustCompile(`^[A-Za-z0-9][A-Za-z0-9.+_-]*/[A-Za-z0-9.+_;= -]+$`)

const rxCtProbe = "application/vnd.rx-probe"

// rxFetchTables evaluates the fetcher (see the file comment).
func rxFetchTables(repo string, kinds []string) (status []int64, fixTypes []string, fixTable [][2]string, cases []fxCtCase, err error) {
	lp, err := rxLoadPkg(repo, "libindex")
	if err != nil {
		return nil, nil, nil, nil, err
	}
	// candidate exact content types and candidate suffixes
	exact := rxSet{}
	sufs := rxSet{}
	addType := func(t string) {
		if t == "" || len(t) > 120 {
			return
		}
		if rxMediaLike.MatchString(t) {
			exact.add(t)
		}
		if strings.HasPrefix(t, ".") || strings.HasPrefix(t, "+") {
			sufs.add(t)
		}
		for i := 1; i < len(t); i++ {
			if t[i] == '.' || t[i] == '+' {
				sufs.add(t[i:])
			}
		}
	}
	for _, l := range lp.StringLits() {
		if !strings.ContainsAny(l, "%\n\t ") || rxMediaLike.MatchString(l) {
			addType(l)
		}
	}
	for _, t := range rxSnapFetch.fixupTypes {
		addType(t)
	}
	for _, c := range rxSnapFetch.ctCases {
		addType(c.lit)
	}
	for _, t := range rxSnapFetch.tarMT {
		addType(t)
	}
	for _, p := range rxSnapFetch.fixupTable {
		addType(p[1])
	}
	// near misses of the exact types
	for _, t := range exact.sorted() {
		exact.add(rxASCIIUpper(t), t+"x", t+"; charset=utf-8", " "+t, t+" ")
		if i := strings.Index(t, "/"); i > 0 {
			exact.add(rxASCIIUpper(t[:i]) + t[i:])
		}
	}
	exact.add("text/plain", "binary/octet-stream", "application/octet-stream", "application/json", "rx-probe/none")
	var ops []rxFetchOp
	cts := append([]string{""}, exact.sorted()...)
	for _, ct := range cts {
		for _, p := range rxPayloads {
			ops = append(ops, rxFetchOp{CT: ct, Payload: p})
		}
	}
	sufList := sufs.sorted()
	for _, s := range sufList {
		for _, p := range rxPayloads {
			ops = append(ops, rxFetchOp{CT: rxCtProbe + s, Payload: p})
		}
	}
	statusCodes := []int{}
	for c := 200; c < 300; c++ {
		statusCodes = append(statusCodes, c)
	}
	statusCodes = append(statusCodes, 300, 301, 302, 304, 400, 401, 403, 404, 416, 429, 500, 503)
	for _, c := range statusCodes {
		ops = append(ops, rxFetchOp{CT: "application/gzip", Payload: "gzip", Status: c})
	}
	run := func(ops []rxFetchOp) ([]string, error) {
		var ans rxFetchAns
		if err := rxProbe(repo, "fetch", map[string]any{"fetch": ops}, &ans); err != nil {
			return nil, err
		}
		if len(ans.Fetch) != len(ops) {
			return nil, fmt.Errorf("fetch probe: %d answers for %d questions", len(ans.Fetch), len(ops))
		}
		for i, r := range ans.Fetch {
			if strings.HasPrefix(r, "panic") || strings.HasPrefix(r, "setup") || strings.HasPrefix(r, "accepted but") {
				return nil, fmt.Errorf("fetch of (%q, %s, status %d): %s", ops[i].CT, ops[i].Payload, ops[i].Status, r)
			}
		}
		return ans.Fetch, nil
	}
	res, err := run(ops)
	if err != nil {
		return nil, nil, nil, nil, err
	}
	acc := map[string][]string{} // content type -> payloads accepted
	i := 0
	for _, ct := range cts {
		for _, p := range rxPayloads {
			if res[i] == "" {
				acc[ct] = append(acc[ct], p)
			}
			i++
		}
	}
	for _, s := range sufList {
		for _, p := range rxPayloads {
			if res[i] == "" {
				acc[rxCtProbe+s] = append(acc[rxCtProbe+s], p)
			}
			i++
		}
	}
	for _, c := range statusCodes {
		if res[i] == "" {
			status = append(status, int64(c))
		}
		i++
	}
	// ---- suffix rules: shortest accepted suffix of every accepted probe type
	type rule struct {
		lit, kind string
	}
	var need []rxFetchOp
	var extraFix []string
	hits := map[string]string{} // suffix -> payload
	for _, s := range sufList {
		if a := acc[rxCtProbe+s]; len(a) == 1 {
			hits[s] = a[0]
			for j := 1; j < len(s); j++ {
				need = append(need, rxFetchOp{CT: rxCtProbe + s[j:], Payload: a[0]})
			}
			need = append(need, rxFetchOp{CT: rxCtProbe + s + "~", Payload: a[0]}, rxFetchOp{CT: rxCtProbe + rxASCIIUpper(s), Payload: a[0]})
		} else if len(a) > 1 {
			// an unknown type that is sniffed instead of refused: listed among the fix-up types below
			extraFix = append(extraFix, rxCtProbe+s)
		}
	}
	res2, err := run(need)
	if err != nil {
		return nil, nil, nil, nil, err
	}
	ok2 := map[string]bool{}
	for j, op := range need {
		if res2[j] == "" {
			ok2[op.CT+"\x00"+op.Payload] = true
		}
	}
	sufRules := map[string]string{} // minimal suffix -> payload
	var anomalies []fxCtCase
	for s, p := range hits {
		min := s
		for j := 1; j < len(s); j++ {
			if ok2[rxCtProbe+s[j:]+"\x00"+p] {
				min = s[j:]
			}
		}
		if cur, dup := sufRules[min]; dup && cur != p {
			return nil, nil, nil, nil, fmt.Errorf("suffix %q is accepted with payload %s and %s", min, cur, p)
		}
		sufRules[min] = p
		if ok2[rxCtProbe+s+"~"+"\x00"+p] {
			anomalies = append(anomalies, fxCtCase{true, "contains:" + s, rxPayloadKind[p]})
		}
		if ok2[rxCtProbe+rxASCIIUpper(s)+"\x00"+p] && rxASCIIUpper(s) != s {
			anomalies = append(anomalies, fxCtCase{true, "case-insensitive:" + s, rxPayloadKind[p]})
		}
	}
	explained := func(ct, p string) bool {
		for s, sp := range sufRules {
			if sp == p && strings.HasSuffix(ct, s) {
				return true
			}
		}
		return false
	}
	// ---- exact rules and fix-up types
	var canon []fxCtCase
	fix := rxSet{}
	fixKinds := map[string]string{}
	for _, ct := range cts {
		a := acc[ct]
		switch {
		case len(a) == 1:
			if !explained(ct, a[0]) {
				canon = append(canon, fxCtCase{false, ct, rxPayloadKind[a[0]]})
			}
		case len(a) > 1:
			fix.add(ct)
			fixKinds[ct] = strings.Join(a, ",")
		}
	}
	for s, p := range sufRules {
		canon = append(canon, fxCtCase{true, s, rxPayloadKind[p]})
	}
	for _, t := range extraFix {
		fix.add(t)
		fixKinds[t] = strings.Join(acc[t], ",")
	}
	canon = append(canon, anomalies...)
	key := func(c fxCtCase) string { return fmt.Sprintf("%v\x00%s\x00%s", c.suffix, c.lit, c.kind) }
	sort.Slice(canon, func(i, j int) bool { return key(canon[i]) < key(canon[j]) })
	want := rxSet{}
	for _, c := range rxSnapFetch.ctCases {
		want.add(key(c))
	}
	got := rxSet{}
	for _, c := range canon {
		got.add(key(c))
	}
	if strings.Join(want.sorted(), "\x01") == strings.Join(got.sorted(), "\x01") {
		cases = append(cases, rxSnapFetch.ctCases...)
	} else {
		cases = canon
	}
	// fix-up types: the same set of payloads must pass under each of them
	fixTypes = fix.sorted()
	kindsUnderFix := ""
	for _, t := range fixTypes {
		if kindsUnderFix == "" {
			kindsUnderFix = fixKinds[t]
		} else if fixKinds[t] != kindsUnderFix {
			return nil, nil, nil, nil, fmt.Errorf("fix-up content types differ in the payloads they let pass: %q: %s, %q: %s", fixTypes[0], kindsUnderFix, t, fixKinds[t])
		}
	}
	if strings.Join(fixTypes, "\x01") == strings.Join(rxSorted(rxSnapFetch.fixupTypes), "\x01") {
		fixTypes = append([]string{}, rxSnapFetch.fixupTypes...)
	}
	// fix-up table: which kinds pass under a fix-up type; the replacement type itself is not observable
	// (it only selects the row of the content-type table), so the snapshot's is printed when it is
	// consistent with what was observed: the same kinds pass, and each replacement maps to its kind.
	kindOf := func(ct string) string {
		if a := acc[ct]; len(a) == 1 {
			return rxPayloadKind[a[0]]
		}
		return ""
	}
	passing := rxSet{}
	if kindsUnderFix != "" {
		for _, p := range strings.Split(kindsUnderFix, ",") {
			passing.add(rxPayloadKind[p])
		}
	}
	consistent := true
	snapKinds := rxSet{}
	for _, p := range rxSnapFetch.fixupTable {
		snapKinds.add(p[0])
		if kindOf(p[1]) != p[0] {
			consistent = false
		}
	}
	if consistent && strings.Join(snapKinds.sorted(), ",") == strings.Join(passing.sorted(), ",") {
		fixTable = append(fixTable, rxSnapFetch.fixupTable...)
	} else {
		for _, k := range kinds {
			if !passing[k] {
				continue
			}
			// some exact type that selects the kind
			rep := ""
			for _, c := range canon {
				if !c.suffix && c.kind == k && (rep == "" || c.lit < rep) {
					rep = c.lit
				}
			}
			fixTable = append(fixTable, [2]string{k, rep})
		}
	}
	if len(status) == 0 {
		return nil, nil, nil, nil, fmt.Errorf("no status code is accepted")
	}
	return status, fixTypes, fixTable, cases, nil
}

func rxSorted(xs []string) []string {
	out := append([]string{}, xs...)
	sort.Strings(out)
	return out
}

// ---------------------------------------------------------------- Layer.Init, wart, NewDigest

type fxAlgoFact struct {
	name string
	size int64
}

func rxLayerTables(repo string) (tarMT, dirMT []string, legacyMT string, algos []fxAlgoFact, err error) {
	root, err := rxLoadPkg(repo, ".")
	if err != nil {
		return nil, nil, "", nil, err
	}
	mts := rxSet{}
	names := rxSet{}
	short := regexp.MustCompile(`^[A-Za-z0-9_-]{1,24}$`)
	for _, l := range root.StringLits() {
		if rxMediaLike.MatchString(l) && len(l) <= 120 {
			mts.add(l)
		}
		if short.MatchString(l) {
			names.add(l)
		}
	}
	mts.add(rxSnapFetch.tarMT...)
	mts.add(rxSnapFetch.dirMT...)
	for _, c := range rxSnapFetch.ctCases {
		if !c.suffix {
			mts.add(c.lit)
		}
	}
	for _, t := range mts.sorted() {
		mts.add(rxASCIIUpper(t), t+"x", t+"; charset=utf-8", t+"+gzip", t+"+zstd", strings.TrimSuffix(strings.TrimSuffix(t, "+gzip"), "+zstd"))
	}
	mts.add("", "rx-probe/none", "application/vnd.docker.image.rootfs.diff.tar.gzip", "application/vnd.docker.image.rootfs.diff.tar", "application/x-tar", "application/gzip")
	for _, a := range rxSnapFetch.algos {
		names.add(a.name)
	}
	for _, a := range names.sorted() {
		names.add(rxASCIIUpper(a), rxASCIILower(a))
	}
	names.add("", "md5", "sha1", "sha224", "sha384", "sha512-256", "sha3-256", "blake2b", "rx-probe")
	var ans rxFetchAns
	mtList, algoList := mts.sorted(), names.sorted()
	if err := rxProbe(repo, "fetch", map[string]any{"init": mtList, "digest": algoList}, &ans); err != nil {
		return nil, nil, "", nil, err
	}
	if len(ans.Init) != len(mtList) || len(ans.Digest) != len(algoList) {
		return nil, nil, "", nil, fmt.Errorf("fetch probe: short answer for init / digest")
	}
	for i, mt := range mtList {
		switch ans.Init[i] {
		case "tar":
			tarMT = append(tarMT, mt)
		case "dir":
			dirMT = append(dirMT, mt)
		case "err":
		default:
			return nil, nil, "", nil, fmt.Errorf("Layer.Init with media type %q: %s (neither refused nor a tar or directory file system)", mt, ans.Init[i])
		}
	}
	if strings.Join(tarMT, "\x01") == strings.Join(rxSorted(rxSnapFetch.tarMT), "\x01") {
		tarMT = append([]string{}, rxSnapFetch.tarMT...)
	}
	if strings.Join(dirMT, "\x01") == strings.Join(rxSorted(rxSnapFetch.dirMT), "\x01") {
		dirMT = append([]string{}, rxSnapFetch.dirMT...)
	}
	if tarMT == nil {
		tarMT = []string{}
	}
	if dirMT == nil {
		dirMT = []string{}
	}
	got := map[string][]int{}
	for i, a := range algoList {
		if len(ans.Digest[i]) > 0 {
			got[a] = ans.Digest[i]
		}
	}
	listed := map[string]bool{}
	for _, a := range rxSnapFetch.algos {
		listed[a.name] = true
		for _, n := range got[a.name] {
			algos = append(algos, fxAlgoFact{a.name, int64(n)})
		}
	}
	for _, a := range algoList {
		if !listed[a] {
			for _, n := range got[a] {
				algos = append(algos, fxAlgoFact{a, int64(n)})
			}
		}
	}
	if len(algos) == 0 {
		return nil, nil, "", nil, fmt.Errorf("digest.go: NewDigest accepts no candidate algorithm")
	}
	return tarMT, dirMT, ans.Legacy, algos, nil
}
