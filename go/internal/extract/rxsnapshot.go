package extract

// The snapshot: for every EVALUATED table, the keys the generated definition
// listed when the property theorems were written, in the order it listed them.
//
// It carries no values and decides nothing: a table obtained by evaluation is a
// set of (input, output) pairs and has no source order; the snapshot says in
// which order (and, where the old text depended on it, under which spelling) a
// row is printed, so that the generated text of the unchanged tree stays what
// the theorems were stated over.  Every listed key is evaluated on every run and
// printed with the value the code gives it NOW; every other candidate input the
// code treats specially is appended.  So a changed fact always changes the text.

type rxSevSnap struct {
	mode string // only consulted when evaluation cannot tell "lower" from "fold" (no key has an i or an s)
	keys []string
}

var rxSnapSeverity = map[string]rxSevSnap{
	"Debian": {"lower", []string{"unimportant", "low", "medium", "high"}},
	"Ubuntu": {"exact", []string{"Negligible", "Low", "Medium", "High", "Critical"}},
	"Oracle": {"exact", []string{"N/A", "LOW", "MODERATE", "IMPORTANT", "CRITICAL"}},
	"Suse":   {"exact", []string{"None", "Low", "Moderate", "Important", "Critical"}},
	"Photon": {"exact", []string{"Low", "Moderate", "Important", "Critical"}},
	"Aws":    {"exact", []string{"low", "medium", "important", "critical"}},
	"Rhel":   {"lower", []string{"none", "low", "moderate", "important", "critical"}},
	"OsvDb":  {"fold", []string{"unknown", "negligible", "low", "moderate", "medium", "high", "critical"}},
}

// (*ecs).LookupRepository of updater/osv: the names Gen/Feeds listed.
var rxSnapOsvRepos = []string{"crates.io", "go", "npm", "nuget", "oss-fuzz", "packagist", "pypi", "rubygems", "maven"}

// pkg/pep440 (*Version).Version: the canonical pre-release labels Gen/Versions listed (candidate inputs only).
var rxSnapPepLabels = []string{"a", "b", "rc"}
