package extract

// The snapshot: for every EVALUATED table, the keys the generated definition
// listed when the property theorems were written, in the order it listed them.
//
// It carries no values and decides nothing: a table obtained by evaluation is a
// set of (input, output) pairs and has no source order; the snapshot says in
// which order (and, where the old text depended on it, under which spelling) a
// row is printed, so that the generated text of the unchanged tree stays what
// the theorems were stated over.  Every listed key is evaluated on every run and
// printed with the value the code gives it NOW; every other candidate input the
// code treats specially is appended.  So a changed fact always changes the text.

type rxSevSnap struct {
	mode string // only consulted when evaluation cannot tell "lower" from "fold" (no key has an i or an s)
	keys []string
}

var rxSnapSeverity = map[string]rxSevSnap{
	"Debian": {"lower", []string{"unimportant", "low", "medium", "high"}},
	"Ubuntu": {"exact", []string{"Negligible", "Low", "Medium", "High", "Critical"}},
	"Oracle": {"exact", []string{"N/A", "LOW", "MODERATE", "IMPORTANT", "CRITICAL"}},
	"Suse":   {"exact", []string{"None", "Low", "Moderate", "Important", "Critical"}},
	"Photon": {"exact", []string{"Low", "Moderate", "Important", "Critical"}},
	"Aws":    {"exact", []string{"low", "medium", "important", "critical"}},
	"Rhel":   {"lower", []string{"none", "low", "moderate", "important", "critical"}},
	"OsvDb":  {"fold", []string{"unknown", "negligible", "low", "moderate", "medium", "high", "critical"}},
}

// (*ecs).LookupRepository of updater/osv: the names Gen/Feeds listed.
var rxSnapOsvRepos = []string{"crates.io", "go", "npm", "nuget", "oss-fuzz", "packagist", "pypi", "rubygems", "maven"}

// pkg/pep440 (*Version).Version: the canonical pre-release labels Gen/Versions listed (candidate inputs only).
var rxSnapPepLabels = []string{"a", "b", "rc"}

// Matchers (Gen/Matchers): the fact lists of Filter, the conditional constraints
// of Query and the string values of Vulnerable as Gen/Matchers printed them.
//
//	filter        printed when the evaluated guards and (field, value) atoms are exactly the ones it lists
//	queryIf       printed when the evaluated effect of configuration is queryIfCanon
//	vulnLits      printed when the string values of Vulnerable, named constants resolved and same-file helpers
//	              followed, are vulnCanon (nil: the values are printed as they are)
type rxMatcherSnap struct {
	filter       []string
	queryIf      []string
	queryIfCanon []string
	vulnLits     []string
	vulnCanon    []string
}

var rxSnapMatchers = map[string]rxMatcherSnap{
	"alpine": {filter: []string{"Distribution==nil", "Distribution.DID=alpine", "Distribution.Name=Alpine Linux"}},
	"aws":    {filter: []string{"Distribution==nil", "Distribution.Name=Amazon Linux AMI", "Distribution.Name=Amazon Linux", "Distribution.Name=Amazon Linux", "Distribution.DID=amzn"}},
	"debian": {filter: []string{"Distribution==nil", "Distribution.DID=debian", "Distribution.Name=Debian GNU/Linux"}},
	"ubuntu": {filter: []string{"Distribution==nil", "Distribution.DID=ubuntu", "Distribution.Name=Ubuntu"}},
	"oracle": {filter: []string{"Distribution==nil", "Distribution.DID=ol", "Distribution.Name=Oracle Linux Server"}},
	"photon": {filter: []string{"Distribution!=nil", "Distribution.DID=photon"}},
	"suse":   {filter: []string{"Distribution==nil", "Distribution.DID=sles|opensuse|opensuse-leap", "Distribution.Name=SLES|openSUSE Leap"}},
	"rhel": {filter: []string{"Repository!=nil", "Repository.Key=rhel-cpe-repository"},
		queryIf: []string{"m.ignoreUnpatched:HasFixedInVersion"}, queryIfCanon: []string{"ignore_unpatched:+HasFixedInVersion"},
		// the old text did not resolve the package constant repositoryKey nor follow isCPESubstringMatch
		vulnLits: []string{"", "65535:0"}, vulnCanon: []string{"rhel-cpe-repository", ":*", "", "65535:0"}},
	"rhcc":   {filter: []string{"Repository!=nil", "Repository.Name=Red Hat Container Catalog"}},
	"python": {filter: []string{"Package.NormalizedVersion.Kind=pep440"}},
	"java":   {filter: []string{"Repository!=nil", "Repository.Name=maven"}},
	"ruby":   {filter: []string{"Repository!=nil", "Repository.Name=rubygems"}},
	"gobin":  {filter: []string{"Repository!=nil", "Repository.URI=https://pkg.go.dev/"}},
	"nodejs": {filter: []string{"Repository!=nil", "Repository.Name=npm"}},
}

// Fetch (Gen/Fetch): candidate magics for detectCompression and the source order
// of the tables of the fetcher, Layer.Init and setChecksum as Gen/Fetch printed them.
var rxSnapFetchMagics = []string{"1f8b08", "28b52ffd", "425a68"}

var rxSnapFetch = struct {
	fixupTypes []string
	fixupTable [][2]string
	ctCases    []fxCtCase
	tarMT      []string
	dirMT      []string
	algos      []fxAlgoFact
}{
	fixupTypes: []string{"", "text/plain", "binary/octet-stream", "application/octet-stream"},
	fixupTable: [][2]string{{"KindGzip", "application/gzip"}, {"KindZstd", "application/zstd"}, {"KindNone", "application/x-tar"}},
	ctCases: []fxCtCase{
		{false, "application/vnd.docker.image.rootfs.diff.tar.gzip", "KindGzip"},
		{false, "application/gzip", "KindGzip"},
		{false, "application/x-gzip", "KindGzip"},
		{true, ".tar+gzip", "KindGzip"},
		{false, "application/zstd", "KindZstd"},
		{true, ".tar+zstd", "KindZstd"},
		{false, "application/x-tar", "KindNone"},
		{true, ".tar", "KindNone"},
	},
	tarMT: []string{"application/vnd.oci.image.layer.v1.tar", "application/vnd.oci.image.layer.v1.tar+gzip", "application/vnd.oci.image.layer.v1.tar+zstd",
		"application/vnd.oci.image.layer.nondistributable.v1.tar", "application/vnd.oci.image.layer.nondistributable.v1.tar+gzip", "application/vnd.oci.image.layer.nondistributable.v1.tar+zstd"},
	dirMT: []string{"application/vnd.claircore.filesystem"},
	algos: []fxAlgoFact{{"sha256", 32}, {"sha512", 64}},
}

// buildGetQuery (Gen/Matchers queryNeeds / queryColumns / dbRangeTest): the rows as printed,
// with, for queryColumns, the canonical form the evaluation produces (column:field or column:op value).
var rxSnapQueryNeeds = []string{"DistributionDID:Distribution", "DistributionName:Distribution", "DistributionVersionID:Distribution",
	"DistributionVersion:Distribution", "DistributionVersionCodeName:Distribution", "DistributionPrettyName:Distribution",
	"DistributionCPE:Distribution", "DistributionArch:Distribution", "RepositoryName:Repository", "RepositoryKey:Repository"}

var rxSnapQueryColumns = [][2]string{
	{"PackageModule:package_module:Package.Module", "PackageModule:package_module:Package.Module"},
	{"DistributionDID:dist_id:Distribution.DID", "DistributionDID:dist_id:Distribution.DID"},
	{"DistributionName:dist_name:Distribution.Name", "DistributionName:dist_name:Distribution.Name"},
	{"DistributionVersionID:dist_version_id:Distribution.VersionID", "DistributionVersionID:dist_version_id:Distribution.VersionID"},
	{"DistributionVersion:dist_version:Distribution.Version", "DistributionVersion:dist_version:Distribution.Version"},
	{"DistributionVersionCodeName:dist_version_code_name:Distribution.VersionCodeName", "DistributionVersionCodeName:dist_version_code_name:Distribution.VersionCodeName"},
	{"DistributionPrettyName:dist_pretty_name:Distribution.PrettyName", "DistributionPrettyName:dist_pretty_name:Distribution.PrettyName"},
	// the old text spelled the argument expression (&record.Distribution.CPE) and the goqu operator
	{"DistributionCPE:dist_cpe:&record.Distribution.CPE", "DistributionCPE:dist_cpe:Distribution.CPE"},
	{"DistributionArch:dist_arch:Distribution.Arch", "DistributionArch:dist_arch:Distribution.Arch"},
	{"RepositoryName:repo_name:Repository.Name", "RepositoryName:repo_name:Repository.Name"},
	{"RepositoryKey:repo_key:Repository.Key", "RepositoryKey:repo_key:Repository.Key"},
	{"HasFixedInVersion:fixed_in_version:exp.NeqOp \"\"", "HasFixedInVersion:fixed_in_version:!= ''"},
}

// the literal pieces of the version-filter condition: open, separator, close, kind column, range test
var rxSnapRangeTest = []string{"'{", ",", "}'::int[]", "version_kind", "vulnerable_range @> "}

// matchers/defaults: the elements of defaultMatchers as Gen/Matchers printed them, with the
// Go type of the matcher the registry hands out (rhcc's exported variable holds an unexported type).
var rxSnapDefaults = [][2]string{
	{"alpine.Matcher", "alpine.Matcher"}, {"aws.Matcher", "aws.Matcher"}, {"debian.Matcher", "debian.Matcher"},
	{"gobin.Matcher", "gobin.Matcher"}, {"java.Matcher", "java.Matcher"}, {"oracle.Matcher", "oracle.Matcher"},
	{"photon.Matcher", "photon.Matcher"}, {"python.Matcher", "python.Matcher"}, {"rhcc.Matcher", "rhcc.matcher"},
	{"ruby.Matcher", "ruby.Matcher"}, {"suse.Matcher", "suse.Matcher"}, {"ubuntu.Matcher", "ubuntu.Matcher"},
}
