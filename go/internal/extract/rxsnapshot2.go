package extract

// The snapshot, round 2 (see rxsnapshot.go for the rule: names and ORDER only,
// no values; every listed thing is evaluated on every run).

// Gen/Tar: the names of the accepted magics — 6-byte ones (which need the
// version field) in ascending byte order, then 8-byte ones — and the order in
// which the typeflag lists were printed (the case lists of findSegments' switch).
var (
	rxSnapTarMagic6  = []string{"magicPAX", "magicGNU"}
	rxSnapTarMagic8  = []string{"magicOldGNU"}
	rxSnapTarPrepend = []int{'x', 'K', 'L', 'S'}
	rxSnapTarData    = []int{'4', '3', '7', '5', '6', '1', '0', 0, '2'}
)
