package extract

// Gen/JoinOsv, shape-robust (design/EXTRACT.md, round 2).
//
// EVALUATED
//   - lookupRepositoryURI   (*ecs).LookupRepository on every candidate name (probe `feeds`, as Gen/Feeds; order of
//     the snapshot rxSnapOsvRepos)
//   - ignore                the real Factory.UpdaterSet against an ecosystems.txt listing the candidates (probe
//     `joinosv`): the names it hands out no updater for; candidates = the string literals of updater/osv, lower
//     case (the Factory lower-cases the lines) ∪ fresh names, which must be handed out
//   - nameEcosystems, kindEcosystems, packageKind   the real Parse on one advisory per candidate ecosystem, with
//     distinct name and PURL: which of the two became the package name, and the package Kind; candidates = the
//     ecosystem constants ∪ the string literals of the package ∪ case variants ∪ fresh names, which must
//     give the PURL and no Kind
//   - languages (Repository) the exported `Repository` variable of python, java, ruby, nodejs, gobin
//   - pep440Kind            pep440.Parse("1.0").Version().Kind
//
// READ: the `ecosystem…` constants by name prefix (any file, folded), and the Kind the language scanners give their
// packages: every `Kind:` field of a claircore.Package literal and every assignment `x.Kind = claircore.K` in the
// package, folded through the imports (running the scanners would need a layer per language).

import (
	"fmt"
	"go/ast"
	"go/constant"
	"go/token"
	"regexp"
	"sort"
	"strings"
)

type rxjOsv struct {
	ecosystems, repoURIs       [][2]string
	ignore, nameEcos, kindEcos []string
	kind, pep440Kind           string
	languages                  []struct{ dir, eco, name, uri, kind string }
}

var rxjLangs = []struct{ dir, eco string }{{"python", "PyPI"}, {"java", "Maven"}, {"ruby", "RubyGems"}, {"nodejs", "npm"}, {"gobin", "Go"}}

func rxjOsvFacts(repo string) (*rxjOsv, error) {
	p, err := rxLoadPkg(repo, "updater/osv")
	if err != nil {
		return nil, err
	}
	f := &rxjOsv{}
	// ---- the ecosystem constants, by name
	names := rxSet{}
	for _, file := range p.files {
		for _, d := range file.Decls {
			gd, ok := d.(*ast.GenDecl)
			if !ok || (gd.Tok != token.CONST && gd.Tok != token.VAR) {
				continue
			}
			for _, sp := range gd.Specs {
				if vs, ok := sp.(*ast.ValueSpec); ok {
					for _, n := range vs.Names {
						if strings.HasPrefix(n.Name, "ecosystem") {
							names.add(n.Name)
						}
					}
				}
			}
		}
	}
	var ecoVals []string
	for _, n := range names.sorted() {
		v, ok := p.constOf(n)
		if !ok || v.Kind() != constant.String {
			continue // e.g. a table named ecosystem…: not an ecosystem constant
		}
		f.ecosystems = append(f.ecosystems, [2]string{n, constant.StringVal(v)})
		ecoVals = append(ecoVals, constant.StringVal(v))
	}
	if len(f.ecosystems) == 0 {
		return nil, fmt.Errorf("updater/osv: no `ecosystem…` string constants")
	}
	// ---- LookupRepository (as Gen/Feeds)
	lits := p.StringLits()
	cands := rxSet{}
	cands.add(rxSnapOsvRepos...)
	for _, s := range lits {
		if len(s) <= 64 && !strings.ContainsAny(s, "\n%") {
			cands.add(s, rxASCIILower(s), rxASCIIUpper(s))
		}
	}
	for _, s := range rxSnapOsvRepos {
		cands.add(rxCaseVariants(s)...)
		cands.add(rxLooseVariants(s)...)
	}
	cands.add(rxSevFresh...)
	cands.add("")
	rnames := cands.sorted()
	var fa struct {
		Repos []struct {
			Name, URI, Key string
			Other          bool
		} `json:"repos"`
	}
	if err := rxProbe(repo, "feeds", map[string]any{"repos": rnames}, &fa); err != nil {
		return nil, err
	}
	if len(fa.Repos) != len(rnames) {
		return nil, fmt.Errorf("feeds probe: %d answers for %d questions", len(fa.Repos), len(rnames))
	}
	uri := map[string]string{}
	for i, n := range rnames {
		r := fa.Repos[i]
		if r.Name != n || r.Key != "" || r.Other {
			return nil, fmt.Errorf("LookupRepository(%q) sets more than Name = name and URI (Name %q, Key %q, other fields %v): outside what the table can say", n, r.Name, r.Key, r.Other)
		}
		uri[n] = r.URI
	}
	for _, fr := range rxSevFresh {
		if uri[fr] != "" {
			return nil, fmt.Errorf("LookupRepository gives an unknown name the URI %q: outside what the table can say", uri[fr])
		}
	}
	listed := map[string]bool{}
	for _, n := range rxSnapOsvRepos {
		if uri[n] != "" {
			f.repoURIs = append(f.repoURIs, [2]string{n, uri[n]})
		}
		listed[n] = true
	}
	for _, n := range rnames {
		if !listed[n] && uri[n] != "" {
			f.repoURIs = append(f.repoURIs, [2]string{n, uri[n]})
		}
	}
	// ---- probe joinosv
	plain := regexp.MustCompile(`^[a-z0-9][a-z0-9 ._+-]*$`)
	fresh := []string{"rxq", "rxq-7", "zzzz unknown ecosystem"}
	lset := rxSet{}
	for _, s := range lits {
		if l := rxASCIILower(s); len(l) <= 40 && plain.MatchString(l) {
			lset.add(l)
		}
	}
	lset.add(fresh...)
	aset := rxSet{}
	for _, s := range lits {
		if len(s) <= 40 && !strings.ContainsAny(s, "\n\"\\%") && s != "" {
			aset.add(s)
		}
	}
	for _, e := range ecoVals {
		aset.add(e)
		aset.add(rxCaseVariants(e)...)
		aset.add(rxLooseVariants(e)...)
	}
	aset.add(rxSevFresh...)
	var ans struct {
		HandedOut []string
		ListedErr string
		Advisory  []struct {
			Ecosystem, Name, Kind, Err string
			N                          int
		}
		Languages map[string]struct {
			Name, URI string
			Other     bool
		}
		Pep440Kind string
	}
	listedNames := lset.sorted()
	advEcos := aset.sorted()
	if err := rxProbe(repo, "joinosv", map[string]any{"listed": listedNames, "advisory": advEcos}, &ans); err != nil {
		return nil, err
	}
	if ans.ListedErr != "" {
		return nil, fmt.Errorf("osv Factory.UpdaterSet on a list of %d ecosystems: %s", len(listedNames), ans.ListedErr)
	}
	handed := map[string]bool{}
	for _, n := range ans.HandedOut {
		handed[strings.TrimPrefix(n, "osv/")] = true
	}
	for _, fr := range fresh {
		if !handed[fr] {
			return nil, fmt.Errorf("osv Factory.UpdaterSet hands out no updater for the unknown ecosystem %q: outside what the ignore list can say", fr)
		}
	}
	f.ignore = []string{}
	for _, n := range listedNames {
		if !handed[n] {
			f.ignore = append(f.ignore, n)
		}
	}
	if len(ans.Advisory) != len(advEcos) {
		return nil, fmt.Errorf("joinosv probe: short answer")
	}
	isFresh := map[string]bool{}
	for _, fr := range rxSevFresh {
		isFresh[fr] = true
	}
	nameSet, kindSet, kinds := map[string]bool{}, map[string]bool{}, rxSet{}
	var odd []string
	for i, e := range advEcos {
		a := ans.Advisory[i]
		switch {
		case a.Err != "" || a.N == 0:
			if isFresh[e] {
				return nil, fmt.Errorf("osv Parse gives no vulnerability for an advisory of the unknown ecosystem %q (%s)", e, a.Err)
			}
			continue
		case a.Name == "name":
			nameSet[e] = true
		case a.Name != "purl":
			odd = append(odd, e+"->"+a.Name)
		}
		if a.Kind != "" {
			kindSet[e] = true
			kinds.add(a.Kind)
		}
		if isFresh[e] && (a.Name != "purl" || a.Kind != "") {
			return nil, fmt.Errorf("osv Parse gives an advisory of the unknown ecosystem %q the package name %s and kind %q: outside what the tables can say", e, a.Name, a.Kind)
		}
	}
	if len(odd) > 0 {
		return nil, fmt.Errorf("osv Parse stores neither the advisory's package name nor its PURL: %v", odd)
	}
	order := func(set map[string]bool) []string {
		out := []string{}
		seen := map[string]bool{}
		for _, e := range ecoVals {
			if set[e] && !seen[e] {
				out = append(out, e)
				seen[e] = true
			}
		}
		var rest []string
		for e := range set {
			if !seen[e] {
				rest = append(rest, e)
			}
		}
		sort.Strings(rest)
		return append(out, rest...)
	}
	f.nameEcos, f.kindEcos = order(nameSet), order(kindSet)
	f.kind = strings.Join(kinds.sorted(), "|")
	f.pep440Kind = ans.Pep440Kind
	// ---- language scanners
	for _, l := range rxjLangs {
		r, ok := ans.Languages[l.dir]
		if !ok {
			return nil, fmt.Errorf("joinosv probe: no Repository of %s", l.dir)
		}
		if r.Other {
			return nil, fmt.Errorf("%s: Repository sets a field besides Name and URI, which Repo does not render", l.dir)
		}
		kind, err := rxjPackageKind(repo, l.dir)
		if err != nil {
			return nil, err
		}
		f.languages = append(f.languages, struct{ dir, eco, name, uri, kind string }{l.dir, l.eco, r.Name, r.URI, kind})
	}
	return f, nil
}

// rxjPackageKind: the one Kind the package gives the claircore.Package values it builds.
func rxjPackageKind(repo, dir string) (string, error) {
	p, err := rxLoadPkg(repo, dir)
	if err != nil {
		return "", err
	}
	kinds := rxSet{}
	for _, file := range p.files {
		for _, d := range file.Decls {
			var sc *rxScope
			if fd, ok := d.(*ast.FuncDecl); ok {
				sc = p.ScopeOf(fd)
			} else {
				sc = p.Scope(file)
			}
			ast.Inspect(d, func(n ast.Node) bool {
				switch x := n.(type) {
				case *ast.AssignStmt:
					for i, l := range x.Lhs {
						if sel, ok := l.(*ast.SelectorExpr); ok && sel.Sel.Name == "Kind" && i < len(x.Rhs) {
							if s, ok := sc.Str(x.Rhs[i]); ok && (s == "binary" || s == "source") {
								kinds.add(s)
							}
						}
					}
				case *ast.CompositeLit:
					t := x.Type
					if sel, ok := t.(*ast.SelectorExpr); ok && sel.Sel.Name == "Package" {
						if id, ok := sel.X.(*ast.Ident); ok {
							if dir, ok := rxImportDir(rxImportPath(file, id.Name)); ok && dir == "." {
								if kv := j_fieldOf(x, "Kind"); kv != nil {
									if s, ok := sc.Str(kv); ok {
										kinds.add(s)
									}
								}
							}
						}
					}
				}
				return true
			})
		}
	}
	ks := kinds.sorted()
	if len(ks) != 1 {
		return "", fmt.Errorf("%s: package literals do not have one Kind (%v)", dir, ks)
	}
	return ks[0], nil
}
