package extract

import (
	"fmt"
	"strings"
)

// C06Guards: for every defect of property C06 that was repaired in the
// repository, whether the repair still holds.
//
// EVALUATED (design/EXTRACT.md, round 2): the probe go/cmd/rxprobe/c06guards
// runs, per fact, the inputs that showed the defect (and close variants) against
// the real function, each in a process of its own, and the fact is true when
// every one of them is handled: an answer within the time limit, no panic, no
// stack overflow, no crash of the process by a finalizer, no allocation out of
// proportion, and — where the repair is a refusal — an error.  How the guard is
// written does not matter; a guard that is edited away makes its witness fail
// again and the obligation `fixed_defect_guards_present` with it.
func init() {
	Register(Gen{Name: "C06Guards", Run: func(repo string) (string, error) {
		out := Header("C06Guards", "pkg/tarfs/tarfs.go", "layer.go", "dpkg/scanner.go", "apk/scanner.go", "osrelease/scanner.go",
			"java/jar/jar.go", "indexer/layerscanner.go", "rpm/sqlite/sqlite.go", "rpm/ndb/package.go", "rpm/ndb/ndb.go", "rpm/files.go", "rpm/bdb/bdb.go", "rhel/dockerfile/dockerfile.go")
		var ans struct {
			Facts map[string]struct {
				OK        bool `json:"ok"`
				Witnesses []struct {
					Name    string `json:"name"`
					Handled bool   `json:"handled"`
					Detail  string `json:"detail"`
				} `json:"witnesses"`
			} `json:"facts"`
		}
		if err := rxProbe(repo, "c06guards", map[string]any{}, &ans); err != nil {
			return "", err
		}
		for _, f := range rxC06GuardFacts {
			r, ok := ans.Facts[f[0]]
			if !ok || len(r.Witnesses) == 0 {
				return "", fmt.Errorf("c06guards probe: no witness ran for %s", f[0])
			}
			out += fmt.Sprintf("\n/-- %s -/\ndef %s : Bool := %v\n", f[1], f[0], r.OK)
			for _, w := range r.Witnesses {
				if !w.Handled {
					d := strings.Join(strings.Fields(w.Detail), " ")
					if len(d) > 300 {
						d = d[:300] + " …"
					}
					out += fmt.Sprintf("-- not handled: %s: %s\n", w.Name, strings.ReplaceAll(d, "-/", "- /"))
				}
			}
		}
		out += "\ndef all : List (String × Bool) := [\n"
		for i, f := range rxC06GuardFacts {
			sep := ","
			if i == len(rxC06GuardFacts)-1 {
				sep = ""
			}
			out += fmt.Sprintf("  (%s, %s)%s\n", LeanString(f[0]), f[0], sep)
		}
		out += "]\n"
		return out + Footer("C06Guards"), nil
	}})
}

// rxC06GuardFacts: name and doc comment of every guard fact, in the order Gen/C06Guards lists them.
var rxC06GuardFacts = [][2]string{
	{"tarfsOpenSymlinkHopBound", "tarfs.open gives up after more symbolic-link hops than inodes (daa67834)"},
	{"tarfsOpenHardlinkHopBound", "the hard-link chain loop of tarfs.open is bounded by the inode count (daa67834)"},
	{"tarfsAddHopBound", "tarfs.add counts the symbolic links it follows (daa67834)"},
	{"tarfsOpenChecksSize", "tarfs.open compares a member's size with its archive segment, also for hard-link targets (ce813f23)"},
	{"tarfsWalkCycleCheck", "tarfs.walkTo keeps the set of links already followed"},
	{"layerFinalizerAfterInit", "Layer.Init installs the not-closed finalizer only when nothing can fail any more"},
	{"dpkgRestartOnlyOnProtocolError", "dpkg parseStatus starts over only after a malformed entry or a blank line, never after a failing read (dd58a366, 02113a58)"},
	{"apkLineLengthGuard", "the apk scanner skips lines shorter than two bytes before line[2:] (0eddde4a)"},
	{"osreleaseEmptyLineFirst", "osrelease.Parse looks at the length of a line before its first byte"},
	{"jarManifestLimited", "java/jar reads a manifest through a size limit (e7cfb6f4)"},
	{"jarNestingBounded", "java/jar stops descending into nested jars (68049d03)"},
	{"jarPreallocBounded", "java/jar reserves buffer space by a zip header only when it is modest (68049d03)"},
	{"layerScannerRectifiesConcurrency", "NewLayerScanner replaces a concurrency below one by a default (a limit of zero would block every scan)"},
	{"sqliteOpenClosesOnPingFailure", "sqlite.Open closes the pool when the ping fails and arms the finalizer only afterwards (9c747ab8)"},
	{"ndbSlotHintClamped", "ndb Parse sizes its table by a clamped hint, not by a header field (cc30b30c)"},
	{"xdbSlotAreaChecked", "ndb XDB.Parse checks the slot area against the header size and the file before allocating (dda4114b)"},
	{"rpmFilesCacheRemembersNoDatabase", "rpm.FileInstalledByRPM remembers that a layer has no rpm database (903cc5ad)"},
	{"bdbSeenSetIsFileWide", "bdb AllHeaders keeps one set of linked overflow pages for the whole file (ef45a299)"},
	{"dockerfileValuesBounded", "the Dockerfile parser bounds every expanded value (b76ed6e6)"},
}
