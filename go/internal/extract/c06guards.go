package extract

import (
	"fmt"
	"go/ast"
	"go/token"
	"strings"
)

// C06Guards: for every defect of property C06 that was repaired in the
// repository, whether the source still has the check the repair put there
// (each recognised by its shape in the named function). The witnesses of the
// defects are replayed on every run as well; these facts fail the obligation
// `fixed_defect_guards_present` as soon as a guard is edited away, whatever the
// generators draw.
func init() {
	Register(Gen{Name: "C06Guards", Run: func(repo string) (string, error) {
		out := Header("C06Guards", "pkg/tarfs/tarfs.go", "layer.go", "dpkg/scanner.go", "apk/scanner.go", "osrelease/scanner.go",
			"java/jar/jar.go", "indexer/layerscanner.go", "rpm/sqlite/sqlite.go", "rpm/ndb/package.go", "rpm/ndb/ndb.go", "rpm/files.go", "rpm/bdb/bdb.go", "rhel/dockerfile/dockerfile.go")
		type fact struct {
			name, doc string
			val       bool
		}
		var facts []fact
		add := func(name, doc string, v bool) { facts = append(facts, fact{name, doc, v}) }

		// condIn: does the function have an if statement (or a case of a
		// tag-less switch) whose condition renders as one of conds?
		condIn := func(fd *ast.FuncDecl, conds ...string) bool {
			if fd == nil {
				return false
			}
			found := false
			ast.Inspect(fd.Body, func(n ast.Node) bool {
				switch x := n.(type) {
				case *ast.IfStmt:
					c := exprString(x.Cond)
					for _, w := range conds {
						if c == w || strings.Contains(c, w) {
							found = true
						}
					}
				case *ast.CaseClause:
					for _, e := range x.List {
						c := exprString(e)
						for _, w := range conds {
							if c == w || strings.Contains(c, w) {
								found = true
							}
						}
					}
				}
				return true
			})
			return found
		}
		callsIn := func(fd *ast.FuncDecl, fun string) int {
			n := 0
			if fd == nil {
				return 0
			}
			ast.Inspect(fd.Body, func(nd ast.Node) bool {
				if c, ok := nd.(*ast.CallExpr); ok && exprString(c.Fun) == fun {
					n++
				}
				return true
			})
			return n
		}
		need := func(f *ast.File, recv, name, rel string) (*ast.FuncDecl, error) {
			fd := FuncDecl(f, recv, name)
			if fd == nil {
				return nil, fmt.Errorf("%s: function %s not found", rel, name)
			}
			return fd, nil
		}

		// pkg/tarfs/tarfs.go
		_, tf, err := ParseFile(repo, "pkg/tarfs/tarfs.go")
		if err != nil {
			return "", err
		}
		open, err := need(tf, "FS", "open", "pkg/tarfs/tarfs.go")
		if err != nil {
			return "", err
		}
		addFn, err := need(tf, "FS", "add", "pkg/tarfs/tarfs.go")
		if err != nil {
			return "", err
		}
		walk, err := need(tf, "FS", "walkTo", "pkg/tarfs/tarfs.go")
		if err != nil {
			return "", err
		}
		add("tarfsOpenSymlinkHopBound", "tarfs.open gives up after more symbolic-link hops than inodes (daa67834)", condIn(open, "hops > len(f.inode)"))
		add("tarfsOpenHardlinkHopBound", "the hard-link chain loop of tarfs.open is bounded by the inode count (daa67834)", condIn(open, "hops >= len(f.inode)"))
		add("tarfsAddHopBound", "tarfs.add counts the symbolic links it follows (daa67834)", condIn(addFn, "hops > len(f.inode)"))
		add("tarfsOpenChecksSize", "tarfs.open compares a member's size with its archive segment, also for hard-link targets (ce813f23)", callsIn(open, "checkSize") >= 2)
		add("tarfsWalkCycleCheck", "tarfs.walkTo keeps the set of links already followed", callsIn(walk, "make") >= 1 && condIn(walk, "ok") && strings.Contains(funcText(walk), "cycle[ci]"))

		// layer.go: the finalizer is installed after the media type switch
		_, lf, err := ParseFile(repo, "layer.go")
		if err != nil {
			return "", err
		}
		initFn, err := need(lf, "Layer", "Init", "layer.go")
		if err != nil {
			return "", err
		}
		sw, fin := -1, -1
		for i, st := range initFn.Body.List {
			switch x := st.(type) {
			case *ast.SwitchStmt:
				if exprString(x.Tag) == "desc.MediaType" {
					sw = i
				}
			case *ast.ExprStmt:
				if c, ok := x.X.(*ast.CallExpr); ok && exprString(c.Fun) == "runtime.SetFinalizer" {
					fin = i
				}
			}
		}
		if sw < 0 || fin < 0 {
			return "", fmt.Errorf("layer.go: Layer.Init: media type switch or SetFinalizer not found")
		}
		add("layerFinalizerAfterInit", "Layer.Init installs the not-closed finalizer only when nothing can fail any more", fin > sw)

		// dpkg/scanner.go: goto Restart only under errors.As(err, &perr)
		_, df, err := ParseFile(repo, "dpkg/scanner.go")
		if err != nil {
			return "", err
		}
		ps, err := need(df, "", "parseStatus", "dpkg/scanner.go")
		if err != nil {
			return "", err
		}
		gotos, guarded := 0, 0
		ast.Inspect(ps.Body, func(n ast.Node) bool {
			cc, ok := n.(*ast.CaseClause)
			if !ok {
				return true
			}
			has := false
			for _, st := range cc.Body {
				ast.Inspect(st, func(m ast.Node) bool {
					if b, ok := m.(*ast.BranchStmt); ok && b.Tok == token.GOTO && b.Label != nil && b.Label.Name == "Restart" {
						has = true
					}
					return true
				})
			}
			if has {
				gotos++
				for _, e := range cc.List {
					// a malformed entry, or an empty header without an error (a
					// second blank line): in both the reader has moved on
					if c := exprString(e); strings.HasPrefix(c, "errors.As(err, &") || c == "err == nil" {
						guarded++
					}
				}
			}
			return true
		})
		allGotos := 0
		ast.Inspect(ps.Body, func(n ast.Node) bool {
			if b, ok := n.(*ast.BranchStmt); ok && b.Tok == token.GOTO {
				allGotos++
			}
			return true
		})
		add("dpkgRestartOnlyOnProtocolError", "dpkg parseStatus starts over only after a malformed entry or a blank line, never after a failing read (dd58a366, 02113a58)", gotos == allGotos && gotos == guarded)

		// apk/scanner.go
		_, af, err := ParseFile(repo, "apk/scanner.go")
		if err != nil {
			return "", err
		}
		apkScan, err := need(af, "Scanner", "Scan", "apk/scanner.go")
		if err != nil {
			return "", err
		}
		add("apkLineLengthGuard", "the apk scanner skips lines shorter than two bytes before line[2:] (0eddde4a)", condIn(apkScan, "len(line) < 2"))

		// osrelease/scanner.go: the empty-line case precedes b[0]
		_, of, err := ParseFile(repo, "osrelease/scanner.go")
		if err != nil {
			return "", err
		}
		osParse, err := need(of, "", "Parse", "osrelease/scanner.go")
		if err != nil {
			return "", err
		}
		emptyFirst := false
		ast.Inspect(osParse.Body, func(n ast.Node) bool {
			s, ok := n.(*ast.SwitchStmt)
			if !ok || s.Tag != nil || len(s.Body.List) < 2 {
				return true
			}
			c0, ok0 := s.Body.List[0].(*ast.CaseClause)
			c1, ok1 := s.Body.List[1].(*ast.CaseClause)
			if ok0 && ok1 && len(c0.List) == 1 && len(c1.List) == 1 && exprString(c0.List[0]) == "len(b) == 0" && strings.HasPrefix(exprString(c1.List[0]), "b[0]") {
				emptyFirst = true
			}
			return true
		})
		add("osreleaseEmptyLineFirst", "osrelease.Parse looks at the length of a line before its first byte", emptyFirst)

		// java/jar/jar.go
		_, jf, err := ParseFile(repo, "java/jar/jar.go")
		if err != nil {
			return "", err
		}
		jarText := ""
		for _, d := range jf.Decls {
			if fd, ok := d.(*ast.FuncDecl); ok && fd.Body != nil {
				jarText += funcText(fd) + "\n"
			}
		}
		add("jarManifestLimited", "java/jar reads a manifest through a size limit (e7cfb6f4)", strings.Contains(jarText, "io.LimitReader(r, maxManifest)"))
		add("jarNestingBounded", "java/jar stops descending into nested jars (68049d03)", strings.Contains(jarText, "len(p) >= maxNesting"))
		add("jarPreallocBounded", "java/jar reserves buffer space by a zip header only when it is modest (68049d03)", strings.Contains(jarText, "sz <= maxPrealloc"))

		// indexer/layerscanner.go: concurrent < 1 falls through to the default
		_, isf, err := ParseFile(repo, "indexer/layerscanner.go")
		if err != nil {
			return "", err
		}
		nls, err := need(isf, "", "NewLayerScanner", "indexer/layerscanner.go")
		if err != nil {
			return "", err
		}
		rect := false
		ast.Inspect(nls.Body, func(n ast.Node) bool {
			cc, ok := n.(*ast.CaseClause)
			if !ok || len(cc.List) != 1 || exprString(cc.List[0]) != "concurrent < 1" || len(cc.Body) == 0 {
				return true
			}
			if b, ok := cc.Body[len(cc.Body)-1].(*ast.BranchStmt); ok && b.Tok == token.FALLTHROUGH {
				rect = true
			}
			return true
		})
		add("layerScannerRectifiesConcurrency", "NewLayerScanner replaces a concurrency below one by a default (a limit of zero would block every scan)", rect)

		// rpm/sqlite/sqlite.go: Close on a failed ping, finalizer after it
		_, sf, err := ParseFile(repo, "rpm/sqlite/sqlite.go")
		if err != nil {
			return "", err
		}
		sqOpen, err := need(sf, "", "Open", "rpm/sqlite/sqlite.go")
		if err != nil {
			return "", err
		}
		closes, ping, sfin := false, -1, -1
		for i, st := range sqOpen.Body.List {
			switch x := st.(type) {
			case *ast.IfStmt:
				if x.Init != nil && strings.Contains(funcTextNode(x.Init), "db.Ping()") {
					ping = i
					ast.Inspect(x.Body, func(n ast.Node) bool {
						if c, ok := n.(*ast.CallExpr); ok && exprString(c.Fun) == "db.Close" {
							closes = true
						}
						return true
					})
				}
			case *ast.ExprStmt:
				if c, ok := x.X.(*ast.CallExpr); ok && exprString(c.Fun) == "runtime.SetFinalizer" {
					sfin = i
				}
			}
		}
		if ping < 0 || sfin < 0 {
			return "", fmt.Errorf("rpm/sqlite/sqlite.go: Open: ping or SetFinalizer not found")
		}
		add("sqliteOpenClosesOnPingFailure", "sqlite.Open closes the pool when the ping fails and arms the finalizer only afterwards (9c747ab8)", closes && sfin > ping)

		// rpm/ndb/package.go, ndb.go
		_, nf, err := ParseFile(repo, "rpm/ndb/package.go")
		if err != nil {
			return "", err
		}
		ndbParse, err := need(nf, "PackageDB", "Parse", "rpm/ndb/package.go")
		if err != nil {
			return "", err
		}
		add("ndbSlotHintClamped", "ndb Parse sizes its table by a clamped hint, not by a header field (cc30b30c)", strings.Contains(funcText(ndbParse), "make(?, 0, hint)") && condIn(ndbParse, "hint > lim"))
		_, xf, err := ParseFile(repo, "rpm/ndb/ndb.go")
		if err != nil {
			return "", err
		}
		xdbParse, err := need(xf, "XDB", "Parse", "rpm/ndb/ndb.go")
		if err != nil {
			return "", err
		}
		add("xdbSlotAreaChecked", "ndb XDB.Parse checks the slot area against the header size and the file before allocating (dda4114b)", condIn(xdbParse, "sz < headerSize") && strings.Contains(funcText(xdbParse), "make(?, sz)"))

		// rpm/files.go: the "no database" answer is cached
		_, ff, err := ParseFile(repo, "rpm/files.go")
		if err != nil {
			return "", err
		}
		gf, err := need(ff, "filesCache", "getFiles", "rpm/files.go")
		if err != nil {
			return "", err
		}
		cached := false
		ast.Inspect(gf.Body, func(n ast.Node) bool {
			is, ok := n.(*ast.IfStmt)
			if ok && exprString(is.Cond) == "len(found) == 0" {
				ast.Inspect(is.Body, func(m ast.Node) bool {
					if c, ok := m.(*ast.CallExpr); ok && exprString(c.Fun) == "fc.set" {
						cached = true
					}
					return true
				})
			}
			return true
		})
		add("rpmFilesCacheRemembersNoDatabase", "rpm.FileInstalledByRPM remembers that a layer has no rpm database (903cc5ad)", cached)

		// rpm/bdb/bdb.go: one seen set for the whole file, checked before a page is linked
		_, bf, err := ParseFile(repo, "rpm/bdb/bdb.go")
		if err != nil {
			return "", err
		}
		ah, err := need(bf, "PackageDB", "AllHeaders", "rpm/bdb/bdb.go")
		if err != nil {
			return "", err
		}
		seenTop := false
		for _, st := range ah.Body.List {
			if as, ok := st.(*ast.AssignStmt); ok && len(as.Lhs) == 1 && exprString(as.Lhs[0]) == "seen" {
				seenTop = true
			}
		}
		add("bdbSeenSetIsFileWide", "bdb AllHeaders keeps one set of linked overflow pages for the whole file (ef45a299)", seenTop && strings.Contains(funcText(ah), "seen[n]"))

		// rhel/dockerfile/dockerfile.go: expanded values are bounded
		_, dkf, err := ParseFile(repo, "rhel/dockerfile/dockerfile.go")
		if err != nil {
			return "", err
		}
		ha, err := need(dkf, "labelParser", "handleAssign", "rhel/dockerfile/dockerfile.go")
		if err != nil {
			return "", err
		}
		add("dockerfileValuesBounded", "the Dockerfile parser bounds every expanded value (b76ed6e6)", callsIn(ha, "checkValue") >= 2)

		for _, f := range facts {
			out += fmt.Sprintf("\n/-- %s -/\ndef %s : Bool := %v\n", f.doc, f.name, f.val)
		}
		out += "\ndef all : List (String × Bool) := [\n"
		for i, f := range facts {
			sep := ","
			if i == len(facts)-1 {
				sep = ""
			}
			out += fmt.Sprintf("  (%s, %s)%s\n", LeanString(f.name), f.name, sep)
		}
		out += "]\n"
		return out + Footer("C06Guards"), nil
	}})
}

// funcText renders the statements of a function body as expression strings
// (assignments, calls, conditions), enough for substring checks of shapes.
func funcText(fd *ast.FuncDecl) string {
	if fd == nil || fd.Body == nil {
		return ""
	}
	return funcTextNode(fd.Body)
}

func funcTextNode(n ast.Node) string {
	var sb strings.Builder
	ast.Inspect(n, func(m ast.Node) bool {
		switch x := m.(type) {
		case *ast.AssignStmt:
			for _, l := range x.Lhs {
				sb.WriteString(exprString(l) + " ")
			}
			sb.WriteString(x.Tok.String() + " ")
			for _, r := range x.Rhs {
				sb.WriteString(exprString(r) + " ")
			}
			sb.WriteString("\n")
		case *ast.ExprStmt:
			sb.WriteString(exprString(x.X) + "\n")
		case *ast.IfStmt:
			sb.WriteString("if " + exprString(x.Cond) + "\n")
		case *ast.CompositeLit:
			return true
		}
		return true
	})
	return sb.String()
}
