package extract

// Gen/JoinQuery, shape-robust (design/EXTRACT.md, round 2).
//
// EVALUATED (probe go/cmd/rxprobe/querybuilder, the one Gen/Matchers uses):
// buildGetQuery is called on records whose every field holds a marker naming the
// field; the WHERE clause of the SQL text it returns is parsed, so
//
//	pkgClause / srcClause   the (column, record field) pairs of the package condition and of the alternative
//	                        that appears when the package has a source
//	srcGuard                the field of the source package whose being empty makes that alternative disappear
//	srcNilGuard             a package without a source is queried (no panic)
//	nameGuard               the field of the package whose being empty makes buildGetQuery refuse the record
//	nilGuards               the constraints refused when the record has no distribution / repository
//	switchCases             per constraint the condition it adds: column = record field, or column <> ''
//	versionColumns          what version filtering adds
//
// are what the function does, however it is written.  The order of nilGuards and
// switchCases is the one of the snapshot (rxSnapQueryNeeds / rxSnapQueryColumns:
// constraint names only), other rows follow in constant order.
//
// READ (no database in the extractor): the constants of driver.MatchConstraint
// (folded, any file) and the INSERT of updateVulnerabilities: the call — anywhere
// in the package — one of whose arguments folds to an `INSERT INTO vuln (…)
// VALUES (…)` text; its following arguments, with local aliases of fields of the
// vulnerability resolved (`pkg := vuln.Package`), are matched to the columns
// through the placeholders of the VALUES list.

import (
	"fmt"
	"go/ast"
	"go/token"
	"regexp"
	"sort"
	"strconv"
	"strings"
)

// rxjSQLNode is a node of a parsed WHERE expression.
type rxjSQLNode struct {
	op   string // "AND", "OR", "cond", "raw"
	kids []*rxjSQLNode
	col  string // cond: column ("a"."b" as a.b)
	cmp  string // cond: operator
	val  string // cond: literal as written; raw: the text
}

var rxjCondRe = regexp.MustCompile(`^"([A-Za-z_][A-Za-z_0-9]*(?:"\."[A-Za-z_][A-Za-z_0-9]*)?)" (=|!=|<>|<=|>=|<|>|LIKE|IS NOT|IS) ('(?:[^']|'')*'|NULL|TRUE|FALSE|-?[0-9]+)$`)

// rxjParseWhere parses the text after WHERE: parenthesised AND / OR groups of
// conditions `"col" op literal`; anything else inside a group is kept as raw text.
func rxjParseWhere(sql string) (*rxjSQLNode, error) {
	i := strings.Index(sql, " WHERE ")
	if i < 0 {
		return nil, fmt.Errorf("no WHERE clause in %q", sql)
	}
	return rxjParseExpr(strings.TrimSpace(sql[i+7:]))
}

// rxjSplitTop splits s at the top-level occurrences of sep (outside parentheses and quotes).
func rxjSplitTop(s, sep string) []string {
	var out []string
	depth, start := 0, 0
	inq := false
	for i := 0; i < len(s); i++ {
		c := s[i]
		switch {
		case c == '\'':
			inq = !inq
		case inq:
		case c == '(':
			depth++
		case c == ')':
			depth--
		case depth == 0 && strings.HasPrefix(s[i:], sep):
			out = append(out, s[start:i])
			start = i + len(sep)
			i += len(sep) - 1
		}
	}
	return append(out, s[start:])
}

func rxjParseExpr(s string) (*rxjSQLNode, error) {
	s = strings.TrimSpace(s)
	// strip one pair of enclosing parentheses
	if strings.HasPrefix(s, "(") && strings.HasSuffix(s, ")") {
		depth, closes := 0, -1
		inq := false
		for i := 0; i < len(s); i++ {
			switch c := s[i]; {
			case c == '\'':
				inq = !inq
			case inq:
			case c == '(':
				depth++
			case c == ')':
				depth--
				if depth == 0 && closes < 0 {
					closes = i
				}
			}
		}
		if closes == len(s)-1 {
			inner := s[1 : len(s)-1]
			for _, op := range []string{" OR ", " AND "} {
				if parts := rxjSplitTop(inner, op); len(parts) > 1 {
					n := &rxjSQLNode{op: strings.TrimSpace(op)}
					for _, p := range parts {
						k, err := rxjParseExpr(p)
						if err != nil {
							return nil, err
						}
						n.kids = append(n.kids, k)
					}
					return n, nil
				}
			}
			if m := rxjCondRe.FindStringSubmatch(inner); m != nil {
				return &rxjSQLNode{op: "cond", col: strings.ReplaceAll(m[1], `"."`, "."), cmp: m[2], val: m[3]}, nil
			}
			return rxjParseExpr(inner)
		}
	}
	return &rxjSQLNode{op: "raw", val: s}, nil
}

func (n *rxjSQLNode) String() string {
	switch n.op {
	case "cond":
		return n.col + " " + n.cmp + " " + n.val
	case "raw":
		return n.val
	}
	var ks []string
	for _, k := range n.kids {
		ks = append(ks, k.String())
	}
	return "(" + strings.Join(ks, " "+n.op+" ") + ")"
}

type rxjQueryFacts struct {
	pkgClause, srcClause [][2]string
	srcGuard, nameGuard  string
	srcNilGuard          bool
	nilGuards            [][2]string
	cases                []struct {
		c, col string
		field  *string
	}
	versionCols []string
}

func rxjQueryEval(repo string, cNames []string, cVals []int64) (*rxjQueryFacts, error) {
	type built struct{ SQL, State string }
	type one struct {
		C                               int
		SQL, Err, State, NoDist, NoRepo string
	}
	var ans struct {
		DistCPE, RepoCPE string
		Source           struct {
			Base, VersionFilter string
			NilSource           built
			Empty               map[string]built
			Constraints         []one
		}
	}
	ints := make([]int, len(cVals))
	for i, v := range cVals {
		ints[i] = int(v)
	}
	if err := rxProbe(repo, "querybuilder", map[string]any{"constraints": ints}, &ans); err != nil {
		return nil, err
	}
	if ans.Source.Base == "" || len(ans.Source.Constraints) != len(ints) {
		return nil, fmt.Errorf("querybuilder probe: buildGetQuery gives no query for the complete record (or a short answer)")
	}
	field := func(lit string) string {
		v := strings.ReplaceAll(strings.Trim(lit, "'"), "''", "'")
		switch {
		case strings.HasPrefix(v, "~rx:") && strings.HasSuffix(v, "~"):
			return v[4 : len(v)-1]
		case v == ans.DistCPE:
			return "Distribution.CPE"
		case v == ans.RepoCPE:
			return "Repository.CPE"
		}
		return ""
	}
	top := func(sql string) ([]*rxjSQLNode, error) {
		n, err := rxjParseWhere(sql)
		if err != nil {
			return nil, err
		}
		if n.op != "AND" {
			return []*rxjSQLNode{n}, nil
		}
		return n.kids, nil
	}
	clause := func(n *rxjSQLNode) ([][2]string, error) {
		ks := []*rxjSQLNode{n}
		if n.op == "AND" {
			ks = n.kids
		}
		var out [][2]string
		for _, k := range ks {
			f := ""
			if k.op == "cond" && k.cmp == "=" {
				f = field(k.val)
			}
			if f == "" {
				return nil, fmt.Errorf("the package condition %s is not a conjunction of `column = record field`", n)
			}
			out = append(out, [2]string{k.col, f})
		}
		return out, nil
	}
	qf := &rxjQueryFacts{}
	// ---- the package condition: the first operand of the WHERE conjunction, for a package with a source
	bt, err := top(ans.Source.Base)
	if err != nil {
		return nil, err
	}
	pkgNode := bt[0]
	if bt[0].op == "OR" {
		if len(bt[0].kids) != 2 {
			return nil, fmt.Errorf("the package condition %s has %d alternatives: not `<package condition> OR <source condition>`", bt[0], len(bt[0].kids))
		}
		pkgNode = bt[0].kids[0]
		if qf.srcClause, err = clause(bt[0].kids[1]); err != nil {
			return nil, err
		}
	} else {
		qf.srcClause = [][2]string{} // the source package is not looked at
	}
	if qf.pkgClause, err = clause(pkgNode); err != nil {
		return nil, err
	}
	// ---- guards: which empty field removes the source alternative / makes the record refused
	var srcGuards, nameGuards []string
	var keys []string
	for k := range ans.Source.Empty {
		keys = append(keys, k)
	}
	sort.Strings(keys)
	for _, k := range keys {
		b := ans.Source.Empty[k]
		switch {
		case b.State == "err":
			nameGuards = append(nameGuards, k)
		case b.State != "ok":
			return nil, fmt.Errorf("buildGetQuery panics on a record whose %s is empty", k)
		case strings.HasPrefix(k, "Package.Source.") && bt[0].op == "OR":
			et, err := top(b.SQL)
			if err != nil {
				return nil, err
			}
			if et[0].String() == pkgNode.String() {
				srcGuards = append(srcGuards, k)
			}
		}
	}
	qf.srcGuard = strings.Join(srcGuards, "|")
	qf.nameGuard = strings.Join(nameGuards, "|")
	switch ans.Source.NilSource.State {
	case "ok":
		nt, err := top(ans.Source.NilSource.SQL)
		if err != nil {
			return nil, err
		}
		if nt[0].String() != pkgNode.String() {
			return nil, fmt.Errorf("for a package without a source the package condition is %s, with one it starts with %s: outside what Gen/JoinQuery can say", nt[0], pkgNode)
		}
		qf.srcNilGuard = true
	case "panic":
		qf.srcNilGuard = false
	default:
		return nil, fmt.Errorf("buildGetQuery refuses a record whose package has no source: outside what Gen/JoinQuery can say")
	}
	// ---- the constraints
	baseSet := map[string]bool{}
	for _, k := range bt {
		baseSet[k.String()] = true
	}
	type qc struct {
		c, col string
		field  *string
	}
	got := map[string]qc{}
	guards := map[string]bool{}
	for i, c := range ans.Source.Constraints {
		name := cNames[i]
		if c.State == "panic" {
			return nil, fmt.Errorf("buildGetQuery panics on constraint %s for a complete record", name)
		}
		if c.State != "ok" {
			continue // a constraint buildGetQuery does not know: no arm
		}
		ct, err := top(c.SQL)
		if err != nil {
			return nil, err
		}
		var added []*rxjSQLNode
		for _, k := range ct {
			if !baseSet[k.String()] {
				added = append(added, k)
			}
		}
		if len(added) != 1 || added[0].op != "cond" {
			var as []string
			for _, a := range added {
				as = append(as, a.String())
			}
			return nil, fmt.Errorf("constraint %s adds %d conditions %v to the query: not one `column = record field` / `column <> ''`", name, len(added), as)
		}
		a := added[0]
		f := field(a.val)
		switch {
		case a.cmp == "=" && f != "":
			got[name] = qc{name, a.col, &f}
		case (a.cmp == "!=" || a.cmp == "<>") && a.val == "''":
			got[name] = qc{name, a.col, nil}
		default:
			return nil, fmt.Errorf("constraint %s adds the condition %s: neither a record field nor `<> ''`", name, a)
		}
		for part, state := range map[string]string{"Distribution": c.NoDist, "Repository": c.NoRepo} {
			switch state {
			case "err":
				guards[name+":"+part] = true
			case "panic": // no guard: the model says nil dereference
			case "ok":
				if strings.HasPrefix(f, part+".") {
					return nil, fmt.Errorf("constraint %s compares %s but a record without %s is queried", name, f, part)
				}
			}
		}
	}
	order := func(snap []string) []string {
		var out []string
		seen := map[string]bool{}
		for _, s := range snap {
			c, _, _ := strings.Cut(s, ":")
			if !seen[c] {
				seen[c] = true
				out = append(out, c)
			}
		}
		for _, c := range cNames {
			if !seen[c] {
				seen[c] = true
				out = append(out, c)
			}
		}
		return out
	}
	var colSnap []string
	for _, r := range rxSnapQueryColumns {
		colSnap = append(colSnap, r[0])
	}
	for _, c := range order(colSnap) {
		if q, ok := got[c]; ok {
			qf.cases = append(qf.cases, struct {
				c, col string
				field  *string
			}{q.c, q.col, q.field})
		}
	}
	for _, c := range order(rxSnapQueryNeeds) {
		for _, part := range []string{"Distribution", "Repository"} {
			if guards[c+":"+part] {
				qf.nilGuards = append(qf.nilGuards, [2]string{c, part})
			}
		}
	}
	if len(qf.cases) == 0 {
		return nil, fmt.Errorf("buildGetQuery knows no constraint")
	}
	// ---- version filtering
	vt, err := top(ans.Source.VersionFilter)
	if err != nil {
		return nil, err
	}
	qf.versionCols = []string{}
	for _, k := range vt {
		if baseSet[k.String()] {
			continue
		}
		ks := []*rxjSQLNode{k}
		if k.op == "AND" {
			ks = k.kids
		}
		for _, x := range ks {
			switch {
			case x.op == "cond" && x.cmp == "=" && field(x.val) == "Package.NormalizedVersion.Kind":
				qf.versionCols = append(qf.versionCols, x.col)
			case x.op == "raw" && strings.HasSuffix(x.val, "'{1,2,3,4,5,6,7,8,9,10}'::int[]"):
				qf.versionCols = append(qf.versionCols, strings.TrimSuffix(x.val, "'{1,2,3,4,5,6,7,8,9,10}'::int[]"))
			default:
				qf.versionCols = append(qf.versionCols, "?"+x.String())
			}
		}
	}
	return qf, nil
}

// ---- the INSERT of updateVulnerabilities (read)

// the spelling Gen/JoinQuery gave a computed argument (a local variable that is
// no field of the vulnerability), by column: names only.
var rxSnapInsertComputed = map[string]string{
	"hash_kind": "$hashKind", "hash": "$hash", "version_kind": "$vKind", "vulnerable_range": "$vrLower",
}

var rxjInsertRe = regexp.MustCompile(`(?s)INSERT INTO vuln\s*\((.*?)\)\s*VALUES\s*\((.*)\)\s*ON CONFLICT`)

func rxjInsertColumns(repo string) ([][2]string, error) {
	pg, err := rxLoadPkg(repo, "datastore/postgres")
	if err != nil {
		return nil, err
	}
	type hit struct {
		fd   *ast.FuncDecl
		call *ast.CallExpr
		arg  int
		sql  []string
	}
	var hits []hit
	for _, f := range pg.files {
		for _, d := range f.Decls {
			fd, ok := d.(*ast.FuncDecl)
			if !ok || fd.Body == nil {
				continue
			}
			sc := pg.ScopeOf(fd)
			ast.Inspect(fd.Body, func(n ast.Node) bool {
				ce, ok := n.(*ast.CallExpr)
				if !ok {
					return true
				}
				for i, a := range ce.Args {
					if s, ok := sc.Str(a); ok {
						if m := rxjInsertRe.FindStringSubmatch(s); m != nil {
							hits = append(hits, hit{fd, ce, i, m})
						}
					}
				}
				return true
			})
		}
	}
	if len(hits) != 1 {
		return nil, fmt.Errorf("datastore/postgres: expected one call passing an `INSERT INTO vuln (…) VALUES (…) ON CONFLICT` statement, found %d", len(hits))
	}
	h := hits[0]
	var cols []string
	for _, c := range strings.Split(h.sql[1], ",") {
		cols = append(cols, strings.TrimSpace(c))
	}
	items := rxjSplitTop(strings.Join(strings.Fields(h.sql[2]), ""), ",")
	if len(items) != len(cols) {
		return nil, fmt.Errorf("updateVulnerabilities: %d columns but %d values in the INSERT", len(cols), len(items))
	}
	args := h.call.Args[h.arg+1:]
	// local aliases `x := <expr>` (first definition) inside the function
	alias := map[string]ast.Expr{}
	params := map[string]bool{}
	ast.Inspect(h.fd, func(n ast.Node) bool {
		switch x := n.(type) {
		case *ast.AssignStmt:
			if x.Tok == token.DEFINE && len(x.Lhs) == len(x.Rhs) {
				for i, l := range x.Lhs {
					if id, ok := l.(*ast.Ident); ok {
						if _, dup := alias[id.Name]; !dup {
							alias[id.Name] = x.Rhs[i]
						}
					}
				}
			}
		case *ast.FuncType:
			if x.Params != nil {
				for _, fl := range x.Params.List {
					for _, nm := range fl.Names {
						params[nm.Name] = true
					}
				}
			}
		case *ast.RangeStmt:
			for _, e := range []ast.Expr{x.Key, x.Value} {
				if id, ok := e.(*ast.Ident); ok {
					params[id.Name] = true
				}
			}
		}
		return true
	})
	// path of an argument: field names from the root variable (a parameter or loop variable)
	var path func(e ast.Expr, depth int) (root string, fields []string, ok bool)
	path = func(e ast.Expr, depth int) (string, []string, bool) {
		if depth > 8 {
			return "", nil, false
		}
		switch x := j_unparen(e).(type) {
		case *ast.SelectorExpr:
			r, fs, ok := path(x.X, depth+1)
			if !ok {
				return "", nil, false
			}
			return r, append(fs, x.Sel.Name), true
		case *ast.StarExpr:
			return path(x.X, depth+1)
		case *ast.UnaryExpr:
			if x.Op == token.AND {
				return path(x.X, depth+1)
			}
		case *ast.Ident:
			if a, ok := alias[x.Name]; ok && !params[x.Name] {
				if r, fs, ok := path(a, depth+1); ok && len(fs) > 0 {
					return r, fs, true
				}
				return "", nil, false
			}
			if params[x.Name] {
				return x.Name, nil, true
			}
		}
		return "", nil, false
	}
	roots := map[string]int{}
	type av struct {
		root string
		text string
	}
	vals := make([]av, len(args))
	for i, a := range args {
		if r, fs, ok := path(a, 0); ok && len(fs) > 0 {
			vals[i] = av{r, strings.Join(fs, ".")}
			roots[r]++
		}
	}
	vroot := ""
	for r, n := range roots {
		if vroot == "" || n > roots[vroot] || (n == roots[vroot] && r < vroot) {
			vroot = r
		}
	}
	ph := regexp.MustCompile(`^\$([0-9]+)$`)
	vr := regexp.MustCompile(`^VersionRange\(\$([0-9]+),\$([0-9]+)\)$`)
	var out [][2]string
	used := map[int]bool{}
	for i, c := range cols {
		idx := -1
		if m := ph.FindStringSubmatch(items[i]); m != nil {
			idx, _ = strconv.Atoi(m[1])
		} else if m := vr.FindStringSubmatch(items[i]); m != nil {
			idx, _ = strconv.Atoi(m[1])
			hi, _ := strconv.Atoi(m[2])
			used[hi-1] = true
		} else {
			out = append(out, [2]string{c, "$sql:" + items[i]})
			continue
		}
		idx--
		if idx < 0 || idx >= len(args) {
			return nil, fmt.Errorf("updateVulnerabilities: VALUES names $%d but the call passes %d arguments", idx+1, len(args))
		}
		used[idx] = true
		switch v := vals[idx]; {
		case v.text != "" && v.root == vroot:
			out = append(out, [2]string{c, v.text})
		default:
			sp, ok := rxSnapInsertComputed[c]
			if !ok {
				sp = "$computed"
			}
			out = append(out, [2]string{c, sp})
		}
	}
	if len(used) != len(args) {
		return nil, fmt.Errorf("updateVulnerabilities: VALUES list or argument count not recognised (%d columns, %d arguments, %d of them used)", len(cols), len(args), len(used))
	}
	return out, nil
}
