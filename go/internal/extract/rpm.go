package extract

import (
	"fmt"
	"go/ast"
	"sort"
	"strconv"
	"strings"
)

// Rpm: the facts of the rpm header reader that are tables rather than logic.
//
// EVALUATED (design/EXTRACT.md, round 2) by the probe go/cmd/rxprobe/rpm on the
// real reader (hooks of package rpm):
//
//	typeX, tagHeaderX   the constants as compiled (HeaderConstantsForVerif)
//	tagTable            the (tag, declared type) rows of the table as initialised (TagTableForVerif): a literal, a
//	                    generated file or a table filled in init() give the same rows
//	wantTags            the tags Info.Load reads: a one-entry header whose entry is an unterminated string makes
//	                    Load fail exactly for them (candidates: every tag of the table, its neighbours, unknown ones)
//	loadAsserts         per wanted tag: the data types 1..9 under which Load accepts a one-entry header; the Go type
//	                    is the one ReadData yields for exactly those types; `checked` = no type makes Load panic
//	filenamesGuardsEmpty an empty name under the rpm4 Filenames tag neither panics nor hides the other names
//	fileLoopUnderRecover directory indexes that point nowhere do not panic out of Load, well-formed ones give names
//	filePatterns        the alternatives of the COMPILED expression (FilePatternsForVerif), split at top-level `|`
//
// so a map turned into a switch, a case routed through a generic helper, a
// guard written the other way round or a pattern list built elsewhere leave
// the text alone.
func init() {
	Register(Gen{Name: "Rpm", Run: func(repo string) (string, error) {
		var ans struct {
			Consts       map[string]int64    `json:"consts"`
			TagTable     [][2]int64          `json:"tagTable"`
			FilePatterns string              `json:"filePatterns"`
			Wanted       []int64             `json:"wanted"`
			Accepts      map[string][]string `json:"accepts"`
			GuardsEmpty  bool                `json:"guardsEmpty"`
			UnderRecover bool                `json:"underRecover"`
			Detail       []string            `json:"detail"`
		}
		if err := rxProbe(repo, "rpm", map[string]any{}, &ans); err != nil {
			return "", err
		}
		vals := ans.Consts
		out := Header("Rpm", "rpm/internal/rpm/tag_string.go", "rpm/internal/rpm/tag_table.go", "rpm/native_db.go")
		kinds := []string{"TypeNull", "TypeChar", "TypeInt8", "TypeInt16", "TypeInt32", "TypeInt64", "TypeString", "TypeBin", "TypeStringArray", "TypeI18nString"}
		for _, k := range kinds {
			v, ok := vals[k]
			if !ok {
				return "", fmt.Errorf("constant %s not reported by the probe", k)
			}
			out += fmt.Sprintf("def %s : Nat := %d\n", lower(k), v)
		}
		for _, k := range []string{"TagHeaderImage", "TagHeaderSignatures", "TagHeaderImmutable", "TagHeaderI18nTable"} {
			v, ok := vals[k]
			if !ok {
				return "", fmt.Errorf("constant %s not reported by the probe", k)
			}
			out += fmt.Sprintf("def %s : Int := %d\n", lower(k), v)
		}
		if len(ans.TagTable) == 0 {
			return "", fmt.Errorf("tagTable is empty")
		}
		var rows []string
		for _, r := range ans.TagTable {
			rows = append(rows, fmt.Sprintf("(%d, %d)", r[0], r[1]))
		}
		out += "\n/-- (tag, declared type) rows of tagTable, in source order -/\ndef tagTable : List (Int × Nat) := [\n  " + strings.Join(rows, ",\n  ") + "]\n"

		want := append([]int64(nil), ans.Wanted...)
		sort.Slice(want, func(i, j int) bool { return want[i] < want[j] })
		out += "\ndef wantTags : List Int := " + LeanNatList(want) + "\n"

		// the Go type ReadData yields per data type
		goType := map[int64]string{
			vals["TypeChar"]: "[]byte", vals["TypeBin"]: "[]byte", vals["TypeInt8"]: "[]int8", vals["TypeInt16"]: "[]int16",
			vals["TypeInt32"]: "[]int32", vals["TypeInt64"]: "[]uint64", vals["TypeString"]: "string",
			vals["TypeStringArray"]: "[]string", vals["TypeI18nString"]: "[]string",
		}
		type assertRow struct {
			tag     int64
			typ     string
			checked bool
		}
		var asserts []assertRow
		for _, t := range want {
			row := ans.Accepts[strconv.FormatInt(t, 10)]
			if len(row) < 10 {
				return "", fmt.Errorf("rpm probe: no outcomes for wanted tag %d", t)
			}
			var okKinds []int64
			panics, all := false, true
			for k := int64(0); k < int64(len(row)); k++ {
				if _, readable := goType[k]; !readable {
					continue
				}
				switch row[k] {
				case "ok":
					okKinds = append(okKinds, k)
				case "panic":
					panics, all = true, false
				default:
					all = false
				}
			}
			if all {
				continue // read, but nothing is asserted about it
			}
			typ := ""
			for _, g := range []string{"[]byte", "[]int8", "[]int16", "[]int32", "[]uint64", "string", "[]string"} {
				var ks []int64
				for k, gt := range goType {
					if gt == g {
						ks = append(ks, k)
					}
				}
				sort.Slice(ks, func(i, j int) bool { return ks[i] < ks[j] })
				if fmt.Sprint(ks) == fmt.Sprint(okKinds) {
					typ = g
				}
			}
			if typ == "" {
				typ = fmt.Sprintf("<accepted under the data types %v>", okKinds)
			}
			asserts = append(asserts, assertRow{t, typ, !panics})
		}
		out += "\n/-- (tag, asserted Go type, assertion is checked) for every case of the switch in Info.Load -/\ndef loadAsserts : List (Int × String × Bool) := [\n"
		for i, a := range asserts {
			sep := ","
			if i == len(asserts)-1 {
				sep = ""
			}
			out += fmt.Sprintf("  (%d, %s, %v)%s\n", a.tag, LeanString(a.typ), a.checked, sep)
		}
		out += "]\n"
		out += fmt.Sprintf("\n/-- the Filenames case of Info.Load skips empty names before `name[1:]` -/\ndef filenamesGuardsEmpty : Bool := %v\n", ans.GuardsEmpty)
		out += fmt.Sprintf("\n/-- the loop over basename in Info.Load runs after a deferred recover() -/\ndef fileLoopUnderRecover : Bool := %v\n", ans.UnderRecover)
		pats := rxSplitAlternatives(ans.FilePatterns)
		if len(pats) == 0 {
			return "", fmt.Errorf("filePatterns: empty expression")
		}
		out += "\n/-- the alternatives of the filePatterns regular expression, in source order -/\ndef filePatterns : List String := [\n"
		for i, p := range pats {
			sep := ","
			if i == len(pats)-1 {
				sep = ""
			}
			out += "  " + LeanString(p) + sep + "\n"
		}
		out += "]\n"
		return out + Footer("Rpm"), nil
	}})
}

// rxSplitAlternatives splits the source of a regular expression at its
// top-level `|` (outside groups, character classes and escapes).
func rxSplitAlternatives(src string) []string {
	var out []string
	depth, start := 0, 0
	inClass := false
	for i := 0; i < len(src); i++ {
		c := src[i]
		switch {
		case c == '\\':
			i++
		case inClass:
			if c == ']' {
				inClass = false
			} else if c == '[' && i+1 < len(src) && src[i+1] == ':' {
				// [:alpha:]
				if j := strings.Index(src[i:], ":]"); j >= 0 {
					i += j + 1
				}
			}
		case c == '[':
			inClass = true
			// a leading ] (or ^]) is literal
			if i+1 < len(src) && src[i+1] == '^' {
				i++
			}
			if i+1 < len(src) && src[i+1] == ']' {
				i++
			}
		case c == '(':
			depth++
		case c == ')':
			depth--
		case c == '|' && depth == 0:
			out = append(out, src[start:i])
			start = i + 1
		}
	}
	if src == "" {
		return nil
	}
	return append(out, src[start:])
}

func selName(e ast.Expr) string {
	switch x := e.(type) {
	case *ast.SelectorExpr:
		return x.Sel.Name
	case *ast.Ident:
		return x.Name
	}
	return ""
}

func typeString(e ast.Expr) string {
	switch x := e.(type) {
	case *ast.Ident:
		return x.Name
	case *ast.ArrayType:
		if x.Len == nil {
			return "[]" + typeString(x.Elt)
		}
	case *ast.SelectorExpr:
		return selName(x.X) + "." + x.Sel.Name
	case *ast.InterfaceType:
		return "interface{}"
	}
	return "?"
}
